/-
Lemmas for C17: caveats nested in wrappers, propagation of denials through conditionals,
sorting, and the characterisation of each scope helper.
-/
import Macaroon.Flyio.Scopes
import Macaroon.Lemmas.Monotone
import Macaroon.Props.C03

namespace Macaroon.Lemmas
open Macaroon Macaroon.Flyio
variable {B : Type}

/-! ### "anywhere in the set" -/

/-- `Nested c cs`: the caveat `c` occurs in the set `cs`, at top level or inside wrappers
(conditionals) at any depth -/
inductive Nested : Cav B → List (Cav B) → Prop
  | here {c : Cav B} {cs : List (Cav B)} : c ∈ cs → Nested c cs
  | inside {c : Cav B} {cs : List (Cav B)} {n : Bool} {ifs : CavList B} {els : Action} :
      Cav.ifPresent n ifs els ∈ cs → Nested c ifs.toList → Nested c cs

theorem Nested.mono {c : Cav B} {cs cs' : List (Cav B)} (h : Nested c cs) (hs : ∀ x ∈ cs, x ∈ cs') :
    Nested c cs' := by
  cases h with
  | here hm => exact .here (hs _ hm)
  | inside hm hn => exact .inside (hs _ hm) hn

/-- induction over the nesting structure of a caveat: leaves, and wrappers given their contents -/
theorem cav_nested_induction {motive : Cav B → Prop}
    (leaf : ∀ c : Cav B, c.isWrapper = false → motive c)
    (wrap : ∀ n ifs els, (∀ c ∈ CavList.toList ifs, motive c) → motive (.ifPresent n ifs els)) :
    ∀ c, motive c := by
  intro c
  exact go c
where
  go : (c : Cav B) → motive c
    | .ifPresent n ifs els => wrap n ifs els (goL ifs)
    | .organization .. => leaf _ rfl
    | .volumes .. => leaf _ rfl
    | .apps .. => leaf _ rfl
    | .validityWindow .. => leaf _ rfl
    | .featureSet .. => leaf _ rfl
    | .mutations .. => leaf _ rfl
    | .machines .. => leaf _ rfl
    | .confineUser .. => leaf _ rfl
    | .confineOrganization .. => leaf _ rfl
    | .isUser .. => leaf _ rfl
    | .tp .. => leaf _ rfl
    | .bind .. => leaf _ rfl
    | .machineFeatureSet .. => leaf _ rfl
    | .fromMachine .. => leaf _ rfl
    | .clusters .. => leaf _ rfl
    | .confineGoogleHD .. => leaf _ rfl
    | .confineGitHubOrg .. => leaf _ rfl
    | .maxValidity .. => leaf _ rfl
    | .isMember => leaf _ rfl
    | .flyioUserID .. => leaf _ rfl
    | .gitHubUserID .. => leaf _ rfl
    | .googleUserID .. => leaf _ rfl
    | .action .. => leaf _ rfl
    | .commands .. => leaf _ rfl
    | .appFeatureSet .. => leaf _ rfl
    | .storageObjects .. => leaf _ rfl
    | .allowedRoles .. => leaf _ rfl
    | .flySrc .. => leaf _ rfl
    | .unregistered .. => leaf _ rfl
  goL : (l : CavList B) → ∀ c ∈ l.toList, motive c
    | .nil => by intro c hc; simp [CavList.toList] at hc
    | .cons d ds => by
      intro c hc
      simp only [CavList.toList, List.mem_cons] at hc
      rcases hc with hc | hc
      · rw [hc]; exact go d
      · exact goL ds c hc

/-! ### `GetCaveats` finds exactly the caveats of the kind anywhere in the set -/

theorem getCaveatsL_eq (p : Cav B → Bool) : (l : CavList B) → getCaveatsL p l = getCaveats p l.toList
  | .nil => by simp [getCaveatsL, getCaveats, CavList.toList]
  | .cons c cs => by simp [getCaveatsL, getCaveats, CavList.toList, getCaveatsL_eq p cs]

theorem unwrapGet_ifPresent (p : Cav B → Bool) (n : Bool) (ifs : CavList B) (els : Action) :
    unwrapGet p (.ifPresent n ifs els) = getCaveats p ifs.toList := by
  rw [unwrapGet, getCaveatsL_eq]

theorem unwrapGet_leaf (p : Cav B → Bool) (c : Cav B) (h : c.isWrapper = false) : unwrapGet p c = [] := by
  cases c <;> first | rfl | (simp [Cav.isWrapper] at h)

theorem mem_getCaveats_cons (p : Cav B → Bool) (d : Cav B) (ds : List (Cav B)) (c : Cav B) :
    c ∈ getCaveats p (d :: ds) ↔ (c = d ∧ p d = true) ∨ c ∈ unwrapGet p d ∨ c ∈ getCaveats p ds := by
  rw [getCaveats]
  by_cases hp : p d = true <;> simp [hp]

private def UnwrapSpec (p : Cav B → Bool) (d : Cav B) : Prop :=
  ∀ c ∈ unwrapGet p d, p c = true ∧ ∃ n ifs els, d = .ifPresent n ifs els ∧ Nested c ifs.toList

private theorem getCaveats_sound_aux (p : Cav B → Bool) :
    ∀ l : List (Cav B), (∀ d ∈ l, UnwrapSpec p d) → ∀ c ∈ getCaveats p l, p c = true ∧ Nested c l := by
  intro l
  induction l with
  | nil => intro _ c hc; simp [getCaveats] at hc
  | cons d ds ih =>
    intro h c hc
    rcases (mem_getCaveats_cons p d ds c).mp hc with ⟨rfl, hp⟩ | hu | hr
    · exact ⟨hp, .here (List.mem_cons_self ..)⟩
    · obtain ⟨hp, n, ifs, els, rfl, hn⟩ := h d (List.mem_cons_self ..) c hu
      exact ⟨hp, .inside (List.mem_cons_self ..) hn⟩
    · obtain ⟨hp, hn⟩ := ih (fun x hx => h x (List.mem_cons_of_mem _ hx)) c hr
      exact ⟨hp, hn.mono fun x hx => List.mem_cons_of_mem _ hx⟩

private theorem unwrapSpec_all (p : Cav B → Bool) : ∀ d : Cav B, UnwrapSpec p d := by
  apply cav_nested_induction
  · intro c hc x hx
    rw [unwrapGet_leaf p c hc] at hx; cases hx
  · intro n ifs els ih x hx
    rw [unwrapGet_ifPresent] at hx
    obtain ⟨hp, hn⟩ := getCaveats_sound_aux p ifs.toList ih x hx
    exact ⟨hp, n, ifs, els, rfl, hn⟩

theorem mem_getCaveats_of_mem (p : Cav B → Bool) (cs : List (Cav B)) (c : Cav B) (hc : c ∈ cs) (hp : p c = true) :
    c ∈ getCaveats p cs := by
  induction cs with
  | nil => cases hc
  | cons d ds ih =>
    rw [mem_getCaveats_cons]
    rcases List.mem_cons.mp hc with rfl | h
    · exact Or.inl ⟨rfl, hp⟩
    · exact Or.inr (Or.inr (ih h))

theorem mem_getCaveats_of_unwrap (p : Cav B → Bool) (cs : List (Cav B)) (d c : Cav B) (hd : d ∈ cs)
    (hc : c ∈ unwrapGet p d) : c ∈ getCaveats p cs := by
  induction cs with
  | nil => cases hd
  | cons e es ih =>
    rw [mem_getCaveats_cons]
    rcases List.mem_cons.mp hd with rfl | h
    · exact Or.inr (Or.inl hc)
    · exact Or.inr (Or.inr (ih h))

/-- `GetCaveats[T]` returns exactly the caveats of type `T` that occur anywhere in the set -/
theorem mem_getCaveats (p : Cav B → Bool) (cs : List (Cav B)) (c : Cav B) :
    c ∈ getCaveats p cs ↔ p c = true ∧ Nested c cs := by
  constructor
  · exact getCaveats_sound_aux p cs (fun d _ => unwrapSpec_all p d) c
  · rintro ⟨hp, hn⟩
    induction hn with
    | here hm => exact mem_getCaveats_of_mem p _ _ hm hp
    | inside hm _ ih =>
      apply mem_getCaveats_of_unwrap p _ _ _ hm
      rw [unwrapGet_ifPresent]; exact ih

/-! ### a definite denial anywhere in the set denies the set -/

/-- the caveat prohibits the request and the answer is not "resource unspecified" -/
def Denies (c : Cav B) (a : Access) : Prop :=
  prohibits c a ≠ [] ∧ (prohibits c a).is .resUnspecified = false

/-- a conditional never swallows a definite denial of one of its inner caveats -/
theorem ifPresent_denies_of_member (n : Bool) (ifs : CavList B) (els : Action) (a : Access) (x : Cav B)
    (hx : x ∈ ifs.toList) (hd : Denies x a) : Denies (.ifPresent n ifs els) a := by
  refine ⟨?_, ifPresent_never_unspecified n ifs els a⟩
  rw [prohibits_ifPresent]
  cases a.action with
  | none => simp
  | some act =>
    cases n with
    | true => simp
    | false =>
      have hxa : x ∈ applicable ifs.toList a := by
        simp only [applicable, List.mem_filter, Bool.not_eq_eq_eq_not, Bool.not_true]
        exact ⟨hx, hd.2⟩
      have hne : (applicable ifs.toList a).isEmpty = false := by
        cases h : applicable ifs.toList a with
        | nil => rw [h] at hxa; cases hxa
        | cons _ _ => rfl
      simp only [Bool.false_eq_true, ↓reduceIte, hne, Bool.false_and]
      intro h
      exact hd.1 (List.flatMap_eq_nil_iff.mp h x hxa)

theorem nested_denies {c : Cav B} {cs : List (Cav B)} (a : Access) (hn : Nested c cs) (hd : Denies c a) :
    ∃ x ∈ cs, Denies x a ∧ (x = c ∨ x.isWrapper = true) := by
  induction hn with
  | here hm => exact ⟨_, hm, hd, Or.inl rfl⟩
  | inside hm _ ih =>
    obtain ⟨y, hy, hdy, _⟩ := ih
    exact ⟨_, hm, ifPresent_denies_of_member _ _ _ a y hy hdy, Or.inr rfl⟩

/-- Key lemma: a caveat that definitely denies the request (its answer is not "unspecified"),
nested at any depth of conditionals, makes the whole set deny. -/
theorem nested_denial_denies_set {c : Cav B} {cs : List (Cav B)} (a : Access) (hn : Nested c cs)
    (hna : c.isAttestation = false) (hd : Denies c a) : validate cs [a] ≠ [] := by
  intro hv
  obtain ⟨x, hx, hdx, hk⟩ := nested_denies a hn hd
  have hatt : x.isAttestation = false := by
    rcases hk with rfl | hw
    · exact hna
    · cases x <;> simp_all [Cav.isWrapper, Cav.isAttestation]
  exact hdx.1 (((Props.C03.validate_iff cs [a]).mp hv a (List.mem_singleton.mpr rfl)).2 x hx hatt)

/-- validation of a set against one request -/
theorem validate_single_iff (cs : List (Cav B)) (a : Access) :
    validate cs [a] = [] ↔ a.wf = [] ∧ ∀ c ∈ cs, c.isAttestation = false → prohibits c a = [] := by
  rw [Props.C03.validate_iff]; simp

/-! ### sorting -/

theorem mem_insertSorted {K} [BEq K] [LawfulBEq K] (lt : K → K → Bool) (x y : K) (l : List K) :
    y ∈ insertSorted lt x l ↔ y = x ∨ y ∈ l := by
  induction l with
  | nil => simp [insertSorted]
  | cons z zs ih =>
    rw [insertSorted]
    by_cases hxz : (x == z) = true
    · have : x = z := by simpa using hxz
      subst this
      simp
    · simp only [hxz, Bool.false_eq_true, ↓reduceIte]
      by_cases hlt : lt x z = true
      · simp [hlt]
      · simp only [hlt, Bool.false_eq_true, ↓reduceIte, List.mem_cons, ih]
        constructor
        · rintro (h | h | h)
          · exact Or.inr (Or.inl h)
          · exact Or.inl h
          · exact Or.inr (Or.inr h)
        · rintro (h | h | h)
          · exact Or.inr (Or.inl h)
          · exact Or.inl h
          · exact Or.inr (Or.inr h)

/-- sorting (with removal of duplicates) keeps exactly the elements -/
theorem mem_sortDedup {K} [BEq K] [LawfulBEq K] (lt : K → K → Bool) (y : K) (l : List K) :
    y ∈ sortDedup lt l ↔ y ∈ l := by
  induction l with
  | nil => simp [sortDedup]
  | cons x xs ih =>
    have : sortDedup lt (x :: xs) = insertSorted lt x (sortDedup lt xs) := rfl
    rw [this, mem_insertSorted, ih]; simp

/-! ### small facts about single caveats -/

theorem none_subset (m : Action) : Action.subset 0 m = true := by
  simp [Action.subset]

theorem clears_iff (cs : List (Cav B)) (f : Req) (s : Int) (n : Nat) :
    clears cs f s n = true ↔ validate cs [f.toAccess s n] = [] := by
  simp [clears, List.isEmpty_iff]

/-- an organization caveat, for a request naming organization `o` with the empty action -/
theorem org_permits_none (id : UInt64) (mask : Action) (a : Access) (o : UInt64)
    (ho : a.org = some (some o)) (ha : a.action = some 0) :
    prohibits (.organization id mask : Cav B) a = [] ↔ (id = 0 ∨ id = o) := by
  unfold prohibits
  simp only [ho, ha, none_subset]
  by_cases h0 : id = 0 <;> by_cases h1 : id = o <;> simp [h0, h1]

/-- an organization caveat with a specific id definitely denies a request naming another one -/
theorem org_denies_other (id : UInt64) (mask : Action) (a : Access) (o' : UInt64)
    (ho : a.org = some (some o')) (h0 : id ≠ 0) (hne : o' ≠ id) :
    Denies (.organization id mask : Cav B) a := by
  unfold Denies prohibits
  simp only [ho]
  cases a.action with
  | none => simp [Errs.is, Err.is]
  | some act =>
    have : (id != 0 && id != o') = true := by
      simp only [Bool.and_eq_true, bne_iff_ne, ne_eq]
      exact ⟨h0, fun h => hne h.symm⟩
    simp [this, Errs.is, Err.is]

/-- a resource set asked about a named resource never answers "unspecified" -/
theorem resset_some_not_unspec {K} (z : K → Bool) (m : K → K → Bool) (rs : ResSet K) (id : K) (act : Action) :
    (ResSet.prohibits z m rs (some id) act).is .resUnspecified = false := by
  unfold ResSet.prohibits
  split
  · simp [Errs.is, Err.is]
  · simp only
    split
    · simp [Errs.is, Err.is]
    · split <;> simp [Errs.is, Err.is]

/-- a resource-set caveat that refuses a resource at the empty action definitely denies every
request naming that resource (any action, or no action capability at all) -/
theorem viaGetter_denies_named {K} (z : K → Bool) (m : K → K → Bool) (rs : ResSet K) (id : K)
    (action : Option Action) (h : ResSet.prohibits z m rs (some id) 0 ≠ []) :
    viaGetter (some (some id)) action (ResSet.prohibits z m rs) ≠ [] ∧
      (viaGetter (some (some id)) action (ResSet.prohibits z m rs)).is .resUnspecified = false := by
  unfold viaGetter
  cases action with
  | none => simp [Errs.is, Err.is]
  | some act =>
    simp only
    exact ⟨fun hp => h (resset_antitone z m rs (some id) act 0 (none_subset act) hp),
      resset_some_not_unspec z m rs id act⟩

theorem viaGetter_permits_named {K} (g : Option (Option K)) (action : Option Action) (k : Option K → Action → Errs)
    (id : K) (act : Action) (hg : g = some (some id)) (ha : action = some act) :
    viaGetter g action k = k (some id) act := by
  subst hg ha; rfl

/-! ### the core of `AppScope` / `ClusterScope`, over an arbitrary family of resource sets

`S` is the family of maps of the caveats found; an id is *kept* when some map mentions it and
every map permits it at the empty action. -/

section family
variable {K : Type} [BEq K] [LawfulBEq K]

def Mentioned (S : ResSet K → Prop) (k : K) : Prop := ∃ rs, S rs ∧ ∃ e ∈ rs, e.1 = k
def PermitsAll (z : K → Bool) (S : ResSet K → Prop) (k : K) : Prop :=
  ∀ rs, S rs → ResSet.prohibits z ResSet.matchEq rs (some k) 0 = []

omit [LawfulBEq K] in
/-- a map that has a wildcard entry and is well-formed permits every id at the empty action -/
theorem permits_of_wildcard_entry (z : K → Bool) (rs : ResSet K) (e : K × Action) (id : K)
    (hw : ResSet.mixedWildcard z rs = false) (he : e ∈ rs) (hz : z e.1 = true) :
    ResSet.prohibits z ResSet.matchEq rs (some id) 0 = [] := by
  rw [resset_permits_iff]
  exact ⟨hw, ⟨e, he, by simp [hz]⟩, fun _ _ _ => none_subset _⟩

/-- If at least one map was found, `id` was not kept, and no wildcard id was kept, then some map
refuses `id` outright (at the empty action). -/
theorem family_excluded_refused (z : K → Bool) (S : ResSet K → Prop) (id : K)
    (hne : ∃ rs, S rs)
    (hid : ¬ (Mentioned S id ∧ PermitsAll z S id))
    (hwild : ∀ w, z w = true → ¬ (Mentioned S w ∧ PermitsAll z S w)) :
    ∃ rs, S rs ∧ ResSet.prohibits z ResSet.matchEq rs (some id) 0 ≠ [] := by
  apply Classical.byContradiction
  intro hcon
  have hall : PermitsAll z S id := by
    intro rs hrs
    apply Classical.byContradiction
    intro h
    exact hcon ⟨rs, hrs, h⟩
  have hnm : ¬ Mentioned S id := fun hm => hid ⟨hm, hall⟩
  obtain ⟨rs0, hrs0⟩ := hne
  obtain ⟨_, ⟨e, he, hcov⟩, _⟩ := (resset_permits_iff z ResSet.matchEq rs0 id 0).mp (hall rs0 hrs0)
  -- the covering entry is a wildcard, since `id` is mentioned nowhere
  have hz : z e.1 = true := by
    rcases Bool.or_eq_true _ _ |>.mp hcov with h | h
    · exact h
    · exact absurd ⟨rs0, hrs0, e, he, by simpa [ResSet.matchEq] using h⟩ hnm
  -- that wildcard id is mentioned, so it was not kept: some map refuses it …
  apply hwild e.1 hz
  refine ⟨⟨rs0, hrs0, e, he, rfl⟩, ?_⟩
  intro rs hrs
  -- … but every map permits `id`, hence (covering it by a wildcard entry) permits the wildcard id too
  obtain ⟨hw', ⟨e', he', hcov'⟩, _⟩ := (resset_permits_iff z ResSet.matchEq rs id 0).mp (hall rs hrs)
  have hz' : z e'.1 = true := by
    rcases Bool.or_eq_true _ _ |>.mp hcov' with h | h
    · exact h
    · exact absurd ⟨rs, hrs, e', he', by simpa [ResSet.matchEq] using h⟩ hnm
  exact permits_of_wildcard_entry z rs e' e.1 hw' he' hz'

/-- if a wildcard id was kept, every map is a lone wildcard entry and permits every id -/
theorem family_wildcard_kept (z : K → Bool) (S : ResSet K → Prop) (w : K) (hz : z w = true)
    (hzuniq : ∀ k, z k = true → k = w)
    (hall : PermitsAll z S w) : ∀ rs, S rs → (∃ m, rs = [(w, m)]) ∧ ∀ id, ResSet.prohibits z ResSet.matchEq rs (some id) 0 = [] := by
  intro rs hrs
  obtain ⟨hw, ⟨e, he, hcov⟩, _⟩ := (resset_permits_iff z ResSet.matchEq rs w 0).mp (hall rs hrs)
  have hze : z e.1 = true := by
    rcases Bool.or_eq_true _ _ |>.mp hcov with h | h
    · exact h
    · have : e.1 = w := by simpa [ResSet.matchEq] using h
      rw [this]; exact hz
  refine ⟨⟨e.2, ?_⟩, fun id => permits_of_wildcard_entry z rs e id hw he hze⟩
  have := wildcard_is_lone z rs e hw he hze
  rw [this, ← hzuniq e.1 hze]

end family

/-! ### `OrganizationScope` -/

theorem isOrg_iff (c : Cav B) : isOrg c = true ↔ ∃ id mask, c = .organization id mask := by
  cases c <;> simp [isOrg]
theorem isApps_iff (c : Cav B) : isApps c = true ↔ ∃ rs, c = .apps rs := by
  cases c <;> simp [isApps]
theorem isClusters_iff (c : Cav B) : isClusters c = true ↔ ∃ rs, c = .clusters rs := by
  cases c <;> simp [isClusters]
theorem isWindow_iff (c : Cav B) : isWindow c = true ↔ ∃ nb na, c = .validityWindow nb na := by
  cases c <;> simp [isWindow]

theorem orgReq_access (o : UInt64) (s : Int) (n : Nat) :
    ((orgReq o).toAccess s n).wf = [] ∧ ((orgReq o).toAccess s n).org = some (some o) ∧
      ((orgReq o).toAccess s n).action = some 0 := by
  refine ⟨?_, rfl, rfl⟩
  simp [Req.toAccess, orgReq, Flyio.validate, Req.zero, cnt]

/-- what a successful `OrganizationScope` establishes -/
theorem orgScope_ok (cs : List (Cav B)) (o : UInt64) (h : organizationScope cs = .ok o) :
    ∃ c rest, getCaveats isOrg cs = c :: rest ∧ orgIdOf c = o ∧
      validate (c :: rest) [(orgReq o).toAccess 0 0] = [] := by
  unfold organizationScope at h
  split at h
  · cases h
  · rename_i c rest heq
    simp only at h
    split at h
    · rename_i he
      injection h with h
      exact ⟨c, rest, heq, h, by rw [← h]; exact List.isEmpty_iff.mp he⟩
    · cases h

/-! ### `AppScope` and `ClusterScope` -/

def zeroU64 (k : UInt64) : Bool := k == 0
def zeroStr (k : Bytes) : Bool := k.isEmpty

theorem prohibitsU64_eq (rs : ResSet UInt64) : ResSet.prohibitsU64 rs = ResSet.prohibits zeroU64 ResSet.matchEq rs := rfl
theorem prohibitsStr_eq (rs : ResSet Bytes) : ResSet.prohibitsStr rs = ResSet.prohibits zeroStr ResSet.matchEq rs := rfl

/-- the maps of the `Apps` caveats anywhere in the set -/
def AppsIn (cs : List (Cav B)) (rs : ResSet UInt64) : Prop := Nested (.apps rs : Cav B) cs
/-- the maps of the `Clusters` caveats anywhere in the set -/
def ClustersIn (cs : List (Cav B)) (rs : ResSet Bytes) : Prop := Nested (.clusters rs : Cav B) cs

theorem mem_appKeys (l : List (Cav B)) (k : UInt64) :
    k ∈ appKeys l ↔ ∃ rs, Cav.apps rs ∈ l ∧ ∃ e ∈ rs, e.1 = k := by
  induction l with
  | nil => simp [appKeys]
  | cons d ds ih =>
    cases d <;> simp [appKeys, ih]

theorem mem_clusterKeys (l : List (Cav B)) (k : Bytes) :
    k ∈ clusterKeys l ↔ ∃ rs, Cav.clusters rs ∈ l ∧ ∃ e ∈ rs, e.1 = k := by
  induction l with
  | nil => simp [clusterKeys]
  | cons d ds ih =>
    cases d <;> simp [clusterKeys, ih]

theorem mem_apps_found (cs : List (Cav B)) (rs : ResSet UInt64) :
    Cav.apps rs ∈ getCaveats isApps cs ↔ AppsIn cs rs := by
  rw [mem_getCaveats]; simp [isApps, AppsIn]
theorem mem_clusters_found (cs : List (Cav B)) (rs : ResSet Bytes) :
    Cav.clusters rs ∈ getCaveats isClusters cs ↔ ClustersIn cs rs := by
  rw [mem_getCaveats]; simp [isClusters, ClustersIn]

theorem appReq_access (id : UInt64) (s : Int) (n : Nat) :
    ((appReq id).toAccess s n).wf = [] ∧ ((appReq id).toAccess s n).app = some (some id) ∧
      ((appReq id).toAccess s n).action = some 0 := by
  refine ⟨?_, rfl, rfl⟩
  simp [Req.toAccess, appReq, Flyio.validate, Req.zero, cnt]

theorem clusterReq_access (id : Bytes) (s : Int) (n : Nat) :
    ((clusterReq id).toAccess s n).wf = [] ∧ ((clusterReq id).toAccess s n).cluster = some (some id) ∧
      ((clusterReq id).toAccess s n).action = some 0 := by
  refine ⟨?_, rfl, rfl⟩
  simp [Req.toAccess, clusterReq, Flyio.validate, Req.zero, cnt]

/-- the re-validation `AppScope` performs for a candidate id -/
theorem clears_apps_iff (cs : List (Cav B)) (id : UInt64) :
    clears (getCaveats isApps cs) (appReq id) 0 0 = true ↔ PermitsAll zeroU64 (AppsIn cs) id := by
  rw [clears_iff, validate_single_iff]
  obtain ⟨hwf, happ, hact⟩ := appReq_access id 0 0
  constructor
  · rintro ⟨_, h⟩ rs hrs
    have := h _ ((mem_apps_found cs rs).mpr hrs) rfl
    rw [prohibits, viaGetter_permits_named _ _ _ id 0 happ hact] at this
    exact this
  · intro h
    refine ⟨hwf, fun c hc _ => ?_⟩
    obtain ⟨hp, _⟩ := (mem_getCaveats _ _ _).mp hc
    obtain ⟨rs, rfl⟩ := (isApps_iff c).mp hp
    rw [prohibits, viaGetter_permits_named _ _ _ id 0 happ hact]
    exact h rs ((mem_apps_found cs rs).mp hc)

theorem clears_clusters_iff (cs : List (Cav B)) (id : Bytes) :
    clears (getCaveats isClusters cs) (clusterReq id) 0 0 = true ↔ PermitsAll zeroStr (ClustersIn cs) id := by
  rw [clears_iff, validate_single_iff]
  obtain ⟨hwf, hcl, hact⟩ := clusterReq_access id 0 0
  constructor
  · rintro ⟨_, h⟩ rs hrs
    have := h _ ((mem_clusters_found cs rs).mpr hrs) rfl
    rw [prohibits, viaGetter_permits_named _ _ _ id 0 hcl hact] at this
    exact this
  · intro h
    refine ⟨hwf, fun c hc _ => ?_⟩
    obtain ⟨hp, _⟩ := (mem_getCaveats _ _ _).mp hc
    obtain ⟨rs, rfl⟩ := (isClusters_iff c).mp hp
    rw [prohibits, viaGetter_permits_named _ _ _ id 0 hcl hact]
    exact h rs ((mem_clusters_found cs rs).mp hc)

theorem mentioned_apps_iff (cs : List (Cav B)) (id : UInt64) :
    id ∈ appKeys (getCaveats isApps cs) ↔ Mentioned (AppsIn cs) id := by
  rw [mem_appKeys]
  constructor
  · rintro ⟨rs, hrs, e, he, hk⟩; exact ⟨rs, (mem_apps_found cs rs).mp hrs, e, he, hk⟩
  · rintro ⟨rs, hrs, e, he, hk⟩; exact ⟨rs, (mem_apps_found cs rs).mpr hrs, e, he, hk⟩

theorem mentioned_clusters_iff (cs : List (Cav B)) (id : Bytes) :
    id ∈ clusterKeys (getCaveats isClusters cs) ↔ Mentioned (ClustersIn cs) id := by
  rw [mem_clusterKeys]
  constructor
  · rintro ⟨rs, hrs, e, he, hk⟩; exact ⟨rs, (mem_clusters_found cs rs).mp hrs, e, he, hk⟩
  · rintro ⟨rs, hrs, e, he, hk⟩; exact ⟨rs, (mem_clusters_found cs rs).mpr hrs, e, he, hk⟩

theorem found_nonempty_apps (cs : List (Cav B)) (h : (getCaveats isApps cs).isEmpty = false) : ∃ rs, AppsIn cs rs := by
  cases hl : getCaveats isApps cs with
  | nil => rw [hl] at h; cases h
  | cons c rest =>
    have hc : c ∈ getCaveats isApps cs := by rw [hl]; exact List.mem_cons_self ..
    obtain ⟨rs, rfl⟩ := (isApps_iff c).mp ((mem_getCaveats _ _ _).mp hc).1
    exact ⟨rs, (mem_apps_found cs rs).mp hc⟩

theorem found_nonempty_clusters (cs : List (Cav B)) (h : (getCaveats isClusters cs).isEmpty = false) : ∃ rs, ClustersIn cs rs := by
  cases hl : getCaveats isClusters cs with
  | nil => rw [hl] at h; cases h
  | cons c rest =>
    have hc : c ∈ getCaveats isClusters cs := by rw [hl]; exact List.mem_cons_self ..
    obtain ⟨rs, rfl⟩ := (isClusters_iff c).mp ((mem_getCaveats _ _ _).mp hc).1
    exact ⟨rs, (mem_clusters_found cs rs).mp hc⟩

/-- the ids `AppScope` keeps -/
def appsKept (cs : List (Cav B)) : List UInt64 :=
  (sortDedup ltU64 (appKeys (getCaveats isApps cs))).filter fun id => clears (getCaveats isApps cs) (appReq id) 0 0

theorem mem_appsKept (cs : List (Cav B)) (id : UInt64) :
    id ∈ appsKept cs ↔ Mentioned (AppsIn cs) id ∧ PermitsAll zeroU64 (AppsIn cs) id := by
  rw [appsKept, List.mem_filter, mem_sortDedup, mentioned_apps_iff, clears_apps_iff]

/-- the ids `ClusterScope` keeps -/
def clustersKept (cs : List (Cav B)) : List Bytes :=
  (sortDedup Bytes.lt (clusterKeys (getCaveats isClusters cs))).filter fun id => clears (getCaveats isClusters cs) (clusterReq id) 0 0

theorem mem_clustersKept (cs : List (Cav B)) (id : Bytes) :
    id ∈ clustersKept cs ↔ Mentioned (ClustersIn cs) id ∧ PermitsAll zeroStr (ClustersIn cs) id := by
  rw [clustersKept, List.mem_filter, mem_sortDedup, mentioned_clusters_iff, clears_clusters_iff]

/-- the three outcomes of `AppScope` -/
theorem appScope_cases (cs : List (Cav B)) :
    (appScope cs = none ∧ (getCaveats isApps cs).isEmpty = true) ∨
    (appScope cs = none ∧ (getCaveats isApps cs).isEmpty = false ∧ (0 : UInt64) ∈ appsKept cs) ∨
    (appScope cs = some (appsKept cs) ∧ (getCaveats isApps cs).isEmpty = false ∧ (0 : UInt64) ∉ appsKept cs) := by
  have hdef : appScope cs = if (getCaveats isApps cs).isEmpty then none
      else if (appsKept cs).contains 0 then none else some (appsKept cs) := rfl
  rw [hdef]
  by_cases he : (getCaveats isApps cs).isEmpty = true
  · left; simp [he]
  · simp only [Bool.not_eq_true] at he
    right
    simp only [he, Bool.false_eq_true, ↓reduceIte]
    by_cases h0 : (0 : UInt64) ∈ appsKept cs
    · left
      have : (appsKept cs).contains 0 = true := List.contains_iff_mem.mpr h0
      rw [if_pos this]; exact ⟨rfl, trivial, h0⟩
    · right
      have : ¬ ((appsKept cs).contains 0 = true) := fun h => h0 (List.contains_iff_mem.mp h)
      rw [if_neg this]; exact ⟨rfl, trivial, h0⟩

/-- `flyio.ClusterScope` as it was before the repair of F11 (no wildcard case); kept for the
negative example `preFix_clusterScope_left_out_may_clear` -/
def clusterScopePreFix (cs : List (Cav B)) : Option (List Bytes) :=
  let cavs := getCaveats isClusters cs
  if cavs.isEmpty then none else
  some ((sortDedup Bytes.lt (clusterKeys cavs)).filter fun id => clears cavs (clusterReq id) 0 0)

theorem clusterScopePreFix_cases (cs : List (Cav B)) :
    (clusterScopePreFix cs = none ∧ (getCaveats isClusters cs).isEmpty = true) ∨
    (clusterScopePreFix cs = some (clustersKept cs) ∧ (getCaveats isClusters cs).isEmpty = false) := by
  unfold clusterScopePreFix
  by_cases he : (getCaveats isClusters cs).isEmpty = true
  · left; simp [he]
  · simp only [Bool.not_eq_true] at he
    right; simp [he, clustersKept]

/-! ### soundness of `OrganizationScope` -/

theorem orgScope_sound (cs : List (Cav B)) (o : UInt64) (h : organizationScope cs = .ok o) :
    (∀ c, Nested c cs → isOrg c = true → ∀ a : Access, a.org = some (some o) → a.action = some 0 →
        prohibits c a = []) ∧
    (o ≠ 0 → ∀ (a : Access) (o' : UInt64), a.org = some (some o') → o' ≠ o → validate cs [a] ≠ []) ∧
    (o = 0 → ∀ c, Nested c cs → isOrg c = true → ∀ (a : Access) (o' : UInt64), a.org = some (some o') →
        a.action = some 0 → prohibits c a = []) := by
  obtain ⟨c0, rest, heq, hid, hv⟩ := orgScope_ok cs o h
  obtain ⟨_, horg, hact⟩ := orgReq_access o 0 0
  -- every organization caveat anywhere in the set carries the wildcard or the returned id
  have hall : ∀ c, Nested c cs → isOrg c = true → ∃ mask, c = .organization 0 mask ∨ c = .organization o mask := by
    intro c hn hp
    have hc : c ∈ c0 :: rest := by rw [← heq]; exact (mem_getCaveats _ _ _).mpr ⟨hp, hn⟩
    obtain ⟨id, mask, rfl⟩ := (isOrg_iff c).mp hp
    have := ((validate_single_iff _ _).mp hv).2 _ hc rfl
    rcases (org_permits_none id mask _ o horg hact).mp this with rfl | rfl
    · exact ⟨mask, Or.inl rfl⟩
    · exact ⟨mask, Or.inr rfl⟩
  refine ⟨?_, ?_, ?_⟩
  · intro c hn hp a ho ha
    obtain ⟨mask, rfl | rfl⟩ := hall c hn hp
    · exact (org_permits_none 0 mask a o ho ha).mpr (Or.inl rfl)
    · exact (org_permits_none o mask a o ho ha).mpr (Or.inr rfl)
  · intro ho0 a o' ho' hne
    have hc0 : c0 ∈ getCaveats isOrg cs := by rw [heq]; exact List.mem_cons_self ..
    obtain ⟨hp, hn⟩ := (mem_getCaveats _ _ _).mp hc0
    obtain ⟨id, mask, rfl⟩ := (isOrg_iff c0).mp hp
    have : id = o := hid
    subst this
    exact nested_denial_denies_set a hn rfl (org_denies_other id mask a o' ho' ho0 hne)
  · intro ho0 c hn hp a o' ho' ha
    subst ho0
    obtain ⟨mask, rfl | rfl⟩ := hall c hn hp <;>
      exact (org_permits_none 0 mask a o' ho' ha).mpr (Or.inl rfl)

/-! ### soundness of `AppScope` -/

theorem zeroU64_iff (k : UInt64) : zeroU64 k = true ↔ k = 0 := by simp [zeroU64]
theorem zeroStr_iff (k : Bytes) : zeroStr k = true ↔ k = [] := by simp [zeroStr]

/-- an `Apps` caveat that refuses app `id` outright definitely denies every request naming it -/
theorem apps_denies_named (rs : ResSet UInt64) (id : UInt64) (a : Access) (ha : a.app = some (some id))
    (h : ResSet.prohibits zeroU64 ResSet.matchEq rs (some id) 0 ≠ []) : Denies (.apps rs : Cav B) a := by
  unfold Denies prohibits
  rw [ha]
  exact viaGetter_denies_named zeroU64 ResSet.matchEq rs id a.action h

theorem clusters_denies_named (rs : ResSet Bytes) (id : Bytes) (a : Access) (ha : a.cluster = some (some id))
    (h : ResSet.prohibits zeroStr ResSet.matchEq rs (some id) 0 ≠ []) : Denies (.clusters rs : Cav B) a := by
  unfold Denies prohibits
  rw [ha]
  exact viaGetter_denies_named zeroStr ResSet.matchEq rs id a.action h

theorem apps_permits_named (rs : ResSet UInt64) (id : UInt64) (a : Access) (ha : a.app = some (some id))
    (hact : a.action = some 0) (h : ResSet.prohibits zeroU64 ResSet.matchEq rs (some id) 0 = []) :
    prohibits (.apps rs : Cav B) a = [] := by
  rw [prohibits, viaGetter_permits_named _ _ _ id 0 ha hact]; exact h

theorem clusters_permits_named (rs : ResSet Bytes) (id : Bytes) (a : Access) (ha : a.cluster = some (some id))
    (hact : a.action = some 0) (h : ResSet.prohibits zeroStr ResSet.matchEq rs (some id) 0 = []) :
    prohibits (.clusters rs : Cav B) a = [] := by
  rw [prohibits, viaGetter_permits_named _ _ _ id 0 ha hact]; exact h

/-- a list was returned: the ids left out are refused by the whole set, whatever else the
request says; the ids in the list clear every `Apps` caveat at the empty action -/
theorem appScope_some_sound (cs : List (Cav B)) (L : List UInt64) (h : appScope cs = some L) :
    (∀ id, id ∉ L → ∀ a : Access, a.app = some (some id) → validate cs [a] ≠ []) ∧
    (∀ id ∈ L, ∀ rs, AppsIn cs rs → ∀ a : Access, a.app = some (some id) → a.action = some 0 →
        prohibits (.apps rs : Cav B) a = []) := by
  rcases appScope_cases cs with ⟨hn, _⟩ | ⟨hn, _⟩ | ⟨hs, hne, h0⟩
  · rw [hn] at h; cases h
  · rw [hn] at h; cases h
  · rw [hs] at h; injection h with h; subst h
    constructor
    · intro id hid a ha
      obtain ⟨rs, hrs, href⟩ := family_excluded_refused zeroU64 (AppsIn cs) id (found_nonempty_apps cs hne)
        (fun hk => hid ((mem_appsKept cs id).mpr hk))
        (fun w hw hk => by
          rw [(zeroU64_iff w).mp hw] at hk
          exact h0 ((mem_appsKept cs 0).mpr hk))
      exact nested_denial_denies_set a hrs rfl (apps_denies_named rs id a ha href)
    · intro id hid rs hrs a ha hact
      exact apps_permits_named rs id a ha hact (((mem_appsKept cs id).mp hid).2 rs hrs)

/-- "unrestricted" was answered: every `Apps` caveat anywhere in the set is a lone wildcard entry,
and every app id clears every one of them at the empty action -/
theorem appScope_none_sound (cs : List (Cav B)) (h : appScope cs = none) :
    ∀ rs, AppsIn cs rs → (∃ m, rs = [((0 : UInt64), m)]) ∧
      ∀ id, ∀ a : Access, a.app = some (some id) → a.action = some 0 → prohibits (.apps rs : Cav B) a = [] := by
  intro rs hrs
  rcases appScope_cases cs with ⟨_, he⟩ | ⟨_, _, h0⟩ | ⟨hs, _, _⟩
  · have : Cav.apps rs ∈ getCaveats isApps cs := (mem_apps_found cs rs).mpr hrs
    rw [List.isEmpty_iff.mp he] at this; cases this
  · obtain ⟨hl, hp⟩ := family_wildcard_kept zeroU64 (AppsIn cs) 0 rfl (fun k hk => (zeroU64_iff k).mp hk)
      ((mem_appsKept cs 0).mp h0).2 rs hrs
    exact ⟨hl, fun id a ha hact => apps_permits_named rs id a ha hact (hp id)⟩
  · rw [hs] at h; cases h

/-! ### what held of `ClusterScope` before the repair of F11 (the wildcard was not recognised) -/

theorem clusterScopePreFix_some_sound (cs : List (Cav B)) (L : List Bytes) (h : clusterScopePreFix cs = some L) :
    (([] : Bytes) ∉ L → ∀ id, id ∉ L → ∀ a : Access, a.cluster = some (some id) → validate cs [a] ≠ []) ∧
    (∀ id ∈ L, ∀ rs, ClustersIn cs rs → ∀ a : Access, a.cluster = some (some id) → a.action = some 0 →
        prohibits (.clusters rs : Cav B) a = []) ∧
    (([] : Bytes) ∈ L → (∀ id ∈ L, id = []) ∧ ∀ rs, ClustersIn cs rs → (∃ m, rs = [(([] : Bytes), m)]) ∧
        ∀ id, ∀ a : Access, a.cluster = some (some id) → a.action = some 0 →
          prohibits (.clusters rs : Cav B) a = []) := by
  rcases clusterScopePreFix_cases cs with ⟨hn, _⟩ | ⟨hs, hne⟩
  · rw [hn] at h; cases h
  · rw [hs] at h; injection h with h; subst h
    refine ⟨?_, ?_, ?_⟩
    · intro h0 id hid a ha
      obtain ⟨rs, hrs, href⟩ := family_excluded_refused zeroStr (ClustersIn cs) id (found_nonempty_clusters cs hne)
        (fun hk => hid ((mem_clustersKept cs id).mpr hk))
        (fun w hw hk => by
          rw [(zeroStr_iff w).mp hw] at hk
          exact h0 ((mem_clustersKept cs []).mpr hk))
      exact nested_denial_denies_set a hrs rfl (clusters_denies_named rs id a ha href)
    · intro id hid rs hrs a ha hact
      exact clusters_permits_named rs id a ha hact (((mem_clustersKept cs id).mp hid).2 rs hrs)
    · intro h0
      have hfam := family_wildcard_kept zeroStr (ClustersIn cs) [] rfl (fun k hk => (zeroStr_iff k).mp hk)
        ((mem_clustersKept cs []).mp h0).2
      constructor
      · intro id hid
        obtain ⟨⟨rs, hrs, e, he, hk⟩, _⟩ := (mem_clustersKept cs id).mp hid
        obtain ⟨⟨m, rfl⟩, _⟩ := hfam rs hrs
        simp only [List.mem_singleton] at he
        rw [← hk, he]
      · intro rs hrs
        obtain ⟨hl, hp⟩ := hfam rs hrs
        exact ⟨hl, fun id a ha hact => clusters_permits_named rs id a ha hact (hp id)⟩

theorem clusterScopePreFix_none_sound (cs : List (Cav B)) (h : clusterScopePreFix cs = none) :
    ∀ c, Nested c cs → isClusters c = false := by
  intro c hn
  rcases clusterScopePreFix_cases cs with ⟨_, he⟩ | ⟨hs, _⟩
  · cases hp : isClusters c with
    | false => rfl
    | true =>
      have : c ∈ getCaveats isClusters cs := (mem_getCaveats _ _ _).mpr ⟨hp, hn⟩
      rw [List.isEmpty_iff.mp he] at this; cases this
  · rw [hs] at h; cases h

/-! ### `AppsAllowing` -/

/-- the same request naming another app -/
def withApp (a : Access) (i : UInt64) : Access := { a with app := some (some i) }

theorem flatMap_congr' {α β} (l : List α) (f g : α → List β) (h : ∀ x ∈ l, f x = g x) :
    l.flatMap f = l.flatMap g := by
  induction l with
  | nil => rfl
  | cons x xs ih =>
    simp only [List.flatMap_cons]
    rw [h x (List.mem_cons_self ..), ih (fun y hy => h y (List.mem_cons_of_mem _ hy))]

/-- a conditional gives the same answer to two requests with the same action on which all its
inner caveats agree -/
theorem ifPresent_congr (n : Bool) (ifs : CavList B) (els : Action) (a a' : Access)
    (hact : a.action = a'.action) (h : ∀ y ∈ ifs.toList, prohibits y a = prohibits y a') :
    prohibits (.ifPresent n ifs els) a = prohibits (.ifPresent n ifs els) a' := by
  rw [prohibits_ifPresent, prohibits_ifPresent, hact]
  have happ : applicable ifs.toList a = applicable ifs.toList a' := by
    unfold applicable
    exact List.filter_congr (fun y hy => by rw [h y hy])
  rw [happ]
  have hfm : (applicable ifs.toList a').flatMap (fun c => prohibits c a) =
      (applicable ifs.toList a').flatMap (fun c => prohibits c a') :=
    flatMap_congr' _ _ _ (fun y hy => h y (List.mem_filter.mp hy).1)
  rw [hfm]

/-- when every `Apps` caveat inside `c` is a lone wildcard entry, `c` does not care which app the
request names -/
theorem prohibits_app_irrelevant : ∀ c : Cav B,
    (∀ rs, Nested (.apps rs : Cav B) [c] → ∃ m, rs = [((0 : UInt64), m)]) →
    ∀ (a : Access) (i j : UInt64), prohibits c (withApp a i) = prohibits c (withApp a j) := by
  apply cav_nested_induction
  · intro c hw h a i j
    cases c with
    | apps rs =>
      obtain ⟨m, rfl⟩ := h rs (.here (List.mem_singleton.mpr rfl))
      unfold prohibits
      cases ha : a.action <;>
        simp [withApp, ha, viaGetter, ResSet.prohibitsU64, ResSet.prohibits, ResSet.matching, ResSet.mixedWildcard]
    | ifPresent n ifs els => simp [Cav.isWrapper] at hw
    | _ => unfold prohibits; rfl
  · intro n ifs els ih h a i j
    refine ifPresent_congr n ifs els (withApp a i) (withApp a j) rfl ?_
    intro y hy
    apply ih y hy
    intro rs hrs
    exact h rs (.inside (List.mem_singleton.mpr rfl) (hrs.mono (fun x hx => by rw [List.mem_singleton.mp hx]; exact hy)))

theorem validate_app_irrelevant (cs : List (Cav B))
    (h : ∀ rs, Nested (.apps rs : Cav B) cs → ∃ m, rs = [((0 : UInt64), m)])
    (a : Access) (i j : UInt64) : validate cs [withApp a i] = [] → validate cs [withApp a j] = [] := by
  rw [validate_single_iff, validate_single_iff]
  rintro ⟨hwf, hall⟩
  refine ⟨hwf, fun c hc hna => ?_⟩
  rw [prohibits_app_irrelevant c (fun rs hrs => h rs (hrs.mono (fun x hx => by rw [List.mem_singleton.mp hx]; exact hc))) a j i]
  exact hall c hc hna

theorem allowReq_withApp (o i j : UInt64) (act : Action) (s : Int) (n : Nat) :
    (allowReq o i act).toAccess s n = withApp ((allowReq o j act).toAccess s n) i := by
  simp [Req.toAccess, allowReq, withApp, Flyio.validate, Req.zero, cnt]

theorem allowReq_app (o i : UInt64) (act : Action) (s : Int) (n : Nat) :
    ((allowReq o i act).toAccess s n).app = some (some i) := rfl

/-- What a successful `AppsAllowing` establishes.  `none` ("any app of the organization"): the
request `{org o, app id, action}` clears for every app id.  A list: it contains exactly the app ids
for which that request clears. -/
theorem appsAllowing_sound (cs : List (Cav B)) (act : Action) (s : Int) (n : Nat) (o : UInt64)
    (r : Option (List UInt64)) (h : appsAllowing cs act s n = .ok (o, r)) :
    organizationScope cs = .ok o ∧
    (r = none → ∀ id, validate cs [(allowReq o id act).toAccess s n] = []) ∧
    (∀ L, r = some L → ∀ id, id ∈ L ↔ validate cs [(allowReq o id act).toAccess s n] = []) := by
  unfold appsAllowing at h
  split at h
  · cases h
  · rename_i o' ho
    split at h
    · -- no app restrictions
      rename_i hnone
      simp only at h
      split at h
      · rename_i he
        injection h with h
        injection h with h1 h2
        subst h1 h2
        refine ⟨ho, fun _ id => ?_, fun L hL => by cases hL⟩
        have hv := List.isEmpty_iff.mp he
        rw [allowReq_withApp o' 0 0] at hv
        rw [allowReq_withApp o' id 0]
        exact validate_app_irrelevant cs (fun rs hrs => (appScope_none_sound cs hnone rs hrs).1) _ 0 id hv
      · cases h
    · cases h
    · rename_i scope hne hscope
      simp only at h
      split at h
      · cases h
      · injection h with h
        injection h with h1 h2
        subst h1 h2
        refine ⟨ho, fun hr => (by cases hr), fun L hL id => ?_⟩
        injection hL with hL
        subst hL
        rw [mem_sortDedup, List.mem_filter, clears_iff]
        constructor
        · exact fun hh => hh.2
        · intro hv
          refine ⟨?_, hv⟩
          apply Classical.byContradiction
          intro hnot
          exact (appScope_some_sound cs scope hscope).1 id hnot _ (allowReq_app o' id act s n) hv

/-! ### expiry -/

theorem expiration_fold_cases (l : List (Cav B)) : ∀ ret : Int × Nat,
    l.foldl expirationStep ret = ret ∨
    ∃ nb na, Cav.validityWindow nb na ∈ l ∧ l.foldl expirationStep ret = (na.toInt, 0) := by
  induction l with
  | nil => intro ret; exact Or.inl rfl
  | cons c cs ih =>
    intro ret
    simp only [List.foldl_cons]
    rcases ih (expirationStep ret c) with h | ⟨nb, na, hm, h⟩
    · rw [h]
      cases c
      case validityWindow nb na =>
        simp only [expirationStep]
        split
        · exact Or.inl rfl
        · split
          · exact Or.inr ⟨nb, na, List.mem_cons_self .., rfl⟩
          · exact Or.inl rfl
      all_goals exact Or.inl rfl
    · exact Or.inr ⟨nb, na, List.mem_cons_of_mem _ hm, h⟩

/-- the expiry is `maxTime` or the end of a window that occurs somewhere in the set -/
theorem expiration_cases (cs : List (Cav B)) :
    expiration cs = (maxTimeSec, maxTimeNsec) ∨
    ∃ nb na, Nested (.validityWindow nb na : Cav B) cs ∧ expiration cs = (na.toInt, 0) := by
  rcases expiration_fold_cases (getCaveats isWindow cs) (maxTimeSec, maxTimeNsec) with h | ⟨nb, na, hm, h⟩
  · exact Or.inl h
  · exact Or.inr ⟨nb, na, ((mem_getCaveats _ _ _).mp hm).2, h⟩

/-- a validity window never answers "unspecified" -/
theorem validityWindow_never_unspecified (nb na : Int64) (a : Access) :
    (prohibits (.validityWindow nb na : Cav B) a).is .resUnspecified = false := by
  unfold prohibits
  split
  · simp [Errs.is, Err.is]
  · split <;> simp [Errs.is, Err.is]

/-- a window whose end lies before the request instant definitely denies -/
theorem window_denies_after (nb na : Int64) (a : Access)
    (h : GoTime.after a.nowSec a.nowNsec na.toInt 0 = true) : Denies (.validityWindow nb na : Cav B) a := by
  refine ⟨?_, validityWindow_never_unspecified nb na a⟩
  unfold prohibits
  have : (a.nowSec > na.toInt || (a.nowSec == na.toInt && a.nowNsec > 0)) = true := by
    simpa [GoTime.after] using h
  simp [this]

theorem expiration_sound (cs : List (Cav B)) (a : Access)
    (hrep : GoTime.after a.nowSec a.nowNsec maxTimeSec maxTimeNsec = false)
    (h : GoTime.after a.nowSec a.nowNsec (expiration cs).1 (expiration cs).2 = true) :
    validate cs [a] ≠ [] := by
  rcases expiration_cases cs with he | ⟨nb, na, hn, he⟩
  · rw [he] at h; simp only at h; rw [hrep] at h; cases h
  · rw [he] at h
    exact nested_denial_denies_set a hn rfl (window_denies_after nb na a h)

/-- a conditional that directly contains a validity window always takes its if-branch (never
falls back to its else-mask): the window always concerns the request -/
theorem window_in_conditional_applies (ifs : CavList B) (nb na : Int64) (a : Access)
    (h : Cav.validityWindow nb na ∈ ifs.toList) : (ifLoop ifs a).2 = true := by
  rw [ifLoop_eq]
  have : Cav.validityWindow nb na ∈ applicable ifs.toList a := by
    simp only [applicable, List.mem_filter, Bool.not_eq_eq_eq_not, Bool.not_true]
    exact ⟨h, validityWindow_never_unspecified nb na a⟩
  cases hl : applicable ifs.toList a with
  | nil => rw [hl] at this; cases this
  | cons _ _ => rfl

/-! ### the expiry is the earliest end -/

/-- `x` is not after `y` (seconds, nanoseconds) -/
def tle (x y : Int × Nat) : Prop := x.1 < y.1 ∨ (x.1 = y.1 ∧ x.2 ≤ y.2)

theorem tle_refl (x : Int × Nat) : tle x x := Or.inr ⟨rfl, Nat.le_refl _⟩
theorem tle_trans {x y z : Int × Nat} (h1 : tle x y) (h2 : tle y z) : tle x z := by
  unfold tle at *; omega

theorem expirationStep_le (ret : Int × Nat) (c : Cav B) : tle (expirationStep ret c) ret := by
  cases c with
  | validityWindow nb na =>
    simp only [expirationStep]
    split
    · exact tle_refl _
    · split
      · rename_i hb
        simp only [GoTime.before, Bool.or_eq_true, decide_eq_true_eq, Bool.and_eq_true, beq_iff_eq] at hb
        unfold tle; simp only; omega
      · exact tle_refl _
  | _ => exact tle_refl _

theorem expirationStep_le_window (ret : Int × Nat) (nb na : Int64) (h : na.toInt < maxTimeSec) :
    tle (expirationStep ret (.validityWindow nb na : Cav B)) (na.toInt, 0) := by
  simp only [expirationStep]
  have : ¬ (na.toInt ≥ maxTimeSec) := by omega
  simp only [this, ↓reduceIte]
  split
  · exact tle_refl _
  · rename_i hb
    simp only [GoTime.before, Bool.or_eq_true, decide_eq_true_eq, Bool.and_eq_true, beq_iff_eq, not_or, not_and] at hb
    unfold tle; simp only; omega

theorem expiration_fold_le (l : List (Cav B)) : ∀ ret : Int × Nat, tle (l.foldl expirationStep ret) ret := by
  induction l with
  | nil => intro ret; exact tle_refl _
  | cons c cs ih =>
    intro ret
    simp only [List.foldl_cons]
    exact tle_trans (ih _) (expirationStep_le ret c)

theorem expiration_fold_le_window (l : List (Cav B)) (nb na : Int64) (h : na.toInt < maxTimeSec) :
    ∀ ret : Int × Nat, Cav.validityWindow nb na ∈ l → tle (l.foldl expirationStep ret) (na.toInt, 0) := by
  induction l with
  | nil => intro _ hm; cases hm
  | cons c cs ih =>
    intro ret hm
    simp only [List.foldl_cons]
    rcases List.mem_cons.mp hm with rfl | hm
    · exact tle_trans (expiration_fold_le cs _) (expirationStep_le_window ret nb na h)
    · exact ih _ hm

/-- the expiry is not after the end of any window in the set whose end a `time.Time` can hold -/
theorem expiration_le_window (cs : List (Cav B)) (nb na : Int64)
    (hn : Nested (.validityWindow nb na : Cav B) cs) (h : na.toInt < maxTimeSec) :
    GoTime.after (expiration cs).1 (expiration cs).2 na.toInt 0 = false := by
  have hle := expiration_fold_le_window (getCaveats isWindow cs) nb na h (maxTimeSec, maxTimeNsec)
    ((mem_getCaveats _ _ _).mpr ⟨rfl, hn⟩)
  change tle (expiration cs) (na.toInt, 0) at hle
  unfold tle at hle
  simp only at hle
  cases hb : GoTime.after (expiration cs).1 (expiration cs).2 na.toInt 0 with
  | false => rfl
  | true =>
    simp only [GoTime.after, Bool.or_eq_true, decide_eq_true_eq, Bool.and_eq_true, beq_iff_eq] at hb
    omega

/-! ### soundness of `ClusterScope` (as repaired for F11: `AppScope`'s wildcard case mirrored) -/

theorem clusterScope_cases (cs : List (Cav B)) :
    (clusterScope cs = none ∧ (getCaveats isClusters cs).isEmpty = true) ∨
    (clusterScope cs = none ∧ (getCaveats isClusters cs).isEmpty = false ∧ ([] : Bytes) ∈ clustersKept cs) ∨
    (clusterScope cs = some (clustersKept cs) ∧ (getCaveats isClusters cs).isEmpty = false ∧
      ([] : Bytes) ∉ clustersKept cs) := by
  have hdef : clusterScope cs = if (getCaveats isClusters cs).isEmpty then none
      else if (clustersKept cs).contains [] then none else some (clustersKept cs) := rfl
  rw [hdef]
  by_cases he : (getCaveats isClusters cs).isEmpty = true
  · left; simp [he]
  · simp only [Bool.not_eq_true] at he
    right
    simp only [he, Bool.false_eq_true, ↓reduceIte]
    by_cases h0 : ([] : Bytes) ∈ clustersKept cs
    · left
      have : (clustersKept cs).contains [] = true := List.contains_iff_mem.mpr h0
      rw [if_pos this]; exact ⟨rfl, trivial, h0⟩
    · right
      have : ¬ ((clustersKept cs).contains [] = true) := fun h => h0 (List.contains_iff_mem.mp h)
      rw [if_neg this]; exact ⟨rfl, trivial, h0⟩

/-- with the repair the full clause holds, exactly as for `AppScope` -/
theorem clusterScope_sound (cs : List (Cav B)) :
    (∀ L, clusterScope cs = some L →
      (∀ id, id ∉ L → ∀ a : Access, a.cluster = some (some id) → validate cs [a] ≠ []) ∧
      (∀ id ∈ L, ∀ rs, ClustersIn cs rs → ∀ a : Access, a.cluster = some (some id) → a.action = some 0 →
          prohibits (.clusters rs : Cav B) a = [])) ∧
    (clusterScope cs = none →
      ∀ rs, ClustersIn cs rs → (∃ m, rs = [(([] : Bytes), m)]) ∧
        ∀ id, ∀ a : Access, a.cluster = some (some id) → a.action = some 0 →
          prohibits (.clusters rs : Cav B) a = []) := by
  constructor
  · intro L h
    rcases clusterScope_cases cs with ⟨hn, _⟩ | ⟨hn, _⟩ | ⟨hs, hne, h0⟩
    · rw [hn] at h; cases h
    · rw [hn] at h; cases h
    · rw [hs] at h; injection h with h; subst h
      constructor
      · intro id hid a ha
        obtain ⟨rs, hrs, href⟩ := family_excluded_refused zeroStr (ClustersIn cs) id (found_nonempty_clusters cs hne)
          (fun hk => hid ((mem_clustersKept cs id).mpr hk))
          (fun w hw hk => by
            rw [(zeroStr_iff w).mp hw] at hk
            exact h0 ((mem_clustersKept cs []).mpr hk))
        exact nested_denial_denies_set a hrs rfl (clusters_denies_named rs id a ha href)
      · intro id hid rs hrs a ha hact
        exact clusters_permits_named rs id a ha hact (((mem_clustersKept cs id).mp hid).2 rs hrs)
  · intro h rs hrs
    rcases clusterScope_cases cs with ⟨_, he⟩ | ⟨_, _, h0⟩ | ⟨hs, _, _⟩
    · have : Cav.clusters rs ∈ getCaveats isClusters cs := (mem_clusters_found cs rs).mpr hrs
      rw [List.isEmpty_iff.mp he] at this; cases this
    · obtain ⟨hl, hp⟩ := family_wildcard_kept zeroStr (ClustersIn cs) [] rfl (fun k hk => (zeroStr_iff k).mp hk)
        ((mem_clustersKept cs []).mp h0).2 rs hrs
      exact ⟨hl, fun id a ha hact => clusters_permits_named rs id a ha hact (hp id)⟩
    · rw [hs] at h; cases h

end Macaroon.Lemmas
