/-
Lemmas for the JSON half of C11 (`Caveat/Json.lean`): the value-level round trip
`UnmarshalJSON ∘ MarshalJSON` fails only on unregistered caveats (on the way out) and on Google ids
of more than 128 digits (on the way in; the first wins), masks every action mask to the
defined bits and nothing else, is idempotent, is the identity on sets whose masks are defined, and
leaves `prohibits` / `validate` unchanged for every request whose action is within the defined bits.
-/
import Macaroon.Caveat.Json
import Macaroon.Lemmas.Clearing

namespace Macaroon.Lemmas
open Macaroon Macaroon.Json
variable {B : Type}

/-! ### masks -/

theorem maskRT_idem (m : Action) : maskRT (maskRT m) = maskRT m := by
  simp [maskRT, UInt16.and_assoc]

theorem isDefined_iff (m : Action) : Action.isDefined m = true ↔ maskRT m = m := by
  simp [Action.isDefined, maskRT]

theorem isDefined_maskRT (m : Action) : Action.isDefined (maskRT m) = true :=
  (isDefined_iff _).mpr (maskRT_idem m)

/-- a request's action that lies within the defined bits cannot tell a mask from its defined part -/
theorem subset_maskRT (act m : Action) (h : act &&& Action.all = act) :
    act.subset (maskRT m) = act.subset m := by
  have h31 : act.subset Action.all = true := (subset_iff _ _).mpr h
  rw [Bool.eq_iff_iff, maskRT, subset_and]
  exact ⟨fun h => h.1, fun h => ⟨h, h31⟩⟩

/-! ### resource sets -/

theorem ressetRT_idem {K} (rs : ResSet K) : ressetRT (ressetRT rs) = ressetRT rs := by
  simp [ressetRT, maskRT_idem]

theorem ressetRT_eq_self_iff {K} (rs : ResSet K) :
    ressetRT rs = rs ↔ (rs.all fun e => Action.isDefined e.2) = true := by
  induction rs with
  | nil => simp [ressetRT]
  | cons e es ih =>
    simp only [ressetRT, List.map_cons, List.cons.injEq, List.all_cons, Bool.and_eq_true] at ih ⊢
    rw [ih, isDefined_iff]
    constructor
    · rintro ⟨h1, h2⟩
      exact ⟨by have := congrArg Prod.snd h1; simpa using this, h2⟩
    · rintro ⟨h1, h2⟩
      exact ⟨by rw [h1], h2⟩

theorem ressetRT_defined {K} (rs : ResSet K) :
    ((ressetRT rs).all fun e => Action.isDefined e.2) = true :=
  (ressetRT_eq_self_iff _).mp (ressetRT_idem rs)

theorem mixedWildcard_ressetRT {K} (z : K → Bool) (rs : ResSet K) :
    ResSet.mixedWildcard z (ressetRT rs) = ResSet.mixedWildcard z rs := by
  simp [ResSet.mixedWildcard, ressetRT, List.any_map, Function.comp_def]

theorem matching_ressetRT {K} (z : K → Bool) (m : K → K → Bool) (rs : ResSet K) (id : K) :
    ResSet.matching z m (ressetRT rs) id = ressetRT (ResSet.matching z m rs id) := by
  simp [ResSet.matching, ressetRT, List.filter_map, Function.comp_def]

theorem subset_perm_ressetRT {K} (act : Action) (h : act &&& Action.all = act) (es : ResSet K) :
    act.subset (ResSet.perm (ressetRT es)) = act.subset (ResSet.perm es) := by
  rw [Bool.eq_iff_iff, subset_perm, subset_perm]
  simp only [ressetRT, List.mem_map, forall_exists_index, and_imp]
  constructor
  · intro hh e he
    have := hh _ e he rfl
    rwa [subset_maskRT _ _ h] at this
  · rintro hh _ e he rfl
    rw [subset_maskRT _ _ h]; exact hh e he

/-- `ResourceSet.Prohibits` cannot tell a set from its round-tripped form when the requested action
is within the defined bits: wildcard detection and entry matching look at keys only, and the
requested bits are within the intersection of the masks iff within that of their defined parts -/
theorem resset_prohibits_ressetRT {K} (z : K → Bool) (m : K → K → Bool) (rs : ResSet K)
    (id : Option K) (act : Action) (h : act &&& Action.all = act) :
    ResSet.prohibits z m (ressetRT rs) id act = ResSet.prohibits z m rs id act := by
  unfold ResSet.prohibits
  rw [mixedWildcard_ressetRT]
  cases id with
  | none => rfl
  | some id =>
    simp only [matching_ressetRT, subset_perm_ressetRT act h]
    have : (ressetRT (ResSet.matching z m rs id)).isEmpty = (ResSet.matching z m rs id).isEmpty := by
      simp [ressetRT]
    rw [this]

/-! ### inversion of the code-shaped recursion -/

theorem jsonRT_ifPresent_ok (n : Bool) (ifs : CavList B) (els : Action) (c' : Cav B) :
    jsonRT (.ifPresent n ifs els) = .ok c' ↔
      ∃ ifs', jsonRTL ifs = .ok ifs' ∧ c' = .ifPresent n ifs' (maskRT els) := by
  rw [jsonRT]
  cases h : jsonRTL ifs with
  | error e => simp
  | ok ifs' => simp [eq_comm]

theorem jsonRTL_cons_ok (c : Cav B) (cs l' : CavList B) :
    jsonRTL (.cons c cs) = .ok l' ↔
      ∃ c' cs', jsonRT c = .ok c' ∧ jsonRTL cs = .ok cs' ∧ l' = .cons c' cs' := by
  rw [jsonRTL]
  cases h : jsonRT c with
  | error e => cases h2 : jsonRTL cs <;> simp
  | ok c' =>
    cases h2 : jsonRTL cs with
    | error e => simp
    | ok cs' => simp [eq_comm]

theorem jsonRTs_cons_ok (c : Cav B) (cs l' : List (Cav B)) :
    jsonRTs (c :: cs) = .ok l' ↔
      ∃ c' cs', jsonRT c = .ok c' ∧ jsonRTs cs = .ok cs' ∧ l' = c' :: cs' := by
  rw [jsonRTs]
  cases h : jsonRT c with
  | error e => cases h2 : jsonRTs cs <;> simp
  | ok c' =>
    cases h2 : jsonRTs cs with
    | error e => simp
    | ok cs' => simp [eq_comm]

theorem jsonRT_googleUserID_ok (n : Nat) (c' : Cav B) :
    jsonRT (.googleUserID n : Cav B) = .ok c' ↔ n < googleIDLimit ∧ c' = .googleUserID n := by
  rw [jsonRT]
  by_cases h : n < googleIDLimit <;> simp [h, eq_comm]

/-! ### which error: marshalling the whole set comes first -/

theorem merge_eq_unregistered (e e' : JsonErr) :
    e.merge e' = .unregistered ↔ e = .unregistered ∨ e' = .unregistered := by
  cases e <;> cases e' <;> simp [JsonErr.merge]

theorem jsonRTL_cons_unregistered (c : Cav B) (cs : CavList B) :
    jsonRTL (.cons c cs) = .error .unregistered ↔
      jsonRT c = .error .unregistered ∨ jsonRTL cs = .error .unregistered := by
  rw [jsonRTL]
  cases h : jsonRT c with
  | error e => cases h2 : jsonRTL cs <;> simp [merge_eq_unregistered]
  | ok c' => cases h2 : jsonRTL cs <;> simp

theorem jsonRTs_cons_unregistered (c : Cav B) (cs : List (Cav B)) :
    jsonRTs (c :: cs) = .error .unregistered ↔
      jsonRT c = .error .unregistered ∨ jsonRTs cs = .error .unregistered := by
  rw [jsonRTs]
  cases h : jsonRT c with
  | error e => cases h2 : jsonRTs cs <;> simp [merge_eq_unregistered]
  | ok c' => cases h2 : jsonRTs cs <;> simp

/-- the list version is the `CavList` version -/
theorem jsonRTs_eq_jsonRTL : (cs : List (Cav B)) →
    jsonRTs cs = (jsonRTL (CavList.ofList cs)).map CavList.toList
  | [] => by simp [jsonRTs, jsonRTL, CavList.ofList, CavList.toList, Except.map]
  | c :: cs => by
    have ih := jsonRTs_eq_jsonRTL cs
    rw [jsonRTs, CavList.ofList, jsonRTL, ih]
    cases jsonRT c with
    | error e => cases jsonRTL (CavList.ofList cs) <;> rfl
    | ok c' =>
      cases jsonRTL (CavList.ofList cs) with
      | error e => rfl
      | ok cs' => simp [Except.map, CavList.toList]

/-- every failure is one of the two explicit errors -/
theorem jsonErr_cases (e : JsonErr) : e = .unregistered ∨ e = .tooLong := by cases e <;> simp

/-! ### the round trip succeeds exactly on sets without unregistered caveats and over-long Google ids -/

mutual
theorem jsonRT_ok_iff : (c : Cav B) → ((∃ c', jsonRT c = .ok c') ↔ c.jsonOK = true)
  | .ifPresent n ifs els => by
    have ih := jsonRTL_ok_iff ifs
    simp only [jsonRT_ifPresent_ok, Cav.jsonOK, ← ih]
    constructor
    · rintro ⟨_, ifs', h, _⟩; exact ⟨ifs', h⟩
    · rintro ⟨ifs', h⟩; exact ⟨_, ifs', h, rfl⟩
  | .unregistered .. => by simp [jsonRT, Cav.jsonOK]
  | .organization .. | .volumes .. | .apps .. | .validityWindow .. | .featureSet .. | .mutations ..
  | .machines .. | .confineUser .. | .confineOrganization .. | .isUser .. | .tp .. | .bind ..
  | .machineFeatureSet .. | .fromMachine .. | .clusters .. | .confineGoogleHD ..
  | .confineGitHubOrg .. | .maxValidity .. | .isMember | .flyioUserID .. | .gitHubUserID ..
  | .action .. | .commands .. | .appFeatureSet .. | .storageObjects ..
  | .allowedRoles .. | .flySrc .. => by simp [jsonRT, Cav.jsonOK]
  | .googleUserID n => by simp [jsonRT_googleUserID_ok, Cav.jsonOK]
theorem jsonRTL_ok_iff : (l : CavList B) → ((∃ l', jsonRTL l = .ok l') ↔ l.jsonOK = true)
  | .nil => by simp [jsonRTL, CavList.jsonOK]
  | .cons c cs => by
    have ih1 := jsonRT_ok_iff c
    have ih2 := jsonRTL_ok_iff cs
    simp only [jsonRTL_cons_ok, CavList.jsonOK, Bool.and_eq_true, ← ih1, ← ih2]
    constructor
    · rintro ⟨_, c', cs', h1, h2, _⟩; exact ⟨⟨c', h1⟩, ⟨cs', h2⟩⟩
    · rintro ⟨⟨c', h1⟩, ⟨cs', h2⟩⟩; exact ⟨_, c', cs', h1, h2, rfl⟩
end

theorem jsonRTs_ok_iff : (cs : List (Cav B)) →
    ((∃ cs', jsonRTs cs = .ok cs') ↔ (cs.all Cav.jsonOK) = true)
  | [] => by simp [jsonRTs]
  | c :: cs => by
    have ih1 := jsonRT_ok_iff c
    have ih2 := jsonRTs_ok_iff cs
    simp only [jsonRTs_cons_ok, List.all_cons, Bool.and_eq_true, ← ih1, ← ih2]
    constructor
    · rintro ⟨_, c', cs', h1, h2, _⟩; exact ⟨⟨c', h1⟩, ⟨cs', h2⟩⟩
    · rintro ⟨⟨c', h1⟩, ⟨cs', h2⟩⟩; exact ⟨_, c', cs', h1, h2, rfl⟩

/-- some error ↔ not `jsonOK` -/
theorem jsonRTs_error_iff (cs : List (Cav B)) :
    (∃ e, jsonRTs cs = .error e) ↔ (cs.all Cav.jsonOK) = false := by
  have h := jsonRTs_ok_iff cs
  cases hr : jsonRTs cs with
  | error e' =>
    rw [hr] at h
    cases hb : cs.all Cav.jsonOK with
    | false => simp
    | true => obtain ⟨_, h'⟩ := h.mpr hb; cases h'
  | ok cs' =>
    rw [hr] at h
    have : (cs.all Cav.jsonOK) = true := h.mp ⟨cs', rfl⟩
    simp [this]

mutual
/-- the marshalling error ↔ an unregistered caveat somewhere (whatever else the set holds) -/
theorem jsonRT_unregistered_iff : (c : Cav B) →
    (jsonRT c = .error .unregistered ↔ c.marshalOK = false)
  | .ifPresent n ifs els => by
    have ih := jsonRTL_unregistered_iff ifs
    simp only [Cav.marshalOK, ← ih]
    rw [jsonRT]
    cases h : jsonRTL ifs <;> simp
  | .unregistered .. => by simp [jsonRT, Cav.marshalOK]
  | .googleUserID n => by
    rw [jsonRT]
    by_cases h : n < googleIDLimit <;> simp [h, Cav.marshalOK]
  | .organization .. | .volumes .. | .apps .. | .validityWindow .. | .featureSet .. | .mutations ..
  | .machines .. | .confineUser .. | .confineOrganization .. | .isUser .. | .tp .. | .bind ..
  | .machineFeatureSet .. | .fromMachine .. | .clusters .. | .confineGoogleHD ..
  | .confineGitHubOrg .. | .maxValidity .. | .isMember | .flyioUserID .. | .gitHubUserID ..
  | .action .. | .commands .. | .appFeatureSet .. | .storageObjects ..
  | .allowedRoles .. | .flySrc .. => by simp [jsonRT, Cav.marshalOK]
theorem jsonRTL_unregistered_iff : (l : CavList B) →
    (jsonRTL l = .error .unregistered ↔ l.marshalOK = false)
  | .nil => by simp [jsonRTL, CavList.marshalOK]
  | .cons c cs => by
    have ih1 := jsonRT_unregistered_iff c
    have ih2 := jsonRTL_unregistered_iff cs
    rw [jsonRTL_cons_unregistered, ih1, ih2]
    cases h1 : c.marshalOK <;> cases h2 : cs.marshalOK <;> simp [CavList.marshalOK, h1, h2]
end

theorem jsonRTs_unregistered_iff : (cs : List (Cav B)) →
    (jsonRTs cs = .error .unregistered ↔ (cs.all Cav.marshalOK) = false)
  | [] => by simp [jsonRTs]
  | c :: cs => by
    have ih1 := jsonRT_unregistered_iff c
    have ih2 := jsonRTs_unregistered_iff cs
    rw [jsonRTs_cons_unregistered, ih1, ih2, List.all_cons]
    cases h1 : c.marshalOK <;> cases h2 : cs.all Cav.marshalOK <;> simp_all

/-- the reading error ↔ everything could be rendered, and something could not be read back -/
theorem jsonRTs_tooLong_iff (cs : List (Cav B)) :
    jsonRTs cs = .error .tooLong ↔ (cs.all Cav.marshalOK) = true ∧ (cs.all Cav.jsonOK) = false := by
  have h1 := jsonRTs_unregistered_iff cs
  have h2 := jsonRTs_error_iff cs
  cases hr : jsonRTs cs with
  | ok cs' =>
    rw [hr] at h2
    have : ¬ (cs.all Cav.jsonOK) = false := fun h => by obtain ⟨e, he⟩ := h2.mpr h; cases he
    simp [this]
  | error e =>
    rw [hr] at h1 h2
    have hj : (cs.all Cav.jsonOK) = false := h2.mp ⟨e, rfl⟩
    cases e with
    | unregistered =>
      have : (cs.all Cav.marshalOK) = false := h1.mp rfl
      simp [this]
    | tooLong =>
      have : ¬ (cs.all Cav.marshalOK) = false := fun h => by have := h1.mpr h; cases this
      simp only [true_iff]
      exact ⟨by cases hb : cs.all Cav.marshalOK <;> simp_all, hj⟩

/-! ### clearing cannot tell the difference -/

/-- the request's action, if it exposes one, lies within the five defined bits -/
def DefinedAction (a : Access) : Prop := ∀ act, a.action = some act → act &&& Action.all = act

theorem viaGetter_congr {K} (g : Option (Option K)) (action : Option Action)
    (k k' : Option K → Action → Errs)
    (h : ∀ id act, action = some act → k' id act = k id act) :
    viaGetter g action k' = viaGetter g action k := by
  unfold viaGetter
  cases g with
  | none => rfl
  | some id =>
    cases action with
    | none => rfl
    | some act => exact h id act rfl

theorem prohibits_ifPresent_congr (n : Bool) (ifs ifs' : CavList B) (els els' : Action) (a : Access)
    (hl : ifLoop ifs' a = ifLoop ifs a)
    (he : ∀ act, a.action = some act → act.subset els' = act.subset els) :
    prohibits (.ifPresent n ifs' els') a = prohibits (.ifPresent n ifs els) a := by
  rw [prohibits, prohibits]
  cases ha : a.action with
  | none => rfl
  | some act => simp only [hl, he act ha]

mutual
theorem prohibits_jsonRT : (c : Cav B) → ∀ c', jsonRT c = .ok c' →
    ∀ a, DefinedAction a → prohibits c' a = prohibits c a
  | .ifPresent n ifs els => by
    intro c' h a ha
    obtain ⟨ifs', hl, rfl⟩ := (jsonRT_ifPresent_ok ..).mp h
    exact prohibits_ifPresent_congr n ifs ifs' els _ a (ifLoop_jsonRTL ifs ifs' hl a ha)
      (fun act hact => subset_maskRT act els (ha act hact))
  | .organization id mask => by
    intro c' h a ha
    simp only [jsonRT, Except.ok.injEq] at h; subst h
    unfold prohibits
    cases ho : a.org with
    | none => rfl
    | some o =>
      cases hact : a.action with
      | none => rfl
      | some act => simp only [subset_maskRT act mask (ha act hact)]
  | .action mask => by
    intro c' h a ha
    simp only [jsonRT, Except.ok.injEq] at h; subst h
    unfold prohibits
    cases hact : a.action with
    | none => rfl
    | some act => simp only [subset_maskRT act mask (ha act hact)]
  | .apps rs => by
    intro c' h a ha
    simp only [jsonRT, Except.ok.injEq] at h; subst h
    unfold prohibits
    exact viaGetter_congr _ _ _ _ fun id act hact => resset_prohibits_ressetRT _ _ rs id act (ha act hact)
  | .volumes rs => by
    intro c' h a ha
    simp only [jsonRT, Except.ok.injEq] at h; subst h
    unfold prohibits
    exact viaGetter_congr _ _ _ _ fun id act hact => resset_prohibits_ressetRT _ _ rs id act (ha act hact)
  | .machines rs => by
    intro c' h a ha
    simp only [jsonRT, Except.ok.injEq] at h; subst h
    unfold prohibits
    exact viaGetter_congr _ _ _ _ fun id act hact => resset_prohibits_ressetRT _ _ rs id act (ha act hact)
  | .machineFeatureSet rs => by
    intro c' h a ha
    simp only [jsonRT, Except.ok.injEq] at h; subst h
    unfold prohibits
    exact viaGetter_congr _ _ _ _ fun id act hact => resset_prohibits_ressetRT _ _ rs id act (ha act hact)
  | .featureSet rs => by
    intro c' h a ha
    simp only [jsonRT, Except.ok.injEq] at h; subst h
    unfold prohibits
    exact viaGetter_congr _ _ _ _ fun id act hact => resset_prohibits_ressetRT _ _ rs id act (ha act hact)
  | .appFeatureSet rs => by
    intro c' h a ha
    simp only [jsonRT, Except.ok.injEq] at h; subst h
    unfold prohibits
    exact viaGetter_congr _ _ _ _ fun id act hact => resset_prohibits_ressetRT _ _ rs id act (ha act hact)
  | .clusters rs => by
    intro c' h a ha
    simp only [jsonRT, Except.ok.injEq] at h; subst h
    unfold prohibits
    exact viaGetter_congr _ _ _ _ fun id act hact => resset_prohibits_ressetRT _ _ rs id act (ha act hact)
  | .storageObjects rs => by
    intro c' h a ha
    simp only [jsonRT, Except.ok.injEq] at h; subst h
    unfold prohibits
    exact viaGetter_congr _ _ _ _ fun id act hact => resset_prohibits_ressetRT _ _ rs id act (ha act hact)
  | .unregistered .. => by intro c' h; simp [jsonRT] at h
  | .googleUserID n => by
    intro c' h a _
    obtain ⟨_, rfl⟩ := (jsonRT_googleUserID_ok n c').mp h; rfl
  | .validityWindow .. | .mutations .. | .confineUser .. | .confineOrganization .. | .isUser ..
  | .tp .. | .bind .. | .fromMachine .. | .confineGoogleHD .. | .confineGitHubOrg ..
  | .maxValidity .. | .isMember | .flyioUserID .. | .gitHubUserID ..
  | .commands .. | .allowedRoles .. | .flySrc .. => by
    intro c' h a _
    simp only [jsonRT, Except.ok.injEq] at h; subst h; rfl
theorem ifLoop_jsonRTL : (l : CavList B) → ∀ l', jsonRTL l = .ok l' →
    ∀ a, DefinedAction a → ifLoop l' a = ifLoop l a
  | .nil => by
    intro l' h a _
    simp only [jsonRTL, Except.ok.injEq] at h; subst h; rfl
  | .cons c cs => by
    intro l' h a ha
    obtain ⟨c', cs', hc, hcs, rfl⟩ := (jsonRTL_cons_ok ..).mp h
    rw [ifLoop, ifLoop, prohibits_jsonRT c c' hc a ha, ifLoop_jsonRTL cs cs' hcs a ha]
end

theorem isAttestation_jsonRT (c c' : Cav B) (h : jsonRT c = .ok c') :
    c'.isAttestation = c.isAttestation ∧ c'.typ = c.typ := by
  cases c with
  | ifPresent n ifs els =>
    obtain ⟨ifs', _, rfl⟩ := (jsonRT_ifPresent_ok ..).mp h
    exact ⟨rfl, rfl⟩
  | unregistered t r => simp [jsonRT] at h
  | googleUserID n => obtain ⟨_, rfl⟩ := (jsonRT_googleUserID_ok n c').mp h; exact ⟨rfl, rfl⟩
  | _ => simp only [jsonRT, Except.ok.injEq] at h; subst h; exact ⟨rfl, rfl⟩

theorem validateAccess_jsonRTs : (cs : List (Cav B)) → ∀ cs', jsonRTs cs = .ok cs' →
    ∀ a, DefinedAction a → validateAccess cs' a = validateAccess cs a
  | [] => by
    intro cs' h a _
    simp only [jsonRTs, Except.ok.injEq] at h; subst h; rfl
  | c :: cs => by
    intro l' h a ha
    obtain ⟨c', cs', hc, hcs, rfl⟩ := (jsonRTs_cons_ok ..).mp h
    have ih := validateAccess_jsonRTs cs cs' hcs a ha
    simp only [validateAccess, List.flatMap_cons] at ih ⊢
    rw [ih, (isAttestation_jsonRT c c' hc).1, prohibits_jsonRT c c' hc a ha]

theorem validate_jsonRTs (cs cs' : List (Cav B)) (h : jsonRTs cs = .ok cs') (as : List Access)
    (has : ∀ a ∈ as, DefinedAction a) : validate cs' as = validate cs as := by
  unfold validate
  induction as with
  | nil => rfl
  | cons a as ih =>
    simp only [List.flatMap_cons]
    rw [ih (fun b hb => has b (List.mem_cons_of_mem _ hb)),
      validateAccess_jsonRTs cs cs' h a (has a (List.mem_cons_self ..))]

/-! ### what comes back has defined masks and can be rendered again -/

mutual
theorem jsonRT_result : (c : Cav B) → ∀ c', jsonRT c = .ok c' →
    c'.masksDefined = true ∧ c'.jsonOK = true
  | .ifPresent n ifs els => by
    intro c' h
    obtain ⟨ifs', hl, rfl⟩ := (jsonRT_ifPresent_ok ..).mp h
    have ih := jsonRTL_result ifs ifs' hl
    simp [Cav.masksDefined, Cav.jsonOK, ih.1, ih.2, isDefined_maskRT]
  | .unregistered .. => by intro c' h; simp [jsonRT] at h
  | .organization .. | .action .. => by
    intro c' h
    simp only [jsonRT, Except.ok.injEq] at h; subst h
    simp [Cav.masksDefined, Cav.jsonOK, isDefined_maskRT]
  | .volumes .. | .apps .. | .featureSet .. | .machines .. | .machineFeatureSet .. | .clusters ..
  | .appFeatureSet .. | .storageObjects .. => by
    intro c' h
    simp only [jsonRT, Except.ok.injEq] at h; subst h
    exact ⟨ressetRT_defined _, rfl⟩
  | .googleUserID n => by
    intro c' h
    obtain ⟨hn, rfl⟩ := (jsonRT_googleUserID_ok n c').mp h
    exact ⟨rfl, by simp [Cav.jsonOK, hn]⟩
  | .validityWindow .. | .mutations .. | .confineUser .. | .confineOrganization .. | .isUser ..
  | .tp .. | .bind .. | .fromMachine .. | .confineGoogleHD .. | .confineGitHubOrg ..
  | .maxValidity .. | .isMember | .flyioUserID .. | .gitHubUserID ..
  | .commands .. | .allowedRoles .. | .flySrc .. => by
    intro c' h
    simp only [jsonRT, Except.ok.injEq] at h; subst h; exact ⟨rfl, rfl⟩
theorem jsonRTL_result : (l : CavList B) → ∀ l', jsonRTL l = .ok l' →
    l'.masksDefined = true ∧ l'.jsonOK = true
  | .nil => by
    intro l' h
    simp only [jsonRTL, Except.ok.injEq] at h; subst h; exact ⟨rfl, rfl⟩
  | .cons c cs => by
    intro l' h
    obtain ⟨c', cs', hc, hcs, rfl⟩ := (jsonRTL_cons_ok ..).mp h
    have ih1 := jsonRT_result c c' hc
    have ih2 := jsonRTL_result cs cs' hcs
    simp [CavList.masksDefined, CavList.jsonOK, ih1.1, ih1.2, ih2.1, ih2.2]
end

/-! ### identity on sets whose masks are defined -/

mutual
theorem jsonRT_id : (c : Cav B) → c.masksDefined = true → c.jsonOK = true → jsonRT c = .ok c
  | .ifPresent n ifs els => by
    intro hm hj
    simp only [Cav.masksDefined, Bool.and_eq_true] at hm
    simp only [Cav.jsonOK] at hj
    rw [jsonRT, jsonRTL_id ifs hm.1 hj, (isDefined_iff els).mp hm.2]
  | .unregistered .. => by intro _ hj; simp [Cav.jsonOK] at hj
  | .organization id mask => by
    intro hm _
    simp only [Cav.masksDefined] at hm
    rw [jsonRT, (isDefined_iff mask).mp hm]
  | .action mask => by
    intro hm _
    simp only [Cav.masksDefined] at hm
    rw [jsonRT, (isDefined_iff mask).mp hm]
  | .volumes rs | .apps rs | .featureSet rs | .machines rs | .machineFeatureSet rs | .clusters rs
  | .appFeatureSet rs | .storageObjects rs => by
    intro hm _
    simp only [Cav.masksDefined] at hm
    rw [jsonRT, (ressetRT_eq_self_iff rs).mpr hm]
  | .googleUserID n => by
    intro _ hj
    simp only [Cav.jsonOK, decide_eq_true_eq] at hj
    rw [jsonRT, if_pos hj]
  | .validityWindow .. | .mutations .. | .confineUser .. | .confineOrganization .. | .isUser ..
  | .tp .. | .bind .. | .fromMachine .. | .confineGoogleHD .. | .confineGitHubOrg ..
  | .maxValidity .. | .isMember | .flyioUserID .. | .gitHubUserID ..
  | .commands .. | .allowedRoles .. | .flySrc .. => by
    intro _ _; rw [jsonRT]
theorem jsonRTL_id : (l : CavList B) → l.masksDefined = true → l.jsonOK = true → jsonRTL l = .ok l
  | .nil => by intro _ _; rw [jsonRTL]
  | .cons c cs => by
    intro hm hj
    simp only [CavList.masksDefined, CavList.jsonOK, Bool.and_eq_true] at hm hj
    rw [jsonRTL, jsonRT_id c hm.1 hj.1, jsonRTL_id cs hm.2 hj.2]
end

theorem jsonRTs_result : (cs : List (Cav B)) → ∀ cs', jsonRTs cs = .ok cs' →
    (cs'.all Cav.masksDefined) = true ∧ (cs'.all Cav.jsonOK) = true
  | [] => by
    intro cs' h
    simp only [jsonRTs, Except.ok.injEq] at h; subst h; exact ⟨rfl, rfl⟩
  | c :: cs => by
    intro l' h
    obtain ⟨c', cs', hc, hcs, rfl⟩ := (jsonRTs_cons_ok ..).mp h
    have ih1 := jsonRT_result c c' hc
    have ih2 := jsonRTs_result cs cs' hcs
    simp [ih1.1, ih1.2, ih2.1, ih2.2]

theorem jsonRTs_id : (cs : List (Cav B)) → (cs.all Cav.masksDefined) = true →
    (cs.all Cav.jsonOK) = true → jsonRTs cs = .ok cs
  | [] => by intro _ _; rw [jsonRTs]
  | c :: cs => by
    intro hm hj
    simp only [List.all_cons, Bool.and_eq_true] at hm hj
    rw [jsonRTs, jsonRT_id c hm.1 hj.1, jsonRTs_id cs hm.2 hj.2]

theorem jsonRTs_idem (cs cs' : List (Cav B)) (h : jsonRTs cs = .ok cs') : jsonRTs cs' = .ok cs' :=
  jsonRTs_id cs' (jsonRTs_result cs cs' h).1 (jsonRTs_result cs cs' h).2

/-- shape: as many caveats come back as went in, of the same types, attestations stay attestations -/
theorem jsonRTs_shape : (cs : List (Cav B)) → ∀ cs', jsonRTs cs = .ok cs' →
    cs'.map Cav.typ = cs.map Cav.typ ∧ cs'.map Cav.isAttestation = cs.map Cav.isAttestation
  | [] => by
    intro cs' h
    simp only [jsonRTs, Except.ok.injEq] at h; subst h; exact ⟨rfl, rfl⟩
  | c :: cs => by
    intro l' h
    obtain ⟨c', cs', hc, hcs, rfl⟩ := (jsonRTs_cons_ok ..).mp h
    have ih := jsonRTs_shape cs cs' hcs
    have h1 := isAttestation_jsonRT c c' hc
    simp [ih.1, ih.2, h1.1, h1.2]

/-! ### "no unregistered caveat / no over-long Google id at any depth", declaratively -/

/-- an unregistered caveat occurs in `c`: it is one, or it is a conditional with one somewhere inside -/
inductive HasUnregistered : Cav B → Prop
  | here (t : UInt64) (r : Bytes) : HasUnregistered (.unregistered t r)
  | inside (n : Bool) (ifs : CavList B) (els : Action) (c : Cav B) :
      c ∈ ifs.toList → HasUnregistered c → HasUnregistered (.ifPresent n ifs els)

/-- a Google id whose decimal text has more than 128 characters (`n ≥ 10^128`) occurs in `c` -/
inductive HasLongGoogleID : Cav B → Prop
  | here (n : Nat) : googleIDLimit ≤ n → HasLongGoogleID (.googleUserID n)
  | inside (n : Bool) (ifs : CavList B) (els : Action) (c : Cav B) :
      c ∈ ifs.toList → HasLongGoogleID c → HasLongGoogleID (.ifPresent n ifs els)

mutual
theorem marshalOK_false_iff : (c : Cav B) → (c.marshalOK = false ↔ HasUnregistered c)
  | .unregistered t r => by simp [Cav.marshalOK]; exact .here t r
  | .ifPresent n ifs els => by
    have ih := marshalOKL_false_iff ifs
    simp only [Cav.marshalOK]; rw [ih]
    constructor
    · rintro ⟨c, hc, hu⟩; exact .inside n ifs els c hc hu
    · intro h; cases h with | inside _ _ _ c hc hu => exact ⟨c, hc, hu⟩
  | .organization .. | .volumes .. | .apps .. | .validityWindow .. | .featureSet .. | .mutations ..
  | .machines .. | .confineUser .. | .confineOrganization .. | .isUser .. | .tp .. | .bind ..
  | .machineFeatureSet .. | .fromMachine .. | .clusters .. | .confineGoogleHD ..
  | .confineGitHubOrg .. | .maxValidity .. | .isMember | .flyioUserID .. | .gitHubUserID ..
  | .googleUserID .. | .action .. | .commands .. | .appFeatureSet .. | .storageObjects ..
  | .allowedRoles .. | .flySrc .. => by
    simp only [Cav.marshalOK, Bool.true_eq_false, false_iff]; intro h; cases h
theorem marshalOKL_false_iff : (l : CavList B) →
    (l.marshalOK = false ↔ ∃ c ∈ l.toList, HasUnregistered c)
  | .nil => by simp [CavList.marshalOK, CavList.toList]
  | .cons c cs => by
    have ih1 := marshalOK_false_iff c
    have ih2 := marshalOKL_false_iff cs
    simp only [CavList.marshalOK, CavList.toList, List.mem_cons, Bool.and_eq_false_iff]
    rw [ih1, ih2]
    constructor
    · rintro (h | ⟨d, hd, hu⟩)
      · exact ⟨c, Or.inl rfl, h⟩
      · exact ⟨d, Or.inr hd, hu⟩
    · rintro ⟨d, (rfl | hd), hu⟩
      · exact Or.inl hu
      · exact Or.inr ⟨d, hd, hu⟩
end

mutual
theorem jsonOK_false_iff : (c : Cav B) → (c.jsonOK = false ↔ HasUnregistered c ∨ HasLongGoogleID c)
  | .unregistered t r => by simp [Cav.jsonOK]; exact Or.inl (.here t r)
  | .googleUserID n => by
    simp only [Cav.jsonOK, decide_eq_false_iff_not, Nat.not_lt]
    constructor
    · intro h; exact Or.inr (.here n h)
    · rintro (h | h)
      · cases h
      · cases h with | here _ h => exact h
  | .ifPresent n ifs els => by
    have ih := jsonOKL_false_iff ifs
    simp only [Cav.jsonOK]; rw [ih]
    constructor
    · rintro ⟨c, hc, (hu | hu)⟩
      · exact Or.inl (.inside n ifs els c hc hu)
      · exact Or.inr (.inside n ifs els c hc hu)
    · rintro (h | h)
      · cases h with | inside _ _ _ c hc hu => exact ⟨c, hc, Or.inl hu⟩
      · cases h with | inside _ _ _ c hc hu => exact ⟨c, hc, Or.inr hu⟩
  | .organization .. | .volumes .. | .apps .. | .validityWindow .. | .featureSet .. | .mutations ..
  | .machines .. | .confineUser .. | .confineOrganization .. | .isUser .. | .tp .. | .bind ..
  | .machineFeatureSet .. | .fromMachine .. | .clusters .. | .confineGoogleHD ..
  | .confineGitHubOrg .. | .maxValidity .. | .isMember | .flyioUserID .. | .gitHubUserID ..
  | .action .. | .commands .. | .appFeatureSet .. | .storageObjects ..
  | .allowedRoles .. | .flySrc .. => by
    simp only [Cav.jsonOK, Bool.true_eq_false, false_iff]; rintro (h | h) <;> cases h
theorem jsonOKL_false_iff : (l : CavList B) →
    (l.jsonOK = false ↔ ∃ c ∈ l.toList, HasUnregistered c ∨ HasLongGoogleID c)
  | .nil => by simp [CavList.jsonOK, CavList.toList]
  | .cons c cs => by
    have ih1 := jsonOK_false_iff c
    have ih2 := jsonOKL_false_iff cs
    simp only [CavList.jsonOK, CavList.toList, List.mem_cons, Bool.and_eq_false_iff]
    rw [ih1, ih2]
    constructor
    · rintro (h | ⟨d, hd, hu⟩)
      · exact ⟨c, Or.inl rfl, h⟩
      · exact ⟨d, Or.inr hd, hu⟩
    · rintro ⟨d, (rfl | hd), hu⟩
      · exact Or.inl hu
      · exact Or.inr ⟨d, hd, hu⟩
end

theorem all_marshalOK_false_iff (cs : List (Cav B)) :
    (cs.all Cav.marshalOK) = false ↔ ∃ c ∈ cs, HasUnregistered c := by
  simp [List.all_eq_false, marshalOK_false_iff]

theorem all_jsonOK_false_iff (cs : List (Cav B)) :
    (cs.all Cav.jsonOK) = false ↔ ∃ c ∈ cs, HasUnregistered c ∨ HasLongGoogleID c := by
  simp [List.all_eq_false, jsonOK_false_iff]

/-- a set that can be rendered and read back can in particular be rendered -/
theorem marshalOK_of_jsonOK_all (cs : List (Cav B)) (h : (cs.all Cav.jsonOK) = true) :
    (cs.all Cav.marshalOK) = true := by
  cases hb : cs.all Cav.marshalOK with
  | true => rfl
  | false =>
    obtain ⟨c, hc, hu⟩ := (all_marshalOK_false_iff cs).mp hb
    have : (cs.all Cav.jsonOK) = false := (all_jsonOK_false_iff cs).mpr ⟨c, hc, Or.inl hu⟩
    rw [h] at this; cases this

end Macaroon.Lemmas
