/-
Proofs about the header model (`Macaroon/Format/Header.lean`): white-space trimming, `cut`,
`splitOn`/`joinWith`, the unfolding equation and idempotence of `stripScheme`, stripping of
decorated headers, `parse` on formatted headers and on malformed ones, the location split and the
bundle tokeniser.  Core Lean only.
-/
import Macaroon.Format.Header
import Macaroon.Lemmas.Base64

namespace Macaroon
namespace Header

/-- every character is Unicode white space -/
def AllSpace (s : List Char) : Prop := ∀ c ∈ s, isSpace c = true
/-- no character is Unicode white space -/
def NoSpace (s : List Char) : Prop := ∀ c ∈ s, isSpace c = false
/-- non-empty, first and last character are not white space -/
def Trimmed (s : List Char) : Prop :=
  (∃ a m, s = a :: m ∧ isSpace a = false) ∧ (∃ m b, s = m ++ [b] ∧ isSpace b = false)

instance (s : List Char) : Decidable (AllSpace s) := by unfold AllSpace; infer_instance
instance (s : List Char) : Decidable (NoSpace s) := by unfold NoSpace; infer_instance

/-- `Except` has decidable equality (used by the `decide`d examples) -/
instance instDecidableEqExcept {ε α : Type} [DecidableEq ε] [DecidableEq α] : DecidableEq (Except ε α)
  | .ok a, .ok b => if h : a = b then isTrue (by rw [h]) else isFalse (fun e => h (Except.ok.inj e))
  | .error a, .error b => if h : a = b then isTrue (by rw [h]) else isFalse (fun e => h (Except.error.inj e))
  | .ok _, .error _ => isFalse (fun e => by cases e)
  | .error _, .ok _ => isFalse (fun e => by cases e)

theorem allSpace_nil : AllSpace [] := by intro c h; cases h

theorem allSpace_append {a b : List Char} (ha : AllSpace a) (hb : AllSpace b) : AllSpace (a ++ b) := by
  intro c h
  rcases List.mem_append.mp h with h | h
  · exact ha c h
  · exact hb c h

theorem allSpace_reverse {a : List Char} (ha : AllSpace a) : AllSpace a.reverse := by
  intro c h; exact ha c (List.mem_reverse.mp h)

theorem isSpace_space : isSpace ' ' = true := by decide

theorem noSpace_not_mem_space {s : List Char} (h : NoSpace s) : ' ' ∉ s := by
  intro hm
  have := h ' ' hm
  rw [isSpace_space] at this
  cases this

/-! ### dropWhile, trim -/

theorem dropWhile_decomp (p : Char → Bool) (l : List Char) :
    ∃ pre, l = pre ++ l.dropWhile p ∧ ∀ c ∈ pre, p c = true := by
  induction l with
  | nil => exact ⟨[], rfl, by intro c h; cases h⟩
  | cons x xs ih =>
    by_cases hx : p x = true
    · obtain ⟨pre, h1, h2⟩ := ih
      refine ⟨x :: pre, ?_, ?_⟩
      · simp only [List.dropWhile_cons, hx, if_true, List.cons_append]
        exact congrArg _ h1
      · intro c hc
        rcases List.mem_cons.mp hc with rfl | hc
        · exact hx
        · exact h2 c hc
    · refine ⟨[], ?_, by intro c h; cases h⟩
      simp [hx]

theorem dropWhile_head_false (p : Char → Bool) :
    ∀ (l : List Char) (a : Char) (m : List Char), l.dropWhile p = a :: m → p a = false := by
  intro l
  induction l with
  | nil => intro a m h; simp at h
  | cons x xs ih =>
    intro a m h
    by_cases hx : p x = true
    · simp only [List.dropWhile_cons, hx, if_true] at h
      exact ih a m h
    · simp only [List.dropWhile_cons, hx] at h
      simp only [Bool.false_eq_true, if_false, List.cons.injEq] at h
      rw [← h.1]
      simpa using hx

theorem dropWhile_append_of_all (p : Char → Bool) (l s : List Char) (h : ∀ c ∈ l, p c = true) :
    (l ++ s).dropWhile p = s.dropWhile p := by
  induction l with
  | nil => rfl
  | cons x xs ih =>
    have hx : p x = true := h x (by simp)
    simp only [List.cons_append, List.dropWhile_cons, hx, if_true]
    exact ih (fun c hc => h c (by simp [hc]))

theorem dropWhile_cons_of_false (p : Char → Bool) (a : Char) (s : List Char) (h : p a = false) :
    (a :: s).dropWhile p = a :: s := by
  simp [h]

theorem trimLeft_append_of_allSpace {l : List Char} (s : List Char) (hl : AllSpace l) :
    trimLeft (l ++ s) = trimLeft s :=
  dropWhile_append_of_all isSpace l s hl

theorem trimLeft_cons_of_not {a : Char} (s : List Char) (h : isSpace a = false) :
    trimLeft (a :: s) = a :: s :=
  dropWhile_cons_of_false isSpace a s h

theorem trimRight_append_of_allSpace {r : List Char} (s : List Char) (hr : AllSpace r) :
    trimRight (s ++ r) = trimRight s := by
  unfold trimRight
  rw [List.reverse_append, dropWhile_append_of_all isSpace _ _ (allSpace_reverse hr)]

theorem trimRight_concat_of_not {b : Char} (s : List Char) (h : isSpace b = false) :
    trimRight (s ++ [b]) = s ++ [b] := by
  unfold trimRight
  rw [List.reverse_append, List.reverse_singleton, List.singleton_append,
    dropWhile_cons_of_false isSpace b _ h, List.reverse_cons, List.reverse_reverse]

/-- white space around a trimmed text is exactly what `TrimSpace` removes -/
theorem trim_pad {l r y : List Char} (hl : AllSpace l) (hr : AllSpace r) (hy : Trimmed y) :
    trim (l ++ y ++ r) = y := by
  obtain ⟨⟨a, m, hy1, ha⟩, ⟨m', b, hy2, hb⟩⟩ := hy
  unfold trim
  rw [List.append_assoc, trimLeft_append_of_allSpace _ hl]
  have h1 : trimLeft (y ++ r) = y ++ r := by
    rw [hy1, List.cons_append]; exact trimLeft_cons_of_not _ ha
  rw [h1, trimRight_append_of_allSpace _ hr, hy2]
  exact trimRight_concat_of_not _ hb

theorem trim_of_trimmed {y : List Char} (hy : Trimmed y) : trim y = y := by
  have := trim_pad (l := []) (r := []) allSpace_nil allSpace_nil hy
  simpa using this

theorem trim_nil : trim [] = [] := rfl

/-- what `TrimSpace` does: it removes a white-space prefix and a white-space suffix, and what is
left is empty or starts and ends with a non-space -/
theorem trim_spec (s : List Char) :
    ∃ l r, s = l ++ trim s ++ r ∧ AllSpace l ∧ AllSpace r ∧ (trim s = [] ∨ Trimmed (trim s)) := by
  obtain ⟨pre, hs, hpre⟩ := dropWhile_decomp isSpace s
  cases hx : s.dropWhile isSpace with
  | nil =>
    have ht : trim s = [] := by simp [trim, trimLeft, hx, trimRight]
    refine ⟨pre, [], ?_, hpre, allSpace_nil, .inl ht⟩
    rw [ht]; rw [hx] at hs; simpa using hs
  | cons a m =>
    have ha : isSpace a = false := dropWhile_head_false isSpace s a m hx
    obtain ⟨pre2, hr, hpre2⟩ := dropWhile_decomp isSpace (a :: m).reverse
    have htrim : trim s = ((a :: m).reverse.dropWhile isSpace).reverse := by
      simp [trim, trimLeft, hx, trimRight]
    cases hd : (a :: m).reverse.dropWhile isSpace with
    | nil =>
      -- impossible: `a` is not a space
      rw [hd, List.append_nil] at hr
      have : a ∈ pre2 := by rw [← hr]; simp
      have := hpre2 a this
      rw [ha] at this; cases this
    | cons b d =>
      have hb : isSpace b = false := dropWhile_head_false isSpace _ b d hd
      rw [hd] at hr htrim
      have hx2 : a :: m = d.reverse ++ [b] ++ pre2.reverse := by
        have := congrArg List.reverse hr
        simpa using this
      have hy : trim s = d.reverse ++ [b] := by rw [htrim]; simp
      refine ⟨pre, pre2.reverse, ?_, hpre, allSpace_reverse hpre2, .inr ⟨?_, ⟨d.reverse, b, hy, hb⟩⟩⟩
      · rw [hy, List.append_assoc pre, ← hx2, ← hx]; exact hs
      · -- the head of `trim s` is `a`
        rw [hy]
        cases hdr : d.reverse with
        | nil =>
          rw [hdr] at hx2
          simp only [List.nil_append, List.singleton_append, List.cons.injEq] at hx2
          exact ⟨b, [], rfl, hb⟩
        | cons a' m' =>
          rw [hdr] at hx2
          simp only [List.cons_append, List.cons.injEq] at hx2
          exact ⟨a', m' ++ [b], by simp, hx2.1 ▸ ha⟩

theorem trim_trim (s : List Char) : trim (trim s) = trim s := by
  obtain ⟨_, _, _, _, _, h | h⟩ := trim_spec s
  · rw [h]; rfl
  · exact trim_of_trimmed h

theorem dropWhile_length_le (p : Char → Bool) (l : List Char) : (l.dropWhile p).length ≤ l.length := by
  obtain ⟨pre, h, _⟩ := dropWhile_decomp p l
  have := congrArg List.length h
  simp at this; omega

theorem trim_length_le (s : List Char) : (trim s).length ≤ s.length := by
  unfold trim trimRight trimLeft
  have h1 := dropWhile_length_le isSpace s
  have h2 := dropWhile_length_le isSpace (s.dropWhile isSpace).reverse
  simp at h2 ⊢; omega

theorem trimmed_of_noSpace {s : List Char} (hne : s ≠ []) (h : NoSpace s) : Trimmed s := by
  constructor
  · cases s with
    | nil => exact absurd rfl hne
    | cons a m => exact ⟨a, m, rfl, h a (by simp)⟩
  · cases hr : s.reverse with
    | nil => simp at hr; exact absurd hr hne
    | cons b d =>
      have hs : s = d.reverse ++ [b] := by
        have := congrArg List.reverse hr; simpa using this
      exact ⟨d.reverse, b, hs, h b (by rw [hs]; simp)⟩

theorem trim_of_noSpace {s : List Char} (h : NoSpace s) : trim s = s := by
  cases s with
  | nil => rfl
  | cons a m => exact trim_of_trimmed (trimmed_of_noSpace (by simp) h)

/-! ### cut -/

theorem cut_of_not_mem (c : Char) : ∀ s : List Char, c ∉ s → cut c s = none := by
  intro s
  induction s with
  | nil => intro _; rfl
  | cons x xs ih =>
    intro h
    have hx : x ≠ c := fun e => h (by simp [e])
    have hxs : c ∉ xs := fun e => h (by simp [e])
    simp [cut, hx, ih hxs]

theorem cut_append (c : Char) : ∀ (a b : List Char), c ∉ a → cut c (a ++ c :: b) = some (a, b) := by
  intro a
  induction a with
  | nil => intro b _; simp [cut]
  | cons x xs ih =>
    intro b h
    have hx : x ≠ c := fun e => h (by simp [e])
    have hxs : c ∉ xs := fun e => h (by simp [e])
    simp [cut, hx, ih b hxs]

theorem cut_some (c : Char) : ∀ (s a b : List Char), cut c s = some (a, b) → s = a ++ c :: b ∧ c ∉ a := by
  intro s
  induction s with
  | nil => intro a b h; simp [cut] at h
  | cons x xs ih =>
    intro a b h
    by_cases hx : x = c
    · simp only [cut, hx, if_true, Option.some.injEq, Prod.mk.injEq] at h
      obtain ⟨rfl, rfl⟩ := h
      simp [hx]
    · simp only [cut, hx, if_false] at h
      cases hc : cut c xs with
      | none => rw [hc] at h; simp at h
      | some ab =>
        obtain ⟨a', b'⟩ := ab
        rw [hc] at h
        simp only [Option.some.injEq, Prod.mk.injEq] at h
        obtain ⟨rfl, rfl⟩ := h
        obtain ⟨h1, h2⟩ := ih a' b' hc
        refine ⟨by rw [h1]; rfl, ?_⟩
        intro hm
        rcases List.mem_cons.mp hm with e | e
        · exact hx e.symm
        · exact h2 e

theorem cut_none (c : Char) (s : List Char) (h : cut c s = none) : c ∉ s := by
  intro hm
  obtain ⟨a, b, hs⟩ := List.append_of_mem hm
  -- take the first occurrence: induct instead
  clear hs a b
  induction s with
  | nil => cases hm
  | cons x xs ih =>
    by_cases hx : x = c
    · simp [cut, hx] at h
    · simp only [cut, hx, if_false] at h
      cases hc : cut c xs with
      | none =>
        rcases List.mem_cons.mp hm with e | e
        · exact hx e.symm
        · exact ih hc e
      | some ab => rw [hc] at h; simp at h

/-! ### `stripScheme`: fuel independence, unfolding equation, idempotence -/

theorem stripAux_nil (n : Nat) : stripAux n [] = ([], false) := by
  cases n <;> simp [stripAux, trim_nil, cut]

theorem stripAux_fuel : ∀ (n m : Nat) (h : List Char), h.length ≤ n → h.length ≤ m →
    stripAux n h = stripAux m h := by
  intro n
  induction n with
  | zero =>
    intro m h hn _
    have : h = [] := List.eq_nil_of_length_eq_zero (by omega)
    subst this
    rw [stripAux_nil, stripAux_nil]
  | succ n ih =>
    intro m h hn hm
    cases m with
    | zero =>
      have : h = [] := List.eq_nil_of_length_eq_zero (by omega)
      subst this
      rw [stripAux_nil, stripAux_nil]
    | succ m =>
      simp only [stripAux]
      cases hc : cut ' ' (trim h) with
      | none => rfl
      | some pr =>
        obtain ⟨pfx, rest⟩ := pr
        simp only
        have hlen := congrArg List.length (cut_some ' ' _ _ _ hc).1
        have htl := trim_length_le h
        simp at hlen
        rw [ih m rest (by omega) (by omega)]

/-- `StripAuthorizationScheme`, as the Go function reads -/
theorem stripScheme_eq (h : List Char) :
    stripScheme h =
      match cut ' ' (trim h) with
      | none => (trim h, false)
      | some (pfx, rest) =>
        if isSchemeWord (trim pfx) then ((stripScheme rest).1, true) else (trim h, false) := by
  unfold stripScheme
  cases hl : h.length with
  | zero =>
    have : h = [] := List.eq_nil_of_length_eq_zero hl
    subst this
    simp [stripAux, trim_nil, cut]
  | succ n =>
    simp only [stripAux]
    cases hc : cut ' ' (trim h) with
    | none => rfl
    | some pr =>
      obtain ⟨pfx, rest⟩ := pr
      simp only
      have hlen := congrArg List.length (cut_some ' ' _ _ _ hc).1
      have htl := trim_length_le h
      simp at hlen
      rw [stripAux_fuel n rest.length rest (by omega) (Nat.le_refl _)]

/-- stripping an already stripped header changes nothing and finds no scheme -/
theorem stripScheme_idem (h : List Char) :
    stripScheme (stripScheme h).1 = ((stripScheme h).1, false) := by
  generalize hn : h.length = n
  induction n using Nat.strongRecOn generalizing h with
  | _ n ih =>
    rw [stripScheme_eq h]
    cases hc : cut ' ' (trim h) with
    | none =>
      simp only
      rw [stripScheme_eq (trim h), trim_trim, hc]
    | some pr =>
      obtain ⟨pfx, rest⟩ := pr
      simp only
      by_cases hs : isSchemeWord (trim pfx) = true
      · rw [if_pos hs]
        have hlen := congrArg List.length (cut_some ' ' _ _ _ hc).1
        have htl := trim_length_le h
        simp at hlen
        exact ih rest.length (by omega) rest rfl
      · rw [if_neg hs]
        rw [stripScheme_eq (trim h), trim_trim, hc]
        simp only
        rw [if_neg hs]

/-- the stripped header is trimmed -/
theorem stripScheme_trimmed (h : List Char) : trim (stripScheme h).1 = (stripScheme h).1 := by
  have := stripScheme_idem h
  rw [stripScheme_eq (stripScheme h).1] at this
  cases hc : cut ' ' (trim (stripScheme h).1) with
  | none => rw [hc] at this; simp only at this; exact congrArg Prod.fst this
  | some pr =>
    obtain ⟨pfx, rest⟩ := pr
    rw [hc] at this
    simp only at this
    by_cases hs : isSchemeWord (trim pfx) = true
    · simp [hs] at this
    · simp only [hs] at this
      exact congrArg Prod.fst this

/-! ### Scheme words -/

theorem asciiLower_of_space {c : Char} (h : isSpace c = true) : asciiLower c = c := by
  simp only [isSpace, Bool.or_eq_true, Bool.and_eq_true, decide_eq_true_eq, beq_iff_eq] at h
  have : ¬ (65 ≤ c.toNat ∧ c.toNat ≤ 90) := by omega
  simp [asciiLower, this]

theorem bearer_lower : schemeBearer.map asciiLower = ['b', 'e', 'a', 'r', 'e', 'r'] := by decide
theorem flyV1_lower : schemeFlyV1.map asciiLower = ['f', 'l', 'y', 'v', '1'] := by decide

/-- a word that `EqualFold`s to a scheme is non-empty and contains no white space -/
theorem schemeWord_chars {w : List Char} (h : isSchemeWord w = true) : w ≠ [] ∧ NoSpace w := by
  simp only [isSchemeWord, equalFoldAscii, Bool.or_eq_true, beq_iff_eq, bearer_lower, flyV1_lower] at h
  have hL : ∃ L : List Char, w.map asciiLower = L ∧ L ≠ [] ∧ ∀ c ∈ L, isSpace c = false := by
    rcases h with h | h
    · exact ⟨_, h, by simp, by decide⟩
    · exact ⟨_, h, by simp, by decide⟩
  obtain ⟨L, hw, hne, hns⟩ := hL
  constructor
  · rintro rfl
    exact hne (by simpa using hw.symm)
  · intro c hc
    cases hsp : isSpace c with
    | false => rfl
    | true =>
      have hm : asciiLower c ∈ w.map asciiLower := List.mem_map.mpr ⟨c, hc, rfl⟩
      rw [asciiLower_of_space hsp, hw] at hm
      rw [hns c hm] at hsp
      cases hsp

/-! ### Decorations -/

/-- scheme words, each with the gap that follows it -/
def wordsText : List (List Char × List Char) → List Char
  | [] => []
  | (w, g) :: rest => w ++ g ++ wordsText rest

/-- a scheme word in any letter case, followed by white space that contains at least one U+0020 -/
def WordOK (wg : List Char × List Char) : Prop :=
  isSchemeWord wg.1 = true ∧ AllSpace wg.2 ∧ ' ' ∈ wg.2

instance (wg : List Char × List Char) : Decidable (WordOK wg) := by unfold WordOK; infer_instance

theorem strip_words (body : List Char) (hb : NoSpace body) (hne : body ≠ []) :
    ∀ (ws : List (List Char × List Char)) (lead trail : List Char),
      AllSpace lead → AllSpace trail → (∀ wg ∈ ws, WordOK wg) →
      stripScheme (lead ++ (wordsText ws ++ body) ++ trail) = (body, !ws.isEmpty) := by
  intro ws
  induction ws with
  | nil =>
    intro lead trail hl ht _
    simp only [wordsText, List.nil_append]
    rw [stripScheme_eq, trim_pad hl ht (trimmed_of_noSpace hne hb),
      cut_of_not_mem ' ' body (noSpace_not_mem_space hb)]
    rfl
  | cons wg ws ih =>
    intro lead trail hl ht hv
    obtain ⟨w, g⟩ := wg
    obtain ⟨hw, hg, hsp⟩ := hv (w, g) (by simp)
    obtain ⟨hwne, hwns⟩ := schemeWord_chars hw
    have hwt : Trimmed w := trimmed_of_noSpace hwne hwns
    have hbt : Trimmed body := trimmed_of_noSpace hne hb
    -- the first U+0020 of the gap
    cases hcg : cut ' ' g with
    | none => exact absurd hsp (cut_none ' ' g hcg)
    | some pr =>
      obtain ⟨g1, g2⟩ := pr
      obtain ⟨hgeq, hg1⟩ := cut_some ' ' g g1 g2 hcg
      have hg1s : AllSpace g1 := fun c hc => hg c (by rw [hgeq]; simp [hc])
      have hg2s : AllSpace g2 := fun c hc => hg c (by rw [hgeq]; simp [hc])
      -- the text between the outer white space is trimmed
      have hY : Trimmed (wordsText ((w, g) :: ws) ++ body) := by
        obtain ⟨⟨a, m, hw1, ha⟩, _⟩ := hwt
        obtain ⟨_, ⟨m', b, hb2, hb'⟩⟩ := hbt
        constructor
        · exact ⟨a, m ++ g ++ wordsText ws ++ body, by simp [wordsText, hw1], ha⟩
        · exact ⟨wordsText ((w, g) :: ws) ++ m', b, by simp [hb2], hb'⟩
      rw [stripScheme_eq, trim_pad hl ht hY]
      have hform : wordsText ((w, g) :: ws) ++ body
          = (w ++ g1) ++ ' ' :: (g2 ++ (wordsText ws ++ body) ++ []) := by
        simp [wordsText, hgeq]
      have hnot : ' ' ∉ w ++ g1 := by
        intro hm
        rcases List.mem_append.mp hm with hm | hm
        · exact noSpace_not_mem_space hwns hm
        · exact hg1 hm
      rw [hform, cut_append ' ' _ _ hnot]
      simp only
      have htw : trim (w ++ g1) = w := by
        have := trim_pad (l := []) (r := g1) allSpace_nil hg1s hwt
        simpa using this
      rw [htw, if_pos hw, ih g2 [] hg2s allSpace_nil (fun x hx => hv x (by simp [hx]))]
      simp

/-- A decoration of a header body: leading white space, any number of scheme words each followed
by its gap, and trailing white space. -/
structure Deco where
  lead : List Char
  words : List (List Char × List Char)
  trail : List Char

/-- leading/trailing text is Unicode white space; every word is `FlyV1` or `Bearer` in any letter
case; every gap is white space containing at least one U+0020 (so: "followed by ≥ 1 spaces",
possibly mixed with other white space) -/
def Deco.Valid (d : Deco) : Prop :=
  AllSpace d.lead ∧ AllSpace d.trail ∧ ∀ wg ∈ d.words, WordOK wg

instance (d : Deco) : Decidable d.Valid := by unfold Deco.Valid; infer_instance

def decorate (d : Deco) (body : List Char) : List Char :=
  d.lead ++ (wordsText d.words ++ body) ++ d.trail

theorem strip_decorate (d : Deco) (hd : d.Valid) (body : List Char) (hb : NoSpace body) (hne : body ≠ []) :
    stripScheme (decorate d body) = (body, !d.words.isEmpty) :=
  strip_words body hb hne d.words d.lead d.trail hd.1 hd.2.1 hd.2.2

/-! ### `splitOn`, `joinWith` -/

theorem splitOn_ne_nil (c : Char) : ∀ s : List Char, splitOn c s ≠ []
  | [] => by simp [splitOn]
  | x :: xs => by
    unfold splitOn
    by_cases hx : x = c
    · simp [hx]
    · cases h : splitOn c xs <;> simp [hx]

theorem splitOn_of_not_mem (c : Char) : ∀ p : List Char, c ∉ p → splitOn c p = [p] := by
  intro p
  induction p with
  | nil => intro _; rfl
  | cons x xs ih =>
    intro h
    have hx : x ≠ c := fun e => h (by simp [e])
    have hxs : c ∉ xs := fun e => h (by simp [e])
    simp [splitOn, hx, ih hxs]

theorem splitOn_append (c : Char) : ∀ (p rest : List Char), c ∉ p →
    splitOn c (p ++ c :: rest) = p :: splitOn c rest := by
  intro p
  induction p with
  | nil => intro rest _; simp [splitOn]
  | cons x xs ih =>
    intro rest h
    have hx : x ≠ c := fun e => h (by simp [e])
    have hxs : c ∉ xs := fun e => h (by simp [e])
    simp [splitOn, hx, ih rest hxs]

/-- splitting a joined list gives the list back, when no element contains the separator -/
theorem splitOn_joinWith (c : Char) : ∀ ps : List (List Char), ps ≠ [] → (∀ p ∈ ps, c ∉ p) →
    splitOn c (joinWith c ps) = ps
  | [], h, _ => absurd rfl h
  | [p], _, hp => by
    simp [joinWith, splitOn_of_not_mem c p (hp p (by simp))]
  | p :: q :: ps, _, hp => by
    rw [joinWith, splitOn_append c _ _ (hp p (by simp)),
      splitOn_joinWith c (q :: ps) (by simp) (fun x hx => hp x (by simp [hx]))]

theorem joinWith_cons_cons (c x : Char) (p : List Char) (ps : List (List Char)) :
    joinWith c ((x :: p) :: ps) = x :: joinWith c (p :: ps) := by
  cases ps <;> simp [joinWith]

/-- joining the split parts gives the text back -/
theorem joinWith_splitOn (c : Char) : ∀ s : List Char, joinWith c (splitOn c s) = s := by
  intro s
  induction s with
  | nil => rfl
  | cons x xs ih =>
    by_cases hx : x = c
    · cases h : splitOn c xs with
      | nil => exact absurd h (splitOn_ne_nil c xs)
      | cons q qs =>
        rw [h] at ih
        simp [splitOn, hx, h, joinWith, ih]
    · cases h : splitOn c xs with
      | nil => exact absurd h (splitOn_ne_nil c xs)
      | cons q qs =>
        rw [h] at ih
        simp [splitOn, hx, h, joinWith_cons_cons, ih]

theorem mem_joinWith (c : Char) : ∀ (ps : List (List Char)) (x : Char), x ∈ joinWith c ps →
    x = c ∨ ∃ p ∈ ps, x ∈ p
  | [], x, h => by simp [joinWith] at h
  | [p], x, h => by
    simp only [joinWith] at h
    exact .inr ⟨p, by simp, h⟩
  | p :: q :: ps, x, h => by
    simp only [joinWith, List.mem_append, List.mem_cons] at h
    rcases h with h | h | h
    · exact .inr ⟨p, by simp, h⟩
    · exact .inl h
    · rcases mem_joinWith c (q :: ps) x h with h | ⟨p', hp', hx⟩
      · exact .inl h
      · exact .inr ⟨p', by simp only [List.mem_cons] at hp' ⊢; exact .inr hp', hx⟩

theorem joinWith_ne_nil (c : Char) : ∀ (ps : List (List Char)), (∃ p ∈ ps, p ≠ []) → joinWith c ps ≠ []
  | [], h => by obtain ⟨p, hp, _⟩ := h; cases hp
  | [p], h => by
    obtain ⟨p', hp', hne⟩ := h
    simp only [List.mem_singleton] at hp'
    subst hp'
    simpa [joinWith] using hne
  | p :: q :: ps, _ => by simp [joinWith]

/-! ### Entries -/

theorem isMacaroonLabel_iff (l : List Char) :
    isMacaroonLabel l = true ↔ l = labelPermission ∨ l = labelDischarge ∨ l = labelV2 := by
  simp [isMacaroonLabel, or_assoc]

theorem macaroonLabel_no_sep {l : List Char} (h : isMacaroonLabel l = true) : '_' ∉ l := by
  rcases (isMacaroonLabel_iff l).mp h with rfl | rfl | rfl <;> decide

theorem macaroonLabel_noSpace {l : List Char} (h : isMacaroonLabel l = true) : NoSpace l := by
  rcases (isMacaroonLabel_iff l).mp h with rfl | rfl | rfl <;> (unfold NoSpace; decide)

theorem macaroonLabel_no_comma {l : List Char} (h : isMacaroonLabel l = true) : ',' ∉ l := by
  rcases (isMacaroonLabel_iff l).mp h with rfl | rfl | rfl <;> decide

theorem enc6_not_space : ∀ n, n < 64 → isSpace (Base64.enc6 n) = false := by decide

theorem encode_noSpace (t : Bytes) : NoSpace (Base64.encode t) := by
  intro c hc
  rcases Base64.encode_chars t c hc with rfl | ⟨n, hn, rfl⟩
  · decide
  · exact enc6_not_space n hn

theorem encode_no_comma (t : Bytes) : ',' ∉ Base64.encode t :=
  fun h => (Base64.encode_alphabet t ',' h).1 rfl

/-- a well-formed macaroon entry parses to its token -/
theorem parseEntry_entry (label : List Char) (t : Bytes) (hl : isMacaroonLabel label = true) (ht : t ≠ []) :
    parseEntry (entry label t) = .ok (some t) := by
  unfold parseEntry entry
  rw [cut_append '_' label _ (macaroonLabel_no_sep hl)]
  simp only [hl, if_true, Base64.decode_encode]
  cases t with
  | nil => exact absurd rfl ht
  | cons b bs => rfl

/-- an OAuth entry is skipped, whatever follows its label -/
theorem parseEntry_oauth (p : List Char) : parseEntry (labelOAuth ++ '_' :: p) = .ok none := by
  unfold parseEntry
  rw [cut_append '_' labelOAuth p (by decide)]
  have h1 : isMacaroonLabel labelOAuth = false := by decide
  simp [h1]

/-- the entries of a header, abstractly: a macaroon under some label, or an OAuth entry -/
inductive Entry
  | mac (label : List Char) (tok : Bytes)
  | oauth (payload : List Char)

def Entry.text : Entry → List Char
  | .mac l t => entry l t
  | .oauth p => labelOAuth ++ '_' :: p

def Entry.tok? : Entry → Option Bytes
  | .mac _ t => some t
  | .oauth _ => none

/-- a macaroon entry carries one of the three accepted labels and a non-empty token; an OAuth
payload is any text without comma and white space -/
def Entry.Valid : Entry → Prop
  | .mac l t => isMacaroonLabel l = true ∧ t ≠ []
  | .oauth p => ',' ∉ p ∧ NoSpace p

theorem Entry.parse_text (e : Entry) (h : e.Valid) : parseEntry e.text = .ok e.tok? := by
  cases e with
  | mac l t => exact parseEntry_entry l t h.1 h.2
  | oauth p => exact parseEntry_oauth p

theorem Entry.text_no_comma (e : Entry) (h : e.Valid) : ',' ∉ e.text := by
  cases e with
  | mac l t =>
    intro hm
    simp only [Entry.text, entry, List.mem_append, List.mem_cons] at hm
    rcases hm with hm | hm | hm
    · exact macaroonLabel_no_comma h.1 hm
    · cases hm
    · exact encode_no_comma t hm
  | oauth p =>
    intro hm
    simp only [Entry.text, List.mem_append, List.mem_cons] at hm
    rcases hm with hm | hm | hm
    · revert hm; decide
    · cases hm
    · exact h.1 hm

theorem Entry.text_noSpace (e : Entry) (h : e.Valid) : NoSpace e.text := by
  cases e with
  | mac l t =>
    intro c hm
    simp only [Entry.text, entry, List.mem_append, List.mem_cons] at hm
    rcases hm with hm | rfl | hm
    · exact macaroonLabel_noSpace h.1 c hm
    · decide
    · exact encode_noSpace t c hm
  | oauth p =>
    intro c hm
    simp only [Entry.text, List.mem_append, List.mem_cons] at hm
    rcases hm with hm | rfl | hm
    · revert c; unfold labelOAuth; decide
    · decide
    · exact h.2 c hm

theorem Entry.text_ne_nil (e : Entry) : e.text ≠ [] := by
  cases e <;> simp [Entry.text, entry, labelOAuth]

theorem parseEntries_texts : ∀ es : List Entry, (∀ e ∈ es, e.Valid) →
    parseEntries (es.map Entry.text) = .ok (es.filterMap Entry.tok?) := by
  intro es
  induction es with
  | nil => intro _; rfl
  | cons e es ih =>
    intro h
    have he := Entry.parse_text e (h e (by simp))
    have ih' := ih (fun x hx => h x (by simp [hx]))
    simp only [List.map_cons, parseEntries, he, ih']
    cases e <;> simp [Entry.tok?, List.filterMap_cons]

/-- the body of a header made of entries -/
def renderEntries (es : List Entry) : List Char := joinWith ',' (es.map Entry.text)

theorem renderEntries_noSpace (es : List Entry) (h : ∀ e ∈ es, e.Valid) : NoSpace (renderEntries es) := by
  intro c hc
  rcases mem_joinWith ',' _ c hc with rfl | ⟨p, hp, hx⟩
  · decide
  · obtain ⟨e, he, rfl⟩ := List.mem_map.mp hp
    exact Entry.text_noSpace e (h e he) c hx

theorem renderEntries_ne_nil (es : List Entry) (h : es ≠ []) : renderEntries es ≠ [] := by
  cases es with
  | nil => exact absurd rfl h
  | cons e es => exact joinWith_ne_nil ',' _ ⟨e.text, by simp, Entry.text_ne_nil e⟩

theorem parts_decorate_render (d : Deco) (hd : d.Valid) (es : List Entry) (hne : es ≠ [])
    (hv : ∀ e ∈ es, e.Valid) : parts (decorate d (renderEntries es)) = es.map Entry.text := by
  unfold parts
  rw [strip_decorate d hd _ (renderEntries_noSpace es hv) (renderEntries_ne_nil es hne)]
  apply splitOn_joinWith
  · cases es with
    | nil => exact absurd rfl hne
    | cons e es => simp
  · intro p hp
    obtain ⟨e, he, rfl⟩ := List.mem_map.mp hp
    exact Entry.text_no_comma e (hv e he)

/-- `parse` of any decoration of any list of well-formed entries with at least one macaroon entry -/
theorem parse_decorate_render (d : Deco) (hd : d.Valid) (es : List Entry)
    (hv : ∀ e ∈ es, e.Valid) (hmac : es.filterMap Entry.tok? ≠ []) :
    parse (decorate d (renderEntries es)) = .ok (es.filterMap Entry.tok?) := by
  have hne : es ≠ [] := by rintro rfl; exact hmac rfl
  unfold parse
  rw [parts_decorate_render d hd es hne hv, parseEntries_texts es hv]
  cases h : es.filterMap Entry.tok? with
  | nil => exact absurd h hmac
  | cons t ts => rfl

theorem encodeTokens_eq_render (toks : List Bytes) :
    encodeTokens toks = renderEntries (toks.map (Entry.mac labelV2)) := by
  simp [encodeTokens, renderEntries, List.map_map, Function.comp_def, Entry.text]

theorem filterMap_tok_mac (ls : List (List Char × Bytes)) :
    (ls.map fun lt => Entry.mac lt.1 lt.2).filterMap Entry.tok? = ls.map (·.2) := by
  induction ls with
  | nil => rfl
  | cons x xs ih => simp [Entry.tok?, ih]

/-! ### Rejections -/

theorem parseEntry_error {e : List Char} {x : ParseErr} (h : parseEntry e = .error x) : x = .unrecognized := by
  unfold parseEntry at h
  split at h
  · cases h; rfl
  · split at h
    · split at h
      · cases h; rfl
      · cases h; rfl
      · cases h
    · split at h
      · cases h
      · cases h; rfl

theorem parseEntries_error : ∀ {es : List (List Char)} {x : ParseErr}, parseEntries es = .error x → x = .unrecognized := by
  intro es
  induction es with
  | nil => intro x h; cases h
  | cons e es ih =>
    intro x h
    unfold parseEntries at h
    split at h
    · rename_i y hy
      cases h; exact parseEntry_error hy
    · exact ih h
    · split at h
      · cases h; rename_i y hy; exact ih hy
      · cases h

/-- every failure of `Parse` is in the `ErrUnrecognizedToken` class -/
theorem parse_error {h : List Char} {x : ParseErr} (hp : parse h = .error x) : x = .unrecognized := by
  unfold parse at hp
  split at hp
  · rename_i y hy; cases hp; exact parseEntries_error hy
  · cases hp; rfl
  · cases hp

/-- one bad entry anywhere makes the loop fail -/
theorem parseEntries_bad_mem : ∀ (es : List (List Char)) (e : List Char), e ∈ es →
    (∃ x, parseEntry e = .error x) → parseEntries es = .error .unrecognized := by
  intro es
  induction es with
  | nil => intro e h; cases h
  | cons a es ih =>
    intro e hm hbad
    have key : ∃ x, parseEntries (a :: es) = .error x := by
      rcases List.mem_cons.mp hm with rfl | hm
      · obtain ⟨x, hx⟩ := hbad
        exact ⟨x, by simp [parseEntries, hx]⟩
      · have ih' := ih e hm hbad
        unfold parseEntries
        split
        · exact ⟨_, rfl⟩
        · exact ⟨_, ih'⟩
        · rw [ih']; exact ⟨_, rfl⟩
    obtain ⟨x, hx⟩ := key
    rw [hx, parseEntries_error hx]

theorem parse_bad_part (h e : List Char) (hm : e ∈ parts h) (hbad : ∃ x, parseEntry e = .error x) :
    parse h = .error .unrecognized := by
  unfold parse
  rw [parseEntries_bad_mem (parts h) e hm hbad]

theorem parseEntry_no_sep (e : List Char) (h : '_' ∉ e) : parseEntry e = .error .unrecognized := by
  unfold parseEntry
  rw [cut_of_not_mem '_' e h]

theorem parseEntry_unknown_label (label rest : List Char) (h1 : '_' ∉ label)
    (h2 : isMacaroonLabel label = false) (h3 : label ≠ labelOAuth) :
    parseEntry (label ++ '_' :: rest) = .error .unrecognized := by
  unfold parseEntry
  rw [cut_append '_' label rest h1]
  have : (label == labelOAuth) = false := by simpa using h3
  simp [h2, this]

theorem parseEntry_bad_base64 (label b64 : List Char) (h1 : isMacaroonLabel label = true)
    (h2 : Base64.decode b64 = none) : parseEntry (label ++ '_' :: b64) = .error .unrecognized := by
  unfold parseEntry
  rw [cut_append '_' label b64 (macaroonLabel_no_sep h1)]
  simp [h1, h2]

theorem parseEntry_empty_payload (label b64 : List Char) (h1 : isMacaroonLabel label = true)
    (h2 : Base64.decode b64 = some []) : parseEntry (label ++ '_' :: b64) = .error .unrecognized := by
  unfold parseEntry
  rw [cut_append '_' label b64 (macaroonLabel_no_sep h1)]
  simp [h1, h2]

theorem parseEntries_all_oauth : ∀ es : List (List Char), (∀ e ∈ es, ∃ p, e = labelOAuth ++ '_' :: p) →
    parseEntries es = .ok [] := by
  intro es
  induction es with
  | nil => intro _; rfl
  | cons e es ih =>
    intro h
    obtain ⟨p, rfl⟩ := h e (by simp)
    simp [parseEntries, parseEntry_oauth, ih (fun x hx => h x (by simp [hx]))]

theorem parse_all_oauth (h : List Char) (ho : ∀ e ∈ parts h, ∃ p, e = labelOAuth ++ '_' :: p) :
    parse h = .error .unrecognized := by
  unfold parse
  rw [parseEntries_all_oauth _ ho]

/-- what an accepted header looks like: every entry is fine, and the result is the list of the
decoded macaroon entries, in order -/
theorem parseEntries_ok : ∀ (es : List (List Char)) (toks : List Bytes), parseEntries es = .ok toks →
    (∀ e ∈ es, ∃ r, parseEntry e = .ok r) ∧
    toks = es.filterMap fun e => match parseEntry e with | .ok (some raw) => some raw | _ => none := by
  intro es
  induction es with
  | nil => intro toks h; cases h; exact ⟨(by intro e he; cases he), rfl⟩
  | cons e es ih =>
    intro toks h
    unfold parseEntries at h
    split at h
    · cases h
    · rename_i he
      obtain ⟨h1, h2⟩ := ih toks h
      refine ⟨?_, ?_⟩
      · intro x hx
        rcases List.mem_cons.mp hx with rfl | hx
        · exact ⟨_, he⟩
        · exact h1 x hx
      · simp [he, ← h2]
    · rename_i raw he
      split at h
      · cases h
      · rename_i toks' ht
        cases h
        obtain ⟨h1, h2⟩ := ih toks' ht
        refine ⟨?_, ?_⟩
        · intro x hx
          rcases List.mem_cons.mp hx with rfl | hx
          · exact ⟨_, he⟩
          · exact h1 x hx
        · simp [he, ← h2]

/-! ### Location split -/

theorem splitByLocation_eq (dec : Bytes → Option Bytes) (loc : Bytes) (toks : List Bytes) :
    splitByLocation dec loc toks =
      (toks.filter (fun t => dec t == some loc),
       toks.filter (fun t => match dec t with | some l => l != loc | none => false)) := by
  induction toks with
  | nil => rfl
  | cons t ts ih =>
    simp only [splitByLocation, ih, List.filter_cons]
    cases hd : dec t with
    | none => simp
    | some l =>
      by_cases hl : l = loc
      · simp [hl]
      · simp [hl]

/-! ### Bundle tokeniser -/

theorem classifyPart_str (s : List Char) : (classifyPart s).str = s := by
  unfold classifyPart
  split
  · rfl
  · split
    · split <;> rfl
    · rfl

theorem parseTok_str (p : List Char) : (parseTok p).str = trim p := classifyPart_str _

theorem parseToks_str (h : List Char) : (parseToks h).map Tok.str = (parts h).map trim := by
  simp [parseToks, List.map_map, Function.comp_def, parseTok_str]

theorem parts_ne_nil (h : List Char) : parts h ≠ [] := splitOn_ne_nil _ _

theorem parseToks_ne_nil (h : List Char) : parseToks h ≠ [] := by
  unfold parseToks
  intro he
  exact parts_ne_nil h (List.map_eq_nil_iff.mp he)

theorem header_parseToks (h : List Char) :
    header (parseToks h) = schemeFlyV1 ++ ' ' :: joinWith ',' ((parts h).map trim) := by
  cases ht : parseToks h with
  | nil => exact absurd ht (parseToks_ne_nil h)
  | cons t ts =>
    simp only [header, tokString]
    rw [← ht, parseToks_str]

/-- The classification of one (already trimmed) part by the bundle tokeniser, declaratively:
exactly one of the four rules applies to any text. -/
inductive Classifies : List Char → Tok → Prop
  | noSeparator (s : List Char) : '_' ∉ s → Classifies s (.nonMacaroon s)
  | otherLabel (l r : List Char) : '_' ∉ l → isMacaroonLabel l = false →
      Classifies (l ++ '_' :: r) (.nonMacaroon (l ++ '_' :: r))
  | badBase64 (l r : List Char) : isMacaroonLabel l = true → Base64.decode r = none →
      Classifies (l ++ '_' :: r) (.malformedB64 (l ++ '_' :: r))
  | macaroon (l r : List Char) (raw : Bytes) : isMacaroonLabel l = true → Base64.decode r = some raw →
      Classifies (l ++ '_' :: r) (.macaroonBytes (l ++ '_' :: r) raw)

theorem classifies_iff (s : List Char) (t : Tok) : Classifies s t ↔ classifyPart s = t := by
  constructor
  · intro h
    cases h with
    | noSeparator s h => unfold classifyPart; rw [cut_of_not_mem '_' s h]
    | otherLabel l r h1 h2 => unfold classifyPart; rw [cut_append '_' l r h1]; simp [h2]
    | badBase64 l r h1 h2 =>
      unfold classifyPart; rw [cut_append '_' l r (macaroonLabel_no_sep h1)]; simp [h1, h2]
    | macaroon l r raw h1 h2 =>
      unfold classifyPart; rw [cut_append '_' l r (macaroonLabel_no_sep h1)]; simp [h1, h2]
  · rintro rfl
    unfold classifyPart
    cases hc : cut '_' s with
    | none => exact .noSeparator s (cut_none '_' s hc)
    | some pr =>
      obtain ⟨l, r⟩ := pr
      obtain ⟨rfl, hl⟩ := cut_some '_' s l r hc
      simp only
      cases hm : isMacaroonLabel l with
      | false => simpa using .otherLabel l r hl hm
      | true =>
        cases hd : Base64.decode r with
        | none => simpa using .badBase64 l r hm hd
        | some raw => simpa using .macaroon l r raw hm hd

/-! ### `ToAuthorizationHeader` -/

/-- the decoration `ToAuthorizationHeader` applies: the scheme `FlyV1` and one space -/
def flyV1Deco : Deco := ⟨[], [(schemeFlyV1, [' '])], []⟩

theorem flyV1Deco_valid : flyV1Deco.Valid := by
  refine ⟨allSpace_nil, allSpace_nil, ?_⟩
  intro wg h
  simp only [flyV1Deco, List.mem_singleton] at h
  subst h
  refine ⟨by decide, ?_, by simp⟩
  intro c hc
  simp only [List.mem_singleton] at hc
  subst hc; decide

theorem toAuthorizationHeader_eq (toks : List Bytes) :
    toAuthorizationHeader toks = decorate flyV1Deco (encodeTokens toks) := by
  simp [toAuthorizationHeader, decorate, flyV1Deco, wordsText]

theorem filterMap_tok_map_mac (l : List Char) (toks : List Bytes) :
    (toks.map (Entry.mac l)).filterMap Entry.tok? = toks := by
  induction toks with
  | nil => rfl
  | cons t ts ih => simp [Entry.tok?, ih]

theorem parse_decorate_encodeTokens (d : Deco) (hd : d.Valid) (toks : List Bytes) (hne : toks ≠ [])
    (hts : ∀ t ∈ toks, t ≠ []) : parse (decorate d (encodeTokens toks)) = .ok toks := by
  have hv : ∀ e ∈ toks.map (Entry.mac labelV2), e.Valid := by
    intro e he
    obtain ⟨t, ht, rfl⟩ := List.mem_map.mp he
    exact ⟨by decide, hts t ht⟩
  have := parse_decorate_render d hd (toks.map (Entry.mac labelV2)) hv
    (by rw [filterMap_tok_map_mac]; exact hne)
  rw [filterMap_tok_map_mac] at this
  rw [encodeTokens_eq_render]; exact this

theorem entry_injective (l : List Char) {a b : Bytes} (h : entry l a = entry l b) : a = b := by
  unfold entry at h
  have := List.append_cancel_left h
  simp only [List.cons.injEq, true_and] at this
  exact Base64.encode_injective this

theorem map_entry_injective (l : List Char) : ∀ {a b : List Bytes}, a.map (entry l) = b.map (entry l) → a = b := by
  intro a
  induction a with
  | nil => intro b h; cases b with
    | nil => rfl
    | cons _ _ => simp at h
  | cons x xs ih => intro b h; cases b with
    | nil => simp at h
    | cons y ys =>
      simp only [List.map_cons, List.cons.injEq] at h
      rw [entry_injective l h.1, ih h.2]

theorem splitOn_encodeTokens (toks : List Bytes) (hne : toks ≠ []) :
    splitOn ',' (encodeTokens toks) = toks.map (entry labelV2) := by
  unfold encodeTokens
  apply splitOn_joinWith
  · cases toks with
    | nil => exact absurd rfl hne
    | cons _ _ => simp
  · intro p hp
    obtain ⟨t, _, rfl⟩ := List.mem_map.mp hp
    intro hm
    simp only [entry, List.mem_append, List.mem_cons] at hm
    rcases hm with hm | hm | hm
    · revert hm; decide
    · cases hm
    · exact encode_no_comma t hm

/-- different token lists give different headers (no hypothesis on the tokens) -/
theorem encodeTokens_injective {a b : List Bytes} (h : encodeTokens a = encodeTokens b) : a = b := by
  by_cases ha : a = []
  · subst ha
    by_cases hb : b = []
    · exact hb.symm
    · exfalso
      have : encodeTokens b ≠ [] := by
        cases b with
        | nil => exact absurd rfl hb
        | cons t ts =>
          unfold encodeTokens
          exact joinWith_ne_nil ',' _ ⟨entry labelV2 t, by simp, by simp [entry]⟩
      exact this h.symm
  · by_cases hb : b = []
    · subst hb
      exfalso
      have : encodeTokens a ≠ [] := by
        cases a with
        | nil => exact absurd rfl ha
        | cons t ts =>
          unfold encodeTokens
          exact joinWith_ne_nil ',' _ ⟨entry labelV2 t, by simp, by simp [entry]⟩
      exact this h
    · have := congrArg (splitOn ',') h
      rw [splitOn_encodeTokens a ha, splitOn_encodeTokens b hb] at this
      exact map_entry_injective labelV2 this

theorem toAuthorizationHeader_injective {a b : List Bytes}
    (h : toAuthorizationHeader a = toAuthorizationHeader b) : a = b := by
  unfold toAuthorizationHeader at h
  have := List.append_cancel_left h
  simp only [List.cons.injEq, true_and] at this
  exact encodeTokens_injective this

/-! ### What an accepted entry looks like -/

theorem parseEntry_ok_some {e : List Char} {raw : Bytes} (h : parseEntry e = .ok (some raw)) :
    ∃ l b64, e = l ++ '_' :: b64 ∧ isMacaroonLabel l = true ∧ Base64.decode b64 = some raw ∧ raw ≠ [] := by
  unfold parseEntry at h
  cases hc : cut '_' e with
  | none => rw [hc] at h; cases h
  | some pr =>
    obtain ⟨l, b64⟩ := pr
    rw [hc] at h
    simp only at h
    obtain ⟨he, _⟩ := cut_some '_' e l b64 hc
    cases hm : isMacaroonLabel l with
    | true =>
      rw [hm] at h
      simp only [if_true] at h
      cases hd : Base64.decode b64 with
      | none => rw [hd] at h; cases h
      | some r =>
        rw [hd] at h
        cases r with
        | nil => cases h
        | cons b bs =>
          simp only [Except.ok.injEq, Option.some.injEq] at h
          subst h
          exact ⟨l, b64, he, hm, hd, by simp⟩
    | false =>
      rw [hm] at h
      simp only [Bool.false_eq_true, if_false] at h
      split at h <;> cases h

theorem parseEntry_ok_none {e : List Char} (h : parseEntry e = .ok none) :
    ∃ p, e = labelOAuth ++ '_' :: p := by
  unfold parseEntry at h
  cases hc : cut '_' e with
  | none => rw [hc] at h; cases h
  | some pr =>
    obtain ⟨l, b64⟩ := pr
    rw [hc] at h
    simp only at h
    obtain ⟨he, _⟩ := cut_some '_' e l b64 hc
    cases hm : isMacaroonLabel l with
    | true =>
      rw [hm] at h
      simp only [if_true] at h
      split at h <;> cases h
    | false =>
      rw [hm] at h
      simp only [Bool.false_eq_true, if_false] at h
      by_cases hl : l = labelOAuth
      · subst hl; exact ⟨b64, he⟩
      · have : (l == labelOAuth) = false := by simpa using hl
        rw [this] at h
        cases h

theorem filterMap_congr' {α β : Type} {f g : α → Option β} : ∀ {l : List α}, (∀ x ∈ l, f x = g x) →
    l.filterMap f = l.filterMap g := by
  intro l
  induction l with
  | nil => intro _; rfl
  | cons a l ih =>
    intro h
    simp only [List.filterMap_cons, h a (by simp), ih (fun x hx => h x (by simp [hx]))]

/-- the decoded payload of an entry carrying one of the three macaroon labels -/
def entryPayload (e : List Char) : Option Bytes :=
  match cut '_' e with
  | some (l, b64) => if isMacaroonLabel l then Base64.decode b64 else none
  | none => none

theorem entryPayload_of_ok {e : List Char} {r : Option Bytes} (h : parseEntry e = .ok r) :
    entryPayload e = r := by
  cases r with
  | some raw =>
    obtain ⟨l, b64, rfl, hl, hd, _⟩ := parseEntry_ok_some h
    unfold entryPayload
    rw [cut_append '_' l b64 (macaroonLabel_no_sep hl)]
    simp [hl, hd]
  | none =>
    obtain ⟨p, rfl⟩ := parseEntry_ok_none h
    unfold entryPayload
    rw [cut_append '_' labelOAuth p (by decide)]
    have : isMacaroonLabel labelOAuth = false := by decide
    simp [this]

/-- What a header that `Parse` accepts looks like, and what `Parse` returns for it: every entry is
a macaroon entry (accepted label, payload decoding to a non-empty token) or an OAuth entry, and the
result is the list of the payloads of the macaroon entries, in order, which is not empty. -/
theorem parse_ok_entries (h : List Char) (toks : List Bytes) (hp : parse h = .ok toks) :
    toks ≠ [] ∧
    (∀ e ∈ parts h,
      (∃ l b64 raw, e = l ++ '_' :: b64 ∧ isMacaroonLabel l = true ∧
        Base64.decode b64 = some raw ∧ raw ≠ []) ∨
      (∃ p, e = labelOAuth ++ '_' :: p)) ∧
    toks = (parts h).filterMap entryPayload := by
  unfold parse at hp
  cases he : parseEntries (parts h) with
  | error x => rw [he] at hp; cases hp
  | ok ts =>
    rw [he] at hp
    cases ts with
    | nil => cases hp
    | cons t ts' =>
      simp only [Except.ok.injEq] at hp
      subst hp
      obtain ⟨h1, h2⟩ := parseEntries_ok _ _ he
      refine ⟨by simp, ?_, ?_⟩
      · intro e hm
        obtain ⟨r, hr⟩ := h1 e hm
        cases r with
        | some raw =>
          obtain ⟨l, b64, he', hl, hd, hne⟩ := parseEntry_ok_some hr
          exact .inl ⟨l, b64, raw, he', hl, hd, hne⟩
        | none => exact .inr (parseEntry_ok_none hr)
      · rw [h2]
        apply filterMap_congr'
        intro e hm
        obtain ⟨r, hr⟩ := h1 e hm
        rw [entryPayload_of_ok hr, hr]
        cases r <;> rfl

/-! ### `ParsePermissionAndDischargeTokens` -/

theorem ppd_ok_iff (dec : Bytes → Option Bytes) (hdr : List Char) (loc p : Bytes) (ds : List Bytes) :
    parsePermissionAndDischarge dec hdr loc = .ok (p, ds) ↔
      ∃ toks, parse hdr = .ok toks ∧ (splitByLocation dec loc toks).1 = [p] ∧
        (splitByLocation dec loc toks).2 = ds := by
  unfold parsePermissionAndDischarge
  cases hp : parse hdr with
  | error x => simp
  | ok toks =>
    simp only [Except.ok.injEq, exists_eq_left']
    cases hs : splitByLocation dec loc toks with
    | mk ps ds' =>
      match ps with
      | [] => simp
      | [q] => simp
      | _ :: _ :: _ => simp

/-- the error of `ParsePermissionAndDischargeTokens` is in the `ErrUnrecognizedToken` class exactly
when it is `Parse` that failed -/
theorem ppd_unrecognized_iff (dec : Bytes → Option Bytes) (hdr : List Char) (loc : Bytes) :
    (∃ x, parsePermissionAndDischarge dec hdr loc = .error x ∧ x.isUnrecognized = true) ↔
      ∃ x, parse hdr = .error x := by
  unfold parsePermissionAndDischarge
  cases hp : parse hdr with
  | error x =>
    have := parse_error hp
    subst this
    simp [ParseErr.isUnrecognized]
  | ok toks =>
    cases hs : splitByLocation dec loc toks with
    | mk ps ds' =>
      match ps with
      | [] => simp [hs, ParseErr.isUnrecognized]
      | [q] => simp [hs]
      | _ :: _ :: _ => simp [hs, ParseErr.isUnrecognized]

/-! ### `Parse` and the bundle tokeniser agree on accepted headers -/

section Tokeniser
open Macaroon.Base64

theorem dec6_some_not_space {c : Char} (h : (dec6 c).isSome = true) : isSpace c = false := by
  cases hsp : isSpace c with
  | false => rfl
  | true =>
    simp only [isSpace, Bool.or_eq_true, Bool.and_eq_true, decide_eq_true_eq, beq_iff_eq] at hsp
    have h1 : ¬ (65 ≤ c.toNat ∧ c.toNat ≤ 90) := by omega
    have h2 : ¬ (97 ≤ c.toNat ∧ c.toNat ≤ 122) := by omega
    have h3 : ¬ (48 ≤ c.toNat ∧ c.toNat ≤ 57) := by omega
    have h4 : ¬ c.toNat = 43 := by omega
    have h5 : ¬ c.toNat = 47 := by omega
    simp [dec6, h1, h2, h3, h4, h5] at h

theorem decodeGroups_chars (s : List Char) :
    (decodeGroups s).isSome = true → ∀ x ∈ s, x = '=' ∨ (dec6 x).isSome = true := by
  induction s using decodeGroups.induct with
  | case1 => intro _ x hx; cases hx
  | case2 a b c d rest x y hb ha hpad =>
    intro _ z hz
    simp only [Bool.and_eq_true, beq_iff_eq, List.isEmpty_iff] at hpad
    obtain ⟨⟨hr, hc⟩, hd⟩ := hpad
    subst hr hc hd
    simp only [List.mem_cons, List.not_mem_nil, or_false] at hz
    rcases hz with rfl | rfl | rfl | rfl
    · right; simp [ha]
    · right; simp [hb]
    · left; rfl
    · left; rfl
  | case3 a b c d rest x y hb ha hnp hc =>
    intro h; simp [decodeGroups, ha, hb, hnp, hc] at h
  | case4 a b c d rest x y hb ha hnp w hc hpad =>
    intro _ z hz
    simp only [Bool.and_eq_true, beq_iff_eq, List.isEmpty_iff] at hpad
    obtain ⟨hr, hd⟩ := hpad
    subst hr hd
    simp only [List.mem_cons, List.not_mem_nil, or_false] at hz
    rcases hz with rfl | rfl | rfl | rfl
    · right; simp [ha]
    · right; simp [hb]
    · right; simp [hc]
    · left; rfl
  | case5 a b c d rest x y hb ha hnp w hc hnp2 hd =>
    intro h; simp [decodeGroups, ha, hb, hnp, hc, hnp2, hd] at h
  | case6 a b c d rest x y hb ha hnp w hc hnp2 w' hd hrest ih =>
    intro h; simp [decodeGroups, ha, hb, hnp, hc, hnp2, hd, hrest] at h
  | case7 a b c d rest x y hb ha hnp w hc hnp2 w' hd bs hrest ih =>
    intro _ z hz
    simp only [List.mem_cons] at hz
    rcases hz with rfl | rfl | rfl | rfl | hz
    · right; simp [ha]
    · right; simp [hb]
    · right; simp [hc]
    · right; simp [hd]
    · exact ih (by simp [hrest]) z hz
  | case8 a b c d rest hno =>
    intro h
    unfold decodeGroups at h
    split at h
    · rename_i x y hx hy; exact (hno x y hx hy).elim
    · cases h
  | case9 t h0 h4 =>
    intro h
    unfold decodeGroups at h
    split at h
    · exact (h0 rfl).elim
    · exact (h4 _ _ _ _ _ rfl).elim
    · cases h


theorem trimRight_spec (s : List Char) :
    ∃ r, s = trimRight s ++ r ∧ AllSpace r ∧
      (trimRight s = [] ∨ ∃ m z, trimRight s = m ++ [z] ∧ isSpace z = false) := by
  obtain ⟨pre, hs, hpre⟩ := dropWhile_decomp isSpace s.reverse
  refine ⟨pre.reverse, ?_, allSpace_reverse hpre, ?_⟩
  · have := congrArg List.reverse hs
    simpa [trimRight] using this
  · unfold trimRight
    cases hd : s.reverse.dropWhile isSpace with
    | nil => left; rfl
    | cons z d =>
      right
      exact ⟨d.reverse, z, by simp, dropWhile_head_false isSpace _ z d hd⟩

/-- trimming a part that starts with a label: only the white space after the payload goes -/
theorem trim_label_payload (l b : List Char) (hl : NoSpace l) (hne : l ≠ []) :
    trim (l ++ '_' :: b) = l ++ '_' :: trimRight b := by
  obtain ⟨r, hb, hr, hcase⟩ := trimRight_spec b
  generalize trimRight b = tb at *
  have hY : Trimmed (l ++ '_' :: tb) := by
    constructor
    · cases l with
      | nil => exact absurd rfl hne
      | cons a m => exact ⟨a, m ++ '_' :: tb, by simp, hl a (by simp)⟩
    · rcases hcase with h | ⟨m, z, h, hz⟩
      · subst h; exact ⟨l, '_', rfl, by decide⟩
      · subst h; exact ⟨l ++ '_' :: m, z, by simp, hz⟩
  have := trim_pad (l := []) (r := r) allSpace_nil hr hY
  rw [hb]
  simpa using this

theorem decode_trimRight {b : List Char} {raw : Bytes} (h : Base64.decode b = some raw) :
    Base64.decode (trimRight b) = some raw := by
  obtain ⟨r, hb, hr, _⟩ := trimRight_spec b
  unfold Base64.decode at h ⊢
  have hchars := decodeGroups_chars _ (by rw [h]; rfl)
  have hfr : r.filter (fun c => !Base64.isNewline c) = [] := by
    apply List.filter_eq_nil_iff.mpr
    intro c hc hnn
    have hmem : c ∈ b.filter (fun c => !Base64.isNewline c) := by
      rw [hb, List.filter_append]
      exact List.mem_append_right _ (List.mem_filter.mpr ⟨hc, hnn⟩)
    have hsp := hr c hc
    rcases hchars c hmem with rfl | hd
    · revert hsp; decide
    · rw [dec6_some_not_space hd] at hsp; cases hsp
  rw [hb, List.filter_append, hfr, List.append_nil] at h
  exact h

theorem parseTok_of_parseEntry_some {e : List Char} {raw : Bytes} (h : parseEntry e = .ok (some raw)) :
    parseTok e = .macaroonBytes (trim e) raw := by
  obtain ⟨l, b64, rfl, hl, hd, _⟩ := parseEntry_ok_some h
  have hlne : l ≠ [] := by
    rcases (isMacaroonLabel_iff l).mp hl with rfl | rfl | rfl <;> simp [labelPermission, labelDischarge, labelV2]
  unfold parseTok
  rw [trim_label_payload l b64 (macaroonLabel_noSpace hl) hlne]
  exact (classifies_iff _ _).mp (.macaroon l (trimRight b64) raw hl (decode_trimRight hd))

theorem parseTok_of_parseEntry_none {e : List Char} (h : parseEntry e = .ok none) :
    parseTok e = .nonMacaroon (trim e) := by
  obtain ⟨p, rfl⟩ := parseEntry_ok_none h
  unfold parseTok
  rw [trim_label_payload labelOAuth p (by unfold NoSpace labelOAuth; decide) (by simp [labelOAuth])]
  exact (classifies_iff _ _).mp (.otherLabel labelOAuth (trimRight p) (by decide) (by decide))

/-- On a header `Parse` accepts, the bundle tokeniser finds the same macaroon payloads in the same
order (and nothing malformed). -/
theorem parseEntries_tokeniser : ∀ (es : List (List Char)) (toks : List Bytes),
    parseEntries es = .ok toks → (es.map parseTok).filterMap Tok.raw? = toks := by
  intro es
  induction es with
  | nil => intro toks h; cases h; rfl
  | cons e es ih =>
    intro toks h
    unfold parseEntries at h
    split at h
    · cases h
    · rename_i he
      simp [List.filterMap_cons, parseTok_of_parseEntry_none he, Tok.raw?, ih toks h]
    · rename_i raw he
      split at h
      · cases h
      · rename_i toks' ht
        cases h
        simp [parseTok_of_parseEntry_some he, Tok.raw?, ih toks' ht]

theorem parse_ok_parseToks (h : List Char) (toks : List Bytes) (hp : parse h = .ok toks) :
    (parseToks h).filterMap Tok.raw? = toks := by
  unfold parse at hp
  unfold parseToks
  cases he : parseEntries (parts h) with
  | error x => rw [he] at hp; cases hp
  | ok ts =>
    rw [he] at hp
    cases ts with
    | nil => cases hp
    | cons t ts' =>
      simp only [Except.ok.injEq] at hp
      subst hp
      exact parseEntries_tokeniser _ _ he

end Tokeniser

end Header
end Macaroon
