/-
Box-origin invariant of the Dolev–Yao model (companion of Lemmas/Symbolic.lean): with perfect
cryptography the attacker cannot make a ciphertext under a key he does not know, so every AEAD box
under a SECRET third-party key that he can derive from the publications of an honest run is one of
the tickets the run's issuers sealed.  This is what turns the hypothesis `hT` of
`attestation_no_forgery` (whatever a trusted key opens holds a secret discharge key) into a fact
about honest runs.

ASSUMPTION of everything in this file (not a Lean axiom): perfect cryptography, as in
Crypto/Symbolic.lean and Lemmas/Symbolic.lean.
Core Lean only.
-/
import Macaroon.Lemmas.Symbolic

namespace Macaroon.Symbolic
open Term Crypto

section origin
variable (Sec : Nat → Prop) (Held HeldFin : Nat → Term → List Term → Prop)

/-- every box under a secret key ATOM at an exposed position of `t` is one of the tickets `T`
(third-party key atom, discharge key atom, ticket) -/
def BoxOrigin (T : List (Nat × Nat × Term)) (t : Term) : Prop :=
  ∀ u, Exp Sec Held HeldFin t u → ∀ ka n p, u = box (atom ka) n p → Sec ka → ∃ rn, (ka, rn, u) ∈ T

theorem BoxOrigin.mono {T T' : List (Nat × Nat × Term)} {t : Term} (h : BoxOrigin Sec Held HeldFin T t)
    (hs : ∀ x ∈ T, x ∈ T') : BoxOrigin Sec Held HeldFin T' t := by
  intro u e ka n p hu hk
  obtain ⟨rn, hm⟩ := h u e ka n p hu hk
  exact ⟨rn, hs _ hm⟩

/-- a term with no exposed position but itself, and not a box -/
theorem boxOrigin_opaque (T : List (Nat × Nat × Term)) {t : Term}
    (h : ∀ u, Exp Sec Held HeldFin t u → u = t) (hnb : ∀ k n p, t ≠ box k n p) :
    BoxOrigin Sec Held HeldFin T t := by
  intro u e ka n p hu _
  rw [h u e] at hu
  exact absurd hu (hnb _ _ _)

theorem boxOrigin_atom (T : List (Nat × Nat × Term)) (i : Nat) : BoxOrigin Sec Held HeldFin T (atom i) :=
  boxOrigin_opaque Sec Held HeldFin T (fun u e => by cases e; rfl) (fun _ _ _ h => by cases h)
theorem boxOrigin_lit (T : List (Nat × Nat × Term)) (bs : List UInt8) : BoxOrigin Sec Held HeldFin T (lit bs) :=
  boxOrigin_opaque Sec Held HeldFin T (fun u e => by cases e; rfl) (fun _ _ _ h => by cases h)
theorem boxOrigin_nat (T : List (Nat × Nat × Term)) (n : Nat) : BoxOrigin Sec Held HeldFin T (nat n) :=
  boxOrigin_opaque Sec Held HeldFin T (fun u e => by cases e; rfl) (fun _ _ _ h => by cases h)
theorem boxOrigin_skel (T : List (Nat × Nat × Term)) (s : CavList Unit) : BoxOrigin Sec Held HeldFin T (skel s) :=
  boxOrigin_opaque Sec Held HeldFin T (fun u e => by cases e; rfl) (fun _ _ _ h => by cases h)
theorem boxOrigin_mac (T : List (Nat × Nat × Term)) (k m : Term) : BoxOrigin Sec Held HeldFin T (mac k m) :=
  boxOrigin_opaque Sec Held HeldFin T (fun u e => by cases e; rfl) (fun _ _ _ h => by cases h)
theorem boxOrigin_fin (T : List (Nat × Nat × Term)) (t : Term) : BoxOrigin Sec Held HeldFin T (fin t) :=
  boxOrigin_opaque Sec Held HeldFin T (fun u e => by cases e; rfl) (fun _ _ _ h => by cases h)
theorem boxOrigin_sha (T : List (Nat × Nat × Term)) (t : Term) : BoxOrigin Sec Held HeldFin T (sha t) :=
  boxOrigin_opaque Sec Held HeldFin T (fun u e => by cases e; rfl) (fun _ _ _ h => by cases h)
theorem boxOrigin_pre16 (T : List (Nat × Nat × Term)) (t : Term) : BoxOrigin Sec Held HeldFin T (pre16 t) :=
  boxOrigin_opaque Sec Held HeldFin T (fun u e => by cases e; rfl) (fun _ _ _ h => by cases h)

theorem boxOrigin_pair {T : List (Nat × Nat × Term)} {a b : Term} (ha : BoxOrigin Sec Held HeldFin T a)
    (hb : BoxOrigin Sec Held HeldFin T b) : BoxOrigin Sec Held HeldFin T (pair a b) := by
  intro u e
  cases e with
  | self => intro ka n p hu; cases hu
  | pl e => exact ha u e
  | pr e => exact hb u e

theorem boxOrigin_listT {T : List (Nat × Nat × Term)} {l : List Term} (h : ∀ f ∈ l, BoxOrigin Sec Held HeldFin T f) :
    BoxOrigin Sec Held HeldFin T (listT l) := by
  induction l with
  | nil => exact boxOrigin_lit Sec Held HeldFin T []
  | cons f fs ih =>
    exact boxOrigin_pair Sec Held HeldFin (h f List.mem_cons_self) (ih fun g hg => h g (List.mem_cons_of_mem _ hg))

/-- a box: its nonce and (if the key is not secret) its plaintext are fine, and the box itself is a
ticket if its key is a secret atom -/
theorem boxOrigin_box {T : List (Nat × Nat × Term)} {k n p : Term} (hn : BoxOrigin Sec Held HeldFin T n)
    (hp : ¬ S Sec Held HeldFin k → BoxOrigin Sec Held HeldFin T p)
    (hself : ∀ ka, k = atom ka → Sec ka → ∃ rn, (ka, rn, box k n p) ∈ T) :
    BoxOrigin Sec Held HeldFin T (box k n p) := by
  intro u e
  cases e with
  | self =>
    intro ka n' p' hu hk
    injection hu with h1 _ _
    exact hself ka h1 hk
  | bx hk e => exact hp hk u e
  | bn e => exact hn u e

/-- THE BOX-ORIGIN LEMMA.  If no held term exposes a secret and every exposed box under a secret key
atom in a held term is a ticket, the same holds of every derivable term: the attacker cannot seal
under a key he cannot derive. -/
theorem der_boxOrigin (T : List (Nat × Nat × Term)) (H : Term → Prop)
    (hH : ∀ t, H t → Safe Sec Held HeldFin t) (hB : ∀ t, H t → BoxOrigin Sec Held HeldFin T t) :
    ∀ t, Der H t → BoxOrigin Sec Held HeldFin T t := by
  intro t d
  induction d with
  | held h => exact hB _ h
  | lit bs => exact boxOrigin_lit Sec Held HeldFin T bs
  | nat n => exact boxOrigin_nat Sec Held HeldFin T n
  | skel s => exact boxOrigin_skel Sec Held HeldFin T s
  | mac _ _ _ _ => exact boxOrigin_mac Sec Held HeldFin T _ _
  | fin _ _ => exact boxOrigin_fin Sec Held HeldFin T _
  | sha _ _ => exact boxOrigin_sha Sec Held HeldFin T _
  | pre16 _ _ => exact boxOrigin_pre16 Sec Held HeldFin T _
  | pair _ _ iha ihb => exact boxOrigin_pair Sec Held HeldFin iha ihb
  | fst _ ih => intro u e; exact ih u (Exp.pl e)
  | snd _ ih => intro u e; exact ih u (Exp.pr e)
  | @box k n p dk _ _ _ ihn ihp =>
    refine boxOrigin_box Sec Held HeldFin ihn (fun _ => ihp) ?_
    intro ka hk hs
    subst hk
    exact absurd dk (secrecy Sec Held HeldFin H hH ka hs)
  | @unbox k n p _ dk ihb _ =>
    intro u e
    exact ihb u (Exp.bx (der_safe Sec Held HeldFin H hH _ dk _ (Exp.self _)) e)
  | nonceOf _ ih => intro u e; exact ih u (Exp.bn e)

/-- in particular: a derivable box under a secret key atom is a ticket -/
theorem der_box_is_ticket (T : List (Nat × Nat × Term)) (H : Term → Prop)
    (hH : ∀ t, H t → Safe Sec Held HeldFin t) (hB : ∀ t, H t → BoxOrigin Sec Held HeldFin T t)
    (ka : Nat) (hk : Sec ka) (n p : Term) (d : Der H (box (atom ka) n p)) :
    ∃ rn, (ka, rn, box (atom ka) n p) ∈ T :=
  der_boxOrigin Sec Held HeldFin T H hH hB _ d _ (Exp.self _) ka n p rfl hk

theorem boxOrigin_encT_tp {T : List (Nat × Nat × Term)} {loc : Bytes} {vk t : Term}
    (hvk : BoxOrigin Sec Held HeldFin T vk) (ht : BoxOrigin Sec Held HeldFin T t) :
    BoxOrigin Sec Held HeldFin T (encT (.tp loc vk t)) := by
  simp only [encT, encTL, fieldsL, fields, List.append_nil]
  refine boxOrigin_pair Sec Held HeldFin (boxOrigin_skel Sec Held HeldFin T _) (boxOrigin_listT Sec Held HeldFin ?_)
  intro f hf
  simp at hf
  rcases hf with rfl | rfl <;> assumption

theorem boxOrigin_encT_bind {T : List (Nat × Nat × Term)} {id : Term} (h : BoxOrigin Sec Held HeldFin T id) :
    BoxOrigin Sec Held HeldFin T (encT (.bind id)) := by
  simp only [encT, encTL, fieldsL, fields, List.append_nil]
  refine boxOrigin_pair Sec Held HeldFin (boxOrigin_skel Sec Held HeldFin T _) (boxOrigin_listT Sec Held HeldFin ?_)
  intro f hf
  simp at hf
  rw [hf]; exact h

/-! ### the invariant over honest runs -/

/-- the public parts of an honest token state expose no foreign box under a secret key -/
def GoodB (T : List (Nat × Nat × Term)) (m : Mac Term) : Prop :=
  BoxOrigin Sec Held HeldFin T m.nonce.kid ∧ BoxOrigin Sec Held HeldFin T m.nonce.rnd ∧
  ∀ c ∈ m.cavs, BoxOrigin Sec Held HeldFin T (encT c)

theorem GoodB.mono {T T' : List (Nat × Nat × Term)} {m : Mac Term} (h : GoodB Sec Held HeldFin T m)
    (hs : ∀ x ∈ T, x ∈ T') : GoodB Sec Held HeldFin T' m :=
  ⟨h.1.mono Sec Held HeldFin hs, h.2.1.mono Sec Held HeldFin hs, fun c hc => (h.2.2 c hc).mono Sec Held HeldFin hs⟩

theorem goodB_add {T : List (Nat × Nat × Term)} {m : Mac Term} (it : AddItem Term) (hg : GoodB Sec Held HeldFin T m)
    (hc : BoxOrigin Sec Held HeldFin T (encT (cavOf m.tail it))) : GoodB Sec Held HeldFin T (add m [it]).1 := by
  rcases add_single m it with h | ⟨_, h⟩
  · rw [h]; exact hg
  · rw [h]
    refine ⟨hg.1, hg.2.1, ?_⟩
    intro c hc'
    rcases List.mem_append.mp hc' with hc' | hc'
    · exact hg.2.2 c hc'
    · simp at hc'; rw [hc']; exact hc

theorem goodB_encode {T : List (Nat × Nat × Term)} {m : Mac Term} (hg : GoodB Sec Held HeldFin T m) :
    GoodB Sec Held HeldFin T (encodeState m) := by
  unfold encodeState
  split
  · exact hg
  · exact hg

/-- the tail of an honest token is a MAC or a finalisation: never a key atom, never a box -/
theorem wf_tail_form {k : Nat} {m : Mac Term} (hw : WF k m) :
    (∃ a b, m.tail = mac a b) ∨ (∃ t, m.tail = fin t) := by
  unfold WF at hw
  cases hf : finalised m
  · rw [hf] at hw
    simp only [Bool.false_eq_true, if_false, id] at hw
    obtain ⟨a, b, e⟩ := chain_mac_form (atom k) (encNonceT m.nonce) (m.cavs.map encT)
    exact Or.inl ⟨a, b, hw.trans e⟩
  · rw [hf] at hw
    simp only [if_true] at hw
    exact Or.inr ⟨_, hw⟩

structure BInv (s : St) : Prop where
  pub : ∀ t ∈ s.pub, BoxOrigin Sec Held HeldFin s.tickets t
  toks : ∀ k m, (k, m) ∈ s.toks → GoodB Sec Held HeldFin s.tickets m
  tickets : ∀ ka rn t, (ka, rn, t) ∈ s.tickets → BoxOrigin Sec Held HeldFin s.tickets t

theorem run_binv {s : St} (r : Run Sec Held HeldFin s) : BInv Sec Held HeldFin s := by
  induction r with
  | init n0 => exact ⟨by simp, by simp, by simp⟩
  | learn i _ _ ih =>
    refine ⟨?_, ih.toks, ih.tickets⟩
    intro t ht
    rcases List.mem_cons.mp ht with rfl | ht
    · exact boxOrigin_atom Sec Held HeldFin _ i
    · exact ih.pub t ht
  | @mint s k kid loc p r' hkid hn ih =>
    have inv := run_inv Sec Held HeldFin r'
    have hk : BoxOrigin Sec Held HeldFin s.tickets kid :=
      der_boxOrigin Sec Held HeldFin s.tickets _ inv.pub ih.pub _ hkid
    refine ⟨ih.pub, ?_, ih.tickets⟩
    intro k' m' hm
    rcases List.mem_cons.mp hm with h | h
    · cases h
      exact ⟨hk, boxOrigin_atom Sec Held HeldFin _ _, by simp [Macaroon.mint]⟩
    · exact ih.toks _ _ h
  | @addPlain s k m c r' hm hc ih =>
    have inv := run_inv Sec Held HeldFin r'
    refine ⟨ih.pub, ?_, ih.tickets⟩
    intro k' m' hm'
    rcases List.mem_cons.mp hm' with h | h
    · cases h
      exact goodB_add Sec Held HeldFin _ (ih.toks _ _ hm)
        (der_boxOrigin Sec Held HeldFin s.tickets _ inv.pub ih.pub _ hc)
    · exact ih.toks _ _ h
  | @bind s k m k' parent _ hm _ ih =>
    refine ⟨ih.pub, ?_, ih.tickets⟩
    intro k'' m' hm'
    rcases List.mem_cons.mp hm' with h | h
    · cases h
      exact goodB_add Sec Held HeldFin _ (ih.toks _ _ hm)
        (boxOrigin_encT_bind Sec Held HeldFin (boxOrigin_pre16 Sec Held HeldFin _ _))
    · exact ih.toks _ _ h
  | @add3p s k m ka loc cs r' hm hcs h1 h2 hsec ih =>
    have inv := run_inv Sec Held HeldFin r'
    have hsub : ∀ x ∈ s.tickets, x ∈ (ka, s.next, sealTicket (atom ka) (atom (s.next + 1)) (atom s.next) cs) :: s.tickets :=
      fun x hx => List.mem_cons_of_mem _ hx
    have hcsB : BoxOrigin Sec Held HeldFin s.tickets (encTL (CavList.ofList cs)) :=
      der_boxOrigin Sec Held HeldFin s.tickets _ inv.pub ih.pub _ hcs
    have hticket : BoxOrigin Sec Held HeldFin
        ((ka, s.next, sealTicket (atom ka) (atom (s.next + 1)) (atom s.next) cs) :: s.tickets)
        (sealTicket (atom ka) (atom (s.next + 1)) (atom s.next) cs) := by
      refine boxOrigin_box Sec Held HeldFin (boxOrigin_atom Sec Held HeldFin _ _) (fun _ => ?_) ?_
      · exact boxOrigin_pair Sec Held HeldFin (boxOrigin_atom Sec Held HeldFin _ _)
          (hcsB.mono Sec Held HeldFin hsub)
      · intro ka' hk _
        injection hk with hk
        subst hk
        exact ⟨s.next, List.mem_cons_self⟩
    refine ⟨fun t ht => (ih.pub t ht).mono Sec Held HeldFin hsub, ?_, ?_⟩
    · intro k' m' hm'
      rcases List.mem_cons.mp hm' with h | h
      · cases h
        refine goodB_add Sec Held HeldFin _ ((ih.toks _ _ hm).mono Sec Held HeldFin hsub) ?_
        refine boxOrigin_encT_tp Sec Held HeldFin ?_ hticket
        refine boxOrigin_box Sec Held HeldFin (boxOrigin_atom Sec Held HeldFin _ _)
          (fun _ => boxOrigin_atom Sec Held HeldFin _ _) ?_
        intro ka' hk _
        rcases wf_tail_form (inv.toks _ _ hm).1 with ⟨a, b, e⟩ | ⟨t, e⟩
        · rw [e] at hk; cases hk
        · rw [e] at hk; cases hk
      · exact (ih.toks _ _ h).mono Sec Held HeldFin hsub
    · intro ka' rn' t ht
      rcases List.mem_cons.mp ht with h | h
      · cases h; exact hticket
      · exact (ih.tickets _ _ _ h).mono Sec Held HeldFin hsub
  | @discharge s ka rn ticket loc p cs dm r' ht hn hd ih =>
    have inv := run_inv Sec Held HeldFin r'
    obtain ⟨_, tn, cs0, rfl⟩ := inv.tickets _ _ _ ht
    have ho : openTicket (atom ka) (box (atom ka) tn (ticketT (atom rn) cs0)) = .ok (atom rn) cs0 :=
      LawfulCrypto.openTicket_sealTicket (B := Term) (atom ka) tn (atom rn) cs0 trivial trivial trivial
    simp only [dischargeTicket, ho] at hd
    cases hd
    refine ⟨ih.pub, ?_, ih.tickets⟩
    intro k' m' hm
    rcases List.mem_cons.mp hm with h | h
    · cases h
      exact ⟨ih.tickets _ _ _ ht, boxOrigin_atom Sec Held HeldFin _ _, by simp [Macaroon.mint]⟩
    · exact ih.toks _ _ h
  | @encode s k m _ hm ih =>
    refine ⟨ih.pub, ?_, ih.tickets⟩
    intro k' m' hm'
    rcases List.mem_cons.mp hm' with h | h
    · cases h; exact goodB_encode Sec Held HeldFin (ih.toks _ _ hm)
    · exact ih.toks _ _ h
  | @publish s k m r' hm hp ih =>
    have inv := run_inv Sec Held HeldFin r'
    have hg := ih.toks _ _ hm
    refine ⟨?_, ih.toks, ih.tickets⟩
    intro t ht
    rcases List.mem_append.mp ht with h | h
    · simp only [tokT, List.mem_cons, List.mem_map] at h
      rcases h with rfl | rfl | rfl | ⟨c, hc, rfl⟩
      · exact hg.1
      · exact hg.2.1
      · rcases wf_tail_form (inv.toks _ _ hm).1 with ⟨a, b, e⟩ | ⟨t', e⟩
        · rw [e]; exact boxOrigin_mac Sec Held HeldFin _ _ _
        · rw [e]; exact boxOrigin_fin Sec Held HeldFin _ _
      · exact hg.2.2 c hc
    · exact ih.pub t h

end origin

/-- BOX ORIGIN, over honest runs.  Whatever the attacker can derive from the publications of an honest
run and a SECRET third-party key opens as a ticket is a ticket an issuer of the run sealed for that
third party, and the discharge key it holds is the one drawn for it. -/
theorem run_opened_ticket_is_run_ticket (Sec : Nat → Prop) (Held HeldFin : Nat → Term → List Term → Prop)
    (s : St) (r : Run Sec Held HeldFin s) (ka : Nat) (hk : Sec ka) (t dk : Term) (cs : List (Cav Term))
    (hd : Der (· ∈ s.pub) t) (ho : openTicket (atom ka) t = .ok dk cs) :
    ∃ rn, (ka, rn, t) ∈ s.tickets ∧ dk = atom rn := by
  have inv := run_inv Sec Held HeldFin r
  have binv := run_binv Sec Held HeldFin r
  -- the opened term is a box under `atom ka`
  have hbox : ∃ n p, t = box (atom ka) n p := by
    cases t <;> simp only [Crypto.openTicket, openTicketT] at ho <;> try (cases ho)
    case box k n p =>
      by_cases hkk : k = atom ka
      · subst hkk; exact ⟨n, p, rfl⟩
      · simp [hkk] at ho
  obtain ⟨n, p, rfl⟩ := hbox
  obtain ⟨rn, hmem⟩ := der_box_is_ticket Sec Held HeldFin s.tickets (· ∈ s.pub) inv.pub binv.pub ka hk n p hd
  obtain ⟨_, tn, cs0, he⟩ := inv.tickets _ _ _ hmem
  refine ⟨rn, hmem, ?_⟩
  rw [he] at ho
  have ho' : openTicket (atom ka) (box (atom ka) tn (ticketT (atom rn) cs0)) = .ok (atom rn) cs0 :=
    LawfulCrypto.openTicket_sealTicket (B := Term) (atom ka) tn (atom rn) cs0 trivial trivial trivial
  rw [ho'] at ho
  injection ho with h1 _
  exact h1.symm

end Macaroon.Symbolic
