/-
Lemmas for C09: resource-set characterisation, conditional semantics, monotonicity in the action.
-/
import Macaroon.Lemmas.Clearing

namespace Macaroon.Lemmas
open Macaroon
variable {B : Type}

theorem mem_matching {K} (z : K → Bool) (m : K → K → Bool) (rs : ResSet K) (id : K) (e : K × Action) :
    e ∈ ResSet.matching z m rs id ↔ e ∈ rs ∧ (z e.1 || m e.1 id) = true := by
  simp [ResSet.matching]

theorem resset_permits_iff {K} (z : K → Bool) (m : K → K → Bool) (rs : ResSet K) (id : K) (act : Action) :
    ResSet.prohibits z m rs (some id) act = [] ↔
      ResSet.mixedWildcard z rs = false ∧ (∃ e ∈ rs, (z e.1 || m e.1 id) = true) ∧
      ∀ e ∈ rs, (z e.1 || m e.1 id) = true → act.subset e.2 = true := by
  unfold ResSet.prohibits
  by_cases hw : ResSet.mixedWildcard z rs = true
  · simp [hw]
  · simp only [Bool.not_eq_true] at hw
    simp only [hw, Bool.false_eq_true, ↓reduceIte, true_and]
    by_cases he : (ResSet.matching z m rs id).isEmpty = true
    · simp only [he, ↓reduceIte]
      rw [List.isEmpty_iff] at he
      constructor
      · intro h; cases h
      · rintro ⟨⟨e, hm, hc⟩, _⟩
        have : e ∈ ResSet.matching z m rs id := (mem_matching ..).mpr ⟨hm, hc⟩
        rw [he] at this; cases this
    · simp only [he, Bool.false_eq_true, ↓reduceIte]
      have hne : ResSet.matching z m rs id ≠ [] := by
        intro h; rw [h] at he; simp at he
      obtain ⟨e, hem⟩ := List.exists_mem_of_ne_nil _ hne
      have hex : ∃ e ∈ rs, (z e.1 || m e.1 id) = true := ⟨e, ((mem_matching ..).mp hem).1, ((mem_matching ..).mp hem).2⟩
      by_cases hs : act.subset (ResSet.perm (ResSet.matching z m rs id)) = true
      · simp only [hs, ↓reduceIte, true_iff]
        refine ⟨hex, fun e hm hc => ?_⟩
        exact (subset_perm act _).mp hs e ((mem_matching ..).mpr ⟨hm, hc⟩)
      · simp only [hs, Bool.false_eq_true, ↓reduceIte, List.cons_ne_self, false_iff, not_and]
        intro _ hall
        apply hs
        rw [subset_perm]
        intro e hem
        exact hall e ((mem_matching ..).mp hem).1 ((mem_matching ..).mp hem).2

theorem resset_error_classes {K} (z : K → Bool) (m : K → K → Bool) (rs : ResSet K) (id : K) (act : Action)
    (hw : ResSet.mixedWildcard z rs = false) :
    ((¬ ∃ e ∈ rs, (z e.1 || m e.1 id) = true) → ResSet.prohibits z m rs (some id) act = [.forResource]) ∧
    ((∃ e ∈ rs, (z e.1 || m e.1 id) = true) → ResSet.prohibits z m rs (some id) act ≠ [] →
        ResSet.prohibits z m rs (some id) act = [.forAction]) := by
  unfold ResSet.prohibits
  simp only [hw, Bool.false_eq_true, ↓reduceIte]
  constructor
  · intro hno
    have : ResSet.matching z m rs id = [] := by
      apply List.eq_nil_iff_forall_not_mem.mpr
      intro e hem
      exact hno ⟨e, ((mem_matching ..).mp hem).1, ((mem_matching ..).mp hem).2⟩
    simp [this]
  · rintro ⟨e, hm, hc⟩ hne
    have : (ResSet.matching z m rs id).isEmpty = false := by
      have : e ∈ ResSet.matching z m rs id := (mem_matching ..).mpr ⟨hm, hc⟩
      cases h : ResSet.matching z m rs id with
      | nil => rw [h] at this; cases this
      | cons _ _ => rfl
    simp only [this, Bool.false_eq_true, ↓reduceIte] at hne ⊢
    by_cases hs : act.subset (ResSet.perm (ResSet.matching z m rs id)) = true
    · simp [hs] at hne
    · simp [hs]

theorem wildcard_is_lone {K} (z : K → Bool) (rs : ResSet K) (e : K × Action)
    (hw : ResSet.mixedWildcard z rs = false) (he : e ∈ rs) (hz : z e.1 = true) : rs = [e] := by
  unfold ResSet.mixedWildcard at hw
  have hany : rs.any (fun e => z e.1) = true := List.any_eq_true.mpr ⟨e, he, hz⟩
  simp only [hany, Bool.true_and, bne_eq_false_iff_eq] at hw
  match rs, hw, he with
  | [x], _, he => simp at he; rw [he]

/-! ### conditionals -/

theorem prohibits_ifPresent (n : Bool) (ifs : CavList B) (els : Action) (a : Access) :
    prohibits (.ifPresent n ifs els) a =
      match a.action with
      | none => [.invalidAccess]
      | some act =>
        if n then [.badCaveat] else
        if (applicable ifs.toList a).isEmpty && !act.subset els then [.forAction]
        else (applicable ifs.toList a).flatMap (fun c => prohibits c a) := by
  rw [prohibits]
  cases a.action with
  | none => rfl
  | some act => simp only [ifLoop_eq, Bool.not_not]

theorem applicable_not_unspec (ifs : List (Cav B)) (a : Access) :
    Errs.is ((applicable ifs a).flatMap (fun c => prohibits c a)) .resUnspecified = false := by
  rw [errs_is_flatMap]
  apply Bool.eq_false_iff.mpr
  intro h
  obtain ⟨c, hc, hu⟩ := List.any_eq_true.mp h
  simp only [applicable, List.mem_filter, Bool.not_eq_eq_eq_not, Bool.not_true] at hc
  rw [hc.2] at hu; cases hu

theorem ifPresent_never_unspecified (n : Bool) (ifs : CavList B) (els : Action) (a : Access) :
    (prohibits (.ifPresent n ifs els) a).is .resUnspecified = false := by
  rw [prohibits_ifPresent]
  cases a.action with
  | none => simp [Errs.is, Err.is]
  | some act =>
    simp only
    cases n with
    | true => simp [Errs.is, Err.is]
    | false =>
      simp only [Bool.false_eq_true, ↓reduceIte]
      split
      · simp [Errs.is, Err.is]
      · exact applicable_not_unspec _ _

theorem ifPresent_semantics (ifs : CavList B) (els : Action) (a : Access) (act : Action)
    (ha : a.action = some act) :
    prohibits (.ifPresent false ifs els) a = [] ↔
      (applicable ifs.toList a ≠ [] ∧ ∀ c ∈ applicable ifs.toList a, prohibits c a = []) ∨
      (applicable ifs.toList a = [] ∧ act.subset els = true) := by
  rw [prohibits_ifPresent]
  simp only [ha, Bool.false_eq_true, ↓reduceIte]
  cases hS : applicable ifs.toList a with
  | nil => by_cases hs : act.subset els = true <;> simp [hs]
  | cons c cs => simp [List.flatMap_eq_nil_iff]

/-! ### monotonicity in the action -/

/-- the same request with another action (all other data equal) -/
def withAction (a : Access) (act : Action) : Access := { a with action := some act }

theorem resset_unspec_indep {K} (z : K → Bool) (m : K → K → Bool) (rs : ResSet K) (id : Option K) (x y : Action) :
    (ResSet.prohibits z m rs id x).is .resUnspecified = (ResSet.prohibits z m rs id y).is .resUnspecified := by
  unfold ResSet.prohibits
  split
  · rfl
  · cases id with
    | none => rfl
    | some id =>
      simp only
      split
      · rfl
      · split <;> split <;> simp [Errs.is, Err.is]

theorem resset_antitone {K} (z : K → Bool) (m : K → K → Bool) (rs : ResSet K) (id : Option K) (x y : Action)
    (hsub : y.subset x = true) (h : ResSet.prohibits z m rs id x = []) : ResSet.prohibits z m rs id y = [] := by
  cases id with
  | none => unfold ResSet.prohibits at h; split at h <;> simp at h
  | some id =>
    rw [resset_permits_iff] at h ⊢
    exact ⟨h.1, h.2.1, fun e he hc => subset_trans_left y x e.2 hsub (h.2.2 e he hc)⟩

/-- the two facts proved together by recursion over the caveat tree -/
def ActionMono (c : Cav B) : Prop :=
  ∀ (a : Access) (x y : Action),
    ((prohibits c (withAction a x)).is .resUnspecified = (prohibits c (withAction a y)).is .resUnspecified) ∧
    (y.subset x = true → prohibits c (withAction a x) = [] → prohibits c (withAction a y) = [])

theorem viaGetter_mono {K} (g : Option (Option K)) (k : Option K → Action → Errs) (x y : Action)
    (hA : ∀ id, (k id x).is .resUnspecified = (k id y).is .resUnspecified)
    (hB : ∀ id, y.subset x = true → k id x = [] → k id y = []) :
    ((viaGetter g (some x) k).is .resUnspecified = (viaGetter g (some y) k).is .resUnspecified) ∧
    (y.subset x = true → viaGetter g (some x) k = [] → viaGetter g (some y) k = []) := by
  unfold viaGetter
  cases g with
  | none => simp
  | some id => exact ⟨hA id, hB id⟩

theorem applicable_congr (ifs : List (Cav B)) (a : Access) (x y : Action)
    (h : ∀ c ∈ ifs, ActionMono c) : applicable ifs (withAction a x) = applicable ifs (withAction a y) := by
  unfold applicable
  apply List.filter_congr
  intro c hc
  rw [(h c hc a x y).1]

mutual
theorem cav_action_mono : (c : Cav B) → ActionMono c
  | .ifPresent n ifs els => by
    have ih := cavlist_action_mono ifs
    intro a x y
    refine ⟨by rw [ifPresent_never_unspecified, ifPresent_never_unspecified], fun hsub h => ?_⟩
    cases n with
    | true => rw [prohibits_ifPresent] at h; simp [withAction] at h
    | false =>
      rw [ifPresent_semantics ifs els (withAction a x) x rfl] at h
      rw [ifPresent_semantics ifs els (withAction a y) y rfl]
      rw [← applicable_congr ifs.toList a x y ih]
      rcases h with ⟨hne, hall⟩ | ⟨hnil, hs⟩
      · left
        refine ⟨hne, fun c hc => ?_⟩
        have hmem : c ∈ ifs.toList := (List.mem_filter.mp hc).1
        exact (ih c hmem a x y).2 hsub (hall c hc)
      · right; exact ⟨hnil, subset_trans_left y x els hsub hs⟩
  | .organization id mask => by
    intro a x y
    unfold prohibits
    cases ho : a.org with
    | none => simp [withAction, ho]
    | some o =>
      cases o with
      | none => simp [withAction, ho]
      | some oid =>
        simp only [withAction, ho]
        by_cases hid : (id != 0 && id != oid) = true
        · simp [hid]
        · simp only [hid, Bool.false_eq_true, ↓reduceIte]
          constructor
          · split <;> split <;> simp [Errs.is, Err.is]
          · intro hsub h
            by_cases hx : x.subset mask = true
            · simp [subset_trans_left y x mask hsub hx]
            · simp [hx] at h
  | .apps rs => by
    intro a x y; unfold prohibits
    exact viaGetter_mono a.app _ x y (fun id => resset_unspec_indep _ _ rs id x y) (fun id => resset_antitone _ _ rs id x y)
  | .volumes rs => by
    intro a x y; unfold prohibits
    exact viaGetter_mono a.volume _ x y (fun id => resset_unspec_indep _ _ rs id x y) (fun id => resset_antitone _ _ rs id x y)
  | .machines rs => by
    intro a x y; unfold prohibits
    exact viaGetter_mono a.machine _ x y (fun id => resset_unspec_indep _ _ rs id x y) (fun id => resset_antitone _ _ rs id x y)
  | .machineFeatureSet rs => by
    intro a x y; unfold prohibits
    exact viaGetter_mono a.machineFeature _ x y (fun id => resset_unspec_indep _ _ rs id x y) (fun id => resset_antitone _ _ rs id x y)
  | .featureSet rs => by
    intro a x y; unfold prohibits
    exact viaGetter_mono a.feature _ x y (fun id => resset_unspec_indep _ _ rs id x y) (fun id => resset_antitone _ _ rs id x y)
  | .appFeatureSet rs => by
    intro a x y; unfold prohibits
    exact viaGetter_mono a.appFeature _ x y (fun id => resset_unspec_indep _ _ rs id x y) (fun id => resset_antitone _ _ rs id x y)
  | .clusters rs => by
    intro a x y; unfold prohibits
    exact viaGetter_mono a.cluster _ x y (fun id => resset_unspec_indep _ _ rs id x y) (fun id => resset_antitone _ _ rs id x y)
  | .storageObjects rs => by
    intro a x y; unfold prohibits
    exact viaGetter_mono a.storageObject _ x y (fun id => resset_unspec_indep _ _ rs id x y) (fun id => resset_antitone _ _ rs id x y)
  | .action mask => by
    intro a x y
    unfold prohibits
    simp only [withAction]
    constructor
    · split <;> split <;> simp [Errs.is, Err.is]
    · intro hsub h
      by_cases hx : x.subset mask = true
      · simp [subset_trans_left y x mask hsub hx]
      · simp [hx] at h
  | .mutations _ => by intro a x y; unfold prohibits; simp [withAction]
  | .isUser _ => by intro a x y; unfold prohibits; simp
  | .validityWindow _ _ => by intro a x y; unfold prohibits; exact ⟨rfl, fun _ h => h⟩
  | .tp .. => by intro a x y; unfold prohibits; simp
  | .bind .. => by intro a x y; unfold prohibits; simp
  | .unregistered .. => by intro a x y; unfold prohibits; simp
  | .flyioUserID .. => by intro a x y; unfold prohibits; simp
  | .gitHubUserID .. => by intro a x y; unfold prohibits; simp
  | .googleUserID .. => by intro a x y; unfold prohibits; simp
  | .fromMachine _ => by intro a x y; unfold prohibits; simp [withAction]
  | .flySrc .. => by intro a x y; unfold prohibits; simp [withAction]
  | .allowedRoles _ => by intro a x y; unfold prohibits allowedRolesProhibits; simp [withAction]
  | .isMember => by intro a x y; unfold prohibits allowedRolesProhibits; simp [withAction]
  | .commands _ => by intro a x y; unfold prohibits; simp [withAction]
  | .confineUser _ => by intro a x y; unfold prohibits confineProhibits; simp [withAction]
  | .confineOrganization _ => by intro a x y; unfold prohibits confineProhibits; simp [withAction]
  | .confineGoogleHD _ => by intro a x y; unfold prohibits confineProhibits; simp [withAction]
  | .confineGitHubOrg _ => by intro a x y; unfold prohibits confineProhibits; simp [withAction]
  | .maxValidity _ => by intro a x y; unfold prohibits; simp [withAction]
theorem cavlist_action_mono : (l : CavList B) → ∀ c ∈ l.toList, ActionMono c
  | .nil => by intro c hc; simp [CavList.toList] at hc
  | .cons c cs => by
    intro d hd
    simp only [CavList.toList, List.mem_cons] at hd
    rcases hd with hd | hd
    · rw [hd]; exact cav_action_mono c
    · exact cavlist_action_mono cs d hd
end

end Macaroon.Lemmas
