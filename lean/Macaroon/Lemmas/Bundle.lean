/-
Helper lemmas for the bundle and verification-cache models (C13, C14).
Core Lean only.
-/
import Macaroon.Bundle.Cache
import Macaroon.Lemmas.Token
import Macaroon.Lemmas.Header
import Macaroon.Lemmas.Base64
import Macaroon.Lemmas.Codec

namespace Macaroon.Lemmas.BundleL
open Macaroon Macaroon.Bundle Macaroon.Lemmas

/-! ### generic list facts -/

theorem mapM_none_of_mem {α β : Type} (f : α → Option β) : ∀ (l : List α) (x : α), x ∈ l → f x = none →
    l.mapM f = none
  | [], _, h, _ => by cases h
  | a :: as, x, h, hx => by
    rw [List.mapM_cons]
    rcases List.mem_cons.mp h with rfl | h'
    · simp [hx]
    · cases hfa : f a with
      | none => simp
      | some b => simp [mapM_none_of_mem f as x h' hx]

theorem mapM_some_length {α β : Type} (f : α → Option β) : ∀ (l : List α) (r : List β), l.mapM f = some r →
    r.length = l.length
  | [], r, h => by simp at h; subst h; rfl
  | a :: as, r, h => by
    rw [List.mapM_cons] at h
    cases hfa : f a with
    | none => simp [hfa] at h
    | some b =>
      cases hr : as.mapM f with
      | none => simp [hfa, hr] at h
      | some bs =>
        simp [hfa, hr] at h
        subst h
        simp [mapM_some_length f as bs hr]

/-- `mapM` in `Option` succeeds exactly when every element does, and then is the pointwise image -/
theorem mapM_some_iff {α β : Type} (f : α → Option β) : ∀ (l : List α) (r : List β),
    l.mapM f = some r ↔ l.map f = r.map some
  | [], r => by
    cases r <;> simp
  | a :: as, [] => by
    rw [List.mapM_cons]
    cases f a <;> cases as.mapM f <;> simp
  | a :: as, b :: bs => by
    rw [List.mapM_cons]
    have ih := mapM_some_iff f as bs
    cases hfa : f a with
    | none => simp [hfa]
    | some b' =>
      cases hr : as.mapM f with
      | none =>
        rw [hr] at ih
        have : ¬ (as.map f = bs.map some) := fun h => by simpa using ih.mpr h
        simp [this]
      | some bs' =>
        rw [hr] at ih
        simp only [Option.some.injEq] at ih
        simp [ih, hfa]

theorem applyMask_sublist {α : Type} : ∀ (ks : List Bool) (xs : List α), (applyMask ks xs).Sublist xs
  | [], xs => by cases xs <;> simp [applyMask]
  | true :: ks, [] => by simp [applyMask]
  | false :: ks, [] => by simp [applyMask]
  | true :: ks, x :: xs => by simp [applyMask, applyMask_sublist ks xs]
  | false :: ks, x :: xs => by
    simp only [applyMask]
    exact (applyMask_sublist ks xs).trans (List.sublist_cons_self x xs)

theorem applyMask_all_true {α : Type} : ∀ (xs : List α), applyMask (xs.map fun _ => true) xs = xs
  | [] => rfl
  | x :: xs => by simp [applyMask, applyMask_all_true xs]

theorem applyMask_all_false {α : Type} : ∀ (xs : List α), applyMask (xs.map fun _ => false) xs = []
  | [] => rfl
  | x :: xs => by simp [applyMask, applyMask_all_false xs]

/-- a predicate mask keeps exactly the elements that satisfy the predicate -/
theorem applyMask_map {α : Type} (p : α → Bool) : ∀ (xs : List α), applyMask (xs.map p) xs = xs.filter p
  | [] => rfl
  | x :: xs => by
    cases h : p x <;> simp [applyMask, h, applyMask_map p xs]

/-- masks commute with maps of the filtered list (used for views of reference lists) -/
theorem applyMask_map_comm {α β : Type} (f : α → β) : ∀ (ks : List Bool) (xs : List α),
    applyMask ks (xs.map f) = (applyMask ks xs).map f
  | [], xs => by cases xs <;> simp [applyMask]
  | true :: ks, [] => by simp [applyMask]
  | false :: ks, [] => by simp [applyMask]
  | true :: ks, x :: xs => by simp [applyMask, applyMask_map_comm f ks xs]
  | false :: ks, x :: xs => by simp [applyMask, applyMask_map_comm f ks xs]

theorem flatMap_congr' {α β : Type} {f g : α → List β} : ∀ {l : List α}, (∀ x ∈ l, f x = g x) →
    l.flatMap f = l.flatMap g
  | [], _ => rfl
  | a :: as, h => by
    simp only [List.flatMap_cons]
    rw [h a (by simp), flatMap_congr' (fun x hx => h x (List.mem_cons_of_mem _ hx))]

/-! ### tokens -/

theorem Tok.cs?_some_iff (t : Tok) (cs : CS) : t.cs? = some cs ↔ ∃ s m, t = .verified s m cs := by
  cases t <;> simp [Tok.cs?]

theorem isPermAt_iff (pl : Bytes) (t : Tok) : isPermAt pl t = true ↔ ∃ m, t.mac? = some m ∧ m.loc = pl := by
  unfold isPermAt
  cases h : t.mac? <;> simp

theorem isPermAt_wellFormed {pl : Bytes} {t : Tok} (h : isPermAt pl t = true) : t.isWellFormed = true := by
  obtain ⟨m, hm, _⟩ := (isPermAt_iff pl t).mp h
  simp [Tok.isWellFormed, hm]

theorem verdict_cs? (t : Tok) (r : Option CS) (cs : CS) :
    (Bundle.verdict t r).cs? = some cs ↔ (∃ m, t.mac? = some m) ∧ r = some cs := by
  unfold Bundle.verdict
  cases hm : t.mac? with
  | none =>
    have : t.cs? = none := by cases t <;> simp_all [Tok.mac?, Tok.cs?]
    simp [this]
  | some m => cases r <;> simp [Tok.cs?]

theorem verdict_str (t : Tok) (r : Option CS) : (Bundle.verdict t r).str = t.str := by
  unfold Bundle.verdict
  cases hm : t.mac? <;> cases r <;> simp [Tok.str]

theorem verdict_mac? (t : Tok) (r : Option CS) : (Bundle.verdict t r).mac? = t.mac? := by
  cases t <;> cases r <;> simp [Bundle.verdict, Tok.mac?, Tok.str]

/-! ### verification: the decision -/

/-- the invariant "only permission tokens are ever marked verified" (true after parsing, preserved
by every operation) -/
def VerifiedArePerm (b : Bundle) : Prop := ∀ t ∈ b.ts, t.isVerified = true → isPermAt b.permLoc t = true

theorem verifiedSets_verifyBy (b : Bundle) (o : Bundle.Oracle) (hb : VerifiedArePerm b) (cs : CS) :
    cs ∈ (b.verifyBy o).verifiedSets ↔
      ∃ t ∈ b.ts, isPermAt b.permLoc t = true ∧ o t (dischargesOf b.permLoc b.ts t) = some cs := by
  simp only [Bundle.verifiedSets, Bundle.verifyBy, Bundle.verifyTs, List.mem_filterMap, List.mem_map]
  constructor
  · rintro ⟨t', ⟨t, ht, rfl⟩, hcs⟩
    by_cases hp : isPermAt b.permLoc t = true
    · simp only [hp, if_true] at hcs
      exact ⟨t, ht, hp, ((verdict_cs? _ _ _).mp hcs).2⟩
    · simp only [hp] at hcs
      have hv : t.isVerified = true := by
        obtain ⟨s, m, rfl⟩ := (Tok.cs?_some_iff t cs).mp (by simpa using hcs)
        rfl
      exact absurd (hb t ht hv) hp
  · rintro ⟨t, ht, hp, ho⟩
    refine ⟨_, ⟨t, ht, rfl⟩, ?_⟩
    simp only [hp, if_true]
    obtain ⟨m, hm, _⟩ := (isPermAt_iff _ _).mp hp
    exact (verdict_cs? _ _ _).mpr ⟨⟨m, hm⟩, ho⟩

theorem validate_iff (b : Bundle) (rs : List Access) :
    b.validate rs = true ↔ ∃ cs ∈ b.verifiedSets, Macaroon.validate cs rs = [] := by
  simp [Bundle.validate, List.any_eq_true, List.isEmpty_iff]

/-- lookups that agree on the token's own tickets give the same verification result -/
theorem verify_byTicket_congr {B : Type} [Crypto B] (k : B) (m : Mac B) (d1 d2 : List (Mac B)) (tr : Bytes → List B)
    (h : ∀ loc vk ticket, Cav.tp loc vk ticket ∈ m.cavs → byTicket d1 ticket = byTicket d2 ticket) :
    verify k m d1 tr = verify k m d2 tr := by
  dsimp only [verify, verifyWith]
  rw [walk_congr _ _ (byTicket d1) (byTicket d2) _ _ _ h]


theorem oracle_some_iff (R : Bundle.Resolver) (t : Tok) (ds : List Tok) (cs : CS) :
    R.oracle t ds = some cs ↔
      ∃ m, t.mac? = some m ∧ ∃ key, R.key m.nonce.kid = some key ∧
        Macaroon.verify key m (ds.filterMap Tok.mac?) R.trusted = .ok cs := by
  unfold Bundle.Resolver.oracle Bundle.Resolver.verifyMac
  cases hm : t.mac? with
  | none => simp
  | some m =>
    cases hk : R.key m.nonce.kid with
    | none => simp [hk]
    | some key =>
      cases hv : Macaroon.verify key m (ds.filterMap Tok.mac?) R.trusted with
      | ok cs' => simp [hk, hv]
      | error e => simp [hk, hv]

/-- the decision of a verified bundle -/
theorem bundle_decision (b : Bundle) (R : Bundle.Resolver) (rs : List Access) (hb : VerifiedArePerm b) :
    (b.verify R).validate rs = true ↔
      ∃ t ∈ b.ts, b.isPerm t = true ∧ ∃ m, t.mac? = some m ∧ ∃ key, R.key m.nonce.kid = some key ∧ ∃ cs,
        Macaroon.verify key m ((dischargesOf b.permLoc b.ts t).filterMap Tok.mac?) R.trusted = .ok cs ∧
        Macaroon.validate cs rs = [] := by
  rw [validate_iff]
  unfold Bundle.verify
  constructor
  · rintro ⟨cs, hcs, hv⟩
    obtain ⟨t, ht, hp, ho⟩ := (verifiedSets_verifyBy b _ hb cs).mp hcs
    obtain ⟨m, hm, key, hk, hver⟩ := (oracle_some_iff R t _ cs).mp ho
    exact ⟨t, ht, hp, m, hm, key, hk, cs, hver, hv⟩
  · rintro ⟨t, ht, hp, m, hm, key, hk, cs, hver, hv⟩
    exact ⟨cs, (verifiedSets_verifyBy b _ hb cs).mpr ⟨t, ht, hp, (oracle_some_iff R t _ cs).mpr ⟨m, hm, key, hk, hver⟩⟩, hv⟩


/-! ### the decision only looks at permission tokens and their matching discharges -/

theorem filter_VerifiedArePerm (pl : Bytes) (ts : List Tok) (keep : Tok → Bool)
    (h : VerifiedArePerm ⟨pl, ts⟩) : VerifiedArePerm ⟨pl, ts.filter keep⟩ :=
  fun t ht hv => h t (List.mem_filter.mp ht).1 hv

theorem mem_dischargesFor {pl : Bytes} {ts : List Tok} {τ : Bytes} {d : Tok} :
    d ∈ dischargesFor pl ts τ ↔ d ∈ ts ∧ isDisAt pl d = true ∧ d.kid? = some τ := by
  simp [dischargesFor, List.mem_filter]

/-- dropping tokens that are neither permission tokens nor discharges for one of their tickets does
not change what a permission token is verified with -/
theorem dischargesOf_filter (pl : Bytes) (ts : List Tok) (keep : Tok → Bool) (t : Tok)
    (hdis : ∀ lt ∈ t.tickets, ∀ d ∈ dischargesFor pl ts lt.2, keep d = true) :
    dischargesOf pl (ts.filter keep) t = dischargesOf pl ts t := by
  unfold dischargesOf
  apply flatMap_congr'
  intro lt hlt
  unfold dischargesFor
  rw [List.filter_filter]
  apply List.filter_congr
  intro d hd
  cases hq : (isDisAt pl d && decide (d.kid? = some lt.2)) with
  | false => simp
  | true =>
    have : d ∈ dischargesFor pl ts lt.2 := by
      simp only [Bool.and_eq_true, decide_eq_true_eq] at hq
      exact mem_dischargesFor.mpr ⟨hd, hq.1, hq.2⟩
    simp [hdis lt hlt d this]

theorem decision_filter (pl : Bytes) (R : Bundle.Resolver) (rs : List Access) (ts : List Tok) (keep : Tok → Bool)
    (hperm : ∀ t ∈ ts, isPermAt pl t = true → keep t = true)
    (hdis : ∀ t ∈ ts, isPermAt pl t = true → ∀ lt ∈ t.tickets, ∀ d ∈ dischargesFor pl ts lt.2, keep d = true)
    (inv : VerifiedArePerm ⟨pl, ts⟩) :
    ((⟨pl, ts.filter keep⟩ : Bundle).verify R).validate rs = ((⟨pl, ts⟩ : Bundle).verify R).validate rs := by
  rw [Bool.eq_iff_iff, bundle_decision _ R rs (filter_VerifiedArePerm pl ts keep inv), bundle_decision _ R rs inv]
  constructor
  · rintro ⟨t, ht, hp, rest⟩
    have ht' := (List.mem_filter.mp ht).1
    refine ⟨t, ht', hp, ?_⟩
    simpa [dischargesOf_filter pl ts keep t (hdis t ht' hp)] using rest
  · rintro ⟨t, ht, hp, rest⟩
    refine ⟨t, List.mem_filter.mpr ⟨ht, hperm t ht hp⟩, hp, ?_⟩
    simpa [dischargesOf_filter pl ts keep t (hdis t ht hp)] using rest

/-- the mask of the default filter is a predicate mask -/
def defaultKeep (pl : Bytes) (ts : List Tok) (t : Tok) : Bool :=
  t.isNonMac || isPermAt pl t || (isDisAt pl t && hasPermFor pl ts t)

theorem default_apply (pl : Bytes) (ts : List Tok) : Filter.default.apply pl ts = ts.filter (defaultKeep pl ts) := by
  unfold Filter.apply Filter.mask
  exact applyMask_map (defaultKeep pl ts) ts

theorem keepAll_apply (pl : Bytes) (ts : List Tok) : Filter.keepAll.apply pl ts = ts := by
  unfold Filter.apply Filter.mask
  exact applyMask_all_true ts

theorem defaultKeep_discharge {pl : Bytes} {ts : List Tok} {t d : Tok} (ht : t ∈ ts) (hp : isPermAt pl t = true)
    {lt : Bytes × Bytes} (hlt : lt ∈ t.tickets) (hd : d ∈ dischargesFor pl ts lt.2) : defaultKeep pl ts d = true := by
  obtain ⟨_, hdis, hk⟩ := mem_dischargesFor.mp hd
  have : hasPermFor pl ts d = true := by
    unfold hasPermFor
    rw [List.any_eq_true]
    refine ⟨t, ht, ?_⟩
    rw [Bool.and_eq_true]
    refine ⟨hp, ?_⟩
    rw [List.any_eq_true]
    exact ⟨lt, hlt, by simp [hk]⟩
  simp [defaultKeep, hdis, this]

/-- `DefaultFilter` never changes the decision: what it drops (malformed tokens, discharges for
nobody's ticket) contributes nothing -/
theorem default_filter_decision (pl : Bytes) (R : Bundle.Resolver) (rs : List Access) (ts : List Tok)
    (inv : VerifiedArePerm ⟨pl, ts⟩) :
    ((⟨pl, Filter.default.apply pl ts⟩ : Bundle).verify R).validate rs = ((⟨pl, ts⟩ : Bundle).verify R).validate rs := by
  rw [default_apply]
  apply decision_filter pl R rs ts _ _ _ inv
  · intro t _ hp; simp [defaultKeep, hp]
  · intro t ht hp lt hlt d hd; exact defaultKeep_discharge ht hp hlt hd

/-- malformed and non-macaroon entries never contribute -/
theorem junk_irrelevant (pl : Bytes) (R : Bundle.Resolver) (rs : List Access) (ts : List Tok)
    (inv : VerifiedArePerm ⟨pl, ts⟩) :
    ((⟨pl, ts.filter Tok.isWellFormed⟩ : Bundle).verify R).validate rs = ((⟨pl, ts⟩ : Bundle).verify R).validate rs := by
  apply decision_filter pl R rs ts _ _ _ inv
  · intro t _ hp; exact isPermAt_wellFormed hp
  · intro t _ _ lt _ d hd
    obtain ⟨_, hdis, _⟩ := mem_dischargesFor.mp hd
    simp only [isDisAt, Bool.and_eq_true] at hdis
    exact hdis.1


/-! ### parsing and printing -/

theorem ofHeaderTok_bytes (s : Str) (raw : Bytes) :
    ofHeaderTok (.macaroonBytes s raw) = .malformed s ∨ ∃ m, ofHeaderTok (.macaroonBytes s raw) = .unverified s m := by
  simp only [ofHeaderTok]
  cases Concrete.decode raw with
  | none => exact .inl rfl
  | some m => exact .inr ⟨m, rfl⟩

theorem ofHeaderTok_str (t : Header.Tok) : (ofHeaderTok t).str = t.str := by
  cases t with
  | nonMacaroon s => rfl
  | malformedB64 s => rfl
  | macaroonBytes s raw =>
    rcases ofHeaderTok_bytes s raw with h | ⟨m, h⟩ <;> rw [h] <;> rfl

theorem parseToks_str (h : Str) : (parseToks h).map Tok.str = (Header.parts h).map Header.trim := by
  unfold parseToks
  rw [List.map_map]
  have : (Tok.str ∘ ofHeaderTok) = Header.Tok.str := funext ofHeaderTok_str
  rw [this]
  exact Macaroon.Header.parseToks_str h

theorem parseToks_ne_nil (h : Str) : parseToks h ≠ [] := by
  unfold parseToks
  intro hn
  exact Macaroon.Header.parseToks_ne_nil h (List.map_eq_nil_iff.mp hn)

/-- printing a freshly parsed header normalises it -/
theorem headerOf_parseToks (h : Str) :
    headerOf (parseToks h) = Header.schemeFlyV1 ++ ' ' :: Header.joinWith ',' ((Header.parts h).map Header.trim) := by
  unfold headerOf
  cases hp : parseToks h with
  | nil => exact absurd hp (parseToks_ne_nil h)
  | cons t ts => simp only [tokString, ← hp, parseToks_str]

/-- a freshly parsed token list holds no verification results -/
theorem parseToks_fresh (h : Str) : ∀ t ∈ parseToks h, t.isVerified = false ∧ t.isFailed = false := by
  intro t ht
  obtain ⟨x, _, rfl⟩ := List.mem_map.mp ht
  cases x with
  | nonMacaroon s => exact ⟨rfl, rfl⟩
  | malformedB64 s => exact ⟨rfl, rfl⟩
  | macaroonBytes s raw =>
    rcases ofHeaderTok_bytes s raw with h | ⟨m, h⟩ <;> rw [h] <;> exact ⟨rfl, rfl⟩

theorem applyMask_mem {α : Type} {ks : List Bool} {xs : List α} {x : α} (h : x ∈ applyMask ks xs) : x ∈ xs :=
  (applyMask_sublist ks xs).subset h

/-! ### the invariant is established by parsing and kept by every operation -/

theorem inv_of_sublist {pl : Bytes} {ts ts' : List Tok} (h : ts'.Sublist ts) (inv : VerifiedArePerm ⟨pl, ts⟩) :
    VerifiedArePerm ⟨pl, ts'⟩ := fun t ht hv => inv t (h.subset ht) hv

theorem inv_parseWith (pl : Bytes) (h : Str) (f : Filter) : VerifiedArePerm (Bundle.parseWith pl h f).1 := by
  intro t ht hv
  have := (parseToks_fresh h t (applyMask_mem ht)).1
  simp [this] at hv

theorem inv_append {pl : Bytes} {ts ts' : List Tok} (inv : VerifiedArePerm ⟨pl, ts⟩)
    (h' : ∀ t ∈ ts', t.isVerified = false) : VerifiedArePerm ⟨pl, ts ++ ts'⟩ := by
  intro t ht hv
  rcases List.mem_append.mp ht with h | h
  · exact inv t h hv
  · simp [h' t h] at hv

theorem inv_addTokens (b : Bundle) (h : Str) (inv : VerifiedArePerm b) : VerifiedArePerm (b.addTokens h).1 := by
  simp only [Bundle.addTokens]
  by_cases he : hasError (parseToks h) = true
  · simpa [he] using inv
  · simp only [he]
    exact inv_append inv (fun t ht => (parseToks_fresh h t ht).1)

theorem inv_filter (b : Bundle) (f : Filter) (inv : VerifiedArePerm b) : VerifiedArePerm (b.filter f) :=
  inv_of_sublist (applyMask_sublist _ _) inv

theorem inv_select (b : Bundle) (f : Filter) (inv : VerifiedArePerm b) : VerifiedArePerm (b.select f) :=
  inv_of_sublist (applyMask_sublist _ _) inv

theorem isPermAt_verdict (pl : Bytes) (t : Tok) (r : Option CS) : isPermAt pl (Bundle.verdict t r) = isPermAt pl t := by
  unfold isPermAt
  rw [verdict_mac?]

theorem inv_verifyBy (b : Bundle) (o : Bundle.Oracle) (inv : VerifiedArePerm b) : VerifiedArePerm (b.verifyBy o) := by
  intro t' ht' hv
  simp only [Bundle.verifyBy, Bundle.verifyTs, List.mem_map] at ht'
  obtain ⟨t, ht, rfl⟩ := ht'
  by_cases hp : isPermAt b.permLoc t = true
  · simp only [hp, if_true] at hv ⊢
    simpa [Bundle.verifyBy, isPermAt_verdict] using hp
  · simp only [hp] at hv ⊢
    exact absurd (inv t ht (by simpa using hv)) hp

theorem inv_clone (b : Bundle) : VerifiedArePerm b.clone := by
  intro t ht hv
  have := (parseToks_fresh _ t ht).1
  simp [this] at hv

/-! ### `Add` and `Encode` keep the nonce and the location -/

theorem addLoop_keeps {B : Type} [Crypto B] : ∀ (items : List (AddItem B)) (m : Mac B) (seen : List Bytes),
    (addLoop items m seen).1.loc = m.loc ∧ (addLoop items m seen).1.nonce = m.nonce
  | [], m, seen => by simp [addLoop]
  | it :: rest, m, seen => by
    cases it with
    | plain c =>
      simp only [addLoop]
      split
      · exact ⟨rfl, rfl⟩
      · split
        · exact ⟨rfl, rfl⟩
        · split
          · exact ⟨rfl, rfl⟩
          · exact addLoop_keeps rest _ seen
    | new3p loc ticket rn nonce =>
      simp only [addLoop]
      split
      · exact ⟨rfl, rfl⟩
      · split
        · exact ⟨rfl, rfl⟩
        · exact addLoop_keeps rest _ _

theorem add_keeps {B : Type} [Crypto B] (m : Mac B) (items : List (AddItem B)) :
    (add m items).1.loc = m.loc ∧ (add m items).1.nonce = m.nonce := by
  unfold add
  split
  · exact ⟨rfl, rfl⟩
  · split
    · exact ⟨rfl, rfl⟩
    · exact addLoop_keeps _ m _

theorem encodeState_keeps {B : Type} [Crypto B] (m : Mac B) :
    (encodeState m).loc = m.loc ∧ (encodeState m).nonce = m.nonce := by
  unfold encodeState
  split <;> exact ⟨rfl, rfl⟩

theorem encode_keeps (m : M) : (Concrete.encode m).1.loc = m.loc ∧ (Concrete.encode m).1.nonce = m.nonce :=
  encodeState_keeps m

/-! ### discharging -/

theorem dischargeWith_err (sc : Bundle.DischargeScope) (b : Bundle) (loc ka : Bytes) (cb : Bundle.Discharger)
    (rnds : List Bytes) (b' : Bundle) (h : Bundle.dischargeWith sc b loc ka cb rnds = (b', true)) : b' = b := by
  unfold Bundle.dischargeWith at h
  split at h
  · simpa using h.symm
  · simp at h

theorem dischargeWith_ok (sc : Bundle.DischargeScope) (b : Bundle) (loc ka : Bytes) (cb : Bundle.Discharger)
    (rnds : List Bytes) (b' : Bundle) (h : Bundle.dischargeWith sc b loc ka cb rnds = (b', false)) :
    ∃ ds, Bundle.newDischarges sc b.permLoc b.ts loc ka cb rnds = some ds ∧ b' = { b with ts := b.ts ++ ds } := by
  unfold Bundle.dischargeWith at h
  split at h
  · simp at h
  · rename_i ds hds
    exact ⟨ds, hds, by simpa using h.symm⟩

theorem withRnd_map_fst : ∀ (tickets rnds : List Bytes), (Bundle.withRnd tickets rnds).map (·.1) = tickets := by
  intro tickets rnds
  unfold Bundle.withRnd
  apply List.ext_getElem
  · simp
  · intro i h1 h2
    simp

theorem withRnd_length (tickets rnds : List Bytes) : (Bundle.withRnd tickets rnds).length = tickets.length := by
  simp [Bundle.withRnd]

theorem dischargeOne_unverified {loc ka : Bytes} {cb : Bundle.Discharger} {ticket rnd : Bytes} {d : Tok}
    (h : Bundle.dischargeOne loc ka cb ticket rnd = some d) : ∃ s m, d = .unverified s m ∧ m.loc = loc ∧ m.nonce.kid = ticket := by
  unfold Bundle.dischargeOne at h
  split at h
  · simp at h
  · rename_i tcavs dm hdt
    split at h
    · simp at h
    · rename_i items _
      split at h
      · simp at h
      · rename_i dm' hadd
        split at h
        · simp at h
        · rename_i dm'' bytes henc
          have hrb : readsBack bytes dm'' = true := by
            cases hq : readsBack bytes dm'' with
            | true => rfl
            | false => simp [hq] at h
          simp only [hrb, if_true] at h
          simp only [Option.some.injEq] at h
          have h1 : dm'' = (Concrete.encode dm').1 := by rw [henc]
          have h2 : dm' = (add dm items).1 := by rw [hadd]
          have h3 : dm.loc = loc ∧ dm.nonce.kid = ticket := by
            unfold dischargeTicket at hdt
            split at hdt
            · simp at hdt
            · simp at hdt
            · simp only [Except.ok.injEq, Prod.mk.injEq] at hdt
              rw [← hdt.2]
              exact ⟨rfl, rfl⟩
          refine ⟨_, _, h.symm, ?_, ?_⟩
          · rw [h1, (encode_keeps dm').1, h2, (add_keeps dm items).1, h3.1]
          · rw [h1, (encode_keeps dm').2, h2, (add_keeps dm items).2, h3.2]


theorem isPermAt_unverified (loc : Bytes) (s : Str) (m : M) : isPermAt loc (.unverified s m) = decide (m.loc = loc) := rfl

/-- what a successful `Discharge` mints: one unverified token per ticket, in ticket order, keyed by
the ticket, located at the third party -/
theorem newDischarges_shape (loc ka : Bytes) (cb : Bundle.Discharger) : ∀ (trs : List (Bytes × Bytes)) (ds : List Tok),
    trs.mapM (fun tr => Bundle.dischargeOne loc ka cb tr.1 tr.2) = some ds →
      ds.map Tok.kid? = trs.map (fun tr => some tr.1) ∧ ∀ d ∈ ds, d.isUnverified = true ∧ isPermAt loc d = true
  | [], ds, h => by simp at h; subst h; simp
  | tr :: trs, ds, h => by
    rw [List.mapM_cons] at h
    cases h1 : Bundle.dischargeOne loc ka cb tr.1 tr.2 with
    | none => simp [h1] at h
    | some d =>
      cases h2 : trs.mapM (fun tr => Bundle.dischargeOne loc ka cb tr.1 tr.2) with
      | none => simp [h1, h2] at h
      | some ds' =>
        simp [h1, h2] at h
        subst h
        obtain ⟨ih1, ih2⟩ := newDischarges_shape loc ka cb trs ds' h2
        obtain ⟨s, m, rfl, hl, hk⟩ := dischargeOne_unverified h1
        refine ⟨by simp [ih1, Tok.kid?, Tok.mac?, hk], ?_⟩
        intro d hd
        rcases List.mem_cons.mp hd with rfl | hd
        · exact ⟨rfl, by simp [isPermAt_unverified, hl]⟩
        · exact ih2 d hd

/-- `Discharge(loc, …)` as documented: on failure the bundle is what it was; on success exactly one
new unverified discharge per undischarged ticket OF THAT LOCATION is appended, in order, and nothing
else is touched -/
theorem discharge_effect (b : Bundle) (loc ka : Bytes) (cb : Bundle.Discharger) (rnds : List Bytes) :
    ((b.discharge loc ka cb rnds).2 = true → (b.discharge loc ka cb rnds).1 = b) ∧
    ((b.discharge loc ka cb rnds).2 = false → ∃ ds, (b.discharge loc ka cb rnds).1 = { b with ts := b.ts ++ ds } ∧
        ds.map Tok.kid? = (b.undischargedTicketsFor loc).map some ∧
        ∀ d ∈ ds, d.isUnverified = true ∧ isPermAt loc d = true) := by
  constructor
  · intro h
    exact dischargeWith_err _ b loc ka cb rnds _ (Prod.ext rfl h)
  · intro h
    obtain ⟨ds, hds, hb'⟩ := dischargeWith_ok _ b loc ka cb rnds _ (Prod.ext rfl h)
    refine ⟨ds, hb', ?_⟩
    have := newDischarges_shape loc ka cb _ ds hds
    refine ⟨?_, this.2⟩
    rw [this.1]
    have hm := withRnd_map_fst (Bundle.ticketsInScope .thatLocation b.permLoc b.ts loc) rnds
    simp only [Bundle.ticketsInScope] at hm
    simp only [Bundle.ticketsInScope, Bundle.undischargedTicketsFor]
    conv => rhs; rw [← hm]
    rw [List.map_map]
    rfl

theorem mem_locsOf : ∀ (u : List (Bytes × Bytes)) (seen : List Bytes) (x : Bytes × Bytes), x ∈ u →
    x.1 ∈ seen ∨ x.1 ∈ Bundle.locsOf u seen
  | [], _, _, h => by cases h
  | lt :: rest, seen, x, h => by
    simp only [Bundle.locsOf]
    rcases List.mem_cons.mp h with rfl | h'
    · by_cases hs : seen.contains x.1 = true
      · exact .inl (by simpa using hs)
      · rw [if_neg hs]
        exact .inr (by simp)
    · by_cases hs : seen.contains lt.1 = true
      · simp only [hs, if_true]
        exact mem_locsOf rest seen x h'
      · simp only [hs]
        rcases mem_locsOf rest (lt.1 :: seen) x h' with h1 | h1
        · rcases List.mem_cons.mp h1 with h2 | h2
          · exact .inr (by simp [h2])
          · exact .inl h2
        · exact .inr (List.mem_cons_of_mem _ h1)

theorem mem_everyLocation (pl : Bytes) (ts : List Tok) (loc : Bytes) (lt : Bytes × Bytes)
    (h : lt ∈ undischarged pl ts) : lt.2 ∈ Bundle.ticketsInScope .everyLocation pl ts loc := by
  simp only [Bundle.ticketsInScope, List.mem_flatMap, List.mem_map, List.mem_filter]
  refine ⟨lt.1, ?_, lt, ⟨h, by simp⟩, rfl⟩
  rcases mem_locsOf _ [] lt h with h1 | h1
  · cases h1
  · exact h1

theorem dischargeOne_cannotOpen (loc ka : Bytes) (cb : Bundle.Discharger) (ticket rnd : Bytes)
    (h : Crypto.openTicket ka ticket = TicketResult.cannotOpen) : Bundle.dischargeOne loc ka cb ticket rnd = none := by
  unfold Bundle.dischargeOne dischargeTicket
  rw [h]

/-- F6: as long as ANY undischarged ticket in the bundle (of whatever location) does not open under
the key given, the code as it is refuses and leaves the bundle alone -/
theorem f6_blocks (b : Bundle) (loc ka : Bytes) (cb : Bundle.Discharger) (rnds : List Bytes) (lt : Bytes × Bytes)
    (hlt : lt ∈ b.undischargedTickets) (hopen : Crypto.openTicket ka lt.2 = TicketResult.cannotOpen) :
    b.dischargeF6 loc ka cb rnds = (b, true) := by
  unfold Bundle.dischargeF6 Bundle.dischargeWith Bundle.newDischarges
  have hm := mem_everyLocation b.permLoc b.ts loc lt hlt
  rw [← withRnd_map_fst (Bundle.ticketsInScope .everyLocation b.permLoc b.ts loc) rnds] at hm
  obtain ⟨tr, htr, htr1⟩ := List.mem_map.mp hm
  rw [mapM_none_of_mem _ _ tr htr (by rw [htr1]; exact dischargeOne_cannotOpen loc ka cb lt.2 tr.2 hopen)]

/-- … whereas the documented operation with nothing to do for `loc` succeeds and appends nothing -/
theorem discharge_nothing_to_do (b : Bundle) (loc ka : Bytes) (cb : Bundle.Discharger) (rnds : List Bytes)
    (h : b.undischargedTicketsFor loc = []) : b.discharge loc ka cb rnds = (b, false) := by
  unfold Bundle.discharge Bundle.dischargeWith Bundle.newDischarges
  simp only [Bundle.ticketsInScope]
  unfold Bundle.undischargedTicketsFor at h
  rw [h]
  simp [Bundle.withRnd]


/-- `mapM` in `Option` fails exactly when some element does -/
theorem mapM_eq_none_iff {α β : Type} (f : α → Option β) : ∀ (l : List α), l.mapM f = none ↔ ∃ x ∈ l, f x = none
  | [] => by simp
  | a :: as => by
    rw [List.mapM_cons]
    cases hfa : f a with
    | none => simp [hfa]
    | some b =>
      have ih := mapM_eq_none_iff f as
      cases hr : as.mapM f with
      | none =>
        obtain ⟨x, hx, hfx⟩ := ih.mp hr
        simp only [Option.bind_eq_bind, Option.bind_some, Option.bind_none, true_iff]
        exact ⟨x, List.mem_cons_of_mem _ hx, hfx⟩
      | some bs =>
        simp only [Option.bind_eq_bind, Option.bind_some, Option.pure_def, reduceCtorEq, false_iff]
        rintro ⟨x, hx, hfx⟩
        rcases List.mem_cons.mp hx with rfl | hx'
        · rw [hfa] at hfx; cases hfx
        · have := ih.mpr ⟨x, hx', hfx⟩
          rw [hr] at this; cases this

/-- `Discharge` is all or nothing: it returns an error exactly when the work on SOME ticket in scope
fails (ticket does not open, callback refuses, `Add` refuses the callback's caveats, encoding
fails), and then the bundle is what it was — the discharges already minted for other tickets are
dropped -/
theorem dischargeWith_all_or_nothing (sc : Bundle.DischargeScope) (b : Bundle) (loc ka : Bytes) (cb : Bundle.Discharger)
    (rnds : List Bytes) :
    ((Bundle.dischargeWith sc b loc ka cb rnds).2 = true ↔
      ∃ tr ∈ Bundle.withRnd (Bundle.ticketsInScope sc b.permLoc b.ts loc) rnds, Bundle.dischargeOne loc ka cb tr.1 tr.2 = none) ∧
    ((Bundle.dischargeWith sc b loc ka cb rnds).2 = true → (Bundle.dischargeWith sc b loc ka cb rnds).1 = b) := by
  refine ⟨?_, fun h => dischargeWith_err sc b loc ka cb rnds _ (Prod.ext rfl h)⟩
  unfold Bundle.dischargeWith Bundle.newDischarges
  rw [← mapM_eq_none_iff]
  cases (Bundle.withRnd (Bundle.ticketsInScope sc b.permLoc b.ts loc) rnds).mapM
      (fun tr => Bundle.dischargeOne loc ka cb tr.1 tr.2) <;> simp

/-! ### attenuation -/

theorem attenuate_err (b : Bundle) (items : List (AddItem Bytes)) (h : (b.attenuate items).2 = true) :
    (b.attenuate items).1 = b := by
  unfold Bundle.attenuate at h ⊢
  split at h
  · rename_i hn; simp [hn]
  · simp at h

theorem attenuate_ok (b : Bundle) (items : List (AddItem Bytes)) (h : (b.attenuate items).2 = false) :
    (b.attenuate items).1.permLoc = b.permLoc ∧
    b.ts.map (fun t => if isPermAt b.permLoc t then Bundle.attTok items t else some t) = (b.attenuate items).1.ts.map some := by
  unfold Bundle.attenuate at h ⊢
  split at h
  · simp at h
  · rename_i ts hts
    exact ⟨rfl, (mapM_some_iff _ _ _).mp hts⟩

theorem attTok_kind (items : List (AddItem Bytes)) (t t' : Tok) (h : Bundle.attTok items t = some t') : t'.kind = t.kind := by
  cases t with
  | nonMac s => simp [Bundle.attTok] at h; subst h; rfl
  | malformed s => simp [Bundle.attTok] at h; subst h; rfl
  | unverified s m =>
    simp only [Bundle.attTok, Option.map_eq_some_iff] at h
    obtain ⟨r, _, rfl⟩ := h; rfl
  | verified s m cs =>
    simp only [Bundle.attTok, Option.map_eq_some_iff] at h
    obtain ⟨r, _, rfl⟩ := h; rfl
  | failed s m =>
    simp only [Bundle.attTok, Option.map_eq_some_iff] at h
    obtain ⟨r, _, rfl⟩ := h; rfl

/-- a verified token keeps its verified caveats and gains exactly the caveats `Add` appended -/
theorem attTok_verified (items : List (AddItem Bytes)) (s : Str) (m : M) (cs : CS) (t' : Tok)
    (h : Bundle.attTok items (.verified s m cs) = some t') :
    ∃ s' m' added, Bundle.attMac items m = some (s', m', added) ∧ t' = .verified s' m' (cs ++ added) := by
  simp only [Bundle.attTok, Option.map_eq_some_iff] at h
  obtain ⟨⟨s', m', added⟩, hr, rfl⟩ := h
  exact ⟨s', m', added, hr, rfl⟩

/-- the per-token work: the replacement is `Add` on a clone, printed -/
theorem attMac_spec (items : List (AddItem Bytes)) (m : M) (s' : Str) (m' : M) (added : CS)
    (h : Bundle.attMac items m = some (s', m', added)) :
    ∃ c bytes, (Concrete.encode m).2.bind Concrete.decode = some c ∧ (add c items).2 = none ∧
      Concrete.encode (add c items).1 = (m', some bytes) ∧ s' = macString bytes ∧
      added = (add c items).1.cavs.drop c.cavs.length ∧ Concrete.decode bytes = some m' := by
  unfold Bundle.attMac at h
  split at h
  · simp at h
  · rename_i c hc
    split at h
    · simp at h
    · rename_i c' hadd
      split at h
      · simp at h
      · rename_i c'' bytes henc
        have hrb : readsBack bytes c'' = true := by
          cases hq : readsBack bytes c'' with
          | true => rfl
          | false => simp [hq] at h
        simp only [hrb, if_true] at h
        simp only [Option.some.injEq, Prod.mk.injEq] at h
        obtain ⟨rfl, rfl, rfl⟩ := h
        have h1 : (add c items).1 = c' := by rw [hadd]
        have h2 : (add c items).2 = none := by rw [hadd]
        exact ⟨c, bytes, hc, h2, by rw [h1, henc], rfl, by rw [h1], by simpa [readsBack] using hrb⟩


/-! ### the invariant under attenuation and discharging -/

/-- the codec fact attenuation relies on: re-decoding an encoded token keeps its location
(an instance of the round trip `decode_encode_mac` of C11) -/
def CloneKeepsLoc (m : M) : Prop :=
  ∀ c, (Concrete.encode m).2.bind Concrete.decode = some c → c.loc = m.loc

theorem attMac_loc (items : List (AddItem Bytes)) (m : M) (s' : Str) (m' : M) (added : CS)
    (h : Bundle.attMac items m = some (s', m', added)) (hc : CloneKeepsLoc m) : m'.loc = m.loc := by
  obtain ⟨c, bytes, hclone, _, henc, _, _, _⟩ := attMac_spec items m s' m' added h
  have h1 : m' = (Concrete.encode (add c items).1).1 := by rw [henc]
  rw [h1, (encode_keeps _).1, (add_keeps c items).1, hc c hclone]

theorem attTok_perm (pl : Bytes) (items : List (AddItem Bytes)) (t t' : Tok) (h : Bundle.attTok items t = some t')
    (hc : ∀ m, t.mac? = some m → CloneKeepsLoc m) : isPermAt pl t' = isPermAt pl t := by
  cases t with
  | nonMac s => simp [Bundle.attTok] at h; subst h; rfl
  | malformed s => simp [Bundle.attTok] at h; subst h; rfl
  | unverified s m =>
    simp only [Bundle.attTok, Option.map_eq_some_iff] at h
    obtain ⟨⟨s', m', added⟩, hr, rfl⟩ := h
    simp [isPermAt, Tok.mac?, attMac_loc items m s' m' added hr (hc m rfl)]
  | verified s m cs =>
    simp only [Bundle.attTok, Option.map_eq_some_iff] at h
    obtain ⟨⟨s', m', added⟩, hr, rfl⟩ := h
    simp [isPermAt, Tok.mac?, attMac_loc items m s' m' added hr (hc m rfl)]
  | failed s m =>
    simp only [Bundle.attTok, Option.map_eq_some_iff] at h
    obtain ⟨⟨s', m', added⟩, hr, rfl⟩ := h
    simp [isPermAt, Tok.mac?, attMac_loc items m s' m' added hr (hc m rfl)]

theorem attTok_isVerified (items : List (AddItem Bytes)) (t t' : Tok) (h : Bundle.attTok items t = some t') :
    t'.isVerified = t.isVerified := by
  have := attTok_kind items t t' h
  cases t <;> cases t' <;> simp_all [Tok.kind, Tok.isVerified]

theorem mem_of_map_eq_map_some' {α β : Type} {f : α → Option β} : ∀ {l : List α} {r : List β}, l.map f = r.map some →
    ∀ y ∈ r, ∃ x ∈ l, f x = some y
  | [], [], _, y, hy => by cases hy
  | [], _ :: _, h, _, _ => by simp at h
  | _ :: _, [], h, _, _ => by simp at h
  | a :: as, b :: bs, h, y, hy => by
    simp only [List.map_cons, List.cons.injEq] at h
    rcases List.mem_cons.mp hy with rfl | hy'
    · exact ⟨a, by simp, h.1⟩
    · obtain ⟨x, hx, hfx⟩ := mem_of_map_eq_map_some' h.2 y hy'
      exact ⟨x, List.mem_cons_of_mem _ hx, hfx⟩

theorem inv_attenuate (b : Bundle) (items : List (AddItem Bytes)) (inv : VerifiedArePerm b)
    (hc : ∀ t ∈ b.ts, ∀ m, t.mac? = some m → CloneKeepsLoc m) : VerifiedArePerm (b.attenuate items).1 := by
  by_cases he : (b.attenuate items).2 = true
  · rw [attenuate_err b items he]; exact inv
  · have he' : (b.attenuate items).2 = false := by simpa using he
    obtain ⟨hpl, hmap⟩ := attenuate_ok b items he'
    intro t' ht' hv
    rw [hpl]
    obtain ⟨t, ht, hft⟩ := mem_of_map_eq_map_some' hmap t' ht'
    split at hft
    · rw [attTok_perm b.permLoc items t t' hft (hc t ht)]
      exact inv t ht (by rw [← attTok_isVerified items t t' hft]; exact hv)
    · simp only [Option.some.injEq] at hft; subst hft; exact inv t ht hv

theorem inv_dischargeWith (sc : Bundle.DischargeScope) (b : Bundle) (loc ka : Bytes) (cb : Bundle.Discharger)
    (rnds : List Bytes) (inv : VerifiedArePerm b) : VerifiedArePerm (Bundle.dischargeWith sc b loc ka cb rnds).1 := by
  by_cases he : (Bundle.dischargeWith sc b loc ka cb rnds).2 = true
  · have h1 : (Bundle.dischargeWith sc b loc ka cb rnds).fst = b :=
      dischargeWith_err sc b loc ka cb rnds _ (Prod.ext rfl he)
    rw [h1]; exact inv
  · have he' : (Bundle.dischargeWith sc b loc ka cb rnds).2 = false := by simpa using he
    obtain ⟨ds, hds, hb'⟩ := dischargeWith_ok sc b loc ka cb rnds _ (Prod.ext rfl he')
    have hb'' : (Bundle.dischargeWith sc b loc ka cb rnds).fst = { b with ts := b.ts ++ ds } := hb'
    rw [hb'']
    apply inv_append (pl := b.permLoc) inv
    intro t ht
    obtain ⟨tr, _, htr⟩ := mem_of_map_eq_map_some' ((mapM_some_iff _ _ _).mp hds) t ht
    obtain ⟨s, m, rfl, _, _⟩ := dischargeOne_unverified htr
    rfl

/-! ### third-party caveats added through the bundle -/

/-- a third-party caveat in a caveat set prohibits every request -/
theorem validate_tp_blocks (cs : CS) (loc : Bytes) (vk tk : Bytes) (h : Cav.tp loc vk tk ∈ cs) (rs : List Access) (hne : rs ≠ []) :
    Macaroon.validate cs rs ≠ [] := by
  cases rs with
  | nil => exact absurd rfl hne
  | cons a as =>
    intro hv
    simp only [Macaroon.validate, List.flatMap_cons, List.append_eq_nil_iff] at hv
    obtain ⟨h1, _⟩ := hv
    by_cases hw : a.wf.isEmpty = true
    · simp only [hw, Bool.not_true] at h1
      simp only [Bool.false_eq_true, if_false, validateAccess, List.flatMap_eq_nil_iff] at h1
      have := h1 _ h
      simp [Cav.isAttestation, prohibits] at this
    · simp only [hw] at h1
      simp at h1
      simp [h1] at hw

/-- what `Add` does with a single fresh third-party item: it is appended, carrying the VerifierKey
sealed under the tail before it — unless a caveat with the same encoding was already there -/
theorem add_single_new3p (c : M) (loc tk rn n : Bytes) (c' : M) (h : add c [.new3p loc tk rn n] = (c', none)) :
    c'.cavs = c.cavs ++ [.tp loc (Crypto.sealKey c.tail n rn) tk] ∨
    ((c.cavs.any fun x => Crypto.sameEnc x (.tp loc Crypto.empty tk)) = true ∧ c'.cavs = c.cavs) := by
  unfold add at h
  split at h
  · simp at h
  · split at h
    · simp at h
    · simp only [dedup, List.append_nil, AddItem.asCav] at h
      split at h
      · rename_i hd
        simp only [addLoop, Prod.mk.injEq] at h
        exact .inr ⟨hd, by rw [← h.1]⟩
      · simp only [addLoop] at h
        split at h
        · simp at h
        · split at h
          · simp at h
          · simp only [addLoop, Prod.mk.injEq] at h
            exact .inl (by rw [← h.1])

theorem map_some_of_mem {α β : Type} {f : α → Option β} : ∀ {l : List α} {r : List β}, l.map f = r.map some →
    ∀ x ∈ l, ∃ y ∈ r, f x = some y
  | [], _, _, x, hx => by cases hx
  | _ :: _, [], h, _, _ => by simp at h
  | a :: as, b :: bs, h, x, hx => by
    simp only [List.map_cons, List.cons.injEq] at h
    rcases List.mem_cons.mp hx with rfl | hx'
    · exact ⟨b, by simp, h.1⟩
    · obtain ⟨y, hy, hfy⟩ := map_some_of_mem h.2 x hx'
      exact ⟨y, List.mem_cons_of_mem _ hy, hfy⟩

/-- a bundle all of whose verified caveat sets hold a third-party caveat refuses every non-empty request list -/
theorem validate_blocked (b : Bundle) (rs : List Access) (hne : rs ≠ [])
    (h : ∀ cs ∈ b.verifiedSets, ∃ loc vk tk, Cav.tp loc vk tk ∈ cs) : b.validate rs = false := by
  cases hv : b.validate rs with
  | false => rfl
  | true =>
    obtain ⟨cs, hcs, hval⟩ := (validate_iff b rs).mp hv
    obtain ⟨loc, vk, tk, hm⟩ := h cs hcs
    exact absurd hval (validate_tp_blocks cs loc vk tk hm rs hne)

/-- the verified set of an attenuated verified token: the old set followed by exactly the caveats
`Add` appended to the clone — third-party caveats included -/
theorem attenuate_verified_set (b : Bundle) (items : List (AddItem Bytes)) (hok : (b.attenuate items).2 = false)
    (s : Str) (m : M) (cs : CS) (ht : Tok.verified s m cs ∈ b.ts) (hp : isPermAt b.permLoc (.verified s m cs) = true) :
    ∃ s' m' c bytes, (Concrete.encode m).2.bind Concrete.decode = some c ∧ (add c items).2 = none ∧
      Concrete.encode (add c items).1 = (m', some bytes) ∧ s' = macString bytes ∧
      Tok.verified s' m' (cs ++ (add c items).1.cavs.drop c.cavs.length) ∈ (b.attenuate items).1.ts := by
  obtain ⟨_, hmap⟩ := attenuate_ok b items hok
  obtain ⟨t', ht', hft⟩ := map_some_of_mem hmap _ ht
  simp only [hp, if_true] at hft
  obtain ⟨s', m', added, hr, rfl⟩ := attTok_verified items s m cs t' hft
  obtain ⟨c, bytes, hc, hadd, henc, hs, hadded, _⟩ := attMac_spec items m s' m' added hr
  exact ⟨s', m', c, bytes, hc, hadd, henc, hs, hadded ▸ ht'⟩

/-- after a successful attenuation in which `Add` appended a third-party caveat to (the clone of)
every verified token, the bundle refuses every non-empty request list until it is verified again -/
theorem attenuated_3p_blocks (b : Bundle) (items : List (AddItem Bytes)) (hok : (b.attenuate items).2 = false)
    (inv : VerifiedArePerm b)
    (h3p : ∀ s m cs, Tok.verified s m cs ∈ b.ts → ∀ c, (Concrete.encode m).2.bind Concrete.decode = some c →
      ∃ loc vk tk, Cav.tp loc vk tk ∈ (add c items).1.cavs.drop c.cavs.length)
    (rs : List Access) (hne : rs ≠ []) : (b.attenuate items).1.validate rs = false := by
  apply validate_blocked _ rs hne
  intro cs' hcs'
  simp only [Bundle.verifiedSets, List.mem_filterMap] at hcs'
  obtain ⟨t', ht', hc'⟩ := hcs'
  obtain ⟨_, hmap⟩ := attenuate_ok b items hok
  obtain ⟨t, ht, hft⟩ := mem_of_map_eq_map_some' hmap t' ht'
  obtain ⟨s', m', rfl⟩ := (Tok.cs?_some_iff t' cs').mp hc'
  by_cases hp : isPermAt b.permLoc t = true
  · simp only [hp, if_true] at hft
    have hv : t.isVerified = true := by rw [← attTok_isVerified items t _ hft]; rfl
    cases t with
    | verified s m cs =>
      obtain ⟨s'', m'', added, hr, heq⟩ := attTok_verified items s m cs _ hft
      obtain ⟨c, bytes, hc, _, _, _, hadded, _⟩ := attMac_spec items m s'' m'' added hr
      obtain ⟨loc, vk, tk, hm⟩ := h3p s m cs ht c hc
      simp only [Tok.verified.injEq] at heq
      refine ⟨loc, vk, tk, ?_⟩
      rw [heq.2.2, hadded]
      exact List.mem_append_right _ hm
    | nonMac s => simp [Tok.isVerified] at hv
    | malformed s => simp [Tok.isVerified] at hv
    | unverified s m => simp [Tok.isVerified] at hv
    | failed s m => simp [Tok.isVerified] at hv
  · simp only [hp, Bool.false_eq_true, if_false, Option.some.injEq] at hft
    subst hft
    exact absurd (inv _ ht rfl) hp

/-! ### after a successful `Discharge` nothing is left undischarged for that location -/

theorem dischargesFor_append_left {pl : Bytes} {ts ds : List Tok} {τ : Bytes} {d : Tok} (h : d ∈ dischargesFor pl ts τ) :
    d ∈ dischargesFor pl (ts ++ ds) τ := by
  obtain ⟨h1, h2, h3⟩ := mem_dischargesFor.mp h
  exact mem_dischargesFor.mpr ⟨List.mem_append_left _ h1, h2, h3⟩

theorem mem_undischargedAt {pl : Bytes} {ts : List Tok} {loc τ : Bytes} :
    τ ∈ undischargedAt pl ts loc ↔
      ∃ p ∈ ts, isPermAt pl p = true ∧ (loc, τ) ∈ p.tickets ∧ dischargesFor pl ts τ = [] := by
  simp only [undischargedAt, undischarged, List.mem_map, List.mem_filter, List.mem_flatMap, decide_eq_true_eq,
    List.isEmpty_iff]
  constructor
  · rintro ⟨lt, ⟨⟨p, ⟨hp, hperm⟩, hlt, hemp⟩, hl⟩, rfl⟩
    exact ⟨p, hp, hperm, by rw [← hl]; exact hlt, hemp⟩
  · rintro ⟨p, hp, hperm, hlt, hemp⟩
    exact ⟨(loc, τ), ⟨⟨p, ⟨hp, hperm⟩, hlt, hemp⟩, rfl⟩, rfl⟩

/-- **discharge_then_none_undischarged**: after a successful `Discharge(loc, …)` — for a third-party
location other than the bundle's own permission location — no ticket of `loc` is undischarged any more -/
theorem discharge_then_none_undischarged (b : Bundle) (loc ka : Bytes) (cb : Bundle.Discharger) (rnds : List Bytes)
    (hloc : loc ≠ b.permLoc) (hok : (b.discharge loc ka cb rnds).2 = false) :
    (b.discharge loc ka cb rnds).1.undischargedTicketsFor loc = [] := by
  obtain ⟨ds, hb', hk, hds⟩ := (discharge_effect b loc ka cb rnds).2 hok
  rw [hb']
  simp only [Bundle.undischargedTicketsFor]
  rw [List.eq_nil_iff_forall_not_mem]
  intro τ hτ
  obtain ⟨p, hp, hperm, hlt, hemp⟩ := mem_undischargedAt.mp hτ
  -- the new tokens are no permission tokens
  have hnew : ∀ d ∈ ds, isPermAt b.permLoc d = false ∧ d.isWellFormed = true := by
    intro d hd
    obtain ⟨hu, hl⟩ := hds d hd
    cases d with
    | unverified s m =>
      simp only [isPermAt_unverified, decide_eq_true_eq] at hl
      exact ⟨by simp [isPermAt_unverified, hl, hloc], rfl⟩
    | nonMac s => simp [Tok.isUnverified] at hu
    | malformed s => simp [Tok.isUnverified] at hu
    | verified s m cs => simp [Tok.isUnverified] at hu
    | failed s m => simp [Tok.isUnverified] at hu
  have hp' : p ∈ b.ts := by
    rcases List.mem_append.mp hp with h | h
    · exact h
    · rw [(hnew p h).1] at hperm; cases hperm
  -- was the ticket undischarged before?
  by_cases hold : dischargesFor b.permLoc b.ts τ = []
  · have hin : τ ∈ b.undischargedTicketsFor loc := mem_undischargedAt.mpr ⟨p, hp', hperm, hlt, hold⟩
    have : some τ ∈ ds.map Tok.kid? := by rw [hk]; exact List.mem_map_of_mem hin
    obtain ⟨d, hd, hkd⟩ := List.mem_map.mp this
    have hdm : d ∈ dischargesFor b.permLoc (b.ts ++ ds) τ :=
      mem_dischargesFor.mpr ⟨List.mem_append_right _ hd, by simp [isDisAt, (hnew d hd).1, (hnew d hd).2], hkd⟩
    rw [hemp] at hdm
    cases hdm
  · obtain ⟨d, hd⟩ := List.exists_mem_of_ne_nil _ hold
    have := dischargesFor_append_left (ds := ds) hd
    rw [hemp] at this
    cases this

/-! ### `Clone` is faithful (where printing and re-parsing can be) -/

/-- a token is what re-parsing its text gives, up to the verification result (`Unverified()`): true of
every parsed token, kept by `Verify`, and true of what `Attenuate` / `Discharge` mint -/
def Stable (t : Tok) : Prop := ofHeaderTok (Header.classifyPart t.str) = t.unverify

theorem stable_parsed (h : Str) : ∀ t ∈ parseToks h, Stable t := by
  intro t ht
  simp only [parseToks, Header.parseToks, List.mem_map] at ht
  obtain ⟨x, ⟨part, _, rfl⟩, rfl⟩ := ht
  simp only [Stable, Header.parseTok, ofHeaderTok_str, Macaroon.Header.classifyPart_str]
  generalize Header.classifyPart (Header.trim part) = y
  cases y with
  | nonMacaroon s => rfl
  | malformedB64 s => rfl
  | macaroonBytes s raw => rcases ofHeaderTok_bytes s raw with h | ⟨m, h⟩ <;> rw [h] <;> rfl

theorem headerOf_eq_decorate (ts : List Tok) (h : ts ≠ []) :
    headerOf ts = Header.decorate Header.flyV1Deco (tokString ts) := by
  cases ts with
  | nil => exact absurd rfl h
  | cons t ts => simp [headerOf, Header.decorate, Header.flyV1Deco, Header.wordsText]

/-- **clone_faithful**: for a bundle whose tokens are stable and whose token texts contain no white
space and no comma, and which does not print as the empty string, `Clone` yields the same tokens in
the same order, each as it was before verification -/
theorem clone_faithful (b : Bundle) (hst : ∀ t ∈ b.ts, Stable t) (hsp : ∀ t ∈ b.ts, Header.NoSpace t.str)
    (hc : ∀ t ∈ b.ts, ',' ∉ t.str) (hne : tokString b.ts ≠ []) :
    b.clone.permLoc = b.permLoc ∧ b.clone.ts = b.ts.map Tok.unverify := by
  refine ⟨rfl, ?_⟩
  have hts : b.ts ≠ [] := by
    intro e
    rw [e] at hne
    exact hne rfl
  have hbody : Header.NoSpace (tokString b.ts) := by
    intro c hcm
    rcases Header.mem_joinWith ',' _ c hcm with h1 | ⟨p, hp, hcp⟩
    · rw [h1]; decide
    · obtain ⟨t, ht, rfl⟩ := List.mem_map.mp hp
      exact hsp t ht c hcp
  have hstrip : (Header.stripScheme b.header).1 = tokString b.ts := by
    simp only [Bundle.header]
    rw [headerOf_eq_decorate b.ts hts, Header.strip_decorate _ Header.flyV1Deco_valid _ hbody hne]
  have hparts : Header.parts b.header = b.ts.map Tok.str := by
    simp only [Header.parts, hstrip, tokString]
    exact Header.splitOn_joinWith ',' _ (by simpa using hts) (fun p hp => by
      obtain ⟨t, ht, rfl⟩ := List.mem_map.mp hp
      exact hc t ht)
  simp only [Bundle.clone, parseToks, Header.parseToks, hparts, List.map_map]
  apply List.map_congr_left
  intro t ht
  simp only [Function.comp, Header.parseTok, Header.trim_of_noSpace (hsp t ht)]
  exact hst t ht

/-! ## The verification cache -/

open Macaroon.Bundle.Cache

def NoComma (s : Str) : Prop := ',' ∉ s

/-- token text never contains the separator of the cache key -/
def Clean (b : Bundle) : Prop := ∀ t ∈ b.ts, NoComma t.str

theorem mem_splitOn_not_mem (c : Char) : ∀ (s p : List Char), p ∈ Header.splitOn c s → c ∉ p
  | [], p, h => by
    simp [Header.splitOn] at h
    subst h
    simp
  | x :: xs, p, h => by
    simp only [Header.splitOn] at h
    by_cases hx : x = c
    · simp only [hx, if_true] at h
      rcases List.mem_cons.mp h with rfl | h'
      · simp
      · exact mem_splitOn_not_mem c xs p h'
    · simp only [hx, if_false] at h
      cases hs : Header.splitOn c xs with
      | nil => exact absurd hs (Header.splitOn_ne_nil c xs)
      | cons q qs =>
        rw [hs] at h
        rcases List.mem_cons.mp h with rfl | h'
        · have hq := mem_splitOn_not_mem c xs q (by rw [hs]; simp)
          intro hm
          rcases List.mem_cons.mp hm with e | e
          · exact hx e.symm
          · exact hq e
        · exact mem_splitOn_not_mem c xs p (by rw [hs]; exact List.mem_cons_of_mem _ h')

theorem mem_trim {x : Char} {s : List Char} (h : x ∈ Header.trim s) : x ∈ s := by
  unfold Header.trim Header.trimRight Header.trimLeft at h
  have h1 := List.mem_reverse.mp h
  have h2 := (List.dropWhile_sublist _).subset h1
  have h3 := List.mem_reverse.mp h2
  exact (List.dropWhile_sublist _).subset h3

theorem parseToks_clean (h : Str) : ∀ t ∈ parseToks h, NoComma t.str := by
  intro t ht
  have : t.str ∈ (parseToks h).map Tok.str := List.mem_map_of_mem ht
  rw [parseToks_str] at this
  obtain ⟨p, hp, hs⟩ := List.mem_map.mp this
  intro hc
  rw [← hs] at hc
  exact mem_splitOn_not_mem ',' _ p hp (mem_trim hc)

theorem macString_clean (bytes : Bytes) : NoComma (macString bytes) := by
  unfold NoComma macString Header.entry
  intro h
  rcases List.mem_append.mp h with h1 | h1
  · exact Header.macaroonLabel_no_comma (l := Header.labelV2) (by decide) h1
  · rcases List.mem_cons.mp h1 with h2 | h2
    · exact absurd h2 (by decide)
    · exact Header.encode_no_comma bytes h2

/-! ### the stable sort by key-id -/

theorem bytes_lt_irrefl : ∀ a : Bytes, Bytes.lt a a = false
  | [] => rfl
  | x :: xs => by simp [Bytes.lt, bytes_lt_irrefl xs]

theorem before_kid_ne {y x : Tok} (h : before .byKid y x = true) : kidOf y ≠ kidOf x := by
  intro e
  simp only [before, e, bytes_lt_irrefl] at h
  exact Bool.false_ne_true h

theorem insertTok_perm (ko : KeyOrder) (x : Tok) : ∀ l : List Tok, (insertTok ko x l).Perm (x :: l)
  | [] => by simp [insertTok]
  | y :: ys => by
    simp only [insertTok]
    split
    · exact ((insertTok_perm ko x ys).cons y).trans (List.Perm.swap x y ys)
    · exact List.Perm.refl _

theorem sortToks_perm (ko : KeyOrder) : ∀ l : List Tok, (sortToks ko l).Perm l
  | [] => by simp [sortToks]
  | x :: xs => by
    simp only [sortToks]
    exact (insertTok_perm ko x _).trans ((sortToks_perm ko xs).cons x)

/-- the candidates for one ticket, in the order given -/
def forKid (k : Bytes) (l : List Tok) : List Tok := l.filter fun t => decide (kidOf t = k)

theorem insertTok_forKid (k : Bytes) (x : Tok) : ∀ l : List Tok,
    forKid k (insertTok .byKid x l) = forKid k (x :: l)
  | [] => rfl
  | y :: ys => by
    simp only [insertTok]
    split
    · rename_i hb
      have hne := before_kid_ne hb
      have ih := insertTok_forKid k x ys
      simp only [forKid, List.filter_cons] at ih ⊢
      rw [ih]
      by_cases hx : kidOf x = k
      · have hy : kidOf y ≠ k := fun e => hne (e.trans hx.symm)
        simp [hx, hy]
      · simp [hx]
    · rfl

/-- **the stable sort keeps, for every ticket, the candidates in the order presented** -/
theorem sortToks_forKid (k : Bytes) : ∀ l : List Tok, forKid k (sortToks .byKid l) = forKid k l
  | [] => rfl
  | x :: xs => by
    simp only [sortToks]
    rw [insertTok_forKid]
    have ih := sortToks_forKid k xs
    simp only [forKid, List.filter_cons] at ih ⊢
    rw [ih]

/-! ### token text determines the macaroon (hence the key-id) -/

/-- what the tokeniser and the codec make of a token's text -/
def macOf (s : Str) : Option M := (ofHeaderTok (Header.classifyPart s)).mac?

/-- the token's macaroon is what its text decodes to under `μ` (`macOf` for the real codec) -/
def Synced (μ : Str → Option M) (t : Tok) : Prop := t.mac? = μ t.str

def kidOfText (μ : Str → Option M) (s : Str) : Bytes := ((μ s).map fun m => m.nonce.kid).getD []

theorem kidOf_synced {μ : Str → Option M} {t : Tok} (h : Synced μ t) : kidOf t = kidOfText μ t.str := by
  unfold Synced at h
  simp only [kidOf, Tok.kid?, kidOfText, h]

theorem parseToks_synced (h : Str) : ∀ t ∈ parseToks h, Synced macOf t := by
  intro t ht
  simp only [parseToks, Header.parseToks, List.mem_map] at ht
  obtain ⟨x, ⟨part, _, rfl⟩, rfl⟩ := ht
  simp only [Synced, macOf, Header.parseTok, ofHeaderTok_str, Macaroon.Header.classifyPart_str]

theorem forKid_map_str {μ : Str → Option M} (k : Bytes) : ∀ l : List Tok, (∀ t ∈ l, Synced μ t) →
    (forKid k l).map Tok.str = (l.map Tok.str).filter fun s => decide (kidOfText μ s = k)
  | [], _ => rfl
  | t :: ts, h => by
    have ht := kidOf_synced (h t (by simp))
    have ih := forKid_map_str (μ := μ) k ts (fun x hx => h x (List.mem_cons_of_mem _ hx))
    simp only [forKid, List.filter_cons, List.map_cons] at ih ⊢
    rw [← ht]
    by_cases hk : kidOf t = k
    · simp [hk, ih]
    · simp [hk, ih]

/-- synced candidate lists whose sorted texts agree have, for every ticket, the same ordered texts -/
theorem perKid_of_sorted {μ : Str → Option M} (ds ds' : List Tok) (h : ∀ t ∈ ds, Synced μ t) (h' : ∀ t ∈ ds', Synced μ t)
    (e : (sortToks .byKid ds).map Tok.str = (sortToks .byKid ds').map Tok.str) (k : Bytes) :
    (forKid k ds).map Tok.str = (forKid k ds').map Tok.str := by
  have s1 : ∀ t ∈ sortToks .byKid ds, Synced μ t := fun t ht => h t ((sortToks_perm _ ds).mem_iff.mp ht)
  have s2 : ∀ t ∈ sortToks .byKid ds', Synced μ t := fun t ht => h' t ((sortToks_perm _ ds').mem_iff.mp ht)
  rw [← sortToks_forKid k ds, ← sortToks_forKid k ds', forKid_map_str k _ s1, forKid_map_str k _ s2, e]

/-! ### the key determines the permission text and the sorted candidate texts -/

/-- **key_injective**: over comma-free text, equal keys mean the same permission text and the same
sequence of candidate texts after sorting -/
theorem key_injective (ko : KeyOrder) (p p' : Tok) (ds ds' : List Tok) (hp : NoComma p.str) (hp' : NoComma p'.str)
    (hd : ∀ d ∈ ds, NoComma d.str) (hd' : ∀ d ∈ ds', NoComma d.str) (h : keyOf ko p ds = keyOf ko p' ds') :
    p.str = p'.str ∧ (sortToks ko ds).map Tok.str = (sortToks ko ds').map Tok.str := by
  unfold keyOf at h
  have c1 : ∀ x ∈ (sortToks ko ds).map Tok.str ++ [p.str], ',' ∉ x := by
    intro x hx
    rcases List.mem_append.mp hx with h1 | h1
    · obtain ⟨t, ht, rfl⟩ := List.mem_map.mp h1
      exact hd t ((sortToks_perm ko ds).mem_iff.mp ht)
    · simp at h1; subst h1; exact hp
  have c2 : ∀ x ∈ (sortToks ko ds').map Tok.str ++ [p'.str], ',' ∉ x := by
    intro x hx
    rcases List.mem_append.mp hx with h1 | h1
    · obtain ⟨t, ht, rfl⟩ := List.mem_map.mp h1
      exact hd' t ((sortToks_perm ko ds').mem_iff.mp ht)
    · simp at h1; subst h1; exact hp'
  have e := congrArg (Header.splitOn ',') h
  rw [Header.splitOn_joinWith ',' _ (by simp) c1, Header.splitOn_joinWith ',' _ (by simp) c2] at e
  have hlen : ((sortToks ko ds).map Tok.str).length = ((sortToks ko ds').map Tok.str).length := by
    have := congrArg List.length e
    simp at this
    simpa using this
  obtain ⟨e1, e2⟩ := List.append_inj e hlen
  exact ⟨by simpa using e2, e1⟩

/-! ### cleanliness is kept by every operation of a history -/

theorem clean_of_sublist {pl pl' : Bytes} {ts ts' : List Tok} (h : ts'.Sublist ts) (c : Clean ⟨pl, ts⟩) : Clean ⟨pl', ts'⟩ :=
  fun t ht => c t (h.subset ht)

theorem clean_parseWith (pl : Bytes) (h : Str) (f : Filter) : Clean (Bundle.parseWith pl h f).1 :=
  fun t ht => parseToks_clean h t (applyMask_mem ht)

theorem clean_filter (b : Bundle) (f : Filter) (c : Clean b) : Clean (b.filter f) :=
  clean_of_sublist (applyMask_sublist _ _) c

theorem clean_verifyBy (b : Bundle) (o : Bundle.Oracle) (c : Clean b) : Clean (b.verifyBy o) := by
  intro t' ht'
  simp only [Bundle.verifyBy, Bundle.verifyTs, List.mem_map] at ht'
  obtain ⟨t, ht, rfl⟩ := ht'
  split
  · rw [verdict_str]; exact c t ht
  · exact c t ht

theorem attTok_clean (items : List (AddItem Bytes)) (t t' : Tok) (h : Bundle.attTok items t = some t')
    (c : NoComma t.str) : NoComma t'.str := by
  cases t with
  | nonMac s => simp [Bundle.attTok] at h; subst h; exact c
  | malformed s => simp [Bundle.attTok] at h; subst h; exact c
  | unverified s m =>
    simp only [Bundle.attTok, Option.map_eq_some_iff] at h
    obtain ⟨⟨s', m', added⟩, hr, rfl⟩ := h
    obtain ⟨_, bytes, _, _, _, rfl, _, _⟩ := attMac_spec items m s' m' added hr
    exact macString_clean bytes
  | verified s m cs =>
    simp only [Bundle.attTok, Option.map_eq_some_iff] at h
    obtain ⟨⟨s', m', added⟩, hr, rfl⟩ := h
    obtain ⟨_, bytes, _, _, _, rfl, _, _⟩ := attMac_spec items m s' m' added hr
    exact macString_clean bytes
  | failed s m =>
    simp only [Bundle.attTok, Option.map_eq_some_iff] at h
    obtain ⟨⟨s', m', added⟩, hr, rfl⟩ := h
    obtain ⟨_, bytes, _, _, _, rfl, _, _⟩ := attMac_spec items m s' m' added hr
    exact macString_clean bytes

theorem mem_of_map_eq_map_some {α β : Type} {f : α → Option β} : ∀ {l : List α} {r : List β}, l.map f = r.map some →
    ∀ y ∈ r, ∃ x ∈ l, f x = some y
  | [], [], _, y, hy => by cases hy
  | [], _ :: _, h, _, _ => by simp at h
  | _ :: _, [], h, _, _ => by simp at h
  | a :: as, b :: bs, h, y, hy => by
    simp only [List.map_cons, List.cons.injEq] at h
    rcases List.mem_cons.mp hy with rfl | hy'
    · exact ⟨a, by simp, h.1⟩
    · obtain ⟨x, hx, hfx⟩ := mem_of_map_eq_map_some h.2 y hy'
      exact ⟨x, List.mem_cons_of_mem _ hx, hfx⟩

theorem clean_attenuate (b : Bundle) (items : List (AddItem Bytes)) (c : Clean b) : Clean (b.attenuate items).1 := by
  by_cases he : (b.attenuate items).2 = true
  · rw [attenuate_err b items he]; exact c
  · have he' : (b.attenuate items).2 = false := by simpa using he
    obtain ⟨_, hmap⟩ := attenuate_ok b items he'
    intro t' ht'
    obtain ⟨t, ht, hft⟩ := mem_of_map_eq_map_some hmap t' ht'
    split at hft
    · exact attTok_clean items t t' hft (c t ht)
    · simp only [Option.some.injEq] at hft; subst hft; exact c t ht

theorem dischargeOne_clean {loc ka : Bytes} {cb : Bundle.Discharger} {ticket rnd : Bytes} {d : Tok}
    (h : Bundle.dischargeOne loc ka cb ticket rnd = some d) : NoComma d.str := by
  unfold Bundle.dischargeOne at h
  split at h
  · simp at h
  · split at h
    · simp at h
    · split at h
      · simp at h
      · split at h
        · simp at h
        · rename_i dm'' bytes _
          have hrb : readsBack bytes dm'' = true := by
            cases hq : readsBack bytes dm'' with
            | true => rfl
            | false => simp [hq] at h
          simp only [hrb, if_true] at h
          simp only [Option.some.injEq] at h
          subst h
          exact macString_clean bytes

theorem clean_dischargeWith (sc : Bundle.DischargeScope) (b : Bundle) (loc ka : Bytes) (cb : Bundle.Discharger)
    (rnds : List Bytes) (c : Clean b) : Clean (Bundle.dischargeWith sc b loc ka cb rnds).1 := by
  by_cases he : (Bundle.dischargeWith sc b loc ka cb rnds).2 = true
  · have h1 : (Bundle.dischargeWith sc b loc ka cb rnds).fst = b :=
      dischargeWith_err sc b loc ka cb rnds _ (Prod.ext rfl he)
    rw [h1]; exact c
  · have he' : (Bundle.dischargeWith sc b loc ka cb rnds).2 = false := by simpa using he
    obtain ⟨ds, hds, hb'⟩ := dischargeWith_ok sc b loc ka cb rnds _ (Prod.ext rfl he')
    have hb'' : (Bundle.dischargeWith sc b loc ka cb rnds).fst = { b with ts := b.ts ++ ds } := hb'
    rw [hb'']
    intro t ht
    rcases List.mem_append.mp ht with h1 | h1
    · exact c t h1
    · obtain ⟨tr, _, htr⟩ := mem_of_map_eq_map_some ((mapM_some_iff _ _ _).mp hds) t h1
      exact dischargeOne_clean htr

/-! ### text/macaroon agreement is kept by every operation of a history -/

def SyncedB (μ : Str → Option M) (b : Bundle) : Prop := ∀ t ∈ b.ts, Synced μ t

/-- the codec fact that minting relies on: the text `Attenuate` / `Discharge` print for a new token
decodes (under `μ`) to the token they store — the round trip `decode_encode_mac` of C11 for `macOf` -/
structure MintSynced (μ : Str → Option M) : Prop where
  att : ∀ items m s' m' added, Bundle.attMac items m = some (s', m', added) → μ s' = some m'
  dis : ∀ loc ka cb ticket rnd d, Bundle.dischargeOne loc ka cb ticket rnd = some d → Synced μ d

theorem synced_parseWith (pl : Bytes) (h : Str) (f : Filter) : SyncedB macOf (Bundle.parseWith pl h f).1 :=
  fun t ht => parseToks_synced h t (applyMask_mem ht)

theorem synced_filter {μ : Str → Option M} (b : Bundle) (f : Filter) (c : SyncedB μ b) : SyncedB μ (b.filter f) :=
  fun t ht => c t ((applyMask_sublist _ _).subset ht)

theorem synced_verifyBy {μ : Str → Option M} (b : Bundle) (o : Bundle.Oracle) (c : SyncedB μ b) : SyncedB μ (b.verifyBy o) := by
  intro t' ht'
  simp only [Bundle.verifyBy, Bundle.verifyTs, List.mem_map] at ht'
  obtain ⟨t, ht, rfl⟩ := ht'
  split
  · simp only [Synced, verdict_mac?, verdict_str]; exact c t ht
  · exact c t ht

theorem attTok_synced {μ : Str → Option M} (hm : MintSynced μ) (items : List (AddItem Bytes)) (t t' : Tok)
    (h : Bundle.attTok items t = some t') (c : Synced μ t) : Synced μ t' := by
  cases t with
  | nonMac s => simp [Bundle.attTok] at h; subst h; exact c
  | malformed s => simp [Bundle.attTok] at h; subst h; exact c
  | unverified s m =>
    simp only [Bundle.attTok, Option.map_eq_some_iff] at h
    obtain ⟨⟨s', m', added⟩, hr, rfl⟩ := h
    simp [Synced, Tok.mac?, Tok.str, hm.att items m s' m' added hr]
  | verified s m cs =>
    simp only [Bundle.attTok, Option.map_eq_some_iff] at h
    obtain ⟨⟨s', m', added⟩, hr, rfl⟩ := h
    simp [Synced, Tok.mac?, Tok.str, hm.att items m s' m' added hr]
  | failed s m =>
    simp only [Bundle.attTok, Option.map_eq_some_iff] at h
    obtain ⟨⟨s', m', added⟩, hr, rfl⟩ := h
    simp [Synced, Tok.mac?, Tok.str, hm.att items m s' m' added hr]

theorem synced_attenuate {μ : Str → Option M} (hm : MintSynced μ) (b : Bundle) (items : List (AddItem Bytes))
    (c : SyncedB μ b) : SyncedB μ (b.attenuate items).1 := by
  by_cases he : (b.attenuate items).2 = true
  · rw [attenuate_err b items he]; exact c
  · have he' : (b.attenuate items).2 = false := by simpa using he
    obtain ⟨_, hmap⟩ := attenuate_ok b items he'
    intro t' ht'
    obtain ⟨t, ht, hft⟩ := mem_of_map_eq_map_some hmap t' ht'
    split at hft
    · exact attTok_synced hm items t t' hft (c t ht)
    · simp only [Option.some.injEq] at hft; subst hft; exact c t ht

theorem synced_dischargeWith {μ : Str → Option M} (hm : MintSynced μ) (sc : Bundle.DischargeScope) (b : Bundle)
    (loc ka : Bytes) (cb : Bundle.Discharger) (rnds : List Bytes) (c : SyncedB μ b) :
    SyncedB μ (Bundle.dischargeWith sc b loc ka cb rnds).1 := by
  by_cases he : (Bundle.dischargeWith sc b loc ka cb rnds).2 = true
  · have h1 : (Bundle.dischargeWith sc b loc ka cb rnds).fst = b :=
      dischargeWith_err sc b loc ka cb rnds _ (Prod.ext rfl he)
    rw [h1]; exact c
  · have he' : (Bundle.dischargeWith sc b loc ka cb rnds).2 = false := by simpa using he
    obtain ⟨ds, hds, hb'⟩ := dischargeWith_ok sc b loc ka cb rnds _ (Prod.ext rfl he')
    have hb'' : (Bundle.dischargeWith sc b loc ka cb rnds).fst = { b with ts := b.ts ++ ds } := hb'
    rw [hb'']
    intro t ht
    rcases List.mem_append.mp ht with h1 | h1
    · exact c t h1
    · obtain ⟨tr, _, htr⟩ := mem_of_map_eq_map_some ((mapM_some_iff _ _ _).mp hds) t h1
      exact hm.dis _ _ _ _ _ _ htr

/-- the text minted for a token decodes, as far as the tokeniser and base64 go, to the bytes that were
printed: `macOf` of it is `Concrete.decode` of those bytes -/
theorem macOf_macString (bytes : Bytes) : macOf (macString bytes) = Concrete.decode bytes := by
  have hc : Header.classifyPart (macString bytes) = .macaroonBytes (macString bytes) bytes := by
    unfold Header.classifyPart macString Header.entry
    rw [Header.cut_append '_' Header.labelV2 _ (Header.macaroonLabel_no_sep (by decide))]
    simp only [Macaroon.Base64.decode_encode]
    rfl
  unfold macOf
  rw [hc]
  simp only [ofHeaderTok]
  cases Concrete.decode bytes <;> rfl

theorem dischargeOne_spec {loc ka : Bytes} {cb : Bundle.Discharger} {ticket rnd : Bytes} {d : Tok}
    (h : Bundle.dischargeOne loc ka cb ticket rnd = some d) :
    ∃ dm' dm'' bytes, Concrete.encode dm' = (dm'', some bytes) ∧ d = .unverified (macString bytes) dm'' ∧
      Concrete.decode bytes = some dm'' := by
  unfold Bundle.dischargeOne at h
  split at h
  · simp at h
  · split at h
    · simp at h
    · split at h
      · simp at h
      · rename_i dm' _
        split at h
        · simp at h
        · rename_i dm'' bytes henc
          have hrb : readsBack bytes dm'' = true := by
            cases hq : readsBack bytes dm'' with
            | true => rfl
            | false => simp [hq] at h
          simp only [hrb, if_true] at h
          simp only [Option.some.injEq] at h
          exact ⟨dm', dm'', bytes, henc, h.symm, by simpa [readsBack] using hrb⟩

/-- **minted tokens are synced**: `Attenuate` and `Discharge` (as modelled: defined where the printed
text reads back as the stored token, `readsBack`) only ever put tokens into a bundle whose macaroon
is what their text decodes to -/
theorem mintSynced_macOf : MintSynced macOf := by
  constructor
  · intro items m s' m' added hr
    obtain ⟨c, bytes, _, _, _, rfl, _, hdec⟩ := attMac_spec items m s' m' added hr
    rw [macOf_macString]
    exact hdec
  · intro loc ka cb ticket rnd d hd
    obtain ⟨dm', dm'', bytes, _, rfl, hdec⟩ := dischargeOne_spec hd
    simp only [Synced, Tok.mac?, Tok.str, macOf_macString]
    exact hdec.symm

/-! ### why minting is guarded by `readsBack`: a caller-supplied value need not be canonical -/

/-- a token whose only caveat is a resource set written in the order `b, a` … -/
def unsortedTok : M :=
  { nonce := ⟨[1], [2], 1, false⟩, loc := [65], cavs := [.volumes [([98], 1), ([97], 1)]], tail := [9], newProof := false }
/-- … and the same token with the set in the order the decoder produces -/
def sortedTok : M := { unsortedTok with cavs := [.volumes [([97], 1), ([98], 1)]] }

theorem sortedTok_wf : WFMac (Concrete.toWire sortedTok) := ⟨by decide, by decide, ⟨by decide, by decide⟩, by decide⟩

/-- the two print the same text (the encoder sorts), that text reads back as the SORTED one, and they
are different values: so without the guard two attenuations (with `[("b",1),("a",1)]` and with
`[("a",1),("b",1)]`) would store different macaroons under one text, and "the macaroon is what the
text decodes to" could hold for no decoder -/
theorem unsorted_resource_set_does_not_read_back :
    (Concrete.encode unsortedTok).2 = (Concrete.encode sortedTok).2 ∧
    (Concrete.encode unsortedTok).2.bind Concrete.decode = some sortedTok ∧
    unsortedTok ≠ sortedTok ∧
    (∀ bytes, (Concrete.encode unsortedTok).2 = some bytes → readsBack bytes unsortedTok = false ∧ readsBack bytes sortedTok = true) ∧
    (∀ (μ : Str → Option M) (s : Str), ¬ (Synced μ (.unverified s unsortedTok) ∧ Synced μ (.unverified s sortedTok))) := by
  have t1 : (Concrete.encode unsortedTok).2 = (Concrete.encode sortedTok).2 := by decide
  have t3 : unsortedTok ≠ sortedTok := by decide
  have t2 : (Concrete.encode sortedTok).2.bind Concrete.decode = some sortedTok := by
    have h := Macaroon.decode_encode_mac (Concrete.toWire sortedTok) defaultFuel [] sortedTok_wf (by decide)
    simp only [List.append_nil] at h
    have he : (Concrete.encode sortedTok).2 = some (encMac (Concrete.toWire sortedTok)) := by decide
    rw [he]
    simp only [Option.bind_some, Concrete.decode, h, Option.map_some]
    rfl
  have t2' : (Concrete.encode unsortedTok).2.bind Concrete.decode = some sortedTok := by rw [t1]; exact t2
  refine ⟨t1, t2', t3, ?_, ?_⟩
  · intro bytes hb
    have hd : Concrete.decode bytes = some sortedTok := by
      rw [hb] at t2'
      simpa using t2'
    constructor
    · simp only [readsBack, hd, decide_eq_false_iff_not, Option.some.injEq]
      exact fun e => t3 e.symm
    · simp [readsBack, hd]
  · intro μ s ⟨h1, h2⟩
    simp only [Synced, Tok.mac?, Tok.str] at h1 h2
    exact t3 (Option.some.inj (h1.trans h2.symm))

/-! ### transparency of one cached verification -/

/-- **the hypothesis on the underlying verifier**: its answer depends only on the permission token's
text and, for each ticket (key-id), the ORDERED list of the texts of the candidates carrying it —
on tokens whose macaroon is what their text decodes to.  True of the key resolver
(`resolver_perKidFun`): for each ticket the first acceptable candidate in the order presented wins,
and candidates for different tickets do not interact. -/
def PerKidFun (μ : Str → Option M) (V : Bundle.Oracle) : Prop :=
  ∀ p p' ds ds', Synced μ p → Synced μ p' → (∀ d ∈ ds, Synced μ d) → (∀ d ∈ ds', Synced μ d) → p.str = p'.str →
    (∀ k, (forKid k ds).map Tok.str = (forKid k ds').map Tok.str) → V p ds = V p' ds'

/-- an entry is right: whatever is looked up under its key, the verifier's answer is the stored one -/
def EntryOK (μ : Str → Option M) (V : Bundle.Oracle) (e : Entry) : Prop :=
  ∀ p ds, NoComma p.str → (∀ d ∈ ds, NoComma d.str) → Synced μ p → (∀ d ∈ ds, Synced μ d) →
    keyOf .byKid p ds = e.key → V p ds = some e.cs

def Sound (μ : Str → Option M) (V : Bundle.Oracle) (c : Store) : Prop := ∀ e ∈ c, EntryOK μ V e

theorem hit_some {c : Store} {now : Int} {k : Str} {cs : CS} (h : c.hit now k = some cs) :
    ∃ e ∈ c, e.key = k ∧ e.cs = cs ∧ now < e.expiry := by
  unfold Store.hit Store.get at h
  split at h
  · rename_i e he
    split at h
    · rename_i hlt
      simp only [Option.some.injEq] at h
      have hp := List.find?_some he
      exact ⟨e, List.mem_of_find?_eq_some he, by simpa using hp, h, hlt⟩
    · simp at h
  · simp at h

theorem sound_add {μ : Str → Option M} {V : Bundle.Oracle} {c : Store} {e : Entry} (hc : Sound μ V c) (he : EntryOK μ V e) :
    Sound μ V (c.add e) := by
  intro x hx
  rcases List.mem_append.mp hx with h1 | h1
  · exact hc x (List.mem_filter.mp h1).1
  · simp at h1; subst h1; exact he

theorem sound_foldl_add {μ : Str → Option M} {V : Bundle.Oracle} : ∀ (es : List Entry) (c : Store), Sound μ V c →
    (∀ e ∈ es, EntryOK μ V e) → Sound μ V (es.foldl Store.add c)
  | [], c, hc, _ => hc
  | e :: es, c, hc, hes => by
    simp only [List.foldl_cons]
    exact sound_foldl_add es _ (sound_add hc (hes e (by simp))) (fun x hx => hes x (List.mem_cons_of_mem _ hx))

theorem sound_evict {μ : Str → Option M} {V : Bundle.Oracle} {c : Store} (k : Str) (hc : Sound μ V c) : Sound μ V (c.evict k) :=
  fun e he => hc e (List.mem_filter.mp he).1

theorem mem_dischargesOf {pl : Bytes} {ts : List Tok} {t d : Tok} (h : d ∈ dischargesOf pl ts t) : d ∈ ts := by
  simp only [dischargesOf, List.mem_flatMap] at h
  obtain ⟨lt, _, hd⟩ := h
  exact (mem_dischargesFor.mp hd).1

/-- handing the verifier the stably sorted candidates changes nothing -/
theorem sorted_same {μ : Str → Option M} (V : Bundle.Oracle) (hV : PerKidFun μ V) (p : Tok) (ds : List Tok)
    (hp : Synced μ p) (hd : ∀ d ∈ ds, Synced μ d) : V p (sortToks .byKid ds) = V p ds :=
  hV p p _ _ hp hp (fun d h => hd d ((sortToks_perm _ ds).mem_iff.mp h)) hd rfl (fun k => by rw [sortToks_forKid])

/-- on clean, synced text and a sound store the caching verifier answers what the verifier answers -/
theorem cachedOracle_eq {μ : Str → Option M} (V : Bundle.Oracle) (hV : PerKidFun μ V) (c : Store) (hc : Sound μ V c) (now : Int)
    (p : Tok) (ds : List Tok) (hp : NoComma p.str) (hd : ∀ d ∈ ds, NoComma d.str) (sp : Synced μ p)
    (sd : ∀ d ∈ ds, Synced μ d) : cachedOracle .byKid V c now p ds = V p ds := by
  unfold cachedOracle
  split
  · rename_i cs hh
    obtain ⟨e, he, hk, hcs, _⟩ := hit_some hh
    rw [hc e he p ds hp hd sp sd hk.symm, hcs]
  · exact sorted_same V hV p ds sp sd

theorem verifyTs_congr (pl : Bytes) (o o' : Bundle.Oracle) (ts : List Tok)
    (h : ∀ t ∈ ts, isPermAt pl t = true → o t (dischargesOf pl ts t) = o' t (dischargesOf pl ts t)) :
    Bundle.verifyTs pl o ts = Bundle.verifyTs pl o' ts := by
  unfold Bundle.verifyTs
  apply List.map_congr_left
  intro t ht
  by_cases hp : isPermAt pl t = true
  · simp [hp, h t ht hp]
  · simp [hp]

/-- **one cached verification is the direct one** -/
theorem verifyCached_fst {μ : Str → Option M} (V : Bundle.Oracle) (hV : PerKidFun μ V) (c : Store) (hc : Sound μ V c)
    (now ttl : Int) (b : Bundle) (hb : Clean b) (sb : SyncedB μ b) :
    (verifyCached .byKid V c now ttl b).1 = b.verifyBy V := by
  simp only [verifyCached, Bundle.verifyBy]
  congr 1
  apply verifyTs_congr
  intro t ht _
  exact cachedOracle_eq V hV c hc now t _ (hb t ht) (fun d hd => hb d (mem_dischargesOf hd)) (sb t ht)
    (fun d hd => sb d (mem_dischargesOf hd))

theorem mem_queries {b : Bundle} {q : Tok × List Tok} (h : q ∈ queries b) :
    q.1 ∈ b.ts ∧ ∀ d ∈ q.2, d ∈ b.ts := by
  simp only [queries, List.mem_map, List.mem_filter] at h
  obtain ⟨p, ⟨hp, _⟩, rfl⟩ := h
  exact ⟨hp, fun d hd => mem_dischargesOf hd⟩

/-- what a cached verification stores: only acceptances by the underlying verifier, under the key
of the query, expiring `ttl` after now -/
theorem mem_newEntries {ko : KeyOrder} {V : Bundle.Oracle} {c : Store} {now ttl : Int} {qs : List (Tok × List Tok)} {e : Entry}
    (h : e ∈ newEntries ko V c now ttl qs) :
    ∃ q ∈ qs, c.hit now (keyOf ko q.1 q.2) = none ∧ V q.1 (sortToks ko q.2) = some e.cs ∧ e.key = keyOf ko q.1 q.2 ∧
      e.expiry = now + ttl := by
  simp only [newEntries, List.mem_filterMap] at h
  obtain ⟨q, hq, hq'⟩ := h
  split at hq'
  · simp at hq'
  · rename_i hmiss
    split at hq'
    · rename_i cs hv
      simp only [Option.some.injEq] at hq'
      subst hq'
      exact ⟨q, hq, hmiss, hv, rfl, rfl⟩
    · simp at hq'

/-- … and the store stays sound -/
theorem verifyCached_sound {μ : Str → Option M} (V : Bundle.Oracle) (hV : PerKidFun μ V) (c : Store) (hc : Sound μ V c)
    (now ttl : Int) (b : Bundle) (hb : Clean b) (sb : SyncedB μ b) : Sound μ V (verifyCached .byKid V c now ttl b).2 := by
  simp only [verifyCached]
  apply sound_foldl_add _ _ hc
  intro e he
  obtain ⟨q, hq, _, hv, hk, _⟩ := mem_newEntries he
  obtain ⟨hq1, hq2⟩ := mem_queries hq
  intro p ds hp hd sp sd hkey
  rw [hk] at hkey
  have sq : ∀ d ∈ q.2, Synced μ d := fun d hd' => sb d (hq2 d hd')
  obtain ⟨e1, e2⟩ := key_injective .byKid p q.1 ds q.2 hp (hb _ hq1) hd (fun d hd' => hb d (hq2 d hd')) hkey
  rw [← hv, sorted_same V hV q.1 q.2 (sb _ hq1) sq]
  exact hV p q.1 ds q.2 sp (sb _ hq1) sd sq e1 (perKid_of_sorted ds q.2 sd sq e2)

/-! ### the key resolver satisfies the hypothesis -/

theorem filterMap_mac_filter (τ : Bytes) : ∀ l : List Tok,
    (l.filterMap Tok.mac?).filter (fun m => Crypto.kidEq m.nonce.kid τ) = (forKid τ l).filterMap Tok.mac?
  | [] => rfl
  | t :: ts => by
    have ih := filterMap_mac_filter τ ts
    simp only [forKid, List.filter_cons, List.filterMap_cons] at ih ⊢
    cases hm : t.mac? with
    | none =>
      by_cases hk : kidOf t = τ
      · simp [hk, hm, ih]
      · simp [hk, ih]
    | some m =>
      have hkid : kidOf t = m.nonce.kid := by simp [kidOf, Tok.kid?, hm]
      have ih' : List.filter (fun m => m.nonce.kid == τ) (List.filterMap Tok.mac? ts) =
          List.filterMap Tok.mac? (List.filter (fun t => decide (kidOf t = τ)) ts) := by
        simpa [Crypto.kidEq] using ih
      by_cases hk : m.nonce.kid = τ
      · simp [List.filter_cons, hkid, hk, hm, Crypto.kidEq, ih']
      · simp [List.filter_cons, hkid, hk, Crypto.kidEq, ih']

theorem filterMap_mac_synced {μ : Str → Option M} : ∀ l : List Tok, (∀ t ∈ l, Synced μ t) →
    l.filterMap Tok.mac? = (l.map Tok.str).filterMap μ
  | [], _ => rfl
  | t :: ts, h => by
    have ht : t.mac? = μ t.str := h t (by simp)
    simp only [List.filterMap_cons, List.map_cons, ht,
      filterMap_mac_synced ts (fun x hx => h x (List.mem_cons_of_mem _ hx))]

theorem forKid_sub {k : Bytes} {l : List Tok} {t : Tok} (h : t ∈ forKid k l) : t ∈ l := (List.mem_filter.mp h).1

/-- **the key resolver depends on the candidates only through, per ticket, their ordered texts**
(`PerKidFun` is discharged for `KeyResolver`, for every decoder `μ`): `verify` looks candidates up
by ticket (`byTicket`), tries them in the order presented, and never mixes tickets -/
theorem resolver_perKidFun (R : Bundle.Resolver) (μ : Str → Option M) : PerKidFun μ R.oracle := by
  intro p p' ds ds' sp sp' sd sd' hstr hk
  have hmac : p.mac? = p'.mac? := by rw [sp, sp', hstr]
  have hby : ∀ τ, byTicket (ds.filterMap Tok.mac?) τ = byTicket (ds'.filterMap Tok.mac?) τ := by
    intro τ
    unfold byTicket
    rw [filterMap_mac_filter τ ds, filterMap_mac_filter τ ds',
      filterMap_mac_synced _ (fun t ht => sd t (forKid_sub ht)),
      filterMap_mac_synced _ (fun t ht => sd' t (forKid_sub ht)), hk τ]
  unfold Bundle.Resolver.oracle
  rw [← hmac]
  cases p.mac? with
  | none => rfl
  | some m =>
    simp only [Bundle.Resolver.verifyMac]
    cases R.key m.nonce.kid with
    | none => rfl
    | some key =>
      simp only
      rw [verify_byTicket_congr key m _ _ R.trusted (fun _ _ ticket _ => hby ticket)]

/-! ### the defect this replaced: a text-sorted key in front of an order-sensitive verifier -/

/-- with the candidates sorted by TEXT (the code as found) even a cold cache changes the answer:
the inner verifier is handed `[d₂, d₁]` although the bundle presents `[d₁, d₂]`; whenever the
verifier tells these apart (two acceptable discharges for one ticket imposing different caveats: the
first one wins) the cached verification differs from the direct one -/
theorem text_sorted_key_not_transparent (V : Bundle.Oracle) (now : Int) (p d₁ d₂ : Tok)
    (hlt : strLt d₂.str d₁.str = true) (hV : V p [d₂, d₁] ≠ V p [d₁, d₂]) :
    cachedOracle .byText V [] now p [d₁, d₂] ≠ V p [d₁, d₂] := by
  simp only [cachedOracle, Store.hit, Store.get, List.find?_nil, sortToks, insertTok, before, hlt, if_true]
  exact hV

/-- … whereas the stable sort by key-id leaves two candidates for one ticket in the order presented -/
theorem kid_sorted_keeps_candidates (d₁ d₂ : Tok) (h : kidOf d₁ = kidOf d₂) : sortToks .byKid [d₁, d₂] = [d₁, d₂] := by
  simp [sortToks, insertTok, before, h, bytes_lt_irrefl]

/-! ### histories -/

def AllClean (s : Sys) : Prop := ∀ b ∈ s.bundles, Clean b
def AllSynced (μ : Str → Option M) (s : Sys) : Prop := ∀ b ∈ s.bundles, SyncedB μ b

/-- the invariant of a run through the cache: all token text is comma-free and decodes to the token's
macaroon, every stored entry is right -/
def Inv (μ : Str → Option M) (V : Bundle.Oracle) (s : Sys) : Prop := AllClean s ∧ AllSynced μ s ∧ Sound μ V s.store

theorem clean_empty : Clean emptyBundle := fun t ht => by cases ht

theorem clean_get {s : Sys} (h : AllClean s) (i : Nat) : Clean (s.get i) := by
  unfold Sys.get
  rw [List.getD_eq_getElem?_getD]
  cases hi : s.bundles[i]? with
  | none => exact clean_empty
  | some b => exact h b (List.mem_of_getElem? hi)

theorem synced_get {μ : Str → Option M} {s : Sys} (h : AllSynced μ s) (i : Nat) : SyncedB μ (s.get i) := by
  unfold Sys.get
  rw [List.getD_eq_getElem?_getD]
  cases hi : s.bundles[i]? with
  | none => exact fun t ht => by cases ht
  | some b => exact h b (List.mem_of_getElem? hi)

theorem allClean_set {s : Sys} (h : AllClean s) (i : Nat) (b : Bundle) (hb : Clean b) : AllClean (s.set i b) := by
  intro x hx
  rcases List.mem_or_eq_of_mem_set hx with h1 | h1
  · exact h x h1
  · subst h1; exact hb

theorem allSynced_set {μ : Str → Option M} {s : Sys} (h : AllSynced μ s) (i : Nat) (b : Bundle) (hb : SyncedB μ b) :
    AllSynced μ (s.set i b) := by
  intro x hx
  rcases List.mem_or_eq_of_mem_set hx with h1 | h1
  · exact h x h1
  · subst h1; exact hb

theorem get_congr {s s' : Sys} (hb : s.bundles = s'.bundles) (i : Nat) : s.get i = s'.get i := by
  unfold Sys.get; rw [hb]

/-- a step that does not go through the cache looks at the bundles only -/
theorem step_direct_bundles (P : Params) (now : Int) (s s' : Sys) (hb : s.bundles = s'.bundles) (op : Op) :
    (step P now s op.direct).2 = (step P now s' op.direct).2 ∧
    (step P now s op.direct).1.bundles = (step P now s' op.direct).1.bundles := by
  obtain ⟨bs, st⟩ := s
  obtain ⟨bs', st'⟩ := s'
  simp only at hb
  subst hb
  cases op with
  | verify i mode => cases mode <;> exact ⟨rfl, rfl⟩
  | validate i rs => exact ⟨rfl, rfl⟩
  | attenuate i items => exact ⟨rfl, rfl⟩
  | discharge i loc ka cb rnds => exact ⟨rfl, rfl⟩
  | filter i f => exact ⟨rfl, rfl⟩
  | header i => exact ⟨rfl, rfl⟩
  | tick => exact ⟨rfl, rfl⟩
  | evict k => exact ⟨rfl, rfl⟩

/-- one step through the cache and the same step done directly, from the same state: same return
value, same bundles afterwards, and the invariant is kept -/
theorem step_cached_vs_direct {μ : Str → Option M} (P : Params) (hO : P.order = .byKid) (hV : PerKidFun μ P.V)
    (hm : MintSynced μ) (now : Int) (s : Sys) (hinv : Inv μ P.V s) (op : Op) :
    (step P now s op).2 = (step P now s op.direct).2 ∧
    (step P now s op).1.bundles = (step P now s op.direct).1.bundles ∧
    Inv μ P.V (step P now s op).1 := by
  obtain ⟨hcl, hsy, hso⟩ := hinv
  cases op with
  | verify i mode =>
    cases mode with
    | direct =>
      exact ⟨rfl, rfl, allClean_set hcl i _ (clean_verifyBy _ _ (clean_get hcl i)),
        allSynced_set hsy i _ (synced_verifyBy _ _ (synced_get hsy i)), hso⟩
    | cached =>
      have h1 := verifyCached_fst P.V hV s.store hso now P.ttl (s.get i) (clean_get hcl i) (synced_get hsy i)
      have h2 := verifyCached_sound P.V hV s.store hso now P.ttl (s.get i) (clean_get hcl i) (synced_get hsy i)
      simp only [step, Op.direct, Sys.set, hO]
      rw [h1]
      exact ⟨rfl, rfl, allClean_set hcl i _ (clean_verifyBy _ _ (clean_get hcl i)),
        allSynced_set hsy i _ (synced_verifyBy _ _ (synced_get hsy i)), h2⟩
  | validate i rs => exact ⟨rfl, rfl, hcl, hsy, hso⟩
  | attenuate i items =>
    exact ⟨rfl, rfl, allClean_set hcl i _ (clean_attenuate _ _ (clean_get hcl i)),
      allSynced_set hsy i _ (synced_attenuate hm _ _ (synced_get hsy i)), hso⟩
  | discharge i loc ka cb rnds =>
    exact ⟨rfl, rfl, allClean_set hcl i _ (clean_dischargeWith _ _ _ _ _ _ (clean_get hcl i)),
      allSynced_set hsy i _ (synced_dischargeWith hm _ _ _ _ _ _ (synced_get hsy i)), hso⟩
  | filter i f =>
    exact ⟨rfl, rfl, allClean_set hcl i _ (clean_filter _ _ (clean_get hcl i)),
      allSynced_set hsy i _ (synced_filter _ _ (synced_get hsy i)), hso⟩
  | header i => exact ⟨rfl, rfl, hcl, hsy, hso⟩
  | tick => exact ⟨rfl, rfl, hcl, hsy, hso⟩
  | evict k => exact ⟨rfl, rfl, hcl, hsy, sound_evict k hso⟩

theorem step_transparent {μ : Str → Option M} (P : Params) (hO : P.order = .byKid) (hV : PerKidFun μ P.V)
    (hm : MintSynced μ) (now : Int) (s s' : Sys) (hb : s.bundles = s'.bundles) (hinv : Inv μ P.V s) (op : Op) :
    (step P now s op).2 = (step P now s' op.direct).2 ∧
    (step P now s op).1.bundles = (step P now s' op.direct).1.bundles ∧
    Inv μ P.V (step P now s op).1 := by
  obtain ⟨a1, a2, a3⟩ := step_cached_vs_direct P hO hV hm now s hinv op
  obtain ⟨b1, b2⟩ := step_direct_bundles P now s s' hb op
  exact ⟨a1.trans b1, a2.trans b2, a3⟩

/-- **cache_transparent** on runs: the trace (return value of every step and the state of every
bundle after it) of a history is the trace of the same history with every verification done directly -/
theorem run_transparent {μ : Str → Option M} (P : Params) (hO : P.order = .byKid) (hV : PerKidFun μ P.V)
    (hm : MintSynced μ) : ∀ (hist : List (Int × Op)) (s s' : Sys),
    s.bundles = s'.bundles → Inv μ P.V s →
    run P hist s = run P (hist.map fun x => (x.1, x.2.direct)) s'
  | [], _, _, _, _ => rfl
  | (now, op) :: rest, s, s', hb, hinv => by
    obtain ⟨h1, h2, h3⟩ := step_transparent P hO hV hm now s s' hb hinv op
    simp only [run, List.map_cons]
    rw [h1, h2, run_transparent P hO hV hm rest _ _ h2 h3]

theorem inv_init (V : Bundle.Oracle) (pl : Bytes) (hdrs : List Str) : Inv macOf V (init pl hdrs) := by
  refine ⟨?_, ?_, fun e he => by cases he⟩
  · intro b hb
    simp only [init, List.mem_map] at hb
    obtain ⟨h, _, rfl⟩ := hb
    exact clean_parseWith pl h .default
  · intro b hb
    simp only [init, List.mem_map] at hb
    obtain ⟨h, _, rfl⟩ := hb
    exact synced_parseWith pl h .default

/-! ### a hit does not extend an entry's life -/

theorem find?_filter_ne (k ek : Str) (h : k ≠ ek) : ∀ c : Store,
    (c.filter fun x => !decide (x.key = ek)).find? (fun x => decide (x.key = k)) = c.find? (fun x => decide (x.key = k))
  | [] => rfl
  | x :: xs => by
    have ih := find?_filter_ne k ek h xs
    by_cases hx : x.key = ek
    · have hk : ¬ x.key = k := fun e => h (e.symm.trans hx)
      have hek : ¬ ek = k := fun e => h e.symm
      simp [List.filter_cons, hx, List.find?_cons, hek, ih]
    · by_cases hk : x.key = k
      · have hne : ¬ k = ek := h
        simp [List.filter_cons, hx, List.find?_cons, hk, hne]
      · simp [List.filter_cons, hx, List.find?_cons, hk, ih]

theorem get_add_ne (c : Store) (e : Entry) (k : Str) (h : e.key ≠ k) : (c.add e).get k = c.get k := by
  unfold Store.add Store.get
  rw [List.find?_append, find?_filter_ne k e.key (fun x => h x.symm)]
  cases c.find? (fun x => decide (x.key = k)) with
  | some x => rfl
  | none => simp [h]

theorem get_foldl_add_ne (k : Str) : ∀ (es : List Entry) (c : Store), (∀ e ∈ es, e.key ≠ k) →
    (es.foldl Store.add c).get k = c.get k
  | [], _, _ => rfl
  | e :: es, c, h => by
    simp only [List.foldl_cons]
    rw [get_foldl_add_ne k es _ (fun x hx => h x (List.mem_cons_of_mem _ hx)), get_add_ne c e k (h e (by simp))]

/-- an entry that is hit is left exactly as it is — in particular its expiry is not renewed: only
queries that MISS store anything -/
theorem hit_leaves_entry (ko : KeyOrder) (V : Bundle.Oracle) (c : Store) (now ttl : Int) (b : Bundle) (k : Str) (cs : CS)
    (h : c.hit now k = some cs) : (verifyCached ko V c now ttl b).2.get k = c.get k := by
  simp only [verifyCached]
  apply get_foldl_add_ne
  intro e he hk
  obtain ⟨q, _, hmiss, _, hkey, _⟩ := mem_newEntries he
  rw [← hkey, hk, h] at hmiss
  cases hmiss

theorem mem_foldl_add : ∀ (es : List Entry) (c : Store) (x : Entry), x ∈ es.foldl Store.add c → x ∈ c ∨ x ∈ es
  | [], _, _, h => .inl h
  | e :: es, c, x, h => by
    simp only [List.foldl_cons] at h
    rcases mem_foldl_add es _ x h with h1 | h1
    · rcases List.mem_append.mp h1 with h2 | h2
      · exact .inl (List.mem_filter.mp h2).1
      · simp at h2; subst h2; exact .inr (by simp)
    · exact .inr (List.mem_cons_of_mem _ h1)

/-- whatever a step leaves in the store was there before, or was stored by this very step — after a
miss — with expiry `now + ttl` -/
theorem store_step (P : Params) (now : Int) (s : Sys) (op : Op) :
    ∀ e ∈ (step P now s op).1.store, e ∈ s.store ∨ e.expiry = now + P.ttl := by
  intro e he
  cases op with
  | verify i mode =>
    cases mode with
    | direct => exact .inl he
    | cached =>
      simp only [step, Sys.set, verifyCached] at he
      rcases mem_foldl_add _ _ e he with h1 | h1
      · exact .inl h1
      · obtain ⟨_, _, _, _, _, hexp⟩ := mem_newEntries h1
        exact .inr hexp
  | validate i rs => exact .inl he
  | attenuate i items => exact .inl he
  | discharge i loc ka cb rnds => exact .inl he
  | filter i f => exact .inl he
  | header i => exact .inl he
  | tick => exact .inl he
  | evict k => exact .inl (List.mem_filter.mp he).1

/-- the state after a history -/
def runSys (P : Params) : List (Int × Op) → Sys → Sys
  | [], s => s
  | (now, op) :: rest, s => runSys P rest (step P now s op).1

/-- every entry in the store after a history was stored at one of the history's instants `t`, and
expires at `t + ttl`: nothing — no hit in between — ever moves an expiry -/
theorem store_run (P : Params) : ∀ (hist : List (Int × Op)) (s : Sys),
    ∀ e ∈ (runSys P hist s).store, e ∈ s.store ∨ ∃ t op, (t, op) ∈ hist ∧ e.expiry = t + P.ttl
  | [], _, e, he => .inl he
  | (now, op) :: rest, s, e, he => by
    simp only [runSys] at he
    rcases store_run P rest _ e he with h1 | ⟨t, op', hm, hexp⟩
    · rcases store_step P now s op e h1 with h2 | h2
      · exact .inl h2
      · exact .inr ⟨now, op, by simp, h2⟩
    · exact .inr ⟨t, op', List.mem_cons_of_mem _ hm, hexp⟩

/-! ### isolation -/

/-- the bundle an operation names -/
def opTarget : Op → Option Nat
  | .verify i _ => some i
  | .validate i _ => some i
  | .attenuate i _ => some i
  | .discharge i _ _ _ _ => some i
  | .filter i _ => some i
  | .header i => some i
  | .tick => none
  | .evict _ => none

theorem get_set_ne (s : Sys) (i j : Nat) (b : Bundle) (h : i ≠ j) : (s.set i b).get j = s.get j := by
  simp only [Sys.get, Sys.set, List.getD_eq_getElem?_getD, List.getElem?_set_ne h]

theorem get_store (s : Sys) (c : Store) (j : Nat) : ({ s with store := c } : Sys).get j = s.get j := rfl

/-- **bundles_isolated**: an operation on one bundle leaves every other bundle exactly as it was -/
theorem step_isolated (P : Params) (now : Int) (s : Sys) (op : Op) (j : Nat) (h : opTarget op ≠ some j) :
    (step P now s op).1.get j = s.get j := by
  cases op with
  | verify i mode =>
    have hij : i ≠ j := fun e => h (by simp [opTarget, e])
    cases mode with
    | direct => exact get_set_ne s i j _ hij
    | cached =>
      simp only [step]
      exact get_set_ne s i j _ hij
  | validate i rs => rfl
  | attenuate i items => exact get_set_ne s i j _ (fun e => h (by simp [opTarget, e]))
  | discharge i loc ka cb rnds => exact get_set_ne s i j _ (fun e => h (by simp [opTarget, e]))
  | filter i f => exact get_set_ne s i j _ (fun e => h (by simp [opTarget, e]))
  | header i => rfl
  | tick => rfl
  | evict k => rfl


/-! ### F7: the sharing semantics is not transparent -/

/-- two bundles parsed separately from the same one-token header -/
def f7Init (pl : Bytes) (s : Str) (m : M) : HSys :=
  ⟨⟨[⟨s, m⟩, ⟨s, m⟩], []⟩, [⟨pl, [.unv 0]⟩, ⟨pl, [.unv 1]⟩], []⟩

def f7History (items : List (AddItem Bytes)) : List (Int × Op) :=
  [(0, .verify 0 .cached), (1, .verify 1 .cached), (2, .attenuate 0 items), (3, .header 1)]

theorem f7_share (P : Params) (pl : Bytes) (s : Str) (m : M) (cs : CS) (items : List (AddItem Bytes))
    (s' : Str) (m' : M) (added : CS)
    (hloc : m.loc = pl) (hnt : ticketsOf m = []) (hV : P.V (.unverified s m) [] = some cs)
    (hatt : Bundle.attMac items m = some (s', m', added)) (httl : 1 < P.ttl) :
    ((hrun .share P (f7History items) (f7Init pl s m)).map (·.1)).getLast? = some (.text (headerOf [.verified s' m' (cs ++ added)])) := by
  simp [hrun, f7History, f7Init, hstep, hverifyCached, HSys.get, HSys.set, Heap.view, Heap.tok, Heap.u, Heap.v,
    isPermAt, Tok.mac?, hloc, dischargesOf, Tok.tickets, hnt, keyOf, sortToks, hget, hadd, hV, Ref.u?,
    Tok.str, Header.joinWith, httl, HBundle.attenuate, Bundle.attenuateTs, Bundle.attTok, hatt, Heap.storeAll, Heap.store,
    HBundle.view, Bundle.header]
  done

theorem f7_direct (P : Params) (pl : Bytes) (s : Str) (m : M) (cs : CS) (items : List (AddItem Bytes))
    (s' : Str) (m' : M) (added : CS)
    (hloc : m.loc = pl) (hnt : ticketsOf m = []) (hV : P.V (.unverified s m) [] = some cs)
    (hatt : Bundle.attMac items m = some (s', m', added)) :
    ((hrun .share P ((f7History items).map fun x => (x.1, x.2.direct)) (f7Init pl s m)).map (·.1)).getLast?
      = some (.text (headerOf [.verified s m cs])) := by
  simp [hrun, f7History, f7Init, hstep, HBundle.verifyBy, HBundle.verifySlot, Op.direct, HSys.get, HSys.set, Heap.view, Heap.tok, Heap.u, Heap.v,
    isPermAt, Tok.mac?, hloc, dischargesOf, Tok.tickets, hnt, hV, Ref.u?,
    Tok.str, HBundle.attenuate, Bundle.attenuateTs, Bundle.attTok, hatt, Heap.storeAll, Heap.store,
    HBundle.view, Bundle.header]

/-- `f7Init` is what parsing one header twice gives, for any header that holds one permission token -/
theorem f7Init_is_parsed (pl : Bytes) (h : Str) (s : Str) (m : M) (hp : parseToks h = [.unverified s m]) (hloc : m.loc = pl) :
    hinit pl [h, h] = f7Init pl s m := by
  simp [hinit, HBundle.parseWith, hp, Heap.alloc, Heap.empty, Filter.mask, applyMask, isPermAt, Tok.mac?, hloc, f7Init,
    Tok.isNonMac]

/-- the same history on the repaired semantics prints the untouched token -/
theorem f7_copy (P : Params) (pl : Bytes) (s : Str) (m : M) (cs : CS) (items : List (AddItem Bytes))
    (s' : Str) (m' : M) (added : CS)
    (hloc : m.loc = pl) (hnt : ticketsOf m = []) (hV : P.V (.unverified s m) [] = some cs)
    (hatt : Bundle.attMac items m = some (s', m', added)) (httl : 1 < P.ttl) :
    ((hrun .copy P (f7History items) (f7Init pl s m)).map (·.1)).getLast? = some (.text (headerOf [.verified s m cs])) := by
  simp [hrun, f7History, f7Init, hstep, hverifyCached, HSys.get, HSys.set, Heap.view, Heap.tok, Heap.u, Heap.v,
    isPermAt, Tok.mac?, hloc, dischargesOf, Tok.tickets, hnt, keyOf, sortToks, hget, hadd, hV, Ref.u?,
    Tok.str, Header.joinWith, httl, HBundle.attenuate, Bundle.attenuateTs, Bundle.attTok, hatt, Heap.storeAll, Heap.store,
    HBundle.view, Bundle.header]

theorem headerOf_single_inj {t t' : Tok} (h : headerOf [t] = headerOf [t']) : t.str = t'.str := by
  simp only [headerOf, tokString, List.map_cons, List.map_nil, Header.joinWith] at h
  have := List.append_cancel_left h
  simpa using this

/-- **F7, negative witness.**  Two bundles parsed separately from the same header are verified
through one cache; the first is attenuated; the header the SECOND one prints has changed — whereas
with direct verification (and with the repaired cache) it has not.  For every permission token
without third-party caveats that the verifier accepts and every attenuation that succeeds and
changes the token's text, any `ttl > 1`. -/
theorem f7_sharing_not_transparent (P : Params) (pl : Bytes) (s : Str) (m : M) (cs : CS) (items : List (AddItem Bytes))
    (s' : Str) (m' : M) (added : CS)
    (hloc : m.loc = pl) (hnt : ticketsOf m = []) (hV : P.V (.unverified s m) [] = some cs)
    (hatt : Bundle.attMac items m = some (s', m', added)) (hne : s' ≠ s) (httl : 1 < P.ttl) :
    hrun .share P (f7History items) (f7Init pl s m)
      ≠ hrun .share P ((f7History items).map fun x => (x.1, x.2.direct)) (f7Init pl s m) := by
  intro h
  have h1 := f7_share P pl s m cs items s' m' added hloc hnt hV hatt httl
  have h2 := f7_direct P pl s m cs items s' m' added hloc hnt hV hatt
  rw [h, h2] at h1
  simp only [Option.some.injEq, Out.text.injEq] at h1
  exact hne (headerOf_single_inj h1).symm


end Macaroon.Lemmas.BundleL
