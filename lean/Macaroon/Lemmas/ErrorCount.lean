/-
C12, model side of F18/F20: the error list that clearing accumulates is linear in what was decoded.
Every caveat contributes at most one error leaf per request, a conditional at most one per caveat it
contains (at any depth); a malformed request contributes its own well-formedness errors instead.
-/
import Macaroon.Lemmas.Hostile
import Macaroon.Caveat.Prohibits

namespace Macaroon.Lemmas
open Macaroon

theorem resset_prohibits_len {K} (z : K → Bool) (m : K → K → Bool) (rs : ResSet K) (id : Option K) (act : Action) :
    (ResSet.prohibits z m rs id act).length ≤ 1 := by
  unfold ResSet.prohibits
  split
  · simp
  · split
    · simp
    · dsimp only
      split
      · simp
      · split <;> simp

theorem viaGetter_len {K} (g : Option (Option K)) (action : Option Action) (k : Option K → Action → Errs)
    (hk : ∀ id act, (k id act).length ≤ 1) : (viaGetter g action k).length ≤ 1 := by
  unfold viaGetter
  split
  · exact hk _ _
  · simp

theorem confineProhibits_len (a : Access) (p q : DischargeReq → Bool) : (confineProhibits a p q).length ≤ 1 := by
  unfold confineProhibits
  split
  · simp
  · split
    · simp
    · split <;> simp

theorem allowedRoles_len (mask : UInt32) (a : Access) : (allowedRolesProhibits mask a).length ≤ 1 := by
  unfold allowedRolesProhibits
  split
  · simp
  · split <;> simp

theorem flySrcField_len (w : Bytes) (g : Option (Option Bytes)) : (flySrcField w g).length ≤ 1 := by
  unfold flySrcField
  split
  · simp
  · split
    · simp
    · simp
    · split <;> simp

theorem firstErr_len : ∀ l : List Errs, (∀ e ∈ l, e.length ≤ 1) → (firstErr l).length ≤ 1
  | [], _ => by simp [firstErr]
  | e :: es, h => by
    unfold firstErr
    split
    · exact firstErr_len es fun x hx => h x (List.mem_cons_of_mem _ hx)
    · exact h e List.mem_cons_self

mutual
/-- one caveat, one request: at most one error leaf per caveat it contains (itself included) -/
theorem prohibits_len : (c : Cav Bytes) → (a : Access) → (prohibits c a).length ≤ cavCount c
  | .ifPresent n ifs els, a => by
    unfold prohibits
    simp only [cavCount]
    split
    · simp
    · split
      · simp
      · have := ifLoop_len ifs a
        split
        · simp
        · omega
  | .organization .., a => by
    unfold prohibits; simp only [cavCount]
    split
    · split
      · simp
      · split
        · simp
        · split <;> simp
    · simp
  | .apps rs, a => by unfold prohibits; exact viaGetter_len _ _ _ fun _ _ => resset_prohibits_len _ _ _ _ _
  | .volumes rs, a => by unfold prohibits; exact viaGetter_len _ _ _ fun _ _ => resset_prohibits_len _ _ _ _ _
  | .machines rs, a => by unfold prohibits; exact viaGetter_len _ _ _ fun _ _ => resset_prohibits_len _ _ _ _ _
  | .machineFeatureSet rs, a => by unfold prohibits; exact viaGetter_len _ _ _ fun _ _ => resset_prohibits_len _ _ _ _ _
  | .featureSet rs, a => by unfold prohibits; exact viaGetter_len _ _ _ fun _ _ => resset_prohibits_len _ _ _ _ _
  | .appFeatureSet rs, a => by unfold prohibits; exact viaGetter_len _ _ _ fun _ _ => resset_prohibits_len _ _ _ _ _
  | .clusters rs, a => by unfold prohibits; exact viaGetter_len _ _ _ fun _ _ => resset_prohibits_len _ _ _ _ _
  | .storageObjects rs, a => by unfold prohibits; exact viaGetter_len _ _ _ fun _ _ => resset_prohibits_len _ _ _ _ _
  | .mutations ms, a => by
    unfold prohibits; simp only [cavCount]
    split
    · simp
    · simp
    · split <;> simp
  | .isUser _, a => by unfold prohibits; simp
  | .validityWindow nb na, a => by
    unfold prohibits; simp only [cavCount]
    split
    · simp
    · split <;> simp
  | .tp .., a => by unfold prohibits; simp [cavCount]
  | .bind .., a => by unfold prohibits; simp [cavCount]
  | .unregistered .., a => by unfold prohibits; simp [cavCount]
  | .flyioUserID .., a => by unfold prohibits; simp [cavCount]
  | .gitHubUserID .., a => by unfold prohibits; simp [cavCount]
  | .googleUserID .., a => by unfold prohibits; simp [cavCount]
  | .action mask, a => by
    unfold prohibits; simp only [cavCount]
    split
    · simp
    · split <;> simp
  | .fromMachine id, a => by
    unfold prohibits; simp only [cavCount]
    split
    · simp
    · simp
    · split <;> simp
  | .flySrc o ap i, a => by
    unfold prohibits
    exact firstErr_len _ (by
      intro e he
      simp only [List.mem_cons, List.not_mem_nil, or_false] at he
      rcases he with rfl | rfl | rfl <;> exact flySrcField_len _ _)
  | .allowedRoles mask, a => by unfold prohibits; exact allowedRoles_len _ _
  | .isMember, a => by unfold prohibits; exact allowedRoles_len _ _
  | .commands cs, a => by
    unfold prohibits; simp only [cavCount]
    split
    · simp
    · simp
    · split <;> simp
  | .confineUser id, a => by unfold prohibits; exact confineProhibits_len _ _ _
  | .confineOrganization id, a => by unfold prohibits; exact confineProhibits_len _ _ _
  | .confineGoogleHD hd, a => by unfold prohibits; exact confineProhibits_len _ _ _
  | .confineGitHubOrg id, a => by unfold prohibits; exact confineProhibits_len _ _ _
  | .maxValidity s, a => by
    unfold prohibits; simp only [cavCount]
    split
    · simp
    · split <;> simp
theorem ifLoop_len : (l : CavList Bytes) → (a : Access) → (ifLoop l a).1.length ≤ cavCountL l
  | .nil, a => by simp [ifLoop, cavCountL]
  | .cons c cs, a => by
    unfold ifLoop
    have h1 := prohibits_len c a
    have h2 := ifLoop_len cs a
    simp only [cavCountL]
    split
    · omega
    · simp only [List.length_append]; omega
end

theorem validateAccess_len (a : Access) : ∀ cs : List (Cav Bytes), (validateAccess cs a).length ≤ cavCountList cs
  | [] => by simp [validateAccess]
  | c :: cs => by
    have ih := validateAccess_len a cs
    have h1 := prohibits_len c a
    have h0 : 0 < cavCount c := by cases c <;> simp [cavCount] <;> omega
    simp only [validateAccess, List.flatMap_cons, List.length_append] at ih ⊢
    rw [cavCountList_cons]
    split
    · simp only [List.length_nil]; omega
    · omega

/-- the general form: the requests' own well-formedness errors, plus one leaf per caveat and request -/
theorem validate_len (cs : List (Cav Bytes)) : ∀ rs : List Access,
    (validate cs rs).length ≤ (rs.map fun a => a.wf.length).sum + rs.length * cavCountList cs
  | [] => by simp [validate]
  | a :: rs => by
    have ih := validate_len cs rs
    have h1 := validateAccess_len a cs
    simp only [validate, List.flatMap_cons, List.length_append, List.map_cons, List.sum_cons,
      List.length_cons, Nat.add_mul, Nat.one_mul] at ih ⊢
    split <;> omega

theorem validate_len_wf (cs : List (Cav Bytes)) (rs : List Access) (hwf : ∀ a ∈ rs, a.wf.length ≤ 1) :
    (validate cs rs).length ≤ rs.length * (cavCountList cs + 1) := by
  have h := validate_len cs rs
  have hs : (rs.map fun a => a.wf.length).sum ≤ rs.length := by
    clear h
    induction rs with
    | nil => simp
    | cons a rs ih =>
      have := hwf a List.mem_cons_self
      have := ih fun x hx => hwf x (List.mem_cons_of_mem _ hx)
      simp only [List.map_cons, List.sum_cons, List.length_cons]; omega
  rw [Nat.mul_add, Nat.mul_one]; omega

/-- every `flyio.Access` reports at most one well-formedness error -/
theorem toAccess_wf_len (f : Flyio.Req) (s : Int) (n : Nat) : (f.toAccess s n).wf.length ≤ 1 := by
  simp only [Flyio.Req.toAccess, Flyio.validate]
  repeat' split
  all_goals simp


end Macaroon.Lemmas
