/-
Order facts about the scope helpers of `Flyio/Scopes.lean` (C17): the lists they return are strictly
ascending in Go's order (hence without duplicates), and permuting the caveat set does not change
what `AppScope` / `ClusterScope` return.  `OrganizationScope` returns the id of the FIRST organization
caveat found, so it is order dependent when a wildcard caveat (id 0) precedes a specific one; two
successful answers on permuted sets agree.
-/
import Macaroon.Lemmas.Scopes
import Macaroon.Lemmas.CodecResSet

namespace Macaroon.Lemmas
open Macaroon Macaroon.Flyio
variable {B : Type}

/-- a strict total order given as a Boolean relation -/
structure StrictTotal {K} (lt : K → K → Bool) : Prop where
  irrefl : ∀ a, lt a a = false
  trans : ∀ a b c, lt a b = true → lt b c = true → lt a c = true
  tri : ∀ a b, lt a b = false → lt b a = false → a = b

theorem strictTotal_ltU64 : StrictTotal ltU64 where
  irrefl a := by simp [ltU64]
  trans a b c h1 h2 := by
    simp only [ltU64, decide_eq_true_eq] at *
    exact UInt64.lt_trans h1 h2
  tri a b h1 h2 := by
    simp only [ltU64, decide_eq_false_iff_not, UInt64.not_lt] at *
    exact UInt64.le_antisymm h2 h1

theorem strictTotal_bytesLt : StrictTotal Bytes.lt := ⟨Bytes.lt_irrefl, Bytes.lt_trans, Bytes.lt_tri⟩

abbrev SortedBy {K} (lt : K → K → Bool) (l : List K) : Prop := l.Pairwise fun a b => lt a b = true

theorem sorted_insertSorted {K} [BEq K] [LawfulBEq K] {lt : K → K → Bool} (ho : StrictTotal lt) (x : K) :
    ∀ l : List K, SortedBy lt l → SortedBy lt (insertSorted lt x l)
  | [], _ => by simp [insertSorted, SortedBy]
  | y :: ys, h => by
    rw [insertSorted]
    have hc := List.pairwise_cons.mp h
    by_cases hxy : (x == y) = true
    · simp only [hxy, if_true]; exact h
    · simp only [hxy, Bool.false_eq_true, if_false]
      by_cases hlt : lt x y = true
      · simp only [hlt, if_true]
        refine List.pairwise_cons.mpr ⟨?_, h⟩
        intro z hz
        rcases List.mem_cons.mp hz with rfl | hz
        · exact hlt
        · exact ho.trans _ _ _ hlt (hc.1 z hz)
      · simp only [hlt, Bool.false_eq_true, if_false]
        refine List.pairwise_cons.mpr ⟨?_, sorted_insertSorted ho x ys hc.2⟩
        intro z hz
        rcases (mem_insertSorted lt x z ys).mp hz with rfl | hz
        · cases hyx : lt y z with
          | true => rfl
          | false =>
            have := ho.tri z y (by simpa using hlt) hyx
            subst this
            simp at hxy
        · exact hc.1 z hz

theorem sorted_sortDedup {K} [BEq K] [LawfulBEq K] {lt : K → K → Bool} (ho : StrictTotal lt) :
    ∀ l : List K, SortedBy lt (sortDedup lt l)
  | [] => by simp [sortDedup, SortedBy]
  | x :: xs => by
    have : sortDedup lt (x :: xs) = insertSorted lt x (sortDedup lt xs) := rfl
    rw [this]
    exact sorted_insertSorted ho x _ (sorted_sortDedup ho xs)

/-- a strictly ascending list is determined by its elements -/
theorem sorted_ext {K} {lt : K → K → Bool} (ho : StrictTotal lt) :
    ∀ (l l' : List K), SortedBy lt l → SortedBy lt l' → (∀ x, x ∈ l ↔ x ∈ l') → l = l'
  | [], [], _, _, _ => rfl
  | [], y :: ys, _, _, h => by have := (h y).mpr (by simp); simp at this
  | x :: xs, [], _, _, h => by have := (h x).mp (by simp); simp at this
  | x :: xs, y :: ys, h1, h2, h => by
    have c1 := List.pairwise_cons.mp h1
    have c2 := List.pairwise_cons.mp h2
    have hxy : x = y := by
      have hx := (h x).mp (by simp)
      have hy := (h y).mpr (by simp)
      rcases List.mem_cons.mp hx with e | hx'
      · exact e
      · rcases List.mem_cons.mp hy with e | hy'
        · exact e.symm
        · have a := c2.1 x hx'
          have b := c1.1 y hy'
          have := ho.trans _ _ _ a b
          rw [ho.irrefl] at this; cases this
    subst hxy
    congr 1
    apply sorted_ext ho xs ys c1.2 c2.2
    intro z
    constructor
    · intro hz
      rcases List.mem_cons.mp ((h z).mp (List.mem_cons_of_mem _ hz)) with e | hz'
      · subst e; have := c1.1 z hz; rw [ho.irrefl] at this; cases this
      · exact hz'
    · intro hz
      rcases List.mem_cons.mp ((h z).mpr (List.mem_cons_of_mem _ hz)) with e | hz'
      · subst e; have := c2.1 z hz; rw [ho.irrefl] at this; cases this
      · exact hz'

theorem sortDedup_congr {K} [BEq K] [LawfulBEq K] {lt : K → K → Bool} (ho : StrictTotal lt) (l l' : List K)
    (h : ∀ x, x ∈ l ↔ x ∈ l') : sortDedup lt l = sortDedup lt l' :=
  sorted_ext ho _ _ (sorted_sortDedup ho l) (sorted_sortDedup ho l')
    (fun x => by rw [mem_sortDedup, mem_sortDedup]; exact h x)

/-! ### permuting the caveat set -/

theorem getCaveats_eq_flatMap (p : Cav B → Bool) (cs : List (Cav B)) :
    getCaveats p cs = cs.flatMap fun c => (if p c then [c] else []) ++ unwrapGet p c := by
  induction cs with
  | nil => simp [getCaveats]
  | cons c cs ih => rw [getCaveats, ih]; simp [List.flatMap_cons]

theorem getCaveats_perm (p : Cav B → Bool) {cs cs' : List (Cav B)} (h : cs.Perm cs') :
    (getCaveats p cs).Perm (getCaveats p cs') := by
  rw [getCaveats_eq_flatMap, getCaveats_eq_flatMap]
  exact h.flatMap_right _

theorem clears_perm {cs cs' : List (Cav B)} (h : cs.Perm cs') (f : Req) (s : Int) (n : Nat) :
    clears cs f s n = clears cs' f s n := by
  have e : ∀ l l' : List (Cav B), l.Perm l' → clears l f s n = true → clears l' f s n = true := by
    intro l l' hp hc
    rw [clears_iff, validate_single_iff] at hc ⊢
    exact ⟨hc.1, fun c hcm => hc.2 c (hp.mem_iff.mpr hcm)⟩
  cases h1 : clears cs f s n with
  | true => exact (e _ _ h h1).symm
  | false =>
    cases h2 : clears cs' f s n with
    | false => rfl
    | true => rw [e _ _ h.symm h2] at h1; cases h1

theorem filter_congr' {α} (p q : α → Bool) (l : List α) (h : ∀ x, p x = q x) : l.filter p = l.filter q := by
  have : p = q := funext h
  rw [this]

theorem appScope_perm {cs cs' : List (Cav B)} (h : cs.Perm cs') : appScope cs = appScope cs' := by
  have hp := getCaveats_perm isApps h
  have hkeys : sortDedup ltU64 (appKeys (getCaveats isApps cs)) = sortDedup ltU64 (appKeys (getCaveats isApps cs')) :=
    sortDedup_congr strictTotal_ltU64 _ _ (fun k => by
      rw [mem_appKeys, mem_appKeys]
      constructor
      · rintro ⟨rs, hm, hk⟩; exact ⟨rs, hp.mem_iff.mp hm, hk⟩
      · rintro ⟨rs, hm, hk⟩; exact ⟨rs, hp.mem_iff.mpr hm, hk⟩)
  have hempty : (getCaveats isApps cs).isEmpty = (getCaveats isApps cs').isEmpty := by
    have := hp.length_eq
    cases h1 : getCaveats isApps cs <;> cases h2 : getCaveats isApps cs' <;> simp_all
  unfold appScope
  simp only [hempty, hkeys]
  rw [filter_congr' _ _ _ (fun id => clears_perm hp (appReq id) 0 0)]

theorem clusterScope_perm {cs cs' : List (Cav B)} (h : cs.Perm cs') : clusterScope cs = clusterScope cs' := by
  have hp := getCaveats_perm isClusters h
  have hkeys : sortDedup Bytes.lt (clusterKeys (getCaveats isClusters cs))
      = sortDedup Bytes.lt (clusterKeys (getCaveats isClusters cs')) :=
    sortDedup_congr strictTotal_bytesLt _ _ (fun k => by
      rw [mem_clusterKeys, mem_clusterKeys]
      constructor
      · rintro ⟨rs, hm, hk⟩; exact ⟨rs, hp.mem_iff.mp hm, hk⟩
      · rintro ⟨rs, hm, hk⟩; exact ⟨rs, hp.mem_iff.mpr hm, hk⟩)
  have hempty : (getCaveats isClusters cs).isEmpty = (getCaveats isClusters cs').isEmpty := by
    have := hp.length_eq
    cases h1 : getCaveats isClusters cs <;> cases h2 : getCaveats isClusters cs' <;> simp_all
  unfold clusterScope
  simp only [hempty, hkeys]
  rw [filter_congr' _ _ _ (fun id => clears_perm hp (clusterReq id) 0 0)]

/-! ### the results are sorted -/

theorem appScope_sorted (cs : List (Cav B)) (L : List UInt64) (h : appScope cs = some L) : SortedBy ltU64 L := by
  unfold appScope at h
  dsimp only at h
  split at h
  · cases h
  · split at h
    · cases h
    · simp only [Option.some.injEq] at h
      subst h
      exact (sorted_sortDedup strictTotal_ltU64 _).filter _

theorem clusterScope_sorted (cs : List (Cav B)) (L : List Bytes) (h : clusterScope cs = some L) : SortedBy Bytes.lt L := by
  unfold clusterScope at h
  dsimp only at h
  split at h
  · cases h
  · split at h
    · cases h
    · simp only [Option.some.injEq] at h
      subst h
      exact (sorted_sortDedup strictTotal_bytesLt _).filter _

theorem appsAllowing_sorted (cs : List (Cav B)) (act : Action) (s : Int) (n : Nat) (o : UInt64) (L : List UInt64)
    (h : appsAllowing cs act s n = .ok (o, some L)) : SortedBy ltU64 L := by
  unfold appsAllowing at h
  split at h
  · cases h
  · split at h
    · dsimp only at h
      split at h <;> simp at h
    · cases h
    · dsimp only at h
      split at h
      · cases h
      · simp only [Except.ok.injEq, Prod.mk.injEq, Option.some.injEq] at h
        rw [← h.2]
        exact sorted_sortDedup strictTotal_ltU64 _

/-! ### `OrganizationScope` on permuted sets -/

/-- what success means: every organization caveat found is the wildcard or names `o`, and the first
one found has id `o` -/
theorem orgScope_ids (cs : List (Cav B)) (o : UInt64) (h : organizationScope cs = .ok o) :
    (∃ c ∈ getCaveats isOrg cs, orgIdOf c = o) ∧ ∀ c ∈ getCaveats isOrg cs, orgIdOf c = 0 ∨ orgIdOf c = o := by
  obtain ⟨c, rest, heq, hid, hv⟩ := orgScope_ok cs o h
  refine ⟨⟨c, by rw [heq]; simp, hid⟩, ?_⟩
  intro x hx
  rw [heq] at hx
  obtain ⟨hwf, hall⟩ := (validate_single_iff _ _).mp hv
  have hxo : isOrg x = true := ((mem_getCaveats isOrg cs x).mp (by rw [heq]; exact hx)).1
  obtain ⟨id, mask, rfl⟩ := (isOrg_iff x).mp hxo
  have := hall _ hx rfl
  obtain ⟨_, ho, ha⟩ := orgReq_access o 0 0
  exact (org_permits_none id mask _ o ho ha).mp this

/-- two successful answers on permuted sets agree -/
theorem orgScope_perm_agree {cs cs' : List (Cav B)} (hp : cs.Perm cs') (o o' : UInt64)
    (h : organizationScope cs = .ok o) (h' : organizationScope cs' = .ok o') : o = o' := by
  have hperm := getCaveats_perm isOrg hp
  obtain ⟨⟨c, hc, hco⟩, hall⟩ := orgScope_ids cs o h
  obtain ⟨⟨c', hc', hco'⟩, hall'⟩ := orgScope_ids cs' o' h'
  have a := hall' c (hperm.mem_iff.mp hc)
  have b := hall c' (hperm.mem_iff.mpr hc')
  rw [hco] at a
  rw [hco'] at b
  rcases a with a | a
  · rcases b with b | b
    · rw [a, b]
    · exact b.symm
  · exact a

end Macaroon.Lemmas
