/-
Resource-set normalisation of the typed codec (`Codec.ofEntriesStr`, `Codec.ofEntriesU64`):
`Bytes.lt` and `<` on `UInt64` are strict total orders; insertion sort of a list with distinct keys
is strictly sorted; a strictly sorted list is determined by its elements; building a Go map from a
sequence of assignments depends only on the last value assigned to each key; the normal form is
idempotent and its fixed points are exactly the strictly sorted lists.
Core Lean only.
-/
import Macaroon.Caveat.Codec

namespace Macaroon

/-! ### `Bytes.lt` is a strict total order -/

namespace Bytes

theorem lt_irrefl : ∀ a : Bytes, lt a a = false
  | [] => rfl
  | x :: a => by
    have := lt_irrefl a
    simp [lt, this]

theorem lt_trans : ∀ a b c : Bytes, lt a b = true → lt b c = true → lt a c = true
  | [], [], _, h, _ => by simp [lt] at h
  | [], _ :: _, [], _, h => by simp [lt] at h
  | [], _ :: _, _ :: _, _, _ => by simp [lt]
  | _ :: _, [], _, h, _ => by simp [lt] at h
  | _ :: _, _ :: _, [], _, h => by simp [lt] at h
  | x :: a, y :: b, z :: c, h1, h2 => by
    have ih := lt_trans a b c
    simp only [lt, UInt8.lt_iff_toNat_lt] at h1 h2 ⊢
    by_cases hxy : x.toNat < y.toNat
    · by_cases hyz : y.toNat < z.toNat
      · rw [if_pos (by omega)]
      · rw [if_neg hyz] at h2
        by_cases hzy : z.toNat < y.toNat
        · rw [if_pos hzy] at h2; cases h2
        · rw [if_pos (by omega)]
    · rw [if_neg hxy] at h1
      by_cases hyx : y.toNat < x.toNat
      · rw [if_pos hyx] at h1; cases h1
      · rw [if_neg hyx] at h1
        by_cases hyz : y.toNat < z.toNat
        · rw [if_pos (by omega)]
        · rw [if_neg hyz] at h2
          by_cases hzy : z.toNat < y.toNat
          · rw [if_pos hzy] at h2; cases h2
          · rw [if_neg hzy] at h2
            rw [if_neg (by omega), if_neg (by omega)]
            exact ih h1 h2

theorem lt_tri : ∀ a b : Bytes, lt a b = false → lt b a = false → a = b
  | [], [], _, _ => rfl
  | [], _ :: _, h, _ => by simp [lt] at h
  | _ :: _, [], _, h => by simp [lt] at h
  | x :: a, y :: b, h1, h2 => by
    have ih := lt_tri a b
    simp only [lt, UInt8.lt_iff_toNat_lt] at h1 h2
    by_cases hxy : x.toNat < y.toNat
    · rw [if_pos hxy] at h1; cases h1
    · rw [if_neg hxy] at h1
      by_cases hyx : y.toNat < x.toNat
      · rw [if_pos hyx] at h2; cases h2
      · rw [if_neg hyx] at h1 h2
        rw [if_neg hxy] at h2
        have : x = y := UInt8.toNat_inj.mp (by omega)
        rw [this, ih h1 h2]

theorem lt_asymm (a b : Bytes) (h : lt a b = true) : lt b a = false := by
  cases h' : lt b a with
  | false => rfl
  | true => have := lt_trans a b a h h'; rw [lt_irrefl] at this; cases this

end Bytes

namespace Codec
set_option linter.unusedSectionVars false

/-- a Boolean strict total order -/
structure StrictTotal {K : Type} (lt : K → K → Bool) : Prop where
  irrefl : ∀ a, lt a a = false
  trans : ∀ a b c, lt a b = true → lt b c = true → lt a c = true
  tri : ∀ a b, lt a b = false → lt b a = false → a = b

theorem strictTotal_bytes : StrictTotal Bytes.lt :=
  ⟨Bytes.lt_irrefl, Bytes.lt_trans, Bytes.lt_tri⟩

theorem strictTotal_u64 : StrictTotal (fun a b : UInt64 => decide (a < b)) := by
  refine ⟨?_, ?_, ?_⟩
  · intro a; simp
  · intro a b c h1 h2
    simp only [decide_eq_true_eq, UInt64.lt_iff_toNat_lt] at *
    omega
  · intro a b h1 h2
    simp only [decide_eq_false_iff_not, UInt64.lt_iff_toNat_lt] at *
    exact UInt64.toNat_inj.mp (by omega)

section generic
variable {K : Type}

/-- the comparison the encoder sorts entries with: by key -/
def keyLt (lt : K → K → Bool) : K × Action → K × Action → Bool := fun a b => lt a.1 b.1

/-- strictly increasing keys -/
def Sorted (lt : K → K → Bool) (l : ResSet K) : Prop := l.Pairwise fun a b => lt a.1 b.1 = true

/-- keys pairwise distinct -/
def NodupKeys (l : ResSet K) : Prop := l.Pairwise fun a b => a.1 ≠ b.1

theorem ofEntriesStr_eq (es : List (Bytes × Action)) :
    ofEntriesStr es = sortBy (keyLt Bytes.lt) (es.foldl (fun m e => assign e.1 e.2 m) []) := rfl

theorem ofEntriesU64_eq (es : List (UInt64 × Action)) :
    ofEntriesU64 es = sortBy (keyLt fun a b => decide (a < b))
      (es.foldl (fun m e => assign e.1 e.2 m) []) := rfl

/-! ### insertion sort -/

theorem insertBy_perm {α} (r : α → α → Bool) (x : α) : ∀ l, (insertBy r x l).Perm (x :: l)
  | [] => List.Perm.refl _
  | y :: ys => by
    simp only [insertBy]
    split
    · exact List.Perm.refl _
    · exact ((insertBy_perm r x ys).cons y).trans (List.Perm.swap x y ys)

theorem sortBy_perm {α} (r : α → α → Bool) : ∀ l, (sortBy r l).Perm l
  | [] => List.Perm.refl _
  | x :: xs => (insertBy_perm r x (sortBy r xs)).trans ((sortBy_perm r xs).cons x)

theorem mem_sortBy {α} (r : α → α → Bool) (l : List α) (a : α) : a ∈ sortBy r l ↔ a ∈ l :=
  (sortBy_perm r l).mem_iff

theorem length_sortBy {α} (r : α → α → Bool) (l : List α) : (sortBy r l).length = l.length :=
  (sortBy_perm r l).length_eq

theorem Sorted.nodupKeys {lt : K → K → Bool} (st : StrictTotal lt) {l : ResSet K}
    (h : Sorted lt l) : NodupKeys l :=
  List.Pairwise.imp (fun {a b} hab he => by rw [he, st.irrefl] at hab; cases hab) h

theorem insertBy_sorted {lt : K → K → Bool} (st : StrictTotal lt) (x : K × Action) :
    ∀ l : ResSet K, Sorted lt l → (∀ y ∈ l, y.1 ≠ x.1) → Sorted lt (insertBy (keyLt lt) x l)
  | [], _, _ => by simp [insertBy, Sorted]
  | y :: ys, hs, hne => by
    have hs' := List.pairwise_cons.mp hs
    simp only [insertBy]
    by_cases hxy' : keyLt lt x y = true
    · rw [if_pos hxy']
      have hxy : lt x.1 y.1 = true := hxy'
      refine List.pairwise_cons.mpr ⟨?_, hs⟩
      intro z hz
      rcases List.mem_cons.mp hz with rfl | hz
      · exact hxy
      · exact st.trans _ _ _ hxy (hs'.1 z hz)
    · rw [if_neg hxy']
      have hxy : ¬ lt x.1 y.1 = true := hxy'
      have ih := insertBy_sorted st x ys hs'.2 (fun z hz => hne z (List.mem_cons_of_mem _ hz))
      refine List.pairwise_cons.mpr ⟨?_, ih⟩
      intro z hz
      rcases List.mem_cons.mp ((insertBy_perm _ x ys).mem_iff.mp hz) with rfl | hz
      · cases hyx : lt y.1 z.1 with
        | true => rfl
        | false =>
          have hxy' : lt z.1 y.1 = false := by simpa using hxy
          exact absurd (st.tri _ _ hyx hxy') (hne y List.mem_cons_self)
      · exact hs'.1 z hz

theorem sortBy_sorted {lt : K → K → Bool} (st : StrictTotal lt) :
    ∀ l : ResSet K, NodupKeys l → Sorted lt (sortBy (keyLt lt) l)
  | [], _ => List.Pairwise.nil
  | x :: xs, h => by
    have h' := List.pairwise_cons.mp h
    refine insertBy_sorted st x _ (sortBy_sorted st xs h'.2) ?_
    intro y hy
    exact fun e => h'.1 y ((mem_sortBy _ _ _).mp hy) e.symm

theorem sortBy_of_sorted {lt : K → K → Bool} :
    ∀ l : ResSet K, Sorted lt l → sortBy (keyLt lt) l = l
  | [], _ => rfl
  | x :: xs, h => by
    have h' := List.pairwise_cons.mp h
    rw [sortBy, sortBy_of_sorted xs h'.2]
    cases xs with
    | nil => rfl
    | cons y ys =>
      have : lt x.1 y.1 = true := h'.1 y List.mem_cons_self
      simp [insertBy, keyLt, this]

/-- a strictly sorted list is determined by its elements -/
theorem sorted_perm_eq {lt : K → K → Bool} (st : StrictTotal lt) {l₁ l₂ : ResSet K}
    (h₁ : Sorted lt l₁) (h₂ : Sorted lt l₂) (hp : l₁.Perm l₂) : l₁ = l₂ := by
  unfold Sorted at h₁ h₂
  refine List.Perm.eq_of_pairwise (le := fun a b : K × Action => lt a.1 b.1 = true) ?_ h₁ h₂ hp
  intro a b _ _ hab hba
  have := st.trans _ _ _ hab hba
  rw [st.irrefl] at this
  cases this

/-! ### Go map assignment -/

variable [BEq K] [LawfulBEq K]

/-- the last value assigned to `k` in a sequence of assignments -/
def lastVal (k : K) : List (K × Action) → Option Action
  | [] => none
  | e :: es =>
    match lastVal k es with
    | some a => some a
    | none => if e.1 == k then some e.2 else none

/-- the Go map a sequence of assignments builds (in the model: association list) -/
def build (es : List (K × Action)) : ResSet K := es.foldl (fun m e => assign e.1 e.2 m) []

theorem mem_assign (k : K) (a : Action) : ∀ (m : ResSet K) (e : K × Action),
    e ∈ assign k a m → e = (k, a) ∨ e ∈ m
  | [], e, h => by simp [assign] at h; exact Or.inl h
  | (k', a') :: rest, e, h => by
    simp only [assign] at h
    split at h
    · rcases List.mem_cons.mp h with rfl | h
      · exact Or.inl rfl
      · exact Or.inr (List.mem_cons_of_mem _ h)
    · rcases List.mem_cons.mp h with rfl | h
      · exact Or.inr List.mem_cons_self
      · rcases mem_assign k a rest e h with h | h
        · exact Or.inl h
        · exact Or.inr (List.mem_cons_of_mem _ h)

theorem length_assign (k : K) (a : Action) : ∀ m : ResSet K, (assign k a m).length ≤ m.length + 1
  | [] => by simp [assign]
  | (k', a') :: rest => by
    simp only [assign]
    split
    · simp
    · have := length_assign k a rest
      simp only [List.length_cons]; omega

theorem lookup_assign (k : K) (a : Action) (k' : K) : ∀ m : ResSet K,
    (assign k a m).lookup k' = if k' == k then some a else m.lookup k'
  | [] => by
    simp only [assign, List.lookup]
    cases h : k' == k <;> simp
  | (k₁, a₁) :: rest => by
    simp only [assign]
    by_cases h1 : (k₁ == k) = true
    · have e1 : k₁ = k := eq_of_beq h1
      subst e1
      rw [if_pos h1]
      simp only [List.lookup]
      cases h : k' == k₁ <;> simp
    · rw [if_neg h1]
      simp only [List.lookup]
      cases h : k' == k₁ with
      | true =>
        have e : k' = k₁ := eq_of_beq h
        subst e
        simp only [Bool.not_eq_true] at h1
        simp [h1]
      | false =>
        simp only
        exact lookup_assign k a k' rest

theorem nodupKeys_assign (k : K) (a : Action) : ∀ m : ResSet K, NodupKeys m → NodupKeys (assign k a m)
  | [], _ => by simp [assign, NodupKeys]
  | (k₁, a₁) :: rest, h => by
    have h' := List.pairwise_cons.mp h
    simp only [assign]
    split
    · rename_i h1
      have e1 : k₁ = k := eq_of_beq h1
      subst e1
      exact List.pairwise_cons.mpr ⟨fun z hz => h'.1 z hz, h'.2⟩
    · rename_i h1
      refine List.pairwise_cons.mpr ⟨?_, nodupKeys_assign k a rest h'.2⟩
      intro z hz
      rcases mem_assign k a rest z hz with rfl | hz
      · intro e
        exact h1 (by simp at e; simp [e])
      · exact h'.1 z hz

theorem foldl_assign_nodup (es : List (K × Action)) : ∀ m : ResSet K, NodupKeys m →
    NodupKeys (es.foldl (fun m e => assign e.1 e.2 m) m) := by
  induction es with
  | nil => intro m h; exact h
  | cons e es ih => intro m h; exact ih _ (nodupKeys_assign _ _ _ h)

theorem build_nodupKeys (es : List (K × Action)) : NodupKeys (build es) :=
  foldl_assign_nodup es [] List.Pairwise.nil

theorem foldl_assign_lookup (k : K) (es : List (K × Action)) : ∀ m : ResSet K,
    (es.foldl (fun m e => assign e.1 e.2 m) m).lookup k
      = match lastVal k es with | some a => some a | none => m.lookup k := by
  induction es with
  | nil => intro m; rfl
  | cons e es ih =>
    intro m
    rw [List.foldl_cons, ih, lastVal]
    cases lastVal k es with
    | some a => rfl
    | none =>
      simp only [lookup_assign]
      have : (k == e.1) = (e.1 == k) := by
        cases h : e.1 == k with
        | true => rw [eq_of_beq h]; simp
        | false =>
          cases h' : k == e.1 with
          | false => rfl
          | true => rw [eq_of_beq h'] at h; simp at h
      rw [this]
      cases e.1 == k <;> rfl

theorem build_lookup (k : K) (es : List (K × Action)) : (build es).lookup k = lastVal k es := by
  rw [build, foldl_assign_lookup]
  cases lastVal k es <;> rfl

theorem foldl_assign_mem (es : List (K × Action)) : ∀ (m : ResSet K) (e : K × Action),
    e ∈ es.foldl (fun m e => assign e.1 e.2 m) m → e ∈ m ∨ e ∈ es := by
  induction es with
  | nil => intro m e h; exact Or.inl h
  | cons x es ih =>
    intro m e h
    rcases ih _ e h with h | h
    · rcases mem_assign _ _ _ _ h with rfl | h
      · exact Or.inr List.mem_cons_self
      · exact Or.inl h
    · exact Or.inr (List.mem_cons_of_mem _ h)

theorem mem_build (es : List (K × Action)) (e : K × Action) (h : e ∈ build es) : e ∈ es := by
  rcases foldl_assign_mem es [] e h with h | h
  · cases h
  · exact h

theorem foldl_assign_length (es : List (K × Action)) : ∀ m : ResSet K,
    (es.foldl (fun m e => assign e.1 e.2 m) m).length ≤ m.length + es.length := by
  induction es with
  | nil => intro m; simp
  | cons x es ih =>
    intro m
    have h1 := ih (assign x.1 x.2 m)
    have h2 := length_assign x.1 x.2 m
    simp only [List.foldl_cons, List.length_cons]; omega

theorem length_build (es : List (K × Action)) : (build es).length ≤ es.length := by
  have := foldl_assign_length es []
  simpa [build] using this

/-- in a list with distinct keys, membership is lookup -/
theorem mem_iff_lookup : ∀ (m : ResSet K), NodupKeys m → ∀ k a, (k, a) ∈ m ↔ m.lookup k = some a
  | [], _, k, a => by simp [List.lookup]
  | (k₁, a₁) :: rest, h, k, a => by
    have h' := List.pairwise_cons.mp h
    have ih := mem_iff_lookup rest h'.2 k a
    simp only [List.lookup, List.mem_cons]
    cases hk : k == k₁ with
    | true =>
      have e : k = k₁ := eq_of_beq hk
      subst e
      simp only [Option.some.injEq]
      constructor
      · rintro (h | h)
        · cases h; rfl
        · exact absurd rfl (h'.1 (k, a) h)
      · rintro rfl; exact Or.inl rfl
    | false =>
      simp only
      rw [← ih]
      constructor
      · rintro (h | h)
        · cases h; simp at hk
        · exact h
      · exact Or.inr

theorem NodupKeys.nodup {m : ResSet K} (h : NodupKeys m) : m.Nodup :=
  List.Pairwise.imp (fun {a b} hab e => hab (by rw [e])) h

/-- two maps with the same lookup function have the same entries -/
theorem perm_of_lookup_eq {m₁ m₂ : ResSet K} (h₁ : NodupKeys m₁) (h₂ : NodupKeys m₂)
    (h : ∀ k, m₁.lookup k = m₂.lookup k) : m₁.Perm m₂ := by
  rw [List.perm_ext_iff_of_nodup h₁.nodup h₂.nodup]
  rintro ⟨k, a⟩
  rw [mem_iff_lookup m₁ h₁, mem_iff_lookup m₂ h₂, h]

/-- the normal form depends only on the final map: the last value assigned to each key -/
theorem norm_ext {lt : K → K → Bool} (st : StrictTotal lt) (es₁ es₂ : List (K × Action))
    (h : ∀ k, lastVal k es₁ = lastVal k es₂) :
    sortBy (keyLt lt) (build es₁) = sortBy (keyLt lt) (build es₂) := by
  apply sorted_perm_eq st (sortBy_sorted st _ (build_nodupKeys es₁))
    (sortBy_sorted st _ (build_nodupKeys es₂))
  refine (sortBy_perm _ _).trans (List.Perm.trans ?_ (sortBy_perm _ _).symm)
  apply perm_of_lookup_eq (build_nodupKeys es₁) (build_nodupKeys es₂)
  intro k
  rw [build_lookup, build_lookup, h]

theorem assign_fresh (k : K) (a : Action) : ∀ m : ResSet K, (∀ e ∈ m, e.1 ≠ k) →
    assign k a m = m ++ [(k, a)]
  | [], _ => rfl
  | (k₁, a₁) :: rest, h => by
    have hne : (k₁ == k) = false := by
      cases hk : k₁ == k with
      | false => rfl
      | true => exact absurd (eq_of_beq hk) (h (k₁, a₁) List.mem_cons_self)
    simp only [assign, hne, Bool.false_eq_true, ↓reduceIte, List.cons_append]
    rw [assign_fresh k a rest (fun e he => h e (List.mem_cons_of_mem _ he))]

theorem foldl_assign_of_nodupKeys (es : List (K × Action)) : ∀ m : ResSet K, NodupKeys (m ++ es) →
    es.foldl (fun m e => assign e.1 e.2 m) m = m ++ es := by
  induction es with
  | nil => intro m _; simp
  | cons x es ih =>
    intro m h
    have hx : ∀ e ∈ m, e.1 ≠ x.1 := by
      intro e he
      have := List.pairwise_append.mp h
      exact this.2.2 e he x List.mem_cons_self
    rw [List.foldl_cons, assign_fresh x.1 x.2 m hx, ih]
    · simp
    · simpa using h

/-- a list with distinct keys builds itself -/
theorem build_of_nodupKeys (l : ResSet K) (h : NodupKeys l) : build l = l := by
  have := foldl_assign_of_nodupKeys l [] (by simpa using h)
  simpa [build] using this

/-- the fixed points of the normal form are exactly the strictly sorted lists -/
theorem norm_fix_iff {lt : K → K → Bool} (st : StrictTotal lt) (rs : ResSet K) :
    sortBy (keyLt lt) (build rs) = rs ↔ Sorted lt rs := by
  constructor
  · intro h
    rw [← h]
    exact sortBy_sorted st _ (build_nodupKeys rs)
  · intro h
    rw [build_of_nodupKeys rs (h.nodupKeys st), sortBy_of_sorted rs h]

theorem norm_sorted {lt : K → K → Bool} (st : StrictTotal lt) (es : List (K × Action)) :
    Sorted lt (sortBy (keyLt lt) (build es)) :=
  sortBy_sorted st _ (build_nodupKeys es)

/-- normalising twice is normalising once -/
theorem norm_idem {lt : K → K → Bool} (st : StrictTotal lt) (es : List (K × Action)) :
    sortBy (keyLt lt) (build (sortBy (keyLt lt) (build es))) = sortBy (keyLt lt) (build es) :=
  (norm_fix_iff st _).mpr (norm_sorted st es)

theorem mem_norm {lt : K → K → Bool} (es : List (K × Action)) (e : K × Action)
    (h : e ∈ sortBy (keyLt lt) (build es)) : e ∈ es :=
  mem_build es e ((mem_sortBy _ _ _).mp h)

theorem length_norm {lt : K → K → Bool} (es : List (K × Action)) :
    (sortBy (keyLt lt) (build es)).length ≤ es.length := by
  rw [length_sortBy]; exact length_build es

/-- two insertion orders of the same entries (keys distinct) give the same normal form -/
theorem norm_perm {lt : K → K → Bool} (st : StrictTotal lt) (es₁ es₂ : List (K × Action))
    (h₁ : NodupKeys es₁) (hp : es₁.Perm es₂) :
    sortBy (keyLt lt) (build es₁) = sortBy (keyLt lt) (build es₂) := by
  have h₂ : NodupKeys es₂ := List.Pairwise.perm h₁ hp (fun h e => h e.symm)
  rw [build_of_nodupKeys es₁ h₁, build_of_nodupKeys es₂ h₂]
  apply sorted_perm_eq st (sortBy_sorted st _ h₁) (sortBy_sorted st _ h₂)
  exact (sortBy_perm _ _).trans (hp.trans (sortBy_perm _ _).symm)

/-- assigning to a key overrides every earlier assignment to it and nothing else -/
theorem lastVal_append_singleton (k k' : K) (a : Action) (es : List (K × Action)) :
    lastVal k' (es ++ [(k, a)]) = if k == k' then some a else lastVal k' es := by
  induction es with
  | nil => simp [lastVal]
  | cons e es ih =>
    simp only [List.cons_append, lastVal, ih]
    cases hk : k == k' with
    | true => simp
    | false => simp

end generic

/-! ### the two instances -/

theorem ofEntriesStr_idem (es : List (Bytes × Action)) :
    ofEntriesStr (ofEntriesStr es) = ofEntriesStr es := norm_idem strictTotal_bytes es

theorem ofEntriesU64_idem (es : List (UInt64 × Action)) :
    ofEntriesU64 (ofEntriesU64 es) = ofEntriesU64 es := norm_idem strictTotal_u64 es

theorem ofEntriesStr_fix_iff (rs : ResSet Bytes) :
    ofEntriesStr rs = rs ↔ Sorted Bytes.lt rs := norm_fix_iff strictTotal_bytes rs

theorem ofEntriesU64_fix_iff (rs : ResSet UInt64) :
    ofEntriesU64 rs = rs ↔ Sorted (fun a b => decide (a < b)) rs := norm_fix_iff strictTotal_u64 rs

theorem ofEntriesStr_ext (es₁ es₂ : List (Bytes × Action))
    (h : ∀ k, lastVal k es₁ = lastVal k es₂) : ofEntriesStr es₁ = ofEntriesStr es₂ :=
  norm_ext strictTotal_bytes es₁ es₂ h

theorem ofEntriesU64_ext (es₁ es₂ : List (UInt64 × Action))
    (h : ∀ k, lastVal k es₁ = lastVal k es₂) : ofEntriesU64 es₁ = ofEntriesU64 es₂ :=
  norm_ext strictTotal_u64 es₁ es₂ h

theorem mem_ofEntriesStr (es : List (Bytes × Action)) (e) (h : e ∈ ofEntriesStr es) : e ∈ es :=
  mem_norm (lt := Bytes.lt) es e h

theorem length_ofEntriesStr (es : List (Bytes × Action)) : (ofEntriesStr es).length ≤ es.length :=
  length_norm (lt := Bytes.lt) es

theorem length_ofEntriesU64 (es : List (UInt64 × Action)) : (ofEntriesU64 es).length ≤ es.length :=
  length_norm (lt := fun a b => decide (a < b)) es

theorem ofEntriesStr_perm (es₁ es₂ : List (Bytes × Action)) (h₁ : NodupKeys es₁)
    (hp : es₁.Perm es₂) : ofEntriesStr es₁ = ofEntriesStr es₂ := norm_perm strictTotal_bytes es₁ es₂ h₁ hp

theorem ofEntriesU64_perm (es₁ es₂ : List (UInt64 × Action)) (h₁ : NodupKeys es₁)
    (hp : es₁.Perm es₂) : ofEntriesU64 es₁ = ofEntriesU64 es₂ := norm_perm strictTotal_u64 es₁ es₂ h₁ hp

theorem ofEntriesStr_sorted (es : List (Bytes × Action)) : Sorted Bytes.lt (ofEntriesStr es) :=
  norm_sorted strictTotal_bytes es

theorem ofEntriesU64_sorted (es : List (UInt64 × Action)) :
    Sorted (fun a b => decide (a < b)) (ofEntriesU64 es) := norm_sorted strictTotal_u64 es

/-- the final map as a lookup function: what `ofEntries*` retains of the assignment sequence -/
theorem ofEntriesStr_lookup (es : List (Bytes × Action)) (k : Bytes) :
    (ofEntriesStr es).lookup k = lastVal k es := by
  have hs := norm_sorted strictTotal_bytes es
  have hn := hs.nodupKeys strictTotal_bytes
  have hp : (ofEntriesStr es).Perm (build es) := sortBy_perm _ _
  cases h : lastVal k es with
  | none =>
    cases h' : (ofEntriesStr es).lookup k with
    | none => rfl
    | some a =>
      have := (mem_iff_lookup _ hn k a).mpr h'
      have := (mem_iff_lookup _ (build_nodupKeys es) k a).mp (hp.mem_iff.mp this)
      rw [build_lookup, h] at this; cases this
  | some a =>
    have : (k, a) ∈ build es := (mem_iff_lookup _ (build_nodupKeys es) k a).mpr (by rw [build_lookup, h])
    exact (mem_iff_lookup _ hn k a).mp (hp.mem_iff.mpr this)

theorem ofEntriesU64_lookup (es : List (UInt64 × Action)) (k : UInt64) :
    (ofEntriesU64 es).lookup k = lastVal k es := by
  have hs := norm_sorted strictTotal_u64 es
  have hn := hs.nodupKeys strictTotal_u64
  have hp : (ofEntriesU64 es).Perm (build es) := sortBy_perm _ _
  cases h : lastVal k es with
  | none =>
    cases h' : (ofEntriesU64 es).lookup k with
    | none => rfl
    | some a =>
      have := (mem_iff_lookup _ hn k a).mpr h'
      have := (mem_iff_lookup _ (build_nodupKeys es) k a).mp (hp.mem_iff.mp this)
      rw [build_lookup, h] at this; cases this
  | some a =>
    have : (k, a) ∈ build es := (mem_iff_lookup _ (build_nodupKeys es) k a).mpr (by rw [build_lookup, h])
    exact (mem_iff_lookup _ hn k a).mp (hp.mem_iff.mpr this)

end Codec
end Macaroon
