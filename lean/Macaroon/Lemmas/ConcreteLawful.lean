/-
`LawfulCrypto Bytes`: the concrete instance of the token logic (Token/Concrete.lean — HMAC-SHA256,
SHA-256, ChaCha20-Poly1305 and the msgpack codec, the instance compiled into the driver and tied to
the Go code by differential execution) satisfies the laws of the interface.  Hence every generic
theorem carrying `[LawfulCrypto B]` (Props/C02, C04, C05, C06; Lemmas/Legit) holds for the concrete
model; the headline corollaries are spelled out in Props/Concrete.lean.

The domain predicates: a key is a 32-byte string, a nonce a 12-byte string, a ticket body a
discharge key and a caveat set within the encoder's domain and the decoder's budget.
Core Lean only; proofs only.
-/
import Macaroon.Lemmas.ConcreteCrypto

namespace Macaroon
open Macaroon.Lemmas

instance : LawfulCrypto Bytes where
  okKey k := k.length = 32
  okNonce n := n.length = 12
  okTicketBody dk cs := ConcreteCrypto.TicketBodyOK dk cs
  okKey_macNonce := ConcreteCrypto.macNonce_length
  okKey_macCav := ConcreteCrypto.macCav_length
  okKey_finalize := ConcreteCrypto.finalize_length
  ctEq_iff := ConcreteCrypto.ctEq_iff
  kidEq_iff := ConcreteCrypto.kidEq_iff
  unsealKey_sealKey := ConcreteCrypto.unsealKey_sealKey
  openTicket_sealTicket := ConcreteCrypto.openTicket_sealTicket
  hasPrefix_bindId := ConcreteCrypto.hasPrefix_bindId
  sameEnc_mac := ConcreteCrypto.sameEnc_mac
  macCav_isSome := ConcreteCrypto.macCav_isSome

namespace Lemmas.ConcreteCrypto

/-- what the domain predicates mean for bytes (by definition) -/
theorem okKey_iff (k : Bytes) : LawfulCrypto.okKey k ↔ k.length = 32 := Iff.rfl
theorem okNonce_iff (n : Bytes) : LawfulCrypto.okNonce n ↔ n.length = 12 := Iff.rfl
theorem okTicketBody_iff (dk : Bytes) (cs : List (Cav Bytes)) :
    LawfulCrypto.okTicketBody dk cs ↔ dk.length < 2 ^ 32 ∧ WFCavs cs ∧ 1 + encDepth cs ≤ defaultFuel := Iff.rfl

end Lemmas.ConcreteCrypto
end Macaroon

#print axioms Macaroon.instLawfulCryptoBytes
