/-
C12: well-formedness of accepted caveat sets reaches the caveats nested inside wrappers.
-/
import Macaroon.Lemmas.Hostile
import Macaroon.Lemmas.Scopes

namespace Macaroon.Lemmas
open Macaroon Macaroon.Msgpack Macaroon.Codec Macaroon.Dec

theorem wfCavL_toList : ∀ (l : CavList Bytes), WFCavL l = true → ∀ c ∈ l.toList, WFCav c = true
  | .nil, _, c, hc => by simp [CavList.toList] at hc
  | .cons d ds, h, c, hc => by
    simp only [WFCavL, Bool.and_eq_true] at h
    simp only [CavList.toList, List.mem_cons] at hc
    rcases hc with rfl | hc
    · exact h.1
    · exact wfCavL_toList ds h.2 c hc

/-- well-formedness of a set covers every caveat nested in it, at any depth -/
theorem wfCav_of_nested {c : Cav Bytes} {cs : List (Cav Bytes)} (hn : Nested c cs)
    (hw : ∀ x ∈ cs, WFCav x = true) : WFCav c = true := by
  induction hn with
  | here hm => exact hw _ hm
  | inside hm _ ih =>
    apply ih
    have := hw _ hm
    simp only [WFCav, Bool.and_eq_true] at this
    exact wfCavL_toList _ this.2

end Macaroon.Lemmas
