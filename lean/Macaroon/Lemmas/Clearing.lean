/-
Helper lemmas about the clearing layer (used by Props/C03, C09, C10, C17, C18).
-/
import Macaroon.Caveat.Prohibits

namespace Macaroon.Lemmas
open Macaroon

theorem resset_none_denies {K} (z : K → Bool) (m : K → K → Bool) (rs : ResSet K) (act : Action) :
    ResSet.prohibits z m rs none act ≠ [] := by
  unfold ResSet.prohibits; split <;> simp

theorem viaGetter_denies {K} (g : Option (Option K)) (act : Option Action) (k : Option K → Action → Errs)
    (hk : ∀ a, k none a ≠ []) (h : act.isSome = false ∨ (g.bind id).isSome = false) :
    viaGetter g act k ≠ [] := by
  unfold viaGetter
  cases g with
  | none => simp
  | some o =>
    cases act with
    | none => simp
    | some a =>
      cases o with
      | none => simpa using hk a
      | some v => simp at h

theorem flySrcField_denies (want : Bytes) (g : Option (Option Bytes))
    (h : want.isEmpty = false ∧ (g.bind id).isSome = false) : flySrcField want g ≠ [] := by
  unfold flySrcField
  obtain ⟨h1, h2⟩ := h
  simp [h1]
  cases g with
  | none => simp
  | some o => cases o with
    | none => simp
    | some v => simp at h2


/-! ### action masks -/

theorem subset_iff (a b : Action) : a.subset b = true ↔ a &&& b = a := by simp [Action.subset]

theorem subset_and (a p q : Action) : a.subset (p &&& q) = true ↔ a.subset p = true ∧ a.subset q = true := by
  simp only [subset_iff]
  constructor
  · intro h
    constructor
    · have : a &&& p = (a &&& (p &&& q)) &&& p := by rw [h]
      rw [this, UInt16.and_assoc, UInt16.and_assoc, UInt16.and_comm q p, ← UInt16.and_assoc p, UInt16.and_self, h]
    · have : a &&& q = (a &&& (p &&& q)) &&& q := by rw [h]
      rw [this, UInt16.and_assoc, UInt16.and_assoc, UInt16.and_self, h]
  · rintro ⟨hp, hq⟩
    rw [← UInt16.and_assoc, hp, hq]

theorem subset_allOnes (a : Action) : a.subset 0xffff = true := by
  have : (0xffff : UInt16) = -1 := by decide
  rw [subset_iff, this]; exact UInt16.and_neg_one

/-- monotonicity of masks: a sub-action of a permitted action is permitted -/
theorem subset_trans_left (a' a m : Action) (h' : a'.subset a = true) (h : a.subset m = true) :
    a'.subset m = true := by
  rw [subset_iff] at *
  calc a' &&& m = (a' &&& a) &&& m := by rw [h']
    _ = a' &&& (a &&& m) := UInt16.and_assoc ..
    _ = a' &&& a := by rw [h]
    _ = a' := h'

theorem subset_foldl {K} (a p0 : Action) (es : ResSet K) :
    a.subset (es.foldl (fun p e => p &&& e.2) p0) = true ↔ a.subset p0 = true ∧ ∀ e ∈ es, a.subset e.2 = true := by
  induction es generalizing p0 with
  | nil => simp
  | cons e es ih =>
    simp only [List.foldl_cons, ih, subset_and, List.mem_cons, forall_eq_or_imp]
    constructor
    · rintro ⟨⟨h1, h2⟩, h3⟩; exact ⟨h1, h2, h3⟩
    · rintro ⟨h1, h2, h3⟩; exact ⟨⟨h1, h2⟩, h3⟩

/-- the requested bits lie within the intersection of the masks iff within every mask -/
theorem subset_perm {K} (a : Action) (es : ResSet K) :
    a.subset (ResSet.perm es) = true ↔ ∀ e ∈ es, a.subset e.2 = true := by
  unfold ResSet.perm
  rw [subset_foldl]; simp [subset_allOnes]

/-! ### conditionals -/

/-- the inner caveats of a conditional that "concern a resource the request specifies" -/
def applicable {B} (ifs : List (Cav B)) (a : Access) : List (Cav B) :=
  ifs.filter fun c => !(prohibits c a).is .resUnspecified

theorem ifLoop_eq {B} : (ifs : CavList B) → (a : Access) →
    ifLoop ifs a = ((applicable ifs.toList a).flatMap (fun c => prohibits c a), !(applicable ifs.toList a).isEmpty)
  | .nil, a => by simp [ifLoop, applicable, CavList.toList]
  | .cons c cs, a => by
    have ih := ifLoop_eq cs a
    unfold ifLoop
    simp only [CavList.toList, applicable, List.filter_cons] at ih ⊢
    by_cases h : (prohibits c a).is .resUnspecified = true
    · simp [h, ih]
    · simp at h; simp [h, ih]

theorem errs_is_append (x y : Errs) (s : Sentinel) : (x ++ y).is s = (x.is s || y.is s) := by
  simp [Errs.is]

theorem errs_is_flatMap {α} (l : List α) (f : α → Errs) (s : Sentinel) :
    Errs.is (l.flatMap f) s = l.any (fun x => (f x).is s) := by
  induction l with
  | nil => simp [Errs.is]
  | cons x xs ih => simp only [List.flatMap_cons, errs_is_append, ih, List.any_cons]

end Macaroon.Lemmas
