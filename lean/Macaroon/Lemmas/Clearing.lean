/-
Helper lemmas about the clearing layer (used by Props/C03, C09, C10, C17, C18).
-/
import Macaroon.Caveat.Prohibits

namespace Macaroon.Lemmas
open Macaroon

theorem resset_none_denies {K} (z : K → Bool) (m : K → K → Bool) (rs : ResSet K) (act : Action) :
    ResSet.prohibits z m rs none act ≠ [] := by
  unfold ResSet.prohibits; split <;> simp

theorem viaGetter_denies {K} (g : Option (Option K)) (act : Option Action) (k : Option K → Action → Errs)
    (hk : ∀ a, k none a ≠ []) (h : act.isSome = false ∨ (g.bind id).isSome = false) :
    viaGetter g act k ≠ [] := by
  unfold viaGetter
  cases g with
  | none => simp
  | some o =>
    cases act with
    | none => simp
    | some a =>
      cases o with
      | none => simpa using hk a
      | some v => simp at h

theorem flySrcField_denies (want : Bytes) (g : Option (Option Bytes))
    (h : want.isEmpty = false ∧ (g.bind id).isSome = false) : flySrcField want g ≠ [] := by
  unfold flySrcField
  obtain ⟨h1, h2⟩ := h
  simp [h1]
  cases g with
  | none => simp
  | some o => cases o with
    | none => simp
    | some v => simp at h2


end Macaroon.Lemmas
