/-
Generic lemmas (any `Crypto B`, laws where marked) for C02 and C05: `add` as an extension of the
caveat list and of the MAC chain (`add_shape`), de-duplication, the first loop of `verify` over
an appended list, binding ids, legitimately produced tokens (`Legit`) and discharges (`LegitDis`)
and their acceptance with the exact returned list, attenuation monotonicity.
Core Lean only.
-/
import Macaroon.Lemmas.Token

set_option linter.unusedSectionVars false

namespace Macaroon.Lemmas
open Macaroon Macaroon.Crypto
variable {B : Type} [Crypto B]

/-! ### classifiers -/

theorem tpFields?_none_iff (c : Cav B) : tpFields? c = none ↔ c.is3P = false := by
  cases c <;> simp [tpFields?, Cav.is3P]

theorem bindId?_none_iff (c : Cav B) : bindId? c = none ↔ c.isBind = false := by
  cases c <;> simp [bindId?, Cav.isBind]

theorem tpFields?_some (c : Cav B) (vk ticket : B) (h : tpFields? c = some (vk, ticket)) :
    ∃ loc, c = .tp loc vk ticket := by
  cases c <;> simp [tpFields?] at h
  case tp loc vk' t' => obtain ⟨rfl, rfl⟩ := h; exact ⟨loc, rfl⟩

theorem bindId?_some (c : Cav B) (id : B) (h : bindId? c = some id) : c = .bind id := by
  cases c <;> simp [bindId?] at h
  case bind id' => rw [h]

/-- an ordinary caveat: first-party, not a binding, not an attestation, no attestation wrapped -/
def ordinary (c : Cav B) : Bool :=
  !c.is3P && !c.isBind && !c.isAttestation && !c.wrapsAttestation

theorem ordinary_iff (c : Cav B) : ordinary c = true ↔
    c.is3P = false ∧ c.isBind = false ∧ c.isAttestation = false ∧ c.wrapsAttestation = false := by
  simp [ordinary, and_assoc]

theorem kept_of_ordinary (c : Cav B) (ta : Bool) (h : ordinary c = true) : kept ta c = true := by
  obtain ⟨h1, h2, h3, _⟩ := (ordinary_iff c).mp h
  simp [kept, h1, h2, h3]

/-- the per-caveat test does not look at the running tail unless the caveat is third-party -/
theorem stepOK_tail_indep (p : Bool) (l : B → Option (List (Mac B))) (pids : List B) (t t' : B) (c : Cav B)
    (h : c.is3P = false) : stepOK p l pids t c = stepOK p l pids t' c := by
  have := (tpFields?_none_iff c).mpr h
  simp [stepOK, this]

theorem stepOK_ordinary (p : Bool) (l : B → Option (List (Mac B))) (pids : List B) (t : B) (c : Cav B)
    (h : ordinary c = true) : stepOK p l pids t c = true := by
  obtain ⟨h1, h2, h3, h4⟩ := (ordinary_iff c).mp h
  simp [stepOK, (tpFields?_none_iff c).mpr h1, (bindId?_none_iff c).mpr h2, h3, h4]

/-! ### the first loop over an appended list -/

theorem walkOK_append (p : Bool) (l : B → Option (List (Mac B))) (pids : List B) (t : B) (xs ys : List (Cav B)) :
    walkOK p l pids t (xs ++ ys) =
      (walkOK p l pids t xs && match chain t xs with
        | some t' => walkOK p l pids t' ys
        | none => false) := by
  induction xs generalizing t with
  | nil => simp [walkOK, chain]
  | cons x xs ih =>
    simp only [List.cons_append, walkOK, chain]
    cases hm : macCav t x with
    | none => simp
    | some t1 => simp [ih, Bool.and_assoc]

theorem pendOf_append (l : B → Option (List (Mac B))) (t : B) (xs ys : List (Cav B)) (t' : B)
    (h : chain t xs = some t') : pendOf l t (xs ++ ys) = pendOf l t xs ++ pendOf l t' ys := by
  induction xs generalizing t with
  | nil => simp [chain] at h; subst h; simp [pendOf]
  | cons x xs ih =>
    simp only [chain] at h
    cases hm : macCav t x with
    | none => simp [hm] at h
    | some t1 =>
      simp only [hm, Option.bind_some] at h
      simp [pendOf, hm, ih t1 h, List.append_assoc]

theorem chain_append_some (t : B) (xs ys : List (Cav B)) (r : B) (h : chain t (xs ++ ys) = some r) :
    ∃ t', chain t xs = some t' ∧ chain t' ys = some r := by
  rw [chain_append] at h
  cases hx : chain t xs with
  | none => simp [hx] at h
  | some t' => exact ⟨t', rfl, by simpa [hx] using h⟩

/-! ### binding ids: more offered ids never hurt, and only binding caveats look at them -/

theorem stepOK_mono_ids (p : Bool) (l : B → Option (List (Mac B))) (ids ids' : List B) (t : B) (c : Cav B)
    (hsub : ∀ i ∈ ids, i ∈ ids') (h : stepOK p l ids t c = true) : stepOK p l ids' t c = true := by
  unfold stepOK at h ⊢
  cases h3 : tpFields? c with
  | some vt => simpa [h3] using h
  | none =>
    cases hb : bindId? c with
    | none => simpa [h3, hb] using h
    | some id =>
      simp only [h3, hb, List.any_eq_true] at h ⊢
      obtain ⟨bid, hm, hp⟩ := h
      exact ⟨bid, hsub bid hm, hp⟩

theorem walkOK_mono_ids (p : Bool) (l : B → Option (List (Mac B))) (ids ids' : List B) (t : B) (cs : List (Cav B))
    (hsub : ∀ i ∈ ids, i ∈ ids') (h : walkOK p l ids t cs = true) : walkOK p l ids' t cs = true := by
  induction cs generalizing t with
  | nil => rfl
  | cons c cs ih =>
    simp only [walkOK, Bool.and_eq_true] at h ⊢
    refine ⟨stepOK_mono_ids p l ids ids' t c hsub h.1, ?_⟩
    cases hm : macCav t c with
    | none => simp [hm] at h
    | some t' => simp only [hm] at h; exact ih t' h.2

/-- more offered ids never hurt a discharge: the binding tests are existential -/
theorem verifyFlat_mono_ids (key : B) (d : Mac B) (ids ids' : List B) (ta : Bool) (cs : List (Cav B))
    (hv : verifyFlat key d ids ta = .ok cs) (hsub : ∀ i ∈ ids, i ∈ ids') :
    verifyFlat key d ids' ta = .ok cs := by
  obtain ⟨h1, h2, t, h3, h4, h5⟩ := (verifyFlat_ok_iff key d ids ta cs).mp hv
  exact (verifyFlat_ok_iff key d ids' ta cs).mpr ⟨h1, walkOK_mono_ids _ _ ids ids' _ _ hsub h2, t, h3, h4, h5⟩

/-- id lists that satisfy the same binding caveats of the discharge give the same verdict -/
theorem walk_ids_congr (proof ta : Bool) (l : B → Option (List (Mac B))) (ids ids' : List B)
    (cs : List (Cav B)) (s : WalkState B)
    (h : ∀ id, Cav.bind id ∈ cs → ids.any (fun bid => hasPrefix bid id) = ids'.any (fun bid => hasPrefix bid id)) :
    walk proof ta l ids cs s = walk proof ta l ids' cs s := by
  induction cs generalizing s with
  | nil => rfl
  | cons c cs ih =>
    have ih' := fun s => ih s (fun id hm => h id (List.mem_cons_of_mem _ hm))
    cases c <;> simp only [walk, ih']
    case bind id => rw [h id (by simp)]

theorem verifyFlat_ids_congr (key : B) (d : Mac B) (ids ids' : List B) (ta : Bool)
    (h : ∀ id, Cav.bind id ∈ d.cavs → ids.any (fun bid => hasPrefix bid id) = ids'.any (fun bid => hasPrefix bid id)) :
    verifyFlat key d ids ta = verifyFlat key d ids' ta := by
  dsimp only [verifyFlat]
  rw [walk_ids_congr _ _ _ ids ids' _ _ h]

/-! ### `add`: only appends, and re-keys the tail along the MAC chain -/

/-- the caveat an argument of `Add` becomes when it is appended at tail `t`: a new third-party
caveat gets its VerifierKey sealed under the tail BEFORE it -/
def AddItem.cavAt (t : B) : AddItem B → Cav B
  | .plain c => c
  | .new3p loc ticket rn nonce => .tp loc (sealKey t nonce rn) ticket

/-- the caveats `Add` appends for the (de-duplicated) arguments, starting at tail `t` -/
def realise : B → List (AddItem B) → List (Cav B)
  | _, [] => []
  | t, it :: rest =>
    AddItem.cavAt t it ::
      match macCav t (AddItem.cavAt t it) with
      | none => []
      | some t' => realise t' rest

/-- the loop of `Add` never touches nonce, location or the proof state, and only appends -/
theorem addLoop_frame : ∀ (its : List (AddItem B)) (m : Mac B) (seen : List Bytes),
    (addLoop its m seen).1.nonce = m.nonce ∧ (addLoop its m seen).1.loc = m.loc ∧
    (addLoop its m seen).1.newProof = m.newProof ∧ ∃ ys, (addLoop its m seen).1.cavs = m.cavs ++ ys
  | [], m, seen => ⟨rfl, rfl, rfl, [], by simp [addLoop]⟩
  | it :: rest, m, seen => by
    unfold addLoop
    cases it with
    | plain c =>
      simp only
      split
      · exact ⟨rfl, rfl, rfl, [], by simp⟩
      · split
        · exact ⟨rfl, rfl, rfl, [], by simp⟩
        · split
          · exact ⟨rfl, rfl, rfl, [c], rfl⟩
          · rename_i t _
            obtain ⟨h1, h2, h3, ys, h4⟩ := addLoop_frame rest { m with cavs := m.cavs ++ [c], tail := t } seen
            exact ⟨h1, h2, h3, c :: ys, by rw [h4]; simp⟩
    | new3p loc ticket rn nonce =>
      simp only
      split
      · exact ⟨rfl, rfl, rfl, [], by simp⟩
      · split
        · exact ⟨rfl, rfl, rfl, [.tp loc (sealKey m.tail nonce rn) ticket], rfl⟩
        · rename_i t _
          obtain ⟨h1, h2, h3, ys, h4⟩ := addLoop_frame rest
            { m with cavs := m.cavs ++ [.tp loc (sealKey m.tail nonce rn) ticket], tail := t } (seen ++ [loc])
          exact ⟨h1, h2, h3, .tp loc (sealKey m.tail nonce rn) ticket :: ys, by rw [h4]; simp⟩

/-- a successful run of the loop appends exactly `realise` and moves the tail along the chain -/
theorem addLoop_ok : ∀ (its : List (AddItem B)) (m m' : Mac B) (seen : List Bytes),
    addLoop its m seen = (m', none) →
    ∃ t', chain m.tail (realise m.tail its) = some t' ∧
      m' = { m with cavs := m.cavs ++ realise m.tail its, tail := t' }
  | [], m, m', seen, h => by
    simp only [addLoop, Prod.mk.injEq, and_true] at h
    subst h
    exact ⟨m.tail, rfl, by simp [realise]⟩
  | it :: rest, m, m', seen, h => by
    unfold addLoop at h
    cases it with
    | plain c =>
      simp only at h
      split at h
      · simp at h
      · split at h
        · simp at h
        · split at h
          · simp at h
          · rename_i t ht
            obtain ⟨t', hc, hm⟩ := addLoop_ok rest _ m' seen h
            refine ⟨t', ?_, ?_⟩
            · simpa [realise, AddItem.cavAt, chain, ht] using hc
            · rw [hm]; simp [realise, AddItem.cavAt, ht]
    | new3p loc ticket rn nonce =>
      simp only at h
      split at h
      · simp at h
      · split at h
        · simp at h
        · rename_i t ht
          obtain ⟨t', hc, hm⟩ := addLoop_ok rest _ m' (seen ++ [loc]) h
          refine ⟨t', ?_, ?_⟩
          · simpa [realise, AddItem.cavAt, chain, ht] using hc
          · rw [hm]; simp [realise, AddItem.cavAt, ht]

/-- `add` never removes or alters anything, successful or not: nonce, location and proof state
stay, and the old caveat list is a prefix of the new one -/
theorem add_frame (m : Mac B) (items : List (AddItem B)) :
    (add m items).1.nonce = m.nonce ∧ (add m items).1.loc = m.loc ∧
    (add m items).1.newProof = m.newProof ∧ ∃ ys, (add m items).1.cavs = m.cavs ++ ys := by
  unfold add
  split
  · exact ⟨rfl, rfl, rfl, [], by simp⟩
  · split
    · exact ⟨rfl, rfl, rfl, [], by simp⟩
    · exact addLoop_frame _ _ _

/-- `add_shape`: a successful `Add` keeps the nonce, appends the de-duplicated arguments (each
new third-party caveat with its VerifierKey sealed under the tail before it) and the new tail is
the MAC chain of the old tail over exactly the appended caveats -/
theorem add_shape (m m' : Mac B) (items : List (AddItem B)) (h : add m items = (m', none)) :
    (m.nonce.proof && !m.newProof) = false ∧ allEncodable m items = true ∧
    ∃ t', chain m.tail (realise m.tail (dedup m.cavs items [])) = some t' ∧
      m' = { m with cavs := m.cavs ++ realise m.tail (dedup m.cavs items []), tail := t' } := by
  unfold add at h
  split at h
  · simp at h
  · rename_i h1
    split at h
    · simp at h
    · rename_i h2
      refine ⟨by simpa using h1, by simpa using h2, addLoop_ok _ _ _ _ h⟩

/-! ### de-duplication -/

theorem dedup_subset (ex : List (Cav B)) : ∀ (its : List (AddItem B)) (seen : List (Cav B)),
    ∀ it ∈ dedup ex its seen, it ∈ its
  | [], _, it, h => by simp [dedup] at h
  | i :: rest, seen, it, h => by
    unfold dedup at h
    split at h
    · exact List.mem_cons_of_mem _ (dedup_subset ex rest seen it h)
    · simp only [List.mem_cons] at h
      rcases h with rfl | h
      · simp
      · exact List.mem_cons_of_mem _ (dedup_subset ex rest _ it h)

/-- arguments whose encodings are all in the token already are dropped altogether -/
theorem dedup_all_present (ex : List (Cav B)) : ∀ (its : List (AddItem B)) (seen : List (Cav B)),
    (∀ it ∈ its, ex.any (fun c => sameEnc c it.asCav) = true) → dedup ex its seen = []
  | [], _, _ => rfl
  | i :: rest, seen, h => by
    unfold dedup
    have : (ex ++ seen).any (fun c => sameEnc c i.asCav) = true := by
      rw [List.any_append, h i (by simp)]; rfl
    rw [if_pos this]
    exact dedup_all_present ex rest seen (fun it hm => h it (List.mem_cons_of_mem _ hm))

/-- "duplicates collapsed": add the caveats one by one, skipping those whose encoding is present -/
def collapse : List (Cav B) → List (Cav B) → List (Cav B)
  | acc, [] => acc
  | acc, c :: cs => if acc.any (fun x => sameEnc x c) then collapse acc cs else collapse (acc ++ [c]) cs

theorem collapse_append (acc xs ys : List (Cav B)) :
    collapse acc (xs ++ ys) = collapse (collapse acc xs) ys := by
  induction xs generalizing acc with
  | nil => rfl
  | cons x xs ih =>
    simp only [List.cons_append, collapse]
    split <;> exact ih _

/-- `dedup` on ordinary arguments is `collapse` -/
theorem dedup_plain_collapse (ex : List (Cav B)) : ∀ (cs seen : List (Cav B)),
    (ex ++ seen) ++ (dedup ex (cs.map AddItem.plain) seen).map AddItem.asCav = collapse (ex ++ seen) cs
  | [], seen => by simp [dedup, collapse]
  | c :: cs, seen => by
    by_cases hd : (ex ++ seen).any (fun x => sameEnc x c) = true
    · have h1 : dedup ex ((c :: cs).map AddItem.plain) seen = dedup ex (cs.map AddItem.plain) seen := by
        simp only [List.map_cons, dedup]; exact if_pos hd
      have h2 : collapse (ex ++ seen) (c :: cs) = collapse (ex ++ seen) cs := by
        simp only [collapse]; rw [if_pos hd]
      rw [h1, h2]; exact dedup_plain_collapse ex cs seen
    · have h1 : dedup ex ((c :: cs).map AddItem.plain) seen =
          .plain c :: dedup ex (cs.map AddItem.plain) (seen ++ [c]) := by
        simp only [List.map_cons, dedup]; exact if_neg hd
      have h2 : collapse (ex ++ seen) (c :: cs) = collapse (ex ++ seen ++ [c]) cs := by
        simp only [collapse]; rw [if_neg hd]
      have := dedup_plain_collapse ex cs (seen ++ [c])
      rw [← List.append_assoc ex seen [c]] at this
      rw [h1, h2, ← this]; simp [AddItem.asCav]

/-- what `realise` makes of arguments that are all plain: the caveats themselves, as long as they can be MACed -/
theorem realise_plain : ∀ (t : B) (its : List (AddItem B)) (r : B),
    (∀ it ∈ its, ∃ c, it = .plain c) → chain t (realise t its) = some r → realise t its = its.map AddItem.asCav
  | _, [], _, _, _ => rfl
  | t, it :: rest, r, hp, hc => by
    obtain ⟨c, rfl⟩ := hp it (by simp)
    simp only [realise, AddItem.cavAt, chain] at hc ⊢
    cases hm : macCav t c with
    | none => simp [hm] at hc
    | some t' =>
      simp only [hm, Option.bind_some] at hc
      simp only [List.map_cons, AddItem.asCav, List.cons.injEq, true_and]
      exact realise_plain t' rest r (fun it hm => hp it (List.mem_cons_of_mem _ hm)) hc

/-! ### one `Add` call: identical re-add, near-duplicate, enforcement -/

/-- re-adding caveats whose encodings are all in the token already changes nothing -/
theorem add_present_noop (m : Mac B) (items : List (AddItem B))
    (hf : (m.nonce.proof && !m.newProof) = false) (he : allEncodable m items = true)
    (hp : ∀ it ∈ items, m.cavs.any (fun c => sameEnc c it.asCav) = true) : add m items = (m, none) := by
  unfold add
  rw [if_neg (by simp [hf]), if_neg (by simp [he]), dedup_all_present m.cavs items [] hp]
  rfl

theorem dedup_single (ex : List (Cav B)) (it : AddItem B) :
    dedup ex [it] [] = if ex.any (fun c => sameEnc c it.asCav) then [] else [it] := by
  simp [dedup]

/-- a caveat whose encoding is not in the token yet is appended, whatever else it shares with one that is -/
theorem add_fresh_plain (m : Mac B) (c : Cav B)
    (hf : (m.nonce.proof && !m.newProof) = false) (he : allEncodable m [.plain c] = true)
    (hn : m.cavs.any (fun x => sameEnc x c) = false)
    (ha : (c.isAttestation && !m.nonce.proof) = false) (hw : c.wrapsAttestation = false) :
    ∃ t, macCav m.tail c = some t ∧
      add m [.plain c] = ({ m with cavs := m.cavs ++ [c], tail := t }, none) := by
  have hsome : (macCav m.tail c).isSome = true := by
    simp only [allEncodable, List.map_cons, List.map_nil, AddItem.asCav, List.all_append, List.all_cons,
      List.all_nil, Bool.and_true, Bool.and_eq_true] at he
    exact he.2
  obtain ⟨t, ht⟩ := Option.isSome_iff_exists.mp hsome
  refine ⟨t, ht, ?_⟩
  unfold add
  rw [if_neg (by simp [hf]), if_neg (by simp [he]), dedup_single]
  simp only [AddItem.asCav, hn, Bool.false_eq_true, ↓reduceIte, addLoop, ha, hw, ht]

/-- what one successful `Add` of one ordinary-typed argument does: nothing if its encoding is present, else append -/
theorem add_one_plain (m m' : Mac B) (c : Cav B) (h : add m [.plain c] = (m', none)) :
    (m' = m ∧ ∃ x ∈ m.cavs, sameEnc x c = true) ∨
    (m.cavs.any (fun x => sameEnc x c) = false ∧ ∃ t, macCav m.tail c = some t ∧
      m' = { m with cavs := m.cavs ++ [c], tail := t }) := by
  obtain ⟨_, _, t', hc, hm⟩ := add_shape m m' _ h
  rw [dedup_single] at hc hm
  by_cases hp : m.cavs.any (fun x => sameEnc x c) = true
  · left
    simp only [AddItem.asCav, hp, ↓reduceIte, realise, chain, Option.some.injEq, List.append_nil] at hc hm
    subst hc
    exact ⟨hm, by simpa using hp⟩
  · right
    simp only [Bool.not_eq_true] at hp
    simp only [AddItem.asCav, hp, Bool.false_eq_true, ↓reduceIte, realise, AddItem.cavAt, chain] at hc hm
    cases hmc : macCav m.tail c with
    | none => simp [hmc] at hc
    | some t =>
      simp only [hmc, Option.bind_some, chain, Option.some.injEq] at hc hm
      subst hc
      exact ⟨hp, t, rfl, hm⟩

theorem add_one_3p (m m' : Mac B) (loc : Bytes) (ticket rn nonce : B)
    (h : add m [.new3p loc ticket rn nonce] = (m', none)) :
    (m' = m ∧ ∃ x ∈ m.cavs, sameEnc x (.tp loc Crypto.empty ticket) = true) ∨
    (∃ t, m' = { m with cavs := m.cavs ++ [.tp loc (sealKey m.tail nonce rn) ticket], tail := t }) := by
  obtain ⟨_, _, t', hc, hm⟩ := add_shape m m' _ h
  rw [dedup_single] at hc hm
  by_cases hp : m.cavs.any (fun x => sameEnc x (.tp loc Crypto.empty ticket)) = true
  · left
    simp only [AddItem.asCav, hp, ↓reduceIte, realise, chain, Option.some.injEq, List.append_nil] at hc hm
    subst hc
    exact ⟨hm, by simpa using hp⟩
  · right
    simp only [Bool.not_eq_true] at hp
    simp only [AddItem.asCav, hp, Bool.false_eq_true, ↓reduceIte, realise, AddItem.cavAt, chain] at hc hm
    cases hmc : macCav m.tail (.tp loc (sealKey m.tail nonce rn) ticket) with
    | none => simp [hmc] at hc
    | some t =>
      simp only [hmc] at hm
      exact ⟨t', hm⟩

theorem walkOK_mem (p : Bool) (l : B → Option (List (Mac B))) (pids : List B) (t : B) (cs : List (Cav B))
    (h : walkOK p l pids t cs = true) (c : Cav B) (hc : c ∈ cs) : ∃ t', stepOK p l pids t' c = true := by
  induction cs generalizing t with
  | nil => cases hc
  | cons x xs ih =>
    simp only [walkOK, Bool.and_eq_true] at h
    simp only [List.mem_cons] at hc
    rcases hc with rfl | hc
    · exact ⟨t, h.1⟩
    · cases hm : macCav t x with
      | none => simp [hm] at h
      | some t' => simp only [hm] at h; exact ih t' h.2 hc

/-- every kept caveat of an accepted token is in the verification result -/
theorem verify_returns_kept (k : B) (m : Mac B) (dms : List (Mac B)) (tr : Bytes → List B) (cs : List (Cav B))
    (hv : verify k m dms tr = .ok cs) (c : Cav B) (hc : c ∈ m.cavs) (hk : kept true c = true) : c ∈ cs := by
  obtain ⟨_, _, t, _, _, css, _, rfl⟩ := (verifyWith_ok_iff k m dms [] true tr cs).mp hv
  exact List.mem_append_left _ (List.mem_filter.mpr ⟨hc, hk⟩)

/-- a third-party caveat anywhere in an accepted token had a presented discharge carrying its ticket -/
theorem tp_demands_discharge (k : B) (m : Mac B) (dms : List (Mac B)) (tr : Bytes → List B) (cs : List (Cav B))
    (hv : verify k m dms tr = .ok cs) (loc : Bytes) (vk ticket : B) (hc : Cav.tp loc vk ticket ∈ m.cavs) :
    ∃ d ∈ dms, kidEq d.nonce.kid ticket = true := by
  obtain ⟨_, hok, _⟩ := (verifyWith_ok_iff k m dms [] true tr cs).mp hv
  obtain ⟨t', hs⟩ := walkOK_mem _ _ _ _ _ hok _ hc
  simp only [stepOK, tpFields?, Bool.and_eq_true, Option.isSome_iff_exists] at hs
  obtain ⟨⟨ds, hds⟩, _⟩ := hs
  obtain ⟨hne, hall⟩ := mem_byTicket dms ticket ds hds
  cases ds with
  | nil => exact absurd rfl hne
  | cons d rest => exact ⟨d, (hall d (by simp)).1, (hall d (by simp)).2⟩

/-! ### minting; both nonce formats -/

/-- `newMacaroon` with the nonce version as a parameter (0: the old two-field format, which only
decoding produces; 1: what `New` writes).  `mintV … 1 … = mint …`. -/
def mintV (key kid : B) (loc : Bytes) (rnd : B) (ver : Nat) (isProof : Bool) : Mac B :=
  let n : GNonce B := { kid, rnd, version := ver, proof := isProof }
  { nonce := n, loc, cavs := [], tail := macNonce key n, newProof := isProof }

theorem mintV_one (key kid : B) (loc : Bytes) (rnd : B) (p : Bool) : mintV key kid loc rnd 1 p = mint key kid loc rnd p := rfl

theorem mintV_verifies [LawfulCrypto B] (k kid : B) (loc : Bytes) (rnd : B) (ver : Nat) (dms : List (Mac B))
    (tr : Bytes → List B) : verify k (mintV k kid loc rnd ver false) dms tr = .ok [] := by
  refine (verifyWith_ok_iff k _ dms [] true tr []).mpr ⟨rfl, rfl, _, rfl, ?_, [], rfl, rfl⟩
  simp [finIf, mintV, LawfulCrypto.ctEq_iff]

/-! ### the third-party caveats of a token and the discharge keys they embed -/

def tpKeysStep (t : B) (c : Cav B) : List (B × B) :=
  match tpFields? c with
  | some (vk, ticket) =>
    match unsealKey t vk with
    | some rn => [(ticket, rn)]
    | none => []
  | none => []

/-- (ticket, discharge key) of every third-party caveat whose VerifierKey opens under the tail before it, in caveat order -/
def tpKeys : B → List (Cav B) → List (B × B)
  | _, [] => []
  | t, c :: cs =>
    tpKeysStep t c ++
      match macCav t c with
      | none => []
      | some t' => tpKeys t' cs

theorem tpKeys_append (t : B) (xs ys : List (Cav B)) (t' : B) (h : chain t xs = some t') :
    tpKeys t (xs ++ ys) = tpKeys t xs ++ tpKeys t' ys := by
  induction xs generalizing t with
  | nil => simp [chain] at h; subst h; simp [tpKeys]
  | cons x xs ih =>
    simp only [chain] at h
    cases hm : macCav t x with
    | none => simp [hm] at h
    | some t1 =>
      simp only [hm, Option.bind_some] at h
      simp [tpKeys, hm, ih t1 h, List.append_assoc]

/-- the discharge queue of `verify` is the list of those pairs with the candidates looked up -/
theorem pendOf_eq_tpKeys (l : B → Option (List (Mac B))) (t : B) (cs : List (Cav B)) :
    pendOf l t cs = (tpKeys t cs).filterMap fun p => (l p.1).map fun ds => ⟨ds, p.2⟩ := by
  induction cs generalizing t with
  | nil => rfl
  | cons c cs ih =>
    have hstep : pendOfStep l t c = (tpKeysStep t c).filterMap fun p => (l p.1).map fun ds => ⟨ds, p.2⟩ := by
      unfold pendOfStep tpKeysStep
      cases h3 : tpFields? c with
      | none => rfl
      | some vt =>
        obtain ⟨vk, ticket⟩ := vt
        cases hu : unsealKey t vk with
        | none => cases hl : l ticket <;> simp [hu, hl]
        | some rn => cases hl : l ticket <;> simp [hu, hl]
    simp only [pendOf, tpKeys, List.filterMap_append, hstep]
    cases hm : macCav t c with
    | none => simp
    | some t' => simp [ih t']

/-- the secrets the arguments of an `Add` bring -/
def newSecrets (its : List (AddItem B)) : List (B × B) :=
  its.filterMap fun
    | .new3p _ ticket rn _ => some (ticket, rn)
    | .plain _ => none

/-- [lawful] every value of the MAC chain is usable as a sealing key -/
theorem okKey_chain [LawfulCrypto B] : ∀ (xs : List (Cav B)) (t r : B),
    LawfulCrypto.okKey t → chain t xs = some r → LawfulCrypto.okKey r
  | [], t, r, ht, h => by
    simp only [chain, Option.some.injEq] at h
    exact h ▸ ht
  | x :: xs, t, r, _, h => by
    simp only [chain] at h
    cases hm : macCav t x with
    | none => simp [hm] at h
    | some t' =>
      simp only [hm, Option.bind_some] at h
      exact okKey_chain xs t' r (LawfulCrypto.okKey_macCav t x t' hm) h

/-- the AEAD nonces the new third-party caveats among the arguments bring are usable -/
def noncesOK [LawfulCrypto B] (its : List (AddItem B)) : Prop :=
  ∀ loc ticket rn nonce, AddItem.new3p loc ticket rn nonce ∈ its → LawfulCrypto.okNonce nonce

theorem noncesOK_tail [LawfulCrypto B] {it : AddItem B} {rest : List (AddItem B)} (h : noncesOK (it :: rest)) :
    noncesOK rest :=
  fun loc ticket rn nonce hm => h loc ticket rn nonce (List.mem_cons_of_mem _ hm)

/-- [lawful] the VerifierKey `Add` seals opens again under the tail before the caveat (the tail is
a key, the AEAD nonces are nonces) -/
theorem tpKeys_realise [LawfulCrypto B] : ∀ (its : List (AddItem B)) (t r : B),
    LawfulCrypto.okKey t → noncesOK its →
    (∀ c, AddItem.plain c ∈ its → c.is3P = false) → chain t (realise t its) = some r →
    tpKeys t (realise t its) = newSecrets its
  | [], _, _, _, _, _, _ => rfl
  | it :: rest, t, r, ht, hn, hp, hc => by
    simp only [realise, chain] at hc
    cases hm : macCav t (AddItem.cavAt t it) with
    | none => simp [hm] at hc
    | some t' =>
      simp only [hm, Option.bind_some] at hc
      have ih := tpKeys_realise rest t' r (LawfulCrypto.okKey_macCav _ _ _ hm) (noncesOK_tail hn)
        (fun c hc => hp c (List.mem_cons_of_mem _ hc)) hc
      simp only [realise, tpKeys, hm, ih]
      cases it with
      | plain c =>
        have := (tpFields?_none_iff c).mpr (hp c (by simp))
        simp [AddItem.cavAt, tpKeysStep, this, newSecrets]
      | new3p loc ticket rn nonce =>
        have hu := LawfulCrypto.unsealKey_sealKey t nonce rn ht (hn loc ticket rn nonce (by simp))
        simp [AddItem.cavAt, tpKeysStep, tpFields?, hu, newSecrets]

/-! ### legitimately produced tokens -/

/-- what a holder may pass to `Add` in a legitimate history: an ordinary caveat of any kind and
field values, or a fresh third-party caveat (`NewCaveat3P`: any ticket, any discharge key, any AEAD
nonce in the domain of the instance — `okNonce`: every term symbolically, 12 bytes concretely, which
is what `seal` draws) -/
inductive LegitItem [LawfulCrypto B] : AddItem B → Prop
  | plain (c : Cav B) : ordinary c = true → LegitItem (.plain c)
  | new3p (loc : Bytes) (ticket rn nonce : B) : LawfulCrypto.okNonce nonce →
      LegitItem (.new3p loc ticket rn nonce)

theorem legitItems_noncesOK [LawfulCrypto B] (its : List (AddItem B)) (h : ∀ it ∈ its, LegitItem it) :
    noncesOK its := by
  intro loc ticket rn nonce hm
  cases h _ hm with
  | new3p _ _ _ _ hn => exact hn

/-- tokens produced by minting (either nonce format) and any number of successful `Add` calls,
with encode steps (`Encode`/`String`/`Clone`) interleaved anywhere -/
inductive Legit [LawfulCrypto B] (k : B) : Mac B → Prop
  | minted (kid : B) (loc : Bytes) (rnd : B) (ver : Nat) : Legit k (mintV k kid loc rnd ver false)
  | added (m : Mac B) (items : List (AddItem B)) : Legit k m → (∀ it ∈ items, LegitItem it) →
      (add m items).2 = none → Legit k (add m items).1
  | encoded (m : Mac B) : Legit k m → Legit k (encodeState m)

/-- what `verify` needs of the token itself — everything except the presence of discharges -/
structure LegitInv (k : B) (m : Mac B) : Prop where
  notProof : m.nonce.proof = false
  notNew : m.newProof = false
  tail : chain (macNonce k m.nonce) m.cavs = some m.tail
  /-- every caveat is ordinary or a third-party caveat whose VerifierKey opens under the tail before it -/
  steps : walkOK false (fun _ => some []) [] (macNonce k m.nonce) m.cavs = true

/-- the per-argument condition under which the first loop passes the caveat the argument becomes -/
def itemOK (p : Bool) (l : B → Option (List (Mac B))) (pids : List B) : AddItem B → Prop
  | .plain c => ∀ t, stepOK p l pids t c = true
  | .new3p _ ticket _ _ => (l ticket).isSome = true

theorem walkOK_realise [LawfulCrypto B] (p : Bool) (l : B → Option (List (Mac B))) (pids : List B) :
    ∀ (its : List (AddItem B)) (t r : B), LawfulCrypto.okKey t → noncesOK its →
      (∀ it ∈ its, itemOK p l pids it) →
      chain t (realise t its) = some r → walkOK p l pids t (realise t its) = true
  | [], _, _, _, _, _, _ => rfl
  | it :: rest, t, r, ht, hn, hp, hc => by
    simp only [realise, chain] at hc
    cases hm : macCav t (AddItem.cavAt t it) with
    | none => simp [hm] at hc
    | some t' =>
      simp only [hm, Option.bind_some] at hc
      have ih := walkOK_realise p l pids rest t' r (LawfulCrypto.okKey_macCav _ _ _ hm) (noncesOK_tail hn)
        (fun i hi => hp i (List.mem_cons_of_mem _ hi)) hc
      simp only [realise, walkOK, hm, ih, Bool.and_true]
      have h0 := hp it (by simp)
      cases it with
      | plain c => exact h0 t
      | new3p loc ticket rn nonce =>
        simp only [itemOK] at h0
        have hu := LawfulCrypto.unsealKey_sealKey t nonce rn ht (hn loc ticket rn nonce (by simp))
        simp [AddItem.cavAt, stepOK, tpFields?, h0, hu]

theorem legitItem_ok [LawfulCrypto B] (it : AddItem B) (h : LegitItem it) :
    itemOK false (fun _ => some ([] : List (Mac B))) [] it := by
  cases h with
  | plain c hc => exact fun t => stepOK_ordinary _ _ _ t c hc
  | new3p loc ticket rn nonce _ => rfl

theorem encodeState_nonproof (m : Mac B) (h : m.nonce.proof = false) : encodeState m = m := by
  simp [encodeState, h]

/-- `legit_chain`: the invariant of legitimate histories -/
theorem legit_inv [LawfulCrypto B] (k : B) (m : Mac B) (h : Legit k m) : LegitInv k m := by
  induction h with
  | minted kid loc rnd ver => exact ⟨rfl, rfl, rfl, rfl⟩
  | added m items _ hit hok ih =>
    have hadd : add m items = ((add m items).1, none) := by rw [← hok]
    obtain ⟨_, _, t', hc, hm⟩ := add_shape m _ items hadd
    have hits : ∀ it ∈ dedup m.cavs items [], itemOK false (fun _ => some ([] : List (Mac B))) [] it :=
      fun it hi => legitItem_ok it (hit it (dedup_subset _ _ _ it hi))
    have hkey : LawfulCrypto.okKey m.tail := okKey_chain _ _ _ (LawfulCrypto.okKey_macNonce k m.nonce) ih.tail
    have hw := walkOK_realise false (fun _ => some ([] : List (Mac B))) [] _ m.tail t' hkey
      (legitItems_noncesOK _ (fun it hi => hit it (dedup_subset _ _ _ it hi))) hits hc
    rw [hm]
    refine ⟨ih.notProof, ih.notNew, ?_, ?_⟩
    · show chain (macNonce k m.nonce) (m.cavs ++ _) = some t'
      rw [chain_append, ih.tail]; exact hc
    · show walkOK false _ [] (macNonce k m.nonce) (m.cavs ++ _) = true
      rw [walkOK_append, ih.steps, ih.tail]; exact hw
  | encoded m _ ih => rw [encodeState_nonproof m ih.notProof]; exact ih

/-- the (ticket, discharge key) pairs of a token as its issuer sees them -/
def secrets (k : B) (m : Mac B) : List (B × B) := tpKeys (macNonce k m.nonce) m.cavs

/-- [lawful] each successful `Add` contributes exactly the secrets of its (de-duplicated) new third-party caveats -/
theorem secrets_add [LawfulCrypto B] (k : B) (m : Mac B) (items : List (AddItem B)) (hL : Legit k m)
    (hit : ∀ it ∈ items, LegitItem it) (hok : (add m items).2 = none) :
    secrets k (add m items).1 = secrets k m ++ newSecrets (dedup m.cavs items []) := by
  have hadd : add m items = ((add m items).1, none) := by rw [← hok]
  obtain ⟨_, _, t', hc, hm⟩ := add_shape m _ items hadd
  have hinv := legit_inv k m hL
  have hp : ∀ c, AddItem.plain c ∈ dedup m.cavs items [] → c.is3P = false := by
    intro c hc
    have := hit _ (dedup_subset _ _ _ _ hc)
    cases this with
    | plain c ho => exact ((ordinary_iff c).mp ho).1
  rw [hm]
  show tpKeys (macNonce k m.nonce) (m.cavs ++ _) = _
  rw [tpKeys_append _ _ _ _ hinv.tail, tpKeys_realise _ _ _
    (okKey_chain _ _ _ (LawfulCrypto.okKey_macNonce k m.nonce) hinv.tail)
    (legitItems_noncesOK _ (fun it hi => hit it (dedup_subset _ _ _ it hi))) hp hc]
  rfl

/-- the first loop passes a legitimate token as soon as every ticket has a candidate -/
theorem walkOK_of_legit (l : B → Option (List (Mac B))) (pids : List B) (t : B) (cs : List (Cav B))
    (h : walkOK false (fun _ => some ([] : List (Mac B))) [] t cs = true)
    (hl : ∀ p ∈ tpKeys t cs, (l p.1).isSome = true) : walkOK false l pids t cs = true := by
  induction cs generalizing t with
  | nil => rfl
  | cons c cs ih =>
    simp only [walkOK, Bool.and_eq_true] at h ⊢
    obtain ⟨hs, hr⟩ := h
    constructor
    · unfold stepOK at hs ⊢
      cases h3 : tpFields? c with
      | some vt =>
        obtain ⟨vk, ticket⟩ := vt
        simp only [h3, Option.isSome_some, Bool.true_and] at hs
        obtain ⟨rn, hrn⟩ := Option.isSome_iff_exists.mp hs
        have : (ticket, rn) ∈ tpKeys t (c :: cs) := by simp [tpKeys, tpKeysStep, h3, hrn]
        simp [hl _ this, hrn]
      | none =>
        cases hb : bindId? c with
        | some id => simp [h3, hb] at hs
        | none => simpa [h3, hb] using hs
    · cases hm : macCav t c with
      | none => simp [hm] at hr
      | some t' =>
        simp only [hm] at hr ⊢
        exact ih t' hr (fun p hp => hl p (by simp [tpKeys, hm, hp]))

/-! ### legitimately produced discharges -/

/-- the tails of the token and of all its ancestors: the states after 0, 1, …, all caveats -/
def tailsOf (k : B) (m : Mac B) : List B := macNonce k m.nonce :: tailsAfter (macNonce k m.nonce) m.cavs

/-- the binding ids `verify k m …` offers to discharges -/
def offered (k : B) (m : Mac B) : List B := (tailsOf k m).map digest

/-- what the third party or a holder may add to a discharge: first-party caveats of any kind,
attestations if the discharge is a proof, and bindings (`Bind`) to tokens whose tail is in `tails` -/
def disCavOK (tails : List B) (proof : Bool) (c : Cav B) : Prop :=
  c.is3P = false ∧ c.wrapsAttestation = false ∧ (c.isAttestation = true → proof = true) ∧
  ∀ id, bindId? c = some id → ∃ t ∈ tails, id = bindId t

/-- discharges for `ticket` rooted at the discharge key `rn`: minted (by `dischargeTicket`: a proof;
or directly under `rn`: a non-proof; either nonce format), then any `Add` calls with caveats as in
`disCavOK`, any encode steps.  `tails` = the tokens it may be bound to. -/
inductive LegitDis (rn ticket : B) (tails : List B) : Mac B → Prop
  | minted (loc : Bytes) (rnd : B) (ver : Nat) (p : Bool) : LegitDis rn ticket tails (mintV rn ticket loc rnd ver p)
  | added (d : Mac B) (items : List (AddItem B)) : LegitDis rn ticket tails d →
      (∀ it ∈ items, ∃ c, it = .plain c ∧ disCavOK tails d.nonce.proof c) →
      (add d items).2 = none → LegitDis rn ticket tails (add d items).1
  | encoded (d : Mac B) : LegitDis rn ticket tails d → LegitDis rn ticket tails (encodeState d)

/-- `BindToParentMacaroon` as a legitimate step -/
theorem LegitDis.bound {rn ticket : B} {tails : List B} (d parent : Mac B) (h : LegitDis rn ticket tails d)
    (hp : parent.tail ∈ tails) (hok : (bindTo d parent).2 = none) : LegitDis rn ticket tails (bindTo d parent).1 := by
  refine LegitDis.added d _ h ?_ hok
  intro it hit
  simp only [List.mem_singleton] at hit
  refine ⟨_, hit, rfl, rfl, by simp [Cav.isAttestation], ?_⟩
  intro id hid
  simp only [bindId?, Option.some.injEq] at hid
  exact ⟨parent.tail, hp, hid.symm⟩

/-- what the third party hands out for a ticket it can open is a legitimate discharge rooted at the key in the ticket -/
theorem legitDis_of_dischargeTicket (ka : B) (loc : Bytes) (ticket rnd rn : B) (p : Bool) (cs tcs : List (Cav B))
    (d : Mac B) (tails : List B) (ho : openTicket ka ticket = .ok rn tcs)
    (h : dischargeTicket ka loc ticket rnd p = .ok (cs, d)) : cs = tcs ∧ LegitDis rn ticket tails d := by
  simp only [dischargeTicket, ho, Except.ok.injEq, Prod.mk.injEq] at h
  obtain ⟨rfl, rfl⟩ := h
  exact ⟨rfl, LegitDis.minted loc rnd 1 p⟩

structure DisInv (rn ticket : B) (ids : List B) (d : Mac B) : Prop where
  kid : d.nonce.kid = ticket
  newOnlyProof : d.nonce.proof = false → d.newProof = false
  tail : ∃ t0, chain (macNonce rn d.nonce) d.cavs = some t0 ∧
    d.tail = if d.nonce.proof && !d.newProof then finalize t0 else t0
  steps : walkOK d.nonce.proof (fun _ => none) ids (macNonce rn d.nonce) d.cavs = true

theorem stepOK_disCav [LawfulCrypto B] (tails ids : List B) (proof : Bool) (c : Cav B) (t : B)
    (h : disCavOK tails proof c) (hids : ∀ t ∈ tails, digest t ∈ ids) :
    stepOK proof (fun _ => none) ids t c = true := by
  obtain ⟨h3, hw, ha, hb⟩ := h
  unfold stepOK
  rw [(tpFields?_none_iff c).mpr h3]
  cases hbi : bindId? c with
  | some id =>
    obtain ⟨t0, ht0, rfl⟩ := hb id hbi
    exact List.any_eq_true.mpr ⟨_, hids t0 ht0, LawfulCrypto.hasPrefix_bindId _⟩
  | none =>
    simp only [hw, Bool.not_false, Bool.and_true, Bool.not_eq_eq_eq_not, Bool.not_true, Bool.and_eq_false_iff,
      Bool.not_eq_eq_eq_not]
    cases hat : c.isAttestation with
    | false => simp
    | true => simp [ha hat]

theorem legitDis_inv [LawfulCrypto B] (rn ticket : B) (tails ids : List B) (hids : ∀ t ∈ tails, digest t ∈ ids)
    (d : Mac B) (h : LegitDis rn ticket tails d) : DisInv rn ticket ids d := by
  induction h with
  | minted loc rnd ver p =>
    refine ⟨rfl, fun h => h, ⟨_, rfl, ?_⟩, rfl⟩
    simp [mintV]
  | added d items _ hit hok ih =>
    have hadd : add d items = ((add d items).1, none) := by rw [← hok]
    obtain ⟨hfin, _, t', hc, hm⟩ := add_shape d _ items hadd
    obtain ⟨t0, hc0, ht0⟩ := ih.tail
    rw [hfin] at ht0
    simp only [Bool.false_eq_true, ↓reduceIte] at ht0
    have hits : ∀ it ∈ dedup d.cavs items [], itemOK d.nonce.proof (fun _ => (none : Option (List (Mac B)))) ids it := by
      intro it hi
      obtain ⟨c, rfl, hc⟩ := hit it (dedup_subset _ _ _ it hi)
      exact fun t => stepOK_disCav tails ids _ c t hc hids
    have hkey : LawfulCrypto.okKey d.tail :=
      ht0 ▸ okKey_chain _ _ _ (LawfulCrypto.okKey_macNonce rn d.nonce) hc0
    have hnon : noncesOK (dedup d.cavs items []) := by
      intro loc ticket rn' nonce hmem
      obtain ⟨c, hcc, _⟩ := hit _ (dedup_subset _ _ _ _ hmem)
      cases hcc
    have hw := walkOK_realise d.nonce.proof (fun _ => (none : Option (List (Mac B)))) ids _ d.tail t' hkey hnon hits hc
    rw [hm]
    refine ⟨ih.kid, ih.newOnlyProof, ⟨t', ?_, ?_⟩, ?_⟩
    · show chain (macNonce rn d.nonce) (d.cavs ++ _) = some t'
      rw [chain_append, hc0, ← ht0]; exact hc
    · show t' = if d.nonce.proof && !d.newProof then finalize t' else t'
      rw [hfin]; rfl
    · show walkOK d.nonce.proof _ ids (macNonce rn d.nonce) (d.cavs ++ _) = true
      rw [walkOK_append, ih.steps, hc0, ← ht0]; exact hw
  | encoded d _ ih =>
    unfold encodeState
    by_cases hpn : (d.nonce.proof && d.newProof) = true
    · rw [if_pos hpn]
      simp only [Bool.and_eq_true] at hpn
      obtain ⟨t0, hc0, ht0⟩ := ih.tail
      refine ⟨ih.kid, fun _ => rfl, ⟨t0, hc0, ?_⟩, ih.steps⟩
      simp only [hpn.1, hpn.2, Bool.not_true, Bool.and_false, Bool.false_eq_true, ↓reduceIte] at ht0
      simp [hpn.1, ht0]
    · rw [if_neg hpn]; exact ih

/-- `legit_discharge_verifies` [lawful]: a legitimately produced, finalised discharge verifies
under its discharge key whenever the digest of every token it may have been bound to is offered,
and yields its kept caveats in order -/
theorem legit_discharge_verifies [LawfulCrypto B] (rn ticket : B) (tails ids : List B) (d : Mac B) (ta : Bool)
    (h : LegitDis rn ticket tails d) (hfin : (d.nonce.proof && d.newProof) = false)
    (hids : ∀ t ∈ tails, digest t ∈ ids) :
    verifyFlat rn d ids ta = .ok (d.cavs.filter (kept ta)) ∧ d.nonce.kid = ticket := by
  have inv := legitDis_inv rn ticket tails ids hids d h
  obtain ⟨t0, hc0, ht0⟩ := inv.tail
  refine ⟨(verifyFlat_ok_iff rn d ids ta _).mpr ⟨hfin, inv.steps, t0, hc0, ?_, rfl⟩, inv.kid⟩
  rw [LawfulCrypto.ctEq_iff, ht0]
  cases hp : d.nonce.proof with
  | false => simp [finIf]
  | true =>
    have : d.newProof = false := by simpa [hp] using hfin
    simp [finIf, this]

/-! ### acceptance of legitimate tokens with legitimate discharges, and the exact result -/

/-- two lists related element by element -/
inductive Aligned {α β : Type} (R : α → β → Prop) : List α → List β → Prop
  | nil : Aligned R [] []
  | cons {a b as bs} : R a b → Aligned R as bs → Aligned R (a :: as) (b :: bs)

theorem Aligned.imp_map {α β γ : Type} {R : α → β → Prop} {S : α → γ → Prop} (f : β → γ)
    (h : ∀ a b, R a b → S a (f b)) : ∀ {as bs}, Aligned R as bs → Aligned S as (bs.map f)
  | _, _, .nil => .nil
  | _, _, .cons r rest => .cons (h _ _ r) (Aligned.imp_map f h rest)

theorem Aligned.append_left {α β : Type} {R : α → β → Prop} : ∀ {as as' : List α} {bs : List β},
    Aligned R (as ++ as') bs → ∃ bs1 bs2, bs = bs1 ++ bs2 ∧ Aligned R as bs1 ∧ Aligned R as' bs2
  | [], _, bs, h => ⟨[], bs, rfl, .nil, h⟩
  | a :: as, as', _, .cons r rest => by
    obtain ⟨bs1, bs2, rfl, h1, h2⟩ := Aligned.append_left (as := as) rest
    exact ⟨_ :: bs1, bs2, rfl, .cons r h1, h2⟩

theorem mapM_pend (l : B → Option (List (Mac B))) (ids : List B) (ta : Bool) (tr : Bytes → List B)
    (keys : List (B × B)) (rs : List (List (Cav B)))
    (h : Aligned (fun p r => ∃ ds, l p.1 = some ds ∧ firstDischarge ids ta tr p.2 ds = some r) keys rs) :
    (keys.filterMap fun p => (l p.1).map fun ds => (⟨ds, p.2⟩ : Pending B)).mapM
      (fun q => firstDischarge ids ta tr q.key q.ds) = some rs := by
  induction h with
  | nil => rfl
  | cons r _ ih =>
    obtain ⟨ds, hl, hf⟩ := r
    simp [hl, List.mapM_cons, hf, ih]

/-- core of `legit_verifies`: a legitimate token is accepted as soon as each of its third-party
caveats (in caveat order, with the discharge key it embeds) has candidates one of which is accepted,
and the result is the token's caveats followed by the results of those discharges, in caveat order -/
theorem legit_verifies_core [LawfulCrypto B] (k : B) (m : Mac B) (hL : Legit k m) (dms : List (Mac B))
    (tr : Bytes → List B) (rs : List (List (Cav B)))
    (h : Aligned (fun p r => ∃ ds, byTicket dms p.1 = some ds ∧
          firstDischarge (offered k m) true tr p.2 ds = some r) (secrets k m) rs) :
    verify k m dms tr = .ok (m.cavs.filter (kept true) ++ rs.flatten) := by
  have inv := legit_inv k m hL
  have hall : ∀ p ∈ secrets k m, (byTicket dms p.1).isSome = true := by
    have : ∀ (ks : List (B × B)) (rs : List (List (Cav B))),
        Aligned (fun p r => ∃ ds, byTicket dms p.1 = some ds ∧
          firstDischarge (offered k m) true tr p.2 ds = some r) ks rs →
        ∀ p ∈ ks, (byTicket dms p.1).isSome = true := by
      intro ks rs hal
      induction hal with
      | nil => intro p hp; cases hp
      | cons r _ ih =>
        intro p hp
        simp only [List.mem_cons] at hp
        rcases hp with rfl | hp
        · obtain ⟨ds, hds, _⟩ := r; simp [hds]
        · exact ih p hp
    exact this _ _ h
  refine (verifyWith_ok_iff k m dms [] true tr _).mpr
    ⟨by simp [inv.notProof], ?_, m.tail, inv.tail, ?_, rs, ?_, rfl⟩
  · rw [inv.notProof]; exact walkOK_of_legit _ _ _ _ inv.steps hall
  · simp [finIf, inv.notProof, LawfulCrypto.ctEq_iff]
  · rw [pendOf_eq_tpKeys]
    exact mapM_pend (byTicket dms) _ true tr _ rs h

/-- the discharge presented for the third-party caveat with ticket `p.1` and discharge key `p.2`:
the only presented token with that key-id, legitimately produced for that ticket (possibly bound
to the token or ancestors of it), finalised, and not refused by the trust loop (`b`: trusted) -/
def GoodDischarge (k : B) (m : Mac B) (dms : List (Mac B)) (tr : Bytes → List B) (p : B × B) (db : Mac B × Bool) : Prop :=
  dms.filter (fun d => kidEq d.nonce.kid p.1) = [db.1] ∧ LegitDis p.2 p.1 (tailsOf k m) db.1 ∧
  (db.1.nonce.proof && db.1.newProof) = false ∧ trustOf (tr db.1.loc) p.1 p.2 = some db.2

/-- what an accepted discharge contributes -/
def contrib (db : Mac B × Bool) : List (Cav B) := db.1.cavs.filter (kept db.2)

/-- `legit_verifies` [lawful], exact form -/
theorem legit_verifies_exact [LawfulCrypto B] (k : B) (m : Mac B) (hL : Legit k m) (dms : List (Mac B))
    (tr : Bytes → List B) (dbs : List (Mac B × Bool))
    (h : Aligned (GoodDischarge k m dms tr) (secrets k m) dbs) :
    verify k m dms tr = .ok (m.cavs.filter (kept true) ++ (dbs.map contrib).flatten) := by
  apply legit_verifies_core k m hL dms tr
  apply Aligned.imp_map contrib _ h
  rintro p ⟨d, b⟩ ⟨hf, hd, hfin, htr⟩
  simp only at hf hd hfin htr
  obtain ⟨hv, hkid⟩ := legit_discharge_verifies p.2 p.1 (tailsOf k m) (offered k m) d b hd hfin
    (fun t ht => List.mem_map.mpr ⟨t, ht, rfl⟩)
  refine ⟨[d], ?_, ?_⟩
  · simp [byTicket, hf]
  · simp only [firstDischarge, hkid, htr, hv, contrib, Bool.true_and]

theorem trustOf_nil (kid vk : B) : trustOf ([] : List B) kid vk = some false := rfl

/-- [lawful] the third party's own key, first in the trusted list, opens its ticket to the discharge key: trusted -/
theorem trustOf_sealed_head [LawfulCrypto B] (ka : B) (rest : List B) (tn rn : B) (cs : List (Cav B))
    (hka : LawfulCrypto.okKey ka) (htn : LawfulCrypto.okNonce tn) (hb : LawfulCrypto.okTicketBody rn cs) :
    trustOf (ka :: rest) (sealTicket ka tn rn cs) rn = some true := by
  simp [trustOf, LawfulCrypto.openTicket_sealTicket ka tn rn cs hka htn hb, LawfulCrypto.ctEq_iff]

/-! ### first-party caveats in order of addition, duplicates collapsed -/

/-- histories that only add ordinary caveats: `added` = everything passed to `Add`, in order -/
inductive PlainHist [LawfulCrypto B] (k : B) : Mac B → List (Cav B) → Prop
  | minted (kid : B) (loc : Bytes) (rnd : B) (ver : Nat) : PlainHist k (mintV k kid loc rnd ver false) []
  | added (m : Mac B) (sofar cs : List (Cav B)) : PlainHist k m sofar → (∀ c ∈ cs, ordinary c = true) →
      (add m (cs.map AddItem.plain)).2 = none → PlainHist k (add m (cs.map AddItem.plain)).1 (sofar ++ cs)

theorem plainHist_legit [LawfulCrypto B] (k : B) (m : Mac B) (added : List (Cav B)) (h : PlainHist k m added) : Legit k m := by
  induction h with
  | minted kid loc rnd ver => exact .minted kid loc rnd ver
  | added m sofar cs _ hc hok ih =>
    refine .added m _ ih ?_ hok
    intro it hit
    obtain ⟨c, hcm, rfl⟩ := List.mem_map.mp hit
    exact .plain c (hc c hcm)

theorem plainHist_cavs [LawfulCrypto B] (k : B) (m : Mac B) (added : List (Cav B)) (h : PlainHist k m added) :
    m.cavs = collapse [] added ∧ ∀ c ∈ m.cavs, ordinary c = true := by
  induction h with
  | minted kid loc rnd ver => exact ⟨rfl, fun c hc => by cases hc⟩
  | added m sofar cs _ hc hok ih =>
    have hadd : add m (cs.map AddItem.plain) = ((add m (cs.map AddItem.plain)).1, none) := by rw [← hok]
    obtain ⟨_, _, t', hch, hm⟩ := add_shape m _ _ hadd
    have hpl : ∀ it ∈ dedup m.cavs (cs.map AddItem.plain) [], ∃ c, it = .plain c := by
      intro it hi
      obtain ⟨c, _, rfl⟩ := List.mem_map.mp (dedup_subset _ _ _ it hi)
      exact ⟨c, rfl⟩
    have hr := realise_plain m.tail _ t' hpl hch
    have hcol := dedup_plain_collapse m.cavs cs []
    simp only [List.append_nil] at hcol
    rw [hm]
    constructor
    · show m.cavs ++ realise m.tail _ = _
      rw [hr, hcol, collapse_append, ← ih.1]
    · show ∀ c ∈ m.cavs ++ realise m.tail _, ordinary c = true
      rw [hr]
      intro c hcm
      rcases List.mem_append.mp hcm with h1 | h2
      · exact ih.2 c h1
      · obtain ⟨it, hit, rfl⟩ := List.mem_map.mp h2
        obtain ⟨c', hc', rfl⟩ := List.mem_map.mp (dedup_subset _ _ _ it hit)
        exact hc c' hc'

theorem filter_kept_ordinary (cs : List (Cav B)) (ta : Bool) (h : ∀ c ∈ cs, ordinary c = true) :
    cs.filter (kept ta) = cs :=
  List.filter_eq_self.mpr fun c hc => kept_of_ordinary c ta (h c hc)

/-- the ordinary caveat an argument is, if it is one -/
def AddItem.plain? : AddItem B → Option (Cav B)
  | .plain c => some c
  | .new3p .. => none

theorem filter_kept_realise [LawfulCrypto B] : ∀ (its : List (AddItem B)) (t r : B), (∀ it ∈ its, LegitItem it) →
    chain t (realise t its) = some r → (realise t its).filter (kept true) = its.filterMap AddItem.plain?
  | [], _, _, _, _ => rfl
  | it :: rest, t, r, hits, hc => by
    simp only [realise, chain] at hc
    cases hmc : macCav t (AddItem.cavAt t it) with
    | none => simp [hmc] at hc
    | some t1 =>
      simp only [hmc, Option.bind_some] at hc
      have ih := filter_kept_realise rest t1 r (fun i hi => hits i (List.mem_cons_of_mem _ hi)) hc
      simp only [realise, hmc, List.filter_cons, List.filterMap_cons, ih]
      have h0 := hits it (by simp)
      cases h0 with
      | plain c ho => simp [AddItem.cavAt, AddItem.plain?, kept_of_ordinary c true ho]
      | new3p loc ticket rn nonce _ => simp [AddItem.cavAt, AddItem.plain?, kept, Cav.is3P]

/-- the first-party caveats a successful `Add` contributes to the verification result: the
de-duplicated ordinary arguments, in argument order -/
theorem legit_add_firstParty [LawfulCrypto B] (m : Mac B) (items : List (AddItem B))
    (hit : ∀ it ∈ items, LegitItem it) (hok : (add m items).2 = none) :
    (add m items).1.cavs.filter (kept true) =
      m.cavs.filter (kept true) ++ (dedup m.cavs items []).filterMap AddItem.plain? := by
  have hadd : add m items = ((add m items).1, none) := by rw [← hok]
  obtain ⟨_, _, t', hc, hm⟩ := add_shape m _ items hadd
  rw [hm]
  show (m.cavs ++ _).filter (kept true) = _
  rw [List.filter_append, filter_kept_realise _ _ _ (fun it hi => hit it (dedup_subset _ _ _ it hi)) hc]

/-! ### attenuation: the parent of an accepted token is accepted and returns a sublist -/

theorem mapM_append_some {α β : Type} (f : α → Option β) : ∀ (l1 l2 : List α) (rs : List β),
    (l1 ++ l2).mapM f = some rs → ∃ r1 r2, l1.mapM f = some r1 ∧ l2.mapM f = some r2 ∧ rs = r1 ++ r2
  | [], l2, rs, h => ⟨[], rs, rfl, h, rfl⟩
  | a :: l1, l2, rs, h => by
    simp only [List.cons_append, List.mapM_cons, Option.pure_def, Option.bind_eq_bind] at h
    cases hf : f a with
    | none => simp [hf] at h
    | some b =>
      cases hr : (l1 ++ l2).mapM f with
      | none => simp [hf, hr] at h
      | some rs' =>
        simp [hf, hr] at h
        obtain ⟨r1, r2, h1, h2, rfl⟩ := mapM_append_some f l1 l2 rs' hr
        exact ⟨b :: r1, r2, by simp [List.mapM_cons, hf, h1], h2, by rw [← h]; rfl⟩

theorem mapM_map_congr {α α' β : Type} (g : α' → Option β) (g' : α → Option β) (hmap : α → α') :
    ∀ (l : List α), (∀ q ∈ l, g (hmap q) = g' q) → (l.map hmap).mapM g = l.mapM g'
  | [], _ => rfl
  | a :: l, h => by
    simp only [List.map_cons, List.mapM_cons, h a (by simp),
      mapM_map_congr g g' hmap l (fun q hq => h q (List.mem_cons_of_mem _ hq))]

/-- the first loop looks at the lookup of a ticket only to see whether there is a candidate -/
theorem walkOK_lookup_congr (p : Bool) (l1 l2 : B → Option (List (Mac B))) (pids : List B) (t : B) (cs : List (Cav B))
    (h : ∀ ticket, (l2 ticket).isSome = (l1 ticket).isSome) : walkOK p l2 pids t cs = walkOK p l1 pids t cs := by
  induction cs generalizing t with
  | nil => rfl
  | cons c cs ih =>
    have hs : stepOK p l2 pids t c = stepOK p l1 pids t c := by
      unfold stepOK
      cases h3 : tpFields? c with
      | none => rfl
      | some vt => simp [h vt.2]
    simp only [walkOK, hs]
    cases macCav t c with
    | none => rfl
    | some t' => simp [ih t']

theorem filterMap_lookup_map (l1 l2 : B → Option (List (Mac B))) (g : List (Mac B) → List (Mac B))
    (h : ∀ ticket, l2 ticket = (l1 ticket).map g) : ∀ (ks : List (B × B)),
    (ks.filterMap fun p => (l2 p.1).map fun ds => (⟨ds, p.2⟩ : Pending B)) =
      (ks.filterMap fun p => (l1 p.1).map fun ds => (⟨ds, p.2⟩ : Pending B)).map fun q => ⟨g q.ds, q.key⟩
  | [] => rfl
  | p :: ks => by
    have ih := filterMap_lookup_map l1 l2 g h ks
    simp only [List.filterMap_cons, h p.1]
    cases l1 p.1 with
    | none => simpa using ih
    | some ds => simpa using ih

theorem byTicket_map (f : Mac B → Mac B) (dms : List (Mac B)) (ticket : B)
    (hk : ∀ d ∈ dms, (f d).nonce.kid = d.nonce.kid) :
    byTicket (dms.map f) ticket = (byTicket dms ticket).map (List.map f) := by
  have hfil : (dms.map f).filter (fun d => kidEq d.nonce.kid ticket) =
      (dms.filter (fun d => kidEq d.nonce.kid ticket)).map f := by
    induction dms with
    | nil => rfl
    | cons d ds ih =>
      have ih' := ih (fun x hx => hk x (List.mem_cons_of_mem _ hx))
      simp only [List.map_cons, List.filter_cons, hk d (by simp), ih']
      split <;> rfl
  unfold byTicket
  simp only [hfil]
  cases dms.filter (fun d => kidEq d.nonce.kid ticket) <;> simp

theorem firstDischarge_map (f : Mac B → Mac B) (ids ids' : List B) (ta : Bool) (tr : Bytes → List B) (key : B) :
    ∀ (ds : List (Mac B)),
    (∀ d ∈ ds, (f d).loc = d.loc ∧ (f d).nonce.kid = d.nonce.kid ∧
      ∀ ta cs, verifyFlat key (f d) ids ta = .ok cs ↔ verifyFlat key d ids' ta = .ok cs) →
    firstDischarge ids ta tr key (ds.map f) = firstDischarge ids' ta tr key ds
  | [], _ => rfl
  | d :: ds, h => by
    obtain ⟨h1, h2, h3⟩ := h d (by simp)
    have ih := firstDischarge_map f ids ids' ta tr key ds (fun x hx => h x (List.mem_cons_of_mem _ hx))
    simp only [List.map_cons, firstDischarge, h1, h2, ih]
    cases trustOf (tr d.loc) d.nonce.kid key with
    | none => rfl
    | some t =>
      simp only
      cases hv1 : verifyFlat key (f d) ids (ta && t) with
      | ok cs =>
        rw [(h3 (ta && t) cs).mp hv1]
      | error e =>
        cases hv2 : verifyFlat key d ids' (ta && t) with
        | ok cs => rw [(h3 (ta && t) cs).mpr hv2] at hv1; cases hv1
        | error e' => rfl

/-- the tails (hence the offered binding ids) of a token are among those of every extension of it -/
theorem tailsOf_extension (k : B) (m m' : Mac B) (ys : List (Cav B)) (hn : m'.nonce = m.nonce)
    (hc : m'.cavs = m.cavs ++ ys) (hm : chain (macNonce k m.nonce) m.cavs = some m.tail) :
    ∀ t ∈ tailsOf k m, t ∈ tailsOf k m' := by
  intro t ht
  unfold tailsOf at ht ⊢
  rw [hn, hc, tailsAfter_append _ _ _ _ hm]
  simp only [List.mem_cons, List.mem_append] at ht ⊢
  rcases ht with h | h
  · exact Or.inl h
  · exact Or.inr (Or.inl h)

/-- `attenuation_monotone`, general form [lawful].  `m'` extends `m` (same nonce, more caveats),
`m` carries the honest tail of its own caveats, `m'` is accepted with the discharges `dms'`.
Then `m` is accepted with the discharges `dms'.map f` — the same discharges re-bound, un-bound or
left alone by `f` — provided `f` keeps key-id and location and the re-bound discharge stands with
`m` as the original does with `m'`; and `m` returns a sublist of what `m'` returns. -/
theorem attenuation_monotone_map [LawfulCrypto B] (k : B) (m m' : Mac B) (ys : List (Cav B))
    (dms' : List (Mac B)) (tr : Bytes → List B) (cs' : List (Cav B))
    (hn : m'.nonce = m.nonce) (hc : m'.cavs = m.cavs ++ ys) (hp : m.nonce.proof = false)
    (hm : chain (macNonce k m.nonce) m.cavs = some m.tail)
    (hv : verify k m' dms' tr = .ok cs')
    (f : Mac B → Mac B) (hk : ∀ d ∈ dms', (f d).nonce.kid = d.nonce.kid ∧ (f d).loc = d.loc)
    (hacc : ∀ d ∈ dms', ∀ key ta cs, verifyFlat key (f d) (offered k m) ta = .ok cs ↔
      verifyFlat key d (offered k m') ta = .ok cs) :
    ∃ cs, verify k m (dms'.map f) tr = .ok cs ∧ cs.Sublist cs' := by
  obtain ⟨_, hok, t', hch, _, css, hmm, rfl⟩ := (verifyWith_ok_iff k m' dms' [] true tr cs').mp hv
  rw [hn, hc] at hok hch hmm
  rw [hp] at hok
  rw [hc]
  rw [walkOK_append, hm, Bool.and_eq_true] at hok
  rw [pendOf_append _ _ _ _ _ hm] at hmm
  obtain ⟨css1, css2, hm1, _, rfl⟩ := mapM_append_some _ _ _ _ hmm
  have hlk : ∀ ticket, byTicket (dms'.map f) ticket = (byTicket dms' ticket).map (List.map f) :=
    fun ticket => byTicket_map f dms' ticket (fun d hd => (hk d hd).1)
  refine ⟨m.cavs.filter (kept true) ++ css1.flatten, ?_, ?_⟩
  · refine (verifyWith_ok_iff k m (dms'.map f) [] true tr _).mpr
      ⟨by simp [hp], ?_, m.tail, hm, by simp [finIf, hp, LawfulCrypto.ctEq_iff], css1, ?_, rfl⟩
    · rw [hp, walkOK_lookup_congr false (byTicket dms') _ [] _ _ (fun ticket => by rw [hlk]; simp)]
      exact hok.1
    · rw [pendOf_eq_tpKeys, filterMap_lookup_map (byTicket dms') _ (List.map f) hlk, ← pendOf_eq_tpKeys,
        mapM_map_congr _ (fun p => firstDischarge
          (digest (macNonce k m.nonce) :: (tailsAfter (macNonce k m.nonce) (m.cavs ++ ys)).map digest)
          true tr p.key p.ds)]
      · exact hm1
      · intro q hq
        obtain ⟨loc, vk, ticket, _, hb⟩ := mem_pendOf dms' _ _ q hq
        have hds := (mem_byTicket dms' ticket q.ds hb).2
        have hoff : offered k m' =
            digest (macNonce k m.nonce) :: (tailsAfter (macNonce k m.nonce) (m.cavs ++ ys)).map digest := by
          simp [offered, tailsOf, hn, hc]
        rw [← hoff]
        exact firstDischarge_map f (offered k m) (offered k m') true tr q.key q.ds
          (fun d hd => ⟨(hk d (hds d hd).1).2, (hk d (hds d hd).1).1, hacc d (hds d hd).1 q.key⟩)
  · rw [List.filter_append, List.flatten_append, List.append_assoc]
    exact List.Sublist.append (List.Sublist.refl _)
      ((List.sublist_append_left _ _).trans (List.sublist_append_right _ _))

/-- `attenuation_monotone` (i) [lawful]: with the SAME discharges, as long as every binding caveat
they carry is satisfied by the parent already (unbound discharges; discharges bound to the parent
or to an ancestor of it) -/
theorem attenuation_monotone_same [LawfulCrypto B] (k : B) (m m' : Mac B) (ys : List (Cav B))
    (dms : List (Mac B)) (tr : Bytes → List B) (cs' : List (Cav B))
    (hn : m'.nonce = m.nonce) (hc : m'.cavs = m.cavs ++ ys) (hp : m.nonce.proof = false)
    (hm : chain (macNonce k m.nonce) m.cavs = some m.tail)
    (hv : verify k m' dms tr = .ok cs')
    (hb : ∀ d ∈ dms, ∀ id, Cav.bind id ∈ d.cavs → (offered k m).any (fun bid => hasPrefix bid id) = true) :
    ∃ cs, verify k m dms tr = .ok cs ∧ cs.Sublist cs' := by
  have := attenuation_monotone_map k m m' ys dms tr cs' hn hc hp hm hv id (fun d _ => ⟨rfl, rfl⟩) (by
    intro d hd key ta cs
    have : verifyFlat key d (offered k m) ta = verifyFlat key d (offered k m') ta := by
      apply verifyFlat_ids_congr
      intro id hid
      have h1 := hb d hd id hid
      rw [h1]
      obtain ⟨bid, hbid, hpre⟩ := List.any_eq_true.mp h1
      obtain ⟨t, ht, rfl⟩ := List.mem_map.mp hbid
      exact (List.any_eq_true.mpr ⟨_, List.mem_map.mpr ⟨t, tailsOf_extension k m m' ys hn hc hm t ht, rfl⟩, hpre⟩).symm
    show verifyFlat key d (offered k m) ta = .ok cs ↔ _
    rw [this])
  simpa using this

/-- `attenuation_monotone` (ii) [lawful]: legitimate parent and child, each with legitimate
discharges for its own third-party caveats (the same third-party discharges, however bound): both
are accepted and the parent returns a sublist of what the child returns -/
theorem legit_attenuation_monotone [LawfulCrypto B] (k : B) (m m' : Mac B) (ys : List (Cav B))
    (hL : Legit k m) (hL' : Legit k m') (hc : m'.cavs = m.cavs ++ ys)
    (dms dms' : List (Mac B)) (tr : Bytes → List B) (dbs dbs' : List (Mac B × Bool))
    (hd : Aligned (GoodDischarge k m dms tr) (secrets k m) dbs)
    (hd' : Aligned (GoodDischarge k m' dms' tr) (secrets k m') dbs')
    (hsame : ∃ more, dbs'.map contrib = dbs.map contrib ++ more) :
    ∃ cs cs', verify k m dms tr = .ok cs ∧ verify k m' dms' tr = .ok cs' ∧ cs.Sublist cs' := by
  obtain ⟨more, hmore⟩ := hsame
  refine ⟨_, _, legit_verifies_exact k m hL dms tr dbs hd, legit_verifies_exact k m' hL' dms' tr dbs' hd', ?_⟩
  rw [hc, hmore, List.filter_append, List.flatten_append, List.append_assoc]
  exact List.Sublist.append (List.Sublist.refl _)
    ((List.sublist_append_left _ _).trans (List.sublist_append_right _ _))

/-- the third-party caveats (tickets and discharge keys) of an extension start with those of the parent -/
theorem secrets_extension (k : B) (m m' : Mac B) (ys : List (Cav B)) (hn : m'.nonce = m.nonce)
    (hc : m'.cavs = m.cavs ++ ys) (hm : chain (macNonce k m.nonce) m.cavs = some m.tail) :
    secrets k m' = secrets k m ++ tpKeys m.tail ys := by
  unfold secrets
  rw [hn, hc, tpKeys_append _ _ _ _ hm]

/-- any chain of successful attenuation steps -/
inductive Attenuated (m : Mac B) : Mac B → Prop
  | refl : Attenuated m m
  | step (m' : Mac B) (items : List (AddItem B)) : Attenuated m m' → (add m' items).2 = none →
      Attenuated m (add m' items).1

/-- however many `Add` calls with whatever arguments: the nonce stays, the caveat list only grows
at the end, and the tail moves along the MAC chain over what was appended -/
theorem attenuated_shape (m m' : Mac B) (h : Attenuated m m') :
    m'.nonce = m.nonce ∧ m'.loc = m.loc ∧ ∃ ys, m'.cavs = m.cavs ++ ys ∧ chain m.tail ys = some m'.tail := by
  induction h with
  | refl => exact ⟨rfl, rfl, [], by simp, rfl⟩
  | step m1 items _ hok ih =>
    have hadd : add m1 items = ((add m1 items).1, none) := by rw [← hok]
    obtain ⟨_, _, t', hc, hm⟩ := add_shape m1 _ items hadd
    obtain ⟨h1, h2, ys, h3, h4⟩ := ih
    rw [hm]
    refine ⟨h1, h2, ys ++ realise m1.tail (dedup m1.cavs items []), ?_, ?_⟩
    · show m1.cavs ++ _ = _
      rw [h3, List.append_assoc]
    · show _ = some t'
      rw [chain_append, h4]; exact hc

end Macaroon.Lemmas
