/-
Big-endian and two's complement arithmetic for the MessagePack model (`Wire/Msgpack.lean`):
`beBytes`/`beVal` are mutually inverse, `twos`/`untwos` are mutually inverse on their ranges,
and `readN`/`readBE` on `xs ++ rest`.  Core Lean only.
-/
import Macaroon.Wire.Msgpack

namespace Macaroon.Msgpack

/-! ### powers of 256 -/

theorem pow256_pos (k : Nat) : 0 < 256 ^ k := Nat.pow_pos (by decide)

theorem pow256_succ (k : Nat) : 256 ^ (k + 1) = 256 ^ k * 256 := by rw [Nat.pow_succ]

/-! ### bytes -/

theorem u8_ofNat_toNat (b : UInt8) : UInt8.ofNat b.toNat = b := by
  apply UInt8.toNat_inj.mp
  simp

theorem u8_toNat_ofNat_lt (n : Nat) (h : n < 256) : (UInt8.ofNat n).toNat = n := by
  simp [UInt8.toNat_ofNat']
  omega

theorem u8_eq_of_toNat (c : UInt8) (n : Nat) (h : c.toNat = n) : c = UInt8.ofNat n := by
  rw [← h, u8_ofNat_toNat]

/-! ### beVal -/

theorem beVal_foldl (bs : Bytes) (acc : Nat) :
    bs.foldl (fun acc (b : UInt8) => acc * 256 + b.toNat) acc
      = acc * 256 ^ bs.length + bs.foldl (fun acc (b : UInt8) => acc * 256 + b.toNat) 0 := by
  induction bs generalizing acc with
  | nil => simp
  | cons b bs ih =>
    simp only [List.foldl_cons, List.length_cons]
    rw [ih (acc * 256 + b.toNat), ih (0 * 256 + b.toNat)]
    rw [pow256_succ, Nat.add_mul, Nat.zero_mul, Nat.zero_add, Nat.mul_assoc, Nat.mul_comm 256,
      Nat.add_assoc]

@[simp] theorem beVal_nil : beVal [] = 0 := rfl

theorem beVal_cons (b : UInt8) (bs : Bytes) :
    beVal (b :: bs) = b.toNat * 256 ^ bs.length + beVal bs := by
  unfold beVal
  rw [List.foldl_cons, beVal_foldl]
  simp

theorem beVal_lt (bs : Bytes) : beVal bs < 256 ^ bs.length := by
  induction bs with
  | nil => simp
  | cons b bs ih =>
    rw [beVal_cons, List.length_cons, pow256_succ]
    have hb : b.toNat ≤ 255 := by have := b.toNat_lt; omega
    have := Nat.mul_le_mul_right (256 ^ bs.length) hb
    omega

/-! ### beBytes -/

@[simp] theorem beBytes_length (k n : Nat) : (beBytes k n).length = k := by
  induction k with
  | zero => rfl
  | succ k ih => simp [beBytes, ih]

theorem beVal_beBytes_mod (k n : Nat) : beVal (beBytes k n) = n % 256 ^ k := by
  induction k with
  | zero => simp [beBytes, Nat.mod_one]
  | succ k ih =>
    rw [beBytes, beVal_cons, beBytes_length, ih, pow256_succ, Nat.mod_mul]
    rw [u8_toNat_ofNat_lt _ (Nat.mod_lt _ (by decide))]
    rw [Nat.mul_comm]
    omega

theorem beVal_beBytes (k n : Nat) (h : n < 256 ^ k) : beVal (beBytes k n) = n := by
  rw [beVal_beBytes_mod, Nat.mod_eq_of_lt h]

theorem beBytes_add_mul (k n m : Nat) : beBytes k (n + m * 256 ^ k) = beBytes k n := by
  induction k generalizing m with
  | zero => rfl
  | succ k ih =>
    rw [beBytes, beBytes]
    have h1 : n + m * 256 ^ (k + 1) = n + (m * 256) * 256 ^ k := by
      rw [pow256_succ, Nat.mul_assoc, Nat.mul_comm 256]
    rw [h1, ih (m * 256), Nat.add_mul_div_right _ _ (pow256_pos k), Nat.add_mul_mod_self_right]

theorem beBytes_beVal (bs : Bytes) : beBytes bs.length (beVal bs) = bs := by
  induction bs with
  | nil => rfl
  | cons b bs ih =>
    rw [List.length_cons, beBytes, beVal_cons]
    have hlt := beVal_lt bs
    have hb := b.toNat_lt
    congr 1
    · rw [Nat.add_comm, Nat.add_mul_div_right _ _ (pow256_pos _), Nat.div_eq_of_lt hlt,
        Nat.zero_add, Nat.mod_eq_of_lt hb, u8_ofNat_toNat]
    · rw [Nat.add_comm, beBytes_add_mul, ih]

theorem beBytes_beVal' (k : Nat) (bs : Bytes) (h : bs.length = k) : beBytes k (beVal bs) = bs := by
  subst h; exact beBytes_beVal bs

/-! ### two's complement -/

theorem untwos_twos (k : Nat) (i : Int) (h1 : -((256 ^ k / 2 : Nat) : Int) ≤ i)
    (h2 : i < ((256 ^ k / 2 : Nat) : Int)) : untwos k (twos k i) = i := by
  rcases Nat.eq_zero_or_pos k with rfl | hk
  · simp at h1 h2; omega
  have hM : 256 ^ k = 256 ^ (k - 1) * 256 := by
    rw [← pow256_succ]; congr 1; omega
  have hpos := pow256_pos (k - 1)
  generalize 256 ^ (k - 1) = X at hM hpos
  unfold untwos twos
  rw [hM] at h1 h2 ⊢
  by_cases hi : 0 ≤ i
  · rw [Int.emod_eq_of_lt hi (by omega)]
    have : i.toNat < X * 256 / 2 := by omega
    rw [if_pos this]; omega
  · have : i % ((X * 256 : Nat) : Int) = i + ((X * 256 : Nat) : Int) := by
      rw [← Int.add_emod_right, Int.emod_eq_of_lt (by omega) (by omega)]
    rw [this]
    have : ¬ (i + ((X * 256 : Nat) : Int)).toNat < X * 256 / 2 := by omega
    rw [if_neg this]; omega

theorem twos_untwos (k n : Nat) (h : n < 256 ^ k) : twos k (untwos k n) = n := by
  have hpos := pow256_pos k
  unfold untwos twos
  generalize 256 ^ k = M at h hpos ⊢
  split
  · rw [Int.emod_eq_of_lt (by omega) (by omega)]; omega
  · have : ((n : Int) - (M : Int)) % (M : Int) = (n : Int) := by
      rw [← Int.add_emod_right, Int.emod_eq_of_lt (by omega) (by omega)]; omega
    rw [this]; omega

theorem untwos_lower (k n : Nat) (hk : 0 < k) :
    -((256 ^ k / 2 : Nat) : Int) ≤ untwos k n := by
  have hM : 256 ^ k = 256 ^ (k - 1) * 256 := by
    rw [← pow256_succ]; congr 1; omega
  generalize 256 ^ (k - 1) = X at hM
  unfold untwos
  rw [hM]
  split <;> omega

theorem untwos_upper (k n : Nat) (h : n < 256 ^ k) :
    untwos k n < ((256 ^ k / 2 : Nat) : Int) := by
  unfold untwos
  generalize 256 ^ k = M at h ⊢
  split <;> omega

theorem twos_lt (k : Nat) (i : Int) : twos k i < 256 ^ k := by
  have hpos := pow256_pos k
  unfold twos
  generalize 256 ^ k = M at hpos
  have := Int.emod_lt_of_pos i (show (0 : Int) < (M : Int) by omega)
  have := Int.emod_nonneg i (show (M : Int) ≠ 0 by omega)
  omega

/-! ### readN / readBE -/

theorem readN_append (xs rest : Bytes) : readN xs.length (xs ++ rest) = some (xs, rest) := by
  simp [readN]

theorem readN_append' (n : Nat) (xs rest : Bytes) (h : xs.length = n) :
    readN n (xs ++ rest) = some (xs, rest) := by
  subst h; exact readN_append xs rest

theorem readN_some (n : Nat) (bs h t : Bytes) (hr : readN n bs = some (h, t)) :
    bs = h ++ t ∧ h.length = n := by
  unfold readN at hr
  split at hr
  · simp only [Option.some.injEq, Prod.mk.injEq] at hr
    obtain ⟨rfl, rfl⟩ := hr
    refine ⟨(List.take_append_drop n bs).symm, ?_⟩
    rw [List.length_take]; omega
  · cases hr

theorem readBE_beBytes (k n : Nat) (rest : Bytes) (h : n < 256 ^ k) :
    readBE k (beBytes k n ++ rest) = some (n, rest) := by
  unfold readBE
  rw [readN_append' k _ _ (beBytes_length k n)]
  simp [beVal_beBytes k n h]

theorem readBE_some (k : Nat) (bs : Bytes) (n : Nat) (t : Bytes) (hr : readBE k bs = some (n, t)) :
    bs = beBytes k n ++ t ∧ n < 256 ^ k := by
  unfold readBE at hr
  cases hrn : readN k bs with
  | none => rw [hrn] at hr; cases hr
  | some p =>
    obtain ⟨h, t'⟩ := p
    rw [hrn] at hr
    simp only [Option.map_some, Option.some.injEq, Prod.mk.injEq] at hr
    obtain ⟨rfl, rfl⟩ := hr
    obtain ⟨rfl, hl⟩ := readN_some k bs h t' hrn
    refine ⟨?_, ?_⟩
    · rw [beBytes_beVal' k h hl]
    · rw [← hl]; exact beVal_lt h

end Macaroon.Msgpack
