/-
C16: what the discharge service hands out, at the level of the token logic.  The state machine of
`TP/Server.lean` abstracts a discharge to `(ticket atom, de-duplicated caveat ids)`; here the same
object is built with the generic token logic (`dischargeTicket`, `add`, `encodeState`), shown to be
the legitimate discharge for exactly that ticket (C04/C05), and `TP.dedup` is shown to be
`Macaroon.dedup` read through any injective-up-to-encoding naming of caveats.
-/
import Macaroon.Lemmas.Legit
import Macaroon.Lemmas.TPServer

namespace Macaroon.Lemmas
open Macaroon Macaroon.Crypto
variable {B : Type} [Crypto B]

/-- what `respondDischarge` / `dischargePoller` build from a ticket and the caveats the application
chose: `DischargeTicket(tp.Key, tp.Location, ticket)`, `Add(caveats...)`, `String()` (which
finalises the proof); `none` where the Go code returns an error / answers 500 -/
def serviceDischarge (ka : B) (loc : Bytes) (ticket rnd : B) (cavs : List (Cav B)) : Option (Mac B) :=
  match dischargeTicket ka loc ticket rnd true with
  | .error _ => none
  | .ok (_, dm) =>
    match add dm (cavs.map AddItem.plain) with
    | (_, some _) => none
    | (dm', none) => some (encodeState dm')

theorem serviceDischarge_none_of_unopened (ka : B) (loc : Bytes) (ticket rnd : B) (cavs : List (Cav B))
    (h : ∀ rn tcs, openTicket ka ticket ≠ .ok rn tcs) : serviceDischarge ka loc ticket rnd cavs = none := by
  unfold serviceDischarge dischargeTicket
  cases ho : openTicket ka ticket with
  | cannotOpen => rfl
  | badPlaintext => rfl
  | ok rn tcs => exact absurd ho (h rn tcs)

theorem encodeState_final (m : Mac B) : ((encodeState m).nonce.proof && (encodeState m).newProof) = false := by
  unfold encodeState
  split
  · simp
  · rename_i h; simpa using h

theorem encodeState_frame (m : Mac B) :
    (encodeState m).nonce = m.nonce ∧ (encodeState m).cavs = m.cavs ∧ (encodeState m).loc = m.loc := by
  unfold encodeState; split <;> exact ⟨rfl, rfl, rfl⟩

/-- **discharge_refines.**  Whatever the service hands out for a ticket (immediately or through a
poll) with caveats that are neither third-party nor binding caveats nor wrapped attestations:
the ticket opened under the service's key to a discharge key `rn`; the discharge's key-id IS the
ticket (so it is a candidate for exactly the third-party caveats carrying that ticket, C04
`candidates_carry_the_ticket`); it is located at the service; it carries exactly the caveats the
application passed, in that order, later duplicates (equal encodings) dropped; and it verifies under
`rn` — the key that the caveat's VerifierKey unseals to — yielding exactly those caveats. -/
theorem discharge_refines [LawfulCrypto B] (ka : B) (loc : Bytes) (ticket rnd : B) (cavs : List (Cav B)) (d : Mac B)
    (ids : List B) (hc : ∀ c ∈ cavs, c.is3P = false ∧ c.isBind = false ∧ c.wrapsAttestation = false)
    (h : serviceDischarge ka loc ticket rnd cavs = some d) :
    ∃ rn tcs, openTicket ka ticket = .ok rn tcs ∧ d.nonce.kid = ticket ∧ d.loc = loc ∧ d.nonce.proof = true ∧
      d.cavs = (dedup [] (cavs.map AddItem.plain) []).map AddItem.asCav ∧
      verifyFlat rn d ids true = .ok d.cavs := by
  unfold serviceDischarge at h
  cases ho : openTicket ka ticket with
  | cannotOpen => simp [dischargeTicket, ho] at h
  | badPlaintext => simp [dischargeTicket, ho] at h
  | ok rn tcs =>
    simp only [dischargeTicket, ho] at h
    cases hadd : add (mint rn ticket loc rnd true) (cavs.map AddItem.plain) with
    | mk dm' e =>
      rw [hadd] at h
      cases e with
      | some e' => cases h
      | none =>
        simp only [Option.some.injEq] at h
        subst h
        have hok : (add (mint rn ticket loc rnd true) (cavs.map AddItem.plain)).2 = none := by rw [hadd]
        have hdm : (add (mint rn ticket loc rnd true) (cavs.map AddItem.plain)).1 = dm' := by rw [hadd]
        -- legitimacy
        have hL : LegitDis rn ticket [] (encodeState dm') := by
          rw [← hdm]
          refine .encoded _ (.added _ _ (by rw [← mintV_one]; exact .minted loc rnd 1 true) ?_ hok)
          intro it hit
          obtain ⟨c, hcm, rfl⟩ := List.mem_map.mp hit
          obtain ⟨h1, h2, h3⟩ := hc c hcm
          refine ⟨c, rfl, h1, h3, fun _ => rfl, ?_⟩
          intro id hid
          cases c <;> simp [bindId?, Cav.isBind] at hid h2
        obtain ⟨hv, hkid⟩ := legit_discharge_verifies rn ticket [] ids _ true hL (encodeState_final dm')
          (by intro t ht; cases ht)
        obtain ⟨_, _, t', hch, hm'⟩ := add_shape _ _ _ hadd
        have hcavs : dm'.cavs = (dedup [] (cavs.map AddItem.plain) []).map AddItem.asCav := by
          rw [hm']
          show ([] : List (Cav B)) ++ _ = _
          rw [List.nil_append]
          refine realise_plain _ _ t' ?_ hch
          intro it hit
          obtain ⟨c, _, rfl⟩ := List.mem_map.mp (dedup_subset _ _ _ it hit)
          exact ⟨c, rfl⟩
        obtain ⟨fn, fc, fl⟩ := encodeState_frame dm'
        have hallkept : (encodeState dm').cavs.filter (kept true) = (encodeState dm').cavs := by
          apply List.filter_eq_self.mpr
          intro c hcm
          rw [fc, hcavs] at hcm
          obtain ⟨it, hit, hp⟩ := List.mem_map.mp hcm
          obtain ⟨c', hc', rfl⟩ := List.mem_map.mp (dedup_subset _ _ _ it hit)
          simp only [AddItem.asCav] at hp
          subst hp
          obtain ⟨h1, h2, _⟩ := hc _ hc'
          simp [kept, h1, h2]
        refine ⟨rn, tcs, rfl, hkid, ?_, ?_, by rw [fc]; exact hcavs, by rw [← hallkept]; exact hv⟩
        · rw [fl, hm']; rfl
        · rw [fn, hm']; rfl

/-! ### `TP.dedup` is `Macaroon.dedup` on named caveats -/

theorem tp_dedup_filter (ι : Nat → Cav B) (hι : ∀ a b, sameEnc (ι a) (ι b) = (a == b)) :
    ∀ (l seen : List Nat),
    (dedup [] ((l.map ι).map AddItem.plain) (seen.map ι)).map AddItem.asCav
      = ((TP.dedup l).filter fun x => !seen.contains x).map ι
  | [], _ => by simp [dedup, TP.dedup]
  | c :: l, seen => by
    have htest : ((seen.map ι).any fun x => sameEnc x (ι c)) = seen.contains c := by
      induction seen with
      | nil => rfl
      | cons a s ih => simp only [List.map_cons, List.any_cons, hι, ih, List.contains_cons]; rw [Bool.beq_comm]
    cases hs : seen.contains c with
    | true =>
      have ht : ((seen.map ι).any fun x => sameEnc x (ι c)) = true := htest.trans hs
      simp only [List.map_cons, dedup, List.nil_append, AddItem.asCav, TP.dedup, ht, if_true]
      rw [tp_dedup_filter ι hι l seen]
      simp only [List.filter_cons, hs, Bool.not_true, Bool.false_eq_true, if_false, List.filter_filter]
      congr 1
      apply List.filter_congr
      intro x _
      cases hx : seen.contains x with
      | true => simp
      | false =>
        have : x ≠ c := by intro e; rw [e, hs] at hx; cases hx
        simp [this]
    | false =>
      have ht : ((seen.map ι).any fun x => sameEnc x (ι c)) = false := htest.trans hs
      simp only [List.map_cons, dedup, List.nil_append, AddItem.asCav, TP.dedup, ht, Bool.false_eq_true, if_false]
      have e : seen.map ι ++ [ι c] = (seen ++ [c]).map ι := by simp
      rw [e, tp_dedup_filter ι hι l (seen ++ [c])]
      simp only [List.filter_cons, hs, Bool.not_false, if_true, List.map_cons, List.filter_filter]
      congr 2
      apply List.filter_congr
      intro x _
      simp only [List.contains_append, List.contains_cons, List.contains_nil, Bool.or_false, Bool.not_or]
      cases hx : seen.contains x <;> simp [bne, Bool.beq_comm]

/-- the service model's de-duplication of caveat ids is `Macaroon.dedup` (what `Add` does) under any
naming `ι` of caveats by ids that identifies exactly the caveats with equal encodings -/
theorem tp_dedup_abstracts (ι : Nat → Cav B) (hι : ∀ a b, sameEnc (ι a) (ι b) = (a == b)) (l : List Nat) :
    (dedup [] ((l.map ι).map AddItem.plain) []).map AddItem.asCav = (TP.dedup l).map ι := by
  have := tp_dedup_filter ι hι l []
  simp only [List.map_nil, List.contains_nil, Bool.not_false] at this
  rw [this, List.filter_eq_self.mpr (by simp)]

end Macaroon.Lemmas
