/-
The `readsBack` guard of `Bundle.attMac` / `Bundle.dischargeOne` is exactly well-formedness (C13, C14).

`Bundle/Model.lean` defines `Attenuate` and `Discharge` where the text printed for the new token decodes
to the macaroon stored for it (`readsBack`).  This file says when that is:

* `wfMac` — a DECIDABLE predicate on model macaroons: what a Go `*Macaroon` that has been encoded
  once can hold.  Nonce / location / tail within the length the wire format can carry; every caveat
  `WFCav` (resource sets as SORTED association lists without duplicate keys — a Go map printed by the
  sorting encoder —, unregistered caveats only with a type number outside the registry and a body
  that is one MessagePack value, lengths `< 2³²`, …: `Lemmas/Codec.lean`); the pair count fits the array
  header; the canonical encoding nests within the decoder's budget; the proof state is "encoded".
* `readsBack_iff_wellformed` — for a token in encoded state that can be printed at all, the guard
  holds IF AND ONLY IF the token is `wfMac` (`readsBack_of_wellformed` is the direction asked for;
  the converse shows that `wfMac` is necessary, with `unsorted_resource_set_does_not_read_back` of
  `Lemmas/Bundle.lean` as the concrete witness for the sortedness clause).
* `attMac_defined` / `dischargeOne_defined` — on well-formed input, with well-formed arguments
  (`itemOk`), whenever `Add` itself succeeds and the result stays within the two size limits, the
  guarded operation is defined: the guard is never the reason for a failure.
* `attMac_wf` / `dischargeOne_wf` — whatever the guarded operations put into a bundle is `wfMac`.
* `decoded_wf_iff` — what `macaroon.Decode` returns is `wfMac` unless (a) it holds an unregistered
  caveat that lost its body (cannot be printed: Go's `Encode` fails as well, `attMac_none_of_unprintable`)
  or (b) its canonical form nests deeper than the model decoder's budget (`attMac_none_of_too_deep`:
  the clone step fails, not the guard).

Core Lean only.
-/
import Macaroon.Lemmas.Bundle
import Macaroon.Lemmas.ConcreteCrypto
import Macaroon.Lemmas.Legit

namespace Macaroon.Lemmas.ReadsBack
open Macaroon Macaroon.Bundle Macaroon.Concrete Macaroon.Lemmas.BundleL Macaroon.Crypto Macaroon.Msgpack
open Macaroon.Lemmas.ConcreteCrypto

/-! ### the predicate -/

/-- everything but the proof state -/
def wfCore (m : M) : Bool :=
  WFNonce (toNonce m.nonce) && lenOk m.loc && m.cavs.all WFCav && decide (2 * m.cavs.length < 2 ^ 32) && lenOk m.tail
    && decide (1 + max 1 (encDepth m.cavs) ≤ defaultFuel)

/-- a well-formed stored macaroon (decidable) -/
def wfMac (m : M) : Bool := wfCore m && !m.newProof

theorem wfCore_iff (m : M) : wfCore m = true ↔ WFMac (toWire m) ∧ 1 + max 1 (encDepth m.cavs) ≤ defaultFuel := by
  simp only [wfCore, Bool.and_eq_true, decide_eq_true_eq, List.all_eq_true, lenOk]
  constructor
  · rintro ⟨⟨⟨⟨⟨h1, h2⟩, h3⟩, h4⟩, h5⟩, h6⟩
    exact ⟨⟨h1, h2, ⟨h3, h4⟩, h5⟩, h6⟩
  · rintro ⟨⟨h1, h2, ⟨h3, h4⟩, h5⟩, h6⟩
    exact ⟨⟨⟨⟨⟨h1, h2⟩, h3⟩, h4⟩, h5⟩, h6⟩

/-- a well-formed caveat can be encoded -/
theorem encodable_of_wf : (∀ c : Cav Bytes, WFCav c = true → encodable c = true) ∧
    (∀ cs : CavList Bytes, WFCavL cs = true → encodableL cs = true) := by
  apply cav_induction
  · intro c hl h
    cases c <;> first | rfl | skip
    case ifPresent => simp [Cav.isWrapper] at hl
    case unregistered typ raw =>
      cases raw with
      | nil => simp [WFCav, rawOk, dec] at h
      | cons a as => rfl
  · intro n ifs els ih h
    simp only [WFCav, Bool.and_eq_true] at h
    simp only [encodable]
    exact ih h.2
  · intro _; rfl
  · intro c cs ihc ihcs h
    simp only [WFCavL, Bool.and_eq_true] at h
    simp only [encodableL, Bool.and_eq_true]
    exact ⟨ihc h.1, ihcs h.2⟩

theorem all_encodable_of_core {m : M} (h : wfCore m = true) : m.cavs.all encodable = true := by
  have hw := ((wfCore_iff m).mp h).1
  simp only [List.all_eq_true]
  exact fun c hc => encodable_of_wf.1 c (hw.cavs.1 c hc)

theorem ofWire_toWire (m : M) (h : m.newProof = false) : ofWire (toWire m) = m := by
  cases m with
  | mk nonce loc cavs tail newProof =>
    cases nonce
    simp only at h
    subst h
    rfl

/-- printing a token in encoded state: no state change, and the canonical bytes (if every caveat can be
encoded) -/
theorem encode_encoded (m : M) (h : m.newProof = false) :
    Concrete.encode m = (m, if m.cavs.all encodable then some (encMac (toWire m)) else none) := by
  have : encodeState m = m := by simp [encodeState, h]
  simp only [Concrete.encode, this]

/-! ### the guard is well-formedness -/

/-- **readsBack_of_wellformed.**  A well-formed token prints (no state change, no error), and the
text printed decodes to the token itself. -/
theorem readsBack_of_wellformed (m : M) (h : wfMac m = true) :
    Concrete.encode m = (m, some (encMac (toWire m))) ∧ readsBack (encMac (toWire m)) m = true := by
  simp only [wfMac, Bool.and_eq_true, Bool.not_eq_true'] at h
  obtain ⟨hc, hn⟩ := h
  obtain ⟨hw, hd⟩ := (wfCore_iff m).mp hc
  refine ⟨by rw [encode_encoded m hn, all_encodable_of_core hc]; rfl, ?_⟩
  have := Macaroon.decode_encode_mac (toWire m) defaultFuel [] hw hd
  simp only [List.append_nil] at this
  simp only [readsBack, Concrete.decode, this, Option.map_some, ofWire_toWire m hn, decide_eq_true_eq]

/-- the canonical encoding of a `WFMac` token decodes within budget `fuel` only if it nests within `fuel` -/
theorem depth_of_decode (w w' : WireMac) (fuel : Nat) (hw : WFMac w) (h : decodeMac fuel (encMac w) = some w') :
    1 + max 1 (encDepth w.cavs) ≤ fuel := by
  unfold decodeMac at h
  cases hd : dec fuel (encMac w) with
  | none => rw [hd] at h; cases h
  | some p =>
    obtain ⟨v, rest⟩ := p
    obtain ⟨hb, hv, hdep⟩ := enc_dec fuel _ v rest hd
    rw [encMac_eq w hw] at hb
    have := enc_prefix_free (macV w) v [] rest (wf_macV w hw) hv (by simpa using hb)
    rw [← this.1, depth_macV] at hdep
    exact hdep

/-- whatever decodes to ITSELF from its own canonical encoding is well formed -/
theorem wf_of_readsBack (m : M) (henc : m.cavs.all encodable = true)
    (h : readsBack (encMac (toWire m)) m = true) : wfMac m = true := by
  simp only [readsBack, decide_eq_true_eq, Concrete.decode, Option.map_eq_some_iff] at h
  obtain ⟨w, hw, hm⟩ := h
  have hnp : m.newProof = false := by rw [← hm]; rfl
  have hw' : toWire m = w := by rw [← hm]; rfl
  have hwf := (reencode_mac defaultFuel _ w hw (by
    intro c hc
    have : c ∈ m.cavs := by rw [← hm]; exact hc
    exact List.all_eq_true.mp henc c this)).1
  have hdep := depth_of_decode (toWire m) w defaultFuel (hw' ▸ hwf) hw
  simp only [wfMac, Bool.and_eq_true, Bool.not_eq_true']
  exact ⟨(wfCore_iff m).mpr ⟨hw' ▸ hwf, hdep⟩, hnp⟩

/-- **readsBack_iff_wellformed.**  For a token that prints as `bytes` without a state change — the
situation at both guards — the guard holds exactly for the well-formed tokens. -/
theorem readsBack_iff_wellformed (m : M) (bytes : Bytes) (h : Concrete.encode m = (m, some bytes)) :
    readsBack bytes m = true ↔ wfMac m = true := by
  have henc : m.cavs.all encodable = true ∧ bytes = encMac (toWire m) := by
    have h1 := congrArg Prod.fst h
    have h2 := congrArg Prod.snd h
    simp only [Concrete.encode] at h1 h2
    rw [h1] at h2
    by_cases ha : m.cavs.all encodable = true
    · simp only [ha, if_true, Option.some.injEq] at h2; exact ⟨ha, h2.symm⟩
    · simp [ha] at h2
  rw [henc.2]
  exact ⟨wf_of_readsBack m henc.1, fun hw => (readsBack_of_wellformed m hw).2⟩

/-! ### `Add` keeps tokens well formed -/

/-- a well-formed argument of `Add`: a well-formed caveat, or a new third-party caveat whose location,
ticket and (still unsealed) verifier key fit the wire format -/
def itemOk : AddItem Bytes → Bool
  | .plain c => WFCav c
  | .new3p loc ticket rn nonce => lenOk loc && lenOk ticket && decide (nonce.length + rn.length + 16 < 2 ^ 32)

theorem cavAt_wf (t : Bytes) (it : AddItem Bytes) (h : itemOk it = true) : WFCav (AddItem.cavAt t it) = true := by
  cases it with
  | plain c => exact h
  | new3p loc ticket rn nonce =>
    simp only [itemOk, Bool.and_eq_true, decide_eq_true_eq] at h
    have hb : (Crypto.sealKey t nonce rn : Bytes).length = nonce.length + rn.length + 16 := box_length t nonce rn
    simp only [AddItem.cavAt, WFCav, Bool.and_eq_true, lenOk, decide_eq_true_eq, hb]
    simp only [lenOk, decide_eq_true_eq] at h
    exact ⟨⟨h.1.1, h.2⟩, h.1.2⟩

theorem realise_wf : ∀ (its : List (AddItem Bytes)) (t : Bytes), (∀ it ∈ its, itemOk it = true) →
    ∀ c ∈ realise t its, WFCav c = true
  | [], _, _, c, hc => by simp [realise] at hc
  | it :: rest, t, h, c, hc => by
    simp only [realise, List.mem_cons] at hc
    rcases hc with rfl | hc
    · exact cavAt_wf t it (h it (by simp))
    · cases hm : Crypto.macCav t (AddItem.cavAt t it) with
      | none => simp [hm] at hc
      | some t' =>
        simp only [hm] at hc
        exact realise_wf rest t' (fun i hi => h i (List.mem_cons_of_mem _ hi)) c hc

theorem chain_length : ∀ (cs : List (Cav Bytes)) (t t' : Bytes), chain t cs = some t' → t' = t ∨ t'.length = 32
  | [], t, t', h => by simp only [chain, Option.some.injEq] at h; exact Or.inl h.symm
  | c :: cs, t, t', h => by
    simp only [chain] at h
    cases hm : Crypto.macCav t c with
    | none => simp [hm] at h
    | some t1 =>
      simp only [hm, Option.bind_some] at h
      rcases chain_length cs t1 t' h with rfl | h2
      · exact Or.inr (macCav_length t c _ hm)
      · exact Or.inr h2

/-- a successful `Add` of well-formed arguments to a well-formed token gives a well-formed token,
provided the result stays within the two size limits of the wire format / the decoder -/
theorem add_core (m m' : M) (items : List (AddItem Bytes)) (h : add m items = (m', none)) (hm : wfCore m = true)
    (hi : ∀ it ∈ items, itemOk it = true) (hsz : 2 * m'.cavs.length < 2 ^ 32)
    (hd : 1 + max 1 (encDepth m'.cavs) ≤ defaultFuel) :
    wfCore m' = true ∧ m'.newProof = m.newProof ∧ m'.nonce = m.nonce := by
  obtain ⟨_, _, t', hc, rfl⟩ := add_shape m m' items h
  obtain ⟨hw, _⟩ := (wfCore_iff m).mp hm
  refine ⟨(wfCore_iff _).mpr ⟨⟨hw.nonce, hw.loc, ⟨?_, hsz⟩, ?_⟩, hd⟩, rfl, rfl⟩
  · intro c hc'
    rcases List.mem_append.mp hc' with h1 | h1
    · exact hw.cavs.1 c h1
    · exact realise_wf _ _ (fun it hit => hi it (dedup_subset _ _ _ it hit)) c h1
  · rcases chain_length _ _ _ hc with rfl | h32
    · exact hw.tail
    · show t'.length < 2 ^ 32
      rw [h32]; omega

theorem wfCore_congr (m m' : M) (hn : m'.nonce = m.nonce) (hl : m'.loc = m.loc) (hc : m'.cavs = m.cavs)
    (ht : m'.tail.length < 2 ^ 32) (h : wfCore m = true) : wfCore m' = true := by
  simp only [wfCore, Bool.and_eq_true, decide_eq_true_eq, lenOk] at h ⊢
  rw [hn, hl, hc]
  exact ⟨⟨⟨⟨h.1.1.1.1, h.1.1.1.2⟩, h.1.1.2⟩, ht⟩, h.2⟩

/-- `Encode` brings a well-formed token into encoded state (a new proof is finalised) -/
theorem encodeState_wf (m : M) (h : wfCore m = true) (hp : m.newProof = true → m.nonce.proof = true) :
    wfMac (encodeState m) = true := by
  unfold encodeState
  by_cases hc : (m.nonce.proof && m.newProof) = true
  · rw [if_pos hc]
    have ht : (Crypto.finalize m.tail : Bytes).length < 2 ^ 32 := by rw [finalize_length]; omega
    have hcore := wfCore_congr m { m with tail := Crypto.finalize m.tail, newProof := false } rfl rfl rfl ht h
    simp only [wfMac, hcore, Bool.not_false, Bool.and_self]
  · rw [if_neg hc]
    have hn : m.newProof = false := by
      cases hnp : m.newProof with
      | false => rfl
      | true => exact absurd (by simp [hp hnp, hnp]) hc
    simp only [wfMac, h, hn, Bool.not_false, Bool.and_self]

theorem encodeState_idem (x : M) : encodeState (encodeState x) = encodeState x := by
  by_cases hc : (x.nonce.proof && x.newProof) = true
  · simp [encodeState, hc]
  · simp [encodeState, hc]

/-! ### `attMac` -/

/-- the success conditions of one attenuation that are not the guard's: `Add` succeeds, and the result
has at most 2³¹ − 1 caveats and nests within the decoder's budget -/
def AttOk (items : List (AddItem Bytes)) (m : M) : Prop :=
  ∃ c', add m items = (c', none) ∧ 2 * c'.cavs.length < 2 ^ 32 ∧ 1 + max 1 (encDepth c'.cavs) ≤ defaultFuel

/-- **attMac_defined.**  On a well-formed token, with well-formed arguments, `Attenuate`'s per-token
work is defined whenever `Add` succeeds within the size limits — the guard does not fire —, the result
is the token `Add` gives (printed), and it is well formed again. -/
theorem attMac_defined (items : List (AddItem Bytes)) (m : M) (hm : wfMac m = true)
    (hi : ∀ it ∈ items, itemOk it = true) (hok : AttOk items m) :
    ∃ c', add m items = (c', none) ∧
      Bundle.attMac items m = some (macString (encMac (toWire (encodeState c'))), encodeState c', c'.cavs.drop m.cavs.length) ∧
      wfMac (encodeState c') = true := by
  obtain ⟨c', hadd, hsz, hd⟩ := hok
  obtain ⟨he, hrb⟩ := readsBack_of_wellformed m hm
  have hm' := hm
  simp only [wfMac, Bool.and_eq_true, Bool.not_eq_true'] at hm'
  obtain ⟨hc', hnp', hnonce⟩ := add_core m c' items hadd hm'.1 hi hsz hd
  have hwf : wfMac (encodeState c') = true := encodeState_wf c' hc' (by rw [hnp', hm'.2]; simp)
  obtain ⟨he', hrb'⟩ := readsBack_of_wellformed _ hwf
  have hclone : (Concrete.encode m).2.bind Concrete.decode = some m := by
    rw [he]; simpa [readsBack] using hrb
  have henc : Concrete.encode c' = (encodeState c', some (encMac (toWire (encodeState c')))) := by
    have hall : (encodeState c').cavs.all encodable = true :=
      all_encodable_of_core (by simp only [wfMac, Bool.and_eq_true] at hwf; exact hwf.1)
    simp only [Concrete.encode, hall, if_true]
  refine ⟨c', hadd, ?_, hwf⟩
  unfold Bundle.attMac
  rw [hclone]
  simp only [hadd, henc, hrb', if_true]

/-- **attMac_wf.**  Whatever `Attenuate` stores for a token is well formed (this is what the guard buys). -/
theorem attMac_wf (items : List (AddItem Bytes)) (m : M) (s' : Str) (m' : M) (added : CS)
    (h : Bundle.attMac items m = some (s', m', added)) : wfMac m' = true := by
  obtain ⟨c, bytes, _, _, henc, _, _, hdec⟩ := attMac_spec items m s' m' added h
  have h1 : encodeState (add c items).1 = m' := congrArg Prod.fst henc
  have h2 : (if m'.cavs.all encodable then some (encMac (toWire m')) else none) = some bytes := by
    have := congrArg Prod.snd henc
    simpa [Concrete.encode, h1] using this
  have hst : encodeState m' = m' := by rw [← h1]; exact encodeState_idem _
  have henc' : Concrete.encode m' = (m', some bytes) := by
    simp only [Concrete.encode, hst, h2]
  exact (readsBack_iff_wellformed m' bytes henc').mp (by simp [readsBack, hdec])

/-- whatever is stored next to a text that decodes to it is well formed -/
theorem wf_of_encode_decode (x m' : M) (bytes : Bytes) (henc : Concrete.encode x = (m', some bytes))
    (hdec : Concrete.decode bytes = some m') : wfMac m' = true := by
  have h1 : encodeState x = m' := congrArg Prod.fst henc
  have h2 : (if m'.cavs.all encodable then some (encMac (toWire m')) else none) = some bytes := by
    have := congrArg Prod.snd henc
    simpa [Concrete.encode, h1] using this
  have hst : encodeState m' = m' := by rw [← h1]; exact encodeState_idem _
  have henc' : Concrete.encode m' = (m', some bytes) := by
    simp only [Concrete.encode, hst, h2]
  exact (readsBack_iff_wellformed m' bytes henc').mp (by simp [readsBack, hdec])

/-! ### `dischargeOne` -/

theorem mint_core (dk ticket loc rnd : Bytes) (ht : ticket.length < 2 ^ 32) (hr : rnd.length < 2 ^ 32)
    (hl : loc.length < 2 ^ 32) : wfCore (mint dk ticket loc rnd true) = true := by
  have hd : 1 + max 1 (encDepth []) ≤ defaultFuel := by decide
  have htl : (Crypto.macNonce dk ({ kid := ticket, rnd := rnd, version := 1, proof := true } : GNonce Bytes) : Bytes).length < 2 ^ 32 := by
    rw [macNonce_length]; omega
  have hcv : WFCavs (toWire (mint dk ticket loc rnd true)).cavs := ⟨fun c hc => (by cases hc), (by show 2 * 0 < 2 ^ 32; omega)⟩
  refine (wfCore_iff _).mpr ⟨⟨?_, hl, hcv, htl⟩, hd⟩
  simp only [mint, toWire, toNonce, WFNonce, lenOk, Bool.and_eq_true]
  exact ⟨⟨decide_eq_true ht, decide_eq_true hr⟩, by simp⟩

/-- **dischargeOne_defined.**  A ticket that opens, a callback that answers with well-formed caveats,
location / ticket / nonce randomness within the wire format's lengths: `Discharge`'s per-ticket work is
defined whenever `Add` succeeds within the size limits, and stores a well-formed token. -/
theorem dischargeOne_defined (loc ka : Bytes) (cb : Bundle.Discharger) (ticket rnd dk : Bytes) (tcavs : CS)
    (items : List (AddItem Bytes))
    (hopen : Crypto.openTicket ka ticket = TicketResult.ok dk tcavs) (hcb : cb tcavs = some items)
    (ht : ticket.length < 2 ^ 32) (hr : rnd.length < 2 ^ 32) (hl : loc.length < 2 ^ 32)
    (hi : ∀ it ∈ items, itemOk it = true) (hok : AttOk items (mint dk ticket loc rnd true)) :
    ∃ dm', add (mint dk ticket loc rnd true) items = (dm', none) ∧
      Bundle.dischargeOne loc ka cb ticket rnd =
        some (.unverified (macString (encMac (toWire (encodeState dm')))) (encodeState dm')) ∧
      wfMac (encodeState dm') = true := by
  obtain ⟨dm', hadd, hsz, hd⟩ := hok
  obtain ⟨hc', hnp', hnonce⟩ := add_core _ dm' items hadd (mint_core dk ticket loc rnd ht hr hl) hi hsz hd
  have hwf : wfMac (encodeState dm') = true := encodeState_wf dm' hc' (by rw [hnp', hnonce]; intro _; rfl)
  obtain ⟨_, hrb'⟩ := readsBack_of_wellformed _ hwf
  have henc : Concrete.encode dm' = (encodeState dm', some (encMac (toWire (encodeState dm')))) := by
    have hall : (encodeState dm').cavs.all encodable = true :=
      all_encodable_of_core (by simp only [wfMac, Bool.and_eq_true] at hwf; exact hwf.1)
    simp only [Concrete.encode, hall, if_true]
  refine ⟨dm', hadd, ?_, hwf⟩
  have hdt : dischargeTicket ka loc ticket rnd true = .ok (tcavs, mint dk ticket loc rnd true) := by
    simp only [dischargeTicket, hopen]
  unfold Bundle.dischargeOne
  simp only [hdt, hcb, hadd, henc, hrb', if_true]

/-- **dischargeOne_wf.**  Whatever `Discharge` mints is a well-formed unverified token. -/
theorem dischargeOne_wf {loc ka : Bytes} {cb : Bundle.Discharger} {ticket rnd : Bytes} {d : Tok}
    (h : Bundle.dischargeOne loc ka cb ticket rnd = some d) : ∃ s m, d = .unverified s m ∧ wfMac m = true := by
  obtain ⟨dm', dm'', bytes, henc, rfl, hdec⟩ := dischargeOne_spec h
  exact ⟨_, _, rfl, wf_of_encode_decode dm' dm'' bytes henc hdec⟩

/-! ### what `macaroon.Decode` returns -/

theorem encodeState_cavs (m : M) : (encodeState m).cavs = m.cavs := by
  unfold encodeState; split <;> rfl

/-- **decoded_wf_iff.**  A decoded token is in encoded state; if all its caveats can be printed it has
the shape the wire format can carry (`WFMac`: in particular every resource set sorted and free of
duplicates, whatever the bytes looked like), and it is well formed exactly if, moreover, its
canonical form nests within the decoder's budget. -/
theorem decoded_wf_iff (bs : Bytes) (m : M) (h : Concrete.decode bs = some m) :
    m.newProof = false ∧ (m.cavs.all encodable = true → WFMac (toWire m)) ∧
    (wfMac m = true ↔ (m.cavs.all encodable = true ∧ 1 + max 1 (encDepth m.cavs) ≤ defaultFuel)) := by
  simp only [Concrete.decode, Option.map_eq_some_iff] at h
  obtain ⟨w, hw, rfl⟩ := h
  have hshape : (ofWire w).cavs.all encodable = true → WFMac (toWire (ofWire w)) := fun henc =>
    (reencode_mac defaultFuel bs w hw (fun c hc => List.all_eq_true.mp henc c hc)).1
  refine ⟨rfl, hshape, ?_, ?_⟩
  · intro hwf
    simp only [wfMac, Bool.and_eq_true] at hwf
    exact ⟨all_encodable_of_core hwf.1, ((wfCore_iff _).mp hwf.1).2⟩
  · rintro ⟨henc, hd⟩
    simp only [wfMac, Bool.and_eq_true, Bool.not_eq_true']
    exact ⟨(wfCore_iff _).mpr ⟨hshape henc, hd⟩, rfl⟩

/-- class (a): a token with a caveat that cannot be printed (an unregistered caveat that lost its body):
`Encode` fails — in Go as in the model — so `Attenuate` fails before the guard is reached -/
theorem attMac_none_of_unprintable (items : List (AddItem Bytes)) (m : M) (h : m.cavs.all encodable = false) :
    (Concrete.encode m).2 = none ∧ Bundle.attMac items m = none := by
  have he : (Concrete.encode m).2 = none := by
    simp only [Concrete.encode, encodeState_cavs, h]
    rfl
  refine ⟨he, ?_⟩
  unfold Bundle.attMac
  rw [he]
  rfl

/-- class (b): a printable token whose canonical form nests deeper than the model decoder's budget
(the Go decoder has none): the clone step `Decode(Encode(m))` of `Attenuate` fails — before the guard -/
theorem attMac_none_of_too_deep (items : List (AddItem Bytes)) (m : M) (hn : m.newProof = false)
    (henc : m.cavs.all encodable = true) (hw : WFMac (toWire m)) (hd : defaultFuel < 1 + max 1 (encDepth m.cavs)) :
    (Concrete.encode m).2.bind Concrete.decode = none ∧ Bundle.attMac items m = none := by
  have he : (Concrete.encode m).2.bind Concrete.decode = none := by
    rw [encode_encoded m hn, henc]
    simp only [if_true, Option.bind_some, Concrete.decode]
    cases hdm : decodeMac defaultFuel (encMac (toWire m)) with
    | none => rfl
    | some w' =>
      have := depth_of_decode (toWire m) w' defaultFuel hw hdm
      have e : (toWire m).cavs = m.cavs := rfl
      rw [e] at this
      omega
  refine ⟨he, ?_⟩
  unfold Bundle.attMac
  rw [he]

/-- **parsed_token_cases.**  Every macaroon token of a parsed header is well formed, or is one of the
two kinds on which `Attenuate` fails before it reaches the guard, for every argument list:
(a) it holds a caveat that cannot be printed (Go's `Encode` fails too);
(b) it prints, but the canonical form nests deeper than the model decoder's budget of 200 levels. -/
theorem parsed_token_cases (hdr : Str) (t : Tok) (ht : t ∈ parseToks hdr) (m : M) (hm : t.mac? = some m) :
    wfMac m = true ∨
    (m.cavs.all encodable = false ∧ ∀ items, Bundle.attMac items m = none) ∨
    (m.cavs.all encodable = true ∧ defaultFuel < 1 + max 1 (encDepth m.cavs) ∧ ∀ items, Bundle.attMac items m = none) := by
  obtain ⟨bs, hbs⟩ : ∃ bs, Concrete.decode bs = some m := by
    simp only [parseToks, List.mem_map] at ht
    obtain ⟨x, _, rfl⟩ := ht
    cases x with
    | nonMacaroon s => simp [ofHeaderTok, Tok.mac?] at hm
    | malformedB64 s => simp [ofHeaderTok, Tok.mac?] at hm
    | macaroonBytes s raw =>
      simp only [ofHeaderTok] at hm
      cases hd : Concrete.decode raw with
      | none => simp [hd, Tok.mac?] at hm
      | some m0 =>
        simp only [hd, Tok.mac?, Option.some.injEq] at hm
        exact ⟨raw, by rw [hd, hm]⟩
  obtain ⟨hn, hshape, hiff⟩ := decoded_wf_iff bs m hbs
  cases henc : m.cavs.all encodable with
  | false => exact Or.inr (Or.inl ⟨rfl, fun items => (attMac_none_of_unprintable items m henc).2⟩)
  | true =>
    by_cases hd : 1 + max 1 (encDepth m.cavs) ≤ defaultFuel
    · exact Or.inl (hiff.mpr ⟨henc, hd⟩)
    · exact Or.inr (Or.inr ⟨rfl, by omega, fun items => (attMac_none_of_too_deep items m hn henc (hshape henc) (by omega)).2⟩)

/-! ### bundles -/

/-- every macaroon token of the bundle is well formed -/
def WFB (b : Bundle) : Prop := ∀ t ∈ b.ts, ∀ m, t.mac? = some m → wfMac m = true

/-- whatever `Attenuate` stages for a token is well formed -/
theorem attTok_wf (items : List (AddItem Bytes)) (t t' : Tok) (h : Bundle.attTok items t = some t') :
    ∀ m', t'.mac? = some m' → wfMac m' = true := by
  intro m' hm'
  cases t with
  | nonMac s => simp only [Bundle.attTok, Option.some.injEq] at h; subst h; simp [Tok.mac?] at hm'
  | malformed s => simp only [Bundle.attTok, Option.some.injEq] at h; subst h; simp [Tok.mac?] at hm'
  | unverified s m =>
    simp only [Bundle.attTok, Option.map_eq_some_iff] at h
    obtain ⟨⟨s1, m1, a1⟩, hr, rfl⟩ := h
    simp only [Tok.mac?, Option.some.injEq] at hm'; subst hm'
    exact attMac_wf items m s1 m1 a1 hr
  | verified s m cs =>
    simp only [Bundle.attTok, Option.map_eq_some_iff] at h
    obtain ⟨⟨s1, m1, a1⟩, hr, rfl⟩ := h
    simp only [Tok.mac?, Option.some.injEq] at hm'; subst hm'
    exact attMac_wf items m s1 m1 a1 hr
  | failed s m =>
    simp only [Bundle.attTok, Option.map_eq_some_iff] at h
    obtain ⟨⟨s1, m1, a1⟩, hr, rfl⟩ := h
    simp only [Tok.mac?, Option.some.injEq] at hm'; subst hm'
    exact attMac_wf items m s1 m1 a1 hr

theorem attTok_isSome (items : List (AddItem Bytes)) (t : Tok) (h : ∀ m, t.mac? = some m → (Bundle.attMac items m).isSome = true) :
    (Bundle.attTok items t).isSome = true := by
  cases t with
  | nonMac s => rfl
  | malformed s => rfl
  | unverified s m => simp only [Bundle.attTok, Option.isSome_map]; exact h m rfl
  | verified s m cs => simp only [Bundle.attTok, Option.isSome_map]; exact h m rfl
  | failed s m => simp only [Bundle.attTok, Option.isSome_map]; exact h m rfl

/-- **attenuate_defined_of_wellformed.**  If every permission token of the bundle is well formed, the
arguments are well formed, and on every permission token `Add` succeeds within the size limits, then
`Bundle.Attenuate` succeeds: the guard is never the reason for an error. -/
theorem attenuate_defined_of_wellformed (b : Bundle) (items : List (AddItem Bytes)) (hi : ∀ it ∈ items, itemOk it = true)
    (h : ∀ t ∈ b.ts, isPermAt b.permLoc t = true → ∀ m, t.mac? = some m → wfMac m = true ∧ AttOk items m) :
    (b.attenuate items).2 = false := by
  unfold Bundle.attenuate
  cases hts : Bundle.attenuateTs b.permLoc items b.ts with
  | some ts => rfl
  | none =>
    exfalso
    obtain ⟨t, ht, hnone⟩ := (mapM_eq_none_iff _ _).mp hts
    by_cases hp : isPermAt b.permLoc t = true
    · simp only [hp, if_true] at hnone
      have := attTok_isSome items t (fun m hm => by
        obtain ⟨hw, hok⟩ := h t ht hp m hm
        obtain ⟨c', _, hatt, _⟩ := attMac_defined items m hw hi hok
        rw [hatt]; rfl)
      rw [hnone] at this
      cases this
    · simp [hp] at hnone

/-- **wf_preserved (attenuate)**: unconditionally — a failed `Attenuate` changes nothing, a successful one
stores only well-formed tokens -/
theorem wf_attenuate (b : Bundle) (items : List (AddItem Bytes)) (hb : WFB b) : WFB (b.attenuate items).1 := by
  unfold Bundle.attenuate
  cases hts : Bundle.attenuateTs b.permLoc items b.ts with
  | none => exact hb
  | some ts =>
    intro t' ht' m' hm'
    obtain ⟨t, ht, hg⟩ := mem_of_map_eq_map_some' ((mapM_some_iff _ _ _).mp hts) t' ht'
    by_cases hp : isPermAt b.permLoc t = true
    · simp only [hp, if_true] at hg
      exact attTok_wf items t t' hg m' hm'
    · simp only [hp] at hg
      simp only [Bool.false_eq_true, if_false, Option.some.injEq] at hg
      subst hg
      exact hb t ht m' hm'

/-- the per-ticket success conditions of `Discharge` that are not the guard's -/
def DisOk (loc ka : Bytes) (cb : Bundle.Discharger) (ticket rnd : Bytes) : Prop :=
  ∃ dk tcavs items, Crypto.openTicket ka ticket = TicketResult.ok dk tcavs ∧ cb tcavs = some items ∧
    ticket.length < 2 ^ 32 ∧ rnd.length < 2 ^ 32 ∧ loc.length < 2 ^ 32 ∧ (∀ it ∈ items, itemOk it = true) ∧
    AttOk items (mint dk ticket loc rnd true)

/-- **discharge_defined_of_wellformed.**  If every ticket in scope opens, the callback answers with
well-formed caveats, the lengths fit the wire format and `Add` succeeds within the size limits, then
`Bundle.Discharge` succeeds: the guard is never the reason for an error. -/
theorem discharge_defined_of_wellformed (sc : Bundle.DischargeScope) (b : Bundle) (loc ka : Bytes) (cb : Bundle.Discharger)
    (rnds : List Bytes)
    (h : ∀ tr ∈ Bundle.withRnd (Bundle.ticketsInScope sc b.permLoc b.ts loc) rnds, DisOk loc ka cb tr.1 tr.2) :
    (Bundle.dischargeWith sc b loc ka cb rnds).2 = false := by
  unfold Bundle.dischargeWith
  cases hds : Bundle.newDischarges sc b.permLoc b.ts loc ka cb rnds with
  | some ds => rfl
  | none =>
    exfalso
    obtain ⟨tr, htr, hnone⟩ := (mapM_eq_none_iff _ _).mp hds
    obtain ⟨dk, tcavs, items, hopen, hcb, ht, hr, hl, hi, hok⟩ := h tr htr
    obtain ⟨dm', _, hd, _⟩ := dischargeOne_defined loc ka cb tr.1 tr.2 dk tcavs items hopen hcb ht hr hl hi hok
    rw [hd] at hnone
    cases hnone

/-- **wf_preserved (discharge)**: unconditionally -/
theorem wf_discharge (sc : Bundle.DischargeScope) (b : Bundle) (loc ka : Bytes) (cb : Bundle.Discharger)
    (rnds : List Bytes) (hb : WFB b) : WFB (Bundle.dischargeWith sc b loc ka cb rnds).1 := by
  unfold Bundle.dischargeWith
  cases hds : Bundle.newDischarges sc b.permLoc b.ts loc ka cb rnds with
  | none => exact hb
  | some ds =>
    intro t ht m hm
    rcases List.mem_append.mp ht with ht | ht
    · exact hb t ht m hm
    · obtain ⟨tr, _, hd⟩ := mem_of_map_eq_map_some' ((mapM_some_iff _ _ _).mp hds) t ht
      obtain ⟨s, m0, rfl, hw⟩ := dischargeOne_wf hd
      simp only [Tok.mac?, Option.some.injEq] at hm
      subst hm
      exact hw

/-- **wf_preserved (the other operations)**: `Verify` keeps every token's macaroon, `Filter` / `Select`
keep a sub-list, `AddTokens` appends parsed tokens (well formed unless of class (a)/(b), see
`parsed_token_cases`) -/
theorem wf_verifyBy (b : Bundle) (o : Bundle.Oracle) (hb : WFB b) : WFB (b.verifyBy o) := by
  intro t ht m hm
  simp only [Bundle.verifyBy, Bundle.verifyTs, List.mem_map] at ht
  obtain ⟨t0, ht0, rfl⟩ := ht
  by_cases hp : isPermAt b.permLoc t0 = true
  · simp only [hp, if_true, verdict_mac?] at hm
    exact hb t0 ht0 m hm
  · simp only [hp] at hm
    exact hb t0 ht0 m hm

theorem wf_filter (b : Bundle) (f : Filter) (hb : WFB b) : WFB (b.filter f) ∧ WFB (b.select f) :=
  ⟨fun t ht => hb t (applyMask_mem ht), fun t ht => hb t (applyMask_mem ht)⟩

theorem wf_addTokens (b : Bundle) (hdr : Str) (hb : WFB b)
    (hnew : ∀ t ∈ parseToks hdr, ∀ m, t.mac? = some m → wfMac m = true) : WFB (b.addTokens hdr).1 := by
  unfold Bundle.addTokens
  by_cases he : hasError (parseToks hdr) = true
  · simp only [he, if_true]; exact hb
  · simp only [he]
    intro t ht m hm
    rcases List.mem_append.mp ht with ht | ht
    · exact hb t ht m hm
    · exact hnew t ht m hm

theorem wf_parseWith (pl : Bytes) (hdr : Str) (f : Filter)
    (hnew : ∀ t ∈ parseToks hdr, ∀ m, t.mac? = some m → wfMac m = true) : WFB (Bundle.parseWith pl hdr f).1 :=
  fun t ht => hnew t (applyMask_mem ht)

/-! ### systems: well-formedness is an invariant of every history -/

open Macaroon.Bundle.Cache in
/-- every bundle of the system holds well-formed tokens only -/
def WFS (s : Cache.Sys) : Prop := ∀ b ∈ s.bundles, WFB b

open Macaroon.Bundle.Cache in
theorem wfs_get {s : Sys} (h : WFS s) (i : Nat) : WFB (s.get i) := by
  simp only [Sys.get, List.getD_eq_getElem?_getD]
  cases hi : s.bundles[i]? with
  | none => intro t ht; simp [emptyBundle] at ht
  | some b => exact h b (List.mem_of_getElem? hi)

open Macaroon.Bundle.Cache in
theorem wfs_set {s : Sys} (h : WFS s) (i : Nat) {b : Bundle} (hb : WFB b) : WFS (s.set i b) := by
  intro b' hb'
  rcases List.mem_or_eq_of_mem_set hb' with h1 | rfl
  · exact h b' h1
  · exact hb

open Macaroon.Bundle.Cache in
/-- **wf_preserved (histories).**  Every operation of a history — verify (cached or direct), validate,
attenuate, discharge, filter, header, tick, evict — keeps every bundle well formed, whatever its
arguments and whether it succeeds or not. -/
theorem wf_step (P : Params) (now : Int) (s : Sys) (op : Op) (h : WFS s) : WFS (step P now s op).1 := by
  cases op with
  | verify i mode =>
    cases mode with
    | direct => exact wfs_set h i (wf_verifyBy _ _ (wfs_get h i))
    | cached => exact wfs_set h i (wf_verifyBy _ _ (wfs_get h i))
  | validate i rs => exact h
  | attenuate i items => exact wfs_set h i (wf_attenuate _ items (wfs_get h i))
  | discharge i loc ka cb rnds => exact wfs_set h i (wf_discharge _ _ loc ka cb rnds (wfs_get h i))
  | filter i f => exact wfs_set h i (wf_filter _ f (wfs_get h i)).1
  | header i => exact h
  | tick => exact h
  | evict k => exact h

open Macaroon.Bundle.Cache in
theorem wf_init (pl : Bytes) (hdrs : List Str)
    (h : ∀ hdr ∈ hdrs, ∀ t ∈ parseToks hdr, ∀ m, t.mac? = some m → wfMac m = true) : WFS (init pl hdrs) := by
  intro b hb
  simp only [init, List.mem_map] at hb
  obtain ⟨hdr, hh, rfl⟩ := hb
  exact wf_parseWith pl hdr .default (h hdr hh)

/-! ### the predicate is decidable, satisfiable, and necessary -/

example : wfMac sortedTok = true := by decide
example : wfMac unsortedTok = false := by decide

end Macaroon.Lemmas.ReadsBack
