/-
Atomicity of the sections of flat programs on `Conc.RWMutex`: mutual exclusion, and - with a ghost
data layer on top of the lock model - no lost update.

Ghost layer: the token list is a value `shared : σ`; a `read` event of thread `i` takes a snapshot
(`snap i := shared`), a `write` event stores `upd i (snap i)` - what the thread computed from the
list as it last saw it (`b.ts = f(b.ts)`) - and the thread's view follows.  `log` records the
threads in the order of their `write` events.  Nothing in the lock semantics (`step`) looks at it.

If every `write` of a program comes after a `read` in the same section (`RBW`), then whatever the
schedule, the value stored by every write was computed from the CURRENT list: the final list is
the updates applied one after the other in log order.  Nothing is lost.
-/
import Macaroon.Lemmas.RWMutex

namespace Macaroon.Conc

/-! ### Mutual exclusion -/

/-- while a thread is inside a write section, no other thread is inside any section -/
theorem Inv.exclusive {c : Config} (h : Inv c) {i j : Nat} {t u : Thread}
    (hi : c.threads[i]? = some t) (hj : c.threads[j]? = some u) (hij : i ≠ j)
    (ht : t.inWr = true) : u.inRd = false ∧ u.inWr = false := by
  have hwriter := h.inWr_writer hi ht
  constructor
  · have h0 : c.threads.countP Thread.inRd = 0 := by rw [← h.rd]; exact h.excl hwriter
    exact not_of_countP_zero _ _ h0 j u hj
  · have hle : c.threads.countP Thread.inWr ≤ 1 := by
      rw [← h.wr]; split <;> omega
    exact unique_of_countP_le_one Thread.inWr c.threads hle ⟨false, []⟩
      (by simp [Thread.inWr, modeOf]) i j t u hi hj hij ht

/-- while a thread is inside a read section, no thread is inside a write section -/
theorem Inv.readers_exclude_writer {c : Config} (h : Inv c) {i j : Nat} {t u : Thread}
    (hi : c.threads[i]? = some t) (hj : c.threads[j]? = some u)
    (ht : t.inRd = true) : u.inWr = false := by
  cases hu : u.inWr with
  | false => rfl
  | true =>
    have hw := h.inWr_writer hj hu
    have := h.excl hw
    have := h.inRd_pos hi ht
    omega

/-! ### The ghost data layer -/

/-- the event thread `i` consumes when it takes its next step in `c` (`none`: it does not exist,
is finished or blocked, or merely announces a `Lock`) -/
def fired (c : Config) (i : Nat) : Option Ev :=
  match c.threads[i]? with
  | none => none
  | some t =>
    match t.prog, next c t with
    | _, none => none
    | [], _ => none
    | .lock :: _, some _ => if t.announced then some .lock else none
    | e :: _, some _ => some e

structure Ghost (σ : Type) where
  shared : σ
  snap : Nat → σ
  fresh : Nat → Bool
  log : List Nat

def gstep {σ} (upd : Nat → σ → σ) (g : Ghost σ) (c : Config) (i : Nat) : Ghost σ :=
  match fired c i with
  | some .read => { g with snap := fun j => if j = i then g.shared else g.snap j,
                           fresh := fun j => if j = i then true else g.fresh j }
  | some .write =>
    let v := upd i (g.snap i)
    { shared := v, snap := fun j => if j = i then v else g.snap j,
      fresh := fun j => if j = i then true else g.fresh j, log := g.log ++ [i] }
  | some .callout => g
  | some _ => { g with fresh := fun j => if j = i then false else g.fresh j }   -- entering / leaving a section
  | none => g

/-- lock model and ghost layer run in lockstep -/
def drun {σ} (upd : Nat → σ → σ) : Config × Ghost σ → List Nat → Config × Ghost σ
  | d, [] => d
  | (c, g), i :: is => drun upd (step c i, gstep upd g c i) is

theorem drun_fst {σ} (upd : Nat → σ → σ) (c : Config) (g : Ghost σ) (sched : List Nat) :
    (drun upd (c, g) sched).1 = run c sched := by
  induction sched generalizing c g with
  | nil => rfl
  | cons i is ih => simp only [drun, run, List.foldl_cons]; exact ih _ _

/-- every `write` comes after a `read` in the same section (the flag: a read has happened since
the section was entered) -/
def RBWFrom : Bool → List Ev → Bool
  | _, [] => true
  | _, .read :: r => RBWFrom true r
  | b, .write :: r => b && RBWFrom true r
  | b, .callout :: r => RBWFrom b r
  | _, _ :: r => RBWFrom false r

def RBW (p : List Ev) : Bool := RBWFrom false p

example : RBW [.lock, .read, .callout, .write, .unlock] = true := by decide
example : RBW [.rlock, .read, .runlock, .lock, .write, .unlock] = false := by decide   -- check-then-act
example : RBW [.lock, .write, .unlock] = false := by decide

theorem RBWFrom_mono (p : List Ev) (h : RBWFrom false p = true) : RBWFrom true p = true := by
  induction p with
  | nil => rfl
  | cons e r ih => cases e <;> simp_all [RBWFrom]

theorem RBWFrom_append (b : Bool) (p q : List Ev) (hp : RBWFrom b p = true) (hq : RBW q = true) :
    RBWFrom b (p ++ q) = true := by
  induction p generalizing b with
  | nil =>
    cases b
    · exact hq
    · exact RBWFrom_mono q hq
  | cons e r ih =>
    cases e <;> simp only [List.cons_append, RBWFrom] at hp ⊢
    all_goals first
      | exact ih _ hp
      | (simp only [Bool.and_eq_true] at hp ⊢; exact ⟨hp.1, ih _ hp.2⟩)

/-- the ghost invariant -/
structure GInv {σ} (upd : Nat → σ → σ) (s0 : σ) (c : Config) (g : Ghost σ) : Prop where
  inv : Inv c
  rbw : ∀ i t, c.threads[i]? = some t → RBWFrom (g.fresh i) t.prog = true
  cur : ∀ i t, c.threads[i]? = some t → g.fresh i = true →
          (t.inRd = true ∨ t.inWr = true) ∧ g.snap i = g.shared
  val : g.shared = g.log.foldl (fun s i => upd i s) s0

theorem next_prog (c : Config) (t t' : Thread) (rd : Nat) (wr : Bool)
    (hn : next c t = some (t', rd, wr)) :
    ∃ e r, t.prog = e :: r ∧ (t'.prog = r ∨ (e = .lock ∧ t.announced = false ∧ t'.prog = t.prog)) := by
  obtain ⟨ann, prog⟩ := t
  cases prog with
  | nil => simp [next] at hn
  | cons e r =>
    refine ⟨e, r, rfl, ?_⟩
    cases e <;> simp only [next] at hn
    case lock =>
      split at hn
      · split at hn
        · simp only [Option.some.injEq, Prod.mk.injEq] at hn
          obtain ⟨rfl, _, _⟩ := hn
          exact Or.inl rfl
        · simp at hn
      · rename_i ha
        simp only [Option.some.injEq, Prod.mk.injEq] at hn
        obtain ⟨rfl, _, _⟩ := hn
        exact Or.inr ⟨rfl, by simpa using ha, rfl⟩
    case rlock =>
      split at hn
      · simp only [Option.some.injEq, Prod.mk.injEq] at hn
        obtain ⟨rfl, _, _⟩ := hn
        exact Or.inl rfl
      · simp at hn
    all_goals
      simp only [Option.some.injEq, Prod.mk.injEq] at hn
      obtain ⟨rfl, _, _⟩ := hn
      exact Or.inl rfl

theorem fired_spec (c : Config) (i : Nat) (e : Ev) (h : fired c i = some e) :
    ∃ t r t' rd wr, c.threads[i]? = some t ∧ t.prog = e :: r ∧ next c t = some (t', rd, wr) ∧
      t'.prog = r ∧ step c i = { threads := c.threads.set i t', readers := rd, writer := wr } := by
  unfold fired at h
  cases hi : c.threads[i]? with
  | none => simp [hi] at h
  | some t =>
    simp only [hi] at h
    cases hn : next c t with
    | none => simp [hn] at h
    | some x =>
      obtain ⟨t', rd, wr⟩ := x
      have hstep : step c i = { threads := c.threads.set i t', readers := rd, writer := wr } := by
        simp [step, hi, hn]
      obtain ⟨e0, r, hp, hcase⟩ := next_prog c t t' rd wr hn
      rw [hp, hn] at h
      cases e0
      case lock =>
        simp only at h
        split at h
        · rename_i ha
          simp only [Option.some.injEq] at h; subst h
          rcases hcase with hc | ⟨_, hf, _⟩
          · exact ⟨t, r, t', rd, wr, rfl, hp, hn, hc, hstep⟩
          · rw [hf] at ha; cases ha
        · cases h
      all_goals
        simp only [Option.some.injEq] at h; subst h
        rcases hcase with hc | ⟨hl, _, _⟩
        · exact ⟨t, r, t', rd, wr, rfl, hp, hn, hc, hstep⟩
        · cases hl


theorem get_set_cases (l : List Thread) (i j : Nat) (t' u : Thread) (h : (l.set i t')[j]? = some u) :
    (j = i ∧ u = t') ∨ (j ≠ i ∧ l[j]? = some u) := by
  by_cases hji : j = i
  · subst hji
    left
    rw [List.getElem?_set_self'] at h
    cases hl : l[j]? with
    | none => simp [hl] at h
    | some x => simp [hl] at h; exact ⟨rfl, h.symm⟩
  · right
    rw [List.getElem?_set_ne (Ne.symm hji)] at h
    exact ⟨hji, h⟩

/-- a step that consumes no event leaves every thread's program as it was -/
theorem step_of_fired_none (c : Config) (i : Nat) (h : fired c i = none) (j : Nat) (u : Thread)
    (hu : (step c i).threads[j]? = some u) : ∃ t, c.threads[j]? = some t ∧ t.prog = u.prog := by
  unfold step at hu
  cases hi : c.threads[i]? with
  | none => simp only [hi] at hu; exact ⟨u, hu, rfl⟩
  | some t =>
    simp only [hi] at hu
    cases hn : next c t with
    | none => simp only [hn] at hu; exact ⟨u, hu, rfl⟩
    | some x =>
      obtain ⟨t', rd, wr⟩ := x
      simp only [hn] at hu
      rcases get_set_cases _ _ _ _ _ hu with ⟨rfl, rfl⟩ | ⟨_, hj⟩
      · refine ⟨t, hi, ?_⟩
        obtain ⟨e, r, hp, hcase⟩ := next_prog c t u rd wr hn
        rcases hcase with hc | ⟨_, _, hc⟩
        · -- an event was consumed: then `fired` is not none
          exfalso
          unfold fired at h
          simp only [hi, hp, hn] at h
          cases e <;> simp at h
          -- lock: consumed only when announced
          have hn' := hn
          obtain ⟨ann, prog⟩ := t
          simp only at hp h; subst hp
          simp only [next, h] at hn'
          simp only [Bool.false_eq_true, if_false, Option.some.injEq, Prod.mk.injEq] at hn'
          obtain ⟨rfl, _, _⟩ := hn'
          simp at hc
        · exact hc.symm
      · exact ⟨u, hj, rfl⟩

theorem modeOf_section_of_access (_m : Mode) (e : Ev) (r : List Ev) (he : e = .read ∨ e = .write)
    (h : FlatFrom (modeOf (e :: r)) (e :: r) = true) : modeOf r = .rd ∨ modeOf r = .wr := by
  rcases he with rfl | rfl <;> simp only [modeOf] at h <;>
    (generalize modeOf r = m' at h ⊢; cases m' <;> simp [FlatFrom] at h ⊢)

theorem ginv_step {σ} (upd : Nat → σ → σ) (s0 : σ) (c : Config) (g : Ghost σ) (i : Nat)
    (h : GInv upd s0 c g) : GInv upd s0 (step c i) (gstep upd g c i) := by
  have hinv' := inv_step c i h.inv
  cases hf : fired c i with
  | none =>
    have hg : gstep upd g c i = g := by simp [gstep, hf]
    rw [hg]
    refine ⟨hinv', ?_, ?_, h.val⟩
    · intro j u hu
      obtain ⟨t, ht, hp⟩ := step_of_fired_none c i hf j u hu
      rw [← hp]; exact h.rbw j t ht
    · intro j u hu hfr
      obtain ⟨t, ht, hp⟩ := step_of_fired_none c i hf j u hu
      have := h.cur j t ht hfr
      simpa [Thread.inRd, Thread.inWr, hp] using this
  | some e =>
    obtain ⟨t, r, t', rd, wr, hi, hp, hn, hp', hstep⟩ := fired_spec c i e hf
    have hflat := (h.inv.ok t (List.mem_of_getElem? hi)).flat
    rw [hp] at hflat
    have hrbw := h.rbw i t hi
    rw [hp] at hrbw
    -- threads other than i are untouched
    have other : ∀ j u, (step c i).threads[j]? = some u → j ≠ i → c.threads[j]? = some u := by
      intro j u hu hji
      rw [hstep] at hu
      rcases get_set_cases _ _ _ _ _ hu with ⟨rfl, _⟩ | ⟨_, hj⟩
      · exact absurd rfl hji
      · exact hj
    have self : ∀ u, (step c i).threads[i]? = some u → u = t' := by
      intro u hu
      rw [hstep] at hu
      rcases get_set_cases _ _ _ _ _ hu with ⟨_, hu'⟩ | ⟨hne, _⟩
      · exact hu'
      · exact absurd rfl hne
    cases e with
    | read =>
      have hsec := modeOf_section_of_access .idle .read r (Or.inl rfl) hflat
      simp only [gstep, hf]
      refine ⟨hinv', ?_, ?_, h.val⟩
      · intro j u hu
        by_cases hji : j = i
        · subst hji
          rw [self u hu, hp']
          simpa [RBWFrom] using hrbw
        · simp only [hji, if_false]
          exact h.rbw j u (other j u hu hji)
      · intro j u hu hfr
        by_cases hji : j = i
        · subst hji
          rw [self u hu]
          simp only [Thread.inRd, Thread.inWr, hp', if_true]
          rcases hsec with hs | hs <;> simp [hs]
        · simp only [hji, if_false] at hfr ⊢
          exact h.cur j u (other j u hu hji) hfr
    | write =>
      have hsec := modeOf_section_of_access .idle .write r (Or.inr rfl) hflat
      have htw : t.inWr = true := by
        simp only [Thread.inWr, hp, modeOf]
        simp only [modeOf] at hflat
        generalize modeOf r = m at hflat ⊢
        cases m <;> simp [FlatFrom] at hflat ⊢
      simp only [RBWFrom, Bool.and_eq_true] at hrbw
      have hcur := (h.cur i t hi hrbw.1).2
      simp only [gstep, hf]
      refine ⟨hinv', ?_, ?_, ?_⟩
      · intro j u hu
        by_cases hji : j = i
        · subst hji
          rw [self u hu, hp']
          simpa using hrbw.2
        · simp only [hji, if_false]
          exact h.rbw j u (other j u hu hji)
      · intro j u hu hfr
        by_cases hji : j = i
        · subst hji
          rw [self u hu]
          simp only [Thread.inRd, Thread.inWr, hp', if_true]
          rcases hsec with hs | hs <;> simp [hs]
        · simp only [hji, if_false] at hfr
          have hj := other j u hu hji
          have hsecj := (h.cur j u hj hfr).1
          have hex := h.inv.exclusive hi hj (Ne.symm hji) htw
          rcases hsecj with hs | hs
          · rw [hex.1] at hs; cases hs
          · rw [hex.2] at hs; cases hs
      · simp only [List.foldl_append, List.foldl_cons, List.foldl_nil]
        rw [hcur, h.val]
    | callout =>
      have hg : gstep upd g c i = g := by simp [gstep, hf]
      rw [hg]
      refine ⟨hinv', ?_, ?_, h.val⟩
      · intro j u hu
        by_cases hji : j = i
        · subst hji
          rw [self u hu, hp']
          simpa [RBWFrom] using hrbw
        · exact h.rbw j u (other j u hu hji)
      · intro j u hu hfr
        by_cases hji : j = i
        · subst hji
          rw [self u hu]
          have := h.cur j t hi hfr
          simpa [Thread.inRd, Thread.inWr, hp, hp', modeOf] using this
        · exact h.cur j u (other j u hu hji) hfr
    | rlock | runlock | lock | unlock =>
      simp only [gstep, hf]
      refine ⟨hinv', ?_, ?_, h.val⟩
      · intro j u hu
        by_cases hji : j = i
        · subst hji
          rw [self u hu, hp']
          simpa [RBWFrom] using hrbw
        · simp only [hji, if_false]
          exact h.rbw j u (other j u hu hji)
      · intro j u hu hfr
        by_cases hji : j = i
        · subst hji; simp at hfr
        · simp only [hji, if_false] at hfr ⊢
          exact h.cur j u (other j u hu hji) hfr


def ginit {σ} (s0 : σ) : Ghost σ := { shared := s0, snap := fun _ => s0, fresh := fun _ => false, log := [] }

theorem ginv_init {σ} (upd : Nat → σ → σ) (s0 : σ) (progs : List (List Ev))
    (hflat : ∀ p ∈ progs, Flat p = true) (hrbw : ∀ p ∈ progs, RBW p = true) :
    GInv upd s0 (init progs) (ginit s0) := by
  refine ⟨inv_init progs hflat, ?_, ?_, rfl⟩
  · intro i t ht
    have hm := List.mem_of_getElem? ht
    simp only [init, List.mem_map] at hm
    obtain ⟨p, hp, rfl⟩ := hm
    exact hrbw p hp
  · intro i t _ hfr
    simp [ginit] at hfr

theorem ginv_run {σ} (upd : Nat → σ → σ) (s0 : σ) (c : Config) (g : Ghost σ) (h : GInv upd s0 c g)
    (sched : List Nat) : GInv upd s0 (drun upd (c, g) sched).1 (drun upd (c, g) sched).2 := by
  induction sched generalizing c g with
  | nil => exact h
  | cons i is ih => exact ih _ _ (ginv_step upd s0 c g i h)

/-- **No lost update**: for flat programs whose writes come after a read in the same section, under
every schedule the token list is the updates applied one after the other, in the order in which
the writes happened - each computed from the list the previous one left. -/
theorem flat_no_lost_update {σ} (upd : Nat → σ → σ) (s0 : σ) (progs : List (List Ev))
    (hflat : ∀ p ∈ progs, Flat p = true) (hrbw : ∀ p ∈ progs, RBW p = true) (sched : List Nat) :
    (drun upd (init progs, ginit s0) sched).2.shared
      = (drun upd (init progs, ginit s0) sched).2.log.foldl (fun s i => upd i s) s0 :=
  (ginv_run upd s0 _ _ (ginv_init upd s0 progs hflat hrbw) sched).val

/-- in particular, when every write appends the writer's own tokens, all of them are there -/
theorem flat_appends_all_present {τ} (x : Nat → List τ) (s0 : List τ) (progs : List (List Ev))
    (hflat : ∀ p ∈ progs, Flat p = true) (hrbw : ∀ p ∈ progs, RBW p = true) (sched : List Nat) :
    (drun (fun i s => s ++ x i) (init progs, ginit s0) sched).2.shared
      = s0 ++ ((drun (fun i s => s ++ x i) (init progs, ginit s0) sched).2.log.map x).flatten := by
  rw [flat_no_lost_update (fun i s => s ++ x i) s0 progs hflat hrbw sched]
  generalize (drun (fun i s => s ++ x i) (init progs, ginit s0) sched).2.log = l
  induction l generalizing s0 with
  | nil => simp
  | cons a l ih => simp [List.foldl_cons, ih, List.append_assoc]

/-- **Mutual exclusion**, for every reachable configuration of flat programs -/
theorem flat_sections_exclusive (progs : List (List Ev)) (hflat : ∀ p ∈ progs, Flat p = true)
    (sched : List Nat) (i j : Nat) (t u : Thread)
    (hi : (run (init progs) sched).threads[i]? = some t)
    (hj : (run (init progs) sched).threads[j]? = some u) (hij : i ≠ j) (ht : t.inWr = true) :
    u.inRd = false ∧ u.inWr = false :=
  (inv_run _ (inv_init progs hflat) sched).exclusive hi hj hij ht


/-! ### Readers see the list before or after a modification, never a mix -/

/-- every thread's snapshot is the fold of a PREFIX of the write log: the token list as it stood
after some number of the modifications, applied whole and in write order -/
def SnapsArePrefixes {σ} (upd : Nat → σ → σ) (s0 : σ) (g : Ghost σ) : Prop :=
  ∀ j, ∃ k, k ≤ g.log.length ∧ g.snap j = (g.log.take k).foldl (fun s i => upd i s) s0

theorem snapsArePrefixes_init {σ} (upd : Nat → σ → σ) (s0 : σ) : SnapsArePrefixes upd s0 (ginit s0) :=
  fun _ => ⟨0, Nat.le_refl _, rfl⟩

theorem snapsArePrefixes_step {σ} (upd : Nat → σ → σ) (s0 : σ) (c : Config) (g : Ghost σ) (i : Nat)
    (h : GInv upd s0 c g) (hp : SnapsArePrefixes upd s0 g) : SnapsArePrefixes upd s0 (gstep upd g c i) := by
  have hval' := (ginv_step upd s0 c g i h).val
  cases hf : fired c i with
  | none => simpa [gstep, hf] using hp
  | some e =>
    cases e with
    | read =>
      simp only [gstep, hf]
      intro j
      by_cases hji : j = i
      · subst hji
        refine ⟨g.log.length, Nat.le_refl _, ?_⟩
        simp only [if_true, List.take_length]
        exact h.val
      · simpa [hji] using hp j
    | write =>
      simp only [gstep, hf] at hval' ⊢
      intro j
      by_cases hji : j = i
      · subst hji
        refine ⟨(g.log ++ [j]).length, Nat.le_refl _, ?_⟩
        simp only [if_true, List.take_length]
        exact hval'
      · obtain ⟨k, hk, hs⟩ := hp j
        refine ⟨k, by simp; omega, ?_⟩
        simp only [hji, if_false]
        rw [List.take_append_of_le_length hk]
        exact hs
    | callout => simpa [gstep, hf] using hp
    | rlock | runlock | lock | unlock =>
      simp only [gstep, hf]
      exact hp

theorem snapsArePrefixes_run {σ} (upd : Nat → σ → σ) (s0 : σ) (c : Config) (g : Ghost σ) (h : GInv upd s0 c g)
    (hp : SnapsArePrefixes upd s0 g) (sched : List Nat) : SnapsArePrefixes upd s0 (drun upd (c, g) sched).2 := by
  induction sched generalizing c g with
  | nil => exact hp
  | cons i is ih => exact ih _ _ (ginv_step upd s0 c g i h) (snapsArePrefixes_step upd s0 c g i h hp)

/-- **Readers see the old or the new list, never a mix**: under every schedule, whatever any thread
has read (its snapshot) is the initial list with the first `k` modifications of the write log applied,
each whole and in the order written; and a snapshot taken in the section the thread is still in
(`fresh`) is the CURRENT list -/
theorem flat_reads_see_prefix {σ} (upd : Nat → σ → σ) (s0 : σ) (progs : List (List Ev))
    (hflat : ∀ p ∈ progs, Flat p = true) (hrbw : ∀ p ∈ progs, RBW p = true) (sched : List Nat) (i : Nat) :
    let g := (drun upd (init progs, ginit s0) sched).2
    (∃ k, k ≤ g.log.length ∧ g.snap i = (g.log.take k).foldl (fun s j => upd j s) s0) ∧
    (∀ t, (run (init progs) sched).threads[i]? = some t → g.fresh i = true → g.snap i = g.shared) := by
  intro g
  have hinv := ginv_run upd s0 _ _ (ginv_init upd s0 progs hflat hrbw) sched
  refine ⟨snapsArePrefixes_run upd s0 _ _ (ginv_init upd s0 progs hflat hrbw) (snapsArePrefixes_init upd s0) sched i, ?_⟩
  intro t ht hfr
  rw [← drun_fst upd (init progs) (ginit s0) sched] at ht
  exact (hinv.cur i t ht hfr).2

/-! ### Every run terminates: effective steps are bounded by the weight -/

/-- the number of steps of a schedule that actually move a thread (a step of a thread that does not
exist, is finished or is blocked leaves the configuration as it is) -/
def effSteps : Config → List Nat → Nat
  | _, [] => 0
  | c, i :: is => (if enabled c i then 1 else 0) + effSteps (step c i) is

theorem step_of_not_enabled (c : Config) (i : Nat) (h : enabled c i = false) : step c i = c := by
  unfold enabled at h
  unfold step
  split
  · rfl
  · rename_i t hi
    simp only [hi] at h
    cases hn : next c t with
    | none => rfl
    | some x => simp [hn] at h

/-- whatever the schedule: effective steps + remaining weight never exceed the initial weight -/
theorem effSteps_add_weight_le (c : Config) (sched : List Nat) :
    effSteps c sched + (run c sched).weight ≤ c.weight := by
  induction sched generalizing c with
  | nil => simp [effSteps, run]
  | cons i is ih =>
    simp only [effSteps, run, List.foldl_cons]
    have := ih (step c i)
    simp only [run] at this
    cases he : enabled c i with
    | true =>
      have := step_weight_lt c i he
      simp only [if_true]
      omega
    | false =>
      rw [step_of_not_enabled c i he] at this ⊢
      simp only [Bool.false_eq_true, if_false]
      omega

/-- the weight of the initial configuration: two units per event plus one per thread -/
theorem weight_init (progs : List (List Ev)) :
    (init progs).weight = (progs.map fun p => 2 * p.length + 1).sum := by
  simp only [Config.weight, init, List.map_map]
  congr 1

/-- **Every maximal run finishes**, under ANY scheduler: for flat programs and every schedule,
(1) at most `weight` steps of the schedule move a thread; (2) as long as some thread is unfinished
some thread can move; (3) so once no thread can move, every thread has finished.  A scheduler that
keeps picking some enabled thread while there is one therefore completes every call after at most
`weight` picks. -/
theorem flat_every_maximal_run_finishes (progs : List (List Ev)) (hflat : ∀ p ∈ progs, Flat p = true)
    (sched : List Nat) :
    effSteps (init progs) sched ≤ (progs.map fun p => 2 * p.length + 1).sum ∧
    (finished (run (init progs) sched) = false →
      ∃ i, i < (run (init progs) sched).threads.length ∧ enabled (run (init progs) sched) i = true) ∧
    ((∀ i, enabled (run (init progs) sched) i = false) → finished (run (init progs) sched) = true) := by
  have hinv := inv_run _ (inv_init progs hflat) sched
  have hw := effSteps_add_weight_le (init progs) sched
  rw [weight_init] at hw
  refine ⟨by omega, fun hf => progress _ hinv hf, ?_⟩
  intro hno
  cases hf : finished (run (init progs) sched) with
  | true => rfl
  | false =>
    obtain ⟨i, _, he⟩ := progress _ hinv hf
    rw [hno i] at he; cases he


/-! ### Per-call updates

`upd i` above is one function per thread.  A thread that performs several modifying calls applies a
different function each time; this is the instance of the generic statement in which the shared
value carries, next to the token list, how many writes each thread has done (a ghost counter that
only `write` events touch, so by `flat_no_lost_update` itself it is never lost either). -/

/-- the `k`-th write of thread `i` stores `updc i k` of its snapshot -/
def perCall {σ} (updc : Nat → Nat → σ → σ) (i : Nat) (p : σ × (Nat → Nat)) : σ × (Nat → Nat) :=
  (updc i (p.2 i) p.1, fun j => if j = i then p.2 j + 1 else p.2 j)

/-- the writes of a log applied in order, each thread's writes numbered 0, 1, 2, … -/
def applyLog {σ} (updc : Nat → Nat → σ → σ) (s0 : σ) (log : List Nat) : σ × (Nat → Nat) :=
  log.foldl (fun p i => perCall updc i p) (s0, fun _ => 0)

theorem applyLog_snoc {σ} (updc : Nat → Nat → σ → σ) (s0 : σ) (log : List Nat) (i : Nat) :
    applyLog updc s0 (log ++ [i]) = perCall updc i (applyLog updc s0 log) := by
  simp [applyLog, List.foldl_append]

theorem foldl_perCall_count {σ} (updc : Nat → Nat → σ → σ) (j : Nat) :
    ∀ (log : List Nat) (p : σ × (Nat → Nat)),
      (log.foldl (fun p i => perCall updc i p) p).2 j = p.2 j + log.count j
  | [], p => by simp
  | i :: l, p => by
    rw [List.foldl_cons, foldl_perCall_count updc j l]
    simp only [perCall, List.count_cons]
    by_cases h : j = i
    · subst h; simp; omega
    · have : (i == j) = false := by simpa using fun e => h e.symm
      simp [h, this]

/-- the counter is the number of writes of that thread so far -/
theorem applyLog_count {σ} (updc : Nat → Nat → σ → σ) (s0 : σ) (log : List Nat) (j : Nat) :
    (applyLog updc s0 log).2 j = log.count j := by
  simp [applyLog, foldl_perCall_count]

/-- **No lost update, per call**: under every schedule the token list is the log applied in write
order, where the `k`-th write of thread `i` contributes `updc i k` -/
theorem flat_no_lost_update_per_call {σ} (updc : Nat → Nat → σ → σ) (s0 : σ) (progs : List (List Ev))
    (hflat : ∀ p ∈ progs, Flat p = true) (hrbw : ∀ p ∈ progs, RBW p = true) (sched : List Nat) :
    (drun (perCall updc) (init progs, ginit (s0, fun _ => 0)) sched).2.shared
      = applyLog updc s0 (drun (perCall updc) (init progs, ginit (s0, fun _ => 0)) sched).2.log :=
  flat_no_lost_update (perCall updc) (s0, fun _ => 0) progs hflat hrbw sched

end Macaroon.Conc
