/-
Atomicity of the sections of flat programs on `Conc.RWMutex`: mutual exclusion, and - with a ghost
data layer on top of the lock model - no lost update.

Ghost layer: the token list is a value `shared : σ`; a `read` event of thread `i` takes a snapshot
(`snap i := shared`), a `write` event stores `upd i (snap i)` - what the thread computed from the
list as it last saw it (`b.ts = f(b.ts)`) - and the thread's view follows.  `log` records the
threads in the order of their `write` events.  Nothing in the lock semantics (`step`) looks at it.

If every `write` of a program comes after a `read` in the same section (`RBW`), then whatever the
schedule, the value stored by every write was computed from the CURRENT list: the final list is
the updates applied one after the other in log order.  Nothing is lost.
-/
import Macaroon.Lemmas.RWMutex

namespace Macaroon.Conc

/-! ### Mutual exclusion -/

/-- while a thread is inside a write section, no other thread is inside any section -/
theorem Inv.exclusive {c : Config} (h : Inv c) {i j : Nat} {t u : Thread}
    (hi : c.threads[i]? = some t) (hj : c.threads[j]? = some u) (hij : i ≠ j)
    (ht : t.inWr = true) : u.inRd = false ∧ u.inWr = false := by
  have hwriter := h.inWr_writer hi ht
  constructor
  · have h0 : c.threads.countP Thread.inRd = 0 := by rw [← h.rd]; exact h.excl hwriter
    exact not_of_countP_zero _ _ h0 j u hj
  · have hle : c.threads.countP Thread.inWr ≤ 1 := by
      rw [← h.wr]; split <;> omega
    exact unique_of_countP_le_one Thread.inWr c.threads hle ⟨false, []⟩
      (by simp [Thread.inWr, modeOf]) i j t u hi hj hij ht

/-- while a thread is inside a read section, no thread is inside a write section -/
theorem Inv.readers_exclude_writer {c : Config} (h : Inv c) {i j : Nat} {t u : Thread}
    (hi : c.threads[i]? = some t) (hj : c.threads[j]? = some u)
    (ht : t.inRd = true) : u.inWr = false := by
  cases hu : u.inWr with
  | false => rfl
  | true =>
    have hw := h.inWr_writer hj hu
    have := h.excl hw
    have := h.inRd_pos hi ht
    omega

/-! ### The ghost data layer -/

/-- the event thread `i` consumes when it takes its next step in `c` (`none`: it does not exist,
is finished or blocked, or merely announces a `Lock`) -/
def fired (c : Config) (i : Nat) : Option Ev :=
  match c.threads[i]? with
  | none => none
  | some t =>
    match t.prog, next c t with
    | _, none => none
    | [], _ => none
    | .lock :: _, some _ => if t.announced then some .lock else none
    | e :: _, some _ => some e

structure Ghost (σ : Type) where
  shared : σ
  snap : Nat → σ
  fresh : Nat → Bool
  log : List Nat

def gstep {σ} (upd : Nat → σ → σ) (g : Ghost σ) (c : Config) (i : Nat) : Ghost σ :=
  match fired c i with
  | some .read => { g with snap := fun j => if j = i then g.shared else g.snap j,
                           fresh := fun j => if j = i then true else g.fresh j }
  | some .write =>
    let v := upd i (g.snap i)
    { shared := v, snap := fun j => if j = i then v else g.snap j,
      fresh := fun j => if j = i then true else g.fresh j, log := g.log ++ [i] }
  | some .callout => g
  | some _ => { g with fresh := fun j => if j = i then false else g.fresh j }   -- entering / leaving a section
  | none => g

/-- lock model and ghost layer run in lockstep -/
def drun {σ} (upd : Nat → σ → σ) : Config × Ghost σ → List Nat → Config × Ghost σ
  | d, [] => d
  | (c, g), i :: is => drun upd (step c i, gstep upd g c i) is

theorem drun_fst {σ} (upd : Nat → σ → σ) (c : Config) (g : Ghost σ) (sched : List Nat) :
    (drun upd (c, g) sched).1 = run c sched := by
  induction sched generalizing c g with
  | nil => rfl
  | cons i is ih => simp only [drun, run, List.foldl_cons]; exact ih _ _

/-- every `write` comes after a `read` in the same section (the flag: a read has happened since
the section was entered) -/
def RBWFrom : Bool → List Ev → Bool
  | _, [] => true
  | _, .read :: r => RBWFrom true r
  | b, .write :: r => b && RBWFrom true r
  | b, .callout :: r => RBWFrom b r
  | _, _ :: r => RBWFrom false r

def RBW (p : List Ev) : Bool := RBWFrom false p

example : RBW [.lock, .read, .callout, .write, .unlock] = true := by decide
example : RBW [.rlock, .read, .runlock, .lock, .write, .unlock] = false := by decide   -- check-then-act
example : RBW [.lock, .write, .unlock] = false := by decide

theorem RBWFrom_mono (p : List Ev) (h : RBWFrom false p = true) : RBWFrom true p = true := by
  induction p with
  | nil => rfl
  | cons e r ih => cases e <;> simp_all [RBWFrom]

theorem RBWFrom_append (b : Bool) (p q : List Ev) (hp : RBWFrom b p = true) (hq : RBW q = true) :
    RBWFrom b (p ++ q) = true := by
  induction p generalizing b with
  | nil =>
    cases b
    · exact hq
    · exact RBWFrom_mono q hq
  | cons e r ih =>
    cases e <;> simp only [List.cons_append, RBWFrom] at hp ⊢
    all_goals first
      | exact ih _ hp
      | (simp only [Bool.and_eq_true] at hp ⊢; exact ⟨hp.1, ih _ hp.2⟩)

/-- the ghost invariant -/
structure GInv {σ} (upd : Nat → σ → σ) (s0 : σ) (c : Config) (g : Ghost σ) : Prop where
  inv : Inv c
  rbw : ∀ i t, c.threads[i]? = some t → RBWFrom (g.fresh i) t.prog = true
  cur : ∀ i t, c.threads[i]? = some t → g.fresh i = true →
          (t.inRd = true ∨ t.inWr = true) ∧ g.snap i = g.shared
  val : g.shared = g.log.foldl (fun s i => upd i s) s0

theorem next_prog (c : Config) (t t' : Thread) (rd : Nat) (wr : Bool)
    (hn : next c t = some (t', rd, wr)) :
    ∃ e r, t.prog = e :: r ∧ (t'.prog = r ∨ (e = .lock ∧ t.announced = false ∧ t'.prog = t.prog)) := by
  obtain ⟨ann, prog⟩ := t
  cases prog with
  | nil => simp [next] at hn
  | cons e r =>
    refine ⟨e, r, rfl, ?_⟩
    cases e <;> simp only [next] at hn
    case lock =>
      split at hn
      · split at hn
        · simp only [Option.some.injEq, Prod.mk.injEq] at hn
          obtain ⟨rfl, _, _⟩ := hn
          exact Or.inl rfl
        · simp at hn
      · rename_i ha
        simp only [Option.some.injEq, Prod.mk.injEq] at hn
        obtain ⟨rfl, _, _⟩ := hn
        exact Or.inr ⟨rfl, by simpa using ha, rfl⟩
    case rlock =>
      split at hn
      · simp only [Option.some.injEq, Prod.mk.injEq] at hn
        obtain ⟨rfl, _, _⟩ := hn
        exact Or.inl rfl
      · simp at hn
    all_goals
      simp only [Option.some.injEq, Prod.mk.injEq] at hn
      obtain ⟨rfl, _, _⟩ := hn
      exact Or.inl rfl

theorem fired_spec (c : Config) (i : Nat) (e : Ev) (h : fired c i = some e) :
    ∃ t r t' rd wr, c.threads[i]? = some t ∧ t.prog = e :: r ∧ next c t = some (t', rd, wr) ∧
      t'.prog = r ∧ step c i = { threads := c.threads.set i t', readers := rd, writer := wr } := by
  unfold fired at h
  cases hi : c.threads[i]? with
  | none => simp [hi] at h
  | some t =>
    simp only [hi] at h
    cases hn : next c t with
    | none => simp [hn] at h
    | some x =>
      obtain ⟨t', rd, wr⟩ := x
      have hstep : step c i = { threads := c.threads.set i t', readers := rd, writer := wr } := by
        simp [step, hi, hn]
      obtain ⟨e0, r, hp, hcase⟩ := next_prog c t t' rd wr hn
      rw [hp, hn] at h
      cases e0
      case lock =>
        simp only at h
        split at h
        · rename_i ha
          simp only [Option.some.injEq] at h; subst h
          rcases hcase with hc | ⟨_, hf, _⟩
          · exact ⟨t, r, t', rd, wr, rfl, hp, hn, hc, hstep⟩
          · rw [hf] at ha; cases ha
        · cases h
      all_goals
        simp only [Option.some.injEq] at h; subst h
        rcases hcase with hc | ⟨hl, _, _⟩
        · exact ⟨t, r, t', rd, wr, rfl, hp, hn, hc, hstep⟩
        · cases hl


theorem get_set_cases (l : List Thread) (i j : Nat) (t' u : Thread) (h : (l.set i t')[j]? = some u) :
    (j = i ∧ u = t') ∨ (j ≠ i ∧ l[j]? = some u) := by
  by_cases hji : j = i
  · subst hji
    left
    rw [List.getElem?_set_self'] at h
    cases hl : l[j]? with
    | none => simp [hl] at h
    | some x => simp [hl] at h; exact ⟨rfl, h.symm⟩
  · right
    rw [List.getElem?_set_ne (Ne.symm hji)] at h
    exact ⟨hji, h⟩

/-- a step that consumes no event leaves every thread's program as it was -/
theorem step_of_fired_none (c : Config) (i : Nat) (h : fired c i = none) (j : Nat) (u : Thread)
    (hu : (step c i).threads[j]? = some u) : ∃ t, c.threads[j]? = some t ∧ t.prog = u.prog := by
  unfold step at hu
  cases hi : c.threads[i]? with
  | none => simp only [hi] at hu; exact ⟨u, hu, rfl⟩
  | some t =>
    simp only [hi] at hu
    cases hn : next c t with
    | none => simp only [hn] at hu; exact ⟨u, hu, rfl⟩
    | some x =>
      obtain ⟨t', rd, wr⟩ := x
      simp only [hn] at hu
      rcases get_set_cases _ _ _ _ _ hu with ⟨rfl, rfl⟩ | ⟨_, hj⟩
      · refine ⟨t, hi, ?_⟩
        obtain ⟨e, r, hp, hcase⟩ := next_prog c t u rd wr hn
        rcases hcase with hc | ⟨_, _, hc⟩
        · -- an event was consumed: then `fired` is not none
          exfalso
          unfold fired at h
          simp only [hi, hp, hn] at h
          cases e <;> simp at h
          -- lock: consumed only when announced
          have hn' := hn
          obtain ⟨ann, prog⟩ := t
          simp only at hp h; subst hp
          simp only [next, h] at hn'
          simp only [Bool.false_eq_true, if_false, Option.some.injEq, Prod.mk.injEq] at hn'
          obtain ⟨rfl, _, _⟩ := hn'
          simp at hc
        · exact hc.symm
      · exact ⟨u, hj, rfl⟩

theorem modeOf_section_of_access (_m : Mode) (e : Ev) (r : List Ev) (he : e = .read ∨ e = .write)
    (h : FlatFrom (modeOf (e :: r)) (e :: r) = true) : modeOf r = .rd ∨ modeOf r = .wr := by
  rcases he with rfl | rfl <;> simp only [modeOf] at h <;>
    (generalize modeOf r = m' at h ⊢; cases m' <;> simp [FlatFrom] at h ⊢)

theorem ginv_step {σ} (upd : Nat → σ → σ) (s0 : σ) (c : Config) (g : Ghost σ) (i : Nat)
    (h : GInv upd s0 c g) : GInv upd s0 (step c i) (gstep upd g c i) := by
  have hinv' := inv_step c i h.inv
  cases hf : fired c i with
  | none =>
    have hg : gstep upd g c i = g := by simp [gstep, hf]
    rw [hg]
    refine ⟨hinv', ?_, ?_, h.val⟩
    · intro j u hu
      obtain ⟨t, ht, hp⟩ := step_of_fired_none c i hf j u hu
      rw [← hp]; exact h.rbw j t ht
    · intro j u hu hfr
      obtain ⟨t, ht, hp⟩ := step_of_fired_none c i hf j u hu
      have := h.cur j t ht hfr
      simpa [Thread.inRd, Thread.inWr, hp] using this
  | some e =>
    obtain ⟨t, r, t', rd, wr, hi, hp, hn, hp', hstep⟩ := fired_spec c i e hf
    have hflat := (h.inv.ok t (List.mem_of_getElem? hi)).flat
    rw [hp] at hflat
    have hrbw := h.rbw i t hi
    rw [hp] at hrbw
    -- threads other than i are untouched
    have other : ∀ j u, (step c i).threads[j]? = some u → j ≠ i → c.threads[j]? = some u := by
      intro j u hu hji
      rw [hstep] at hu
      rcases get_set_cases _ _ _ _ _ hu with ⟨rfl, _⟩ | ⟨_, hj⟩
      · exact absurd rfl hji
      · exact hj
    have self : ∀ u, (step c i).threads[i]? = some u → u = t' := by
      intro u hu
      rw [hstep] at hu
      rcases get_set_cases _ _ _ _ _ hu with ⟨_, hu'⟩ | ⟨hne, _⟩
      · exact hu'
      · exact absurd rfl hne
    cases e with
    | read =>
      have hsec := modeOf_section_of_access .idle .read r (Or.inl rfl) hflat
      simp only [gstep, hf]
      refine ⟨hinv', ?_, ?_, h.val⟩
      · intro j u hu
        by_cases hji : j = i
        · subst hji
          rw [self u hu, hp']
          simpa [RBWFrom] using hrbw
        · simp only [hji, if_false]
          exact h.rbw j u (other j u hu hji)
      · intro j u hu hfr
        by_cases hji : j = i
        · subst hji
          rw [self u hu]
          simp only [Thread.inRd, Thread.inWr, hp', if_true]
          rcases hsec with hs | hs <;> simp [hs]
        · simp only [hji, if_false] at hfr ⊢
          exact h.cur j u (other j u hu hji) hfr
    | write =>
      have hsec := modeOf_section_of_access .idle .write r (Or.inr rfl) hflat
      have htw : t.inWr = true := by
        simp only [Thread.inWr, hp, modeOf]
        simp only [modeOf] at hflat
        generalize modeOf r = m at hflat ⊢
        cases m <;> simp [FlatFrom] at hflat ⊢
      simp only [RBWFrom, Bool.and_eq_true] at hrbw
      have hcur := (h.cur i t hi hrbw.1).2
      simp only [gstep, hf]
      refine ⟨hinv', ?_, ?_, ?_⟩
      · intro j u hu
        by_cases hji : j = i
        · subst hji
          rw [self u hu, hp']
          simpa using hrbw.2
        · simp only [hji, if_false]
          exact h.rbw j u (other j u hu hji)
      · intro j u hu hfr
        by_cases hji : j = i
        · subst hji
          rw [self u hu]
          simp only [Thread.inRd, Thread.inWr, hp', if_true]
          rcases hsec with hs | hs <;> simp [hs]
        · simp only [hji, if_false] at hfr
          have hj := other j u hu hji
          have hsecj := (h.cur j u hj hfr).1
          have hex := h.inv.exclusive hi hj (Ne.symm hji) htw
          rcases hsecj with hs | hs
          · rw [hex.1] at hs; cases hs
          · rw [hex.2] at hs; cases hs
      · simp only [List.foldl_append, List.foldl_cons, List.foldl_nil]
        rw [hcur, h.val]
    | callout =>
      have hg : gstep upd g c i = g := by simp [gstep, hf]
      rw [hg]
      refine ⟨hinv', ?_, ?_, h.val⟩
      · intro j u hu
        by_cases hji : j = i
        · subst hji
          rw [self u hu, hp']
          simpa [RBWFrom] using hrbw
        · exact h.rbw j u (other j u hu hji)
      · intro j u hu hfr
        by_cases hji : j = i
        · subst hji
          rw [self u hu]
          have := h.cur j t hi hfr
          simpa [Thread.inRd, Thread.inWr, hp, hp', modeOf] using this
        · exact h.cur j u (other j u hu hji) hfr
    | rlock | runlock | lock | unlock =>
      simp only [gstep, hf]
      refine ⟨hinv', ?_, ?_, h.val⟩
      · intro j u hu
        by_cases hji : j = i
        · subst hji
          rw [self u hu, hp']
          simpa [RBWFrom] using hrbw
        · simp only [hji, if_false]
          exact h.rbw j u (other j u hu hji)
      · intro j u hu hfr
        by_cases hji : j = i
        · subst hji; simp at hfr
        · simp only [hji, if_false] at hfr ⊢
          exact h.cur j u (other j u hu hji) hfr


def ginit {σ} (s0 : σ) : Ghost σ := { shared := s0, snap := fun _ => s0, fresh := fun _ => false, log := [] }

theorem ginv_init {σ} (upd : Nat → σ → σ) (s0 : σ) (progs : List (List Ev))
    (hflat : ∀ p ∈ progs, Flat p = true) (hrbw : ∀ p ∈ progs, RBW p = true) :
    GInv upd s0 (init progs) (ginit s0) := by
  refine ⟨inv_init progs hflat, ?_, ?_, rfl⟩
  · intro i t ht
    have hm := List.mem_of_getElem? ht
    simp only [init, List.mem_map] at hm
    obtain ⟨p, hp, rfl⟩ := hm
    exact hrbw p hp
  · intro i t _ hfr
    simp [ginit] at hfr

theorem ginv_run {σ} (upd : Nat → σ → σ) (s0 : σ) (c : Config) (g : Ghost σ) (h : GInv upd s0 c g)
    (sched : List Nat) : GInv upd s0 (drun upd (c, g) sched).1 (drun upd (c, g) sched).2 := by
  induction sched generalizing c g with
  | nil => exact h
  | cons i is ih => exact ih _ _ (ginv_step upd s0 c g i h)

/-- **No lost update**: for flat programs whose writes come after a read in the same section, under
every schedule the token list is the updates applied one after the other, in the order in which
the writes happened - each computed from the list the previous one left. -/
theorem flat_no_lost_update {σ} (upd : Nat → σ → σ) (s0 : σ) (progs : List (List Ev))
    (hflat : ∀ p ∈ progs, Flat p = true) (hrbw : ∀ p ∈ progs, RBW p = true) (sched : List Nat) :
    (drun upd (init progs, ginit s0) sched).2.shared
      = (drun upd (init progs, ginit s0) sched).2.log.foldl (fun s i => upd i s) s0 :=
  (ginv_run upd s0 _ _ (ginv_init upd s0 progs hflat hrbw) sched).val

/-- in particular, when every write appends the writer's own tokens, all of them are there -/
theorem flat_appends_all_present {τ} (x : Nat → List τ) (s0 : List τ) (progs : List (List Ev))
    (hflat : ∀ p ∈ progs, Flat p = true) (hrbw : ∀ p ∈ progs, RBW p = true) (sched : List Nat) :
    (drun (fun i s => s ++ x i) (init progs, ginit s0) sched).2.shared
      = s0 ++ ((drun (fun i s => s ++ x i) (init progs, ginit s0) sched).2.log.map x).flatten := by
  rw [flat_no_lost_update (fun i s => s ++ x i) s0 progs hflat hrbw sched]
  generalize (drun (fun i s => s ++ x i) (init progs, ginit s0) sched).2.log = l
  induction l generalizing s0 with
  | nil => simp
  | cons a l ih => simp [List.foldl_cons, ih, List.append_assoc]

/-- **Mutual exclusion**, for every reachable configuration of flat programs -/
theorem flat_sections_exclusive (progs : List (List Ev)) (hflat : ∀ p ∈ progs, Flat p = true)
    (sched : List Nat) (i j : Nat) (t u : Thread)
    (hi : (run (init progs) sched).threads[i]? = some t)
    (hj : (run (init progs) sched).threads[j]? = some u) (hij : i ≠ j) (ht : t.inWr = true) :
    u.inRd = false ∧ u.inWr = false :=
  (inv_run _ (inv_init progs hflat) sched).exclusive hi hj hij ht

end Macaroon.Conc
