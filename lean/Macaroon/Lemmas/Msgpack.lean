/-
Round-trip theorems for the MessagePack byte-level model (`Wire/Msgpack.lean`):

* `dec_enc`   : decoding the encoding of a well-formed tree (with enough nesting budget) returns
                the tree and the untouched remainder;
* `enc_dec`   : whatever the decoder returns is well formed, within the budget, and re-encodes to
                exactly the consumed bytes;
* `enc_injective`, `enc_prefix_free`, `dec_fuel_mono` as corollaries;
* the canonical constructors `V.ofUint`, `V.ofInt`, `V.ofStr`, `V.ofBin`, `V.ofArr`, `V.ofMap`
  produce well-formed trees.

Core Lean only.
-/
import Macaroon.Lemmas.MsgpackBE

namespace Macaroon.Msgpack

/-! ### well-formedness and depth -/

/-- the integer fits the range of its wire format -/
def intFits : IntFmt → Int → Bool
  | .posFix, v => decide (0 ≤ v ∧ v ≤ 127)
  | .negFix, v => decide (-32 ≤ v ∧ v ≤ -1)
  | .u8, v => decide (0 ≤ v ∧ v < 256)
  | .u16, v => decide (0 ≤ v ∧ v < 65536)
  | .u32, v => decide (0 ≤ v ∧ v < 4294967296)
  | .u64, v => decide (0 ≤ v ∧ v < 18446744073709551616)
  | .i8, v => decide (-128 ≤ v ∧ v < 128)
  | .i16, v => decide (-32768 ≤ v ∧ v < 32768)
  | .i32, v => decide (-2147483648 ≤ v ∧ v < 2147483648)
  | .i64, v => decide (-9223372036854775808 ≤ v ∧ v < 9223372036854775808)

/-- byte length of a str (or bin) fits its length header -/
def lenFits : LenFmt → Nat → Bool
  | .fix, n => decide (n < 32)
  | .l8, n => decide (n < 256)
  | .l16, n => decide (n < 65536)
  | .l32, n => decide (n < 4294967296)

/-- element (pair) count of an array (map) fits its header; there is no 8-bit header -/
def cntFits : LenFmt → Nat → Bool
  | .fix, n => decide (n < 16)
  | .l8, _ => false
  | .l16, n => decide (n < 65536)
  | .l32, n => decide (n < 4294967296)

/-- ext: code byte and payload length agree -/
def extFits (code : UInt8) (n : Nat) : Bool :=
  (code == 0xd4 && n == 1) || (code == 0xd5 && n == 2) || (code == 0xd6 && n == 4)
  || (code == 0xd7 && n == 8) || (code == 0xd8 && n == 16)
  || (code == 0xc7 && decide (n < 256)) || (code == 0xc8 && decide (n < 65536))
  || (code == 0xc9 && decide (n < 4294967296))

mutual
/-- every node fits its wire format -/
def WF : V → Bool
  | .nil => true
  | .bool _ => true
  | .int f v => intFits f v
  | .f32 b => b.length == 4
  | .f64 b => b.length == 8
  | .str f s => lenFits f s.length
  | .bin f b => f != .fix && lenFits f b.length
  | .arr f xs => cntFits f xs.length && WFL xs
  | .map f kvs => kvs.length % 2 == 0 && cntFits f (kvs.length / 2) && WFL kvs
  | .ext code _ data => extFits code data.length
def WFL : VL → Bool
  | .nil => true
  | .cons v vs => WF v && WFL vs
end

mutual
/-- nesting depth of arrays and maps -/
def depth : V → Nat
  | .nil => 0
  | .bool _ => 0
  | .int _ _ => 0
  | .f32 _ => 0
  | .f64 _ => 0
  | .str _ _ => 0
  | .bin _ _ => 0
  | .arr _ xs => 1 + depthL xs
  | .map _ kvs => 1 + depthL kvs
  | .ext _ _ _ => 0
def depthL : VL → Nat
  | .nil => 0
  | .cons v vs => max (depth v) (depthL vs)
end

/-! ### the decoder, one head byte at a time -/

theorem dec_posFix (fuel : Nat) (c : UInt8) (r : Bytes) (h : c.toNat ≤ 0x7f) :
    dec fuel (c :: r) = some (.int .posFix c.toNat, r) := by
  cases fuel <;> simp [dec, h]

theorem dec_negFix (fuel : Nat) (c : UInt8) (r : Bytes) (h : 0xe0 ≤ c.toNat) :
    dec fuel (c :: r) = some (.int .negFix ((c.toNat : Int) - 256), r) := by
  have h' : ¬ c.toNat ≤ 127 := by omega
  cases fuel <;> simp [dec, h, h']

theorem dec_fixstr (fuel : Nat) (c : UInt8) (r : Bytes) (h1 : 0xa0 ≤ c.toNat) (h2 : c.toNat ≤ 0xbf) :
    dec fuel (c :: r) = readStr .fix (c.toNat - 0xa0) r := by
  have h' : ¬ c.toNat ≤ 127 := by omega
  have h'' : ¬ 224 ≤ c.toNat := by omega
  cases fuel <;> simp [dec, h1, h2, h', h'']

theorem dec_fixarr (fuel : Nat) (c : UInt8) (r : Bytes) (h1 : 0x90 ≤ c.toNat) (h2 : c.toNat ≤ 0x9f) :
    dec (fuel + 1) (c :: r)
      = (decMany (dec fuel) (c.toNat - 0x90) r).map fun (xs, t) => (V.arr .fix xs, t) := by
  have h' : ¬ c.toNat ≤ 127 := by omega
  have h'' : ¬ 224 ≤ c.toNat := by omega
  have h3 : ¬ (160 ≤ c.toNat ∧ c.toNat ≤ 191) := by omega
  simp [dec, h1, h2, h', h'', h3]

theorem dec_fixmap (fuel : Nat) (c : UInt8) (r : Bytes) (h1 : 0x80 ≤ c.toNat) (h2 : c.toNat ≤ 0x8f) :
    dec (fuel + 1) (c :: r)
      = (decMany (dec fuel) (2 * (c.toNat - 0x80)) r).map fun (xs, t) => (V.map .fix xs, t) := by
  have h' : ¬ c.toNat ≤ 127 := by omega
  have h'' : ¬ 224 ≤ c.toNat := by omega
  have h3 : ¬ (160 ≤ c.toNat ∧ c.toNat ≤ 191) := by omega
  have h4 : ¬ (144 ≤ c.toNat ∧ c.toNat ≤ 159) := by omega
  simp [dec, h1, h2, h', h'', h3, h4]

theorem dec_c0 (fuel : Nat) (r : Bytes) : dec fuel (0xc0 :: r) = some (.nil, r) := by
  cases fuel <;> rfl
theorem dec_c2 (fuel : Nat) (r : Bytes) : dec fuel (0xc2 :: r) = some (.bool false, r) := by
  cases fuel <;> rfl
theorem dec_c3 (fuel : Nat) (r : Bytes) : dec fuel (0xc3 :: r) = some (.bool true, r) := by
  cases fuel <;> rfl
theorem dec_c4 (fuel : Nat) (r : Bytes) :
    dec fuel (0xc4 :: r) = (readBE 1 r).bind fun (n, t) => readBin .l8 n t := by
  cases fuel <;> rfl
theorem dec_c5 (fuel : Nat) (r : Bytes) :
    dec fuel (0xc5 :: r) = (readBE 2 r).bind fun (n, t) => readBin .l16 n t := by
  cases fuel <;> rfl
theorem dec_c6 (fuel : Nat) (r : Bytes) :
    dec fuel (0xc6 :: r) = (readBE 4 r).bind fun (n, t) => readBin .l32 n t := by
  cases fuel <;> rfl
theorem dec_c7 (fuel : Nat) (r : Bytes) :
    dec fuel (0xc7 :: r) = (readBE 1 r).bind fun (n, t) => readExt 0xc7 n t := by
  cases fuel <;> rfl
theorem dec_c8 (fuel : Nat) (r : Bytes) :
    dec fuel (0xc8 :: r) = (readBE 2 r).bind fun (n, t) => readExt 0xc8 n t := by
  cases fuel <;> rfl
theorem dec_c9 (fuel : Nat) (r : Bytes) :
    dec fuel (0xc9 :: r) = (readBE 4 r).bind fun (n, t) => readExt 0xc9 n t := by
  cases fuel <;> rfl
theorem dec_ca (fuel : Nat) (r : Bytes) :
    dec fuel (0xca :: r) = (readN 4 r).map fun (h, t) => (V.f32 h, t) := by
  cases fuel <;> rfl
theorem dec_cb (fuel : Nat) (r : Bytes) :
    dec fuel (0xcb :: r) = (readN 8 r).map fun (h, t) => (V.f64 h, t) := by
  cases fuel <;> rfl
theorem dec_cc (fuel : Nat) (r : Bytes) :
    dec fuel (0xcc :: r) = (readBE 1 r).map fun (n, t) => (V.int .u8 n, t) := by
  cases fuel <;> rfl
theorem dec_cd (fuel : Nat) (r : Bytes) :
    dec fuel (0xcd :: r) = (readBE 2 r).map fun (n, t) => (V.int .u16 n, t) := by
  cases fuel <;> rfl
theorem dec_ce (fuel : Nat) (r : Bytes) :
    dec fuel (0xce :: r) = (readBE 4 r).map fun (n, t) => (V.int .u32 n, t) := by
  cases fuel <;> rfl
theorem dec_cf (fuel : Nat) (r : Bytes) :
    dec fuel (0xcf :: r) = (readBE 8 r).map fun (n, t) => (V.int .u64 n, t) := by
  cases fuel <;> rfl
theorem dec_d0 (fuel : Nat) (r : Bytes) :
    dec fuel (0xd0 :: r) = (readBE 1 r).map fun (n, t) => (V.int .i8 (untwos 1 n), t) := by
  cases fuel <;> rfl
theorem dec_d1 (fuel : Nat) (r : Bytes) :
    dec fuel (0xd1 :: r) = (readBE 2 r).map fun (n, t) => (V.int .i16 (untwos 2 n), t) := by
  cases fuel <;> rfl
theorem dec_d2 (fuel : Nat) (r : Bytes) :
    dec fuel (0xd2 :: r) = (readBE 4 r).map fun (n, t) => (V.int .i32 (untwos 4 n), t) := by
  cases fuel <;> rfl
theorem dec_d3 (fuel : Nat) (r : Bytes) :
    dec fuel (0xd3 :: r) = (readBE 8 r).map fun (n, t) => (V.int .i64 (untwos 8 n), t) := by
  cases fuel <;> rfl
theorem dec_d4 (fuel : Nat) (r : Bytes) : dec fuel (0xd4 :: r) = readExt 0xd4 1 r := by
  cases fuel <;> rfl
theorem dec_d5 (fuel : Nat) (r : Bytes) : dec fuel (0xd5 :: r) = readExt 0xd5 2 r := by
  cases fuel <;> rfl
theorem dec_d6 (fuel : Nat) (r : Bytes) : dec fuel (0xd6 :: r) = readExt 0xd6 4 r := by
  cases fuel <;> rfl
theorem dec_d7 (fuel : Nat) (r : Bytes) : dec fuel (0xd7 :: r) = readExt 0xd7 8 r := by
  cases fuel <;> rfl
theorem dec_d8 (fuel : Nat) (r : Bytes) : dec fuel (0xd8 :: r) = readExt 0xd8 16 r := by
  cases fuel <;> rfl
theorem dec_d9 (fuel : Nat) (r : Bytes) :
    dec fuel (0xd9 :: r) = (readBE 1 r).bind fun (n, t) => readStr .l8 n t := by
  cases fuel <;> rfl
theorem dec_da (fuel : Nat) (r : Bytes) :
    dec fuel (0xda :: r) = (readBE 2 r).bind fun (n, t) => readStr .l16 n t := by
  cases fuel <;> rfl
theorem dec_db (fuel : Nat) (r : Bytes) :
    dec fuel (0xdb :: r) = (readBE 4 r).bind fun (n, t) => readStr .l32 n t := by
  cases fuel <;> rfl
theorem dec_dc (fuel : Nat) (r : Bytes) :
    dec (fuel + 1) (0xdc :: r) = (readBE 2 r).bind fun (n, t) =>
      (decMany (dec fuel) n t).map fun (xs, t') => (V.arr .l16 xs, t') := rfl
theorem dec_dd (fuel : Nat) (r : Bytes) :
    dec (fuel + 1) (0xdd :: r) = (readBE 4 r).bind fun (n, t) =>
      (decMany (dec fuel) n t).map fun (xs, t') => (V.arr .l32 xs, t') := rfl
theorem dec_de (fuel : Nat) (r : Bytes) :
    dec (fuel + 1) (0xde :: r) = (readBE 2 r).bind fun (n, t) =>
      (decMany (dec fuel) (2 * n) t).map fun (xs, t') => (V.map .l16 xs, t') := rfl
theorem dec_df (fuel : Nat) (r : Bytes) :
    dec (fuel + 1) (0xdf :: r) = (readBE 4 r).bind fun (n, t) =>
      (decMany (dec fuel) (2 * n) t).map fun (xs, t') => (V.map .l32 xs, t') := rfl

/-! ### readers on `payload ++ rest` -/

theorem readStr_append (f : LenFmt) (s rest : Bytes) :
    readStr f s.length (s ++ rest) = some (.str f s, rest) := by
  simp [readStr, readN_append]

theorem readBin_append (f : LenFmt) (s rest : Bytes) :
    readBin f s.length (s ++ rest) = some (.bin f s, rest) := by
  simp [readBin, readN_append]

theorem readExt_append (c typ : UInt8) (d rest : Bytes) :
    readExt c d.length (typ :: (d ++ rest)) = some (.ext c typ d, rest) := by
  simp [readExt, readN_append]

/-! ### `dec (enc v ++ rest)`, leaf formats -/

theorem dec_enc_int (f : IntFmt) (v : Int) (fuel : Nat) (rest : Bytes) (h : intFits f v = true) :
    dec fuel (enc (.int f v) ++ rest) = some (.int f v, rest) := by
  cases f <;> simp only [intFits, decide_eq_true_eq] at h <;>
    simp only [enc, encInt, List.cons_append, List.nil_append]
  · -- posFix
    have hb : (UInt8.ofNat v.toNat).toNat = v.toNat := u8_toNat_ofNat_lt _ (by omega)
    rw [dec_posFix _ _ _ (by omega), hb]
    have : ((v.toNat : Nat) : Int) = v := by omega
    rw [this]
  · -- negFix
    have ht : twos 1 v = (v + 256).toNat := by simp [twos]; omega
    have hb : (UInt8.ofNat (twos 1 v)).toNat = (v + 256).toNat := by
      rw [ht]; exact u8_toNat_ofNat_lt _ (by omega)
    rw [dec_negFix _ _ _ (by omega), hb]
    have : (((v + 256).toNat : Nat) : Int) - 256 = v := by omega
    rw [this]
  · rw [dec_cc, readBE_beBytes 1 _ _ (by omega)]
    have : ((v.toNat : Nat) : Int) = v := by omega
    simp [this]
  · rw [dec_cd, readBE_beBytes 2 _ _ (by omega)]
    have : ((v.toNat : Nat) : Int) = v := by omega
    simp [this]
  · rw [dec_ce, readBE_beBytes 4 _ _ (by omega)]
    have : ((v.toNat : Nat) : Int) = v := by omega
    simp [this]
  · rw [dec_cf, readBE_beBytes 8 _ _ (by omega)]
    have : ((v.toNat : Nat) : Int) = v := by omega
    simp [this]
  · rw [dec_d0, readBE_beBytes 1 _ _ (twos_lt 1 v)]
    simp [untwos_twos 1 v (by omega) (by omega)]
  · rw [dec_d1, readBE_beBytes 2 _ _ (twos_lt 2 v)]
    simp [untwos_twos 2 v (by omega) (by omega)]
  · rw [dec_d2, readBE_beBytes 4 _ _ (twos_lt 4 v)]
    simp [untwos_twos 4 v (by omega) (by omega)]
  · rw [dec_d3, readBE_beBytes 8 _ _ (twos_lt 8 v)]
    simp [untwos_twos 8 v (by omega) (by omega)]

theorem fix_toNat (base : UInt8) (n : Nat) (h : base.toNat + n < 256) :
    (base + UInt8.ofNat n).toNat = base.toNat + n := by
  rw [UInt8.toNat_add, u8_toNat_ofNat_lt n (by omega)]
  exact Nat.mod_eq_of_lt h

theorem dec_enc_str (f : LenFmt) (s : Bytes) (fuel : Nat) (rest : Bytes)
    (h : lenFits f s.length = true) :
    dec fuel (enc (.str f s) ++ rest) = some (.str f s, rest) := by
  cases f <;> simp only [lenFits, decide_eq_true_eq] at h <;>
    simp only [enc, encLen, List.cons_append, List.nil_append, List.append_assoc]
  · have hb := fix_toNat 0xa0 s.length (by simp; omega)
    have h0 : (0xa0 : UInt8).toNat = 160 := rfl
    rw [dec_fixstr _ _ _ (by omega) (by omega), hb, h0]
    simp [readStr_append]
  · rw [dec_d9, readBE_beBytes 1 _ _ (by omega)]; simp [readStr_append]
  · rw [dec_da, readBE_beBytes 2 _ _ (by omega)]; simp [readStr_append]
  · rw [dec_db, readBE_beBytes 4 _ _ (by omega)]; simp [readStr_append]

theorem dec_enc_bin (f : LenFmt) (s : Bytes) (fuel : Nat) (rest : Bytes)
    (hf : f ≠ .fix) (h : lenFits f s.length = true) :
    dec fuel (enc (.bin f s) ++ rest) = some (.bin f s, rest) := by
  cases f <;> simp only [lenFits, decide_eq_true_eq] at h <;>
    simp only [enc, encLen, List.cons_append, List.nil_append, List.append_assoc]
  · exact absurd rfl hf
  · rw [dec_c4, readBE_beBytes 1 _ _ (by omega)]; simp [readBin_append]
  · rw [dec_c5, readBE_beBytes 2 _ _ (by omega)]; simp [readBin_append]
  · rw [dec_c6, readBE_beBytes 4 _ _ (by omega)]; simp [readBin_append]

theorem dec_enc_f32 (b : Bytes) (fuel : Nat) (rest : Bytes) (h : b.length = 4) :
    dec fuel (enc (.f32 b) ++ rest) = some (.f32 b, rest) := by
  simp only [enc, List.cons_append]
  rw [dec_ca, readN_append' 4 b rest h]; rfl

theorem dec_enc_f64 (b : Bytes) (fuel : Nat) (rest : Bytes) (h : b.length = 8) :
    dec fuel (enc (.f64 b) ++ rest) = some (.f64 b, rest) := by
  simp only [enc, List.cons_append]
  rw [dec_cb, readN_append' 8 b rest h]; rfl

theorem extFits_cases (c : UInt8) (n : Nat) (h : extFits c n = true) :
    (c = 0xd4 ∧ n = 1) ∨ (c = 0xd5 ∧ n = 2) ∨ (c = 0xd6 ∧ n = 4) ∨ (c = 0xd7 ∧ n = 8)
    ∨ (c = 0xd8 ∧ n = 16) ∨ (c = 0xc7 ∧ n < 256) ∨ (c = 0xc8 ∧ n < 65536)
    ∨ (c = 0xc9 ∧ n < 4294967296) := by
  simpa [extFits, or_assoc] using h

theorem dec_enc_ext (c typ : UInt8) (d : Bytes) (fuel : Nat) (rest : Bytes)
    (h : extFits c d.length = true) :
    dec fuel (enc (.ext c typ d) ++ rest) = some (.ext c typ d, rest) := by
  rcases extFits_cases c d.length h with ⟨rfl, hn⟩ | ⟨rfl, hn⟩ | ⟨rfl, hn⟩ | ⟨rfl, hn⟩ | ⟨rfl, hn⟩
    | ⟨rfl, hn⟩ | ⟨rfl, hn⟩ | ⟨rfl, hn⟩
  · have : enc (.ext 0xd4 typ d) = 0xd4 :: typ :: d := by simp [enc]
    rw [this, List.cons_append, List.cons_append, dec_d4, ← hn, readExt_append]
  · have : enc (.ext 0xd5 typ d) = 0xd5 :: typ :: d := by simp [enc]
    rw [this, List.cons_append, List.cons_append, dec_d5, ← hn, readExt_append]
  · have : enc (.ext 0xd6 typ d) = 0xd6 :: typ :: d := by simp [enc]
    rw [this, List.cons_append, List.cons_append, dec_d6, ← hn, readExt_append]
  · have : enc (.ext 0xd7 typ d) = 0xd7 :: typ :: d := by simp [enc]
    rw [this, List.cons_append, List.cons_append, dec_d7, ← hn, readExt_append]
  · have : enc (.ext 0xd8 typ d) = 0xd8 :: typ :: d := by simp [enc]
    rw [this, List.cons_append, List.cons_append, dec_d8, ← hn, readExt_append]
  · have : enc (.ext 0xc7 typ d) = 0xc7 :: (beBytes 1 d.length ++ typ :: d) := by simp [enc]
    rw [this, List.cons_append, List.append_assoc, List.cons_append, dec_c7,
      readBE_beBytes 1 _ _ (by omega)]
    simp [readExt_append]
  · have : enc (.ext 0xc8 typ d) = 0xc8 :: (beBytes 2 d.length ++ typ :: d) := by simp [enc]
    rw [this, List.cons_append, List.append_assoc, List.cons_append, dec_c8,
      readBE_beBytes 2 _ _ (by omega)]
    simp [readExt_append]
  · have : enc (.ext 0xc9 typ d) = 0xc9 :: (beBytes 4 d.length ++ typ :: d) := by simp [enc]
    rw [this, List.cons_append, List.append_assoc, List.cons_append, dec_c9,
      readBE_beBytes 4 _ _ (by omega)]
    simp [readExt_append]

/-! ### `dec (enc v ++ rest)`, containers, given the result for the children -/

theorem dec_enc_arr (f : LenFmt) (xs : VL) (fuel : Nat) (rest : Bytes)
    (h : cntFits f xs.length = true)
    (ih : decMany (dec fuel) xs.length (encL xs ++ rest) = some (xs, rest)) :
    dec (fuel + 1) (enc (.arr f xs) ++ rest) = some (.arr f xs, rest) := by
  cases f <;> simp only [cntFits, decide_eq_true_eq] at h <;>
    simp only [enc, encLen, List.cons_append, List.nil_append, List.append_assoc]
  · have hb := fix_toNat 0x90 xs.length (by simp; omega)
    have h0 : (0x90 : UInt8).toNat = 144 := rfl
    rw [dec_fixarr _ _ _ (by omega) (by omega), hb, h0]
    simp [ih]
  · cases h
  · rw [dec_dc, readBE_beBytes 2 _ _ (by omega)]; simp [ih]
  · rw [dec_dd, readBE_beBytes 4 _ _ (by omega)]; simp [ih]

theorem dec_enc_map (f : LenFmt) (xs : VL) (fuel : Nat) (rest : Bytes)
    (he : xs.length % 2 = 0) (h : cntFits f (xs.length / 2) = true)
    (ih : decMany (dec fuel) xs.length (encL xs ++ rest) = some (xs, rest)) :
    dec (fuel + 1) (enc (.map f xs) ++ rest) = some (.map f xs, rest) := by
  have h2 : 2 * (xs.length / 2) = xs.length := by omega
  cases f <;> simp only [cntFits, decide_eq_true_eq] at h <;>
    simp only [enc, encLen, List.cons_append, List.nil_append, List.append_assoc]
  · have hb := fix_toNat 0x80 (xs.length / 2) (by simp; omega)
    have h0 : (0x80 : UInt8).toNat = 128 := rfl
    rw [dec_fixmap _ _ _ (by omega) (by omega), hb, h0]
    simp [h2, ih]
  · cases h
  · rw [dec_de, readBE_beBytes 2 _ _ (by omega)]; simp [h2, ih]
  · rw [dec_df, readBE_beBytes 4 _ _ (by omega)]; simp [h2, ih]

/-! ### decode after encode -/

mutual
theorem dec_enc' : (v : V) → (fuel : Nat) → (rest : Bytes) → WF v = true → depth v ≤ fuel →
    dec fuel (enc v ++ rest) = some (v, rest)
  | .nil, fuel, rest, _, _ => by simp only [enc, List.cons_append, List.nil_append, dec_c0]
  | .bool false, fuel, rest, _, _ => by simp only [enc, List.cons_append, List.nil_append, dec_c2]
  | .bool true, fuel, rest, _, _ => by simp only [enc, List.cons_append, List.nil_append, dec_c3]
  | .int f v, fuel, rest, hwf, _ => dec_enc_int f v fuel rest (by simpa [WF] using hwf)
  | .f32 b, fuel, rest, hwf, _ => dec_enc_f32 b fuel rest (by simpa [WF] using hwf)
  | .f64 b, fuel, rest, hwf, _ => dec_enc_f64 b fuel rest (by simpa [WF] using hwf)
  | .str f s, fuel, rest, hwf, _ => dec_enc_str f s fuel rest (by simpa [WF] using hwf)
  | .bin f b, fuel, rest, hwf, _ => by
    simp only [WF, Bool.and_eq_true, bne_iff_ne, ne_eq] at hwf
    exact dec_enc_bin f b fuel rest hwf.1 hwf.2
  | .ext c typ d, fuel, rest, hwf, _ => dec_enc_ext c typ d fuel rest (by simpa [WF] using hwf)
  | .arr f xs, fuel, rest, hwf, hd => by
    simp only [WF, Bool.and_eq_true] at hwf
    simp only [depth] at hd
    obtain ⟨fuel, rfl⟩ : ∃ k, fuel = k + 1 := ⟨fuel - 1, by omega⟩
    exact dec_enc_arr f xs fuel rest hwf.1 (decMany_encL xs fuel rest hwf.2 (by omega))
  | .map f xs, fuel, rest, hwf, hd => by
    simp only [WF, Bool.and_eq_true, beq_iff_eq] at hwf
    simp only [depth] at hd
    obtain ⟨fuel, rfl⟩ : ∃ k, fuel = k + 1 := ⟨fuel - 1, by omega⟩
    exact dec_enc_map f xs fuel rest hwf.1.1 hwf.1.2 (decMany_encL xs fuel rest hwf.2 (by omega))
theorem decMany_encL : (vs : VL) → (fuel : Nat) → (rest : Bytes) → WFL vs = true →
    depthL vs ≤ fuel → decMany (dec fuel) vs.length (encL vs ++ rest) = some (vs, rest)
  | .nil, _, _, _, _ => rfl
  | .cons v vs, fuel, rest, hwf, hd => by
    simp only [WFL, Bool.and_eq_true] at hwf
    simp only [depthL] at hd
    have h1 := dec_enc' v fuel (encL vs ++ rest) hwf.1 (by omega)
    have h2 := decMany_encL vs fuel rest hwf.2 (by omega)
    simp only [encL, VL.length, decMany, List.append_assoc, h1, h2]
end

/-- decoding an encoding (followed by anything) returns the tree and leaves the remainder -/
theorem dec_enc (v : V) (fuel : Nat) (rest : Bytes) (hwf : WF v = true) (hd : depth v ≤ fuel) :
    dec fuel (enc v ++ rest) = some (v, rest) := dec_enc' v fuel rest hwf hd

/-! ### encode after decode -/

/-- what `enc_dec` claims of one decoder result -/
def Good (fuel : Nat) (bs : Bytes) (v : V) (rest : Bytes) : Prop :=
  bs = enc v ++ rest ∧ WF v = true ∧ depth v ≤ fuel

def GoodL (fuel n : Nat) (bs : Bytes) (vs : VL) (rest : Bytes) : Prop :=
  bs = encL vs ++ rest ∧ WFL vs = true ∧ depthL vs ≤ fuel ∧ vs.length = n

theorem readStr_some {f : LenFmt} {n : Nat} {r : Bytes} {v : V} {rest : Bytes}
    (h : readStr f n r = some (v, rest)) : ∃ s, r = s ++ rest ∧ s.length = n ∧ v = .str f s := by
  unfold readStr at h
  obtain ⟨⟨s, t⟩, hr, he⟩ := Option.map_eq_some_iff.mp h
  simp only [Prod.mk.injEq] at he
  obtain ⟨rfl, rfl⟩ := he
  obtain ⟨h1, h2⟩ := readN_some _ _ _ _ hr
  exact ⟨s, h1, h2, rfl⟩

theorem readBin_some {f : LenFmt} {n : Nat} {r : Bytes} {v : V} {rest : Bytes}
    (h : readBin f n r = some (v, rest)) : ∃ s, r = s ++ rest ∧ s.length = n ∧ v = .bin f s := by
  unfold readBin at h
  obtain ⟨⟨s, t⟩, hr, he⟩ := Option.map_eq_some_iff.mp h
  simp only [Prod.mk.injEq] at he
  obtain ⟨rfl, rfl⟩ := he
  obtain ⟨h1, h2⟩ := readN_some _ _ _ _ hr
  exact ⟨s, h1, h2, rfl⟩

theorem readExt_some {c : UInt8} {n : Nat} {r : Bytes} {v : V} {rest : Bytes}
    (h : readExt c n r = some (v, rest)) :
    ∃ typ d, r = typ :: (d ++ rest) ∧ d.length = n ∧ v = .ext c typ d := by
  unfold readExt at h
  cases r with
  | nil => cases h
  | cons typ r =>
    obtain ⟨⟨s, t⟩, hr, he⟩ := Option.map_eq_some_iff.mp h
    simp only [Prod.mk.injEq] at he
    obtain ⟨rfl, rfl⟩ := he
    obtain ⟨h1, h2⟩ := readN_some _ _ _ _ hr
    exact ⟨typ, s, by rw [h1], h2, rfl⟩

theorem bind_readBE_some {k : Nat} {r : Bytes} {g : Nat × Bytes → Option (V × Bytes)}
    {v : V} {rest : Bytes} (h : (readBE k r).bind g = some (v, rest)) :
    ∃ n t, r = beBytes k n ++ t ∧ n < 256 ^ k ∧ g (n, t) = some (v, rest) := by
  obtain ⟨⟨n, t⟩, hr, hg⟩ := Option.bind_eq_some_iff.mp h
  obtain ⟨h1, h2⟩ := readBE_some _ _ _ _ hr
  exact ⟨n, t, h1, h2, hg⟩

theorem map_readBE_some {k : Nat} {r : Bytes} {g : Nat × Bytes → V × Bytes}
    {v : V} {rest : Bytes} (h : (readBE k r).map g = some (v, rest)) :
    ∃ n t, r = beBytes k n ++ t ∧ n < 256 ^ k ∧ g (n, t) = (v, rest) := by
  obtain ⟨⟨n, t⟩, hr, hg⟩ := Option.map_eq_some_iff.mp h
  obtain ⟨h1, h2⟩ := readBE_some _ _ _ _ hr
  exact ⟨n, t, h1, h2, hg⟩

theorem map_readN_some {k : Nat} {r : Bytes} {g : Bytes × Bytes → V × Bytes}
    {v : V} {rest : Bytes} (h : (readN k r).map g = some (v, rest)) :
    ∃ b t, r = b ++ t ∧ b.length = k ∧ g (b, t) = (v, rest) := by
  obtain ⟨⟨b, t⟩, hr, hg⟩ := Option.map_eq_some_iff.mp h
  obtain ⟨h1, h2⟩ := readN_some _ _ _ _ hr
  exact ⟨b, t, h1, h2, hg⟩

theorem map_decMany_some {d : Bytes → Option (V × Bytes)} {n : Nat} {r : Bytes}
    {g : VL × Bytes → V × Bytes} {v : V} {rest : Bytes}
    (h : (decMany d n r).map g = some (v, rest)) :
    ∃ xs t, decMany d n r = some (xs, t) ∧ g (xs, t) = (v, rest) := by
  obtain ⟨⟨xs, t⟩, hr, hg⟩ := Option.map_eq_some_iff.mp h
  exact ⟨xs, t, hr, hg⟩

/-- the list decoder inherits `Good` from the element decoder -/
theorem decMany_good {d : Bytes → Option (V × Bytes)} {fuel : Nat}
    (hd : ∀ bs v rest, d bs = some (v, rest) → Good fuel bs v rest) :
    ∀ (n : Nat) (bs : Bytes) (vs : VL) (rest : Bytes),
      decMany d n bs = some (vs, rest) → GoodL fuel n bs vs rest := by
  intro n
  induction n with
  | zero =>
    intro bs vs rest h
    simp only [decMany, Option.some.injEq, Prod.mk.injEq] at h
    obtain ⟨rfl, rfl⟩ := h
    exact ⟨rfl, rfl, Nat.zero_le _, rfl⟩
  | succ n ih =>
    intro bs vs rest h
    simp only [decMany] at h
    cases h1 : d bs with
    | none => rw [h1] at h; cases h
    | some p =>
      obtain ⟨v, r1⟩ := p
      rw [h1] at h
      simp only at h
      cases h2 : decMany d n r1 with
      | none => rw [h2] at h; cases h
      | some q =>
        obtain ⟨ws, r2⟩ := q
        rw [h2] at h
        simp only [Option.some.injEq, Prod.mk.injEq] at h
        obtain ⟨rfl, rfl⟩ := h
        obtain ⟨e1, w1, d1⟩ := hd _ _ _ h1
        obtain ⟨e2, w2, d2, l2⟩ := ih _ _ _ h2
        refine ⟨?_, ?_, ?_, ?_⟩
        · rw [e1, e2, encL, List.append_assoc]
        · simp [WFL, w1, w2]
        · simp only [depthL]; omega
        · simp [VL.length, l2]

theorem good_int_posFix (fuel : Nat) (c : UInt8) (r : Bytes) (h : c.toNat ≤ 127) :
    Good fuel (c :: r) (.int .posFix c.toNat) r := by
  refine ⟨?_, ?_, ?_⟩
  · simp [enc, encInt]
  · simp [WF, intFits]; omega
  · simp [depth]

theorem good_int_negFix (fuel : Nat) (c : UInt8) (r : Bytes) (h : 224 ≤ c.toNat) :
    Good fuel (c :: r) (.int .negFix ((c.toNat : Int) - 256)) r := by
  have hlt := c.toNat_lt
  refine ⟨?_, ?_, ?_⟩
  · have : twos 1 ((c.toNat : Int) - 256) = c.toNat := by simp [twos]; omega
    simp [enc, encInt, this]
  · simp [WF, intFits]; omega
  · simp [depth]

theorem good_uint (fuel : Nat) (c : UInt8) (k : Nat) (f : IntFmt) (n : Nat) (t : Bytes)
    (hn : n < 256 ^ k)
    (hf : (c = 0xcc ∧ k = 1 ∧ f = .u8) ∨ (c = 0xcd ∧ k = 2 ∧ f = .u16)
      ∨ (c = 0xce ∧ k = 4 ∧ f = .u32) ∨ (c = 0xcf ∧ k = 8 ∧ f = .u64)) :
    Good fuel (c :: (beBytes k n ++ t)) (.int f n) t := by
  rcases hf with ⟨rfl, rfl, rfl⟩ | ⟨rfl, rfl, rfl⟩ | ⟨rfl, rfl, rfl⟩ | ⟨rfl, rfl, rfl⟩ <;>
  · refine ⟨?_, ?_, ?_⟩
    · simp [enc, encInt]
    · simp [WF, intFits]; omega
    · simp [depth]

theorem good_sint (fuel : Nat) (c : UInt8) (k : Nat) (f : IntFmt) (n : Nat) (t : Bytes)
    (hn : n < 256 ^ k)
    (hf : (c = 0xd0 ∧ k = 1 ∧ f = .i8) ∨ (c = 0xd1 ∧ k = 2 ∧ f = .i16)
      ∨ (c = 0xd2 ∧ k = 4 ∧ f = .i32) ∨ (c = 0xd3 ∧ k = 8 ∧ f = .i64)) :
    Good fuel (c :: (beBytes k n ++ t)) (.int f (untwos k n)) t := by
  have hk : 0 < k := by
    rcases hf with ⟨_, rfl, _⟩ | ⟨_, rfl, _⟩ | ⟨_, rfl, _⟩ | ⟨_, rfl, _⟩ <;> decide
  have hl := untwos_lower k n hk
  have hu := untwos_upper k n hn
  rcases hf with ⟨rfl, rfl, rfl⟩ | ⟨rfl, rfl, rfl⟩ | ⟨rfl, rfl, rfl⟩ | ⟨rfl, rfl, rfl⟩ <;>
  · refine ⟨?_, ?_, ?_⟩
    · simp [enc, encInt, twos_untwos _ n hn]
    · simp [WF, intFits]; omega
    · simp [depth]

theorem good_str (fuel : Nat) (c : UInt8) (k : Nat) (f : LenFmt) (s t : Bytes)
    (hn : s.length < 256 ^ k)
    (hf : (c = 0xd9 ∧ k = 1 ∧ f = .l8) ∨ (c = 0xda ∧ k = 2 ∧ f = .l16)
      ∨ (c = 0xdb ∧ k = 4 ∧ f = .l32)) :
    Good fuel (c :: (beBytes k s.length ++ (s ++ t))) (.str f s) t := by
  rcases hf with ⟨rfl, rfl, rfl⟩ | ⟨rfl, rfl, rfl⟩ | ⟨rfl, rfl, rfl⟩ <;>
  · refine ⟨?_, ?_, ?_⟩
    · simp [enc, encLen]
    · simp [WF, lenFits]; omega
    · simp [depth]

theorem good_fixstr (fuel : Nat) (c : UInt8) (s t : Bytes) (h1 : 160 ≤ c.toNat)
    (h2 : c.toNat ≤ 191) (hl : s.length = c.toNat - 160) :
    Good fuel (c :: (s ++ t)) (.str .fix s) t := by
  refine ⟨?_, ?_, ?_⟩
  · have : (0xa0 : UInt8) + UInt8.ofNat s.length = c := by
      apply UInt8.toNat_inj.mp
      rw [fix_toNat 0xa0 s.length (by simp; omega)]
      have h0 : (0xa0 : UInt8).toNat = 160 := rfl
      omega
    simp [enc, encLen, this]
  · simp [WF, lenFits]; omega
  · simp [depth]

theorem good_bin (fuel : Nat) (c : UInt8) (k : Nat) (f : LenFmt) (s t : Bytes)
    (hn : s.length < 256 ^ k)
    (hf : (c = 0xc4 ∧ k = 1 ∧ f = .l8) ∨ (c = 0xc5 ∧ k = 2 ∧ f = .l16)
      ∨ (c = 0xc6 ∧ k = 4 ∧ f = .l32)) :
    Good fuel (c :: (beBytes k s.length ++ (s ++ t))) (.bin f s) t := by
  rcases hf with ⟨rfl, rfl, rfl⟩ | ⟨rfl, rfl, rfl⟩ | ⟨rfl, rfl, rfl⟩ <;>
  · refine ⟨?_, ?_, ?_⟩
    · simp [enc, encLen]
    · simp [WF, lenFits]; omega
    · simp [depth]

theorem good_ext (fuel : Nat) (c typ : UInt8) (k : Nat) (d t : Bytes)
    (hn : d.length < 256 ^ k)
    (hf : (c = 0xc7 ∧ k = 1) ∨ (c = 0xc8 ∧ k = 2) ∨ (c = 0xc9 ∧ k = 4)) :
    Good fuel (c :: (beBytes k d.length ++ typ :: (d ++ t))) (.ext c typ d) t := by
  rcases hf with ⟨rfl, rfl⟩ | ⟨rfl, rfl⟩ | ⟨rfl, rfl⟩ <;>
  · refine ⟨?_, ?_, ?_⟩
    · simp [enc]
    · simp [WF, extFits]; omega
    · simp [depth]

theorem good_fixext (fuel : Nat) (c typ : UInt8) (d t : Bytes)
    (hf : (c = 0xd4 ∧ d.length = 1) ∨ (c = 0xd5 ∧ d.length = 2) ∨ (c = 0xd6 ∧ d.length = 4)
      ∨ (c = 0xd7 ∧ d.length = 8) ∨ (c = 0xd8 ∧ d.length = 16)) :
    Good fuel (c :: typ :: (d ++ t)) (.ext c typ d) t := by
  rcases hf with ⟨rfl, hl⟩ | ⟨rfl, hl⟩ | ⟨rfl, hl⟩ | ⟨rfl, hl⟩ | ⟨rfl, hl⟩ <;>
  · refine ⟨?_, ?_, ?_⟩
    · simp [enc]
    · simp [WF, extFits, hl]
    · simp [depth]

theorem good_arr (fuel : Nat) (c : UInt8) (k : Nat) (f : LenFmt) (xs : VL) (r t : Bytes)
    (hn : xs.length < 256 ^ k) (hx : GoodL fuel xs.length r xs t)
    (hf : (c = 0xdc ∧ k = 2 ∧ f = .l16) ∨ (c = 0xdd ∧ k = 4 ∧ f = .l32)) :
    Good (fuel + 1) (c :: (beBytes k xs.length ++ r)) (.arr f xs) t := by
  obtain ⟨e, w, d, _⟩ := hx
  rcases hf with ⟨rfl, rfl, rfl⟩ | ⟨rfl, rfl, rfl⟩ <;>
  · refine ⟨?_, ?_, ?_⟩
    · simp [enc, encLen, e]
    · simp [WF, cntFits, w]; omega
    · simp only [depth]; omega

theorem good_fixarr (fuel : Nat) (c : UInt8) (xs : VL) (r t : Bytes) (h1 : 144 ≤ c.toNat)
    (h2 : c.toNat ≤ 159) (hx : GoodL fuel (c.toNat - 144) r xs t) :
    Good (fuel + 1) (c :: r) (.arr .fix xs) t := by
  obtain ⟨e, w, d, hl⟩ := hx
  refine ⟨?_, ?_, ?_⟩
  · have : (0x90 : UInt8) + UInt8.ofNat xs.length = c := by
      apply UInt8.toNat_inj.mp
      rw [fix_toNat 0x90 xs.length (by simp; omega)]
      have h0 : (0x90 : UInt8).toNat = 144 := rfl
      omega
    simp [enc, encLen, this, e]
  · simp [WF, cntFits, w]; omega
  · simp only [depth]; omega

theorem good_map (fuel : Nat) (c : UInt8) (k : Nat) (f : LenFmt) (n : Nat) (xs : VL) (r t : Bytes)
    (hn : n < 256 ^ k) (hx : GoodL fuel (2 * n) r xs t)
    (hf : (c = 0xde ∧ k = 2 ∧ f = .l16) ∨ (c = 0xdf ∧ k = 4 ∧ f = .l32)) :
    Good (fuel + 1) (c :: (beBytes k n ++ r)) (.map f xs) t := by
  obtain ⟨e, w, d, hl⟩ := hx
  have hn2 : xs.length / 2 = n := by omega
  rcases hf with ⟨rfl, rfl, rfl⟩ | ⟨rfl, rfl, rfl⟩ <;>
  · refine ⟨?_, ?_, ?_⟩
    · simp [enc, encLen, e, hn2]
    · simp [WF, cntFits, w, hn2]; omega
    · simp only [depth]; omega

theorem good_fixmap (fuel : Nat) (c : UInt8) (xs : VL) (r t : Bytes) (h1 : 128 ≤ c.toNat)
    (h2 : c.toNat ≤ 143) (hx : GoodL fuel (2 * (c.toNat - 128)) r xs t) :
    Good (fuel + 1) (c :: r) (.map .fix xs) t := by
  obtain ⟨e, w, d, hl⟩ := hx
  have hn2 : xs.length / 2 = c.toNat - 128 := by omega
  refine ⟨?_, ?_, ?_⟩
  · have : (0x80 : UInt8) + UInt8.ofNat (xs.length / 2) = c := by
      apply UInt8.toNat_inj.mp
      rw [fix_toNat 0x80 _ (by simp; omega)]
      have h0 : (0x80 : UInt8).toNat = 128 := rfl
      omega
    simp [enc, encLen, this, e]
  · simp [WF, cntFits, w]; omega
  · simp only [depth]; omega

theorem good_leaf (fuel : Nat) (v : V) (bs rest : Bytes) (he : bs = enc v ++ rest)
    (hw : WF v = true) (hd : depth v = 0) : Good fuel bs v rest := ⟨he, hw, by omega⟩

/-- one unfolding of the decoder: every branch is `Good`, given that the recursive calls are -/
theorem enc_dec_step (fuel : Nat)
    (ih : ∀ f, fuel = f + 1 → ∀ bs v rest, dec f bs = some (v, rest) → Good f bs v rest) :
    ∀ bs v rest, dec fuel bs = some (v, rest) → Good fuel bs v rest := by
  intro bs v rest h
  cases bs with
  | nil => simp [dec] at h
  | cons c r =>
  rw [dec.eq_def] at h
  dsimp only at h
  by_cases hc : c.toNat ≤ 127
  · rw [if_pos hc] at h
    simp only [Option.some.injEq, Prod.mk.injEq] at h
    obtain ⟨rfl, rfl⟩ := h
    exact good_int_posFix fuel c _ hc
  rw [if_neg hc] at h
  by_cases hc : c.toNat ≥ 224
  · rw [if_pos hc] at h
    simp only [Option.some.injEq, Prod.mk.injEq] at h
    obtain ⟨rfl, rfl⟩ := h
    exact good_int_negFix fuel c _ hc
  rw [if_neg hc] at h
  by_cases hc : c.toNat ≥ 160 ∧ c.toNat ≤ 191
  · rw [if_pos hc] at h
    obtain ⟨s, rfl, hl, rfl⟩ := readStr_some h
    exact good_fixstr fuel c s rest hc.1 hc.2 hl
  rw [if_neg hc] at h
  by_cases hc : c.toNat ≥ 144 ∧ c.toNat ≤ 159
  · rw [if_pos hc] at h
    cases fuel with
    | zero => simp at h
    | succ f =>
      dsimp only at h
      obtain ⟨xs, t, hx, hg⟩ := map_decMany_some h
      simp only [Prod.mk.injEq] at hg
      obtain ⟨rfl, rfl⟩ := hg
      exact good_fixarr f c xs r _ hc.1 hc.2 (decMany_good (ih f rfl) _ _ _ _ hx)
  rw [if_neg hc] at h
  by_cases hc : c.toNat ≥ 128 ∧ c.toNat ≤ 143
  · rw [if_pos hc] at h
    cases fuel with
    | zero => simp at h
    | succ f =>
      dsimp only at h
      obtain ⟨xs, t, hx, hg⟩ := map_decMany_some h
      simp only [Prod.mk.injEq] at hg
      obtain ⟨rfl, rfl⟩ := hg
      exact good_fixmap f c xs r _ hc.1 hc.2 (decMany_good (ih f rfl) _ _ _ _ hx)
  rw [if_neg hc] at h
  by_cases hc : c.toNat = 192
  · rw [if_pos hc] at h
    obtain rfl : c = 0xc0 := UInt8.toNat_inj.mp hc
    simp only [Option.some.injEq, Prod.mk.injEq] at h
    obtain ⟨rfl, rfl⟩ := h
    exact good_leaf fuel _ _ _ (by simp [enc]) (by simp [WF]) (by simp [depth])
  rw [if_neg hc] at h
  by_cases hc : c.toNat = 194
  · rw [if_pos hc] at h
    obtain rfl : c = 0xc2 := UInt8.toNat_inj.mp hc
    simp only [Option.some.injEq, Prod.mk.injEq] at h
    obtain ⟨rfl, rfl⟩ := h
    exact good_leaf fuel _ _ _ (by simp [enc]) (by simp [WF]) (by simp [depth])
  rw [if_neg hc] at h
  by_cases hc : c.toNat = 195
  · rw [if_pos hc] at h
    obtain rfl : c = 0xc3 := UInt8.toNat_inj.mp hc
    simp only [Option.some.injEq, Prod.mk.injEq] at h
    obtain ⟨rfl, rfl⟩ := h
    exact good_leaf fuel _ _ _ (by simp [enc]) (by simp [WF]) (by simp [depth])
  rw [if_neg hc] at h
  by_cases hc : c.toNat = 196
  · rw [if_pos hc] at h
    obtain rfl : c = 0xc4 := UInt8.toNat_inj.mp hc
    obtain ⟨n, t, rfl, hn, hg⟩ := bind_readBE_some h
    dsimp only at hg
    obtain ⟨s, rfl, rfl, rfl⟩ := readBin_some hg
    exact good_bin fuel _ 1 .l8 s rest hn (Or.inl ⟨rfl, rfl, rfl⟩)
  rw [if_neg hc] at h
  by_cases hc : c.toNat = 197
  · rw [if_pos hc] at h
    obtain rfl : c = 0xc5 := UInt8.toNat_inj.mp hc
    obtain ⟨n, t, rfl, hn, hg⟩ := bind_readBE_some h
    dsimp only at hg
    obtain ⟨s, rfl, rfl, rfl⟩ := readBin_some hg
    exact good_bin fuel _ 2 .l16 s rest hn (Or.inr (Or.inl ⟨rfl, rfl, rfl⟩))
  rw [if_neg hc] at h
  by_cases hc : c.toNat = 198
  · rw [if_pos hc] at h
    obtain rfl : c = 0xc6 := UInt8.toNat_inj.mp hc
    obtain ⟨n, t, rfl, hn, hg⟩ := bind_readBE_some h
    dsimp only at hg
    obtain ⟨s, rfl, rfl, rfl⟩ := readBin_some hg
    exact good_bin fuel _ 4 .l32 s rest hn (Or.inr (Or.inr ⟨rfl, rfl, rfl⟩))
  rw [if_neg hc] at h
  by_cases hc : c.toNat = 199
  · rw [if_pos hc] at h
    obtain rfl : c = 0xc7 := UInt8.toNat_inj.mp hc
    obtain ⟨n, t, rfl, hn, hg⟩ := bind_readBE_some h
    dsimp only at hg
    obtain ⟨typ, d, rfl, rfl, rfl⟩ := readExt_some hg
    exact good_ext fuel _ typ 1 d rest hn (Or.inl ⟨rfl, rfl⟩)
  rw [if_neg hc] at h
  by_cases hc : c.toNat = 200
  · rw [if_pos hc] at h
    obtain rfl : c = 0xc8 := UInt8.toNat_inj.mp hc
    obtain ⟨n, t, rfl, hn, hg⟩ := bind_readBE_some h
    dsimp only at hg
    obtain ⟨typ, d, rfl, rfl, rfl⟩ := readExt_some hg
    exact good_ext fuel _ typ 2 d rest hn (Or.inr (Or.inl ⟨rfl, rfl⟩))
  rw [if_neg hc] at h
  by_cases hc : c.toNat = 201
  · rw [if_pos hc] at h
    obtain rfl : c = 0xc9 := UInt8.toNat_inj.mp hc
    obtain ⟨n, t, rfl, hn, hg⟩ := bind_readBE_some h
    dsimp only at hg
    obtain ⟨typ, d, rfl, rfl, rfl⟩ := readExt_some hg
    exact good_ext fuel _ typ 4 d rest hn (Or.inr (Or.inr ⟨rfl, rfl⟩))
  rw [if_neg hc] at h
  by_cases hc : c.toNat = 202
  · rw [if_pos hc] at h
    obtain rfl : c = 0xca := UInt8.toNat_inj.mp hc
    obtain ⟨b, t, rfl, hl, hg⟩ := map_readN_some h
    simp only [Prod.mk.injEq] at hg
    obtain ⟨rfl, rfl⟩ := hg
    exact good_leaf fuel _ _ _ (by simp [enc]) (by simp [WF, hl]) (by simp [depth])
  rw [if_neg hc] at h
  by_cases hc : c.toNat = 203
  · rw [if_pos hc] at h
    obtain rfl : c = 0xcb := UInt8.toNat_inj.mp hc
    obtain ⟨b, t, rfl, hl, hg⟩ := map_readN_some h
    simp only [Prod.mk.injEq] at hg
    obtain ⟨rfl, rfl⟩ := hg
    exact good_leaf fuel _ _ _ (by simp [enc]) (by simp [WF, hl]) (by simp [depth])
  rw [if_neg hc] at h
  by_cases hc : c.toNat = 204
  · rw [if_pos hc] at h
    obtain rfl : c = 0xcc := UInt8.toNat_inj.mp hc
    obtain ⟨n, t, rfl, hn, hg⟩ := map_readBE_some h
    simp only [Prod.mk.injEq] at hg
    obtain ⟨rfl, rfl⟩ := hg
    exact good_uint fuel _ 1 .u8 n _ hn (Or.inl ⟨rfl, rfl, rfl⟩)
  rw [if_neg hc] at h
  by_cases hc : c.toNat = 205
  · rw [if_pos hc] at h
    obtain rfl : c = 0xcd := UInt8.toNat_inj.mp hc
    obtain ⟨n, t, rfl, hn, hg⟩ := map_readBE_some h
    simp only [Prod.mk.injEq] at hg
    obtain ⟨rfl, rfl⟩ := hg
    exact good_uint fuel _ 2 .u16 n _ hn (Or.inr (Or.inl ⟨rfl, rfl, rfl⟩))
  rw [if_neg hc] at h
  by_cases hc : c.toNat = 206
  · rw [if_pos hc] at h
    obtain rfl : c = 0xce := UInt8.toNat_inj.mp hc
    obtain ⟨n, t, rfl, hn, hg⟩ := map_readBE_some h
    simp only [Prod.mk.injEq] at hg
    obtain ⟨rfl, rfl⟩ := hg
    exact good_uint fuel _ 4 .u32 n _ hn (Or.inr (Or.inr (Or.inl ⟨rfl, rfl, rfl⟩)))
  rw [if_neg hc] at h
  by_cases hc : c.toNat = 207
  · rw [if_pos hc] at h
    obtain rfl : c = 0xcf := UInt8.toNat_inj.mp hc
    obtain ⟨n, t, rfl, hn, hg⟩ := map_readBE_some h
    simp only [Prod.mk.injEq] at hg
    obtain ⟨rfl, rfl⟩ := hg
    exact good_uint fuel _ 8 .u64 n _ hn (Or.inr (Or.inr (Or.inr ⟨rfl, rfl, rfl⟩)))
  rw [if_neg hc] at h
  by_cases hc : c.toNat = 208
  · rw [if_pos hc] at h
    obtain rfl : c = 0xd0 := UInt8.toNat_inj.mp hc
    obtain ⟨n, t, rfl, hn, hg⟩ := map_readBE_some h
    simp only [Prod.mk.injEq] at hg
    obtain ⟨rfl, rfl⟩ := hg
    exact good_sint fuel _ 1 .i8 n _ hn (Or.inl ⟨rfl, rfl, rfl⟩)
  rw [if_neg hc] at h
  by_cases hc : c.toNat = 209
  · rw [if_pos hc] at h
    obtain rfl : c = 0xd1 := UInt8.toNat_inj.mp hc
    obtain ⟨n, t, rfl, hn, hg⟩ := map_readBE_some h
    simp only [Prod.mk.injEq] at hg
    obtain ⟨rfl, rfl⟩ := hg
    exact good_sint fuel _ 2 .i16 n _ hn (Or.inr (Or.inl ⟨rfl, rfl, rfl⟩))
  rw [if_neg hc] at h
  by_cases hc : c.toNat = 210
  · rw [if_pos hc] at h
    obtain rfl : c = 0xd2 := UInt8.toNat_inj.mp hc
    obtain ⟨n, t, rfl, hn, hg⟩ := map_readBE_some h
    simp only [Prod.mk.injEq] at hg
    obtain ⟨rfl, rfl⟩ := hg
    exact good_sint fuel _ 4 .i32 n _ hn (Or.inr (Or.inr (Or.inl ⟨rfl, rfl, rfl⟩)))
  rw [if_neg hc] at h
  by_cases hc : c.toNat = 211
  · rw [if_pos hc] at h
    obtain rfl : c = 0xd3 := UInt8.toNat_inj.mp hc
    obtain ⟨n, t, rfl, hn, hg⟩ := map_readBE_some h
    simp only [Prod.mk.injEq] at hg
    obtain ⟨rfl, rfl⟩ := hg
    exact good_sint fuel _ 8 .i64 n _ hn (Or.inr (Or.inr (Or.inr ⟨rfl, rfl, rfl⟩)))
  rw [if_neg hc] at h
  by_cases hc : c.toNat = 212
  · rw [if_pos hc] at h
    obtain rfl : c = 0xd4 := UInt8.toNat_inj.mp hc
    obtain ⟨typ, d, rfl, hl, rfl⟩ := readExt_some h
    exact good_fixext fuel _ typ d rest (Or.inl ⟨rfl, hl⟩)
  rw [if_neg hc] at h
  by_cases hc : c.toNat = 213
  · rw [if_pos hc] at h
    obtain rfl : c = 0xd5 := UInt8.toNat_inj.mp hc
    obtain ⟨typ, d, rfl, hl, rfl⟩ := readExt_some h
    exact good_fixext fuel _ typ d rest (Or.inr (Or.inl ⟨rfl, hl⟩))
  rw [if_neg hc] at h
  by_cases hc : c.toNat = 214
  · rw [if_pos hc] at h
    obtain rfl : c = 0xd6 := UInt8.toNat_inj.mp hc
    obtain ⟨typ, d, rfl, hl, rfl⟩ := readExt_some h
    exact good_fixext fuel _ typ d rest (Or.inr (Or.inr (Or.inl ⟨rfl, hl⟩)))
  rw [if_neg hc] at h
  by_cases hc : c.toNat = 215
  · rw [if_pos hc] at h
    obtain rfl : c = 0xd7 := UInt8.toNat_inj.mp hc
    obtain ⟨typ, d, rfl, hl, rfl⟩ := readExt_some h
    exact good_fixext fuel _ typ d rest (Or.inr (Or.inr (Or.inr (Or.inl ⟨rfl, hl⟩))))
  rw [if_neg hc] at h
  by_cases hc : c.toNat = 216
  · rw [if_pos hc] at h
    obtain rfl : c = 0xd8 := UInt8.toNat_inj.mp hc
    obtain ⟨typ, d, rfl, hl, rfl⟩ := readExt_some h
    exact good_fixext fuel _ typ d rest (Or.inr (Or.inr (Or.inr (Or.inr ⟨rfl, hl⟩))))
  rw [if_neg hc] at h
  by_cases hc : c.toNat = 217
  · rw [if_pos hc] at h
    obtain rfl : c = 0xd9 := UInt8.toNat_inj.mp hc
    obtain ⟨n, t, rfl, hn, hg⟩ := bind_readBE_some h
    dsimp only at hg
    obtain ⟨s, rfl, rfl, rfl⟩ := readStr_some hg
    exact good_str fuel _ 1 .l8 s rest hn (Or.inl ⟨rfl, rfl, rfl⟩)
  rw [if_neg hc] at h
  by_cases hc : c.toNat = 218
  · rw [if_pos hc] at h
    obtain rfl : c = 0xda := UInt8.toNat_inj.mp hc
    obtain ⟨n, t, rfl, hn, hg⟩ := bind_readBE_some h
    dsimp only at hg
    obtain ⟨s, rfl, rfl, rfl⟩ := readStr_some hg
    exact good_str fuel _ 2 .l16 s rest hn (Or.inr (Or.inl ⟨rfl, rfl, rfl⟩))
  rw [if_neg hc] at h
  by_cases hc : c.toNat = 219
  · rw [if_pos hc] at h
    obtain rfl : c = 0xdb := UInt8.toNat_inj.mp hc
    obtain ⟨n, t, rfl, hn, hg⟩ := bind_readBE_some h
    dsimp only at hg
    obtain ⟨s, rfl, rfl, rfl⟩ := readStr_some hg
    exact good_str fuel _ 4 .l32 s rest hn (Or.inr (Or.inr ⟨rfl, rfl, rfl⟩))
  rw [if_neg hc] at h
  by_cases hc : c.toNat = 220
  · rw [if_pos hc] at h
    obtain rfl : c = 0xdc := UInt8.toNat_inj.mp hc
    cases fuel with
    | zero => simp at h
    | succ f =>
      dsimp only at h
      obtain ⟨n, t, rfl, hn, hg⟩ := bind_readBE_some h
      dsimp only at hg
      obtain ⟨xs, t', hx, hg'⟩ := map_decMany_some hg
      simp only [Prod.mk.injEq] at hg'
      obtain ⟨rfl, rfl⟩ := hg'
      have hG := decMany_good (ih f rfl) _ _ _ _ hx
      obtain rfl : xs.length = n := hG.2.2.2
      exact good_arr f _ 2 .l16 xs t _ hn hG (Or.inl ⟨rfl, rfl, rfl⟩)
  rw [if_neg hc] at h
  by_cases hc : c.toNat = 221
  · rw [if_pos hc] at h
    obtain rfl : c = 0xdd := UInt8.toNat_inj.mp hc
    cases fuel with
    | zero => simp at h
    | succ f =>
      dsimp only at h
      obtain ⟨n, t, rfl, hn, hg⟩ := bind_readBE_some h
      dsimp only at hg
      obtain ⟨xs, t', hx, hg'⟩ := map_decMany_some hg
      simp only [Prod.mk.injEq] at hg'
      obtain ⟨rfl, rfl⟩ := hg'
      have hG := decMany_good (ih f rfl) _ _ _ _ hx
      obtain rfl : xs.length = n := hG.2.2.2
      exact good_arr f _ 4 .l32 xs t _ hn hG (Or.inr ⟨rfl, rfl, rfl⟩)
  rw [if_neg hc] at h
  by_cases hc : c.toNat = 222
  · rw [if_pos hc] at h
    obtain rfl : c = 0xde := UInt8.toNat_inj.mp hc
    cases fuel with
    | zero => simp at h
    | succ f =>
      dsimp only at h
      obtain ⟨n, t, rfl, hn, hg⟩ := bind_readBE_some h
      dsimp only at hg
      obtain ⟨xs, t', hx, hg'⟩ := map_decMany_some hg
      simp only [Prod.mk.injEq] at hg'
      obtain ⟨rfl, rfl⟩ := hg'
      have hG := decMany_good (ih f rfl) _ _ _ _ hx
      exact good_map f _ 2 .l16 n xs t _ hn hG (Or.inl ⟨rfl, rfl, rfl⟩)
  rw [if_neg hc] at h
  by_cases hc : c.toNat = 223
  · rw [if_pos hc] at h
    obtain rfl : c = 0xdf := UInt8.toNat_inj.mp hc
    cases fuel with
    | zero => simp at h
    | succ f =>
      dsimp only at h
      obtain ⟨n, t, rfl, hn, hg⟩ := bind_readBE_some h
      dsimp only at hg
      obtain ⟨xs, t', hx, hg'⟩ := map_decMany_some hg
      simp only [Prod.mk.injEq] at hg'
      obtain ⟨rfl, rfl⟩ := hg'
      have hG := decMany_good (ih f rfl) _ _ _ _ hx
      exact good_map f _ 4 .l32 n xs t _ hn hG (Or.inr ⟨rfl, rfl, rfl⟩)
  rw [if_neg hc] at h
  cases h

theorem enc_dec_good : ∀ (fuel : Nat) (bs : Bytes) (v : V) (rest : Bytes),
    dec fuel bs = some (v, rest) → Good fuel bs v rest := by
  intro fuel
  induction fuel with
  | zero => exact enc_dec_step 0 (fun f hf => by omega)
  | succ n ih => exact enc_dec_step (n + 1) (fun f hf => by cases hf; exact ih)

/-- whatever the decoder returns re-encodes to the consumed bytes, is well formed, and nests no
deeper than the budget -/
theorem enc_dec (fuel : Nat) (bs : Bytes) (v : V) (rest : Bytes)
    (h : dec fuel bs = some (v, rest)) : bs = enc v ++ rest ∧ WF v = true ∧ depth v ≤ fuel :=
  enc_dec_good fuel bs v rest h

theorem decMany_encL_inv (fuel n : Nat) (bs : Bytes) (vs : VL) (rest : Bytes)
    (h : decMany (dec fuel) n bs = some (vs, rest)) :
    bs = encL vs ++ rest ∧ WFL vs = true ∧ depthL vs ≤ fuel ∧ vs.length = n :=
  decMany_good (enc_dec_good fuel) n bs vs rest h

/-! ### corollaries -/

/-- a larger nesting budget does not change a successful decode -/
theorem dec_fuel_mono (fuel fuel' : Nat) (h : fuel ≤ fuel') (bs : Bytes) (v : V) (rest : Bytes) :
    dec fuel bs = some (v, rest) → dec fuel' bs = some (v, rest) := by
  intro hd
  obtain ⟨rfl, hw, hdep⟩ := enc_dec fuel bs v rest hd
  exact dec_enc v fuel' rest hw (by omega)

theorem decMany_fuel_mono (fuel fuel' : Nat) (h : fuel ≤ fuel') (n : Nat) (bs : Bytes) (vs : VL)
    (rest : Bytes) :
    decMany (dec fuel) n bs = some (vs, rest) → decMany (dec fuel') n bs = some (vs, rest) := by
  intro hd
  obtain ⟨rfl, hw, hdep, rfl⟩ := decMany_encL_inv fuel n bs vs rest hd
  exact decMany_encL vs fuel' rest hw (by omega)

/-- no encoding of a well-formed tree is a proper prefix of another: a concatenation of
encodings splits in only one way -/
theorem enc_prefix_free (v w : V) (r s : Bytes) (hv : WF v = true) (hw : WF w = true)
    (h : enc v ++ r = enc w ++ s) : v = w ∧ r = s := by
  have h1 := dec_enc v (max (depth v) (depth w)) r hv (by omega)
  have h2 := dec_enc w (max (depth v) (depth w)) s hw (by omega)
  rw [h, h2] at h1
  simp only [Option.some.injEq, Prod.mk.injEq] at h1
  exact ⟨h1.1.symm, h1.2.symm⟩

/-- distinct well-formed trees have distinct encodings -/
theorem enc_injective (v w : V) (hv : WF v = true) (hw : WF w = true) (h : enc v = enc w) :
    v = w :=
  (enc_prefix_free v w [] [] hv hw (by rw [h])).1

theorem encL_prefix_free (vs ws : VL) (r s : Bytes) (hv : WFL vs = true) (hw : WFL ws = true)
    (hl : vs.length = ws.length) (h : encL vs ++ r = encL ws ++ s) : vs = ws ∧ r = s := by
  have h1 := decMany_encL vs (max (depthL vs) (depthL ws)) r hv (by omega)
  have h2 := decMany_encL ws (max (depthL vs) (depthL ws)) s hw (by omega)
  rw [h, hl, h2] at h1
  simp only [Option.some.injEq, Prod.mk.injEq] at h1
  exact ⟨h1.1.symm, h1.2.symm⟩

/-! ### the canonical constructors are well formed -/

theorem wf_ofUint (n : Nat) (h : n < 2 ^ 64) : WF (V.ofUint n) = true := by
  unfold V.ofUint
  split
  · simp [WF, intFits]; omega
  split
  · simp [WF, intFits]; omega
  split
  · simp [WF, intFits]; omega
  split
  · simp [WF, intFits]; omega
  · simp [WF, intFits]; omega

theorem wf_ofInt (i : Int) (h1 : -(2 ^ 63 : Int) ≤ i) (h2 : i < 2 ^ 64) :
    WF (V.ofInt i) = true := by
  unfold V.ofInt
  split
  · exact wf_ofUint i.toNat (by omega)
  split
  · simp [WF, intFits]; omega
  split
  · simp [WF, intFits]; omega
  split
  · simp [WF, intFits]; omega
  split
  · simp [WF, intFits]; omega
  · simp [WF, intFits]; omega

theorem wf_ofStr (s : Bytes) (h : s.length < 2 ^ 32) : WF (V.ofStr s) = true := by
  unfold V.ofStr strFmt
  split
  · simp [WF, lenFits]; omega
  split
  · simp [WF, lenFits]; omega
  split
  · simp [WF, lenFits]; omega
  · simp [WF, lenFits]; omega

theorem wf_ofBin (b : Bytes) (h : b.length < 2 ^ 32) : WF (V.ofBin b) = true := by
  unfold V.ofBin binFmt
  split
  · simp [WF, lenFits]; omega
  split
  · simp [WF, lenFits]; omega
  · simp [WF, lenFits]; omega

@[simp] theorem VL.length_ofList (xs : List V) : (VL.ofList xs).length = xs.length := by
  induction xs with
  | nil => rfl
  | cons x xs ih => simp [VL.ofList, VL.length, ih]

@[simp] theorem VL.toList_ofList (xs : List V) : (VL.ofList xs).toList = xs := by
  induction xs with
  | nil => rfl
  | cons x xs ih => simp [VL.ofList, VL.toList, ih]

theorem wfl_ofList (xs : List V) : WFL (VL.ofList xs) = true ↔ ∀ x ∈ xs, WF x = true := by
  induction xs with
  | nil => simp [VL.ofList, WFL]
  | cons x xs ih => simp [VL.ofList, WFL, ih]

theorem depthL_ofList_le (xs : List V) (n : Nat) :
    depthL (VL.ofList xs) ≤ n ↔ ∀ x ∈ xs, depth x ≤ n := by
  induction xs with
  | nil => simp [VL.ofList, depthL]
  | cons x xs ih => simp [VL.ofList, depthL, Nat.max_le, ih]

theorem cntFits_arrFmt (n : Nat) (h : n < 2 ^ 32) : cntFits (arrFmt n) n = true := by
  unfold arrFmt
  split
  · simp [cntFits]; omega
  split
  · simp [cntFits]; omega
  · simp [cntFits]; omega

theorem wf_ofArr (xs : List V) (h : xs.length < 2 ^ 32) (hall : ∀ x ∈ xs, WF x = true) :
    WF (V.ofArr xs) = true := by
  unfold V.ofArr
  simp only [WF, VL.length_ofList, Bool.and_eq_true]
  exact ⟨cntFits_arrFmt _ h, (wfl_ofList xs).mpr hall⟩

theorem length_flatMap_pairs (kvs : List (V × V)) :
    (kvs.flatMap fun kv => [kv.1, kv.2]).length = 2 * kvs.length := by
  induction kvs with
  | nil => rfl
  | cons kv kvs ih => simp [List.flatMap_cons, ih]; omega

theorem wf_ofMap (kvs : List (V × V)) (h : kvs.length < 2 ^ 32)
    (hall : ∀ kv ∈ kvs, WF kv.1 = true ∧ WF kv.2 = true) : WF (V.ofMap kvs) = true := by
  unfold V.ofMap
  have hl := length_flatMap_pairs kvs
  have h2 : 2 * kvs.length / 2 = kvs.length := by omega
  simp only [WF, VL.length_ofList, Bool.and_eq_true, beq_iff_eq, hl, h2]
  refine ⟨⟨by omega, cntFits_arrFmt _ h⟩, (wfl_ofList _).mpr ?_⟩
  intro x hx
  obtain ⟨kv, hkv, hx⟩ := List.mem_flatMap.mp hx
  have := hall kv hkv
  simp only [List.mem_cons, List.not_mem_nil, or_false] at hx
  rcases hx with rfl | rfl
  · exact this.1
  · exact this.2

/-- depth of the canonical containers, for discharging the budget hypothesis of `dec_enc` -/
theorem depth_ofArr (xs : List V) : depth (V.ofArr xs) = 1 + depthL (VL.ofList xs) := by
  simp [V.ofArr, depth]

theorem depth_ofMap (kvs : List (V × V)) :
    depth (V.ofMap kvs) = 1 + depthL (VL.ofList (kvs.flatMap fun kv => [kv.1, kv.2])) := by
  simp [V.ofMap, depth]

theorem depth_ofUint (n : Nat) : depth (V.ofUint n) = 0 := by
  unfold V.ofUint; repeat' split
  all_goals simp [depth]

theorem depth_ofInt (i : Int) : depth (V.ofInt i) = 0 := by
  unfold V.ofInt; split
  · exact depth_ofUint _
  repeat' split
  all_goals simp [depth]

theorem depth_ofStr (s : Bytes) : depth (V.ofStr s) = 0 := by simp [V.ofStr, depth]
theorem depth_ofBin (b : Bytes) : depth (V.ofBin b) = 0 := by simp [V.ofBin, depth]

/-! ### non-vacuity: the hypotheses are satisfiable, on trees that exercise nesting -/

/-- `{"a": [1, -200, nil], "b": bin 01 02}` as a canonical tree -/
private def sample : V :=
  V.ofMap [(V.ofStr [0x61], V.ofArr [V.ofUint 1, V.ofInt (-200), .nil]),
           (V.ofStr [0x62], V.ofBin [1, 2])]

example : WF sample = true := by decide
example : depth sample = 2 := by decide
example : enc sample = [0x82, 0xa1, 0x61, 0x93, 0x01, 0xd1, 0xff, 0x38, 0xc0,
                        0xa1, 0x62, 0xc4, 0x02, 0x01, 0x02] := by decide
example : dec 2 (enc sample ++ [0xc1]) = some (sample, [0xc1]) :=
  dec_enc sample 2 [0xc1] (by decide) (by decide)
/-- the budget matters: one level short and the decoder refuses -/
example : dec 1 (enc sample) = none := by decide
/-- the hypothesis of `enc_dec` is satisfiable, also on a non-canonical (wide) encoding -/
example : dec 0 [0xcd, 0x00, 0x05, 0xff] = some (.int .u16 5, [0xff]) := by rfl
example : [0xcd, 0x00, 0x05, 0xff] = enc (.int .u16 5) ++ [0xff] ∧ WF (.int .u16 5) = true
    ∧ depth (.int .u16 5) ≤ 0 := enc_dec 0 _ _ _ (by rfl)
/-- WF is necessary for `dec_enc`: a posFix node holding 200 encodes to `c8`, an ext header -/
example : WF (.int .posFix 200) = false ∧ dec 5 (enc (.int .posFix 200) ++ []) = none := by decide
/-- the unused byte c1 is rejected -/
example : dec 5 [0xc1] = none := by decide

end Macaroon.Msgpack

#print axioms Macaroon.Msgpack.dec_enc
#print axioms Macaroon.Msgpack.decMany_encL
#print axioms Macaroon.Msgpack.enc_dec
#print axioms Macaroon.Msgpack.decMany_encL_inv
#print axioms Macaroon.Msgpack.enc_injective
#print axioms Macaroon.Msgpack.enc_prefix_free
#print axioms Macaroon.Msgpack.encL_prefix_free
#print axioms Macaroon.Msgpack.dec_fuel_mono
#print axioms Macaroon.Msgpack.decMany_fuel_mono
#print axioms Macaroon.Msgpack.wf_ofUint
#print axioms Macaroon.Msgpack.wf_ofInt
#print axioms Macaroon.Msgpack.wf_ofStr
#print axioms Macaroon.Msgpack.wf_ofBin
#print axioms Macaroon.Msgpack.wf_ofArr
#print axioms Macaroon.Msgpack.wf_ofMap
