/-
The field-level decoders of the typed codec (`Dec.asUint`, `asInt64`, `asBytes`, `asBool`,
`asStrSlice`, `fieldsOf`, `asStrSet`, `asU64Set`, `command`), in both directions:

* on the canonical trees the encoder writes they return the encoded value (`*_of*` lemmas);
* on an arbitrary well-formed tree whatever they return is within the bounds the canonical
  encoder needs (`*_inv` lemmas): integers reduced, byte strings and element counts `< 2^32`,
  resource sets in normal form.

Core Lean only.
-/
import Macaroon.Lemmas.Msgpack
import Macaroon.Lemmas.CodecResSet

namespace Macaroon
open Msgpack Codec

namespace Dec

/-! ### the `Except Unit` monad -/

@[simp] theorem bind_ok {α β} (a : α) (f : α → D β) : (Except.ok a : D α) >>= f = f a := rfl
@[simp] theorem bind_error {α β} (e : Unit) (f : α → D β) :
    (Except.error e : D α) >>= f = Except.error e := rfl
@[simp] theorem pure_eq {α} (a : α) : (pure a : D α) = Except.ok a := rfl
@[simp] theorem fail_eq {α} : (fail : D α) = Except.error () := rfl

theorem bind_eq_ok {α β} {x : D α} {f : α → D β} {b : β} :
    x >>= f = Except.ok b ↔ ∃ a, x = Except.ok a ∧ f a = Except.ok b := by
  cases x with
  | error e => simp
  | ok a => simp

theorem mapM_ok {α β} (f : α → D β) (g : α → β) :
    ∀ l : List α, (∀ a ∈ l, f a = Except.ok (g a)) → l.mapM f = Except.ok (l.map g)
  | [], _ => rfl
  | a :: l, h => by
    rw [List.mapM_cons, h a List.mem_cons_self, mapM_ok f g l fun x hx => h x (List.mem_cons_of_mem _ hx)]
    rfl

theorem mapM_inv {α β} (f : α → D β) :
    ∀ (l : List α) (r : List β), l.mapM f = Except.ok r →
      r.length = l.length ∧ ∀ b ∈ r, ∃ a ∈ l, f a = Except.ok b
  | [], r, h => by
    simp only [List.mapM_nil, pure_eq, Except.ok.injEq] at h
    subst h; simp
  | a :: l, r, h => by
    rw [List.mapM_cons] at h
    obtain ⟨b, hb, h⟩ := bind_eq_ok.mp h
    obtain ⟨bs, hbs, h⟩ := bind_eq_ok.mp h
    simp only [pure_eq, Except.ok.injEq] at h
    subst h
    obtain ⟨hl, hm⟩ := mapM_inv f l bs hbs
    refine ⟨by simp [hl], ?_⟩
    intro x hx
    rcases List.mem_cons.mp hx with rfl | hx
    · exact ⟨a, List.mem_cons_self, hb⟩
    · obtain ⟨a', ha', hf⟩ := hm x hx
      exact ⟨a', List.mem_cons_of_mem _ ha', hf⟩

/-! ### trees and their children -/

/-- the direct sub-trees of a container -/
def children : V → List V
  | .arr _ xs => xs.toList
  | .map _ kvs => kvs.toList
  | _ => []

theorem mem_toList_wf : ∀ (xs : VL) (v : V), WFL xs = true → v ∈ xs.toList → WF v = true
  | .nil, _, _, h => by simp [VL.toList] at h
  | .cons x xs, v, hw, h => by
    simp only [WFL, Bool.and_eq_true] at hw
    simp only [VL.toList, List.mem_cons] at h
    rcases h with rfl | h
    · exact hw.1
    · exact mem_toList_wf xs v hw.2 h

theorem mem_toList_depth : ∀ (xs : VL) (v : V), v ∈ xs.toList → depth v ≤ depthL xs
  | .nil, _, h => by simp [VL.toList] at h
  | .cons x xs, v, h => by
    simp only [VL.toList, List.mem_cons] at h
    simp only [depthL]
    rcases h with rfl | h
    · omega
    · have := mem_toList_depth xs v h; omega

theorem length_toList : ∀ xs : VL, xs.toList.length = xs.length
  | .nil => rfl
  | .cons _ xs => by simp [VL.toList, VL.length, length_toList xs]

theorem ofList_toList : ∀ xs : VL, VL.ofList xs.toList = xs
  | .nil => rfl
  | .cons x xs => by simp [VL.toList, VL.ofList, ofList_toList xs]

theorem mem_children (b v : V) (hb : WF b = true) (h : v ∈ children b) :
    WF v = true ∧ depth v < depth b := by
  cases b with
  | arr f xs =>
    simp only [WF, Bool.and_eq_true] at hb
    simp only [children] at h
    have := mem_toList_depth xs v h
    exact ⟨mem_toList_wf xs v hb.2 h, by simp only [depth]; omega⟩
  | map f xs =>
    simp only [WF, Bool.and_eq_true] at hb
    simp only [children] at h
    have := mem_toList_depth xs v h
    exact ⟨mem_toList_wf xs v hb.2 h, by simp only [depth]; omega⟩
  | _ => simp [children] at h

theorem cntFits_lt (f : LenFmt) (n : Nat) (h : cntFits f n = true) : n < 2 ^ 32 := by
  cases f <;> simp [cntFits] at h <;> omega

theorem lenFits_lt (f : LenFmt) (n : Nat) (h : lenFits f n = true) : n < 2 ^ 32 := by
  cases f <;> simp [lenFits] at h <;> omega

/-- an optional tree all of whose content is well formed -/
def OWF (ov : Option V) : Prop := ∀ v, ov = some v → WF v = true

theorem owf_some {v : V} (h : WF v = true) : OWF (some v) := by
  intro w hw; cases hw; exact h

/-! ### integers -/

theorem ofUint_int (n : Nat) : ∃ f, V.ofUint n = .int f (n : Int) := by
  unfold V.ofUint
  repeat' split
  all_goals exact ⟨_, rfl⟩

theorem asUint_ofUint (bits n : Nat) (hb : bits ≤ 64) (h : n < 2 ^ bits) :
    asUint bits (some (V.ofUint n)) = Except.ok n := by
  obtain ⟨f, hf⟩ := ofUint_int n
  have h64 : n < 2 ^ 64 := Nat.lt_of_lt_of_le h (Nat.pow_le_pow_right (by decide) hb)
  rw [hf]
  simp only [asUint, pure_eq, Except.ok.injEq]
  have : ((n : Int) % ((2 ^ 64 : Nat) : Int)).toNat = n := by
    have e : ((2 ^ 64 : Nat) : Int) = 18446744073709551616 := by decide
    rw [e]
    have h64' : n < 18446744073709551616 := h64
    omega
  rw [this, Nat.mod_eq_of_lt h]

theorem asUint_inv (bits : Nat) (ov : Option V) (n : Nat) (h : asUint bits ov = Except.ok n) :
    n < 2 ^ bits := by
  have hp : 0 < 2 ^ bits := Nat.pow_pos (by decide)
  unfold asUint at h
  split at h <;> simp only [pure_eq, fail_eq, Except.ok.injEq, reduceCtorEq] at h
  · omega
  · omega
  · subst h; exact Nat.mod_lt _ hp

theorem u64_ofNat_toNat_of_lt (n : Nat) (h : n < 2 ^ 64) : (UInt64.ofNat n).toNat = n := by
  simp only [UInt64.toNat_ofNat']
  exact Nat.mod_eq_of_lt h

theorem asInt64_ofInt (i : Int) (h1 : -(2 ^ 63 : Int) ≤ i) (h2 : i < 2 ^ 63) :
    asInt64 (some (V.ofInt i)) = Except.ok i := by
  unfold V.ofInt
  split
  · obtain ⟨f, hf⟩ := ofUint_int i.toNat
    rw [hf]
    simp only [asInt64, pure_eq, Except.ok.injEq]
    have : ((i.toNat : Nat) : Int) = i := by omega
    rw [this, if_neg (by omega)]
  · repeat' split
    all_goals
      simp only [asInt64, pure_eq, Except.ok.injEq]
      rw [if_neg (by omega)]

/-! ### byte strings and booleans -/

@[simp] theorem asBytes_ofStr (s : Bytes) : asBytes (some (V.ofStr s)) = Except.ok s := rfl
@[simp] theorem asBytes_ofBin (s : Bytes) : asBytes (some (V.ofBin s)) = Except.ok s := rfl
@[simp] theorem asBool_bool (b : Bool) : asBool (some (.bool b)) = Except.ok b := rfl

theorem asBytes_inv (ov : Option V) (b : Bytes) (hw : OWF ov) (h : asBytes ov = Except.ok b) :
    b.length < 2 ^ 32 := by
  unfold asBytes at h
  split at h <;> simp only [pure_eq, fail_eq, Except.ok.injEq, reduceCtorEq] at h
  · subst h; simp
  · subst h; simp
  · subst h
    have := hw _ rfl
    simp only [WF] at this
    exact lenFits_lt _ _ this
  · subst h
    have := hw _ rfl
    simp only [WF, Bool.and_eq_true] at this
    exact lenFits_lt _ _ this.2

/-! ### string slices -/

/-- what a `[]string` must satisfy to be encodable: count and lengths fit the 32-bit headers -/
def sliceOk : Option (List Bytes) → Bool
  | none => true
  | some ss => decide (ss.length < 2 ^ 32) && ss.all fun s => decide (s.length < 2 ^ 32)

theorem asStrSlice_strSliceV (ms : Option (List Bytes)) :
    asStrSlice (some (strSliceV ms)) = Except.ok ms := by
  cases ms with
  | none => rfl
  | some ss =>
    simp only [strSliceV, V.ofArr, asStrSlice, VL.toList_ofList]
    rw [List.mapM_map, mapM_ok _ id ss (fun a _ => by simp)]
    simp

theorem asStrSlice_inv (ov : Option V) (ms : Option (List Bytes)) (hw : OWF ov)
    (h : asStrSlice ov = Except.ok ms) : sliceOk ms = true := by
  unfold asStrSlice at h
  split at h <;> simp only [pure_eq, fail_eq, Except.ok.injEq, reduceCtorEq] at h
  · subst h; rfl
  · subst h; rfl
  · rename_i f xs
    obtain ⟨ss, hss, h⟩ := bind_eq_ok.mp h
    simp only [Except.ok.injEq] at h
    subst h
    have hwf := hw _ rfl
    simp only [WF, Bool.and_eq_true] at hwf
    obtain ⟨hl, hm⟩ := mapM_inv _ _ _ hss
    simp only [sliceOk, Bool.and_eq_true, decide_eq_true_eq, List.all_eq_true]
    refine ⟨?_, ?_⟩
    · rw [hl, length_toList]; exact cntFits_lt _ _ hwf.1
    · intro s hs
      obtain ⟨v, hv, hf⟩ := hm s hs
      exact asBytes_inv _ _ (owf_some (mem_toList_wf xs v hwf.2 hv)) hf

/-! ### structs -/

theorem fieldsOf_ofArr (names : List String) (xs : List V) (hl : xs.length = names.length)
    (hne : xs ≠ []) : fieldsOf names (some (V.ofArr xs)) = Except.ok (xs.map some) := by
  simp only [V.ofArr, fieldsOf, VL.toList_ofList]
  have : xs.isEmpty = false := by cases xs <;> simp at hne ⊢
  simp [this, hl]

theorem fieldsOf_empty (names : List String) :
    fieldsOf names (some (V.ofArr [])) = Except.ok (names.map fun _ => none) := by
  simp [V.ofArr, fieldsOf, VL.ofList, VL.toList]

theorem field_mem (fs : List (Option V)) (i : Nat) (v : V) (h : field fs i = some v) :
    some v ∈ fs := by
  unfold field at h
  cases hi : fs[i]? with
  | none => rw [hi] at h; cases h
  | some o =>
    rw [hi] at h
    simp only [Option.join] at h
    subst h
    exact List.mem_of_getElem? hi

theorem fieldsOf_pairs_mem : ∀ (l : List V) (ps : List (Bytes × V)),
    fieldsOf.pairs l = Except.ok ps → ∀ p ∈ ps, p.2 ∈ l
  | [], ps, h => by
    simp only [fieldsOf.pairs, pure_eq, Except.ok.injEq] at h
    subst h; simp
  | [_], ps, h => by
    simp only [fieldsOf.pairs, pure_eq, Except.ok.injEq] at h
    subst h; simp
  | k :: v :: rest, ps, h => by
    rw [fieldsOf.pairs] at h
    obtain ⟨kb, _, h⟩ := bind_eq_ok.mp h
    obtain ⟨r, hr, h⟩ := bind_eq_ok.mp h
    simp only [pure_eq, Except.ok.injEq] at h
    subst h
    intro p hp
    rcases List.mem_cons.mp hp with rfl | hp
    · simp
    · have := fieldsOf_pairs_mem rest r hr p hp
      exact List.mem_cons_of_mem _ (List.mem_cons_of_mem _ this)

/-- every field a struct decoder sees is a direct sub-tree of the struct's value -/
theorem fieldsOf_mem (names : List String) (b : V) (fs : List (Option V))
    (h : fieldsOf names (some b) = Except.ok fs) (v : V) (hv : some v ∈ fs) : v ∈ children b := by
  unfold fieldsOf at h
  split at h
  · rename_i heq; cases heq
  · simp only [pure_eq, Except.ok.injEq] at h
    subst h; simp at hv
  · rename_i f xs heq
    cases heq
    simp only at h
    split at h
    · simp only [pure_eq, Except.ok.injEq] at h
      subst h; simp at hv
    · split at h
      · simp only [pure_eq, Except.ok.injEq] at h
        subst h
        simp only [List.mem_map, Option.some.injEq] at hv
        obtain ⟨a, ha, rfl⟩ := hv
        exact ha
      · simp at h
  · rename_i f kvs heq
    cases heq
    obtain ⟨ps, hps, h⟩ := bind_eq_ok.mp h
    simp only [pure_eq, Except.ok.injEq] at h
    subst h
    simp only [List.mem_map] at hv
    obtain ⟨n, _, hn⟩ := hv
    cases hf : List.find? (fun p => p.1 == Bytes.ofString n) ps.reverse with
    | none => rw [hf] at hn; cases hn
    | some p =>
      rw [hf] at hn
      simp only [Option.map_some, Option.some.injEq] at hn
      subst hn
      have hm : p ∈ ps := List.mem_reverse.mp (List.mem_of_find?_eq_some hf)
      exact fieldsOf_pairs_mem kvs.toList ps hps p hm
  · simp at h

/-- a field of a well-formed struct value is well formed and strictly shallower -/
theorem field_wf (names : List String) (b : V) (fs : List (Option V)) (hb : WF b = true)
    (h : fieldsOf names (some b) = Except.ok fs) (i : Nat) (v : V) (hv : field fs i = some v) :
    WF v = true ∧ depth v < depth b :=
  mem_children b v hb (fieldsOf_mem names b fs h v (field_mem fs i v hv))

theorem field_owf (names : List String) (b : V) (fs : List (Option V)) (hb : WF b = true)
    (h : fieldsOf names (some b) = Except.ok fs) (i : Nat) : OWF (field fs i) :=
  fun v hv => (field_wf names b fs hb h i v hv).1

/-! ### resource sets -/

/-- what a `ResourceSet[string]` must satisfy: map-canonical (keys unique, in the encoder's order),
entry count and key lengths fit the 32-bit headers -/
def strSetOk (rs : ResSet Bytes) : Bool :=
  decide (ofEntriesStr rs = rs) && decide (rs.length < 2 ^ 32) && rs.all fun e => decide (e.1.length < 2 ^ 32)

def u64SetOk (rs : ResSet UInt64) : Bool :=
  decide (ofEntriesU64 rs = rs) && decide (rs.length < 2 ^ 32)

theorem mapPairs_flatMap : ∀ kvs : List (V × V), mapPairs (kvs.flatMap fun kv => [kv.1, kv.2]) = kvs
  | [] => rfl
  | kv :: kvs => by
    simp only [List.flatMap_cons, List.cons_append, List.nil_append, mapPairs, mapPairs_flatMap kvs]

theorem mapPairs_mem : ∀ (l : List V) (kv : V × V), kv ∈ mapPairs l → kv.1 ∈ l ∧ kv.2 ∈ l
  | [], kv, h => by simp [mapPairs] at h
  | [_], kv, h => by simp [mapPairs] at h
  | k :: v :: rest, kv, h => by
    simp only [mapPairs, List.mem_cons] at h
    rcases h with rfl | h
    · simp
    · have := mapPairs_mem rest kv h
      simp [this.1, this.2]

theorem length_mapPairs : ∀ l : List V, (mapPairs l).length = l.length / 2
  | [] => rfl
  | [_] => by simp [mapPairs]
  | k :: v :: rest => by
    simp only [mapPairs, List.length_cons, length_mapPairs rest]; omega

theorem u16_ofNat_toNat (m : UInt16) : UInt16.ofNat m.toNat = m := by simp
theorem u64_ofNat_toNat (m : UInt64) : UInt64.ofNat m.toNat = m := by simp
theorem u32_ofNat_toNat (m : UInt32) : UInt32.ofNat m.toNat = m := by simp

theorem asStrSet_strMap (rs : ResSet Bytes) :
    asStrSet (some (V.ofMap (rs.map fun e => (V.ofStr e.1, V.ofUint e.2.toNat))))
      = Except.ok (ofEntriesStr rs) := by
  simp only [V.ofMap, asStrSet, VL.toList_ofList, mapPairs_flatMap]
  rw [List.mapM_map, mapM_ok _ id rs]
  · simp
  · intro e _
    have := e.2.toNat_lt
    simp [asUint_ofUint 16 e.2.toNat (by decide) (by simpa using this)]

theorem asU64Set_u64Map (rs : ResSet UInt64) :
    asU64Set (some (V.ofMap (rs.map fun e => (V.ofUint e.1.toNat, V.ofUint e.2.toNat))))
      = Except.ok (ofEntriesU64 rs) := by
  simp only [V.ofMap, asU64Set, VL.toList_ofList, mapPairs_flatMap]
  rw [List.mapM_map, mapM_ok _ id rs]
  · simp
  · intro e _
    have h1 := e.2.toNat_lt
    have h2 := e.1.toNat_lt
    simp [asUint_ofUint 16 e.2.toNat (by decide) (by simpa using h1),
      asUint_ofUint 64 e.1.toNat (by decide) (by simpa using h2)]

theorem asStrSet_inv (ov : Option V) (rs : ResSet Bytes) (hw : OWF ov)
    (h : asStrSet ov = Except.ok rs) : strSetOk rs = true := by
  unfold asStrSet at h
  split at h <;> simp only [pure_eq, fail_eq, Except.ok.injEq, reduceCtorEq] at h
  · subst h; decide
  · subst h; decide
  · rename_i f kvs
    obtain ⟨es, hes, h⟩ := bind_eq_ok.mp h
    simp only [Except.ok.injEq] at h
    subst h
    have hwf := hw _ rfl
    simp only [WF, Bool.and_eq_true, beq_iff_eq] at hwf
    obtain ⟨hl, hm⟩ := mapM_inv _ _ _ hes
    have hlen : es.length < 2 ^ 32 := by
      rw [hl, length_mapPairs, length_toList]; exact cntFits_lt _ _ hwf.1.2
    simp only [strSetOk, Bool.and_eq_true, decide_eq_true_eq, List.all_eq_true]
    refine ⟨⟨ofEntriesStr_idem es, Nat.lt_of_le_of_lt (length_ofEntriesStr es) hlen⟩, ?_⟩
    intro e he
    obtain ⟨kv, hkv, hf⟩ := hm e (mem_ofEntriesStr es e he)
    obtain ⟨k, hk, hf⟩ := bind_eq_ok.mp hf
    obtain ⟨m, _, hf⟩ := bind_eq_ok.mp hf
    simp only [Except.ok.injEq] at hf
    subst hf
    exact asBytes_inv _ _ (owf_some (mem_toList_wf kvs _ hwf.2 (mapPairs_mem _ _ hkv).1)) hk

theorem asU64Set_inv (ov : Option V) (rs : ResSet UInt64) (hw : OWF ov)
    (h : asU64Set ov = Except.ok rs) : u64SetOk rs = true := by
  unfold asU64Set at h
  split at h <;> simp only [pure_eq, fail_eq, Except.ok.injEq, reduceCtorEq] at h
  · subst h; decide
  · subst h; decide
  · rename_i f kvs
    obtain ⟨es, hes, h⟩ := bind_eq_ok.mp h
    simp only [Except.ok.injEq] at h
    subst h
    have hwf := hw _ rfl
    simp only [WF, Bool.and_eq_true, beq_iff_eq] at hwf
    obtain ⟨hl, _⟩ := mapM_inv _ _ _ hes
    have hlen : es.length < 2 ^ 32 := by
      rw [hl, length_mapPairs, length_toList]; exact cntFits_lt _ _ hwf.1.2
    simp only [u64SetOk, Bool.and_eq_true, decide_eq_true_eq]
    exact ⟨ofEntriesU64_idem es, Nat.lt_of_le_of_lt (length_ofEntriesU64 es) hlen⟩

end Dec
end Macaroon
