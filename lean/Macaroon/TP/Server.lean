/-
Third-party discharge service (`/repo/tp/server.go`, `/repo/tp/store.go`) as a state machine.

Abstraction (cryptography and msgpack are NOT modelled here, they belong to C04/C05):
* a ticket is `good id` (the service key opens it: `macaroon.DischargeTicket` succeeds) or
  `bad id` (it does not: bit-flipped, sealed under a foreign key, garbage, unparsable request);
* a discharge is `(ticket id, caveats)`: `newMacaroon(ticket, …)` makes the ticket the key id of
  the discharge; `caveats` are abstract ids of what the application passed, after `Macaroon.Add`'s
  de-duplication (`dedup`, first occurrences kept); id 0 stands for a caveat `Macaroon.Add` refuses
  (`refuses`): `Discharge*` then returns the error and stores nothing, `RespondDischarge` answers 500;
* secrets are fresh atoms: naturals drawn from the counter `Store.next` (`randHex(16)` idealised:
  fresh and unguessable); the store key of a secret is `⟨role, s⟩` — the Go code uses
  `"u"+blake2b(s)` and `"p"+blake2b(s)`; the hash is idealised as injective and the two one-letter
  prefixes keep the namespaces apart;
* `MemoryStore.Insert` files ONE `*lockedStoreData` under both keys: `Store.heap` holds the
  records, `Store.keys` maps a key to the address of its record, so an update through one key is
  seen through the other;
* several services (`tp.TP` values with their own `Key`/`Location`) may share ONE store: every
  request carries the service `v` it is addressed to; a ticket atom `id` is sealed under the key of
  service `sealer id`; `opens v t` is `DischargeTicket` with `v`'s key.  The poll and user handlers
  and `Discharge*` re-open the STORED ticket with the addressed service's key before anything else
  is answered (`newFDOrError` / `newFD`); `Abort*` does not;
* LRU eviction: any key may disappear at any time (`evict`); the LRU's recency order is not
  modelled (the correspondence feeds the evictions it observes).

Two semantics over the same store operations:
* `step`  — one whole handler per step (sequential histories);
* `micro`/`Sys.step` — a handler is a small program over store operations (`Get`, `Insert`,
  `Update`, and `Delete` split into its `Cache.Get` and its two `Cache.Remove`s); a schedule spawns
  handlers and picks which pending one performs its next store operation.
-/

namespace Macaroon.TP

/-- secrets are atoms, named by naturals -/
scoped notation "Secret" => Nat

inductive Role
  | poll
  | user
  deriving DecidableEq, Repr, Inhabited

/-- namespaced hashed secret: `pollSecretKey s` / `userSecretKey s` of store.go -/
structure Key where
  role : Role
  secret : Secret
  deriving DecidableEq, Repr, Inhabited

abbrev pollKey (s : Secret) : Key := ⟨.poll, s⟩
abbrev userKey (s : Secret) : Key := ⟨.user, s⟩

inductive Ticket
  | good (id : Nat)
  | bad (id : Nat)
  deriving DecidableEq, Repr, Inhabited

/-- Several discharge services (`tp.TP` values with their own `Key` and `Location`) may share one
`Store`.  Services are named by naturals; ticket atoms are partitioned by the service whose key
seals them: the atom `id` is sealed under the key of service `sealer id` (services 0 and 1; a
ticket no service of the deployment opens is `bad`). -/
def sealer (id : Nat) : Nat := id % 2

/-- `macaroon.DischargeTicket(tp.Key, tp.Location, t)` at service `v`: the ticket atom if `v`'s key opens it -/
def opens (v : Nat) : Ticket → Option Nat
  | .good id => if sealer id = v then some id else none
  | .bad _ => none

structure Discharge where
  ticket : Nat
  caveats : List Nat
  deriving DecidableEq, Repr, Inhabited

/-- `Macaroon.dedup`: later duplicates of a caveat are dropped -/
def dedup : List Nat → List Nat
  | [] => []
  | c :: cs => c :: (dedup cs).filter (fun x => x != c)

/-- caveat id 0 stands for "a caveat `Macaroon.Add` refuses" (an attestation inside a wrapper
caveat, a second `Caveat3P` for one location, an unencodable caveat); every other id is an
ordinary caveat -/
def refused (c : Nat) : Bool := c == 0

/-- `Macaroon.Add(cs...)` returns an error: some caveat of the list is refused.  `Add` appends
caveat by caveat, so the macaroon it leaves behind carries a strict prefix of the list — the
callers in server.go discard it -/
def refuses (cs : List Nat) : Bool := cs.any refused

/-- `DischargeTicket` on an opening ticket followed by a successful `Add(caveats...)` -/
def mkDischarge (tid : Nat) (cs : List Nat) : Discharge := ⟨tid, dedup cs⟩

/-- kinds of response bodies; message text is abstracted to ids -/
inductive Body
  | discharge (d : Discharge)          -- {"discharge": tok}
  | pollUrl (ps us : Secret)           -- {"poll_url": …/poll/ps}; `us` is drawn by Insert but dropped by RespondPoll (kept here so that statements can name it)
  | userUrls (ps us : Secret)          -- {"user_interactive": {poll_url, user_url}}
  | error (msg : Nat)                  -- {"error": m} chosen by the application (RespondError, Abort*)
  | notFound                           -- {"error": "not found"}
  | notReady                           -- {"error": "not ready"}
  | internal                           -- {"error": "internal server error"}
  | none                               -- the application wrote nothing
  | page                               -- whatever the application's user page is
  deriving DecidableEq, Repr, Inhabited

/-- `StoreData.ResponseStatus/ResponseBody` once a decision was stored -/
structure Resp where
  status : Nat
  body : Body
  deriving DecidableEq, Repr, Inhabited

/-- `StoreData` -/
structure Data where
  ticket : Ticket
  resp : Option Resp
  deriving DecidableEq, Repr, Inhabited

/-- `lockedStoreData` -/
structure Rec where
  data : Data
  userKey : Key
  pollKey : Key
  deriving DecidableEq, Repr, Inhabited

structure Store where
  keys : List (Key × Nat) := []      -- the LRU: key ↦ address of the shared record
  heap : List Rec := []              -- records, address = index (never reclaimed: unobservable)
  next : Secret := 0                 -- source of fresh secrets
  deriving Repr, Inhabited

namespace Store

def empty : Store := {}

/-- `Cache.Get(key)`: the record pointer -/
def addr (st : Store) (k : Key) : Option Nat := st.keys.lookup k

/-- `GetBy{Poll,User}Secret`: a COPY of the record's data -/
def get (st : Store) (k : Key) : Option Data :=
  match st.addr k with
  | some a => (st.heap[a]?).map (·.data)
  | none => none

/-- `Insert`: two fresh secrets, one record, two keys -/
def insert (st : Store) (d : Data) : Store × Secret × Secret :=
  let us := st.next
  let ps := st.next + 1
  let a := st.heap.length
  ({ keys := (pollKey ps, a) :: (userKey us, a) :: st.keys,
     heap := st.heap ++ [⟨d, userKey us, pollKey ps⟩],
     next := st.next + 2 }, us, ps)

/-- `UpdateBy{Poll,User}Secret`: overwrite the whole data of the record the key points to -/
def update (st : Store) (k : Key) (d : Data) : Option Store :=
  match st.addr k with
  | some a => some { st with heap := st.heap.modify a (fun r => { r with data := d }) }
  | none => none

/-- second half of `DeleteBy*Secret`: `Cache.Remove(lsd.pollSecretKey); Cache.Remove(lsd.userSecretKey)` -/
def remove (st : Store) (a : Nat) : Store :=
  match st.heap[a]? with
  | some r => { st with keys := st.keys.filter (fun e => e.1 != r.pollKey && e.1 != r.userKey) }
  | none => st

/-- `DeleteBy*Secret` when nothing interleaves -/
def delete (st : Store) (k : Key) : Option Store := (st.addr k).map st.remove

/-- LRU eviction of one key -/
def evict (st : Store) (k : Key) : Store := { st with keys := st.keys.filter (fun e => e.1 != k) }

end Store

/-- what the application's init handler does -/
inductive Mode
  | immediate (cs : List Nat)          -- RespondDischarge(w, r, cs...)
  | poll                               -- RespondPoll
  | userInteractive                    -- RespondUserInteractive
  | refuse (status msg : Nat)          -- RespondError(w, r, status, msg)
  | noResponse                         -- returns without responding
  deriving DecidableEq, Repr, Inhabited

/-- what the application decides later -/
inductive Decision
  | approve (cs : List Nat)            -- DischargePoll / DischargeUserInteractive
  | abort (msg : Nat)                  -- AbortPoll / AbortUserInteractive
  deriving DecidableEq, Repr, Inhabited

inductive Action
  | init (v : Nat) (t : Ticket) (m : Mode)   -- POST InitPath through service v's InitRequestMiddleware
  | poll (v : Nat) (s : Secret)        -- GET PollPathPrefix/s: service v's HandlePollRequest
  | userVisit (v : Nat) (s : Secret)   -- GET /user/s through service v's UserRequestMiddleware
  | decide (v : Nat) (r : Role) (s : Secret) (d : Decision)   -- service v's Discharge*/Abort*
  | evict (k : Key)                    -- environment: the LRU drops a key
  deriving DecidableEq, Repr, Inhabited

abbrev Action.approvePoll (v : Nat) (s : Secret) (cs : List Nat) : Action := .decide v .poll s (.approve cs)
abbrev Action.approveUser (v : Nat) (s : Secret) (cs : List Nat) : Action := .decide v .user s (.approve cs)
abbrev Action.abortPoll (v : Nat) (s : Secret) (msg : Nat) : Action := .decide v .poll s (.abort msg)
abbrev Action.abortUser (v : Nat) (s : Secret) (msg : Nat) : Action := .decide v .user s (.abort msg)

inductive Out
  | http (status : Nat) (body : Body) (app : Bool)   -- app: an application handler ran
  | api (ok : Bool)                                  -- error result of Discharge*/Abort*
  | silent                                           -- eviction
  deriving DecidableEq, Repr, Inhabited

def Out.discharge? : Out → Option Discharge
  | .http _ (.discharge d) _ => some d
  | _ => none

def Out.appInvoked : Out → Bool
  | .http _ _ app => app
  | _ => false

/-- the key an action presents to the store -/
def Action.key? : Action → Option Key
  | .poll _ s => some (pollKey s)
  | .userVisit _ s => some (userKey s)
  | .decide _ r s _ => some ⟨r, s⟩
  | _ => none

/-- the service a request is addressed to -/
def Action.svc? : Action → Option Nat
  | .init v _ _ => some v
  | .poll v _ => some v
  | .userVisit v _ => some v
  | .decide v _ _ _ => some v
  | .evict _ => none

def outNotFound : Out := .http 404 .notFound false
def outInternal : Out := .http 500 .internal false
def outNotReady : Out := .http 202 .notReady false

/-- what a handler answers when the store does not know the presented key -/
def Action.notFoundOut : Action → Out
  | .decide _ _ _ _ => .api false
  | _ => outNotFound

/-- the poll handler writes the stored status and body -/
def deliver (r : Resp) : Out := .http r.status r.body false

/-- `dischargePoller` / `abortPoller` between their `Get` and their `Update`: the new data built
from the COPY `sd`; `none` = `newFD` fails on the stored ticket, or `Add` refuses the caveats -/
def decideData (v : Nat) (sd : Data) : Decision → Option Data
  | .approve cs =>
    match opens v sd.ticket with                      -- dischargePoller: newFD with THIS service's key
    | some tid =>
      if refuses cs then none                         -- `fd.discharge.Add(caveats...)` fails: return err
      else some { sd with resp := some ⟨200, .discharge (mkDischarge tid cs)⟩ }
    | none => none
  | .abort msg => some { sd with resp := some ⟨200, .error msg⟩ }   -- abortPoller never opens the ticket

/-- the application's init handler on an opened ticket -/
def initGood (st : Store) (t : Ticket) (tid : Nat) : Mode → Store × Out
  | .immediate cs =>
    if refuses cs then (st, .http 500 .internal true)   -- respondDischarge: Add fails, 500, no discharge
    else (st, .http 201 (.discharge (mkDischarge tid cs)) true)
  | .poll =>
    let (st', us, ps) := st.insert ⟨t, none⟩
    (st', .http 201 (.pollUrl ps us) true)
  | .userInteractive =>
    let (st', us, ps) := st.insert ⟨t, none⟩
    (st', .http 201 (.userUrls ps us) true)
  | .refuse status msg => (st, .http status (.error msg) true)
  | .noResponse => (st, .http 200 .none true)

/-! ### handler-level semantics: one whole handler per step -/

def step (st : Store) : Action → Store × Out
  | .init v t m =>
    match opens v t with
    | none => (st, outInternal)                         -- newFDOrError: before the application runs
    | some tid => initGood st t tid m
  | .poll v s =>
    match st.get (pollKey s) with
    | none => (st, outNotFound)
    | some sd =>
      match opens v sd.ticket with                      -- newFDOrError on the STORED ticket, before anything is answered
      | none => (st, outInternal)
      | some _ =>
        match sd.resp with
        | none => (st, outNotReady)
        | some r =>
          match st.delete (pollKey s) with
          | none => (st, outInternal)
          | some st' => (st', deliver r)
  | .userVisit v s =>
    match st.get (userKey s) with
    | none => (st, outNotFound)
    | some sd =>
      match opens v sd.ticket with
      | none => (st, outInternal)
      | some _ => (st, .http 200 .page true)
  | .decide v r s d =>
    match st.get ⟨r, s⟩ with
    | none => (st, .api false)
    | some sd =>
      match decideData v sd d with
      | none => (st, .api false)
      | some nd =>
        match st.update ⟨r, s⟩ nd with
        | none => (st, .api false)
        | some st' => (st', .api true)
  | .evict k => (st.evict k, .silent)

/-- history, newest first: every action with what it answered -/
abbrev Hist := List (Action × Out)

def stepH (c : Store × Hist) (a : Action) : Store × Hist :=
  ((step c.1 a).1, (a, (step c.1 a).2) :: c.2)

/-- run a whole history from the empty store -/
def exec (as : List Action) : Store × Hist := as.foldl stepH (Store.empty, [])

/-- outputs in chronological order -/
def outputs (as : List Action) : List Out := (exec as).2.reverse.map (·.2)

/-! ### store-operation semantics: handlers as programs, interleaved by a schedule -/

/-- program counter + local variables of a handler -/
inductive PC
  | start
  | pollDelete (s : Secret) (r : Resp)             -- HandlePollRequest: response copied by Get, about to call DeleteByPollSecret
  | pollRemove (s : Secret) (a : Nat) (r : Resp)   -- inside DeleteByPollSecret: record found, about to Remove its two keys
  | update (k : Key) (d : Data)                    -- dischargePoller/abortPoller: about to call UpdateBy*Secret(k, d)
  | done (o : Out)
  deriving DecidableEq, Repr, Inhabited

/-- store operations as the store sees them (what a wrapping `tp.Store` can log) -/
inductive OpEv
  | inserted (t : Ticket) (us ps : Secret)
  | got (k : Key) (res : Option Data)
  | updated (k : Key) (d : Data) (ok : Bool)
  | delLooked (k : Key) (found : Bool)
  | removed (a : Nat)
  deriving DecidableEq, Repr, Inhabited

/-- one store operation of a handler, with the local computation that follows it -/
def micro (st : Store) (act : Action) : PC → Store × PC × List OpEv
  | .start =>
    match act with
    | .init v t m =>
      match opens v t with
      | none => (st, .done outInternal, [])
      | some tid =>
        match m with
        | .poll =>
          let (st', us, ps) := st.insert ⟨t, none⟩
          (st', .done (.http 201 (.pollUrl ps us) true), [.inserted t us ps])
        | .userInteractive =>
          let (st', us, ps) := st.insert ⟨t, none⟩
          (st', .done (.http 201 (.userUrls ps us) true), [.inserted t us ps])
        | m => (st, .done (initGood st t tid m).2, [])
    | .poll v s =>
      let res := st.get (pollKey s)
      match res with
      | none => (st, .done outNotFound, [.got (pollKey s) res])
      | some sd =>
        match opens v sd.ticket with
        | none => (st, .done outInternal, [.got (pollKey s) res])
        | some _ =>
          match sd.resp with
          | none => (st, .done outNotReady, [.got (pollKey s) res])
          | some r => (st, .pollDelete s r, [.got (pollKey s) res])
    | .userVisit v s =>
      let res := st.get (userKey s)
      match res with
      | none => (st, .done outNotFound, [.got (userKey s) res])
      | some sd =>
        match opens v sd.ticket with
        | none => (st, .done outInternal, [.got (userKey s) res])
        | some _ => (st, .done (.http 200 .page true), [.got (userKey s) res])
    | .decide v r s d =>
      let res := st.get ⟨r, s⟩
      match res with
      | none => (st, .done (.api false), [.got ⟨r, s⟩ res])
      | some sd =>
        match decideData v sd d with
        | none => (st, .done (.api false), [.got ⟨r, s⟩ res])
        | some nd => (st, .update ⟨r, s⟩ nd, [.got ⟨r, s⟩ res])
    | .evict _ => (st, .done .silent, [])
  | .pollDelete s r =>
    match st.addr (pollKey s) with
    | none => (st, .done outInternal, [.delLooked (pollKey s) false])
    | some a => (st, .pollRemove s a r, [.delLooked (pollKey s) true])
  | .pollRemove _ a r => (st.remove a, .done (deliver r), [.removed a])
  | .update k d =>
    match st.update k d with
    | none => (st, .done (.api false), [.updated k d false])
    | some st' => (st', .done (.api true), [.updated k d true])
  | .done o => (st, .done o, [])

structure Thread where
  act : Action
  pc : PC
  deriving DecidableEq, Repr, Inhabited

structure Sys where
  store : Store := {}
  threads : List Thread := []
  deriving Repr, Inhabited

inductive Sched
  | spawn (a : Action)      -- a handler is invoked (goroutine created); it has not touched the store yet
  | step (i : Nat)          -- handler i performs its next store operation (or returns if it has none)
  | evict (k : Key)         -- the LRU drops a key
  deriving DecidableEq, Repr, Inhabited

inductive Ev
  | spawned (i : Nat) (a : Action)
  | op (i : Nat) (a : Action) (e : OpEv)
  | returned (i : Nat) (a : Action) (o : Out)
  | evicted (k : Key)
  deriving DecidableEq, Repr, Inhabited

/-- trace, newest first -/
abbrev Trace := List Ev

def retEvs (i : Nat) (a : Action) : PC → List Ev
  | .done o => [.returned i a o]
  | _ => []

/-- one scheduling decision; the events it causes are consed (newest first) onto the trace -/
def Sys.step (c : Sys × Trace) : Sched → Sys × Trace
  | .spawn a => ({ c.1 with threads := c.1.threads ++ [⟨a, .start⟩] }, .spawned c.1.threads.length a :: c.2)
  | .evict k => ({ c.1 with store := c.1.store.evict k }, .evicted k :: c.2)
  | .step i =>
    match c.1.threads[i]? with
    | none => c
    | some th =>
      match th.pc with
      | .done _ => c
      | pc =>
        let r := micro c.1.store th.act pc
        ({ store := r.1, threads := c.1.threads.set i ⟨th.act, r.2.1⟩ },
          retEvs i th.act r.2.1 ++ (r.2.2.map (Ev.op i th.act)).reverse ++ c.2)

def Sys.run (sched : List Sched) : Sys × Trace := sched.foldl Sys.step ({}, [])

/-- a handler run to completion without interleaving: spawn, then its (at most three) steps -/
def seqSched (n : Nat) : List Action → List Sched
  | [] => []
  | .evict k :: as => .evict k :: seqSched n as
  | a :: as => [.spawn a, .step n, .step n, .step n] ++ seqSched (n + 1) as

/-! ### the observation about racing polls (not part of the property) -/

/-- two polls on the same secret after an approval: both `Get`, both pass the `Cache.Get` of
`DeleteByPollSecret`, both `Remove`, both deliver -/
def racingPolls : List Sched :=
  [.spawn (.init 1 (.good 7) .poll), .step 0,
   .spawn (.approvePoll 1 1 [3]), .step 1, .step 1,
   .spawn (.poll 1 1), .spawn (.poll 1 1),
   .step 2, .step 3, .step 2, .step 3, .step 2, .step 3]

end Macaroon.TP
