/-
The discharge client of `/repo/tp/client.go`: options, credential routing, and the fetch
procedure at the level of "which requests are issued to which URLs with which
Authorization header, in which dependency order".

* `Opt`, `step`, `applyOptions` follow the option closures `WithHTTP`, `WithAuthentication`
  (whose outer function computes the map key, `withAuthentication`), `WithIgnoredThirdParties`,
  `WithUserURLCallback` and `NewClient` branch by branch.
* `attach` is `(*authenticatedHTTP).RoundTrip`'s decision `cred := a.auth[r.URL.Hostname()]; cred != ""`.
* `run` is one discharge flow (`fetchDischargeToken`: `doInitRequest`, then immediate /
  `doPoll` / `doUserInteractive`) against a scripted third party: the `n`-th request of the
  flow is answered by the `n`-th scripted response (a flow is sequential and deterministic,
  so this is the general adversarial third party); a request after the script ran out fails
  in the transport.
* `fetch` is `FetchDischargeTokens` after header parsing: tickets minus ignored locations,
  one flow per ticket, results appended.

Modelled assumptions about `net/http` (go1.23.5 `Client.do`, `send`, `makeHeadersCopier`):
every redirect hop is a fresh `RoundTrip` on the hop's own URL; its header is built from the
snapshot of the caller's request header taken at the start of `Do` (sensitive headers only
while every hop so far stayed on the first host or a sub-domain of it); at most 10 requests
per `Do`; a URL with userinfo and no Authorization yet gets `Basic` from `send`, on a forked
request.  The library itself never puts an Authorization header on a request.

`mu` — does a header written by `RoundTrip` persist in the caller's `*http.Request`?  In the
code as it stands `RoundTrip` calls `r.Header.Set` on the request it was handed (`mu = true`):
`doPoll` re-uses one request object for every iteration, so from the second iteration on the
credential attached in the first one is part of "the caller's original headers" and
`net/http` copies it to redirect hops on sub-domains.  The property demands `mu = false`
(`roundTripMutates`), which is what the theorems are about; `Props/C20.lean` keeps the
`mu = true` run as the negative witness.

Core Lean only.
-/
import Macaroon.TP.Url

namespace Macaroon.TPClient

abbrev Cred := Str

/-! ### options -/

/-- a caller-supplied `*http.Client`: its identity (Jar, Timeout, CheckRedirect travel with
it) and its `Transport` field (`none` = nil, i.e. `http.DefaultTransport`) -/
structure HttpClient where
  id : Nat
  transport : Option Nat
  deriving DecidableEq, Repr

/-- an `http.RoundTripper` value held by the client -/
inductive RT
  | nil                 -- nil interface: `http.DefaultTransport` is used
  | user (t : Nat)      -- supplied by the caller
  | cleanhttp           -- the transport of `cleanhttp.DefaultClient()`
  deriving DecidableEq, Repr

def RT.ofField : Option Nat → RT
  | none => .nil
  | some t => .user t

/-- whose non-transport fields `c.http` carries -/
inductive Fields
  | cleanhttp
  | user (id : Nat)
  deriving DecidableEq, Repr

/-- a `ClientOption` closure -/
inductive Opt
  | withHTTP (h : HttpClient)
  | withAuth (key : Str) (cred : Cred)     -- closure of `WithAuthentication`: key already computed
  | withIgnored (locs : List Str)
  | withCallback (succeeds : Bool)         -- `WithUserURLCallback`; what the callback will return
  | other                                  -- `WithPollingBackoff`
  deriving DecidableEq, Repr

/-- outer part of `WithAuthentication(loc, cred)` / `WithBearerAuthentication` (the caller
prepends `Bearer `): the key is computed before the closure exists -/
def withAuthentication (loc : Str) (cred : Cred) : Option Opt :=
  (hostOf loc).map fun k => .withAuth k cred

structure Cfg where
  fields : Option Fields := none            -- `none` ↔ `c.http == nil`
  auth : Option (List (Str × Cred)) := none -- `some m` ↔ `c.http.Transport` is an `*authenticatedHTTP` with map `m` (newest binding first)
  inner : RT := .nil                        -- `authenticatedHTTP.t` if there is one, else `c.http.Transport`
  ignored : List Str := []
  callback : Option Bool := none
  deriving DecidableEq, Repr

def step (c : Cfg) : Opt → Cfg
  | .withHTTP h =>
    match c.fields with
    | none => { c with fields := some (.user h.id), inner := .ofField h.transport, auth := none }     -- c.http = h
    | some _ =>
      match c.auth with
      | some m =>   -- authed.t = h.Transport; cpy := *h; cpy.Transport = authed; c.http = &cpy
        { c with fields := some (.user h.id), inner := .ofField h.transport, auth := some m }
      | none => { c with fields := some (.user h.id), inner := .ofField h.transport, auth := none }   -- c.http = h
  | .withAuth k cred =>
    let c := match c.fields with
      | none => { c with fields := some .cleanhttp, inner := .cleanhttp, auth := none }   -- cleanhttp.DefaultClient()
      | some _ => c
    match c.auth with
    | some m => { c with auth := some ((k, cred) :: m) }       -- t.auth[k] = cred
    | none => { c with auth := some [(k, cred)] }              -- copy of c.http with a new wrapper around its transport
  | .withIgnored locs => { c with ignored := c.ignored ++ locs }
  | .withCallback ok => { c with callback := some ok }
  | .other => c

/-- end of `NewClient` -/
def finalize (c : Cfg) : Cfg :=
  match c.fields with
  | none => { c with fields := some .cleanhttp, inner := .cleanhttp, auth := none }
  | some _ => c

def applyOptions (opts : List Opt) : Cfg := finalize (opts.foldl step {})

/-! ### the transport -/

/-- Go map read `m[k]` on a string-valued map: the newest binding, `""` when there is none -/
def lookup (k : Str) : List (Str × Cred) → Cred
  | [] => []
  | (k', v) :: m => if k' = k then v else lookup k m

/-- `cred := a.auth[host]; cred != ""` -/
def attachHost (c : Cfg) (host : Str) : Option Cred :=
  match c.auth with
  | none => none
  | some m => let v := lookup host m; if v = [] then none else some v

/-- the Authorization value `RoundTrip` sets on a request to `u`, if any -/
def attach (c : Cfg) (u : Url) : Option Cred := attachHost c u.host

/-- the round tripper that finally carries the request -/
def innerUsed (c : Cfg) : RT := c.inner

/-! ### the protocol -/

/-- `jsonResponse` -/
structure Body where
  error : Str := []
  discharge : Str := []
  pollUrl : Str := []
  ui : Option (Str × Str) := none      -- (poll_url, user_url)
  deriving DecidableEq, Repr

inductive Resp
  | fail                      -- transport error, or a body that is not a JSON object
  | redirect (loc : Str)      -- 307 with this Location
  | accepted                  -- 202, empty body
  | json (b : Body)           -- any other status, JSON object body
  deriving DecidableEq, Repr

inductive Kind
  | init | poll
  deriving DecidableEq, Repr

structure Sent where
  kind : Kind                 -- which `Do` the request belongs to
  hop : Nat                   -- 0 = the request the library built, n = n-th redirect hop
  url : Url
  auth : Option Cred          -- Authorization as sent, when it is not `basic`
  basic : Bool                -- fidelity: `Basic` derived by `net/http` from the URL's own userinfo
  deriving DecidableEq, Repr

inductive Outcome
  | discharge (d : Str)
  | failed
  | unmodelled
  deriving DecidableEq, Repr

/-- `isDomainOrSubdomain(sub, parent)` of `net/http` (ASCII host names) -/
def isDomainOrSubdomain (sub parent : Str) : Bool :=
  sub == parent ||
    (!(sub.contains ':' || sub.contains '%') &&
      (match (sub.reverse.drop parent.length) with
       | '.' :: _ => parent.reverse.isPrefixOf sub.reverse
       | _ => false))

/-- state of one `http.Client.Do` inside a flow -/
structure St where
  kind : Kind
  pollUrl : Option Url := none   -- the URL `doPoll` re-requests
  u : Url                        -- URL of the request about to be sent
  hop : Nat := 0
  first : Url                    -- first URL of this `Do`
  snap : Option Cred := none     -- Authorization in the caller's header when this `Do` began
  strip : Bool := false          -- `stripSensitiveHeaders`
  hdr : Option Cred := none      -- Authorization in the caller's own request object
  deriving Repr

/-- header of the request about to be sent, and what is left in the caller's request object -/
def send (mu : Bool) (cfg : Cfg) (st : St) : Sent × Option Cred :=
  let base := if st.hop = 0 then st.hdr else if st.strip then none else st.snap
  let forked := st.u.hasUser && base.isNone
  let a := attach cfg st.u
  let sent : Sent := ⟨st.kind, st.hop, st.u, a <|> base, forked && a.isNone⟩
  let hdr' := if mu && st.hop = 0 && !forked then a <|> st.hdr else st.hdr
  (sent, hdr')

def startDo (kind : Kind) (pollUrl : Option Url) (u : Url) (hdr : Option Cred) : St :=
  { kind := kind, pollUrl := pollUrl, u := u, hop := 0, first := u, snap := hdr, strip := false, hdr := hdr }

/-- what `fetchDischargeToken` does with the decoded init response -/
inductive Next
  | done (o : Outcome)
  | poll (url : Str)

def afterInit (cfg : Cfg) (b : Body) : Next :=
  if b.error ≠ [] then .done .failed
  else if b.discharge ≠ [] then .done (.discharge b.discharge)
  else if b.pollUrl ≠ [] then .poll b.pollUrl
  else
    match b.ui with
    | none => .done .failed
    | some (p, userUrl) =>
      if p = [] || userUrl = [] then .done .failed
      else
        match cfg.callback with
        | some true => .poll p          -- the user URL goes to the callback, not to the HTTP client
        | _ => .done .failed

def afterPoll (b : Body) : Outcome :=
  if b.error ≠ [] then .failed
  else if b.discharge = [] then .failed
  else .discharge b.discharge

/-- one flow from a `Do` state on; recursion on the script: every request consumes a response -/
def run (mu : Bool) (cfg : Cfg) : St → List Resp → List Sent × Outcome
  | st, [] => ([(send mu cfg st).1], .failed)
  | st, r :: rs =>
    let s := (send mu cfg st).1
    let hdr' := (send mu cfg st).2
    match r with
    | .fail => ([s], .failed)
    | .redirect loc =>
      if st.hop + 1 ≥ 10 then ([s], .failed)            -- "stopped after 10 redirects"
      else
        match Url.parse loc with
        | .err => ([s], .failed)
        | .unmodelled => ([s], .unmodelled)
        | .ok u' =>
          if !u'.abs then ([s], .unmodelled)            -- relative Location: outside the model
          else
            let strip' := st.strip || !isDomainOrSubdomain u'.host st.first.host
            let r := run mu cfg { st with u := u', hop := st.hop + 1, strip := strip', hdr := hdr' } rs
            (s :: r.1, r.2)
    | .accepted =>
      match st.kind, st.pollUrl with
      | .poll, some p =>
        let r := run mu cfg (startDo .poll (some p) p hdr') rs
        (s :: r.1, r.2)
      | _, _ => ([s], .failed)                          -- init: empty body does not decode
    | .json b =>
      match st.kind with
      | .poll => ([s], afterPoll b)
      | .init =>
        match afterInit cfg b with
        | .done o => ([s], o)
        | .poll p =>
          match Url.parse p with
          | .err => ([s], .failed)
          | .unmodelled => ([s], .unmodelled)
          | .ok pu =>
            let r := run mu cfg (startDo .poll (some pu) pu none) rs    -- a new request object
            (s :: r.1, r.2)

/-- `InitPath` = "/.well-known/macfly/3p" (spelled out so that the kernel can compute with it) -/
def initPath : Str :=
  ['/', '.', 'w', 'e', 'l', 'l', '-', 'k', 'n', 'o', 'w', 'n', '/', 'm', 'a', 'c', 'f', 'l', 'y', '/', '3', 'p']

/-- `initURL` -/
def initURL (loc : Str) : Str :=
  if loc.getLast? = some '/' then loc ++ initPath.drop 1 else loc ++ initPath

/-- `fetchDischargeToken` for a ticket of third party `loc` -/
def flow (mu : Bool) (cfg : Cfg) (loc : Str) (script : List Resp) : List Sent × Outcome :=
  match Url.parse (initURL loc) with
  | .err => ([], .failed)
  | .unmodelled => ([], .unmodelled)
  | .ok u => run mu cfg (startDo .init none u none) script

/-- The setting the driver runs `fetch` with.  `false` is what C20 demands and what its theorems
are about (a `RoundTrip` that does not write to the request it was handed).  The code as found
behaves as `true` (`r.Header.Set` in place): with `true` the driver reproduces the unrepaired
tree line for line, with `false` it differs from it exactly on the runs where a credential
reaches a redirect hop it was not configured for. -/
def roundTripMutates : Bool := false

/-! ### `FetchDischargeTokens` -/

/-- `undischargedTickets`: the bundle's map location → tickets, minus `delete(tickets, ignored)` -/
def undischargedTickets (cfg : Cfg) (tickets : List (Str × List Nat)) : List (Str × List Nat) :=
  tickets.filter fun lt => !cfg.ignored.contains lt.1

/-- the (location, ticket) pairs a flow is started for -/
def flowsOf (ts : List (Str × List Nat)) : List (Str × Nat) :=
  ts.flatMap fun lt => lt.2.map fun t => (lt.1, t)

structure FlowResult where
  loc : Str
  ticket : Nat
  sent : List Sent
  outcome : Outcome
  deriving Repr

def intercalateStr (sep : Str) : List Str → Str
  | [] => []
  | [x] => x
  | x :: xs => x ++ sep ++ intercalateStr sep xs

/-- `Bundle.String()` -/
def tokensString (ts : List Str) : Str := intercalateStr [','] ts

/-- "FlyV1 " -/
def flyV1Prefix : Str := ['F', 'l', 'y', 'V', '1', ' ']

/-- `Bundle.Header()` -/
def tokensHeader (ts : List Str) : Str :=
  if ts = [] then [] else flyV1Prefix ++ tokensString ts

structure FetchResult where
  flows : List FlowResult
  discharges : List Str            -- in the order of `flows`; the Go order is goroutine completion order
  header : Str
  failed : Bool                    -- `combinedErr != nil`
  deriving Repr

/-- `FetchDischargeTokens` from the parsed header on: `stripped` = the header carried a scheme,
`kept` = the tokens `ParseBundle`'s default filter keeps (in order), `tickets` = what
`UndischargedThirdPartyTickets` reports, `toks d` = the tokens `AddTokens(d)` appends
(`none` = it fails and appends nothing), `script loc t` = the third party's answers. -/
def fetch (mu : Bool) (cfg : Cfg) (stripped : Bool) (kept : List Str) (tickets : List (Str × List Nat))
    (toks : Str → Option (List Str)) (script : Str → Nat → List Resp) : FetchResult :=
  let fl := (flowsOf (undischargedTickets cfg tickets)).map fun lt =>
    let r := flow mu cfg lt.1 (script lt.1 lt.2)
    (⟨lt.1, lt.2, r.1, r.2⟩ : FlowResult)
  let added := fl.map fun f =>
    match f.outcome with
    | .discharge d => toks d
    | _ => none
  let ds := added.flatMap fun a => a.getD []
  let all := kept ++ ds
  { flows := fl
    discharges := ds
    header := if stripped then tokensHeader all else tokensString all
    failed := added.any Option.isNone }

end Macaroon.TPClient
