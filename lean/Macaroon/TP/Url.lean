/-
URL host extraction as done by Go's `net/url` (go1.23.5): `url.Parse(s)` followed by
`.Hostname()`, and the key `tp.WithAuthentication` stores a credential under.

The functions below transliterate `Parse`, `parse`, `getScheme`, `parseAuthority`,
`parseHost`, `validOptionalPort`, `validUserinfo`, `unescape` (its error cases only),
`splitHostPort` and `Hostname` over `List Char`.  Go strings are byte strings; a `Char`
below 0x80 stands for that single byte and a `Char` from 0x80 on for its UTF-8 bytes, all
of which are ≥ 0x80 — `net/url` looks at bytes only through comparisons with ASCII
delimiters and the test `< 0x80`, so on valid UTF-8 input the two views agree.

Outside the model (result `unmodelled`, never a guess): a `%` inside the host part of the
authority (percent-decoding of non-ASCII host bytes, RFC 6874 zone identifiers).  The
driver and the Go harness use the coarser syntactic test `pctInAuthorityZone` — and
"input is not valid UTF-8" — to skip (and count) such lines on both sides alike.

Core Lean only: this file is linked into the compiled driver.
-/
namespace Macaroon.TPClient

abbrev Str := List Char

/-! ### character classes -/

def isAlpha (c : Char) : Bool := ('a' ≤ c && c ≤ 'z') || ('A' ≤ c && c ≤ 'Z')
def isDigit (c : Char) : Bool := '0' ≤ c && c ≤ '9'
def isHexC (c : Char) : Bool := isDigit c || ('a' ≤ c && c ≤ 'f') || ('A' ≤ c && c ≤ 'F')

/-- `stringContainsCTLByte`: an ASCII control character -/
def isCTL (c : Char) : Bool := c.toNat < 0x20 || c.toNat == 0x7f

/-- the bytes `getScheme` lets through after the first letter -/
def isSchemeChar (c : Char) : Bool := isAlpha c || isDigit c || c == '+' || c == '-' || c == '.'

/-- `!shouldEscape(c, encodeHost)` for ASCII, anything for bytes ≥ 0x80 (`unescape` only
rejects `s[i] < 0x80 && shouldEscape(s[i], mode)` in host mode); `%` is handled apart -/
def hostCharOK (c : Char) : Bool :=
  c.toNat ≥ 0x80 || isAlpha c || isDigit c ||
  c == '!' || c == '$' || c == '&' || c == '\'' || c == '(' || c == ')' || c == '*' || c == '+' ||
  c == ',' || c == ';' || c == '=' || c == ':' || c == '[' || c == ']' || c == '<' || c == '>' ||
  c == '"' || c == '-' || c == '_' || c == '.' || c == '~'

/-- `validUserinfo` ranges over runes and lets exactly these through -/
def userinfoCharOK (c : Char) : Bool :=
  isAlpha c || isDigit c ||
  c == '-' || c == '.' || c == '_' || c == ':' || c == '~' || c == '!' || c == '$' || c == '&' ||
  c == '\'' || c == '(' || c == ')' || c == '*' || c == '+' || c == ',' || c == ';' || c == '=' ||
  c == '%' || c == '@'

/-! ### string helpers -/

/-- `strings.Cut(s, d)`: text before the first `d`, and the text after it if `d` occurs -/
def cut (d : Char) : Str → Str × Option Str
  | [] => ([], none)
  | c :: cs =>
    if c = d then ([], some cs)
    else
      let r := cut d cs
      (c :: r.1, r.2)

/-- `strings.LastIndex(s, d)`: text before and after the last `d` -/
def cutLast (d : Char) (s : Str) : Option (Str × Str) :=
  match cut d s.reverse with
  | (a, some b) => some (b.reverse, a.reverse)
  | (_, none) => none

/-- `unescape`'s well-formedness loop (all modes): every `%` is followed by two hex digits -/
def pctOK : Str → Bool
  | [] => true
  | c :: rest =>
    if c = '%' then
      match rest with
      | a :: b :: rest' => isHexC a && isHexC b && pctOK rest'
      | _ => false
    else pctOK rest

/-- `validOptionalPort`: empty, or `:` followed by digits only -/
def validOptionalPort : Str → Bool
  | [] => true
  | c :: cs => c == ':' && cs.all isDigit

/-! ### `getScheme` -/

/-- `none`: error "missing protocol scheme"; `some none`: no scheme, the whole input is the
rest; `some (some (scheme, rest))` -/
def schemeLoop : Bool → Str → Option (Option (Str × Str))
  | _, [] => some none
  | first, c :: cs =>
    if isAlpha c then
      (schemeLoop false cs).map fun r => r.map fun (s, rest) => (c :: s, rest)
    else if isDigit c || c == '+' || c == '-' || c == '.' then
      if first then some none
      else (schemeLoop false cs).map fun r => r.map fun (s, rest) => (c :: s, rest)
    else if c == ':' then
      if first then none else some (some ([], cs))
    else some none

/-! ### `parseAuthority`, `parseHost` -/

inductive HostPart
  | ok (host : Str)
  | err
  | unmodelled
  deriving DecidableEq, Repr

/-- the port checks of `parseHost`: after the last `]` of a bracketed host, or after the last `:` -/
def hostPortOK (h : Str) : Bool :=
  if h.head? = some '[' then
    match cutLast ']' h with
    | none => false                       -- missing ']' in host
    | some (_, after) => validOptionalPort after
  else
    match cutLast ':' h with
    | none => true
    | some (_, after) => validOptionalPort (':' :: after)

/-- `parseHost` on input without `%` -/
def parseHost (h : Str) : HostPart :=
  if h.contains '%' then .unmodelled
  else if !hostPortOK h then .err
  else if h.all hostCharOK then .ok h
  else .err

/-- userinfo part of `parseAuthority`: `validUserinfo`, then `unescape` of the name (and the
password when there is a `:`) -/
def userinfoOK (ui : Str) : Bool :=
  ui.all userinfoCharOK &&
    (match cut ':' ui with
     | (name, some pw) => pctOK name && pctOK pw
     | (name, none) => pctOK name)

structure Parsed where
  scheme : Str            -- before lower-casing (only emptiness is used)
  user : Option Str       -- raw userinfo when the authority has an `@`
  host : Str              -- `URL.Host` (host or host:port, brackets kept)
  deriving DecidableEq, Repr

inductive ParseRes
  | ok (p : Parsed)
  | err
  | unmodelled
  deriving DecidableEq, Repr

def parseAuthority (scheme a : Str) : ParseRes :=
  match cutLast '@' a with
  | none =>
    match parseHost a with
    | .ok h => .ok ⟨scheme, none, h⟩
    | .err => .err
    | .unmodelled => .unmodelled
  | some (ui, h) =>
    match parseHost h with
    | .ok h => if userinfoOK ui then .ok ⟨scheme, some ui, h⟩ else .err
    | .err => .err
    | .unmodelled => .unmodelled

/-! ### `parse` (viaRequest = false) and `Parse` -/

def startsWith2 (s : Str) : Bool := ['/', '/'].isPrefixOf s
def startsWith3 (s : Str) : Bool := ['/', '/', '/'].isPrefixOf s

/-- `parse(u, false)` for `u` = the input cut at the first `#` -/
def parseNoFrag (u : Str) : ParseRes :=
  if u.any isCTL then .err
  else if u = ['*'] then .ok ⟨[], none, []⟩
  else
    match schemeLoop true u with
    | none => .err
    | some sr =>
      let scheme := match sr with | some (s, _) => s | none => []
      let afterScheme := match sr with | some (_, r) => r | none => u
      -- both query branches leave `rest` = the text before the first `?`
      let rest := (cut '?' afterScheme).1
      let rootless := rest.head? != some '/'
      if rootless && scheme ≠ [] then .ok ⟨scheme, none, []⟩          -- opaque
      else if rootless && ((cut '/' rest).1.contains ':') then .err    -- colon in first segment
      else if (scheme ≠ [] || !startsWith3 rest) && startsWith2 rest then
        let auth := cut '/' (rest.drop 2)
        let path := match auth.2 with | some p => '/' :: p | none => []
        match parseAuthority scheme auth.1 with
        | .ok p => if pctOK path then .ok p else .err
        | r => r
      else if pctOK rest then .ok ⟨scheme, none, []⟩
      else .err

/-- `url.Parse` -/
def parse (s : Str) : ParseRes :=
  let c := cut '#' s
  match parseNoFrag c.1 with
  | .ok p =>
    match c.2 with
    | none => .ok p
    | some frag => if pctOK frag then .ok p else .err     -- `setFragment`; an empty fragment passes
  | r => r

/-! ### `Hostname` -/

/-- `splitHostPort(host).host`, brackets removed -/
def hostnameOfHost (host : Str) : Str :=
  let h :=
    match cutLast ':' host with
    | some (before, after) => if after.all isDigit then before else host
    | none => host
  if h.head? = some '[' && h.getLast? = some ']' then (h.drop 1).dropLast else h

inductive HostRes
  | host (h : Str)
  | err
  | unmodelled
  deriving DecidableEq, Repr

/-- `url.Parse(s)` then `.Hostname()` -/
def hostname (s : Str) : HostRes :=
  match parse s with
  | .ok p => .host (hostnameOfHost p.host)
  | .err => .err
  | .unmodelled => .unmodelled

/-- the key `WithAuthentication(loc, _)` stores under: `Hostname()` of an absolute URL that
parses, the raw string otherwise; `none` = outside the modelled shapes -/
def hostOf (loc : Str) : Option Str :=
  match parse loc with
  | .ok p => if p.scheme ≠ [] then some (hostnameOfHost p.host) else some loc
  | .err => some loc
  | .unmodelled => none

/-- coarse syntactic over-approximation of "`%` in the authority" shared with the Go harness:
a `%` before the first `?`/`#` and before the third `/` -/
def authorityZone (s : Str) : Str :=
  let rec go (slashes : Nat) : Str → Str
    | [] => []
    | c :: cs =>
      if c = '?' || c = '#' then []
      else if c = '/' then (if slashes ≥ 2 then [] else c :: go (slashes + 1) cs)
      else c :: go slashes cs
  go 0 s

def pctInAuthorityZone (s : Str) : Bool := (authorityZone s).contains '%'

/-! ### request URLs -/

/-- what the client and `net/http` look at in a request URL -/
structure Url where
  raw : Str
  host : Str          -- `URL.Hostname()`
  hasUser : Bool      -- `URL.User != nil`
  abs : Bool          -- `URL.IsAbs()`
  deriving DecidableEq, Repr

inductive UrlRes
  | ok (u : Url)
  | err               -- `http.NewRequest` / `URL.Parse` fails: no request is made
  | unmodelled
  deriving DecidableEq, Repr

def Url.parse (s : Str) : UrlRes :=
  match TPClient.parse s with
  | .ok p => .ok ⟨s, hostnameOfHost p.host, p.user.isSome, p.scheme ≠ []⟩
  | .err => .err
  | .unmodelled => .unmodelled

end Macaroon.TPClient
