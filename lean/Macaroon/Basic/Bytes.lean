/-
Byte strings of the model. Go `[]byte` and Go `string` are both arbitrary byte
sequences (a Go string need not be UTF-8), so both are `List UInt8` here.
Core Lean only: this file is imported by the compiled driver.
-/
namespace Macaroon

abbrev Bytes := List UInt8

namespace Bytes

def hexDigit (n : Nat) : Char :=
  if n < 10 then Char.ofNat (48 + n) else Char.ofNat (87 + n)

def toHex (bs : Bytes) : String :=
  String.ofList (bs.flatMap fun b => [hexDigit (b.toNat / 16), hexDigit (b.toNat % 16)])

def hexVal (c : Char) : Option Nat :=
  if '0' ≤ c ∧ c ≤ '9' then some (c.toNat - 48)
  else if 'a' ≤ c ∧ c ≤ 'f' then some (c.toNat - 87)
  else if 'A' ≤ c ∧ c ≤ 'F' then some (c.toNat - 55)
  else none

def ofHexChars : List Char → Option Bytes
  | [] => some []
  | [_] => none
  | a :: b :: rest =>
    match hexVal a, hexVal b, ofHexChars rest with
    | some x, some y, some r => some (UInt8.ofNat (x * 16 + y) :: r)
    | _, _, _ => none

/-- `-` stands for the empty byte string in the line protocol. -/
def ofHex (s : String) : Option Bytes :=
  if s = "-" then some [] else ofHexChars s.toList

def toHexOrDash (bs : Bytes) : String := if bs.isEmpty then "-" else toHex bs

def ofString (s : String) : Bytes := s.toUTF8.toList

def toByteArray (bs : Bytes) : ByteArray := ⟨bs.toArray⟩

def ofByteArray (b : ByteArray) : Bytes := b.data.toList

/-- Go's `bytes.Compare` / string `<`: lexicographic on unsigned bytes. -/
def lt : Bytes → Bytes → Bool
  | [], [] => false
  | [], _ :: _ => true
  | _ :: _, [] => false
  | a :: as, b :: bs => if a < b then true else if b < a then false else lt as bs

end Bytes
end Macaroon
