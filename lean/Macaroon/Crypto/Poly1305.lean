/-
Poly1305 one-time authenticator (RFC 8439 §2.5), core Lean only, `Nat` arithmetic.
A key shorter than 32 bytes is read as if zero-extended; extra bytes are ignored.
-/
import Macaroon.Crypto.Sha256

namespace Macaroon.Crypto

namespace Poly1305

/-- The prime 2^130 - 5. -/
def p : Nat := 2 ^ 130 - 5

/-- Little-endian 64-bit word made of the first `min len 8` bytes of `ba` starting at `off`. -/
def leWord (ba : ByteArray) (off len : Nat) : UInt64 :=
  Nat.fold (min len 8)
    (fun i _ (acc : UInt64) => acc ||| ((getB ba (off + i)).toUInt64 <<< (8 * i).toUInt64)) 0

/-- Little-endian number made of the `len ≤ 16` bytes of `ba` starting at `off`
(computed as two 64-bit halves to keep big-number work out of the byte loop). -/
def leNat (ba : ByteArray) (off len : Nat) : Nat :=
  (leWord ba off len).toNat + ((leWord ba (off + 8) (len - 8)).toNat <<< 64)

/-- The clamp mask of RFC 8439 §2.5. -/
def clampMask : Nat := 0x0ffffffc0ffffffc0ffffffc0fffffff

/-- `n` (mod 2^128) as 16 little-endian bytes. -/
def toLE16 (n : Nat) : ByteArray :=
  Nat.fold 16 (fun i _ acc => acc.push (UInt8.ofNat (n >>> (8 * i)))) (ByteArray.emptyWithCapacity 16)

end Poly1305

/-- Poly1305 (RFC 8439 §2.5): 32-byte one-time key `r ‖ s`, 16-byte tag. -/
def poly1305 (key msg : ByteArray) : ByteArray :=
  let r := Poly1305.leNat key 0 16 &&& Poly1305.clampMask
  let s := Poly1305.leNat key 16 16
  let n := msg.size
  let acc := Nat.fold ((n + 15) / 16) (fun j _ acc =>
      let off := 16 * j
      let len := min 16 (n - off)
      let blk := Poly1305.leNat msg off len + (1 <<< (8 * len))
      ((acc + blk) * r) % Poly1305.p)
    0
  Poly1305.toLE16 (acc + s)

end Macaroon.Crypto
