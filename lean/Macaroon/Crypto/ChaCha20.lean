/-
ChaCha20 block function and stream cipher (RFC 8439 §2.3, §2.4), core Lean only.
Keys shorter than 32 bytes / nonces shorter than 12 bytes are read as if
zero-extended; extra bytes are ignored. Nothing panics.
-/
import Macaroon.Crypto.Sha256

namespace Macaroon.Crypto

namespace ChaCha20

/-- RFC 8439 §2.1 quarter round on state words `a b c d`. -/
@[inline] def quarterRound (s : Array UInt32) (a b c d : Nat) : Array UInt32 :=
  let xa := getW s a
  let xb := getW s b
  let xc := getW s c
  let xd := getW s d
  let xa := xa + xb
  let xd := rotl (xd ^^^ xa) 16
  let xc := xc + xd
  let xb := rotl (xb ^^^ xc) 12
  let xa := xa + xb
  let xd := rotl (xd ^^^ xa) 8
  let xc := xc + xd
  let xb := rotl (xb ^^^ xc) 7
  (((s.setIfInBounds a xa).setIfInBounds b xb).setIfInBounds c xc).setIfInBounds d xd

/-- One column round followed by one diagonal round. -/
def doubleRound (s : Array UInt32) : Array UInt32 :=
  let s := quarterRound s 0 4 8 12
  let s := quarterRound s 1 5 9 13
  let s := quarterRound s 2 6 10 14
  let s := quarterRound s 3 7 11 15
  let s := quarterRound s 0 5 10 15
  let s := quarterRound s 1 6 11 12
  let s := quarterRound s 2 7 8 13
  quarterRound s 3 4 9 14

/-- Initial 16-word state: constants, key, counter, nonce. -/
def initState (key : ByteArray) (counter : UInt32) (nonce : ByteArray) : Array UInt32 :=
  #[0x61707865, 0x3320646e, 0x79622d32, 0x6b206574,
    le32 key 0, le32 key 4, le32 key 8, le32 key 12,
    le32 key 16, le32 key 20, le32 key 24, le32 key 28,
    counter, le32 nonce 0, le32 nonce 4, le32 nonce 8]

end ChaCha20

/-- ChaCha20 block function (RFC 8439 §2.3): 64 bytes of key stream. -/
def chacha20Block (key : ByteArray) (counter : UInt32) (nonce : ByteArray) : ByteArray :=
  let s0 := ChaCha20.initState key counter nonce
  let s := Nat.fold 10 (fun _ _ s => ChaCha20.doubleRound s) s0
  Nat.fold 16 (fun i _ acc => pushLE32 acc (getW s i + getW s0 i)) (ByteArray.emptyWithCapacity 64)

/-- ChaCha20 encryption/decryption (RFC 8439 §2.4): XOR `data` with the key
stream starting at block `counter` (the block counter wraps mod 2^32). -/
def chacha20Xor (key : ByteArray) (counter : UInt32) (nonce : ByteArray) (data : ByteArray) :
    ByteArray :=
  let n := data.size
  Nat.fold ((n + 63) / 64) (fun j _ acc =>
      let ks := chacha20Block key (counter + UInt32.ofNat j) nonce
      let off := 64 * j
      Nat.fold (min 64 (n - off)) (fun i _ acc => acc.push (getB data (off + i) ^^^ getB ks i)) acc)
    (ByteArray.emptyWithCapacity n)

end Macaroon.Crypto
