/-
ChaCha20-Poly1305 AEAD (RFC 8439 §2.8), core Lean only, plus the known-answer
self test for every primitive in `Macaroon.Crypto`.
`aeadSeal`/`aeadOpen` expect a 32-byte key and a 12-byte nonce; other lengths
are read as if zero-extended / truncated (total, never panics).
-/
import Macaroon.Crypto.Sha256
import Macaroon.Crypto.Hmac
import Macaroon.Crypto.ChaCha20
import Macaroon.Crypto.Poly1305

namespace Macaroon.Crypto

namespace Aead

/-- Zero padding that brings a length-`n` string to a multiple of 16. -/
def pad16 (n : Nat) : ByteArray := zeros ((16 - n % 16) % 16)

/-- Poly1305 input of RFC 8439 §2.8:
`aad ‖ pad16 ‖ ct ‖ pad16 ‖ le64 |aad| ‖ le64 |ct|`. -/
def macData (aad ct : ByteArray) : ByteArray :=
  pushLE64 (pushLE64 (aad ++ pad16 aad.size ++ ct ++ pad16 ct.size) aad.size) ct.size

/-- One-time Poly1305 key (RFC 8439 §2.6): first 32 bytes of block 0. -/
def polyKey (key nonce : ByteArray) : ByteArray :=
  (chacha20Block key 0 nonce).extract 0 32

def tag (key nonce ct aad : ByteArray) : ByteArray :=
  poly1305 (polyKey key nonce) (macData aad ct)

/-- Equality of two 16-byte tags, accumulating the XOR of all byte pairs. -/
def tagEq (a b : ByteArray) : Bool :=
  a.size == b.size &&
    Nat.fold a.size (fun i _ (acc : UInt8) => acc ||| (getB a i ^^^ getB b i)) 0 == 0

end Aead

/-- ChaCha20-Poly1305 seal (RFC 8439 §2.8): ciphertext ‖ 16-byte tag. -/
def aeadSeal (key nonce plaintext aad : ByteArray) : ByteArray :=
  let ct := chacha20Xor key 1 nonce plaintext
  ct ++ Aead.tag key nonce ct aad

/-- ChaCha20-Poly1305 open: `none` if the input is shorter than a tag or the
tag does not verify. -/
def aeadOpen (key nonce ctAndTag aad : ByteArray) : Option ByteArray :=
  if ctAndTag.size < 16 then none
  else
    let n := ctAndTag.size - 16
    let ct := ctAndTag.extract 0 n
    let t := ctAndTag.extract n ctAndTag.size
    if Aead.tagEq t (Aead.tag key nonce ct aad) then some (chacha20Xor key 1 nonce ct) else none

namespace SelfTest

/-- `n` copies of byte `b`. -/
def rep (b : UInt8) (n : Nat) : ByteArray :=
  Nat.fold n (fun _ _ acc => acc.push b) ByteArray.empty

/-- Bytes `lo, lo+1, …` (`n` of them). -/
def seq (lo n : Nat) : ByteArray :=
  Nat.fold n (fun i _ acc => acc.push (UInt8.ofNat (lo + i))) ByteArray.empty

def sunscreen : ByteArray :=
  ("Ladies and Gentlemen of the class of '99: If I could offer you only one tip for the " ++
   "future, sunscreen would be it.").toUTF8

def aeadKey : ByteArray := seq 0x80 32
def aeadNonce : ByteArray := ofHex "070000004041424344454647"
def aeadAad : ByteArray := ofHex "50515253c0c1c2c3c4c5c6c7"

def aeadExpected : ByteArray := ofHex
  "d31a8d34648e60db7b86afbc53ef7ec2a4aded51296e08fea9e2b5a736ee62d6
   3dbea45e8ca9671282fafb69da92728b1a71de0a9e060b2905d6a5b67ecd3b36
   92ddbd7f2d778b8c9803aee328091b58fab324e4fad675945585808b4831d7bc
   3ff4def08e4b7a9de576d26586cec64b6116
   1ae10b594f09e26a7e902ecbd0600691"

/-- `ba` with the lowest bit of byte `i` flipped. -/
def flipBit (ba : ByteArray) (i : Nat) : ByteArray :=
  if i < ba.size then ba.set! i (getB ba i ^^^ 1) else ba

end SelfTest

open SelfTest in
/-- Known-answer tests (FIPS 180-4 examples, RFC 4231, RFC 8439). Every entry must be `true`. -/
def selfTest : List (String × Bool) := [
  ("sha256 empty",
    bytesEq (sha256 ByteArray.empty)
      (ofHex "e3b0c44298fc1c149afbf4c8996fb92427ae41e4649b934ca495991b7852b855")),
  ("sha256 abc",
    bytesEq (sha256 "abc".toUTF8)
      (ofHex "ba7816bf8f01cfea414140de5dae2223b00361a396177a9cb410ff61f20015ad")),
  ("sha256 56-byte two-block",
    bytesEq (sha256 "abcdbcdecdefdefgefghfghighijhijkijkljklmklmnlmnomnopnopq".toUTF8)
      (ofHex "248d6a61d20638b8e5c026930c3e6039a33ce45964ff2167f6ecedd419db06c1")),
  ("hmac-sha256 rfc4231 tc1",
    bytesEq (hmacSha256 (rep 0x0b 20) "Hi There".toUTF8)
      (ofHex "b0344c61d8db38535ca8afceaf0bf12b881dc200c9833da726e9376c2e32cff7")),
  ("hmac-sha256 rfc4231 tc2",
    bytesEq (hmacSha256 "Jefe".toUTF8 "what do ya want for nothing?".toUTF8)
      (ofHex "5bdcc146bf60754e6a042426089575c75a003f089d2739839dec58b964ec3843")),
  ("hmac-sha256 rfc4231 tc3",
    bytesEq (hmacSha256 (rep 0xaa 20) (rep 0xdd 50))
      (ofHex "773ea91e36800e46854db8ebd09181a72959098b3ef8c122d9635514ced565fe")),
  ("hmac-sha256 rfc4231 tc6 (131-byte key)",
    bytesEq (hmacSha256 (rep 0xaa 131)
        "Test Using Larger Than Block-Size Key - Hash Key First".toUTF8)
      (ofHex "60e431591ee0b67f0d8a26aacbf5b77f8e0bc6213728c5140546040f0ee37f54")),
  ("chacha20 block rfc8439 2.3.2",
    bytesEq (chacha20Block (seq 0 32) 1 (ofHex "000000090000004a00000000"))
      (ofHex "10f1e7e4d13b5915500fdd1fa32071c4c7d1f4c733c068030422aa9ac3d46c4e
              d2826446079faa0914c2d705d98b02a2b5129cd1de164eb9cbd083e8a2503c4e")),
  ("chacha20 encrypt rfc8439 2.4.2",
    bytesEq (chacha20Xor (seq 0 32) 1 (ofHex "000000000000004a00000000") sunscreen)
      (ofHex "6e2e359a2568f98041ba0728dd0d6981e97e7aec1d4360c20a27afccfd9fae0b
              f91b65c5524733ab8f593dabcd62b3571639d624e65152ab8f530c359f0861d8
              07ca0dbf500d6a6156a38e088a22b65e52bc514d16ccf806818ce91ab7793736
              5af90bbf74a35be6b40b8eedf2785e42874d")),
  ("chacha20 decrypt round trip",
    bytesEq (chacha20Xor (seq 0 32) 1 (ofHex "000000000000004a00000000")
        (chacha20Xor (seq 0 32) 1 (ofHex "000000000000004a00000000") sunscreen))
      sunscreen),
  ("poly1305 rfc8439 2.5.2",
    bytesEq (poly1305 (ofHex "85d6be7857556d337f4452fe42d506a80103808afb0db2fd4abff6af4149f51b")
        "Cryptographic Forum Research Group".toUTF8)
      (ofHex "a8061dc1305136c6c22b8baf0c0127a9")),
  ("aead poly key rfc8439 2.8.2",
    bytesEq (Aead.polyKey aeadKey aeadNonce)
      (ofHex "7bac2b252db447af09b67a55a4e955840ae1d6731075d9eb2a9375783ed553ff")),
  ("aead seal rfc8439 2.8.2",
    bytesEq (aeadSeal aeadKey aeadNonce sunscreen aeadAad) aeadExpected),
  ("aead open rfc8439 2.8.2",
    match aeadOpen aeadKey aeadNonce aeadExpected aeadAad with
    | some pt => bytesEq pt sunscreen
    | none => false),
  ("aead open rejects flipped ciphertext bit",
    (aeadOpen aeadKey aeadNonce (flipBit aeadExpected 5) aeadAad).isNone),
  ("aead open rejects flipped tag bit",
    (aeadOpen aeadKey aeadNonce (flipBit aeadExpected (aeadExpected.size - 1)) aeadAad).isNone),
  ("aead open rejects wrong aad",
    (aeadOpen aeadKey aeadNonce aeadExpected (flipBit aeadAad 0)).isNone),
  ("aead open rejects short input",
    (aeadOpen aeadKey aeadNonce (rep 0 15) aeadAad).isNone),
  ("aead empty plaintext round trip",
    match aeadOpen aeadKey aeadNonce (aeadSeal aeadKey aeadNonce ByteArray.empty aeadAad) aeadAad with
    | some pt => pt.size == 0
    | none => false)]

end Macaroon.Crypto
