/-
HMAC-SHA256 (RFC 2104 / FIPS 198-1), core Lean only.
-/
import Macaroon.Crypto.Sha256

namespace Macaroon.Crypto

namespace Hmac

/-- Block-sized key K0: keys longer than 64 bytes are hashed first, then the
key is zero-padded to 64 bytes. -/
def blockKey (key : ByteArray) : ByteArray :=
  let k := if key.size > 64 then sha256 key else key
  k ++ zeros (64 - k.size)

/-- XOR every byte of `k` with `c`. -/
def xorPad (k : ByteArray) (c : UInt8) : ByteArray :=
  Nat.fold k.size (fun i _ acc => acc.push (getB k i ^^^ c)) (ByteArray.emptyWithCapacity k.size)

end Hmac

/-- HMAC-SHA256 (RFC 2104); any key length; 32-byte tag. -/
def hmacSha256 (key msg : ByteArray) : ByteArray :=
  let k0 := Hmac.blockKey key
  let inner := sha256 (Hmac.xorPad k0 0x36 ++ msg)
  sha256 (Hmac.xorPad k0 0x5c ++ inner)

end Macaroon.Crypto
