/-
SHA-256 (FIPS 180-4) over `ByteArray`, core Lean only.
Also holds the small byte helpers shared by the other `Macaroon.Crypto` modules
(total indexing, hex conversion for the known-answer tests).
Everything is total; out-of-range reads yield 0 instead of panicking.
-/
namespace Macaroon.Crypto

/-- Total byte read: bytes past the end read as 0. -/
@[inline] def getB (ba : ByteArray) (i : Nat) : UInt8 :=
  if h : i < ba.size then ba[i] else 0

/-- Total word read from an `Array UInt32`: words past the end read as 0. -/
@[inline] def getW (a : Array UInt32) (i : Nat) : UInt32 :=
  if h : i < a.size then a[i] else 0

/-- Rotate left; `n` must be in 1..31. -/
@[inline] def rotl (x : UInt32) (n : UInt32) : UInt32 := (x <<< n) ||| (x >>> (32 - n))

/-- Rotate right; `n` must be in 1..31. -/
@[inline] def rotr (x : UInt32) (n : UInt32) : UInt32 := (x >>> n) ||| (x <<< (32 - n))

def hexDigit (n : Nat) : Char :=
  if n < 10 then Char.ofNat (48 + n) else Char.ofNat (87 + n)

/-- Lower-case hex of a byte string. -/
def toHex (ba : ByteArray) : String :=
  String.ofList (ba.data.toList.flatMap fun b => [hexDigit (b.toNat / 16), hexDigit (b.toNat % 16)])

def hexVal (c : Char) : Nat :=
  if '0' ≤ c ∧ c ≤ '9' then c.toNat - 48
  else if 'a' ≤ c ∧ c ≤ 'f' then c.toNat - 87
  else if 'A' ≤ c ∧ c ≤ 'F' then c.toNat - 55
  else 0

def ofHexChars : List Char → ByteArray → ByteArray
  | a :: b :: rest, acc => ofHexChars rest (acc.push (UInt8.ofNat (hexVal a * 16 + hexVal b)))
  | _, acc => acc

/-- Lenient hex decoder for test vectors: non-hex characters count as 0 and a
trailing odd digit is dropped. Spaces and newlines are skipped. -/
def ofHex (s : String) : ByteArray :=
  ofHexChars (s.toList.filter fun c => !(c == ' ' || c == '\n' || c == ':')) ByteArray.empty

/-- Byte-string equality (by content). -/
def bytesEq (a b : ByteArray) : Bool := a.data == b.data

/-- `n` zero bytes. -/
def zeros (n : Nat) : ByteArray := Nat.fold n (fun _ _ acc => acc.push 0) ByteArray.empty

/-- Big-endian 32-bit read at byte offset `off`. -/
@[inline] def be32 (ba : ByteArray) (off : Nat) : UInt32 :=
  ((getB ba off).toUInt32 <<< 24) ||| ((getB ba (off + 1)).toUInt32 <<< 16) |||
  ((getB ba (off + 2)).toUInt32 <<< 8) ||| (getB ba (off + 3)).toUInt32

/-- Little-endian 32-bit read at byte offset `off`. -/
@[inline] def le32 (ba : ByteArray) (off : Nat) : UInt32 :=
  (getB ba off).toUInt32 ||| ((getB ba (off + 1)).toUInt32 <<< 8) |||
  ((getB ba (off + 2)).toUInt32 <<< 16) ||| ((getB ba (off + 3)).toUInt32 <<< 24)

@[inline] def pushBE32 (acc : ByteArray) (w : UInt32) : ByteArray :=
  (((acc.push (w >>> 24).toUInt8).push (w >>> 16).toUInt8).push (w >>> 8).toUInt8).push w.toUInt8

@[inline] def pushLE32 (acc : ByteArray) (w : UInt32) : ByteArray :=
  (((acc.push w.toUInt8).push (w >>> 8).toUInt8).push (w >>> 16).toUInt8).push (w >>> 24).toUInt8

/-- `n` as 8 little-endian bytes (taken mod 2^64). -/
def pushLE64 (acc : ByteArray) (n : Nat) : ByteArray :=
  Nat.fold 8 (fun i _ a => a.push (UInt8.ofNat (n >>> (8 * i)))) acc

/-- `n` as 8 big-endian bytes (taken mod 2^64). -/
def pushBE64 (acc : ByteArray) (n : Nat) : ByteArray :=
  Nat.fold 8 (fun i _ a => a.push (UInt8.ofNat (n >>> (8 * (7 - i))))) acc

namespace Sha256

def K : Array UInt32 := #[
  0x428a2f98, 0x71374491, 0xb5c0fbcf, 0xe9b5dba5, 0x3956c25b, 0x59f111f1, 0x923f82a4, 0xab1c5ed5,
  0xd807aa98, 0x12835b01, 0x243185be, 0x550c7dc3, 0x72be5d74, 0x80deb1fe, 0x9bdc06a7, 0xc19bf174,
  0xe49b69c1, 0xefbe4786, 0x0fc19dc6, 0x240ca1cc, 0x2de92c6f, 0x4a7484aa, 0x5cb0a9dc, 0x76f988da,
  0x983e5152, 0xa831c66d, 0xb00327c8, 0xbf597fc7, 0xc6e00bf3, 0xd5a79147, 0x06ca6351, 0x14292967,
  0x27b70a85, 0x2e1b2138, 0x4d2c6dfc, 0x53380d13, 0x650a7354, 0x766a0abb, 0x81c2c92e, 0x92722c85,
  0xa2bfe8a1, 0xa81a664b, 0xc24b8b70, 0xc76c51a3, 0xd192e819, 0xd6990624, 0xf40e3585, 0x106aa070,
  0x19a4c116, 0x1e376c08, 0x2748774c, 0x34b0bcb5, 0x391c0cb3, 0x4ed8aa4a, 0x5b9cca4f, 0x682e6ff3,
  0x748f82ee, 0x78a5636f, 0x84c87814, 0x8cc70208, 0x90befffa, 0xa4506ceb, 0xbef9a3f7, 0xc67178f2]

/-- The eight working variables / chaining value. -/
structure State where
  a : UInt32
  b : UInt32
  c : UInt32
  d : UInt32
  e : UInt32
  f : UInt32
  g : UInt32
  h : UInt32

def init : State :=
  ⟨0x6a09e667, 0xbb67ae85, 0x3c6ef372, 0xa54ff53a, 0x510e527f, 0x9b05688c, 0x1f83d9ab, 0x5be0cd19⟩

@[inline] def bsig0 (x : UInt32) : UInt32 := rotr x 2 ^^^ rotr x 13 ^^^ rotr x 22
@[inline] def bsig1 (x : UInt32) : UInt32 := rotr x 6 ^^^ rotr x 11 ^^^ rotr x 25
@[inline] def ssig0 (x : UInt32) : UInt32 := rotr x 7 ^^^ rotr x 18 ^^^ (x >>> 3)
@[inline] def ssig1 (x : UInt32) : UInt32 := rotr x 17 ^^^ rotr x 19 ^^^ (x >>> 10)
@[inline] def ch (x y z : UInt32) : UInt32 := (x &&& y) ^^^ ((~~~ x) &&& z)
@[inline] def maj (x y z : UInt32) : UInt32 := (x &&& y) ^^^ (x &&& z) ^^^ (y &&& z)

/-- Message schedule W[0..63] for the 64-byte block starting at `off`. -/
def schedule (m : ByteArray) (off : Nat) : Array UInt32 :=
  let w0 := Nat.fold 16 (fun t _ (w : Array UInt32) => w.push (be32 m (off + 4 * t)))
    (Array.mkEmpty 64)
  Nat.fold 48 (fun j _ (w : Array UInt32) =>
      let t := j + 16
      w.push (ssig1 (getW w (t - 2)) + getW w (t - 7) + ssig0 (getW w (t - 15)) + getW w (t - 16)))
    w0

@[inline] def round (s : State) (k w : UInt32) : State :=
  let t1 := s.h + bsig1 s.e + ch s.e s.f s.g + k + w
  let t2 := bsig0 s.a + maj s.a s.b s.c
  ⟨t1 + t2, s.a, s.b, s.c, s.d + t1, s.e, s.f, s.g⟩

/-- Compress the 64-byte block of `m` starting at byte `off` into `s`. -/
def compress (s : State) (m : ByteArray) (off : Nat) : State :=
  let w := schedule m off
  let r := Nat.fold 64 (fun t _ (st : State) => round st (getW K t) (getW w t)) s
  ⟨s.a + r.a, s.b + r.b, s.c + r.c, s.d + r.d, s.e + r.e, s.f + r.f, s.g + r.g, s.h + r.h⟩

/-- FIPS 180-4 §5.1.1 padding: 0x80, zeros to 56 mod 64, 64-bit big-endian bit length. -/
def pad (msg : ByteArray) : ByteArray :=
  let n := msg.size
  let zs := (119 - n % 64) % 64   -- (55 - n) mod 64
  let p := Nat.fold zs (fun _ _ acc => acc.push 0) (msg.push 0x80)
  pushBE64 p (8 * n)

def digest (s : State) : ByteArray :=
  [s.a, s.b, s.c, s.d, s.e, s.f, s.g, s.h].foldl pushBE32 (ByteArray.emptyWithCapacity 32)

end Sha256

/-- SHA-256 (FIPS 180-4); 32-byte digest. -/
def sha256 (msg : ByteArray) : ByteArray :=
  let p := Sha256.pad msg
  let s := Nat.fold (p.size / 64) (fun i _ st => Sha256.compress st p (64 * i)) Sha256.init
  Sha256.digest s

end Macaroon.Crypto
