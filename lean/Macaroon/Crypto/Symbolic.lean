/-
The symbolic (Dolev–Yao) instance of the cryptographic interface `Crypto B` of Token/Macaroon.lean:
`B = Term`, a free term algebra.

IDEALISATION (an assumption of every theorem stated over this instance, NOT a Lean axiom):
HMAC-SHA256, SHA-256, SHA-256 truncated to 16 bytes and ChaCha20-Poly1305 are "perfect", i.e. they
behave like the free constructors `mac`, `sha`, `pre16 ∘ sha`, `fin` (= HMAC under the public
finalisation key) and `box` of an inductive type: injective, pairwise disjoint, and without any
inverse other than `unbox` with the right key.  The msgpack encoding of nonces and caveats is
replaced by an injective term encoding (`encNonceT`, `encT`, `encTL`; injectivity is proved below;
for the real byte encoding it is the subject of the wire layer, C11).

Core Lean only, total, executable (`DecidableEq Term`): the token logic can be run on terms, which
gives `decide`-checked examples in Props/Symbolic.lean.
-/
import Macaroon.Token.Macaroon

namespace Macaroon

deriving instance DecidableEq for Cav, CavList

namespace Symbolic

/-- symbolic byte strings.  `skel` embeds the public (term-free) part of a caveat set as data. -/
inductive Term
  | lit (bs : List UInt8)          -- public data, attacker-chosen bytes
  | nat (n : Nat)                  -- public numbers (nonce version, proof flag)
  | atom (i : Nat)                 -- fresh secrets: issuer keys, 3P keys, rn, nonce randomness, AEAD nonces
  | skel (s : CavList Unit)        -- a caveat set with its term-valued fields blanked out (public data)
  | mac (k m : Term)               -- HMAC-SHA256 k m
  | fin (t : Term)                 -- finalizeSignature
  | sha (t : Term)                 -- SHA-256
  | pre16 (t : Term)               -- first 16 bytes
  | pair (a b : Term)
  | box (k n p : Term)             -- ChaCha20-Poly1305 ciphertext of p under key k with nonce n
  deriving DecidableEq

open Term

/-! ### an injective term encoding of caveats

A caveat (set) is encoded as `pair (skel s) fs` where `s` is the caveat set with every term-valued
field (`VerifierKey`, `Ticket` of a 3P caveat; the id of a binding caveat; at any wrapper depth)
replaced by `()` and `fs` is the list of those fields in traversal order.  Every constructor of
`Cav` is covered; all fields that are bytes, integers, options, lists or resource sets are kept
verbatim inside `skel`. -/

variable {B : Type}

mutual
/-- blank out the `B`-valued fields -/
def erase : Cav B → Cav Unit
  | .organization id m => .organization id m
  | .volumes rs => .volumes rs
  | .apps rs => .apps rs
  | .validityWindow a b => .validityWindow a b
  | .featureSet rs => .featureSet rs
  | .mutations ms => .mutations ms
  | .machines rs => .machines rs
  | .confineUser id => .confineUser id
  | .confineOrganization id => .confineOrganization id
  | .isUser id => .isUser id
  | .tp loc _ _ => .tp loc () ()
  | .bind _ => .bind ()
  | .ifPresent n ifs e => .ifPresent n (eraseL ifs) e
  | .machineFeatureSet rs => .machineFeatureSet rs
  | .fromMachine id => .fromMachine id
  | .clusters rs => .clusters rs
  | .confineGoogleHD hd => .confineGoogleHD hd
  | .confineGitHubOrg id => .confineGitHubOrg id
  | .maxValidity s => .maxValidity s
  | .isMember => .isMember
  | .flyioUserID id => .flyioUserID id
  | .gitHubUserID id => .gitHubUserID id
  | .googleUserID n => .googleUserID n
  | .action m => .action m
  | .commands cs => .commands cs
  | .appFeatureSet rs => .appFeatureSet rs
  | .storageObjects rs => .storageObjects rs
  | .allowedRoles m => .allowedRoles m
  | .flySrc o a i => .flySrc o a i
  | .unregistered t r => .unregistered t r
def eraseL : CavList B → CavList Unit
  | .nil => .nil
  | .cons c cs => .cons (erase c) (eraseL cs)
end

mutual
/-- the `B`-valued fields in traversal order -/
def fields : Cav B → List B
  | .tp _ vk t => [vk, t]
  | .bind id => [id]
  | .ifPresent _ ifs _ => fieldsL ifs
  | _ => []
def fieldsL : CavList B → List B
  | .nil => []
  | .cons c cs => fields c ++ fieldsL cs
end

mutual
/-- put fields back into a skeleton; returns the unused fields -/
def fill : Cav Unit → List B → Option (Cav B × List B)
  | .organization id m, r => some (.organization id m, r)
  | .volumes rs, r => some (.volumes rs, r)
  | .apps rs, r => some (.apps rs, r)
  | .validityWindow a b, r => some (.validityWindow a b, r)
  | .featureSet rs, r => some (.featureSet rs, r)
  | .mutations ms, r => some (.mutations ms, r)
  | .machines rs, r => some (.machines rs, r)
  | .confineUser id, r => some (.confineUser id, r)
  | .confineOrganization id, r => some (.confineOrganization id, r)
  | .isUser id, r => some (.isUser id, r)
  | .tp loc _ _, r =>
    match r with
    | vk :: t :: r' => some (.tp loc vk t, r')
    | _ => none
  | .bind _, r =>
    match r with
    | id :: r' => some (.bind id, r')
    | _ => none
  | .ifPresent n ifs e, r =>
    match fillL ifs r with
    | some (ifs', r') => some (.ifPresent n ifs' e, r')
    | none => none
  | .machineFeatureSet rs, r => some (.machineFeatureSet rs, r)
  | .fromMachine id, r => some (.fromMachine id, r)
  | .clusters rs, r => some (.clusters rs, r)
  | .confineGoogleHD hd, r => some (.confineGoogleHD hd, r)
  | .confineGitHubOrg id, r => some (.confineGitHubOrg id, r)
  | .maxValidity s, r => some (.maxValidity s, r)
  | .isMember, r => some (.isMember, r)
  | .flyioUserID id, r => some (.flyioUserID id, r)
  | .gitHubUserID id, r => some (.gitHubUserID id, r)
  | .googleUserID n, r => some (.googleUserID n, r)
  | .action m, r => some (.action m, r)
  | .commands cs, r => some (.commands cs, r)
  | .appFeatureSet rs, r => some (.appFeatureSet rs, r)
  | .storageObjects rs, r => some (.storageObjects rs, r)
  | .allowedRoles m, r => some (.allowedRoles m, r)
  | .flySrc o a i, r => some (.flySrc o a i, r)
  | .unregistered t raw, r => some (.unregistered t raw, r)
def fillL : CavList Unit → List B → Option (CavList B × List B)
  | .nil, r => some (.nil, r)
  | .cons c cs, r =>
    match fill c r with
    | none => none
    | some (c', r') =>
      match fillL cs r' with
      | none => none
      | some (cs', r'') => some (.cons c' cs', r'')
end

mutual
theorem fill_erase : (c : Cav B) → (r : List B) → fill (erase c) (fields c ++ r) = some (c, r)
  | .organization .., r | .volumes .., r | .apps .., r | .validityWindow .., r | .featureSet .., r
  | .mutations .., r | .machines .., r | .confineUser .., r | .confineOrganization .., r
  | .isUser .., r | .machineFeatureSet .., r | .fromMachine .., r | .clusters .., r
  | .confineGoogleHD .., r | .confineGitHubOrg .., r | .maxValidity .., r | .isMember, r
  | .flyioUserID .., r | .gitHubUserID .., r | .googleUserID .., r | .action .., r
  | .commands .., r | .appFeatureSet .., r | .storageObjects .., r | .allowedRoles .., r
  | .flySrc .., r | .unregistered .., r => by simp [erase, fields, fill]
  | .tp .., r => by simp [erase, fields, fill]
  | .bind .., r => by simp [erase, fields, fill]
  | .ifPresent n ifs e, r => by simp [erase, fields, fill, fillL_eraseL ifs r]
theorem fillL_eraseL : (cs : CavList B) → (r : List B) → fillL (eraseL cs) (fieldsL cs ++ r) = some (cs, r)
  | .nil, r => by simp [eraseL, fieldsL, fillL]
  | .cons c cs, r => by
    simp [eraseL, fieldsL, fillL, List.append_assoc, fill_erase c (fieldsL cs ++ r), fillL_eraseL cs r]
end

/-- a list of terms as nested pairs -/
def listT : List Term → Term
  | [] => lit []
  | t :: ts => pair t (listT ts)

def unlistT : Term → Option (List Term)
  | .pair a b => (unlistT b).map (a :: ·)
  | .lit [] => some []
  | _ => none

theorem unlistT_listT (l : List Term) : unlistT (listT l) = some l := by
  induction l with
  | nil => simp [listT, unlistT]
  | cons t ts ih => simp [listT, unlistT, ih]

/-- the caveat-set encoding (`CaveatSet.MarshalMsgpack`) -/
def encTL (cs : CavList Term) : Term := pair (skel (eraseL cs)) (listT (fieldsL cs))

/-- what `Add`/`verify` MAC for one caveat: the encoding of the one-element set `NewCaveatSet(c)` -/
def encT (c : Cav Term) : Term := encTL (.cons c .nil)

/-- partial inverse of `encTL` -/
def decTL : Term → Option (CavList Term)
  | .pair (.skel s) fs =>
    match unlistT fs with
    | none => none
    | some l =>
      match fillL s l with
      | some (cs, []) => some cs
      | _ => none
  | _ => none

theorem decTL_encTL (cs : CavList Term) : decTL (encTL cs) = some cs := by
  have := fillL_eraseL cs ([] : List Term)
  rw [List.append_nil] at this
  simp [decTL, encTL, unlistT_listT, this]

theorem encTL_injective {cs cs' : CavList Term} (h : encTL cs = encTL cs') : cs = cs' := by
  have := decTL_encTL cs
  rw [h, decTL_encTL] at this
  exact (Option.some.inj this).symm

/-- the caveat encoding is injective: a MAC over `encT c` determines `c` (all fields of all kinds) -/
theorem encT_injective {c d : Cav Term} (h : encT c = encT d) : c = d := by
  have := encTL_injective h
  injection this

theorem map_encT_injective {cs ds : List (Cav Term)} (h : cs.map encT = ds.map encT) : cs = ds := by
  induction cs generalizing ds with
  | nil => cases ds with
    | nil => rfl
    | cons d ds => simp at h
  | cons c cs ih => cases ds with
    | nil => simp at h
    | cons d ds =>
      simp only [List.map_cons, List.cons.injEq] at h
      rw [encT_injective h.1, ih h.2]

/-- the nonce encoding keeps key-id, random part, version and proof flag apart -/
def encNonceT (n : GNonce Term) : Term :=
  pair n.kid (pair n.rnd (pair (nat n.version) (nat (if n.proof then 1 else 0))))

theorem encNonceT_injective {n n' : GNonce Term} (h : encNonceT n = encNonceT n') : n = n' := by
  cases n with | mk k r v p => cases n' with | mk k' r' v' p' =>
  simp only [encNonceT, pair.injEq, nat.injEq] at h
  obtain ⟨h1, h2, h3, h4⟩ := h
  subst h1 h2 h3
  have : p = p' := by cases p <;> cases p' <;> simp_all
  rw [this]

/-- plaintext of a ticket: `wireTicket{DischargeKey, Caveats}` -/
def ticketT (dk : Term) (cs : List (Cav Term)) : Term := pair dk (encTL (CavList.ofList cs))

def openTicketT (ka t : Term) : TicketResult Term :=
  match t with
  | .box k _ p =>
    if k = ka then
      match p with
      | .pair dk e =>
        match decTL e with
        | some cs => .ok dk cs.toList
        | none => .badPlaintext
      | _ => .badPlaintext
    else .cannotOpen
  | _ => .cannotOpen

def unsealKeyT (t vk : Term) : Option Term :=
  match vk with
  | .box k _ p => if k = t then some p else none
  | _ => none

/-- The symbolic instance.  `hasPrefix`: the Go code tests `bytes.HasPrefix(bindingId, caveat)`, so
a binding caveat SHORTER than 16 bytes (in particular the empty one) matches more parents; that
leniency is outside the symbolic model, where a binding id matches exactly the parent digests it
was truncated from.  The property C06 is about discharges bound through `Bind`, which always uses
the full 16 bytes. -/
instance : Crypto Term where
  macNonce k n := mac k (encNonceT n)
  macCav k c := some (mac k (encT c))
  finalize := fin
  digest := sha
  bindId t := pre16 (sha t)
  hasPrefix bid id := id == pre16 bid
  sealKey t n rn := box t n rn
  unsealKey := unsealKeyT
  sealTicket ka n dk cs := box ka n (ticketT dk cs)
  openTicket := openTicketT
  ctEq a b := a == b
  kidEq a b := a == b
  sameEnc c d := encT c == encT d
  empty := lit []

/-- the symbolic instance is lawful; terms carry no sizes, so every term is a key, a nonce and a
ticket body -/
instance : LawfulCrypto Term where
  okKey _ := True
  okNonce _ := True
  okTicketBody _ _ := True
  okKey_macNonce _ _ := trivial
  okKey_macCav _ _ _ _ := trivial
  okKey_finalize _ := trivial
  ctEq_iff a b := by simp [Crypto.ctEq]
  kidEq_iff a b := by simp [Crypto.kidEq]
  unsealKey_sealKey t n rn _ _ := by simp [Crypto.unsealKey, Crypto.sealKey, unsealKeyT]
  openTicket_sealTicket ka n dk cs _ _ _ := by
    simp [Crypto.openTicket, Crypto.sealTicket, openTicketT, ticketT, decTL_encTL]
  hasPrefix_bindId t := by simp [Crypto.hasPrefix, Crypto.digest, Crypto.bindId]
  sameEnc_mac c d t h := by
    have : encT c = encT d := by simpa [Crypto.sameEnc] using h
    simp [Crypto.macCav, this]
  macCav_isSome c t t' := by simp [Crypto.macCav]

/-- in the symbolic model equal encodings mean equal caveats -/
theorem sameEnc_iff (c d : Cav Term) : Crypto.sameEnc c d = true ↔ c = d := by
  constructor
  · intro h; exact encT_injective (by simpa [Crypto.sameEnc] using h)
  · rintro rfl; simp [Crypto.sameEnc]

end Symbolic
end Macaroon
