/-
auth package helpers on caveat sets: `GetMaxValidity`.
Core Lean only.
-/
import Macaroon.Caveat.Prohibits

namespace Macaroon
variable {B : Type}

def Cav.isMaxValidity : Cav B → Bool | .maxValidity .. => true | _ => false

/-- the wrapped duration (nanoseconds, as `int64`) of each limit found, nested ones included -/
def maxValidityDurations (cs : List (Cav B)) : List Int :=
  (getCaveats Cav.isMaxValidity cs).filterMap fun
    | .maxValidity s => some (GoTime.durationOfSecs s)
    | _ => none

/-- `auth.GetMaxValidity` : (minimum duration, any limit present) -/
def getMaxValidity (cs : List (Cav B)) : Int × Bool :=
  let m := (maxValidityDurations cs).foldl (fun mx d => if mx > d then d else mx) GoTime.maxDuration
  (m, m != GoTime.maxDuration)

end Macaroon
