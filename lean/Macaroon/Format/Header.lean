/-
Model of the Authorization-header grammar (C19):

* /repo/format.go      `StripAuthorizationScheme`, `Parse`, `encodeTokens`, `ToAuthorizationHeader`,
                       `FindPermissionAndDischargeTokens`, `ParsePermissionAndDischargeTokens`
* /repo/flyio/flyio.go `ParsePermissionAndDischargeTokens` (the same with the fixed location)
* /repo/bundle/tokens.go `parseToks`, `String`, `Header`

Text representation.  A Go string is a byte sequence.  Here a header is a `List Char`: the list of
the Unicode code points of the string, *for strings that are valid UTF-8* (the harness sends only
such headers).  This choice — rather than "one `Char` per byte" — is forced by two library calls that
decode UTF-8: `strings.TrimSpace` trims `unicode.IsSpace` code points (U+0085, U+00A0, U+1680,
U+2000–U+200A, U+2028, U+2029, U+202F, U+205F, U+3000 besides the six ASCII ones; `isSpace` below
is that table) and `strings.EqualFold` compares under Unicode simple case folding.  The only
non-ASCII code points that fold to ASCII letters are U+212A (Kelvin sign, to `k`) and U+017F (long s,
to `s`); neither letter occurs in `Bearer` or `FlyV1`, so for these two words `EqualFold` coincides
with ASCII case-insensitive comparison (`equalFoldAscii`).  Everything else the code does
(`strings.Cut`/`strings.Split` at `' '`, `'_'`, `','`; comparing a label with `==`; base64) is
byte-wise on ASCII delimiters, and in valid UTF-8 the bytes `< 0x80` occur only as themselves, so
it is the same on code points.  The base64 model rejects every `Char ≥ 0x80`, as Go rejects each byte
of its encoding.  Headers that are not valid UTF-8 are outside the model (Go treats each offending
byte as U+FFFD: not a space, folds to nothing).

The macaroon codec is not modelled here: `FindPermissionAndDischargeTokens` takes the result of
`macaroon.Decode` as an oracle `dec : Bytes → Option Bytes` (the location of the decoded token, `none`
when `Decode` fails), and the bundle tokeniser stops at the base64 layer (`Tok.macaroonBytes s raw`:
whether `raw` then decodes as a macaroon is outside this property).

Core Lean only: this file is imported by the compiled driver.
-/
import Macaroon.Wire.Base64

namespace Macaroon
namespace Header

/-! ### Constants (checked against the regenerated ones in `Props/C19.lean`) -/

/-- `macaroon.AuthorizationSchemeFlyV1`, `bundle.flyV1Scheme` -/
def schemeFlyV1 : List Char := ['F', 'l', 'y', 'V', '1']
/-- `macaroon.authorizationSchemeBearer` -/
def schemeBearer : List Char := ['B', 'e', 'a', 'r', 'e', 'r']
/-- `permissionTokenLabel` -/
def labelPermission : List Char := ['f', 'm', '1', 'r']
/-- `dischargeTokenLabel` -/
def labelDischarge : List Char := ['f', 'm', '1', 'a']
/-- `v2TokenLabel` -/
def labelV2 : List Char := ['f', 'm', '2']
/-- `oauthTokenLabel` -/
def labelOAuth : List Char := ['f', 'o', '1']
/-- `flyio.LocationPermission` -/
def flyioLocationPermission : List Char :=
  ['h', 't', 't', 'p', 's', ':', '/', '/', 'a', 'p', 'i', '.', 'f', 'l', 'y', '.', 'i', 'o', '/', 'v', '1']

/-- the three labels under which a macaroon entry is accepted -/
def isMacaroonLabel (l : List Char) : Bool :=
  l == labelPermission || l == labelDischarge || l == labelV2

/-! ### Go string helpers -/

/-- Go `unicode.IsSpace` (the complete table). -/
def isSpace (c : Char) : Bool :=
  let n := c.toNat
  (9 ≤ n && n ≤ 13) || n == 0x20 || n == 0x85 || n == 0xA0 || n == 0x1680 ||
  (0x2000 ≤ n && n ≤ 0x200A) || n == 0x2028 || n == 0x2029 || n == 0x202F || n == 0x205F ||
  n == 0x3000

def trimLeft (s : List Char) : List Char := s.dropWhile isSpace

def trimRight (s : List Char) : List Char := (s.reverse.dropWhile isSpace).reverse

/-- Go `strings.TrimSpace` (= `TrimRightFunc (TrimLeftFunc s IsSpace) IsSpace`). -/
def trim (s : List Char) : List Char := trimRight (trimLeft s)

/-- Go `strings.Cut s (string c)` for a one-character ASCII separator: `none` when `c` does not
occur, else (text before the first `c`, text after it). -/
def cut (c : Char) : List Char → Option (List Char × List Char)
  | [] => none
  | x :: xs =>
    if x = c then some ([], xs)
    else match cut c xs with
      | none => none
      | some (a, b) => some (x :: a, b)

/-- Go `strings.Split s (string c)`: never empty, `[""]` for the empty string. -/
def splitOn (c : Char) : List Char → List (List Char)
  | [] => [[]]
  | x :: xs =>
    if x = c then [] :: splitOn c xs
    else match splitOn c xs with
      | [] => [[x]]            -- unreachable: `splitOn` never returns `[]`
      | p :: ps => (x :: p) :: ps

/-- Concatenation with a one-character separator between consecutive elements (the loops of
`encodeTokens` and `bundle.String`). -/
def joinWith (c : Char) : List (List Char) → List Char
  | [] => []
  | [p] => p
  | p :: q :: ps => p ++ c :: joinWith c (q :: ps)

def asciiLower (c : Char) : Char :=
  if 65 ≤ c.toNat ∧ c.toNat ≤ 90 then Char.ofNat (c.toNat + 32) else c

/-- `strings.EqualFold s w` for a word `w` without the letters `k`, `s` (see the file header). -/
def equalFoldAscii (s w : List Char) : Bool := s.map asciiLower == w.map asciiLower

def isSchemeWord (w : List Char) : Bool :=
  equalFoldAscii w schemeBearer || equalFoldAscii w schemeFlyV1

/-! ### `StripAuthorizationScheme` -/

/-- The recursion of `StripAuthorizationScheme`, with the recursion depth bounded by `fuel`
(the recursive call is on a strictly shorter string, so `fuel = length` suffices:
`Lemmas.Header.stripScheme_eq` is the unfolding equation without fuel). -/
def stripAux : Nat → List Char → List Char × Bool
  | 0, hdr => (trim hdr, false)
  | fuel + 1, hdr =>
    let t := trim hdr
    match cut ' ' t with
    | none => (t, false)
    | some (pfx, rest) =>
      if isSchemeWord (trim pfx) then ((stripAux fuel rest).1, true) else (t, false)

/-- Go `StripAuthorizationScheme`: (header without schemes, whether a scheme was found). -/
def stripScheme (hdr : List Char) : List Char × Bool := stripAux hdr.length hdr

/-! ### `Parse` -/

/-- Error values of `Parse` / `ParsePermissionAndDischargeTokens`, up to what `errors.Is` can tell:
every failure path of `Parse` wraps `ErrUnrecognizedToken` with `%w`; the two failures that
`ParsePermissionAndDischargeTokens` adds are bare `errors.New` values. -/
inductive ParseErr
  | unrecognized
  | noPermission
  | multiplePermission
  deriving DecidableEq, Repr, Inhabited

/-- `errors.Is err macaroon.ErrUnrecognizedToken` -/
def ParseErr.isUnrecognized : ParseErr → Bool
  | .unrecognized => true
  | _ => false

/-- One iteration of `Parse`'s loop: `ok (some raw)` appends, `ok none` is the OAuth `continue`. -/
def parseEntry (e : List Char) : Except ParseErr (Option Bytes) :=
  match cut '_' e with
  | none => .error .unrecognized                         -- "malformed"
  | some (pfx, b64) =>
    if isMacaroonLabel pfx then
      match Base64.decode b64 with
      | none => .error .unrecognized                     -- base64 error
      | some [] => .error .unrecognized                  -- "blank"
      | some (b :: bs) => .ok (some (b :: bs))
    else if pfx == labelOAuth then .ok none
    else .error .unrecognized                            -- "invalid token prefix"

/-- `Parse`'s loop: the first failing entry aborts. -/
def parseEntries : List (List Char) → Except ParseErr (List Bytes)
  | [] => .ok []
  | e :: es =>
    match parseEntry e with
    | .error x => .error x
    | .ok none => parseEntries es
    | .ok (some raw) =>
      match parseEntries es with
      | .error x => .error x
      | .ok toks => .ok (raw :: toks)

/-- the comma-separated entries of a header after scheme stripping -/
def parts (hdr : List Char) : List (List Char) := splitOn ',' (stripScheme hdr).1

/-- Go `macaroon.Parse`. -/
def parse (hdr : List Char) : Except ParseErr (List Bytes) :=
  match parseEntries (parts hdr) with
  | .error x => .error x
  | .ok [] => .error .unrecognized                       -- "no valid tokens found"
  | .ok (t :: ts) => .ok (t :: ts)

/-! ### Formatting -/

/-- one entry `<label>_<base64>` -/
def entry (label : List Char) (tok : Bytes) : List Char := label ++ '_' :: Base64.encode tok

/-- Go `encodeTokens`. -/
def encodeTokens (toks : List Bytes) : List Char := joinWith ',' (toks.map (entry labelV2))

/-- Go `ToAuthorizationHeader`. -/
def toAuthorizationHeader (toks : List Bytes) : List Char := schemeFlyV1 ++ ' ' :: encodeTokens toks

/-! ### Permission / discharge split -/

/-- Go `FindPermissionAndDischargeTokens` (the two `[][]byte` results; the `*Macaroon` lists run in
parallel; the error is always nil).  `dec t` = location of `macaroon.Decode t`, `none` if it fails. -/
def splitByLocation (dec : Bytes → Option Bytes) (loc : Bytes) : List Bytes → List Bytes × List Bytes
  | [] => ([], [])
  | t :: ts =>
    let r := splitByLocation dec loc ts
    match dec t with
    | some l => if l = loc then (t :: r.1, r.2) else (r.1, t :: r.2)
    | none => r

/-- Go `macaroon.ParsePermissionAndDischargeTokens`. -/
def parsePermissionAndDischarge (dec : Bytes → Option Bytes) (hdr : List Char) (loc : Bytes) :
    Except ParseErr (Bytes × List Bytes) :=
  match parse hdr with
  | .error x => .error x
  | .ok toks =>
    match splitByLocation dec loc toks with
    | ([], _) => .error .noPermission
    | ([p], ds) => .ok (p, ds)
    | (_ :: _ :: _, _) => .error .multiplePermission

/-- the bytes of an ASCII string constant -/
def asciiBytes (s : List Char) : Bytes := s.map fun c => UInt8.ofNat c.toNat

/-- Go `flyio.ParsePermissionAndDischargeTokens`. -/
def flyioParsePermissionAndDischarge (dec : Bytes → Option Bytes) (hdr : List Char) :
    Except ParseErr (Bytes × List Bytes) :=
  parsePermissionAndDischarge dec hdr (asciiBytes flyioLocationPermission)

/-! ### Bundle tokeniser -/

/-- What `bundle.parseToks` makes of one comma-separated part, up to the base64 layer.
`nonMacaroon s` = Go `NonMacaroon(s)`; `malformedB64 s` = `&MalformedMacaroon{Str: s, Err: bad base64}`;
`macaroonBytes s raw` = the part reached `macaroon.Decode(raw)` (Go then makes it an
`UnverifiedMacaroon` or a `MalformedMacaroon` "bad macaroon", both with `Str = s`). -/
inductive Tok
  | nonMacaroon (s : List Char)
  | malformedB64 (s : List Char)
  | macaroonBytes (s : List Char) (raw : Bytes)
  deriving DecidableEq, Repr, Inhabited

/-- Go `Token.String()` -/
def Tok.str : Tok → List Char
  | .nonMacaroon s => s
  | .malformedB64 s => s
  | .macaroonBytes s _ => s

/-- the bytes handed to `macaroon.Decode`, if the part got that far -/
def Tok.raw? : Tok → Option Bytes
  | .macaroonBytes _ raw => some raw
  | _ => none

/-- body of the loop of `bundle.parseToks`, after `part = strings.TrimSpace(part)` -/
def classifyPart (part : List Char) : Tok :=
  match cut '_' part with
  | none => .nonMacaroon part
  | some (pfx, b64) =>
    if isMacaroonLabel pfx then
      match Base64.decode b64 with
      | none => .malformedB64 part
      | some raw => .macaroonBytes part raw
    else .nonMacaroon part

/-- body of the loop of `bundle.parseToks` -/
def parseTok (part : List Char) : Tok := classifyPart (trim part)

/-- Go `bundle.parseToks`. -/
def parseToks (hdr : List Char) : List Tok := (parts hdr).map parseTok

/-- Go `bundle.String(ts...)`. -/
def tokString (ts : List Tok) : List Char := joinWith ',' (ts.map Tok.str)

/-- Go `bundle.Header(ts...)`. -/
def header (ts : List Tok) : List Char :=
  match ts with
  | [] => []
  | _ :: _ => schemeFlyV1 ++ ' ' :: tokString ts

end Header
end Macaroon
