/-
Model of Go's `encoding/base64.StdEncoding` (alphabet A–Z a–z 0–9 + /, `=`
padding, strict mode off, which is the default).

`encode` is `StdEncoding.EncodeToString`; `decode` is `StdEncoding.DecodeString`
with every error collapsed to `none` (Go also returns the bytes decoded before
the error; no caller in the modelled code uses them).

A Go string is a byte sequence. Here the text is a `List Char`; a byte `b` of
the Go string corresponds to the character with code point `b`. Every byte
`≥ 0x80` is outside the alphabet in Go, and every character `≥ 0x80` is outside
the alphabet here, so the two agree on such input (both reject).

Decoder behaviour mirrored from Go (`decodeQuantum`):
* `'\r'` and `'\n'` are dropped wherever they occur, before anything else;
* what remains must be groups of four characters;
* only the last group may be `xx==` or `xxx=`; after padding nothing follows;
* any other character outside the alphabet is an error;
* a trailing partial group is an error (`StdEncoding` has padding);
* non-strict: the unused low bits of the last sextet of a padded group are
  ignored (`"QR=="` decodes to one byte).

Core Lean only: this file is imported by the compiled driver.
-/
import Macaroon.Basic.Bytes

namespace Macaroon
namespace Base64

/-- Sextet to alphabet character. Values `≥ 63` all map to `'/'`; callers only
pass values `< 64`. -/
def enc6 (n : Nat) : Char :=
  if n < 26 then Char.ofNat (65 + n)        -- 'A' ..
  else if n < 52 then Char.ofNat (71 + n)   -- 'a' .. ('a' = 97 = 71 + 26)
  else if n < 62 then Char.ofNat (n - 4)    -- '0' .. ('0' = 48 = 52 - 4)
  else if n = 62 then '+'
  else '/'

/-- Alphabet character to sextet; `none` for anything else (including `'='`). -/
def dec6 (c : Char) : Option Nat :=
  let n := c.toNat
  if 65 ≤ n ∧ n ≤ 90 then some (n - 65)
  else if 97 ≤ n ∧ n ≤ 122 then some (n - 71)
  else if 48 ≤ n ∧ n ≤ 57 then some (n + 4)
  else if n = 43 then some 62
  else if n = 47 then some 63
  else none

/-- Go: `StdEncoding.EncodeToString`. -/
def encode : Bytes → List Char
  | [] => []
  | [a] =>
    [enc6 (a.toNat / 4), enc6 (a.toNat % 4 * 16), '=', '=']
  | [a, b] =>
    [enc6 (a.toNat / 4), enc6 (a.toNat % 4 * 16 + b.toNat / 16),
     enc6 (b.toNat % 16 * 4), '=']
  | a :: b :: c :: rest =>
    enc6 (a.toNat / 4) :: enc6 (a.toNat % 4 * 16 + b.toNat / 16) ::
    enc6 (b.toNat % 16 * 4 + c.toNat / 64) :: enc6 (c.toNat % 64) :: encode rest

/-- The two characters Go's decoder skips wherever they occur. -/
def isNewline (c : Char) : Bool := c == '\r' || c == '\n'

/-- First byte of a group from sextets `x y`. -/
def byte1 (x y : Nat) : UInt8 := UInt8.ofNat (x * 4 + y / 16)
/-- Second byte of a group from sextets `y z`. -/
def byte2 (y z : Nat) : UInt8 := UInt8.ofNat (y % 16 * 16 + z / 4)
/-- Third byte of a group from sextets `z w`. -/
def byte3 (z w : Nat) : UInt8 := UInt8.ofNat (z % 4 * 64 + w)

/-- Decode text from which `'\r'` and `'\n'` have already been removed. -/
def decodeGroups : List Char → Option Bytes
  | [] => some []
  | a :: b :: c :: d :: rest =>
    match dec6 a, dec6 b with
    | some x, some y =>
      if rest.isEmpty && c == '=' && d == '=' then
        some [byte1 x y]
      else
        match dec6 c with
        | none => none
        | some z =>
          if rest.isEmpty && d == '=' then
            some [byte1 x y, byte2 y z]
          else
            match dec6 d with
            | none => none
            | some w =>
              match decodeGroups rest with
              | none => none
              | some bs => some (byte1 x y :: byte2 y z :: byte3 z w :: bs)
    | _, _ => none
  | _ => none

/-- Go: `StdEncoding.DecodeString`, `none` on any error. -/
def decode (s : List Char) : Option Bytes :=
  decodeGroups (s.filter fun c => !isNewline c)

end Base64
end Macaroon
