/-
MessagePack at the byte level: a value tree that remembers the wire format of every node, so
that `enc (dec bytes) = bytes` exactly (needed because unregistered caveats are passed through
byte for byte), an exact encoder, and a decoder with an explicit nesting budget.

The typed layer (Caveat/Codec.lean) reads Go values out of these trees with the leniencies of
vmihailenco/msgpack v5.3.5 and writes canonical trees (compact integers, shortest length
headers), which is what the Go encoder configured in macaroon.go emits.
Core Lean only.
-/
import Macaroon.Basic.Bytes

namespace Macaroon.Msgpack

/-- wire formats of integers -/
inductive IntFmt
  | posFix | negFix | u8 | u16 | u32 | u64 | i8 | i16 | i32 | i64
  deriving DecidableEq, Repr, Inhabited

/-- wire formats of a length header: `fix` (in the format byte), 8, 16 or 32 bit -/
inductive LenFmt
  | fix | l8 | l16 | l32
  deriving DecidableEq, Repr, Inhabited

mutual
inductive V : Type
  | nil
  | bool (b : Bool)
  | int (f : IntFmt) (v : Int)
  | f32 (bits : Bytes)                      -- 4 raw bytes
  | f64 (bits : Bytes)                      -- 8 raw bytes
  | str (f : LenFmt) (s : Bytes)
  | bin (f : LenFmt) (b : Bytes)            -- f ≠ fix
  | arr (f : LenFmt) (xs : VL)              -- f ≠ l8
  | map (f : LenFmt) (kvs : VL)             -- alternating key, value; f ≠ l8
  | ext (code : UInt8) (typ : UInt8) (data : Bytes)   -- code: d4..d8 (fixext), c7..c9 (ext 8/16/32)
inductive VL : Type
  | nil
  | cons (v : V) (vs : VL)
end

namespace VL
def toList : VL → List V
  | .nil => []
  | .cons v vs => v :: toList vs
def ofList : List V → VL
  | [] => .nil
  | v :: vs => .cons v (ofList vs)
def length : VL → Nat
  | .nil => 0
  | .cons _ vs => length vs + 1
end VL

/-! ### big-endian integers -/

/-- `n` as `k` big-endian bytes (low `8k` bits) -/
def beBytes : Nat → Nat → Bytes
  | 0, _ => []
  | k + 1, n => UInt8.ofNat (n / 256 ^ k % 256) :: beBytes k n

/-- value of a big-endian byte string -/
def beVal (bs : Bytes) : Nat := bs.foldl (fun acc b => acc * 256 + b.toNat) 0

/-- two's complement of `i` in `8k` bits, as a natural -/
def twos (k : Nat) (i : Int) : Nat := (i % (256 ^ k : Nat)).toNat

/-- signed value of a `8k`-bit two's complement natural -/
def untwos (k : Nat) (n : Nat) : Int := if n < 256 ^ k / 2 then n else (n : Int) - (256 ^ k : Nat)

/-! ### exact encoder -/

def encInt (f : IntFmt) (v : Int) : Bytes :=
  match f with
  | .posFix => [UInt8.ofNat v.toNat]
  | .negFix => [UInt8.ofNat (twos 1 v)]
  | .u8 => 0xcc :: beBytes 1 v.toNat
  | .u16 => 0xcd :: beBytes 2 v.toNat
  | .u32 => 0xce :: beBytes 4 v.toNat
  | .u64 => 0xcf :: beBytes 8 v.toNat
  | .i8 => 0xd0 :: beBytes 1 (twos 1 v)
  | .i16 => 0xd1 :: beBytes 2 (twos 2 v)
  | .i32 => 0xd2 :: beBytes 4 (twos 4 v)
  | .i64 => 0xd3 :: beBytes 8 (twos 8 v)

/-- header of a length-prefixed item: `fixBase + n` for `fix`, otherwise code byte + big-endian length -/
def encLen (fixBase c8 c16 c32 : UInt8) (f : LenFmt) (n : Nat) : Bytes :=
  match f with
  | .fix => [fixBase + UInt8.ofNat n]
  | .l8 => c8 :: beBytes 1 n
  | .l16 => c16 :: beBytes 2 n
  | .l32 => c32 :: beBytes 4 n

mutual
def enc : V → Bytes
  | .nil => [0xc0]
  | .bool false => [0xc2]
  | .bool true => [0xc3]
  | .int f v => encInt f v
  | .f32 b => 0xca :: b
  | .f64 b => 0xcb :: b
  | .str f s => encLen 0xa0 0xd9 0xda 0xdb f s.length ++ s
  | .bin f b => encLen 0xc4 0xc4 0xc5 0xc6 f b.length ++ b
  | .arr f xs => encLen 0x90 0xdc 0xdc 0xdd f xs.length ++ encL xs
  | .map f kvs => encLen 0x80 0xde 0xde 0xdf f (kvs.length / 2) ++ encL kvs
  | .ext code typ data =>
    if code == 0xc7 then 0xc7 :: beBytes 1 data.length ++ typ :: data
    else if code == 0xc8 then 0xc8 :: beBytes 2 data.length ++ typ :: data
    else if code == 0xc9 then 0xc9 :: beBytes 4 data.length ++ typ :: data
    else code :: typ :: data
def encL : VL → Bytes
  | .nil => []
  | .cons v vs => enc v ++ encL vs
end

/-! ### decoder -/

/-- read `n` bytes -/
def readN (n : Nat) (bs : Bytes) : Option (Bytes × Bytes) :=
  if n ≤ bs.length then some (bs.take n, bs.drop n) else none

/-- read a `k`-byte big-endian natural -/
def readBE (k : Nat) (bs : Bytes) : Option (Nat × Bytes) :=
  (readN k bs).map fun (h, t) => (beVal h, t)

/-- decode `n` consecutive items with `d` -/
def decMany (d : Bytes → Option (V × Bytes)) : Nat → Bytes → Option (VL × Bytes)
  | 0, bs => some (.nil, bs)
  | n + 1, bs =>
    match d bs with
    | none => none
    | some (v, rest) =>
      match decMany d n rest with
      | none => none
      | some (vs, rest') => some (.cons v vs, rest')

def readStr (f : LenFmt) (n : Nat) (bs : Bytes) : Option (V × Bytes) :=
  (readN n bs).map fun (h, t) => (V.str f h, t)
def readBin (f : LenFmt) (n : Nat) (bs : Bytes) : Option (V × Bytes) :=
  (readN n bs).map fun (h, t) => (V.bin f h, t)
def readExt (code : UInt8) (n : Nat) (bs : Bytes) : Option (V × Bytes) :=
  match bs with
  | [] => none
  | typ :: r => (readN n r).map fun (h, t) => (V.ext code typ h, t)

/-- decode one value; `fuel` bounds the nesting depth of arrays and maps (the Go library has no
such bound: its recursion depth follows the input, see C12) -/
def dec : Nat → Bytes → Option (V × Bytes)
  | _, [] => none
  | fuel, c :: r =>
    let cn := c.toNat
    if cn ≤ 0x7f then some (.int .posFix cn, r)
    else if cn ≥ 0xe0 then some (.int .negFix ((cn : Int) - 256), r)
    else if cn ≥ 0xa0 ∧ cn ≤ 0xbf then readStr .fix (cn - 0xa0) r
    else if cn ≥ 0x90 ∧ cn ≤ 0x9f then
      match fuel with
      | 0 => none
      | fuel + 1 => (decMany (dec fuel) (cn - 0x90) r).map fun (xs, t) => (V.arr .fix xs, t)
    else if cn ≥ 0x80 ∧ cn ≤ 0x8f then
      match fuel with
      | 0 => none
      | fuel + 1 => (decMany (dec fuel) (2 * (cn - 0x80)) r).map fun (xs, t) => (V.map .fix xs, t)
    else if cn = 0xc0 then some (.nil, r)
    else if cn = 0xc2 then some (.bool false, r)
    else if cn = 0xc3 then some (.bool true, r)
    else if cn = 0xc4 then (readBE 1 r).bind fun (n, t) => readBin .l8 n t
    else if cn = 0xc5 then (readBE 2 r).bind fun (n, t) => readBin .l16 n t
    else if cn = 0xc6 then (readBE 4 r).bind fun (n, t) => readBin .l32 n t
    else if cn = 0xc7 then (readBE 1 r).bind fun (n, t) => readExt c n t
    else if cn = 0xc8 then (readBE 2 r).bind fun (n, t) => readExt c n t
    else if cn = 0xc9 then (readBE 4 r).bind fun (n, t) => readExt c n t
    else if cn = 0xca then (readN 4 r).map fun (h, t) => (V.f32 h, t)
    else if cn = 0xcb then (readN 8 r).map fun (h, t) => (V.f64 h, t)
    else if cn = 0xcc then (readBE 1 r).map fun (n, t) => (V.int .u8 n, t)
    else if cn = 0xcd then (readBE 2 r).map fun (n, t) => (V.int .u16 n, t)
    else if cn = 0xce then (readBE 4 r).map fun (n, t) => (V.int .u32 n, t)
    else if cn = 0xcf then (readBE 8 r).map fun (n, t) => (V.int .u64 n, t)
    else if cn = 0xd0 then (readBE 1 r).map fun (n, t) => (V.int .i8 (untwos 1 n), t)
    else if cn = 0xd1 then (readBE 2 r).map fun (n, t) => (V.int .i16 (untwos 2 n), t)
    else if cn = 0xd2 then (readBE 4 r).map fun (n, t) => (V.int .i32 (untwos 4 n), t)
    else if cn = 0xd3 then (readBE 8 r).map fun (n, t) => (V.int .i64 (untwos 8 n), t)
    else if cn = 0xd4 then readExt c 1 r
    else if cn = 0xd5 then readExt c 2 r
    else if cn = 0xd6 then readExt c 4 r
    else if cn = 0xd7 then readExt c 8 r
    else if cn = 0xd8 then readExt c 16 r
    else if cn = 0xd9 then (readBE 1 r).bind fun (n, t) => readStr .l8 n t
    else if cn = 0xda then (readBE 2 r).bind fun (n, t) => readStr .l16 n t
    else if cn = 0xdb then (readBE 4 r).bind fun (n, t) => readStr .l32 n t
    else if cn = 0xdc then
      match fuel with
      | 0 => none
      | fuel + 1 => (readBE 2 r).bind fun (n, t) => (decMany (dec fuel) n t).map fun (xs, t') => (V.arr .l16 xs, t')
    else if cn = 0xdd then
      match fuel with
      | 0 => none
      | fuel + 1 => (readBE 4 r).bind fun (n, t) => (decMany (dec fuel) n t).map fun (xs, t') => (V.arr .l32 xs, t')
    else if cn = 0xde then
      match fuel with
      | 0 => none
      | fuel + 1 => (readBE 2 r).bind fun (n, t) => (decMany (dec fuel) (2 * n) t).map fun (xs, t') => (V.map .l16 xs, t')
    else if cn = 0xdf then
      match fuel with
      | 0 => none
      | fuel + 1 => (readBE 4 r).bind fun (n, t) => (decMany (dec fuel) (2 * n) t).map fun (xs, t') => (V.map .l32 xs, t')
    else none   -- 0xc1: never used

/-! ### canonical constructors: what the Go encoder with compact ints emits -/

/-- `EncodeUint` -/
def V.ofUint (n : Nat) : V :=
  if n ≤ 127 then .int .posFix n
  else if n ≤ 255 then .int .u8 n
  else if n ≤ 65535 then .int .u16 n
  else if n ≤ 4294967295 then .int .u32 n
  else .int .u64 n

/-- `EncodeInt` -/
def V.ofInt (i : Int) : V :=
  if i ≥ 0 then V.ofUint i.toNat
  else if i ≥ -32 then .int .negFix i
  else if i ≥ -128 then .int .i8 i
  else if i ≥ -32768 then .int .i16 i
  else if i ≥ -2147483648 then .int .i32 i
  else .int .i64 i

/-- `EncodeString` / `EncodeBytes` (non-nil) / array and map headers -/
def strFmt (n : Nat) : LenFmt := if n < 32 then .fix else if n < 256 then .l8 else if n < 65536 then .l16 else .l32
def binFmt (n : Nat) : LenFmt := if n < 256 then .l8 else if n < 65536 then .l16 else .l32
def arrFmt (n : Nat) : LenFmt := if n < 16 then .fix else if n < 65536 then .l16 else .l32

def V.ofStr (s : Bytes) : V := .str (strFmt s.length) s
def V.ofBin (b : Bytes) : V := .bin (binFmt b.length) b
def V.ofArr (xs : List V) : V := .arr (arrFmt xs.length) (VL.ofList xs)
/-- map from a list of (key, value) pairs, in the given order -/
def V.ofMap (kvs : List (V × V)) : V :=
  .map (arrFmt kvs.length) (VL.ofList (kvs.flatMap fun kv => [kv.1, kv.2]))

end Macaroon.Msgpack
