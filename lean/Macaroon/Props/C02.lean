/-
C02 — attenuation can only restrict, and is never silently lost.

Generic theorems (every `Crypto B`; [lawful] = for every `LawfulCrypto B`) about `add`, `dedup`,
`verify` (Token/Macaroon.lean) and `validate`/`prohibits` (Caveat/Prohibits.lean).  Proofs are in
Lemmas/Legit.lean.  `Bundle.Attenuate` is covered with the bundle model: Props/C13
(`attenuate_all_or_nothing`, `attenuate_verified_set`, `attenuated_3p_blocks_until_reverified`,
`third_party_caveat_clears_nothing`, `attenuate_writes_through`).
Non-vacuity: examples over the symbolic instance `B = Term` and, for the byte-level forms, over the
concrete instance `B = Bytes`, checked by the kernel.
Tie: families `attenuate`, `bundle`.
-/
import Macaroon.Lemmas.Legit
import Macaroon.Props.C03
import Macaroon.Props.C11
import Macaroon.Crypto.Symbolic
import Macaroon.Token.Concrete

namespace Macaroon.Props.C02
open Macaroon Macaroon.Crypto Macaroon.Lemmas
variable {B : Type} [Crypto B]

/-! ### `Add` only appends and re-keys the tail; nothing is ever removed -/

/-- `add_shape`: a successful `Add` leaves nonce, location and proof state alone; the new caveat
list is the old one followed by `ys` = the arguments minus those whose encoding is already in the
token or earlier in the arguments (`dedup`), each new third-party caveat with its VerifierKey
sealed under the tail BEFORE it (`realise`); the new tail is the MAC chain of the old tail over
exactly `ys`. -/
theorem add_shape (m m' : Mac B) (items : List (AddItem B)) (h : add m items = (m', none)) :
    m'.nonce = m.nonce ∧ m'.loc = m.loc ∧ m'.newProof = m.newProof ∧
    m'.cavs = m.cavs ++ realise m.tail (dedup m.cavs items []) ∧
    chain m.tail (realise m.tail (dedup m.cavs items [])) = some m'.tail := by
  obtain ⟨_, _, t', hc, rfl⟩ := Lemmas.add_shape m m' items h
  exact ⟨rfl, rfl, rfl, rfl, hc⟩

/-- whether or not `Add` succeeds, the token afterwards still has the same nonce and all the
caveats it had, in place: there is no way to drop or alter a caveat through the API -/
theorem add_never_removes (m : Mac B) (items : List (AddItem B)) :
    (add m items).1.nonce = m.nonce ∧ (add m items).1.loc = m.loc ∧
    ∃ ys, (add m items).1.cavs = m.cavs ++ ys := by
  obtain ⟨h1, h2, _, h4⟩ := add_frame m items
  exact ⟨h1, h2, h4⟩

/-- any chain of successful attenuation steps, by any holders, with any arguments: same nonce, the
original caveats as a prefix, the tail moved along the MAC chain over what was appended -/
theorem attenuation_chain_shape (m m' : Mac B) (h : Attenuated m m') :
    m'.nonce = m.nonce ∧ ∃ ys, m'.cavs = m.cavs ++ ys ∧ chain m.tail ys = some m'.tail := by
  obtain ⟨h1, _, h3⟩ := attenuated_shape m m' h
  exact ⟨h1, h3⟩

/-! ### identical re-add, near-duplicates -/

/-- `readd_identical_is_noop`: re-adding a caveat whose encoding equals that of a caveat of the
token (all caveats encodable, the token not a finalised proof) leaves the token unchanged -/
theorem readd_identical_is_noop (m : Mac B) (c : Cav B)
    (hf : (m.nonce.proof && !m.newProof) = false) (he : allEncodable m [.plain c] = true)
    (hp : ∃ x ∈ m.cavs, sameEnc x c = true) : add m [.plain c] = (m, none) := by
  apply add_present_noop m _ hf he
  intro it hit
  simp only [List.mem_singleton] at hit
  subst hit
  obtain ⟨x, hx, hs⟩ := hp
  exact List.any_eq_true.mpr ⟨x, hx, hs⟩

/-- … for any number of arguments at once (third-party arguments included) -/
theorem readd_all_present_is_noop (m : Mac B) (items : List (AddItem B))
    (hf : (m.nonce.proof && !m.newProof) = false) (he : allEncodable m items = true)
    (hp : ∀ it ∈ items, m.cavs.any (fun c => sameEnc c it.asCav) = true) : add m items = (m, none) :=
  add_present_noop m items hf he hp

/-- `near_duplicate_kept`: a caveat whose encoding differs from that of every caveat of the token —
however little: one field, one element — is appended and MACed -/
theorem near_duplicate_kept (m : Mac B) (c : Cav B)
    (hf : (m.nonce.proof && !m.newProof) = false) (he : allEncodable m [.plain c] = true)
    (hn : ∀ x ∈ m.cavs, sameEnc x c = false)
    (ha : (c.isAttestation && !m.nonce.proof) = false) (hw : c.wrapsAttestation = false) :
    ∃ t, macCav m.tail c = some t ∧
      add m [.plain c] = ({ m with cavs := m.cavs ++ [c], tail := t }, none) := by
  apply add_fresh_plain m c hf he _ ha hw
  cases h : m.cavs.any (fun x => sameEnc x c) with
  | false => rfl
  | true =>
    obtain ⟨x, hx, hs⟩ := List.any_eq_true.mp h
    rw [hn x hx] at hs; cases hs

/-! ### an added caveat is enforced -/

/-- after a successful `Add` of a first-party caveat, every accepted presentation of the resulting
token returns that caveat — or, if `Add` dropped it as a duplicate, the token is unchanged and
already carries a caveat with the same encoding -/
theorem added_caveat_is_returned (k : B) (m m' : Mac B) (c : Cav B) (dms : List (Mac B)) (tr : Bytes → List B)
    (cs : List (Cav B)) (h : add m [.plain c] = (m', none)) (h3 : c.is3P = false) (hb : c.isBind = false)
    (hv : verify k m' dms tr = .ok cs) :
    c ∈ cs ∨ (m' = m ∧ ∃ x ∈ m.cavs, sameEnc x c = true) := by
  rcases add_one_plain m m' c h with hdup | ⟨_, t, _, rfl⟩
  · exact Or.inr hdup
  · exact Or.inl (verify_returns_kept k _ dms tr cs hv c (by simp) (by simp [kept, h3, hb]))

/-- `added_caveat_is_enforced`: where equal encodings mean equal caveats AMONG THE CAVEATS OF THE TOKEN
(`hinj`, asked only of the caveats the token carries: true of the symbolic instance,
`Symbolic.sameEnc_iff`; of the byte encoding when token and argument are well formed,
`added_caveat_is_enforced_bytes`), the added caveat is in every verification result of the new
token, hence every request it prohibits is denied by the resulting token, whatever else clears -/
theorem added_caveat_is_enforced (k : B) (m m' : Mac B) (c : Cav B) (dms : List (Mac B)) (tr : Bytes → List B)
    (cs : List (Cav B)) (h : add m [.plain c] = (m', none)) (h3 : c.is3P = false) (hb : c.isBind = false)
    (hinj : ∀ x ∈ m.cavs, sameEnc x c = true → x = c)
    (hv : verify k m' dms tr = .ok cs) :
    c ∈ cs ∧ (c.isAttestation = false → ∀ r, prohibits c r ≠ [] → ∀ rs, r ∈ rs → validate cs rs ≠ []) := by
  have hmem : c ∈ cs := by
    rcases added_caveat_is_returned k m m' c dms tr cs h h3 hb hv with h1 | ⟨rfl, x, hx, hs⟩
    · exact h1
    · have hxc := hinj x hx hs
      subst hxc
      exact verify_returns_kept k _ dms tr cs hv x hx (by simp [kept, h3, hb])
  exact ⟨hmem, fun ha r hp rs hr => C03.single_prohibition_denies cs rs c r hmem hr ha hp⟩

/-- `added_caveat_is_enforced` for the byte-level model (real msgpack, real HMAC): the token's caveats
and the argument are well formed (`WFCav`: what every decoded token satisfies — C11
`reencode_fixed_point_mac` — and what the Go types can hold: resource sets are maps, i.e. sorted
duplicate-free association lists here).  On such values the canonical encoding is injective
(C11 `encode_injective`), so "already present" means present, and the added caveat is enforced.
Without well-formedness `sameEnc` identifies association lists that differ as lists
(`sameEnc_not_injective_on_raw_lists` below), which is why injectivity is asked of the token's caveats only. -/
theorem added_caveat_is_enforced_bytes (k : Bytes) (m m' : Mac Bytes) (c : Cav Bytes) (dms : List (Mac Bytes))
    (tr : Bytes → List Bytes) (cs : List (Cav Bytes)) (h : add m [.plain c] = (m', none))
    (h3 : c.is3P = false) (hb : c.isBind = false)
    (hwm : ∀ x ∈ m.cavs, WFCav x = true) (hwc : WFCav c = true)
    (hv : verify k m' dms tr = .ok cs) :
    c ∈ cs ∧ (c.isAttestation = false → ∀ r, prohibits c r ≠ [] → ∀ rs, r ∈ rs → validate cs rs ≠ []) := by
  apply added_caveat_is_enforced k m m' c dms tr cs h h3 hb _ hv
  intro x hx hs
  have he : encCav x = encCav c := by
    simp only [Crypto.sameEnc, Bool.and_eq_true, beq_iff_eq] at hs
    exact hs.2
  exact C11.encode_injective.1 x c (hwm x hx) hwc he

/-- never silently lost along the chain either: the added caveat is in every verification result of
every token attenuated further from the resulting one, and every request it prohibits stays denied -/
theorem added_caveat_enforced_in_descendants (k : B) (m m' m'' : Mac B) (c : Cav B) (dms : List (Mac B))
    (tr : Bytes → List B) (cs : List (Cav B)) (h : add m [.plain c] = (m', none))
    (h3 : c.is3P = false) (hb : c.isBind = false)
    (hinj : ∀ x ∈ m.cavs, sameEnc x c = true → x = c)
    (hA : Attenuated m' m'') (hv : verify k m'' dms tr = .ok cs) :
    c ∈ cs ∧ (c.isAttestation = false → ∀ r, prohibits c r ≠ [] → ∀ rs, r ∈ rs → validate cs rs ≠ []) := by
  have hin' : c ∈ m'.cavs := by
    rcases add_one_plain m m' c h with ⟨rfl, x, hx, hs⟩ | ⟨_, t, _, rfl⟩
    · have hxc := hinj x hx hs
      subst hxc; exact hx
    · simp
  obtain ⟨_, _, ys, hc, _⟩ := attenuated_shape m' m'' hA
  have hin'' : c ∈ m''.cavs := by rw [hc]; exact List.mem_append_left _ hin'
  have hmem : c ∈ cs := verify_returns_kept k _ dms tr cs hv c hin'' (by simp [kept, h3, hb])
  exact ⟨hmem, fun ha r hp rs hr => C03.single_prohibition_denies cs rs c r hmem hr ha hp⟩

/-- a third-party caveat anywhere in a token makes the token demand a discharge for its ticket -/
theorem tp_demands_discharge (k : B) (m : Mac B) (dms : List (Mac B)) (tr : Bytes → List B) (cs : List (Cav B))
    (hv : verify k m dms tr = .ok cs) (loc : Bytes) (vk ticket : B) (hc : Cav.tp loc vk ticket ∈ m.cavs) :
    ∃ d ∈ dms, kidEq d.nonce.kid ticket = true :=
  Lemmas.tp_demands_discharge k m dms tr cs hv loc vk ticket hc

/-- `added_3p_demands_discharge`: after a successful `Add` of a fresh third-party caveat the
resulting token is accepted only together with a discharge carrying that caveat's ticket (when
`Add` did not drop it as a duplicate of a caveat already present — `hfresh`; see the next theorem) -/
theorem added_3p_demands_discharge (k : B) (m m' : Mac B) (loc : Bytes) (ticket rn nonce : B)
    (dms : List (Mac B)) (tr : Bytes → List B) (cs : List (Cav B))
    (h : add m [.new3p loc ticket rn nonce] = (m', none))
    (hfresh : ∀ x ∈ m.cavs, sameEnc x (.tp loc Crypto.empty ticket) = false)
    (hv : verify k m' dms tr = .ok cs) :
    m'.cavs = m.cavs ++ [.tp loc (sealKey m.tail nonce rn) ticket] ∧ ∃ d ∈ dms, kidEq d.nonce.kid ticket = true := by
  rcases add_one_3p m m' loc ticket rn nonce h with ⟨_, x, hx, hs⟩ | ⟨t, rfl⟩
  · rw [hfresh x hx] at hs; cases hs
  · exact ⟨rfl, Lemmas.tp_demands_discharge k _ dms tr cs hv loc (sealKey m.tail nonce rn) ticket (by simp)⟩

/-- … and where equal encodings mean equal caveats among the caveats of the token, unconditionally -/
theorem added_3p_demands_discharge_inj (k : B) (m m' : Mac B) (loc : Bytes) (ticket rn nonce : B)
    (dms : List (Mac B)) (tr : Bytes → List B) (cs : List (Cav B))
    (h : add m [.new3p loc ticket rn nonce] = (m', none))
    (hinj : ∀ x ∈ m.cavs, sameEnc x (.tp loc Crypto.empty ticket) = true → x = .tp loc Crypto.empty ticket)
    (hv : verify k m' dms tr = .ok cs) : ∃ d ∈ dms, kidEq d.nonce.kid ticket = true := by
  rcases add_one_3p m m' loc ticket rn nonce h with ⟨rfl, x, hx, hs⟩ | ⟨t, rfl⟩
  · have hxc := hinj x hx hs
    rw [hxc] at hx
    exact Lemmas.tp_demands_discharge k _ dms tr cs hv loc _ ticket hx
  · exact Lemmas.tp_demands_discharge k _ dms tr cs hv loc (sealKey m.tail nonce rn) ticket (by simp)

/-! ### attenuation only restricts -/

omit [Crypto B] in
/-- clearing is a conjunction over the caveats: fewer caveats clear more -/
theorem validate_mono (cs cs' : List (Cav B)) (rs : List Access) (hsub : ∀ c ∈ cs, c ∈ cs')
    (h : validate cs' rs = []) : validate cs rs = [] := by
  rw [C03.validate_iff] at h ⊢
  exact fun r hr => ⟨(h r hr).1, fun c hc ha => (h r hr).2 c (hsub c hc) ha⟩

/-- the binding ids offered by `verify` are those of `Props/C06` -/
theorem offered_eq (k : B) (m : Mac B) :
    offered k m = digest (macNonce k m.nonce) :: (tailsAfter (macNonce k m.nonce) m.cavs).map digest := rfl

/-- `attenuation_monotone` [lawful], same discharges.  `m'` extends the honest token `m` (same
nonce, the caveats of `m` followed by any others — `attenuation_chain_shape`).  If `m'` is verified
with discharges none of which is bound to something newer than `m` (unbound discharges, discharges
bound to `m` or to an ancestor of `m`) and the result clears the requests `rs`, then `m` is verified
with the same discharges and its result — a sublist of the child's — clears `rs` as well. -/
theorem attenuation_monotone [LawfulCrypto B] (k : B) (m m' : Mac B) (ys : List (Cav B))
    (dms : List (Mac B)) (tr : Bytes → List B) (cs' : List (Cav B)) (rs : List Access)
    (hn : m'.nonce = m.nonce) (hc : m'.cavs = m.cavs ++ ys) (hp : m.nonce.proof = false)
    (hm : chain (macNonce k m.nonce) m.cavs = some m.tail)
    (hb : ∀ d ∈ dms, ∀ id, Cav.bind id ∈ d.cavs → (offered k m).any (fun bid => hasPrefix bid id) = true)
    (hv : verify k m' dms tr = .ok cs') (hclear : validate cs' rs = []) :
    ∃ cs, verify k m dms tr = .ok cs ∧ cs.Sublist cs' ∧ validate cs rs = [] := by
  obtain ⟨cs, h1, h2⟩ := attenuation_monotone_same k m m' ys dms tr cs' hn hc hp hm hv hb
  exact ⟨cs, h1, h2, validate_mono cs cs' rs (fun c hc => h2.subset hc) hclear⟩

/-- `attenuation_only_restricts` [lawful]: the statement over histories.  `m` any legitimately
produced token (mint, then any `Add`/encode steps); `m'` reached from `m` by ANY chain of successful
`Add` calls with any arguments whatsoever; discharges not bound to anything newer than `m`.  Whatever
the attenuated token is verified and cleared for, the token it was derived from is verified and
cleared for as well. -/
theorem attenuation_only_restricts [LawfulCrypto B] (k : B) (m m' : Mac B) (hL : Legit k m) (hA : Attenuated m m')
    (dms : List (Mac B)) (tr : Bytes → List B) (cs' : List (Cav B)) (rs : List Access)
    (hb : ∀ d ∈ dms, ∀ id, Cav.bind id ∈ d.cavs → (offered k m).any (fun bid => hasPrefix bid id) = true)
    (hv : verify k m' dms tr = .ok cs') (hclear : validate cs' rs = []) :
    ∃ cs, verify k m dms tr = .ok cs ∧ cs.Sublist cs' ∧ validate cs rs = [] := by
  have inv := legit_inv k m hL
  obtain ⟨hn, _, ys, hc, _⟩ := attenuated_shape m m' hA
  exact attenuation_monotone k m m' ys dms tr cs' rs hn hc inv.notProof inv.tail hb hv hclear

/-- … in particular with discharges that carry no binding at all -/
theorem attenuation_monotone_unbound [LawfulCrypto B] (k : B) (m m' : Mac B) (ys : List (Cav B))
    (dms : List (Mac B)) (tr : Bytes → List B) (cs' : List (Cav B)) (rs : List Access)
    (hn : m'.nonce = m.nonce) (hc : m'.cavs = m.cavs ++ ys) (hp : m.nonce.proof = false)
    (hm : chain (macNonce k m.nonce) m.cavs = some m.tail)
    (hb : ∀ d ∈ dms, ∀ c ∈ d.cavs, c.isBind = false)
    (hv : verify k m' dms tr = .ok cs') (hclear : validate cs' rs = []) :
    ∃ cs, verify k m dms tr = .ok cs ∧ cs.Sublist cs' ∧ validate cs rs = [] :=
  attenuation_monotone k m m' ys dms tr cs' rs hn hc hp hm
    (fun d hd id hid => by have := hb d hd _ hid; simp [Cav.isBind] at this) hv hclear

/-- `attenuation_monotone` [lawful], re-bound discharges.  The child was verified with discharges
`dms'` (bound to the child, say); the parent is presented with `dms'.map f` — each discharge
re-bound to the parent, un-bound, or left alone — where `f` keeps key-id and location and `f d`
stands with the parent as `d` does with the child.  Then the parent is verified and clears
whatever the child cleared.  (A discharge bound to the child is NOT expected to work with the
parent unchanged: C06.) -/
theorem attenuation_monotone_rebound [LawfulCrypto B] (k : B) (m m' : Mac B) (ys : List (Cav B))
    (dms' : List (Mac B)) (tr : Bytes → List B) (cs' : List (Cav B)) (rs : List Access)
    (hn : m'.nonce = m.nonce) (hc : m'.cavs = m.cavs ++ ys) (hp : m.nonce.proof = false)
    (hm : chain (macNonce k m.nonce) m.cavs = some m.tail)
    (f : Mac B → Mac B) (hk : ∀ d ∈ dms', (f d).nonce.kid = d.nonce.kid ∧ (f d).loc = d.loc)
    (hacc : ∀ d ∈ dms', ∀ key ta cs, verifyFlat key (f d) (offered k m) ta = .ok cs ↔
      verifyFlat key d (offered k m') ta = .ok cs)
    (hv : verify k m' dms' tr = .ok cs') (hclear : validate cs' rs = []) :
    ∃ cs, verify k m (dms'.map f) tr = .ok cs ∧ cs.Sublist cs' ∧ validate cs rs = [] := by
  obtain ⟨cs, h1, h2⟩ := attenuation_monotone_map k m m' ys dms' tr cs' hn hc hp hm hv f hk hacc
  exact ⟨cs, h1, h2, validate_mono cs cs' rs (fun c hc => h2.subset hc) hclear⟩

/-- `attenuation_monotone` [lawful], legitimate histories: a legitimate token `m`, a legitimate
token `m'` that extends it, each presented with legitimate discharges for its own third-party
caveats (`GoodDischarge`: however bound), where the discharges for the caveats they share
contribute the same caveats (the same third-party discharges): both are verified, the parent's
result is a sublist of the child's, and the parent clears whatever the child clears. -/
theorem attenuation_monotone_legit [LawfulCrypto B] (k : B) (m m' : Mac B) (ys : List (Cav B))
    (hL : Legit k m) (hL' : Legit k m') (hn : m'.nonce = m.nonce) (hc : m'.cavs = m.cavs ++ ys)
    (dms dms' : List (Mac B)) (tr : Bytes → List B) (dbs dbs' : List (Mac B × Bool))
    (hd : Aligned (GoodDischarge k m dms tr) (secrets k m) dbs)
    (hd' : Aligned (GoodDischarge k m' dms' tr) (secrets k m') dbs')
    (hsame : ∃ more, dbs'.map contrib = dbs.map contrib ++ more) :
    secrets k m' = secrets k m ++ tpKeys m.tail ys ∧
    ∃ cs cs', verify k m dms tr = .ok cs ∧ verify k m' dms' tr = .ok cs' ∧ cs.Sublist cs' ∧
      ∀ rs, validate cs' rs = [] → validate cs rs = [] := by
  refine ⟨secrets_extension k m m' ys hn hc (legit_inv k m hL).tail, ?_⟩
  obtain ⟨cs, cs', h1, h2, h3⟩ := legit_attenuation_monotone k m m' ys hL hL' hc dms dms' tr dbs dbs' hd hd' hsame
  exact ⟨cs, cs', h1, h2, h3, fun rs => validate_mono cs cs' rs (fun c hc => h3.subset hc)⟩

/-! ### non-vacuity (symbolic instance) -/

section examples
open Symbolic Symbolic.Term

def p0 : Mac Term := mint (atom 0) (lit [1]) [] (atom 1) false
def tk : Term := sealTicket (atom 5) (atom 12) (atom 11) [.isUser 3]
/-- parent: a resource caveat and a third-party caveat -/
def p1 : Mac Term := (add p0 [.plain (.apps [(1, Action.all)]), .new3p [9] tk (atom 11) (atom 13)]).1
/-- child: a near-duplicate (one mask differs) and an action caveat -/
def p2 : Mac Term := (add p1 [.plain (.apps [(1, Action.read)]), .plain (.action Action.read)]).1
def dis : Mac Term := mint (atom 11) tk [9] (atom 14) false
def disBoundTo (x : Mac Term) : Mac Term := (bindTo dis x).1
/-- re-binding: the holder binds the third party's discharge to the parent instead -/
def f2to1 (_ : Mac Term) : Mac Term := disBoundTo p1
/-- the tail under which the third-party caveat of `p1` was added -/
def p1mid : Term := (add p0 [.plain (.apps [(1, Action.all)])]).1.tail

example := add_shape p0 p1 [.plain (.apps [(1, Action.all)]), .new3p [9] tk (atom 11) (atom 13)] (by rfl)
example : p1.cavs = [.apps [(1, Action.all)], .tp [9] (sealKey p1mid (atom 13) (atom 11)) tk] := by rfl
example := add_never_removes p1 [.plain (.flyioUserID 1)]
example : add p1 [.plain (.flyioUserID 1)] = (p1, some .attestationOnNonProof) := by rfl
example := attenuation_chain_shape p0 p2 (.step _ _ (.step _ _ .refl (by rfl)) (by rfl))
-- identical re-add: unchanged; near-duplicate: kept
example : add p2 [.plain (.apps [(1, Action.read)])] = (p2, none) :=
  readd_identical_is_noop p2 _ (by rfl) (by rfl) ⟨.apps [(1, Action.read)], by decide, by rfl⟩
example := readd_all_present_is_noop p2 [.plain (.action Action.read), .plain (.apps [(1, Action.all)])]
  (by rfl) (by rfl) (by decide)
example : ∃ t, macCav p1.tail (.apps [(1, Action.read)]) = some t ∧ add p1 [.plain (.apps [(1, Action.read)])] =
    ({ p1 with cavs := p1.cavs ++ [.apps [(1, Action.read)]], tail := t }, none) :=
  near_duplicate_kept p1 _ (by rfl) (by rfl) (by decide) (by rfl) (by rfl)
example : p2.cavs.length = 4 := by rfl
-- enforcement
example := added_caveat_is_enforced (atom 0) p1 _ (.action Action.read) [dis] (fun _ => []) _
  (by rfl : add p1 [.plain (.action Action.read)] = (_, none)) rfl rfl
  (fun x _ hx => (sameEnc_iff x _).mp hx) (by rfl)
example := added_caveat_is_returned (atom 0) p1 _ (.action Action.read) [dis] (fun _ => []) _
  (by rfl : add p1 [.plain (.action Action.read)] = (_, none)) rfl rfl (by rfl)
example : ∃ d ∈ [dis], kidEq d.nonce.kid tk = true :=
  (added_3p_demands_discharge (atom 0) p0 _ [9] tk (atom 11) (atom 13) [dis] (fun _ => []) _
    (by rfl : add p0 [.new3p [9] tk (atom 11) (atom 13)] = (_, none)) (by decide) (by rfl)).2
example := added_3p_demands_discharge_inj (atom 0) p0 _ [9] tk (atom 11) (atom 13) [dis] (fun _ => []) _
  (by rfl : add p0 [.new3p [9] tk (atom 11) (atom 13)] = (_, none)) (fun x _ hx => (sameEnc_iff x _).mp hx) (by rfl)
example : verify (atom 0) (add p0 [.new3p [9] tk (atom 11) (atom 13)]).1 [] (fun _ => []) = .error .noDischarge := by rfl
example := tp_demands_discharge (atom 0) p2 [dis] (fun _ => []) _ (by rfl) [9] (sealKey p1mid (atom 13) (atom 11)) tk (by decide)
-- monotonicity: same discharges (unbound; bound to the parent), re-bound discharges
example : verify (atom 0) p2 [dis] (fun _ => []) =
    .ok [.apps [(1, Action.all)], .apps [(1, Action.read)], .action Action.read] := by rfl
example : verify (atom 0) p1 [dis] (fun _ => []) = .ok [.apps [(1, Action.all)]] := by rfl
example := attenuation_monotone_unbound (atom 0) p1 p2 _ [dis] (fun _ => []) _ [] rfl (by rfl) rfl (by rfl)
  (by decide) (by rfl) (by rfl)
example := attenuation_monotone (atom 0) p1 p2 _ [disBoundTo p1] (fun _ => []) _ [] rfl (by rfl) rfl (by rfl)
  (by
    intro d hd id hid
    simp only [List.mem_singleton] at hd; subst hd
    have : (disBoundTo p1).cavs = [.bind (bindId p1.tail)] := rfl
    rw [this] at hid
    simp only [List.mem_singleton, Cav.bind.injEq] at hid
    subst hid; rfl) (by rfl) (by rfl)
-- bound to the child it fails with the parent (C06) but the re-bound one stands
example : verify (atom 0) p1 [disBoundTo p2] (fun _ => []) = .error .dischargeFailed := by rfl
example : ∃ cs, verify (atom 0) p1 ([disBoundTo p2].map f2to1) (fun _ => []) = .ok cs ∧
    cs.Sublist [.apps [(1, Action.all)], .apps [(1, Action.read)], .action Action.read] ∧ validate cs [] = [] :=
  attenuation_monotone_rebound (atom 0) p1 p2 _ [disBoundTo p2] (fun _ => []) _ [] rfl (by rfl) rfl (by rfl)
    f2to1 (by intro d hd; simp only [List.mem_singleton] at hd; subst hd; exact ⟨rfl, rfl⟩) (by
      intro d hd key ta cs
      simp only [List.mem_singleton] at hd
      subst hd
      have h1 : f2to1 (disBoundTo p2) = disBoundTo p1 := by rfl
      rw [h1]
      have e1 : ∀ key ta, verifyFlat key (disBoundTo p1) (offered (atom 0) p1) ta =
          if (mac (mac key (encNonceT dis.nonce)) (encT (.bind (bindId p1.tail))) == (disBoundTo p1).tail) = true
          then .ok [] else .error .invalid := fun _ _ => rfl
      have e2 : ∀ key ta, verifyFlat key (disBoundTo p2) (offered (atom 0) p2) ta =
          if (mac (mac key (encNonceT dis.nonce)) (encT (.bind (bindId p2.tail))) == (disBoundTo p2).tail) = true
          then .ok [] else .error .invalid := fun _ _ => rfl
      rw [e1, e2]
      have t1 : (disBoundTo p1).tail = mac (mac (atom 11) (encNonceT dis.nonce)) (encT (.bind (bindId p1.tail))) := rfl
      have t2 : (disBoundTo p2).tail = mac (mac (atom 11) (encNonceT dis.nonce)) (encT (.bind (bindId p2.tail))) := rfl
      rw [t1, t2]
      by_cases hk : key = atom 11
      · subst hk; simp
      · simp [hk])
    (by rfl) (by rfl)
-- legitimate parent and child, the third party's discharge bound to each in turn
theorem p1_legit : Legit (atom 0) p1 :=
  .added p0 _ (.minted _ _ _ 1) (by
    intro it hit
    simp only [List.mem_cons, List.not_mem_nil, or_false] at hit
    rcases hit with rfl | rfl
    · exact .plain _ rfl
    · exact .new3p _ _ _ _ trivial) rfl
theorem p2_legit : Legit (atom 0) p2 :=
  .added p1 _ p1_legit (by
    intro it hit
    simp only [List.mem_cons, List.not_mem_nil, or_false] at hit
    rcases hit with rfl | rfl
    · exact .plain _ rfl
    · exact .plain _ rfl) rfl
theorem good1 : Aligned (GoodDischarge (atom 0) p1 [disBoundTo p1] (fun _ => [])) (secrets (atom 0) p1)
    [(disBoundTo p1, false)] :=
  .cons ⟨by rfl, LegitDis.bound dis p1 (.minted [9] (atom 14) 1 false) (by decide) rfl, by rfl, by rfl⟩ .nil
theorem good2 : Aligned (GoodDischarge (atom 0) p2 [disBoundTo p2] (fun _ => [])) (secrets (atom 0) p2)
    [(disBoundTo p2, false)] :=
  .cons ⟨by rfl, LegitDis.bound dis p2 (.minted [9] (atom 14) 1 false) (by decide) rfl, by rfl, by rfl⟩ .nil
example := attenuation_monotone_legit (atom 0) p1 p2 _ p1_legit p2_legit rfl (by rfl)
  [disBoundTo p1] [disBoundTo p2] (fun _ => []) _ _ good1 good2 ⟨[], by rfl⟩
example := attenuation_only_restricts (atom 0) p1 p2 p1_legit (.step _ _ .refl (by rfl)) [dis] (fun _ => []) _ []
  (by intro d hd id hid; simp only [List.mem_singleton] at hd; subst hd; cases hid) (by rfl) (by rfl)
/-- the state after the first of the two caveats of `p1` -/
def pa : Mac Term := (add p0 [.plain (.apps [(1, Action.all)])]).1
theorem pa_to_p2 : Attenuated pa p2 := by
  have h1 : Attenuated pa (add pa [.new3p [9] tk (atom 11) (atom 13)]).1 := .step _ _ .refl (by rfl)
  have e : (add pa [.new3p [9] tk (atom 11) (atom 13)]).1 = p1 := by rfl
  rw [e] at h1
  exact .step _ _ h1 (by rfl)
example := added_caveat_enforced_in_descendants (atom 0) p0 pa p2 (.apps [(1, Action.all)]) [dis] (fun _ => []) _
  (by rfl) rfl rfl (fun x _ hx => (sameEnc_iff x _).mp hx) pa_to_p2 (by rfl)
/-- why injectivity is asked of well-formed values only: at `B = Bytes` the canonical encoding sorts
and de-duplicates resource-set entries, so association lists that differ as lists (and that no Go
map can tell apart) have equal encodings -/
theorem sameEnc_not_injective_on_raw_lists :
    sameEnc (Cav.apps [(2, 1), (1, 1)] : Cav Bytes) (Cav.apps [(1, 1), (2, 1)]) = true ∧
    (Cav.apps [(2, 1), (1, 1)] : Cav Bytes) ≠ Cav.apps [(1, 1), (2, 1)] ∧
    WFCav (Cav.apps [(2, 1), (1, 1)] : Cav Bytes) = false ∧ WFCav (Cav.apps [(1, 1), (2, 1)] : Cav Bytes) = true := by
  decide
example := validate_mono ([.action Action.read] : List (Cav Term)) [.action Action.read, .isUser 1] [] (by decide) (by rfl)

end examples

end Macaroon.Props.C02

#print axioms Macaroon.Props.C02.add_shape
#print axioms Macaroon.Props.C02.add_never_removes
#print axioms Macaroon.Props.C02.attenuation_chain_shape
#print axioms Macaroon.Props.C02.readd_identical_is_noop
#print axioms Macaroon.Props.C02.readd_all_present_is_noop
#print axioms Macaroon.Props.C02.near_duplicate_kept
#print axioms Macaroon.Props.C02.added_caveat_is_returned
#print axioms Macaroon.Props.C02.added_caveat_is_enforced
#print axioms Macaroon.Props.C02.added_caveat_is_enforced_bytes
#print axioms Macaroon.Props.C02.added_caveat_enforced_in_descendants
#print axioms Macaroon.Props.C02.sameEnc_not_injective_on_raw_lists
#print axioms Macaroon.Props.C02.pa_to_p2
#print axioms Macaroon.Props.C02.tp_demands_discharge
#print axioms Macaroon.Props.C02.added_3p_demands_discharge
#print axioms Macaroon.Props.C02.added_3p_demands_discharge_inj
#print axioms Macaroon.Props.C02.validate_mono
#print axioms Macaroon.Props.C02.offered_eq
#print axioms Macaroon.Props.C02.attenuation_monotone
#print axioms Macaroon.Props.C02.attenuation_only_restricts
#print axioms Macaroon.Props.C02.attenuation_monotone_unbound
#print axioms Macaroon.Props.C02.attenuation_monotone_rebound
#print axioms Macaroon.Props.C02.attenuation_monotone_legit
#print axioms Macaroon.Props.C02.p1_legit
#print axioms Macaroon.Props.C02.p2_legit
#print axioms Macaroon.Props.C02.good1
#print axioms Macaroon.Props.C02.good2
