/-
C13 — a bundle authorises exactly what one of its own tokens authorises.

Theorems about the value-level bundle model of `Macaroon/Bundle/Model.lean` (`Bundle.parse`,
`verify`, `validate`, `addTokens`, `select`, `filter`, `attenuate`, `discharge`, `clone`, `header`)
on top of the concrete token logic (`Macaroon.verify`, `add`, `dischargeTicket`, the codec) and the
header tokeniser of C19.  The object-level operations the driver runs (`HBundle.*`, on a `Heap` of
`*UnverifiedMacaroon`s and `Caveats` cells) refine them: `hop_refines` (view ∘ op = op ∘ view on a
bundle that owns its objects), `hop_frame` (slices that share no object with the bundle operated on
keep their view and stay apart), `clone_shares_nothing`; the negative side is
`select_shares_objects` (a `Select`-derived bundle DOES share, so the frame hypothesis is needed).
Tie: families `bundle` (histories, per-step state of every live bundle; `spec.bundle` lines compare
the bundle's verdict per token with direct `macaroon.Verify` + `CaveatSet.Validate`).

`discharge` is the documented operation (the code after the repair of F6); `dischargeF6` is the
code as found, kept as the negative witness `f6_discharge_violates_contract`.
-/
import Macaroon.Lemmas.Bundle
import Macaroon.Lemmas.Refine
import Macaroon.Lemmas.ReadsBack
import Macaroon.Props.C04
import Macaroon.Props.C19
import Macaroon.Props.C03
import Macaroon.Lemmas.Legit
import Macaroon.Generated.Consts

namespace Macaroon.Props.C13
open Macaroon Macaroon.Bundle Macaroon.Lemmas.BundleL

/-! ### the decision -/

/-- **Main theorem.**  A bundle verified with an issuer's keys clears the requests exactly when some
permission token in it — a well-formed macaroon whose location is the issuer's — is accepted by
`Macaroon.verify` under the key for its key-id, together with the bundle's discharge tokens whose
key-id is one of its tickets (`dischargesOf`), and the caveats `verify` returns clear every request.
`VerifiedArePerm` holds for every parsed bundle and is kept by every operation (`invariant`). -/
theorem bundle_decision (b : Bundle) (R : Bundle.Resolver) (rs : List Access) (hb : VerifiedArePerm b) :
    (b.verify R).validate rs = true ↔
      ∃ t ∈ b.ts, b.isPerm t = true ∧ ∃ m, t.mac? = some m ∧ ∃ key, R.key m.nonce.kid = some key ∧ ∃ cs,
        Macaroon.verify key m ((dischargesOf b.permLoc b.ts t).filterMap Tok.mac?) R.trusted = .ok cs ∧
        Macaroon.validate cs rs = [] :=
  Lemmas.BundleL.bundle_decision b R rs hb

/-- for any Authorization header and any filter: the statement for the freshly parsed bundle -/
theorem header_decision (pl : Bytes) (hdr : Str) (f : Filter) (R : Bundle.Resolver) (rs : List Access) :
    let b := (Bundle.parseWith pl hdr f).1
    (b.verify R).validate rs = true ↔
      ∃ t ∈ b.ts, b.isPerm t = true ∧ ∃ m, t.mac? = some m ∧ ∃ key, R.key m.nonce.kid = some key ∧ ∃ cs,
        Macaroon.verify key m ((dischargesOf b.permLoc b.ts t).filterMap Tok.mac?) R.trusted = .ok cs ∧
        Macaroon.validate cs rs = [] :=
  Lemmas.BundleL.bundle_decision _ R rs (inv_parseWith pl hdr f)

/-- the invariant of `bundle_decision` is established by parsing and kept by every operation
(attenuation: under the codec fact that re-decoding an encoded token keeps its location, C11) -/
theorem invariant :
    (∀ pl hdr f, VerifiedArePerm (Bundle.parseWith pl hdr f).1) ∧
    (∀ b hdr, VerifiedArePerm b → VerifiedArePerm (b.addTokens hdr).1) ∧
    (∀ b f, VerifiedArePerm b → VerifiedArePerm (b.select f)) ∧
    (∀ b f, VerifiedArePerm b → VerifiedArePerm (b.filter f)) ∧
    (∀ b o, VerifiedArePerm b → VerifiedArePerm (b.verifyBy o)) ∧
    (∀ b : Bundle, VerifiedArePerm b.clone) ∧
    (∀ sc b loc ka cb rnds, VerifiedArePerm b → VerifiedArePerm (Bundle.dischargeWith sc b loc ka cb rnds).1) ∧
    (∀ b items, VerifiedArePerm b → (∀ t ∈ b.ts, ∀ m, t.mac? = some m → CloneKeepsLoc m) →
      VerifiedArePerm (b.attenuate items).1) :=
  ⟨inv_parseWith, inv_addTokens, inv_select, inv_filter, inv_verifyBy, inv_clone, inv_dischargeWith, inv_attenuate⟩

/-- "together with the header's discharges matching its tickets" is literal: presenting further
discharges whose key-id matches none of the token's tickets (in front or behind) changes nothing
(`extra_discharges_irrelevant` of C04) -/
theorem unmatched_discharges_change_nothing (key : Bytes) (m : M) (matching extra : List M) (tr : Bytes → List Bytes)
    (h : ∀ loc vk ticket, Cav.tp loc vk ticket ∈ m.cavs → ∀ d ∈ extra, Crypto.kidEq d.nonce.kid ticket = false) :
    Macaroon.verify key m (matching ++ extra) tr = Macaroon.verify key m matching tr ∧
    Macaroon.verify key m (extra ++ matching) tr = Macaroon.verify key m matching tr :=
  C04.extra_discharges_irrelevant key m matching extra tr h

/-- the order in which the tickets are walked (Go: map order over locations) cannot matter:
verification depends on the candidates only through the per-ticket candidate lists -/
theorem verify_perm_stable (key : Bytes) (m : M) (d1 d2 : List M) (tr : Bytes → List Bytes)
    (h : ∀ loc vk ticket, Cav.tp loc vk ticket ∈ m.cavs → byTicket d1 ticket = byTicket d2 ticket) :
    Macaroon.verify key m d1 tr = Macaroon.verify key m d2 tr :=
  verify_byTicket_congr key m d1 d2 tr h

/-- tokens of other locations never authorise: the token found by `bundle_decision` is a
well-formed macaroon located at the issuer -/
theorem only_issuer_tokens_authorise (b : Bundle) (R : Bundle.Resolver) (rs : List Access) (hb : VerifiedArePerm b)
    (h : (b.verify R).validate rs = true) :
    ∃ t ∈ b.ts, t.isWellFormed = true ∧ ∃ m, t.mac? = some m ∧ m.loc = b.permLoc := by
  obtain ⟨t, ht, hp, m, hm, _⟩ := (bundle_decision b R rs hb).mp h
  obtain ⟨m', hm', hl⟩ := (isPermAt_iff _ _).mp hp
  exact ⟨t, ht, isPermAt_wellFormed hp, m', hm', hl⟩

/-- tokens of other locations are left as they are by `Verify` -/
theorem foreign_tokens_untouched (b : Bundle) (o : Bundle.Oracle) :
    (b.verifyBy o).ts = b.ts.map fun t => if b.isPerm t then Bundle.verdict t (o t (dischargesOf b.permLoc b.ts t)) else t := rfl

/-- malformed and non-macaroon entries never contribute: dropping them all leaves the decision as it was -/
theorem malformed_and_nonmacaroon_never_contribute (pl : Bytes) (R : Bundle.Resolver) (rs : List Access) (ts : List Tok)
    (inv : VerifiedArePerm ⟨pl, ts⟩) :
    ((⟨pl, ts.filter Tok.isWellFormed⟩ : Bundle).verify R).validate rs = ((⟨pl, ts⟩ : Bundle).verify R).validate rs :=
  junk_irrelevant pl R rs ts inv

/-- discharges for other tickets never contribute (nor does anything else `DefaultFilter` drops):
the default filter and `KeepAll` give the same decision on every header -/
theorem default_filter_keeps_decision (pl : Bytes) (hdr : Str) (R : Bundle.Resolver) (rs : List Access) :
    ((Bundle.parse pl hdr).1.verify R).validate rs = ((Bundle.parseWith pl hdr .keepAll).1.verify R).validate rs := by
  have h := default_filter_decision pl R rs (parseToks hdr) (fun t ht hv => by
    simp [(parseToks_fresh hdr t ht).1] at hv)
  simpa [Bundle.parse, Bundle.parseWith, keepAll_apply] using h

/-- failed tokens never contribute: validation looks at verified tokens only -/
theorem failed_tokens_never_contribute (b : Bundle) (rs : List Access) :
    b.validate rs = true ↔ ∃ cs ∈ b.ts.filterMap Tok.cs?, Macaroon.validate cs rs = [] :=
  validate_iff b rs

/-- a token `Verify` marks failed is one the key resolver does not accept -/
theorem failed_means_rejected (b : Bundle) (R : Bundle.Resolver) (t : Tok)
    (hf : (Bundle.verdict t (R.oracle t (dischargesOf b.permLoc b.ts t))).isFailed = true) :
    ∀ m key cs, t.mac? = some m → R.key m.nonce.kid = some key →
      Macaroon.verify key m ((dischargesOf b.permLoc b.ts t).filterMap Tok.mac?) R.trusted ≠ .ok cs := by
  intro m key cs hm hk hv
  have := (oracle_some_iff R t _ cs).mpr ⟨m, hm, key, hk, hv⟩
  rw [this] at hf
  simp [Bundle.verdict, hm, Tok.isFailed] at hf

/-! ### printing -/

/-- `Header()` of a header parsed with `KeepAll` is the header normalised (C19): schemes and outer
white space stripped, parts trimmed and re-joined with `,`, prefixed with `FlyV1 `; the tokens carry
the trimmed parts verbatim, in order -/
theorem header_parse_print (pl : Bytes) (hdr : Str) :
    (Bundle.parseWith pl hdr .keepAll).1.header
      = Header.schemeFlyV1 ++ ' ' :: Header.joinWith ',' ((Header.parts hdr).map Header.trim) ∧
    (Bundle.parseWith pl hdr .keepAll).1.header = Header.header (Header.parseToks hdr) ∧
    (Bundle.parseWith pl hdr .keepAll).1.ts.map Tok.str = (Header.parts hdr).map Header.trim := by
  have h1 : (Bundle.parseWith pl hdr .keepAll).1.ts = parseToks hdr := keepAll_apply pl _
  refine ⟨?_, ?_, ?_⟩
  · simp only [Bundle.header, h1]; exact headerOf_parseToks hdr
  · simp only [Bundle.header, h1]; rw [headerOf_parseToks, (C19.header_parseToks hdr).1]
  · rw [h1]; exact parseToks_str hdr

/-- with the default filter the kept tokens appear in their original order, verbatim: the token list
is the parsed list with exactly the malformed tokens and the discharges for nobody's ticket removed -/
theorem default_filter_keeps_order (pl : Bytes) (hdr : Str) :
    (Bundle.parse pl hdr).1.ts = (parseToks hdr).filter (defaultKeep pl (parseToks hdr)) ∧
    ((Bundle.parse pl hdr).1.ts).Sublist (parseToks hdr) ∧
    (Bundle.parse pl hdr).2 = hasError (parseToks hdr) :=
  ⟨default_apply pl _, by rw [show (Bundle.parse pl hdr).1.ts = _ from default_apply pl _]; exact List.filter_sublist, rfl⟩

/-- what the default filter keeps -/
theorem default_filter_keeps (pl : Bytes) (ts : List Tok) (t : Tok) :
    defaultKeep pl ts t = true ↔
      t.isNonMac = true ∨ isPermAt pl t = true ∨
      (t.isWellFormed = true ∧ isPermAt pl t = false ∧
        ∃ p ∈ ts, isPermAt pl p = true ∧ ∃ lt ∈ p.tickets, t.kid? = some lt.2) := by
  simp [defaultKeep, isDisAt, hasPermFor, List.any_eq_true, and_assoc, or_assoc]

/-- **a discharge is matched by its ticket alone.**  The Location of a discharge is its minter's choice
and is not signed; the only thing the bundle asks of it is that it is NOT the permission location
(else the token is a permission token).  Any well-formed macaroon located elsewhere — trailing slash,
other case, another host, empty — whose key-id is a ticket of some permission token of the list is
kept by `DefaultFilter`, is among that token's candidates (`dischargesFor`), and so is handed to
`verify`; the location written in the third-party CAVEAT plays no part either -/
theorem discharge_matched_by_ticket_alone (pl : Bytes) (ts : List Tok) (d p : Tok) (m : M)
    (hd : d ∈ ts) (hm : d.mac? = some m) (hloc : m.loc ≠ pl)
    (hp : p ∈ ts) (hperm : isPermAt pl p = true) (lt : Bytes × Bytes) (hlt : lt ∈ p.tickets) (hk : m.nonce.kid = lt.2) :
    defaultKeep pl ts d = true ∧ d ∈ dischargesFor pl ts lt.2 ∧ d ∈ dischargesOf pl ts p ∧
    d ∈ Filter.default.apply pl ts := by
  have hnp : isPermAt pl d = false := by simp [isPermAt, hm, hloc]
  have hdis : isDisAt pl d = true := by simp [isDisAt, Tok.isWellFormed, hm, hnp]
  have hkid : d.kid? = some lt.2 := by simp [Tok.kid?, hm, hk]
  have h1 : d ∈ dischargesFor pl ts lt.2 := mem_dischargesFor.mpr ⟨hd, hdis, hkid⟩
  have h2 : defaultKeep pl ts d = true := defaultKeep_discharge hp hperm hlt h1
  refine ⟨h2, h1, ?_, ?_⟩
  · simp only [dischargesOf, List.mem_flatMap]
    exact ⟨lt, hlt, h1⟩
  · rw [default_apply]
    exact List.mem_filter.mpr ⟨hd, h2⟩

/-! ### operation contracts -/

/-- `AddTokens`: a header with a malformed token changes nothing … -/
theorem addTokens_err (b : Bundle) (hdr : Str) (h : hasError (parseToks hdr) = true) : b.addTokens hdr = (b, true) := by
  simp [Bundle.addTokens, h]

/-- … otherwise all its tokens are appended, in order, and the old ones are untouched -/
theorem addTokens_ok (b : Bundle) (hdr : Str) (h : hasError (parseToks hdr) = false) :
    b.addTokens hdr = ({ b with ts := b.ts ++ parseToks hdr }, false) := by
  simp [Bundle.addTokens, h]

/-- `Select` does not change the bundle it is called on (it is a function of it), keeps order, and
selects a sub-list; on objects it allocates nothing and writes nothing (`HBundle.select` returns no heap) -/
theorem select_pure (b : Bundle) (f : Filter) :
    (b.select f).permLoc = b.permLoc ∧ (b.select f).ts = applyMask (f.mask b.permLoc b.ts) b.ts ∧
    (b.select f).ts.Sublist b.ts :=
  ⟨rfl, rfl, applyMask_sublist _ _⟩

/-- `Select` shares the tokens: the derived bundle's view is the selection of the parent's view -/
theorem select_shares (h : Heap) (b : HBundle) (f : Filter) :
    (HBundle.select h b f).view h = (b.view h).select f := by
  simp only [HBundle.view, HBundle.select, Bundle.select, Filter.apply, Heap.view]
  rw [applyMask_map_comm]

/-- `Filter` removes exactly the tokens the filter does not keep, in place, order kept -/
theorem filter_effect (b : Bundle) (f : Filter) :
    (b.filter f).permLoc = b.permLoc ∧ (b.filter f).ts = applyMask (f.mask b.permLoc b.ts) b.ts ∧
    (b.filter f).ts.Sublist b.ts ∧
    (b.filter .keepAll) = b ∧ (b.filter .keepNone).ts = [] :=
  ⟨rfl, rfl, applyMask_sublist _ _, by simp [Bundle.filter, keepAll_apply],
   by simp only [Bundle.filter, Filter.apply, Filter.mask]; exact applyMask_all_false _⟩

/-- predicate filters keep exactly the tokens that satisfy the predicate -/
theorem filter_predicates (pl : Bytes) (ts : List Tok) :
    Filter.isPerm.apply pl ts = ts.filter (isPermAt pl) ∧
    (∀ l, (Filter.location l).apply pl ts = ts.filter (isPermAt l)) ∧
    Filter.isVerified.apply pl ts = ts.filter Tok.isVerified ∧
    Filter.isUnverified.apply pl ts = ts.filter Tok.isUnverified ∧
    Filter.isFailed.apply pl ts = ts.filter Tok.isFailed ∧
    Filter.isMalformed.apply pl ts = ts.filter Tok.isMalformed ∧
    Filter.isNonMacaroon.apply pl ts = ts.filter Tok.isNonMac ∧
    Filter.isWellFormed.apply pl ts = ts.filter Tok.isWellFormed :=
  ⟨applyMask_map _ _, fun _ => applyMask_map _ _, applyMask_map _ _, applyMask_map _ _, applyMask_map _ _,
   applyMask_map _ _, applyMask_map _ _, applyMask_map _ _⟩

/-- `Attenuate` is all or nothing (the model defines it where the text printed for a new token reads
back as the macaroon stored for it, `Bundle.readsBack`, and fails closed elsewhere — e.g. on a caveat
whose resource set is not in canonical order, a value with no Go counterpart; the guard is exactly
well-formedness and never fires on well-formed input: `readsBack_iff_wellformed`,
`attenuate_defined_of_wellformed` below): on any failure the bundle
is what it was — the WHOLE token list,
and a `Tok.verified` carries its verified caveat set, so the verified sets (what `Validate`,
`AllowsAccess`, `IsForOrg` look at) are covered as well as the printed text
(`failed_attenuate_changes_nothing` spells it out); on success every
permission token (and no other) is replaced by its attenuation — `Add` on a clone, printed — keeping
its kind, and a verified token's verified caveats gain exactly the caveats `Add` appended -/
theorem attenuate_all_or_nothing (b : Bundle) (items : List (AddItem Bytes)) :
    ((b.attenuate items).2 = true → (b.attenuate items).1 = b) ∧
    ((b.attenuate items).2 = false →
      (b.attenuate items).1.permLoc = b.permLoc ∧
      b.ts.map (fun t => if b.isPerm t then Bundle.attTok items t else some t) = (b.attenuate items).1.ts.map some) ∧
    (∀ t t' : Tok, Bundle.attTok items t = some t' → t'.kind = t.kind) ∧
    (∀ s m cs t', Bundle.attTok items (.verified s m cs) = some t' →
      ∃ s' m' added, Bundle.attMac items m = some (s', m', added) ∧ t' = .verified s' m' (cs ++ added)) ∧
    (∀ m s' m' added, Bundle.attMac items m = some (s', m', added) →
      ∃ c bytes, (Concrete.encode m).2.bind Concrete.decode = some c ∧ (add c items).2 = none ∧
        Concrete.encode (add c items).1 = (m', some bytes) ∧ s' = macString bytes ∧
        added = (add c items).1.cavs.drop c.cavs.length ∧ Concrete.decode bytes = some m') :=
  ⟨attenuate_err b items, attenuate_ok b items, attTok_kind items, attTok_verified items, attMac_spec items⟩

/-- **a failed `Attenuate` changes nothing**, whichever token made it fail and wherever that token
stands: not the printed header, not the kinds, and not the verified caveat sets — so `Validate`, the
`AllowsAccess` / `IsForOrg` filters and every later operation answer exactly as before, also for the
tokens on which the attenuation by itself would have succeeded -/
theorem failed_attenuate_changes_nothing (b : Bundle) (items : List (AddItem Bytes)) (h : (b.attenuate items).2 = true) :
    (b.attenuate items).1 = b ∧ (b.attenuate items).1.verifiedSets = b.verifiedSets ∧
    (b.attenuate items).1.header = b.header ∧ (∀ rs, (b.attenuate items).1.validate rs = b.validate rs) ∧
    (∀ f, (b.attenuate items).1.select f = b.select f) := by
  have e := attenuate_err b items h
  rw [e]
  exact ⟨rfl, rfl, rfl, fun _ => rfl, fun _ => rfl⟩

/-- one token failing is enough: the attenuation of the whole bundle fails as soon as `attTok` fails on
some permission token (a sibling with a third-party caveat for the same location, a finalised proof
at the permission location, …) -/
theorem attenuate_fails_if_one_token_fails (b : Bundle) (items : List (AddItem Bytes)) (t : Tok) (ht : t ∈ b.ts)
    (hp : b.isPerm t = true) (hf : Bundle.attTok items t = none) : b.attenuate items = (b, true) := by
  unfold Bundle.attenuate Bundle.attenuateTs
  rw [mapM_none_of_mem _ _ t ht (by simp only [Bundle.isPerm] at hp; simp [hp, hf])]

/-- **the verified set after attenuation**: a verified permission token of a successfully attenuated
bundle is replaced by a verified token whose verified set is the old set followed by EXACTLY the
caveats `Add` appended to its clone — whatever their kind: plain caveats and third-party caveats
alike (nothing is filtered out on the way; `Verify` would not have returned a third-party caveat,
`Attenuate` does put it there) -/
theorem attenuate_verified_set (b : Bundle) (items : List (AddItem Bytes)) (hok : (b.attenuate items).2 = false)
    (s : Str) (m : M) (cs : CS) (ht : Tok.verified s m cs ∈ b.ts) (hp : b.isPerm (.verified s m cs) = true) :
    ∃ s' m' c bytes, (Concrete.encode m).2.bind Concrete.decode = some c ∧ (add c items).2 = none ∧
      Concrete.encode (add c items).1 = (m', some bytes) ∧ s' = macString bytes ∧
      Tok.verified s' m' (cs ++ (add c items).1.cavs.drop c.cavs.length) ∈ (b.attenuate items).1.ts :=
  Lemmas.BundleL.attenuate_verified_set b items hok s m cs ht hp

/-- **the verified set agrees with re-verification on what was added.**  After a successful
attenuation the verified set of a verified token is `cs ++ added` with `added` = exactly the caveats
`Add` appended, in that order (`attenuate_verified_set`) — not the caller's argument list, from which
`Add` may have skipped duplicates at any position.  Consequently every first-party caveat that was
appended is enforced the same way without and with re-verification: it is in the verified set, it is
in the result of every accepted verification of the attenuated token (`verify_returns_kept`), and a
request it prohibits is refused by `Validate` on the attenuated bundle exactly as it is after
re-parsing and re-verifying the printed header. -/
theorem appended_caveats_enforced_like_reverification (cs : CS) (c : M) (items : List (AddItem Bytes))
    (x : Cav Bytes) (hx : x ∈ (add c items).1.cavs.drop c.cavs.length)
    (hk : Lemmas.kept true x = true) (hna : x.isAttestation = false) :
    x ∈ cs ++ (add c items).1.cavs.drop c.cavs.length ∧
    (∀ key dms tr cs₂, Macaroon.verify key (add c items).1 dms tr = .ok cs₂ → x ∈ cs₂) ∧
    (∀ r rs, r ∈ rs → prohibits x r ≠ [] →
      Macaroon.validate (cs ++ (add c items).1.cavs.drop c.cavs.length) rs ≠ [] ∧
      ∀ key dms tr cs₂, Macaroon.verify key (add c items).1 dms tr = .ok cs₂ → Macaroon.validate cs₂ rs ≠ []) := by
  have h1 : x ∈ cs ++ (add c items).1.cavs.drop c.cavs.length := List.mem_append_right _ hx
  have h2 : ∀ key dms tr cs₂, Macaroon.verify key (add c items).1 dms tr = .ok cs₂ → x ∈ cs₂ :=
    fun key dms tr cs₂ hv => Lemmas.verify_returns_kept key _ dms tr cs₂ hv x (List.mem_of_mem_drop hx) hk
  refine ⟨h1, h2, ?_⟩
  intro r rs hr hp
  exact ⟨C03.single_prohibition_denies _ rs x r h1 hr hna hp,
    fun key dms tr cs₂ hv => C03.single_prohibition_denies cs₂ rs x r (h2 key dms tr cs₂ hv) hr hna hp⟩

/-- what `Add` appends for one fresh third-party item (`NewCaveat3P`): the third-party caveat itself,
with the VerifierKey sealed under the tail before it — unless a caveat with the same encoding was
already in the token (then `dedup` drops the item) -/
theorem add_single_third_party (c : M) (loc tk rn n : Bytes) (c' : M) (h : add c [.new3p loc tk rn n] = (c', none)) :
    c'.cavs = c.cavs ++ [.tp loc (Crypto.sealKey c.tail n rn) tk] ∨
    ((c.cavs.any fun x => Crypto.sameEnc x (.tp loc Crypto.empty tk)) = true ∧ c'.cavs = c.cavs) :=
  add_single_new3p c loc tk rn n c' h

/-- a third-party caveat in a caveat set clears nothing: `Prohibits` of a `Caveat3P` is `ErrBadCaveat` -/
theorem third_party_caveat_clears_nothing (cs : CS) (loc vk tk : Bytes) (h : Cav.tp loc vk tk ∈ cs)
    (rs : List Access) (hne : rs ≠ []) : Macaroon.validate cs rs ≠ [] :=
  validate_tp_blocks cs loc vk tk h rs hne

/-- **attenuated_3p_blocks_until_reverified.**  After a successful attenuation in which `Add` appended
a third-party caveat to every verified token, `Validate` refuses every non-empty request list: the
verified sets now hold the third-party caveat, and only a new `Verify` — which needs the discharge —
can clear anything again -/
theorem attenuated_3p_blocks_until_reverified (b : Bundle) (items : List (AddItem Bytes))
    (hok : (b.attenuate items).2 = false) (inv : VerifiedArePerm b)
    (h3p : ∀ s m cs, Tok.verified s m cs ∈ b.ts → ∀ c, (Concrete.encode m).2.bind Concrete.decode = some c →
      ∃ loc vk tk, Cav.tp loc vk tk ∈ (add c items).1.cavs.drop c.cavs.length)
    (rs : List Access) (hne : rs ≠ []) : (b.attenuate items).1.validate rs = false :=
  attenuated_3p_blocks b items hok inv h3p rs hne

/-- attenuating through a derived bundle is visible in the parent (the code documents that `Select`
shares the tokens): the objects the derived bundle points to are rewritten in place -/
theorem attenuate_writes_through (h : Heap) (b : HBundle) (items : List (AddItem Bytes)) :
    (HBundle.attenuate h b items).2 = ((b.view h).attenuate items).2 ∧
    ((HBundle.attenuate h b items).2 = true → (HBundle.attenuate h b items).1 = h) := by
  unfold HBundle.attenuate Bundle.attenuate HBundle.view
  cases Bundle.attenuateTs b.permLoc items (h.view b.rs) <;> simp

/-- `Discharge(loc, ka, cb)` as documented (and as the code does after the repair of F6): on failure
the bundle is what it was; on success exactly one new unverified discharge per undischarged ticket OF
THAT LOCATION is appended — in ticket order, keyed by the ticket, located at the third party — and
nothing else is touched -/
theorem discharge_effect (b : Bundle) (loc ka : Bytes) (cb : Bundle.Discharger) (rnds : List Bytes) :
    ((b.discharge loc ka cb rnds).2 = true → (b.discharge loc ka cb rnds).1 = b) ∧
    ((b.discharge loc ka cb rnds).2 = false → ∃ ds, (b.discharge loc ka cb rnds).1 = { b with ts := b.ts ++ ds } ∧
        ds.map Tok.kid? = (b.undischargedTicketsFor loc).map some ∧
        ∀ d ∈ ds, d.isUnverified = true ∧ isPermAt loc d = true) :=
  Lemmas.BundleL.discharge_effect b loc ka cb rnds

/-- **discharge_all_or_nothing.**  `Discharge(loc, ka, cb)` returns an error exactly when the work
on SOME undischarged ticket of that location fails — the ticket does not open under `ka` (sealed
under another key, garbage) or opens to garbage, the callback refuses it, `Add` refuses the caveats
the callback returned, the discharge cannot be encoded — and then the token list is exactly what it
was: discharges already staged for the other tickets of the same call are NOT appended (whether the
failing ticket comes first, last or in between) -/
theorem discharge_all_or_nothing (b : Bundle) (loc ka : Bytes) (cb : Bundle.Discharger) (rnds : List Bytes) :
    ((b.discharge loc ka cb rnds).2 = true ↔
      ∃ tr ∈ Bundle.withRnd (b.undischargedTicketsFor loc) rnds, Bundle.dischargeOne loc ka cb tr.1 tr.2 = none) ∧
    ((b.discharge loc ka cb rnds).2 = true → (b.discharge loc ka cb rnds).1 = b) :=
  dischargeWith_all_or_nothing .thatLocation b loc ka cb rnds

/-- the ways one ticket can fail -/
theorem discharge_ticket_failures (loc ka : Bytes) (cb : Bundle.Discharger) (ticket rnd : Bytes) :
    (Crypto.openTicket ka ticket = TicketResult.cannotOpen → Bundle.dischargeOne loc ka cb ticket rnd = none) ∧
    (Crypto.openTicket ka ticket = TicketResult.badPlaintext → Bundle.dischargeOne loc ka cb ticket rnd = none) ∧
    (∀ dk tcavs, Crypto.openTicket ka ticket = TicketResult.ok dk tcavs → cb tcavs = none →
      Bundle.dischargeOne loc ka cb ticket rnd = none) ∧
    (∀ dk tcavs items, Crypto.openTicket ka ticket = TicketResult.ok dk tcavs → cb tcavs = some items →
      (add (mint dk ticket loc rnd true) items).2 ≠ none → Bundle.dischargeOne loc ka cb ticket rnd = none) := by
  refine ⟨?_, ?_, ?_, ?_⟩
  · intro h; unfold Bundle.dischargeOne dischargeTicket; rw [h]
  · intro h; unfold Bundle.dischargeOne dischargeTicket; rw [h]
  · intro dk tcavs h hcb; unfold Bundle.dischargeOne dischargeTicket; rw [h]; simp only [hcb]
  · intro dk tcavs items h hcb hadd
    unfold Bundle.dischargeOne dischargeTicket
    rw [h]
    simp only [hcb]
    cases hx : add (mint dk ticket loc rnd true) items with
    | mk m' e =>
      cases e with
      | none => rw [hx] at hadd; exact absurd rfl hadd
      | some e' => rfl

/-- **F6, negative witness.**  The code as found walks the undischarged tickets of EVERY location with
the one key it was given: whenever the bundle holds an undischarged ticket that this key does not
open — e.g. the ticket of a second third party — the call fails, although the documented operation
(here: nothing to do for `loc`) succeeds.  So a token with third parties A and B can never be
discharged for A. -/
theorem f6_discharge_violates_contract (b : Bundle) (loc ka : Bytes) (cb : Bundle.Discharger) (rnds : List Bytes)
    (lt : Bytes × Bytes) (hlt : lt ∈ b.undischargedTickets)
    (hopen : Crypto.openTicket ka lt.2 = TicketResult.cannotOpen)
    (hnone : b.undischargedTicketsFor loc = []) :
    b.dischargeF6 loc ka cb rnds = (b, true) ∧ b.discharge loc ka cb rnds = (b, false) :=
  ⟨f6_blocks b loc ka cb rnds lt hlt hopen, discharge_nothing_to_do b loc ka cb rnds hnone⟩

/-- `Clone` prints and re-parses: the copy is the parse of the original's header (verification
results are not carried over); on objects every token of the copy is freshly allocated
(`HBundle.clone` goes through `Heap.alloc`), so nothing done to one is visible in the other
(`Props/C14.lean: bundles_isolated` is the same fact for separately parsed bundles) -/
theorem clone_independent (b : Bundle) :
    b.clone.permLoc = b.permLoc ∧ b.clone.ts = parseToks b.header ∧
    (∀ t ∈ b.clone.ts, t.isVerified = false ∧ t.isFailed = false) ∧
    b.clone.header = Header.schemeFlyV1 ++ ' ' :: Header.joinWith ',' ((Header.parts b.header).map Header.trim) :=
  ⟨rfl, rfl, fun t ht => parseToks_fresh _ t ht, headerOf_parseToks _⟩

/-- **clone_faithful.**  `Clone` (print, re-parse) yields the same tokens in the same order, each as it
was before verification, whenever printing and re-parsing can be faithful at all: every token is what
re-parsing its own text gives (`Stable`: true of every parsed token, of what `Verify` leaves, of what
`Attenuate`/`Discharge` mint), no token text contains white space or a comma (true of every macaroon
token: label, `_`, base64), and the bundle does not print as the empty string.  The two examples after
it are the boundary: an empty bundle, and a first token that starts with a scheme word. -/
theorem clone_faithful (b : Bundle) (hst : ∀ t ∈ b.ts, Stable t) (hsp : ∀ t ∈ b.ts, Header.NoSpace t.str)
    (hc : ∀ t ∈ b.ts, ',' ∉ t.str) (hne : tokString b.ts ≠ []) :
    b.clone.permLoc = b.permLoc ∧ b.clone.ts = b.ts.map Tok.unverify :=
  Lemmas.BundleL.clone_faithful b hst hsp hc hne

/-- every freshly parsed token is stable -/
theorem parsed_tokens_stable (hdr : Str) : ∀ t ∈ parseToks hdr, Stable t := stable_parsed hdr

/-- boundary 1: the clone of an EMPTY bundle holds one token, the empty non-macaroon (`Header()` of no
tokens is the empty string, and parsing the empty string gives one empty part) -/
theorem clone_of_empty_bundle (pl : Bytes) :
    ((⟨pl, []⟩ : Bundle).clone.ts.map Tok.str = [[]]) ∧ ((⟨pl, []⟩ : Bundle).clone.ts.map Tok.kind = ['N']) := by
  have h : (parseToks (headerOf [])).map Tok.str = [[]] ∧ (parseToks (headerOf [])).map Tok.kind = ['N'] := by decide
  exact h

/-- boundary 2: a first token that starts with a scheme word and a space loses the word: the bundle
`[Bearer x]` prints as `FlyV1 Bearer x`, which re-parses as `[x]` -/
theorem clone_strips_leading_scheme_word (pl : Bytes) :
    (⟨pl, [.nonMac "Bearer x".toList]⟩ : Bundle).clone.ts.map Tok.str = ["x".toList] := by
  have h : (parseToks (headerOf [.nonMac "Bearer x".toList])).map Tok.str = ["x".toList] := by decide
  exact h

/-- **discharge_then_none_undischarged.**  After a successful `Discharge(loc, …)`, for a third-party
location other than the bundle's own permission location, no ticket of `loc` is left undischarged:
`UndischargedTicketsForThirdParty(loc)` is empty and a second `Discharge(loc, …)` has nothing to do -/
theorem discharge_then_none_undischarged (b : Bundle) (loc ka : Bytes) (cb : Bundle.Discharger) (rnds : List Bytes)
    (hloc : loc ≠ b.permLoc) (hok : (b.discharge loc ka cb rnds).2 = false) :
    (b.discharge loc ka cb rnds).1.undischargedTicketsFor loc = [] ∧
    ∀ ka' cb' rnds', (b.discharge loc ka cb rnds).1.discharge loc ka' cb' rnds' = ((b.discharge loc ka cb rnds).1, false) := by
  have h := Lemmas.BundleL.discharge_then_none_undischarged b loc ka cb rnds hloc hok
  exact ⟨h, fun ka' cb' rnds' => discharge_nothing_to_do _ loc ka' cb' rnds' h⟩

/-! ### flyio/bundle.go -/

/-- the Fly.io locations of the model are the constants of `flyio/flyio.go` (regenerated table) -/
theorem flyio_locations_match :
    Generated.strConsts.lookup "flyio.LocationPermission" = some (String.ofList (flyioPermission.map fun b => Char.ofNat b.toNat)) ∧
    Generated.strConsts.lookup "flyio.LocationAuthentication" = some (String.ofList (flyioAuthentication.map fun b => Char.ofNat b.toNat)) ∧
    Generated.strConsts.lookup "flyio.LocationNewAuthentication" = some (String.ofList (flyioNewAuthentication.map fun b => Char.ofNat b.toNat)) ∧
    Generated.strConsts.lookup "flyio.LocationSecrets" = some (String.ofList (flyioSecrets.map fun b => Char.ofNat b.toNat)) := by
  decide

/-- `flyio.ParseBundle` / `ParseBundleWithFilter` are `bundle.ParseBundle(WithFilter)` at the Fly.io
permission location: everything proved about parsed bundles applies -/
theorem flyio_parse (hdr : Str) (f : Filter) :
    Bundle.flyioParse hdr = Bundle.parse flyioPermission hdr ∧ Bundle.flyioParseWith hdr f = Bundle.parseWith flyioPermission hdr f ∧
    VerifiedArePerm (Bundle.flyioParseWith hdr f).1 :=
  ⟨rfl, rfl, inv_parseWith _ hdr f⟩

/-- `flyio.IsPermissionToken / IsAuthToken / IsNewAuthToken / IsSecretsToken` keep exactly the
well-formed macaroons at that location — whatever the bundle's own permission location is -/
theorem flyio_location_predicates (pl : Bytes) (ts : List Tok) :
    Filter.flyioIsPermissionToken.apply pl ts = ts.filter (isPermAt flyioPermission) ∧
    Filter.flyioIsAuthToken.apply pl ts = ts.filter (isPermAt flyioAuthentication) ∧
    Filter.flyioIsNewAuthToken.apply pl ts = ts.filter (isPermAt flyioNewAuthentication) ∧
    Filter.flyioIsSecretsToken.apply pl ts = ts.filter (isPermAt flyioSecrets) :=
  ⟨applyMask_map _ _, applyMask_map _ _, applyMask_map _ _, applyMask_map _ _⟩

/-- **isForOrg_iff.**  A token satisfies `flyio.IsForOrg(o)` iff it is VERIFIED and its verified
caveat set clears the request "organization `o`, no action" (at the wall-clock instant the request
reports).  Unverified, failed, malformed and non-macaroon tokens never satisfy it. -/
theorem isForOrg_iff (pl : Bytes) (ts : List Tok) (o : UInt64) (sec : Int) (nsec : Nat) (t : Tok) :
    t ∈ (Filter.flyioIsForOrg o sec nsec).apply pl ts ↔
      t ∈ ts ∧ ∃ s m cs, t = .verified s m cs ∧ Macaroon.validate cs [(Flyio.orgReq o).toAccess sec nsec] = [] := by
  have h : (Filter.flyioIsForOrg o sec nsec).apply pl ts =
      ts.filter fun t => match t.cs? with
        | some cs => (Macaroon.validate cs [(Flyio.orgReq o).toAccess sec nsec]).isEmpty
        | none => false := applyMask_map _ ts
  rw [h, List.mem_filter]
  constructor
  · rintro ⟨ht, hk⟩
    refine ⟨ht, ?_⟩
    cases t with
    | verified s m cs => exact ⟨s, m, cs, rfl, by simpa [Tok.cs?, List.isEmpty_iff] using hk⟩
    | nonMac s => simp [Tok.cs?] at hk
    | malformed s => simp [Tok.cs?] at hk
    | unverified s m => simp [Tok.cs?] at hk
    | failed s m => simp [Tok.cs?] at hk
  · rintro ⟨ht, s, m, cs, rfl, hv⟩
    exact ⟨ht, by simp [Tok.cs?, hv]⟩

/-- `IsForOrg` is the clearing predicate of C17: it holds of a verified token exactly when
`Flyio.clears` does for the organization request -/
theorem isForOrg_is_clears (cs : CS) (o : UInt64) (sec : Int) (nsec : Nat) :
    (Macaroon.validate cs [(Flyio.orgReq o).toAccess sec nsec] = []) ↔ Flyio.clears cs (Flyio.orgReq o) sec nsec = true := by
  simp [Flyio.clears, List.isEmpty_iff]

/-- **isForOrgUnverified_iff.**  A token satisfies `flyio.IsForOrgUnverified(o)` iff it is a
well-formed macaroon (verified or not) at the Fly.io permission location whose UNVERIFIED caveats have
organization scope exactly `o` — `OrganizationScope` returns `o` without error (C17 `orgScope_sound`
says what that means).  Tokens of other locations, and tokens without a unique organization scope
(no Organization caveat, or conflicting ones, also inside `IfPresent`), never satisfy it. -/
theorem isForOrgUnverified_iff (pl : Bytes) (ts : List Tok) (o : UInt64) (t : Tok) :
    t ∈ (Filter.isForOrgUnverified o).apply pl ts ↔
      t ∈ ts ∧ ∃ m, t.mac? = some m ∧ m.loc = flyioPermission ∧ Flyio.organizationScope m.cavs = .ok o := by
  have h : (Filter.isForOrgUnverified o).apply pl ts = ts.filter (forOrgUnverified o) := applyMask_map _ ts
  rw [h, List.mem_filter]
  constructor
  · rintro ⟨ht, hk⟩
    refine ⟨ht, ?_⟩
    unfold forOrgUnverified at hk
    rw [Bool.and_eq_true] at hk
    obtain ⟨hp, hs⟩ := hk
    obtain ⟨m, hm, hl⟩ := (isPermAt_iff _ _).mp hp
    refine ⟨m, hm, hl, ?_⟩
    rw [hm] at hs
    cases hsc : Flyio.organizationScope m.cavs with
    | error e => simp [hsc] at hs
    | ok o' =>
      simp only [hsc, beq_iff_eq] at hs
      rw [hs]
  · rintro ⟨ht, m, hm, hl, hsc⟩
    refine ⟨ht, ?_⟩
    unfold forOrgUnverified
    rw [Bool.and_eq_true]
    exact ⟨(isPermAt_iff _ _).mpr ⟨m, hm, hl⟩, by simp [hm, hsc]⟩

/-- `Select` / `Filter` / `Count` / `Any` with the Fly.io predicates have the contracts of
`select_pure` / `filter_effect`: a sub-list in the original order, the bundle the call is made on is
otherwise untouched, and `Count` is the length of what `Select` returns -/
theorem flyio_filters_contracts (b : Bundle) (f : Filter) :
    (b.select f).ts.Sublist b.ts ∧ (b.filter f).ts.Sublist b.ts ∧ (b.select f).permLoc = b.permLoc ∧
    (b.select f).ts = f.apply b.permLoc b.ts ∧ (b.filter f).ts = f.apply b.permLoc b.ts :=
  ⟨applyMask_sublist _ _, applyMask_sublist _ _, rfl, rfl, rfl⟩

/-- `flyio.UUIDs` / `flyio.NonceEmails` render the nonces of the tokens at the Fly.io permission
location, in bundle order, one per token -/
theorem flyio_nonces (b : Bundle) :
    b.flyioNonces = (b.ts.filter (isPermAt flyioPermission)).filterMap fun t => t.mac?.map fun m => (m.nonce.kid, m.nonce.rnd) := by
  unfold Bundle.flyioNonces
  rw [(flyio_location_predicates b.permLoc b.ts).1]

/-! ### non-vacuity -/

/-- the hypothesis of `bundle_decision` holds for every parsed header -/
example (pl : Bytes) (hdr : Str) : VerifiedArePerm (Bundle.parse pl hdr).1 := inv_parseWith pl hdr .default

/-- a two-third-party situation as in `f6_discharge_violates_contract`: one permission token at
location `[1]` with a third-party caveat for location `[66]` whose ticket (too short to be a
ciphertext) opens under no key, discharging for location `[65]` -/
def f6Bundle : Bundle :=
  ⟨[1], [.unverified [] { nonce := ⟨[7], [], 1, false⟩, loc := [1], cavs := [.tp [66] [] [9]], tail := [], newProof := false }]⟩

example : ([66], [9]) ∈ f6Bundle.undischargedTickets := by decide
theorem f6_ticket_does_not_open : Crypto.openTicket (B := Bytes) [] [9] = TicketResult.cannotOpen := by rfl
example : f6Bundle.undischargedTicketsFor [65] = [] := by decide
example : f6Bundle.dischargeF6 [65] [] (fun _ => some []) [] = (f6Bundle, true) ∧
    f6Bundle.discharge [65] [] (fun _ => some []) [] = (f6Bundle, false) :=
  f6_discharge_violates_contract f6Bundle [65] [] _ [] ([66], [9]) (by decide) f6_ticket_does_not_open (by decide)

/-- a third-party caveat alone in a verified set refuses a plain request -/
example : Macaroon.validate [(Cav.tp [1] [2] [3] : Cav Bytes)] [Access.bare 0 0] ≠ [] :=
  third_party_caveat_clears_nothing _ [1] [2] [3] (by simp) _ (by simp)

/-- a token at the Fly.io permission location with the given caveats -/
def flyTok (cs : CS) : Tok :=
  .unverified [] { nonce := ⟨[7], [], 1, false⟩, loc := flyioPermission, cavs := cs, tail := [], newProof := false }

/-- one Organization caveat: scoped to that organization and to no other -/
example : forOrgUnverified 1 (flyTok [.organization 1 31]) = true ∧ forOrgUnverified 2 (flyTok [.organization 1 31]) = false := by
  decide
/-- conflicting Organization caveats (also inside IfPresent), or none: no organization scope -/
example : forOrgUnverified 1 (flyTok [.organization 1 31, .organization 2 31]) = false ∧
    forOrgUnverified 1 (flyTok [.organization 1 31, .ifPresent false (.cons (.organization 2 31) .nil) 31]) = false ∧
    forOrgUnverified 1 (flyTok []) = false := by
  decide

/-! ### the object level refines the value level -/

open Macaroon.Lemmas.Refine in
/-- **hop_refines.**  On a bundle that owns its objects (`BOK`: every reference points into the heap,
no `*UnverifiedMacaroon` and no `Caveats` cell is referenced from two slots — true of every parsed
bundle, `parsed_bundle_owns_its_objects`, and kept by every operation below), each object-level
operation is the value-level operation seen through `view`, with the same error flag, and its
footprint is `Upd`: the heap only grows or is written at cells of this bundle, and the resulting
bundle again owns its objects, which are objects of the old bundle or fresh ones. -/
theorem hop_refines (h : Heap) (b : HBundle) (ok : BOK h b) :
    (∀ o, (HBundle.verifyBy h b o).2.view (HBundle.verifyBy h b o).1 = (b.view h).verifyBy o ∧
      Upd h b (HBundle.verifyBy h b o).1 (HBundle.verifyBy h b o).2) ∧
    (∀ hdr, ((HBundle.addTokens h b hdr).2.1.view (HBundle.addTokens h b hdr).1, (HBundle.addTokens h b hdr).2.2)
        = Bundle.addTokens (b.view h) hdr ∧
      Upd h b (HBundle.addTokens h b hdr).1 (HBundle.addTokens h b hdr).2.1) ∧
    (∀ sc loc ka cb rnds,
      ((HBundle.dischargeWith sc h b loc ka cb rnds).2.1.view (HBundle.dischargeWith sc h b loc ka cb rnds).1,
        (HBundle.dischargeWith sc h b loc ka cb rnds).2.2) = Bundle.dischargeWith sc (b.view h) loc ka cb rnds ∧
      Upd h b (HBundle.dischargeWith sc h b loc ka cb rnds).1 (HBundle.dischargeWith sc h b loc ka cb rnds).2.1) ∧
    (∀ items, (b.view (HBundle.attenuate h b items).1, (HBundle.attenuate h b items).2) = (b.view h).attenuate items ∧
      Upd h b (HBundle.attenuate h b items).1 b) ∧
    (∀ f, (HBundle.filter h b f).view h = (b.view h).filter f ∧ Upd h b h (HBundle.filter h b f)) :=
  ⟨fun o => ⟨(verifyBy_refines h b o ok).1, (verifyBy_refines h b o ok).2.2⟩,
   fun hdr => ⟨(addTokens_refines h b hdr ok).1, (addTokens_refines h b hdr ok).2.2⟩,
   fun sc loc ka cb rnds => ⟨(dischargeWith_refines sc h b loc ka cb rnds ok).1, (dischargeWith_refines sc h b loc ka cb rnds ok).2.2⟩,
   fun items => attenuate_refines h b items ok,
   fun f => filter_refines h b f ok⟩

open Macaroon.Lemmas.Refine in
/-- **hop_frame.**  Whatever has footprint `Upd` on bundle `b` (every operation of `hop_refines`): a
slice `c` of references into the old heap that shares no object with `b` denotes the same tokens
afterwards, and shares no object with the resulting bundle either (so the hypothesis is kept along a
history).  Verify, AddTokens and Discharge moreover leave EVERY old reference alone (`Ext`: the heap
is only extended) — only `Attenuate` writes, and only at cells of `b`. -/
theorem hop_frame {h h' : Heap} {b b' : HBundle} (up : Upd h b h' b') (c : HBundle) (hc : ∀ r ∈ c.rs, RefIn h r)
    (hap : ∀ r0 ∈ b.rs, ∀ r ∈ c.rs, Apart r0 r) :
    c.view h' = c.view h ∧ ∀ r' ∈ b'.rs, ∀ r ∈ c.rs, Apart r' r :=
  ⟨up.frame_view c hc hap, up.keeps_apart c hc hap⟩

open Macaroon.Lemmas.Refine in
/-- the operations that do not write: the new heap is the old one with objects allocated behind it, so
every reference into the old heap — of any bundle, shared or not — denotes what it denoted -/
theorem hop_only_allocates (h : Heap) (b : HBundle) (ok : BOK h b) (r : Ref) (hr : RefIn h r) :
    (∀ o, (HBundle.verifyBy h b o).1.tok r = h.tok r) ∧
    (∀ hdr, (HBundle.addTokens h b hdr).1.tok r = h.tok r) ∧
    (∀ sc loc ka cb rnds, (HBundle.dischargeWith sc h b loc ka cb rnds).1.tok r = h.tok r) ∧
    (HBundle.clone h b).1.tok r = h.tok r :=
  ⟨fun o => tok_ext (verifyBy_refines h b o ok).2.1 hr,
   fun hdr => tok_ext (addTokens_refines h b hdr ok).2.1 hr,
   fun sc loc ka cb rnds => tok_ext (dischargeWith_refines sc h b loc ka cb rnds ok).2.1 hr,
   tok_ext (clone_refines h b).2.1 hr⟩

open Macaroon.Lemmas.Refine in
/-- **clone_shares_nothing.**  `HBundle.clone` is `Bundle.clone` through `view`; the clone owns its
objects, all of them fresh (behind everything the old heap holds), so it is apart from every slice of
old references — in particular from its original, whose view is unchanged. -/
theorem clone_shares_nothing (h : Heap) (b : HBundle) (hb : ∀ r ∈ b.rs, RefIn h r) :
    (HBundle.clone h b).2.view (HBundle.clone h b).1 = (b.view h).clone ∧
    BOK (HBundle.clone h b).1 (HBundle.clone h b).2 ∧
    b.view (HBundle.clone h b).1 = b.view h ∧
    ∀ r' ∈ (HBundle.clone h b).2.rs, ∀ r ∈ b.rs, Apart r' r := by
  obtain ⟨a1, a2, a3, a4⟩ := clone_refines h b
  refine ⟨a1, a3, ?_, ?_⟩
  · simp only [HBundle.view]; exact congrArg _ (view_ext a2 hb)
  · intro r' hr' r hr
    constructor
    · intro u hu hu'
      have := (a4 r' hr').1 u hu; have := (hb r hr).1 u hu'; omega
    · intro v hv hv'
      have := (a4 r' hr').2 v hv; have := (hb r hr).2 v hv'; omega

open Macaroon.Lemmas.Refine in
/-- every parsed bundle owns its objects, and they are fresh -/
theorem parsed_bundle_owns_its_objects (h : Heap) (pl : Bytes) (hdr : Str) (f : Filter) :
    ((HBundle.parseWith h pl hdr f).2.1.view (HBundle.parseWith h pl hdr f).1, (HBundle.parseWith h pl hdr f).2.2)
      = Bundle.parseWith pl hdr f ∧
    BOK (HBundle.parseWith h pl hdr f).1 (HBundle.parseWith h pl hdr f).2.1 ∧
    ∀ r ∈ (HBundle.parseWith h pl hdr f).2.1.rs, Fresh h r :=
  ⟨(parseWith_refines h pl hdr f).1, (parseWith_refines h pl hdr f).2.2.1, (parseWith_refines h pl hdr f).2.2.2⟩

/-- **the frame hypothesis is needed** (negative witness): a `Select`-derived bundle holds the SAME
pointers as its parent, so attenuating the parent changes what the selection denotes — at object
level `view ∘ op = op ∘ view` holds for the bundle operated on, not for bundles that share with it.
One verified token; the selection keeps it; after `Attenuate` on the parent the selection shows the
attenuated token. -/
theorem select_shares_objects (pl : Bytes) (s : Str) (m : M) (cs : CS) (items : List (AddItem Bytes))
    (s' : Str) (m' : M) (added : CS) (hloc : m.loc = pl)
    (hatt : Bundle.attMac items m = some (s', m', added)) :
    let h : Heap := ⟨[⟨s, m⟩], [cs]⟩
    let b : HBundle := ⟨pl, [.ver 0 0]⟩
    let sel := HBundle.select h b .keepAll
    sel.rs = b.rs ∧ sel.view h = ⟨pl, [.verified s m cs]⟩ ∧
    sel.view (HBundle.attenuate h b items).1 = ⟨pl, [.verified s' m' (cs ++ added)]⟩ := by
  simp [HBundle.select, Filter.mask, applyMask, HBundle.view, Heap.view, Heap.tok, Heap.u, Heap.v, HBundle.attenuate,
    Bundle.attenuateTs, isPermAt, Tok.mac?, hloc, Bundle.attTok, hatt, Heap.storeAll, Heap.store]

/-! ### the `readsBack` guard is well-formedness, and never the reason for a failure -/

open Macaroon.Lemmas.ReadsBack in
/-- **readsBack_of_wellformed.**  `wfMac` is a decidable predicate on model macaroons: nonce, location
and tail within the lengths of the wire format, every caveat `WFCav` (resource sets as SORTED
association lists without duplicate keys — a Go map printed by the sorting encoder —, unregistered
caveats only outside the registry and with a one-value body, lengths `< 2³²`), fewer than 2³¹ caveats,
canonical nesting within the decoder's budget, proof state "encoded".  A well-formed token prints
without error or state change, and the text printed decodes to the token itself. -/
theorem readsBack_of_wellformed (m : M) (h : wfMac m = true) :
    Concrete.encode m = (m, some (encMac (Concrete.toWire m))) ∧ readsBack (encMac (Concrete.toWire m)) m = true :=
  Lemmas.ReadsBack.readsBack_of_wellformed m h

open Macaroon.Lemmas.ReadsBack in
/-- **readsBack_iff_wellformed** (so `wfMac` is also NECESSARY): for a token that prints as `bytes` without a
state change — the situation at both guards — the guard holds exactly if the token is well formed. -/
theorem readsBack_iff_wellformed (m : M) (bytes : Bytes) (h : Concrete.encode m = (m, some bytes)) :
    readsBack bytes m = true ↔ wfMac m = true :=
  Lemmas.ReadsBack.readsBack_iff_wellformed m bytes h

open Macaroon.Lemmas.ReadsBack in
/-- the negative witness for the sortedness clause: the token with the resource set `[("b",1),("a",1)]`
is not well formed, the one with `[("a",1),("b",1)]` is; they print the same text, which reads back
as the sorted one only -/
theorem wf_is_necessary :
    wfMac unsortedTok = false ∧ wfMac sortedTok = true ∧
    (Concrete.encode unsortedTok).2 = (Concrete.encode sortedTok).2 ∧
    (∀ bytes, (Concrete.encode unsortedTok).2 = some bytes → readsBack bytes unsortedTok = false ∧ readsBack bytes sortedTok = true) :=
  ⟨by decide, by decide, unsorted_resource_set_does_not_read_back.1, unsorted_resource_set_does_not_read_back.2.2.2.1⟩

open Macaroon.Lemmas.ReadsBack in
/-- **attenuate_defined_of_wellformed.**  Per token (`attMac`) and per bundle: on well-formed permission
tokens, with well-formed arguments (`itemOk`: a `WFCav` caveat, or a new third-party caveat whose
location, ticket and verifier key fit the wire format), whenever `Add` itself succeeds and its result
has fewer than 2³¹ caveats nesting within the decoder's budget (`AttOk`), `Attenuate` is defined —
the guard does not fire —, stores exactly what `Add` gives, printed, and that is well formed again. -/
theorem attenuate_defined_of_wellformed (items : List (AddItem Bytes)) (hi : ∀ it ∈ items, itemOk it = true) :
    (∀ m, wfMac m = true → AttOk items m →
      ∃ c', add m items = (c', none) ∧
        Bundle.attMac items m = some (macString (encMac (Concrete.toWire (encodeState c'))), encodeState c',
          c'.cavs.drop m.cavs.length) ∧ wfMac (encodeState c') = true) ∧
    (∀ b : Bundle, (∀ t ∈ b.ts, isPermAt b.permLoc t = true → ∀ m, t.mac? = some m → wfMac m = true ∧ AttOk items m) →
      (b.attenuate items).2 = false) :=
  ⟨fun m hm hok => attMac_defined items m hm hi hok, fun b h => Lemmas.ReadsBack.attenuate_defined_of_wellformed b items hi h⟩

open Macaroon.Lemmas.ReadsBack in
/-- **discharge_defined_of_wellformed.**  Per ticket (`dischargeOne`) and per bundle: a ticket that opens,
a callback that answers with well-formed caveats, location / ticket / nonce randomness below 2³² bytes,
`Add` succeeding within the size limits (`DisOk`): `Discharge` is defined — the guard does not fire — and
mints a well-formed token. -/
theorem discharge_defined_of_wellformed (loc ka : Bytes) (cb : Bundle.Discharger) :
    (∀ ticket rnd dk tcavs items, Crypto.openTicket ka ticket = TicketResult.ok dk tcavs → cb tcavs = some items →
      ticket.length < 2 ^ 32 → rnd.length < 2 ^ 32 → loc.length < 2 ^ 32 → (∀ it ∈ items, itemOk it = true) →
      AttOk items (mint dk ticket loc rnd true) →
      ∃ dm', add (mint dk ticket loc rnd true) items = (dm', none) ∧
        Bundle.dischargeOne loc ka cb ticket rnd =
          some (.unverified (macString (encMac (Concrete.toWire (encodeState dm')))) (encodeState dm')) ∧
        wfMac (encodeState dm') = true) ∧
    (∀ (sc : Bundle.DischargeScope) (b : Bundle) (rnds : List Bytes),
      (∀ tr ∈ Bundle.withRnd (Bundle.ticketsInScope sc b.permLoc b.ts loc) rnds, DisOk loc ka cb tr.1 tr.2) →
      (Bundle.dischargeWith sc b loc ka cb rnds).2 = false) :=
  ⟨fun ticket rnd dk tcavs items ho hc ht hr hl hi hok => dischargeOne_defined loc ka cb ticket rnd dk tcavs items ho hc ht hr hl hi hok,
   fun sc b rnds h => Lemmas.ReadsBack.discharge_defined_of_wellformed sc b loc ka cb rnds h⟩

open Macaroon.Lemmas.ReadsBack in
/-- **wf_preserved.**  `WFB b`: every macaroon token of the bundle is well formed.  `Attenuate` and
`Discharge` keep it UNCONDITIONALLY (whatever the arguments, success or failure: what they store passed
the guard, and the guard is well-formedness); `Verify` keeps every token's macaroon; `Filter` / `Select`
keep a sub-list; `AddTokens` / `ParseBundle` add parsed tokens, for which see `parsed_token_cases`. -/
theorem wf_preserved (b : Bundle) (hb : WFB b) :
    (∀ items, WFB (b.attenuate items).1) ∧
    (∀ sc loc ka cb rnds, WFB (Bundle.dischargeWith sc b loc ka cb rnds).1) ∧
    (∀ o, WFB (b.verifyBy o)) ∧
    (∀ f, WFB (b.filter f) ∧ WFB (b.select f)) ∧
    (∀ hdr, (∀ t ∈ parseToks hdr, ∀ m, t.mac? = some m → wfMac m = true) → WFB (b.addTokens hdr).1) :=
  ⟨fun items => wf_attenuate b items hb, fun sc loc ka cb rnds => wf_discharge sc b loc ka cb rnds hb,
   fun o => wf_verifyBy b o hb, fun f => wf_filter b f hb, fun hdr hnew => wf_addTokens b hdr hb hnew⟩

open Macaroon.Lemmas.ReadsBack in
/-- **parsed_token_cases.**  What `macaroon.Decode` returns is canonical in shape (`decoded_wf_iff`: in
encoded state, and `WFMac` — sorted duplicate-free resource sets etc. — as soon as it can be printed at
all).  Every macaroon token of a parsed header is therefore well formed, EXCEPT two kinds on which
`Attenuate` fails before it reaches the guard, for every argument list:
(a) a token holding a caveat that cannot be printed (an unregistered caveat whose body was `nil`): Go's
    `Encode` fails as well;
(b) a token that prints, but whose canonical form nests deeper than the model decoder's budget of 200
    levels (the canonical form may nest up to two levels deeper than the bytes received; the Go decoder
    has no budget): the clone step `Decode(Encode(m))` fails in the model. -/
theorem parsed_token_cases (hdr : Str) (t : Tok) (ht : t ∈ parseToks hdr) (m : M) (hm : t.mac? = some m) :
    wfMac m = true ∨
    (m.cavs.all encodable = false ∧ ∀ items, Bundle.attMac items m = none) ∨
    (m.cavs.all encodable = true ∧ defaultFuel < 1 + max 1 (encDepth m.cavs) ∧ ∀ items, Bundle.attMac items m = none) :=
  Lemmas.ReadsBack.parsed_token_cases hdr t ht m hm

open Macaroon.Lemmas.ReadsBack in
/-- a decoded token is in encoded state, has the wire shape as soon as all its caveats can be printed,
and is well formed exactly if moreover its canonical form nests within the budget -/
theorem decoded_wf_iff (bs : Bytes) (m : M) (h : Concrete.decode bs = some m) :
    m.newProof = false ∧ (m.cavs.all encodable = true → WFMac (Concrete.toWire m)) ∧
    (wfMac m = true ↔ (m.cavs.all encodable = true ∧ 1 + max 1 (encDepth m.cavs) ≤ defaultFuel)) :=
  Lemmas.ReadsBack.decoded_wf_iff bs m h

end Macaroon.Props.C13

#print axioms Macaroon.Props.C13.bundle_decision
#print axioms Macaroon.Props.C13.header_decision
#print axioms Macaroon.Props.C13.invariant
#print axioms Macaroon.Props.C13.unmatched_discharges_change_nothing
#print axioms Macaroon.Props.C13.verify_perm_stable
#print axioms Macaroon.Props.C13.only_issuer_tokens_authorise
#print axioms Macaroon.Props.C13.foreign_tokens_untouched
#print axioms Macaroon.Props.C13.malformed_and_nonmacaroon_never_contribute
#print axioms Macaroon.Props.C13.default_filter_keeps_decision
#print axioms Macaroon.Props.C13.failed_tokens_never_contribute
#print axioms Macaroon.Props.C13.failed_means_rejected
#print axioms Macaroon.Props.C13.header_parse_print
#print axioms Macaroon.Props.C13.default_filter_keeps_order
#print axioms Macaroon.Props.C13.default_filter_keeps
#print axioms Macaroon.Props.C13.discharge_matched_by_ticket_alone
#print axioms Macaroon.Props.C13.addTokens_err
#print axioms Macaroon.Props.C13.addTokens_ok
#print axioms Macaroon.Props.C13.select_pure
#print axioms Macaroon.Props.C13.select_shares
#print axioms Macaroon.Props.C13.filter_effect
#print axioms Macaroon.Props.C13.filter_predicates
#print axioms Macaroon.Props.C13.attenuate_all_or_nothing
#print axioms Macaroon.Props.C13.failed_attenuate_changes_nothing
#print axioms Macaroon.Props.C13.attenuate_fails_if_one_token_fails
#print axioms Macaroon.Props.C13.attenuate_verified_set
#print axioms Macaroon.Props.C13.appended_caveats_enforced_like_reverification
#print axioms Macaroon.Props.C13.add_single_third_party
#print axioms Macaroon.Props.C13.third_party_caveat_clears_nothing
#print axioms Macaroon.Props.C13.attenuated_3p_blocks_until_reverified
#print axioms Macaroon.Props.C13.attenuate_writes_through
#print axioms Macaroon.Props.C13.discharge_effect
#print axioms Macaroon.Props.C13.discharge_all_or_nothing
#print axioms Macaroon.Props.C13.discharge_ticket_failures
#print axioms Macaroon.Props.C13.f6_discharge_violates_contract
#print axioms Macaroon.Props.C13.clone_independent
#print axioms Macaroon.Props.C13.clone_faithful
#print axioms Macaroon.Props.C13.parsed_tokens_stable
#print axioms Macaroon.Props.C13.clone_of_empty_bundle
#print axioms Macaroon.Props.C13.clone_strips_leading_scheme_word
#print axioms Macaroon.Props.C13.discharge_then_none_undischarged
#print axioms Macaroon.Props.C13.flyio_locations_match
#print axioms Macaroon.Props.C13.flyio_parse
#print axioms Macaroon.Props.C13.flyio_location_predicates
#print axioms Macaroon.Props.C13.isForOrg_iff
#print axioms Macaroon.Props.C13.isForOrg_is_clears
#print axioms Macaroon.Props.C13.isForOrgUnverified_iff
#print axioms Macaroon.Props.C13.flyio_filters_contracts
#print axioms Macaroon.Props.C13.flyio_nonces
#print axioms Macaroon.Props.C13.f6_ticket_does_not_open
#print axioms Macaroon.Props.C13.hop_refines
#print axioms Macaroon.Props.C13.hop_frame
#print axioms Macaroon.Props.C13.hop_only_allocates
#print axioms Macaroon.Props.C13.clone_shares_nothing
#print axioms Macaroon.Props.C13.parsed_bundle_owns_its_objects
#print axioms Macaroon.Props.C13.select_shares_objects
#print axioms Macaroon.Props.C13.readsBack_of_wellformed
#print axioms Macaroon.Props.C13.readsBack_iff_wellformed
#print axioms Macaroon.Props.C13.wf_is_necessary
#print axioms Macaroon.Props.C13.attenuate_defined_of_wellformed
#print axioms Macaroon.Props.C13.discharge_defined_of_wellformed
#print axioms Macaroon.Props.C13.wf_preserved
#print axioms Macaroon.Props.C13.parsed_token_cases
#print axioms Macaroon.Props.C13.decoded_wf_iff
