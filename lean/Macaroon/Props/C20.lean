/-
C20 — client credentials go only to the third party they were configured for.

Property theorems only; proofs are in `Lemmas/Client.lean`.  Model: `TP/Url.lean`
(`url.Parse(..).Hostname()` of go1.23.5), `TP/Client.lean` (option closures, the
authenticating transport, the fetch procedure against a scripted third party); tie: family
`client` (real `tp.Client` against an in-process recording `http.RoundTripper`).

Reading of the statement.
* "host of a location" = `hostOf loc`: `Hostname()` of the location when it parses as an
  absolute URL, the raw string otherwise (that is the map key `WithAuthentication` computes).
* "host of a request" = `Url.host` = `r.URL.Hostname()`.  Equality is string equality on these:
  ports, scheme, userinfo, path, query and fragment do not take part; letter case is NOT folded
  and a trailing dot is kept (`case_and_trailing_dot_not_folded`: the code attaches to fewer
  hosts than a case-folding comparison would, never to more — recorded as an observation).
* An empty credential is "no credential" (`cred != ""` in `RoundTrip`), and the last
  configuration for a host wins, so a later `WithAuthentication(loc, "")` switches a host off.
* `every_request_through_attach` is about `roundTripMutates = false`: a `RoundTrip` that does
  not write to the request it was handed.  The code as found wrote the header in place; with
  `doPoll` re-using one request object and `net/http` copying the caller's Authorization to
  sub-domain redirect hops this sends a credential to a host it was not configured for
  (`in_place_header_leaks_to_subdomain`, the witness the family `client` reproduces on /repo).
* Observations (the statement does not forbid them): a header that arrived as `Bearer …` is
  returned as `FlyV1 …` (`tokensHeader` always writes `FlyV1 `; "keeps its scheme prefix" is read
  as "stays prefixed"); an empty token list prints as the empty string even when the input had
  a scheme; ignored locations are compared as raw strings, exactly.
-/
import Macaroon.Lemmas.Client
import Macaroon.Lemmas.ClientBundle

namespace Macaroon.Props.C20
open Macaroon.TPClient Macaroon.Lemmas.Client

/-! ### routing -/

/-- A credential `c` is attached to a request exactly when `c` is non-empty and is the last one
configured (`withAuth key c`) under a key equal to the request's host name. -/
theorem attach_iff (opts : List Opt) (u : Url) (c : Cred) :
    attach (applyOptions opts) u = some c ↔
      c ≠ [] ∧ ∃ pre post, opts = pre ++ .withAuth u.host c :: post ∧ ∀ c', Opt.withAuth u.host c' ∉ post :=
  Lemmas.Client.attach_iff opts u c

/-- the key of `WithAuthentication(loc, cred)` is `hostOf loc` -/
theorem withAuthentication_key (loc : Str) (cred : Cred) (o : Opt) :
    withAuthentication loc cred = some o ↔ ∃ k, hostOf loc = some k ∧ o = .withAuth k cred := by
  unfold withAuthentication
  cases hostOf loc with
  | none => simp
  | some k => simp [eq_comm]

/-- no configuration under the request's host name: nothing is attached — whatever else is
configured (sub-domains, super-domains, names that contain the host name, …) -/
theorem other_hosts_get_nothing (opts : List Opt) (u : Url) (h : ∀ c, Opt.withAuth u.host c ∉ opts) :
    attach (applyOptions opts) u = none := by
  cases ha : attach (applyOptions opts) u with
  | none => rfl
  | some c =>
    obtain ⟨_, pre, post, e, _⟩ := (attach_iff opts u c).mp ha
    exact absurd (by rw [e]; simp) (h c)

/-! ### host of a URL -/

/-- For a URL assembled from components over the alphabets `net/url` accepts,
`url.Parse(s).Hostname()` is the host component, verbatim: not the userinfo, not anything in the
path, query or fragment; the port and the scheme are dropped; no case folding. -/
theorem hostname_of_built_url (p : Parts) (hw : p.WF) : hostname p.build = .host p.host.name :=
  hostname_build p hw

/-- the same for the request URL the client builds and the key `WithAuthentication` stores -/
theorem built_url_host (p : Parts) (hw : p.WF) :
    (∃ u, Url.parse p.build = .ok u ∧ u.host = p.host.name ∧ u.raw = p.build) ∧ hostOf p.build = some p.host.name :=
  ⟨⟨_, Url.parse_build p hw, rfl, rfl⟩, hostOf_build p hw⟩

/-- only the host component matters: two assembled URLs with the same host get the same
treatment, whatever their scheme, userinfo, port, path, query and fragment -/
theorem port_scheme_path_ignored (cfg : Cfg) (p q : Parts) (hp : p.WF) (hq : q.WF)
    (hh : p.host.name = q.host.name) (u v : Url) (hu : Url.parse p.build = .ok u) (hv : Url.parse q.build = .ok v) :
    attach cfg u = attach cfg v := by
  rw [Url.parse_build p hp] at hu
  rw [Url.parse_build q hq] at hv
  cases hu; cases hv
  simp [attach, hh]

/-- a trusted name placed anywhere but in the host component does not make the URL trusted:
with credentials configured only under `trusted`, a URL whose host component is another name
gets nothing, whatever its userinfo, path, query and fragment contain -/
theorem trusted_name_elsewhere_is_not_the_host (opts : List Opt) (trusted : Str)
    (honly : ∀ k c, Opt.withAuth k c ∈ opts → k = trusted)
    (p : Parts) (hw : p.WF) (hne : p.host.name ≠ trusted) (u : Url) (hu : Url.parse p.build = .ok u) :
    attach (applyOptions opts) u = none := by
  rw [Url.parse_build p hw] at hu
  cases hu
  apply other_hosts_get_nothing
  intro c hc
  exact hne (honly _ _ hc)

/-- sub-domains and super-domains are different host names -/
theorem subdomain_ne (label host : Str) (h : label ≠ []) : label ++ '.' :: host ≠ host ∧ host ≠ label ++ '.' :: host := by
  have : (label ++ '.' :: host).length ≠ host.length := by
    cases label with
    | nil => exact absurd rfl h
    | cons c cs => simp; omega
  exact ⟨fun e => this (by rw [e]), fun e => this (by rw [← e])⟩

/-- a credential for `host` does not go to `label.host`, one for `label.host` does not go to `host` -/
theorem subdomain_superdomain_get_nothing (label host : Str) (hl : label ≠ []) (opts : List Opt) (p : Parts) (hw : p.WF)
    (u : Url) (hu : Url.parse p.build = .ok u) :
    ((∀ k c, Opt.withAuth k c ∈ opts → k = host) → p.host.name = label ++ '.' :: host → attach (applyOptions opts) u = none) ∧
    ((∀ k c, Opt.withAuth k c ∈ opts → k = label ++ '.' :: host) → p.host.name = host → attach (applyOptions opts) u = none) := by
  constructor
  · intro honly hn
    exact trusted_name_elsewhere_is_not_the_host opts host honly p hw (by rw [hn]; exact (subdomain_ne label host hl).1) u hu
  · intro honly hn
    exact trusted_name_elsewhere_is_not_the_host opts _ honly p hw (by rw [hn]; exact (subdomain_ne label host hl).2) u hu

/-- The positive half for the init request: a non-empty credential configured with
`WithAuthentication(loc, c)` for a location `scheme://[userinfo@]host[:port][/path]` (and not
overridden later for the same host) is attached to that location's init request. -/
theorem init_request_gets_credential (p : Parts) (hw : p.WF) (hq : p.query = none) (hf : p.frag = none)
    (hne : p.hostPort ≠ []) (c : Cred) (hc : c ≠ []) (o : Opt) (ho : withAuthentication p.build c = some o)
    (pre post : List Opt) (hlast : ∀ c', Opt.withAuth p.host.name c' ∉ post) :
    ∃ u, Url.parse (initURL p.build) = .ok u ∧ attach (applyOptions (pre ++ o :: post)) u = some c := by
  obtain ⟨k, hk, rfl⟩ := (withAuthentication_key _ _ _).mp ho
  rw [hostOf_build p hw] at hk
  have hk' : k = p.host.name := (Option.some.inj hk).symm
  obtain ⟨u, hu, hh⟩ := init_request_host p hw hq hf hne
  rw [hostOf_build p hw] at hh
  have hh' : u.host = p.host.name := (Option.some.inj hh).symm
  refine ⟨u, hu, (attach_iff _ u c).mpr ⟨hc, pre, post, ?_, ?_⟩⟩
  · rw [hk', hh']
  · rw [hh']; exact hlast

/-! ### option order -/

/-- Any two option lists that are permutations of each other and keep the relative order of the
`WithHTTP` options and, per host key, of the `WithAuthentication` options configure the same
`attach` function, the same inner transport, the same `http.Client` fields and the same set of
ignored locations. -/
theorem options_order_irrelevant (o₁ o₂ : List Opt) (hperm : o₁.Perm o₂)
    (hH : o₁.filter isHTTP = o₂.filter isHTTP)
    (hA : ∀ k, o₁.filter (isAuthFor k) = o₂.filter (isAuthFor k)) :
    (∀ u, attach (applyOptions o₁) u = attach (applyOptions o₂) u) ∧
    innerUsed (applyOptions o₁) = innerUsed (applyOptions o₂) ∧
    (applyOptions o₁).fields = (applyOptions o₂).fields ∧
    (∀ l, l ∈ (applyOptions o₁).ignored ↔ l ∈ (applyOptions o₂).ignored) := by
  obtain ⟨h1, h2, h3⟩ := order_irrelevant o₁ o₂ hH hA
  exact ⟨fun u => h1 u.host, h2, h3, ignored_perm o₁ o₂ hperm⟩

/-- which transport finally carries the requests: that of the last `WithHTTP`, whether it was
applied before or after the `WithAuthentication` options (the code re-wraps); without any
`WithHTTP`, that of `cleanhttp.DefaultClient()` -/
theorem inner_transport (opts : List Opt) :
    innerUsed (applyOptions opts) =
      (match lastHTTP opts with
       | some h => RT.ofField h.transport
       | none => RT.cleanhttp) := by
  rw [applyOptions_eq]; rfl

/-! ### the fetch procedure -/

/-- Every request the procedure issues — the init request, every poll, every redirect hop of
either — carries exactly the Authorization that `attach` gives for its own URL (and when
`net/http` derived `Basic` from the URL's own userinfo, `attach` gave nothing). -/
theorem every_request_through_attach (cfg : Cfg) (stripped : Bool) (kept : List Str)
    (tickets : List (Str × List Nat)) (toks : Str → Option (List Str)) (script : Str → Nat → List Resp) :
    ∀ f ∈ (fetch false cfg stripped kept tickets toks script).flows, ∀ s ∈ f.sent,
      s.auth = attach cfg s.url ∧ (s.basic = true → attach cfg s.url = none ∧ s.url.hasUser = true) := by
  intro f hf s hs
  obtain ⟨_, _, hsent, _⟩ := fetch_flows_mem hf
  rw [hsent] at hs
  exact flow_through_attach cfg _ _ s hs

/-- hence: a configured credential reaches a URL only if it is the one in force for that URL's
host name — against every scripted third party (poll URLs, user URLs, redirect targets) -/
theorem credential_only_to_its_host (opts : List Opt) (stripped : Bool) (kept : List Str)
    (tickets : List (Str × List Nat)) (toks : Str → Option (List Str)) (script : Str → Nat → List Resp)
    (f : FlowResult) (hf : f ∈ (fetch false (applyOptions opts) stripped kept tickets toks script).flows)
    (s : Sent) (hs : s ∈ f.sent) (c : Cred) (hc : s.auth = some c) :
    c ≠ [] ∧ ∃ pre post, opts = pre ++ .withAuth s.url.host c :: post ∧ ∀ c', Opt.withAuth s.url.host c' ∉ post := by
  have := (every_request_through_attach (applyOptions opts) stripped kept tickets toks script f hf s hs).1
  rw [hc] at this
  exact (attach_iff opts s.url c).mp this.symm

/-- the positive half for EVERY request, not only the init request: whenever the procedure sends a
request — init, poll, any redirect hop — to a URL whose host name has a non-empty credential in force
(the last `WithAuthentication` for that host), that request carries exactly that credential.  With
`credential_only_to_its_host` this is "attached exactly when the request's host equals the
configured location's host". -/
theorem credential_to_every_request_of_its_host (opts : List Opt) (stripped : Bool) (kept : List Str)
    (tickets : List (Str × List Nat)) (toks : Str → Option (List Str)) (script : Str → Nat → List Resp)
    (f : FlowResult) (hf : f ∈ (fetch false (applyOptions opts) stripped kept tickets toks script).flows)
    (s : Sent) (hs : s ∈ f.sent) (c : Cred) (hc : c ≠ []) (pre post : List Opt)
    (ho : opts = pre ++ .withAuth s.url.host c :: post) (hlast : ∀ c', Opt.withAuth s.url.host c' ∉ post) :
    s.auth = some c := by
  rw [(every_request_through_attach (applyOptions opts) stripped kept tickets toks script f hf s hs).1]
  exact (attach_iff opts s.url c).mpr ⟨hc, pre, post, ho, hlast⟩

/-- Third parties the caller asked to ignore are never contacted on their own account: a flow
is started only for a ticket of a location that is not ignored, and every URL requested in a
flow is that location's init URL or a URL the (non-ignored) third party itself supplied in a
response of that flow (redirect Location, `poll_url`, `user_interactive.poll_url`). -/
theorem ignored_never_contacted (mu : Bool) (cfg : Cfg) (stripped : Bool) (kept : List Str)
    (tickets : List (Str × List Nat)) (toks : Str → Option (List Str)) (script : Str → Nat → List Resp) :
    ∀ f ∈ (fetch mu cfg stripped kept tickets toks script).flows,
      f.loc ∉ cfg.ignored ∧ (∃ ts, (f.loc, ts) ∈ tickets ∧ f.ticket ∈ ts) ∧
      ∀ s ∈ f.sent, s.url.raw = initURL f.loc ∨ s.url.raw ∈ mentioned (script f.loc f.ticket) := by
  intro f hf
  obtain ⟨hmem, hign, hsent, _⟩ := fetch_flows_mem hf
  refine ⟨hign, hmem, ?_⟩
  intro s hs
  rw [hsent] at hs
  exact flow_provenance mu cfg _ _ s hs

/-- ignoring is by exact location string, applied whatever the position of the option -/
theorem ignored_iff (opts : List Opt) (l : Str) :
    l ∈ (applyOptions opts).ignored ↔ ∃ ls, Opt.withIgnored ls ∈ opts ∧ l ∈ ls := by
  rw [applyOptions_eq]
  simp only [List.mem_flatMap]
  constructor
  · rintro ⟨o, ho, hl⟩
    cases o <;> simp [ignoredOf] at hl
    exact ⟨_, ho, hl⟩
  · rintro ⟨ls, ho, hl⟩
    exact ⟨_, ho, hl⟩

/-- The returned header: the caller's tokens that `ParseBundle`'s default filter keeps, in their
order, then the tokens of the collected discharges (in the model in ticket order; in Go in
goroutine completion order, so the family compares that part as a multiset), written with the
`FlyV1 ` scheme iff the input carried a scheme (and there is at least one token). -/
theorem result_header (mu : Bool) (cfg : Cfg) (stripped : Bool) (kept : List Str)
    (tickets : List (Str × List Nat)) (toks : Str → Option (List Str)) (script : Str → Nat → List Resp) :
    let r := fetch mu cfg stripped kept tickets toks script
    r.header = (if stripped && !(kept ++ r.discharges).isEmpty then flyV1Prefix else []) ++ tokensString (kept ++ r.discharges) ∧
    r.discharges = r.flows.flatMap (fun f =>
      match f.outcome with
      | .discharge d => (toks d).getD []
      | _ => []) := by
  constructor
  · exact header_eq stripped _
  · simp only [fetch, List.flatMap_map]
    congr 1
    funext lt
    split <;> simp_all

/-! ### the returned header, over the bundle model (C13) -/

section overBundle
open Macaroon Macaroon.Bundle Macaroon.Lemmas.ClientBundle

/-- **fetch_over_bundle.**  `fetch` with its parameters instantiated by the bundle model: `kept` =
the token texts of `ParseBundle(firstPartyLocation, header)` (default filter), `toks` =
`Bundle.AddTokens`.  With `bf` = the caller's bundle after `AddTokens` of every collected discharge
(a failing `AddTokens` changes nothing): the returned header is `bf.Header()` when the caller's header
carried a scheme and `bf.String()` otherwise; `bf`'s tokens are the caller's tokens, untouched and in
their order, followed by new ones; the caller's tokens are a sub-list, in order and verbatim, of the
comma-separated entries of the caller's header (`default_filter_keeps_order` of C13); and the new
token texts are exactly the collected discharges' tokens.  (`tickets` and `script` — which flows run and
what the third parties answer — stay parameters: the client model names tickets by numbers, the
bundle model by their bytes; `ignored_never_contacted` is about them.) -/
theorem fetch_over_bundle (mu : Bool) (cfg : Cfg) (pl : Bytes) (hdr : List Char)
    (tickets : List (List Char × List Nat)) (script : List Char → Nat → List Resp) :
    let b0 := (Bundle.parse pl hdr).1
    let r := fetch mu cfg (Header.stripScheme hdr).2 (b0.ts.map Tok.str) tickets addToks script
    let bf := addAll b0 (collected r.flows)
    r.header = (if (Header.stripScheme hdr).2 then bf.header else Bundle.tokString bf.ts) ∧
    (∃ new, bf.ts = b0.ts ++ new) ∧
    (b0.ts.map Tok.str).Sublist ((Header.parts hdr).map Header.trim) ∧
    bf.ts.map Tok.str = b0.ts.map Tok.str ++ r.discharges := by
  intro b0 r bf
  have hd : r.discharges = (collected r.flows).flatMap fun d => (addToks d).getD [] := discharges_eq _
  have hstr : bf.ts.map Tok.str = b0.ts.map Tok.str ++ r.discharges := by
    rw [hd]; exact addAll_strs _ _
  have hsub : (b0.ts.map Tok.str).Sublist ((Header.parts hdr).map Header.trim) := by
    rw [← Lemmas.BundleL.parseToks_str hdr]
    have : b0.ts = (Bundle.parseToks hdr).filter (Lemmas.BundleL.defaultKeep pl (Bundle.parseToks hdr)) :=
      Lemmas.BundleL.default_apply pl _
    rw [this]
    exact List.filter_sublist.map _
  refine ⟨?_, addAll_prefix _ _, hsub, hstr⟩
  show (if (Header.stripScheme hdr).2 then tokensHeader (b0.ts.map Tok.str ++ r.discharges)
      else tokensString (b0.ts.map Tok.str ++ r.discharges)) = _
  rw [← hstr]
  cases (Header.stripScheme hdr).2
  · simp only [Bool.false_eq_true, if_false, Bundle.tokString, tokensString_eq_joinWith]
  · simp only [if_true, Bundle.header, Bundle.headerOf, tokensHeader]
    cases hts : bf.ts with
    | nil => simp
    | cons t ts =>
      simp only [List.map_cons, reduceCtorEq, if_false, Bundle.tokString, tokensString_eq_joinWith]
      rfl

end overBundle

/-! ### witnesses, non-vacuity, observations -/

section examples

/-- `s://t@e:8/t?t#t` -/
def exParts : Parts := ⟨['s'], some ['t'], .reg ['e'], some ['8'], ['/', 't'], some ['t'], some ['t']⟩

theorem exParts_wf : exParts.WF where
  scheme := ⟨'s', [], rfl, by decide, by decide⟩
  user := by intro u h; cases h; decide
  host := ⟨by decide, by decide, by decide⟩
  port := by intro d h; cases h; decide
  path := ⟨Or.inr ⟨['t'], rfl⟩, by decide, by decide, by decide⟩
  query := by intro q h; cases h; decide
  frag := by intro f h; cases h; decide
  noCTL := by decide

/-- non-vacuity of `hostname_of_built_url`: the trusted name `t` sits in userinfo, path, query and
fragment, the host is `e` -/
example : exParts.build = ['s', ':', '/', '/', 't', '@', 'e', ':', '8', '/', 't', '?', 't', '#', 't'] ∧
    hostname exParts.build = .host ['e'] :=
  ⟨by decide, hostname_of_built_url exParts exParts_wf⟩

/-- `[::1]:8` -/
def exParts6 : Parts := ⟨['s'], none, .ip6 [':', ':', '1'], some ['8'], [], none, none⟩

example : hostname exParts6.build = .host [':', ':', '1'] :=
  hostname_of_built_url exParts6
    { scheme := ⟨'s', [], rfl, by decide, by decide⟩
      user := by intro u h; cases h
      host := ⟨by decide, by decide⟩
      port := by intro d h; cases h; decide
      path := ⟨Or.inl rfl, by decide, by decide, by decide⟩
      query := by intro q h; cases h
      frag := by intro f h; cases h
      noCTL := by decide }

/-- `s://e` -/
def exLoc : Parts := ⟨['s'], none, .reg ['e'], none, [], none, none⟩

/-- non-vacuity of `init_request_gets_credential`: the init request of `s://e` is
`s://e/.well-known/macfly/3p`, host `e`, and gets the credential configured for `s://e` -/
example :
    withAuthentication exLoc.build ['A'] = some (.withAuth ['e'] ['A']) ∧
    (match Url.parse (initURL exLoc.build) with
     | .ok u => (u.host, attach (applyOptions [.withAuth ['e'] ['A']]) u)
     | _ => ([], none)) = (['e'], some ['A']) := by decide

/-- non-vacuity of `attach_iff` / last configuration wins / empty credential switches off -/
example :
    let u : Url := ⟨[], ['t'], false, true⟩
    attach (applyOptions [.withAuth ['t'] ['A'], .withHTTP ⟨1, some 7⟩, .withAuth ['t'] ['B']]) u = some ['B'] ∧
    attach (applyOptions [.withAuth ['t'] ['A'], .withAuth ['t'] []]) u = none ∧
    attach (applyOptions [.withAuth ['x', '.', 't'] ['A']]) u = none := by decide

/-- observation: no case folding, trailing dot kept — `T` and `t.` are not `t` -/
theorem case_and_trailing_dot_not_folded :
    attach (applyOptions [.withAuth ['t'] ['A']]) ⟨[], ['T'], false, true⟩ = none ∧
    attach (applyOptions [.withAuth ['t'] ['A']]) ⟨[], ['t', '.'], false, true⟩ = none := by decide

/-- non-vacuity of `options_order_irrelevant`, and `WithHTTP` after `WithAuthentication` keeps the map -/
example :
    let o₁ := [Opt.withAuth ['t'] ['A'], .withHTTP ⟨1, some 7⟩, .withIgnored [['i']], .withAuth ['u'] ['B']]
    let o₂ := [Opt.withIgnored [['i']], .withAuth ['u'] ['B'], .withAuth ['t'] ['A'], .withHTTP ⟨1, some 7⟩]
    o₁.Perm o₂ ∧ o₁.filter isHTTP = o₂.filter isHTTP ∧ (∀ k, o₁.filter (isAuthFor k) = o₂.filter (isAuthFor k)) ∧
      innerUsed (applyOptions o₁) = .user 7 ∧ attach (applyOptions o₁) ⟨[], ['t'], false, true⟩ = some ['A'] := by
  refine ⟨?_, by decide, ?_, by decide, by decide⟩
  · decide
  · intro k
    by_cases h1 : (['t'] : Str) = k
    · subst h1; simp [isAuthFor]
    · by_cases h2 : (['u'] : Str) = k
      · subst h2; simp [isAuthFor]
      · simp [isAuthFor, h1, h2]

def wCfg : Cfg := applyOptions [.withAuth ['t'] ['S']]
def wLoc : Str := ['s', ':', '/', '/', 't']
def wPoll : Str := ['s', ':', '/', '/', 't', '/', 'p']
def wEvil : Str := ['s', ':', '/', '/', 'e', '.', 't', '/', 'p']
/-- init answers `poll_url = s://t/p`; first poll: 202; second poll: 307 to `s://e.t/p`; then a discharge -/
def wScript : List Resp := [.json { pollUrl := wPoll }, .accepted, .redirect wEvil, .json { discharge := ['d'] }]

/-- NEGATIVE witness (the code before the repair, `mu = true`): the credential `S` configured for
host `t` is sent to `e.t`, a redirect target reached in the second poll iteration -/
theorem in_place_header_leaks_to_subdomain :
    (flow true wCfg wLoc wScript).1.map (fun s => (s.url.host, s.auth)) =
      [(['t'], some ['S']), (['t'], some ['S']), (['t'], some ['S']), (['e', '.', 't'], some ['S'])] ∧
    attach wCfg ⟨wEvil, ['e', '.', 't'], false, true⟩ = none := by decide

/-- the same run with a `RoundTrip` that leaves the caller's request alone (non-vacuity of
`every_request_through_attach`: four requests, one of them a redirect hop) -/
example :
    (flow false wCfg wLoc wScript).1.map (fun s => (s.url.host, s.auth)) =
      [(['t'], some ['S']), (['t'], some ['S']), (['t'], some ['S']), (['e', '.', 't'], none)] := by decide

/-- non-vacuity of `ignored_never_contacted` / `result_header`: two tickets, one ignored; a
`Bearer` input (stripped) comes back as `FlyV1 k,d` -/
example :
    let cfg := applyOptions [.withIgnored [['s', ':', '/', '/', 'i']]]
    let r := fetch false cfg true [['k']] [(wLoc, [0]), (['s', ':', '/', '/', 'i'], [1])] (fun d => some [d])
      (fun _ _ => [.json { discharge := ['d'] }])
    r.flows.map (fun f => f.loc) = [wLoc] ∧ r.header = flyV1Prefix ++ ['k', ',', 'd'] ∧ r.failed = false := by decide

/-- non-vacuity of `credential_to_every_request_of_its_host`: in the `wScript` run the three requests to
host `t` (init, two polls) all carry `S`; the hypotheses hold with `pre = post = []` -/
example : ∀ s ∈ (flow false wCfg wLoc wScript).1, s.url.host = ['t'] → s.auth = some ['S'] := by decide
example : ([.withAuth ['t'] ['S']] : List Opt) = [] ++ .withAuth ['t'] ['S'] :: [] ∧ (['S'] : Cred) ≠ [] := by decide

end examples

end Macaroon.Props.C20

#print axioms Macaroon.Props.C20.attach_iff
#print axioms Macaroon.Props.C20.withAuthentication_key
#print axioms Macaroon.Props.C20.other_hosts_get_nothing
#print axioms Macaroon.Props.C20.hostname_of_built_url
#print axioms Macaroon.Props.C20.built_url_host
#print axioms Macaroon.Props.C20.port_scheme_path_ignored
#print axioms Macaroon.Props.C20.trusted_name_elsewhere_is_not_the_host
#print axioms Macaroon.Props.C20.subdomain_ne
#print axioms Macaroon.Props.C20.subdomain_superdomain_get_nothing
#print axioms Macaroon.Props.C20.init_request_gets_credential
#print axioms Macaroon.Props.C20.options_order_irrelevant
#print axioms Macaroon.Props.C20.inner_transport
#print axioms Macaroon.Props.C20.every_request_through_attach
#print axioms Macaroon.Props.C20.credential_only_to_its_host
#print axioms Macaroon.Props.C20.ignored_never_contacted
#print axioms Macaroon.Props.C20.ignored_iff
#print axioms Macaroon.Props.C20.result_header
#print axioms Macaroon.Props.C20.exParts_wf
#print axioms Macaroon.Props.C20.case_and_trailing_dot_not_folded
#print axioms Macaroon.Props.C20.in_place_header_leaks_to_subdomain
#print axioms Macaroon.Props.C20.credential_to_every_request_of_its_host
#print axioms Macaroon.Props.C20.fetch_over_bundle
