/-
C01 — caveats cannot be removed, reordered or altered without the key.

Generic part (every `Crypto B`): what `verify` accepts has the MAC chain over its nonce and ALL its
caveats as tail, and what it returns is carried by the accepted token or by an accepted discharge.
The unbounded attacker statement (`no_forgery_token`, `run_no_forgery_closed`, `key_secrecy`,
`honest_history_safe`, `mint_nonces_distinct`, and the direct form `tail_determines_token`) is proved for the symbolic instance in
Props/Symbolic.lean under the perfect-cryptography idealisation; that the byte encodings keep
nonce components and caveats apart is `encNonce_injective` / `encCav_injective` (Props/C11).
Tie: families `forge`, `legit`.
-/
import Macaroon.Lemmas.Token
import Macaroon.Crypto.Symbolic

namespace Macaroon.Props.C01
open Macaroon Macaroon.Crypto Macaroon.Lemmas
variable {B : Type} [Crypto B]

/-- an accepted token's tail is the MAC chain started from `sign(key, nonce)` over every one of
its caveats (finalised for proofs): the loop has no exit that skips a MAC update -/
theorem verify_tail (k : B) (m : Mac B) (dms : List (Mac B)) (tr : Bytes → List B) (cs : List (Cav B))
    (hv : verify k m dms tr = .ok cs) :
    ∃ t, chain (macNonce k m.nonce) m.cavs = some t ∧ ctEq (finIf m.nonce.proof t) m.tail = true := by
  obtain ⟨_, _, t, hc, he, _⟩ := (verifyWith_ok_iff k m dms [] true tr cs).mp hv
  exact ⟨t, hc, he⟩

/-- the caveats returned by verification are exactly the ones the accepted token carries (minus
third-party and binding caveats, which are checked, not returned), in order, followed by caveats
carried by presented discharges whose key-id is a ticket of the token -/
theorem verify_returns_carried (k : B) (m : Mac B) (dms : List (Mac B)) (tr : Bytes → List B)
    (cs : List (Cav B)) (hv : verify k m dms tr = .ok cs) :
    ∃ dcs, cs = m.cavs.filter (kept true) ++ dcs ∧
      ∀ c ∈ dcs, ∃ d ∈ dms, c ∈ d.cavs ∧ ∃ loc vk ticket, Cav.tp loc vk ticket ∈ m.cavs ∧ kidEq d.nonce.kid ticket = true := by
  obtain ⟨_, _, t, _, _, css, hm, rfl⟩ := (verifyWith_ok_iff k m dms [] true tr cs).mp hv
  refine ⟨css.flatten, rfl, fun c hc => ?_⟩
  obtain ⟨r, hr, hcr⟩ := List.mem_flatten.mp hc
  obtain ⟨p, hp, hf⟩ := mapM_mem_out _ _ css hm r hr
  obtain ⟨pre, d, post, hds, _, tt, _, hvf⟩ := (firstDischarge_some_iff _ _ _ _ _ _).mp hf
  obtain ⟨_, _, _, _, _, hrd⟩ := (verifyFlat_ok_iff _ _ _ _ _).mp hvf
  obtain ⟨loc, vk, ticket, hmem, hb⟩ := mem_pendOf dms _ _ p hp
  have hd : d ∈ p.ds := by rw [hds]; simp
  obtain ⟨hdm, hkid⟩ := (mem_byTicket dms ticket p.ds hb).2 d hd
  rw [hrd] at hcr
  exact ⟨d, hdm, (List.mem_filter.mp hcr).1, loc, vk, ticket, hmem, hkid⟩

/-- nothing that is not in the accepted token or an accepted discharge is ever returned -/
theorem returned_is_presented (k : B) (m : Mac B) (dms : List (Mac B)) (tr : Bytes → List B)
    (cs : List (Cav B)) (hv : verify k m dms tr = .ok cs) :
    ∀ c ∈ cs, c ∈ m.cavs ∨ ∃ d ∈ dms, c ∈ d.cavs := by
  obtain ⟨dcs, rfl, h⟩ := verify_returns_carried k m dms tr cs hv
  intro c hc
  rcases List.mem_append.mp hc with h1 | h2
  · exact Or.inl (List.mem_filter.mp h1).1
  · obtain ⟨d, hd, hcd, _⟩ := h c h2
    exact Or.inr ⟨d, hd, hcd⟩

/-- only the nonce and the caveats are authenticated: the location string plays no role in
verification (recorded; the property does not claim it) -/
theorem verify_ignores_location (k : B) (m : Mac B) (loc : Bytes) (dms : List (Mac B)) (tr : Bytes → List B) :
    verify k { m with loc := loc } dms tr = verify k m dms tr := rfl

/-- a token whose nonce differs in any component is MACed from a different root -/
theorem tail_depends_on_whole_nonce (k : B) (m : Mac B) (dms : List (Mac B)) (tr : Bytes → List B) (cs : List (Cav B))
    (hv : verify k m dms tr = .ok cs) (hnc : m.cavs = []) (hnp : m.nonce.proof = false) :
    ctEq (macNonce k m.nonce) m.tail = true := by
  obtain ⟨t, hc, he⟩ := verify_tail k m dms tr cs hv
  rw [hnc] at hc; simp only [chain, Option.some.injEq] at hc
  rw [← hc] at he; simpa [finIf, hnp] using he

/-- the converse direction, "cannot be removed" as seen by the caller: every returnable caveat of
the accepted token is in the result, and the token's own caveats come first, in the token's order
(the result starts with them) -/
theorem own_caveats_returned_in_order (k : B) (m : Mac B) (dms : List (Mac B)) (tr : Bytes → List B)
    (cs : List (Cav B)) (hv : verify k m dms tr = .ok cs) :
    m.cavs.filter (kept true) <+: cs ∧ ∀ c ∈ m.cavs, kept true c = true → c ∈ cs := by
  obtain ⟨dcs, rfl, _⟩ := verify_returns_carried k m dms tr cs hv
  refine ⟨List.prefix_append _ _, fun c hc hk => ?_⟩
  exact List.mem_append.mpr (Or.inl (List.mem_filter.mpr ⟨hc, hk⟩))

/-- with no discharge presented the result is exactly the token's own returnable caveats -/
theorem no_discharges_returns_own (k : B) (m : Mac B) (tr : Bytes → List B)
    (cs : List (Cav B)) (hv : verify k m [] tr = .ok cs) : cs = m.cavs.filter (kept true) := by
  obtain ⟨dcs, rfl, h⟩ := verify_returns_carried k m [] tr cs hv
  cases dcs with
  | nil => simp
  | cons c _ => obtain ⟨d, hd, _⟩ := h c (by simp); cases hd

/-! ### non-vacuity (symbolic instance; the attacker-level witnesses are in Props/Symbolic.lean) -/

section examples
open Symbolic Symbolic.Term

def t0 : Mac Term := mint (atom 0) (lit [1]) [] (atom 1) false
def ttk : Term := sealTicket (atom 5) (atom 12) (atom 11) [.isUser 3]
def t1 : Mac Term := (add t0 [.plain (.isUser 7), .new3p [9] ttk (atom 11) (atom 13), .plain (.action 1)]).1
def td : Mac Term := encodeState (add (mint (atom 11) ttk [9] (atom 14) true) [.plain (.confineUser 5)]).1

example : verify (atom 0) t1 [td] (fun _ => []) = .ok [.isUser 7, .action 1, .confineUser 5] := by rfl
example := verify_tail (atom 0) t1 [td] (fun _ => []) _ (by rfl)
example := verify_returns_carried (atom 0) t1 [td] (fun _ => []) _ (by rfl)
example := returned_is_presented (atom 0) t1 [td] (fun _ => []) _ (by rfl)
example := tail_depends_on_whole_nonce (atom 0) t0 [] (fun _ => []) [] (by rfl) rfl rfl
example := own_caveats_returned_in_order (atom 0) t1 [td] (fun _ => []) _ (by rfl)
example := no_discharges_returns_own (atom 0) t0 (fun _ => []) _ (by rfl)
-- a caveat removed / the proof flag flipped / the version changed: rejected
example : verify (atom 0) { t1 with cavs := t1.cavs.take 2 } [td] (fun _ => []) = .error .invalid := by rfl
example : verify (atom 0) { t1 with cavs := t1.cavs.drop 1 } [td] (fun _ => []) = .error .unsealVK := by rfl
example : verify (atom 0) { t0 with nonce := { t0.nonce with proof := true } } [] (fun _ => []) = .error .invalid := by rfl
example : verify (atom 0) { t0 with nonce := { t0.nonce with version := 0 } } [] (fun _ => []) = .error .invalid := by rfl

end examples

end Macaroon.Props.C01

#print axioms Macaroon.Props.C01.verify_tail
#print axioms Macaroon.Props.C01.verify_returns_carried
#print axioms Macaroon.Props.C01.returned_is_presented
#print axioms Macaroon.Props.C01.verify_ignores_location
#print axioms Macaroon.Props.C01.tail_depends_on_whole_nonce
#print axioms Macaroon.Props.C01.own_caveats_returned_in_order
#print axioms Macaroon.Props.C01.no_discharges_returns_own
