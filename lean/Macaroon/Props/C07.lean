/-
C07 — attestations surface only from trusted, finalised proofs.

Generic theorems (every `Crypto B`) about `verify`, `add`, `getCaveats` (typed lookup, recursing
into wrappers) of Token/Macaroon.lean and Caveat/Prohibits.lean.  The model is the model of the
code after the repair of F1 (wrappers containing an attestation are refused by `verify` and `Add`).
Tie: family `attest`.
-/
import Macaroon.Lemmas.Token

namespace Macaroon.Props.C07
open Macaroon Macaroon.Crypto Macaroon.Lemmas
variable {B : Type} [Crypto B]

/-- what typed lookup (`GetCaveats[T]`, `DangerousUserID`) can find in a verification result -/
def obtainable (cs : List (Cav B)) : List (Cav B) := getCaveats Cav.isAttestation cs

/-- the provenance with the verification that admitted the attestation made explicit: in the
discharge case `d` is the candidate that was ACCEPTED for a third-party caveat `p` of the token —
`verifyFlat` accepted it under that caveat's key, in the trusted role, with the binding ids of the
presented token — and the attestation is among what that verification returned.  (This is the form
the symbolic no-forgery result `Props.Symbolic.attestation_no_forgery` starts from.) -/
theorem attestation_source (k : B) (m : Mac B) (dms : List (Mac B)) (tr : Bytes → List B)
    (cs : List (Cav B)) (hv : verify k m dms tr = .ok cs) (a : Cav B) (ha : a ∈ obtainable cs) :
    a.isAttestation = true ∧
    ((m.nonce.proof = true ∧ a ∈ m.cavs) ∨
     (∃ p ∈ pendOf (byTicket dms) (macNonce k m.nonce) m.cavs, ∃ d ∈ p.ds,
        d.nonce.proof = true ∧ a ∈ d.cavs ∧ trustOf (tr d.loc) d.nonce.kid p.key = some true ∧
        ∃ r, verifyFlat p.key d
          (digest (macNonce k m.nonce) :: (tailsAfter (macNonce k m.nonce) m.cavs).map digest) true = .ok r ∧
          a ∈ r)) := by
  obtain ⟨_, hok, t, hc, _, css, hm, rfl⟩ := (verifyWith_ok_iff k m dms [] true tr cs).mp hv
  -- every returned caveat is free of wrapped attestations
  have clean_m := walkOK_clean _ _ _ _ _ hok
  have hres : ∀ r ∈ css, ∃ p ∈ pendOf (byTicket dms) (macNonce k m.nonce) m.cavs, ∃ d ∈ p.ds, ∃ tt,
      trustOf (tr d.loc) d.nonce.kid p.key = some tt ∧
      walkOK d.nonce.proof (fun _ => none)
        (digest (macNonce k m.nonce) :: (tailsAfter (macNonce k m.nonce) m.cavs).map digest)
        (macNonce p.key d.nonce) d.cavs = true ∧ r = d.cavs.filter (kept (true && tt)) ∧
      verifyFlat p.key d
        (digest (macNonce k m.nonce) :: (tailsAfter (macNonce k m.nonce) m.cavs).map digest) (true && tt) = .ok r := by
    intro r hr
    obtain ⟨q, hq, hf⟩ := mapM_mem_out _ _ css hm r hr
    obtain ⟨pre, d, post, hds, _, tt, htr, hvf⟩ := (firstDischarge_some_iff _ _ _ _ _ _).mp hf
    obtain ⟨_, hwd, _, _, _, hrd⟩ := (verifyFlat_ok_iff _ _ _ _ _).mp hvf
    exact ⟨q, hq, d, by rw [hds]; simp, tt, htr, hwd, hrd, hvf⟩
  -- all returned caveats are clean, so typed lookup sees only top-level attestations
  have hclean : ∀ c ∈ m.cavs.filter (kept true) ++ css.flatten, c.wrapsAttestation = false := by
    intro c hc
    simp only [List.mem_append, List.mem_filter, List.mem_flatten] at hc
    rcases hc with ⟨hcm, hk⟩ | ⟨r, hr, hcr⟩
    · simp only [kept, Bool.and_eq_true, Bool.not_eq_eq_eq_not, Bool.not_true] at hk
      exact (clean_m c hcm hk.1.1 hk.1.2).1
    · obtain ⟨p, _, d, _, tt, _, hwd, rfl, _⟩ := hres r hr
      simp only [List.mem_filter, kept, Bool.and_eq_true, Bool.not_eq_eq_eq_not, Bool.not_true] at hcr
      exact (walkOK_clean _ _ _ _ _ hwd c hcr.1 hcr.2.1.1 hcr.2.1.2).1
  unfold obtainable at ha
  rw [getCaveats_att_of_clean _ hclean] at ha
  simp only [List.mem_filter, List.mem_append, List.mem_flatten] at ha
  obtain ⟨hmem, hatt⟩ := ha
  refine ⟨hatt, ?_⟩
  rcases hmem with ⟨hcm, hk⟩ | ⟨r, hr, hcr⟩
  · left
    simp only [kept, Bool.and_eq_true, Bool.not_eq_eq_eq_not, Bool.not_true] at hk
    exact ⟨(clean_m a hcm hk.1.1 hk.1.2).2 hatt, hcm⟩
  · right
    obtain ⟨p, hp, d, hd, tt, htr, hwd, hreq, hvf⟩ := hres r hr
    have hcr0 := hcr
    rw [hreq] at hcr
    simp only [List.mem_filter, kept, Bool.and_eq_true, Bool.not_eq_eq_eq_not, Bool.not_true,
      Bool.or_eq_true, Bool.true_and] at hcr
    have hpr := (walkOK_clean _ _ _ _ _ hwd a hcr.1 hcr.2.1.1 hcr.2.1.2).2 hatt
    have htt : tt = true := by
      rcases hcr.2.2 with h | h
      · rw [hatt] at h; cases h
      · exact h
    subst htt
    exact ⟨p, hp, d, hd, hpr, hcr.1, htr, r, by simpa using hvf, hcr0⟩

/-- An attestation obtainable from a verification result sits at top level of a finalised proof:
either the presented token itself is a proof (signed with the verifier's own key `k`) and carries
it, or it is carried by an accepted discharge `d` that is a proof AND whose location has a trusted
key that opens its key-id (the ticket) to the very secret that signs it (`trustOf … = some true`).
Nothing is obtainable from inside a wrapper at any depth, from a non-proof token, or from a
discharge of an untrusted third party. -/
theorem attestation_provenance (k : B) (m : Mac B) (dms : List (Mac B)) (tr : Bytes → List B)
    (cs : List (Cav B)) (hv : verify k m dms tr = .ok cs) (a : Cav B) (ha : a ∈ obtainable cs) :
    a.isAttestation = true ∧
    ((m.nonce.proof = true ∧ a ∈ m.cavs) ∨
     (∃ p ∈ pendOf (byTicket dms) (macNonce k m.nonce) m.cavs, ∃ d ∈ p.ds,
        d.nonce.proof = true ∧ a ∈ d.cavs ∧ trustOf (tr d.loc) d.nonce.kid p.key = some true)) := by
  obtain ⟨hatt, h⟩ := attestation_source k m dms tr cs hv a ha
  refine ⟨hatt, ?_⟩
  rcases h with h | ⟨p, hp, d, hd, hpr, had, htr, _⟩
  · exact Or.inl h
  · exact Or.inr ⟨p, hp, d, hd, hpr, had, htr⟩

/-- trust is proven by the ticket: a discharge is trusted only if some key the verifier was told
to trust for the discharge's location opens its key-id to the secret that verifies it; a key-id a
trusted key opens to ANOTHER secret (a re-used ticket) makes the candidate be rejected outright -/
theorem trust_needs_matching_ticket (keys : List B) (kid vk : B) :
    (trustOf keys kid vk = some true → ∃ ka ∈ keys, ∃ dk cs, openTicket ka kid = .ok dk cs ∧ ctEq vk dk = true) ∧
    (∀ ka ∈ keys, ∀ dk cs, openTicket ka kid = .ok dk cs → ctEq vk dk = false →
        (∀ kb ∈ keys, kb ≠ ka → openTicket kb kid = .cannotOpen) → trustOf keys kid vk = none) := by
  constructor
  · induction keys with
    | nil => simp [trustOf]
    | cons ka rest ih =>
      intro h
      unfold trustOf at h
      cases ho : openTicket ka kid with
      | cannotOpen =>
        simp only [ho] at h
        obtain ⟨kb, hkb, r⟩ := ih h
        exact ⟨kb, List.mem_cons_of_mem _ hkb, r⟩
      | badPlaintext => simp [ho] at h
      | ok dk cs =>
        simp only [ho] at h
        by_cases hc : ctEq vk dk = true
        · exact ⟨ka, by simp, dk, cs, ho, hc⟩
        · simp [hc] at h
  · induction keys with
    | nil => intro ka hka; cases hka
    | cons k0 rest ih =>
      intro ka hka dk cs ho hne hothers
      unfold trustOf
      simp only [List.mem_cons] at hka
      by_cases hk : k0 = ka
      · subst hk; simp [ho, hne]
      · have h0 := hothers k0 (by simp) hk
        simp only [h0]
        rcases hka with rfl | hka
        · exact absurd rfl hk
        · exact ih ka hka dk cs ho hne (fun kb hkb hn => hothers kb (List.mem_cons_of_mem _ hkb) hn)

/-- with no trusted key for a location (absent or empty entry) nothing from there is trusted -/
theorem no_keys_no_trust (kid vk : B) : trustOf ([] : List B) kid vk = some false := rfl

/-- a bearer cannot add an attestation to a non-proof token, nor a wrapper around one to any token -/
theorem bearer_cannot_add (m : Mac B) (c : Cav B) (rest : List (AddItem B)) (seen : List Bytes) :
    (c.isAttestation = true → m.nonce.proof = false →
        addLoop (AddItem.plain c :: rest) m seen = (m, some .attestationOnNonProof)) ∧
    (c.isAttestation = false → c.wrapsAttestation = true →
        addLoop (AddItem.plain c :: rest) m seen = (m, some .wrappedAttestation)) := by
  constructor
  · intro ha hp; unfold addLoop; simp [ha, hp]
  · intro ha hw; unfold addLoop; simp [ha, hw]

/-- a non-proof token carrying an attestation, or any token carrying a wrapped one, is rejected -/
theorem smuggled_attestation_rejected (k : B) (m : Mac B) (dms : List (Mac B)) (tr : Bytes → List B)
    (c : Cav B) (hc : c ∈ m.cavs) (hk : c.is3P = false) (hb : c.isBind = false)
    (h : (c.isAttestation = true ∧ m.nonce.proof = false) ∨ c.wrapsAttestation = true) :
    ∀ cs, verify k m dms tr ≠ .ok cs := by
  intro cs hv
  obtain ⟨_, hok, _⟩ := (verifyWith_ok_iff k m dms [] true tr cs).mp hv
  have := walkOK_clean _ _ _ _ _ hok c hc hk hb
  rcases h with ⟨ha, hp⟩ | hw
  · have := this.2 ha; rw [hp] at this; cases this
  · rw [this.1] at hw; cases hw

end Macaroon.Props.C07

#print axioms Macaroon.Props.C07.attestation_source
#print axioms Macaroon.Props.C07.attestation_provenance
#print axioms Macaroon.Props.C07.trust_needs_matching_ticket
#print axioms Macaroon.Props.C07.no_keys_no_trust
#print axioms Macaroon.Props.C07.bearer_cannot_add
#print axioms Macaroon.Props.C07.smuggled_attestation_rejected
