/-
C07 — attestations surface only from trusted, finalised proofs.

Generic theorems (every `Crypto B`) about `verify`, `add`, `getCaveats` (typed lookup, recursing
into wrappers) of Token/Macaroon.lean and Caveat/Prohibits.lean.  The model is the model of the
code after the repair of F1 (wrappers containing an attestation are refused by `verify` and `Add`).
Which caveat types are attestations / wrappers is tied to the registry regenerated from /repo
(`registry_attestation_flags`, `isAttestation_by_type`): a build-time obligation.
End to end against the attacker (Props/Symbolic.lean): `attestation_no_forgery` (conditional on `hT`) and,
over honest runs only, `run_attestation_no_forgery` / `run_attestation_provenance` (`hT` derived from
the run by the box-origin invariant of Lemmas/BoxOrigin.lean, for third parties that are honest in
the sense of `TrustedHonest`).
Tie: family `attest`; Generated/Registry.lean.
-/
import Macaroon.Lemmas.Token
import Macaroon.Generated.Registry
import Macaroon.Crypto.Symbolic

namespace Macaroon.Props.C07
open Macaroon Macaroon.Crypto Macaroon.Lemmas
variable {B : Type} [Crypto B]

/-- what typed lookup (`GetCaveats[T]`, `DangerousUserID`) can find in a verification result -/
def obtainable (cs : List (Cav B)) : List (Cav B) := getCaveats Cav.isAttestation cs

/-- the provenance with the verification that admitted the attestation made explicit: in the
discharge case `d` is the candidate that was ACCEPTED for a third-party caveat `p` of the token —
`verifyFlat` accepted it under that caveat's key, in the trusted role, with the binding ids of the
presented token — and the attestation is among what that verification returned.  (This is the form
the symbolic no-forgery result `Props.Symbolic.attestation_no_forgery` starts from.) -/
theorem attestation_source (k : B) (m : Mac B) (dms : List (Mac B)) (tr : Bytes → List B)
    (cs : List (Cav B)) (hv : verify k m dms tr = .ok cs) (a : Cav B) (ha : a ∈ obtainable cs) :
    a.isAttestation = true ∧
    ((m.nonce.proof = true ∧ a ∈ m.cavs) ∨
     (∃ p ∈ pendOf (byTicket dms) (macNonce k m.nonce) m.cavs, ∃ d ∈ p.ds,
        d.nonce.proof = true ∧ a ∈ d.cavs ∧ trustOf (tr d.loc) d.nonce.kid p.key = some true ∧
        ∃ r, verifyFlat p.key d
          (digest (macNonce k m.nonce) :: (tailsAfter (macNonce k m.nonce) m.cavs).map digest) true = .ok r ∧
          a ∈ r)) := by
  obtain ⟨_, hok, t, hc, _, css, hm, rfl⟩ := (verifyWith_ok_iff k m dms [] true tr cs).mp hv
  -- every returned caveat is free of wrapped attestations
  have clean_m := walkOK_clean _ _ _ _ _ hok
  have hres : ∀ r ∈ css, ∃ p ∈ pendOf (byTicket dms) (macNonce k m.nonce) m.cavs, ∃ d ∈ p.ds, ∃ tt,
      trustOf (tr d.loc) d.nonce.kid p.key = some tt ∧
      walkOK d.nonce.proof (fun _ => none)
        (digest (macNonce k m.nonce) :: (tailsAfter (macNonce k m.nonce) m.cavs).map digest)
        (macNonce p.key d.nonce) d.cavs = true ∧ r = d.cavs.filter (kept (true && tt)) ∧
      verifyFlat p.key d
        (digest (macNonce k m.nonce) :: (tailsAfter (macNonce k m.nonce) m.cavs).map digest) (true && tt) = .ok r := by
    intro r hr
    obtain ⟨q, hq, hf⟩ := mapM_mem_out _ _ css hm r hr
    obtain ⟨pre, d, post, hds, _, tt, htr, hvf⟩ := (firstDischarge_some_iff _ _ _ _ _ _).mp hf
    obtain ⟨_, hwd, _, _, _, hrd⟩ := (verifyFlat_ok_iff _ _ _ _ _).mp hvf
    exact ⟨q, hq, d, by rw [hds]; simp, tt, htr, hwd, hrd, hvf⟩
  -- all returned caveats are clean, so typed lookup sees only top-level attestations
  have hclean : ∀ c ∈ m.cavs.filter (kept true) ++ css.flatten, c.wrapsAttestation = false := by
    intro c hc
    simp only [List.mem_append, List.mem_filter, List.mem_flatten] at hc
    rcases hc with ⟨hcm, hk⟩ | ⟨r, hr, hcr⟩
    · simp only [kept, Bool.and_eq_true, Bool.not_eq_eq_eq_not, Bool.not_true] at hk
      exact (clean_m c hcm hk.1.1 hk.1.2).1
    · obtain ⟨p, _, d, _, tt, _, hwd, rfl, _⟩ := hres r hr
      simp only [List.mem_filter, kept, Bool.and_eq_true, Bool.not_eq_eq_eq_not, Bool.not_true] at hcr
      exact (walkOK_clean _ _ _ _ _ hwd c hcr.1 hcr.2.1.1 hcr.2.1.2).1
  unfold obtainable at ha
  rw [getCaveats_att_of_clean _ hclean] at ha
  simp only [List.mem_filter, List.mem_append, List.mem_flatten] at ha
  obtain ⟨hmem, hatt⟩ := ha
  refine ⟨hatt, ?_⟩
  rcases hmem with ⟨hcm, hk⟩ | ⟨r, hr, hcr⟩
  · left
    simp only [kept, Bool.and_eq_true, Bool.not_eq_eq_eq_not, Bool.not_true] at hk
    exact ⟨(clean_m a hcm hk.1.1 hk.1.2).2 hatt, hcm⟩
  · right
    obtain ⟨p, hp, d, hd, tt, htr, hwd, hreq, hvf⟩ := hres r hr
    have hcr0 := hcr
    rw [hreq] at hcr
    simp only [List.mem_filter, kept, Bool.and_eq_true, Bool.not_eq_eq_eq_not, Bool.not_true,
      Bool.or_eq_true, Bool.true_and] at hcr
    have hpr := (walkOK_clean _ _ _ _ _ hwd a hcr.1 hcr.2.1.1 hcr.2.1.2).2 hatt
    have htt : tt = true := by
      rcases hcr.2.2 with h | h
      · rw [hatt] at h; cases h
      · exact h
    subst htt
    exact ⟨p, hp, d, hd, hpr, hcr.1, htr, r, by simpa using hvf, hcr0⟩

/-- An attestation obtainable from a verification result sits at top level of a finalised proof:
either the presented token itself is a proof (signed with the verifier's own key `k`) and carries
it, or it is carried by an accepted discharge `d` that is a proof AND whose location has a trusted
key that opens its key-id (the ticket) to the very secret that signs it (`trustOf … = some true`).
Nothing is obtainable from inside a wrapper at any depth, from a non-proof token, or from a
discharge of an untrusted third party. -/
theorem attestation_provenance (k : B) (m : Mac B) (dms : List (Mac B)) (tr : Bytes → List B)
    (cs : List (Cav B)) (hv : verify k m dms tr = .ok cs) (a : Cav B) (ha : a ∈ obtainable cs) :
    a.isAttestation = true ∧
    ((m.nonce.proof = true ∧ a ∈ m.cavs) ∨
     (∃ p ∈ pendOf (byTicket dms) (macNonce k m.nonce) m.cavs, ∃ d ∈ p.ds,
        d.nonce.proof = true ∧ a ∈ d.cavs ∧ trustOf (tr d.loc) d.nonce.kid p.key = some true)) := by
  obtain ⟨hatt, h⟩ := attestation_source k m dms tr cs hv a ha
  refine ⟨hatt, ?_⟩
  rcases h with h | ⟨p, hp, d, hd, hpr, had, htr, _⟩
  · exact Or.inl h
  · exact Or.inr ⟨p, hp, d, hd, hpr, had, htr⟩

/-- trust is proven by the ticket: a discharge is trusted only if some key the verifier was told
to trust for the discharge's location opens its key-id to the secret that verifies it; a key-id a
trusted key opens to ANOTHER secret (a re-used ticket) makes the candidate be rejected outright -/
theorem trust_needs_matching_ticket (keys : List B) (kid vk : B) :
    (trustOf keys kid vk = some true → ∃ ka ∈ keys, ∃ dk cs, openTicket ka kid = .ok dk cs ∧ ctEq vk dk = true) ∧
    (∀ ka ∈ keys, ∀ dk cs, openTicket ka kid = .ok dk cs → ctEq vk dk = false →
        (∀ kb ∈ keys, kb ≠ ka → openTicket kb kid = .cannotOpen) → trustOf keys kid vk = none) := by
  constructor
  · induction keys with
    | nil => simp [trustOf]
    | cons ka rest ih =>
      intro h
      unfold trustOf at h
      cases ho : openTicket ka kid with
      | cannotOpen =>
        simp only [ho] at h
        obtain ⟨kb, hkb, r⟩ := ih h
        exact ⟨kb, List.mem_cons_of_mem _ hkb, r⟩
      | badPlaintext => simp [ho] at h
      | ok dk cs =>
        simp only [ho] at h
        by_cases hc : ctEq vk dk = true
        · exact ⟨ka, by simp, dk, cs, ho, hc⟩
        · simp [hc] at h
  · induction keys with
    | nil => intro ka hka; cases hka
    | cons k0 rest ih =>
      intro ka hka dk cs ho hne hothers
      unfold trustOf
      simp only [List.mem_cons] at hka
      by_cases hk : k0 = ka
      · subst hk; simp [ho, hne]
      · have h0 := hothers k0 (by simp) hk
        simp only [h0]
        rcases hka with rfl | hka
        · exact absurd rfl hk
        · exact ih ka hka dk cs ho hne (fun kb hkb hn => hothers kb (List.mem_cons_of_mem _ hkb) hn)

/-- with no trusted key for a location (absent or empty entry) nothing from there is trusted -/
theorem no_keys_no_trust (kid vk : B) : trustOf ([] : List B) kid vk = some false := rfl

/-- a bearer cannot add an attestation to a non-proof token, nor a wrapper around one to any token -/
theorem bearer_cannot_add (m : Mac B) (c : Cav B) (rest : List (AddItem B)) (seen : List Bytes) :
    (c.isAttestation = true → m.nonce.proof = false →
        addLoop (AddItem.plain c :: rest) m seen = (m, some .attestationOnNonProof)) ∧
    (c.isAttestation = false → c.wrapsAttestation = true →
        addLoop (AddItem.plain c :: rest) m seen = (m, some .wrappedAttestation)) := by
  constructor
  · intro ha hp; unfold addLoop; simp [ha, hp]
  · intro ha hw; unfold addLoop; simp [ha, hw]

/-- the loop of `Add` on a non-proof token appends nothing that is, or wraps, an attestation -/
theorem addLoop_never_adds_attestation : ∀ (its : List (AddItem B)) (m : Mac B) (seen : List Bytes),
    m.nonce.proof = false →
    ∀ c ∈ (addLoop its m seen).1.cavs, c ∈ m.cavs ∨ (c.isAttestation = false ∧ c.wrapsAttestation = false)
  | [], m, seen, _, c, hc => Or.inl (by simpa [addLoop] using hc)
  | it :: rest, m, seen, hp, c, hc => by
    unfold addLoop at hc
    cases it with
    | plain x =>
      simp only [hp, Bool.not_false, Bool.and_true] at hc
      by_cases ha : x.isAttestation = true
      · simp [ha] at hc; exact Or.inl hc
      · simp only [ha, Bool.false_eq_true, ↓reduceIte] at hc
        by_cases hw : x.wrapsAttestation = true
        · simp [hw] at hc; exact Or.inl hc
        · simp only [hw, Bool.false_eq_true, ↓reduceIte] at hc
          cases hm : macCav m.tail x with
          | none =>
            simp only [hm] at hc
            rcases List.mem_append.mp hc with h | h
            · exact Or.inl h
            · simp at h; subst h; exact Or.inr ⟨by simpa using ha, by simpa using hw⟩
          | some t =>
            simp only [hm] at hc
            rcases addLoop_never_adds_attestation rest { m with cavs := m.cavs ++ [x], tail := t } seen hp c hc with h | h
            · rcases List.mem_append.mp h with h | h
              · exact Or.inl h
              · simp at h; subst h; exact Or.inr ⟨by simpa using ha, by simpa using hw⟩
            · exact Or.inr h
    | new3p loc ticket rn nonce =>
      simp only at hc
      by_cases hs : seen.contains loc = true
      · rw [if_pos hs] at hc; exact Or.inl hc
      · rw [if_neg hs] at hc
        cases hm : macCav m.tail (.tp loc (sealKey m.tail nonce rn) ticket) with
        | none =>
          simp only [hm] at hc
          rcases List.mem_append.mp hc with h | h
          · exact Or.inl h
          · simp at h; subst h; exact Or.inr ⟨rfl, rfl⟩
        | some t =>
          simp only [hm] at hc
          rcases addLoop_never_adds_attestation rest
              { m with cavs := m.cavs ++ [.tp loc (sealKey m.tail nonce rn) ticket], tail := t } (seen ++ [loc]) hp c hc with h | h
          · rcases List.mem_append.mp h with h | h
            · exact Or.inl h
            · simp at h; subst h; exact Or.inr ⟨rfl, rfl⟩
          · exact Or.inr h

/-- `add_never_adds_attestation`: whatever a bearer passes to `Add` on a non-proof token — any number
of arguments, the attestation (or a wrapper around one, at any depth) in any position, successful
call or not — no caveat that is or wraps an attestation is appended: every caveat of the token
afterwards was there before, or is neither -/
theorem add_never_adds_attestation (m : Mac B) (items : List (AddItem B)) (hp : m.nonce.proof = false) :
    ∀ c ∈ (add m items).1.cavs, c ∈ m.cavs ∨ (c.isAttestation = false ∧ c.wrapsAttestation = false) := by
  intro c hc
  unfold add at hc
  split at hc
  · exact Or.inl hc
  · split at hc
    · exact Or.inl hc
    · exact addLoop_never_adds_attestation _ m _ hp c hc

/-- hence a non-proof token that carries no attestation (bare or wrapped) never acquires one through `Add` -/
theorem nonproof_stays_attestation_free (m : Mac B) (items : List (AddItem B))
    (hp : m.nonce.proof = false) (hclean : ∀ c ∈ m.cavs, c.isAttestation = false ∧ c.wrapsAttestation = false) :
    ∀ c ∈ (add m items).1.cavs, c.isAttestation = false ∧ c.wrapsAttestation = false := by
  intro c hc
  rcases add_never_adds_attestation m items hp c hc with h | h
  · exact hclean c h
  · exact h

/-! ### which types are attestations and wrappers: tied to the registry regenerated from /repo -/

/-- the caveat types the model treats as attestations (`Cav.isAttestation`), by type number -/
def attestationType (t : Nat) : Bool := t == 23 || t == 24 || t == 25
/-- the caveat types the model treats as wrappers (`Cav.isWrapper`, `Cav.wrapsAttestation`, `unwrapGet`) -/
def wrapperType (t : Nat) : Bool := t == 13

/-- the model's classification is by type number; unregistered type numbers (a value of `UInt64` that
is not in the registry decodes to `unregistered`, C11) are neither -/
theorem isAttestation_by_type (c : Cav B) :
    ((∀ t raw, c ≠ .unregistered t raw) → c.isAttestation = attestationType c.typ.toNat ∧
        c.isWrapper = wrapperType c.typ.toNat) ∧
    (∀ t raw, c = .unregistered t raw → c.isAttestation = false ∧ c.isWrapper = false) ∧
    (c.wrapsAttestation = true → c.isWrapper = true) := by
  refine ⟨?_, ?_, ?_⟩
  · intro h
    cases c <;> first
      | exact ⟨rfl, rfl⟩
      | exact absurd rfl (h _ _)
  · rintro t raw rfl; exact ⟨rfl, rfl⟩
  · intro h; cases c <;> simp_all [Cav.wrapsAttestation, Cav.isWrapper]

/-- GENERATED-FACT OBLIGATION.  In the registry extracted from /repo on every run
(Generated/Registry.lean: one row per `RegisterCaveatType` call, `attestation` = the Go type has a
method `IsAttestation() bool` returning true, `wrapper` = it has `Unwrap() *CaveatSet`) the
attestation types are exactly 23, 24, 25 and the only wrapper type is 13 — the classification the
model (`isAttestation_by_type`) and hence every theorem of this file is built on.  A code change that
makes another caveat type an attestation or a wrapper (or removes one) breaks the build here. -/
theorem registry_attestation_flags :
    Generated.registry.all (fun r => r.attestation == attestationType r.typ && r.wrapper == wrapperType r.typ) = true ∧
    (Generated.registry.filter (·.attestation)).map (·.typ) = [23, 24, 25] ∧
    (Generated.registry.filter (·.wrapper)).map (·.typ) = [13] := by
  decide

/-- a non-proof token carrying an attestation, or any token carrying a wrapped one, is rejected -/
theorem smuggled_attestation_rejected (k : B) (m : Mac B) (dms : List (Mac B)) (tr : Bytes → List B)
    (c : Cav B) (hc : c ∈ m.cavs) (hk : c.is3P = false) (hb : c.isBind = false)
    (h : (c.isAttestation = true ∧ m.nonce.proof = false) ∨ c.wrapsAttestation = true) :
    ∀ cs, verify k m dms tr ≠ .ok cs := by
  intro cs hv
  obtain ⟨_, hok, _⟩ := (verifyWith_ok_iff k m dms [] true tr cs).mp hv
  have := walkOK_clean _ _ _ _ _ hok c hc hk hb
  rcases h with ⟨ha, hp⟩ | hw
  · have := this.2 ha; rw [hp] at this; cases this
  · rw [this.1] at hw; cases hw

/-- a verifier that trusts no third party at all obtains no attestation from a permission (non-proof)
token, whatever discharges are presented: the result of an accepted verification holds none -/
theorem untrusting_verifier_obtains_nothing (k : B) (m : Mac B) (dms : List (Mac B))
    (cs : List (Cav B)) (hp : m.nonce.proof = false)
    (hv : verify k m dms (fun _ => []) = .ok cs) : obtainable cs = [] := by
  cases ho : obtainable cs with
  | nil => rfl
  | cons a rest =>
    have ha : a ∈ obtainable cs := by rw [ho]; simp
    obtain ⟨_, h | ⟨p, _, d, _, _, _, ht⟩⟩ := attestation_provenance k m dms (fun _ => []) cs hv a ha
    · rw [hp] at h; cases h.1
    · simp [no_keys_no_trust] at ht

/-! ### non-vacuity (symbolic instance; the end-to-end witness `exDA` is in Props/Symbolic.lean) -/

section examples
open Symbolic Symbolic.Term

/-- issuer key `atom 0`, third-party key `atom 5`, discharge key `atom 11` -/
def q0 : Mac Term := mint (atom 0) (lit [1]) [] (atom 1) false
def qtk : Term := sealTicket (atom 5) (atom 12) (atom 11) [.isUser 3]
def q1 : Mac Term := (add q0 [.plain (.isUser 7), .new3p [9] qtk (atom 11) (atom 13)]).1
/-- the third party's finalised proof with an identity -/
def qd : Mac Term := encodeState (add (mint (atom 11) qtk [9] (atom 14) true) [.plain (.flyioUserID 7)]).1
def qtrust : Bytes → List Term := fun loc => if loc = [9] then [atom 5] else []

example : verify (atom 0) q1 [qd] qtrust = .ok [.isUser 7, .flyioUserID 7] := by rfl
-- `attestation_source` / `attestation_provenance`: hypotheses met, the discharge case is the one that holds
example := attestation_source (atom 0) q1 [qd] qtrust _ (by rfl) (.flyioUserID 7) (by decide)
example := attestation_provenance (atom 0) q1 [qd] qtrust _ (by rfl) (.flyioUserID 7) (by decide)
-- untrusting verifier: the identity is not obtainable
example : obtainable (match verify (atom 0) q1 [qd] (fun _ => []) with | .ok cs => cs | .error _ => []) = [] := by decide
example := untrusting_verifier_obtains_nothing (atom 0) q1 [qd] _ rfl (by rfl)
-- `trust_needs_matching_ticket`, both halves
example : trustOf [atom 5] qtk (atom 11) = some true := by rfl
example := (trust_needs_matching_ticket [atom 5] qtk (atom 11)).1 (by rfl)
example : trustOf [atom 5] qtk (atom 99) = none :=
  (trust_needs_matching_ticket [atom 5] qtk (atom 99)).2 (atom 5) (by simp) (atom 11) [.isUser 3] (by rfl) (by decide)
    (by intro kb hkb hne; simp only [List.mem_singleton] at hkb; exact absurd hkb hne)
-- `bearer_cannot_add`, `add_never_adds_attestation`
example : (add q1 [.plain (.isUser 8), .plain (.flyioUserID 1)]).2 = some .attestationOnNonProof := by rfl
example := add_never_adds_attestation q1 [.plain (.isUser 8), .plain (.flyioUserID 1)] rfl
example := (bearer_cannot_add q1 (.flyioUserID 1) [] []).1 rfl rfl
example := (bearer_cannot_add q1 (.ifPresent false (.cons (.flyioUserID 1) .nil) 0) [] []).2 rfl rfl
-- `smuggled_attestation_rejected`: the attestation placed by hand in the non-proof token
example := smuggled_attestation_rejected (atom 0) { q1 with cavs := q1.cavs ++ [.flyioUserID 1] } [qd] qtrust
  (.flyioUserID 1) (by decide) rfl rfl (Or.inl ⟨rfl, rfl⟩)
example := isAttestation_by_type (Cav.flyioUserID 1 : Cav Term)

end examples

end Macaroon.Props.C07

#print axioms Macaroon.Props.C07.attestation_source
#print axioms Macaroon.Props.C07.attestation_provenance
#print axioms Macaroon.Props.C07.trust_needs_matching_ticket
#print axioms Macaroon.Props.C07.no_keys_no_trust
#print axioms Macaroon.Props.C07.bearer_cannot_add
#print axioms Macaroon.Props.C07.smuggled_attestation_rejected
#print axioms Macaroon.Props.C07.addLoop_never_adds_attestation
#print axioms Macaroon.Props.C07.add_never_adds_attestation
#print axioms Macaroon.Props.C07.nonproof_stays_attestation_free
#print axioms Macaroon.Props.C07.isAttestation_by_type
#print axioms Macaroon.Props.C07.registry_attestation_flags
#print axioms Macaroon.Props.C07.untrusting_verifier_obtains_nothing
