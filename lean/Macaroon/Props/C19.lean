/-
C19 — Authorization headers parse unambiguously and round-trip.

Property theorems only.  Model: `Macaroon/Format/Header.lean` (`stripScheme`, `parse`, `encodeTokens`,
`toAuthorizationHeader`, `splitByLocation`, `parsePermissionAndDischarge`, `parseToks`, `header`),
tied to macaroon.StripAuthorizationScheme / Parse / ToAuthorizationHeader /
FindPermissionAndDischargeTokens / ParsePermissionAndDischargeTokens (core and flyio) and
bundle.ParseBundleWithFilter(…).Header()/String() by the `header` family.  Base64 is
`Macaroon/Wire/Base64.lean` (Go's `StdEncoding`, non-strict, `\r`/`\n` ignored).

Text is a list of Unicode code points of a valid UTF-8 header (see the model file).  White space is
Go's `unicode.IsSpace` (`isSpace`); `AllSpace s` / `NoSpace s`: every / no character of `s` is white
space.

A decoration `d : Deco` of a body is `d.lead ++ w₁ ++ g₁ ++ … ++ wₙ ++ gₙ ++ body ++ d.trail` (`decorate`);
`d.Valid`: `lead`, `trail` are white space, every `wᵢ` is `FlyV1` or `Bearer` in any letter case
(`isSchemeWord`, n ≥ 0 of them), every gap `gᵢ` is white space containing at least one U+0020.
(A scheme word followed by tabs only is *not* a scheme for `StripAuthorizationScheme`, which cuts at
the first U+0020: `scheme_needs_a_space` below.)

The macaroon codec is a parameter: `dec t` is the location of `macaroon.Decode t`, `none` if it fails.
-/
import Macaroon.Lemmas.Header
import Macaroon.Lemmas.HeaderBundle
import Macaroon.Generated.Consts

namespace Macaroon.Props.C19
open Macaroon Macaroon.Header

/-! ### The model's constants are the ones in the source -/

/-- labels, schemes and the flyio permission location of the model equal the constants regenerated
from /repo (package macaroon, package bundle's copies, package flyio) -/
theorem consts_match :
    Generated.strConsts.lookup "macaroon.AuthorizationSchemeFlyV1" = some (String.ofList schemeFlyV1) ∧
    Generated.strConsts.lookup "macaroon.authorizationSchemeBearer" = some (String.ofList schemeBearer) ∧
    Generated.strConsts.lookup "macaroon.permissionTokenLabel" = some (String.ofList labelPermission) ∧
    Generated.strConsts.lookup "macaroon.dischargeTokenLabel" = some (String.ofList labelDischarge) ∧
    Generated.strConsts.lookup "macaroon.v2TokenLabel" = some (String.ofList labelV2) ∧
    Generated.strConsts.lookup "macaroon.oauthTokenLabel" = some (String.ofList labelOAuth) ∧
    Generated.strConsts.lookup "bundle.flyV1Scheme" = some (String.ofList schemeFlyV1) ∧
    Generated.strConsts.lookup "bundle.permissionTokenLabel" = some (String.ofList labelPermission) ∧
    Generated.strConsts.lookup "bundle.dischargeTokenLabel" = some (String.ofList labelDischarge) ∧
    Generated.strConsts.lookup "bundle.v2TokenLabel" = some (String.ofList labelV2) ∧
    Generated.strConsts.lookup "bundle.tokDelim" = some "," ∧
    Generated.strConsts.lookup "bundle.pfxDelim" = some "_" ∧
    Generated.strConsts.lookup "flyio.LocationPermission" = some (String.ofList flyioLocationPermission) := by
  decide

/-- `EqualFold` against the two scheme words is ASCII case-insensitive comparison: the only
non-ASCII code points that fold to ASCII letters are U+212A (to `k`) and U+017F (to `s`), and neither
letter occurs in the scheme words -/
theorem scheme_words_have_no_k_s :
    ∀ c ∈ schemeBearer ++ schemeFlyV1, asciiLower c ≠ 'k' ∧ asciiLower c ≠ 's' := by decide

/-! ### Base64 -/

theorem b64_roundtrip (bs : Bytes) : Base64.decode (Base64.encode bs) = some bs :=
  Base64.decode_encode bs

/-- the encoding contains no comma, underscore, or white space of any kind -/
theorem b64_alphabet (bs : Bytes) :
    (∀ c ∈ Base64.encode bs, c ≠ ',' ∧ c ≠ '_') ∧ NoSpace (Base64.encode bs) :=
  ⟨fun c h => ⟨(Base64.encode_alphabet bs c h).1, (Base64.encode_alphabet bs c h).2.1⟩, encode_noSpace bs⟩

/-! ### Scheme stripping -/

/-- stripping removes every decoration from a body that contains no white space, and reports
whether there was a scheme word -/
theorem strip_decorated (d : Deco) (hd : d.Valid) (body : List Char) (hb : NoSpace body) (hne : body ≠ []) :
    stripScheme (decorate d body) = (body, !d.words.isEmpty) :=
  strip_decorate d hd body hb hne

/-- `StripAuthorizationScheme` is idempotent: what it returns has no scheme left -/
theorem strip_idempotent (h : List Char) : stripScheme (stripScheme h).1 = ((stripScheme h).1, false) :=
  stripScheme_idem h

/-- the Go function, as an equation of the model (no fuel) -/
theorem strip_unfold (h : List Char) :
    stripScheme h =
      match cut ' ' (trim h) with
      | none => (trim h, false)
      | some (pfx, rest) =>
        if isSchemeWord (trim pfx) then ((stripScheme rest).1, true) else (trim h, false) :=
  stripScheme_eq h

/-- a scheme word followed by a tab only is not stripped, and `Parse` then rejects the header; a
tab followed by a space is fine -/
theorem scheme_needs_a_space :
    parse "FlyV1\tfm2_QQ==".toList = .error .unrecognized ∧
    parse "FlyV1\t fm2_QQ==".toList = .ok [[65]] := by decide

/-! ### Round trip -/

/-- Formatting any non-empty list of non-empty tokens and parsing it back yields the same tokens in
the same order, whatever valid decoration is applied. -/
theorem parse_format (d : Deco) (hd : d.Valid) (toks : List Bytes) (hne : toks ≠ [])
    (hts : ∀ t ∈ toks, t ≠ []) : parse (decorate d (encodeTokens toks)) = .ok toks :=
  parse_decorate_encodeTokens d hd toks hne hts

/-- `ToAuthorizationHeader` is one such decoration: `Parse (ToAuthorizationHeader toks…) = toks`,
also after decorating its result again -/
theorem parse_toAuthorizationHeader (toks : List Bytes) (hne : toks ≠ []) (hts : ∀ t ∈ toks, t ≠ []) :
    parse (toAuthorizationHeader toks) = .ok toks := by
  rw [toAuthorizationHeader_eq]
  exact parse_decorate_encodeTokens _ flyV1Deco_valid toks hne hts

theorem parse_decorated_toAuthorizationHeader (d : Deco) (hd : d.Valid) (toks : List Bytes)
    (hne : toks ≠ []) (hts : ∀ t ∈ toks, t ≠ []) :
    parse (decorate d (toAuthorizationHeader toks)) = .ok toks := by
  have hd' : (Deco.mk d.lead (d.words ++ flyV1Deco.words) d.trail).Valid := by
    refine ⟨hd.1, hd.2.1, ?_⟩
    intro wg h
    rcases List.mem_append.mp h with h | h
    · exact hd.2.2 wg h
    · exact flyV1Deco_valid.2.2 wg h
  have heq : decorate d (toAuthorizationHeader toks)
      = decorate (Deco.mk d.lead (d.words ++ flyV1Deco.words) d.trail) (encodeTokens toks) := by
    have hw : ∀ ws : List (List Char × List Char), wordsText (ws ++ flyV1Deco.words)
        = wordsText ws ++ (schemeFlyV1 ++ [' ']) := by
      intro ws
      induction ws with
      | nil => simp [wordsText, flyV1Deco]
      | cons w ws ih => obtain ⟨a, b⟩ := w; simp [wordsText, ih]
    simp [decorate, toAuthorizationHeader, hw]
  rw [heq]
  exact parse_decorate_encodeTokens _ hd' toks hne hts

/-- The same with any of the three accepted labels per token and with OAuth entries interleaved:
`es` is any list of entries `mac label tok` (label one of `fm1r`, `fm1a`, `fm2`, token non-empty) and
`oauth payload` (rendered `fo1_payload`; payload any text without comma and white space); the result
is the list of the tokens of the macaroon entries, in order, OAuth entries skipped. -/
theorem parse_format_labels_oauth (d : Deco) (hd : d.Valid) (es : List Entry)
    (hv : ∀ e ∈ es, e.Valid) (hmac : es.filterMap Entry.tok? ≠ []) :
    parse (decorate d (renderEntries es)) = .ok (es.filterMap Entry.tok?) :=
  parse_decorate_render d hd es hv hmac

/-- Unambiguous: different token lists never format to the same header (no hypothesis), and a
header is a decoration of the formatting of at most one list of non-empty tokens. -/
theorem format_injective {a b : List Bytes} (h : toAuthorizationHeader a = toAuthorizationHeader b) : a = b :=
  toAuthorizationHeader_injective h

theorem decorated_format_injective (d d' : Deco) (hd : d.Valid) (hd' : d'.Valid) (a b : List Bytes)
    (ha : a ≠ []) (hb : b ≠ []) (hat : ∀ t ∈ a, t ≠ []) (hbt : ∀ t ∈ b, t ≠ [])
    (h : decorate d (encodeTokens a) = decorate d' (encodeTokens b)) : a = b := by
  have h1 := parse_format d hd a ha hat
  have h2 := parse_format d' hd' b hb hbt
  rw [h, h2] at h1
  exact (Except.ok.inj h1).symm

/-- The two hypotheses of the round trip are needed — this is where "any non-empty list of tokens"
stops: no tokens at all, or an empty byte string as a token, format to a header `Parse` rejects. -/
theorem roundtrip_fails_without_hypotheses :
    parse (toAuthorizationHeader []) = .error .unrecognized ∧
    parse (toAuthorizationHeader [[]]) = .error .unrecognized ∧
    parse (toAuthorizationHeader [[1], []]) = .error .unrecognized := by decide

/-! ### Rejections -/

/-- every failure of `Parse` is `ErrUnrecognizedToken` (all five `return nil, fmt.Errorf("…%w", …)`
paths wrap the sentinel) -/
theorem parse_error_class (h : List Char) (x : ParseErr) (hp : parse h = .error x) :
    x = .unrecognized ∧ x.isUnrecognized = true := by
  have := parse_error hp
  subst this
  exact ⟨rfl, rfl⟩

/-- `parts h` are the comma-separated entries `Parse` iterates over: the header with schemes and
outer white space stripped, split at every comma (never an empty list) -/
theorem parts_def (h : List Char) :
    parts h = splitOn ',' (stripScheme h).1 ∧ joinWith ',' (parts h) = (stripScheme h).1 ∧ parts h ≠ [] :=
  ⟨rfl, joinWith_splitOn ',' _, parts_ne_nil h⟩

/-- `parse_rejects`: an entry with no `_`; an entry whose label (the text before the first `_`) is
none of `fm1r`, `fm1a`, `fm2`, `fo1`; a macaroon entry whose payload is not base64; a macaroon entry
whose payload decodes to nothing (in particular the empty payload) — each makes `Parse` fail with
`ErrUnrecognizedToken`, wherever it stands and whatever the other entries are.  So does a header
without any macaroon entry. -/
theorem parse_rejects_no_separator (h e : List Char) (hm : e ∈ parts h) (hs : '_' ∉ e) :
    parse h = .error .unrecognized :=
  parse_bad_part h e hm ⟨_, parseEntry_no_sep e hs⟩

theorem parse_rejects_unknown_label (h label rest : List Char) (hm : label ++ '_' :: rest ∈ parts h)
    (h1 : '_' ∉ label) (h2 : label ≠ labelPermission ∧ label ≠ labelDischarge ∧ label ≠ labelV2)
    (h3 : label ≠ labelOAuth) : parse h = .error .unrecognized := by
  have hl : isMacaroonLabel label = false := by
    cases hx : isMacaroonLabel label with
    | false => rfl
    | true =>
      rcases (isMacaroonLabel_iff label).mp hx with e | e | e
      · exact absurd e h2.1
      · exact absurd e h2.2.1
      · exact absurd e h2.2.2
  exact parse_bad_part h _ hm ⟨_, parseEntry_unknown_label label rest h1 hl h3⟩

theorem parse_rejects_bad_base64 (h label b64 : List Char) (hm : label ++ '_' :: b64 ∈ parts h)
    (h1 : isMacaroonLabel label = true) (h2 : Base64.decode b64 = none) :
    parse h = .error .unrecognized :=
  parse_bad_part h _ hm ⟨_, parseEntry_bad_base64 label b64 h1 h2⟩

theorem parse_rejects_empty_payload (h label b64 : List Char) (hm : label ++ '_' :: b64 ∈ parts h)
    (h1 : isMacaroonLabel label = true) (h2 : Base64.decode b64 = some []) :
    parse h = .error .unrecognized :=
  parse_bad_part h _ hm ⟨_, parseEntry_empty_payload label b64 h1 h2⟩

theorem parse_rejects_no_macaroon (h : List Char)
    (ho : ∀ e ∈ parts h, ∃ p, e = labelOAuth ++ '_' :: p) : parse h = .error .unrecognized :=
  parse_all_oauth h ho

/-- the five rejection clauses together -/
theorem parse_rejects (h : List Char) :
    (∀ e ∈ parts h, '_' ∉ e → parse h = .error .unrecognized) ∧
    (∀ label rest, label ++ '_' :: rest ∈ parts h → '_' ∉ label →
      label ≠ labelPermission ∧ label ≠ labelDischarge ∧ label ≠ labelV2 → label ≠ labelOAuth →
      parse h = .error .unrecognized) ∧
    (∀ label b64, label ++ '_' :: b64 ∈ parts h → isMacaroonLabel label = true →
      Base64.decode b64 = none → parse h = .error .unrecognized) ∧
    (∀ label b64, label ++ '_' :: b64 ∈ parts h → isMacaroonLabel label = true →
      Base64.decode b64 = some [] → parse h = .error .unrecognized) ∧
    ((∀ e ∈ parts h, ∃ p, e = labelOAuth ++ '_' :: p) → parse h = .error .unrecognized) ∧
    (∀ x, parse h = .error x → x.isUnrecognized = true) :=
  ⟨fun e hm hs => parse_rejects_no_separator h e hm hs,
   fun l r hm h1 h2 h3 => parse_rejects_unknown_label h l r hm h1 h2 h3,
   fun l b hm h1 h2 => parse_rejects_bad_base64 h l b hm h1 h2,
   fun l b hm h1 h2 => parse_rejects_empty_payload h l b hm h1 h2,
   parse_rejects_no_macaroon h,
   fun x hx => (parse_error_class h x hx).2⟩

/-- Conversely, what is accepted: only entries under the three macaroon labels whose payload decodes
to a non-empty token, and OAuth entries; the result is exactly the list of those payloads, in order
(`entryPayload`: the decoding of what follows the first `_` of a macaroon-labelled entry). -/
theorem parse_accepts_only (h : List Char) (toks : List Bytes) (hp : parse h = .ok toks) :
    toks ≠ [] ∧
    (∀ e ∈ parts h,
      (∃ l b64 raw, e = l ++ '_' :: b64 ∧ isMacaroonLabel l = true ∧
        Base64.decode b64 = some raw ∧ raw ≠ []) ∨
      (∃ p, e = labelOAuth ++ '_' :: p)) ∧
    toks = (parts h).filterMap entryPayload :=
  parse_ok_entries h toks hp

theorem macaroonLabel_iff (l : List Char) :
    isMacaroonLabel l = true ↔ l = labelPermission ∨ l = labelDischarge ∨ l = labelV2 :=
  isMacaroonLabel_iff l

/-! ### Permission / discharge split -/

/-- `FindPermissionAndDischargeTokens`: a token is a permission token iff it decodes and its location
is the issuer's, a discharge token iff it decodes and its location is another one; an undecodable
token is neither; both lists keep the order (and multiplicity) of the input — they are the two
filters of the input list. -/
theorem split_by_location (dec : Bytes → Option Bytes) (loc : Bytes) (toks : List Bytes) :
    (splitByLocation dec loc toks).1 = toks.filter (fun t => dec t == some loc) ∧
    (splitByLocation dec loc toks).2 =
      toks.filter (fun t => match dec t with | some l => l != loc | none => false) ∧
    (∀ t, t ∈ (splitByLocation dec loc toks).1 ↔ t ∈ toks ∧ dec t = some loc) ∧
    (∀ t, t ∈ (splitByLocation dec loc toks).2 ↔ t ∈ toks ∧ ∃ l, dec t = some l ∧ l ≠ loc) ∧
    (∀ t, dec t = none → t ∉ (splitByLocation dec loc toks).1 ∧ t ∉ (splitByLocation dec loc toks).2) ∧
    (splitByLocation dec loc toks).1.Sublist toks ∧ (splitByLocation dec loc toks).2.Sublist toks := by
  rw [splitByLocation_eq]
  refine ⟨rfl, rfl, ?_, ?_, ?_, List.filter_sublist, List.filter_sublist⟩
  · intro t; simp [List.mem_filter]
  · intro t
    simp only [List.mem_filter]
    constructor
    · rintro ⟨hm, hd⟩
      cases hx : dec t with
      | none => rw [hx] at hd; cases hd
      | some l => rw [hx] at hd; exact ⟨hm, l, rfl, by simpa using hd⟩
    · rintro ⟨hm, l, hl, hne⟩
      refine ⟨hm, ?_⟩
      rw [hl]; simpa using hne
  · intro t ht
    simp [List.mem_filter, ht]

/-- `ParsePermissionAndDischargeTokens` succeeds exactly when `Parse` does and exactly one of the
tokens is a permission token; it then returns that token and the discharge tokens. -/
theorem permission_and_discharge_ok_iff (dec : Bytes → Option Bytes) (hdr : List Char) (loc p : Bytes)
    (ds : List Bytes) :
    parsePermissionAndDischarge dec hdr loc = .ok (p, ds) ↔
      ∃ toks, parse hdr = .ok toks ∧ (splitByLocation dec loc toks).1 = [p] ∧
        (splitByLocation dec loc toks).2 = ds :=
  ppd_ok_iff dec hdr loc p ds

/-- its error is `ErrUnrecognizedToken` exactly when it is `Parse` that failed; "no permission
token" and "multiple permission tokens" are bare errors outside that class -/
theorem permission_and_discharge_error_class (dec : Bytes → Option Bytes) (hdr : List Char) (loc : Bytes) :
    (∃ x, parsePermissionAndDischarge dec hdr loc = .error x ∧ x.isUnrecognized = true) ↔
      ∃ x, parse hdr = .error x :=
  ppd_unrecognized_iff dec hdr loc

/-- the flyio wrapper is the same function at the fixed location -/
theorem flyio_permission_and_discharge (dec : Bytes → Option Bytes) (hdr : List Char) :
    flyioParsePermissionAndDischarge dec hdr =
      parsePermissionAndDischarge dec hdr (asciiBytes flyioLocationPermission) := rfl

/-! ### Bundle tokeniser -/

/-- **the two classifications agree.**  With `macaroon.Decode` instantiated by the concrete codec
(`decLoc t` = the location of the decoded token), on every header `Parse` accepts the permission
tokens `FindPermissionAndDischargeTokens` returns are exactly the payloads of the entries the bundle
tokeniser classifies as permission tokens (`isPermAt`: a well-formed macaroon at the issuer's
location), and its discharge tokens exactly those the bundle treats as discharges (`isDisAt`), both in
header order — so `format.go` and `bundle/tokens.go` tell the two kinds apart the same way -/
theorem split_agrees_with_bundle (pl : Bytes) (h : List Char) (toks : List Bytes) (hp : parse h = .ok toks) :
    (splitByLocation Lemmas.decLoc pl toks).1 =
      ((parseToks h).filter fun ht => Bundle.isPermAt pl (Bundle.ofHeaderTok ht)).filterMap Tok.raw? ∧
    (splitByLocation Lemmas.decLoc pl toks).2 =
      ((parseToks h).filter fun ht => Bundle.isDisAt pl (Bundle.ofHeaderTok ht)).filterMap Tok.raw? := by
  rw [splitByLocation_eq, ← parse_ok_parseToks h toks hp]
  exact Lemmas.split_filterMap pl (parseToks h)

/-- entry by entry: the bundle's view of a header entry against the location test on its payload -/
theorem bundle_token_class (pl : Bytes) (ht : Tok) :
    (∀ raw, ht.raw? = some raw →
      (Bundle.isPermAt pl (Bundle.ofHeaderTok ht) = (Lemmas.decLoc raw == some pl)) ∧
      (Bundle.isDisAt pl (Bundle.ofHeaderTok ht) =
        (match Lemmas.decLoc raw with | some l => l != pl | none => false))) ∧
    (ht.raw? = none → Bundle.isPermAt pl (Bundle.ofHeaderTok ht) = false ∧
      Bundle.isDisAt pl (Bundle.ofHeaderTok ht) = false) :=
  Lemmas.ofHeaderTok_class pl ht



/-- Total classification: `parseToks` maps every comma-separated part to exactly one typed token,
which carries the trimmed text of the part and is classified by `Classifies` — no `_`, or a label
other than the three macaroon labels: `nonMacaroon`; macaroon label with an undecodable payload:
`malformedB64`; macaroon label with payload decoding to `raw`: `macaroonBytes … raw`.  For every text
exactly one token satisfies `Classifies`. -/
theorem parseToks_total_classification (h : List Char) :
    parseToks h = (parts h).map (fun p => classifyPart (trim p)) ∧
    (parseToks h).length = (parts h).length ∧
    (parseToks h).map Tok.str = (parts h).map trim ∧
    (∀ s : List Char, Classifies s (classifyPart s) ∧ ∀ t, Classifies s t → t = classifyPart s) := by
  refine ⟨rfl, by simp [parseToks], parseToks_str h, ?_⟩
  intro s
  exact ⟨(classifies_iff s _).mpr rfl, fun t ht => ((classifies_iff s t).mp ht).symm⟩

/-- `Bundle.Header()` of a freshly parsed header "normalises" it: schemes and outer white space
stripped, every comma-separated part trimmed, parts re-joined with `,`, prefixed with `FlyV1 `.  The
token list of a parsed header is never empty (the empty header has one empty part), so the prefix is
always there; `Header` of an empty token list is the empty string. -/
theorem header_parseToks (h : List Char) :
    header (parseToks h) = schemeFlyV1 ++ ' ' :: joinWith ',' ((parts h).map trim) ∧
    tokString (parseToks h) = joinWith ',' ((parts h).map trim) ∧
    parseToks h ≠ [] ∧ header [] = [] :=
  ⟨Header.header_parseToks h, by simp [tokString, parseToks_str], parseToks_ne_nil h, rfl⟩

/-- trimming removes white space at both ends and nothing else -/
theorem trim_spec (s : List Char) :
    ∃ l r, s = l ++ trim s ++ r ∧ AllSpace l ∧ AllSpace r ∧ (trim s = [] ∨ Trimmed (trim s)) :=
  Header.trim_spec s

/-- the bundle tokeniser mirrors `Parse`: on a header `Parse` accepts it finds the same payloads, in
the same order, and nothing else that looks like a macaroon -/
theorem tokeniser_agrees_with_parse (h : List Char) (toks : List Bytes) (hp : parse h = .ok toks) :
    (parseToks h).filterMap Tok.raw? = toks :=
  parse_ok_parseToks h toks hp

/-- … but it is more lenient: white space around commas is trimmed by the tokeniser and fatal for
`Parse` -/
theorem tokeniser_more_lenient :
    parse "fm2_QQ==, fm2_Qg==".toList = .error .unrecognized ∧
    parseToks "fm2_QQ==, fm2_Qg==".toList =
      [.macaroonBytes "fm2_QQ==".toList [65], .macaroonBytes "fm2_Qg==".toList [66]] := by decide

/-! ### Non-vacuity -/

def exampleDeco : Deco :=
  ⟨['\t', ' '], [(['b', 'E', 'a', 'R', 'e', 'R'], [' ', ' ']), (['F', 'L', 'Y', 'V', '1'], [' ', ' ', '\t'])], ['\n', '　']⟩

example : exampleDeco.Valid := by decide
example : parse (decorate exampleDeco (encodeTokens [[1, 2, 3], [255]])) = .ok [[1, 2, 3], [255]] :=
  parse_format exampleDeco (by decide) _ (by simp) (by simp)
example : parse (decorate exampleDeco (encodeTokens [[1, 2, 3], [255]])) = .ok [[1, 2, 3], [255]] := by decide
example : stripScheme (decorate exampleDeco "x".toList) = ("x".toList, true) :=
  strip_decorated exampleDeco (by decide) _ (by decide) (by simp)
example : parse (toAuthorizationHeader [[7]]) = .ok [[7]] :=
  parse_toAuthorizationHeader _ (by simp) (by simp)
/-- labels and OAuth entries -/
example : parse (decorate exampleDeco (renderEntries
    [.oauth "abc".toList, .mac labelPermission [1], .oauth [], .mac labelDischarge [2, 3], .mac labelV2 [4]]))
    = .ok [[1], [2, 3], [4]] :=
  parse_format_labels_oauth exampleDeco (by decide) _
    (by intro e he; simp only [List.mem_cons, List.not_mem_nil, or_false] at he
        rcases he with rfl | rfl | rfl | rfl | rfl <;> simp [Entry.Valid, NoSpace] <;> decide)
    (by simp [Entry.tok?])
/-- each rejection hypothesis is satisfiable -/
example : parse "FlyV1 fm2_QQ==,nosep".toList = .error .unrecognized :=
  parse_rejects_no_separator _ "nosep".toList (by decide) (by decide)
example : parse "FlyV1 fm3_QQ==".toList = .error .unrecognized :=
  parse_rejects_unknown_label _ "fm3".toList "QQ==".toList (by decide) (by decide) (by decide) (by decide)
example : parse "fm2_QQ==,fm1r_Q*==".toList = .error .unrecognized :=
  parse_rejects_bad_base64 _ "fm1r".toList "Q*==".toList (by decide) (by decide) (by decide)
example : parse "fm2_QQ==,fm1a_".toList = .error .unrecognized :=
  parse_rejects_empty_payload _ "fm1a".toList [] (by decide) (by decide) (by decide)
example : parse "Bearer fo1_x,fo1_y".toList = .error .unrecognized := by
  apply parse_rejects_no_macaroon
  have hp : parts "Bearer fo1_x,fo1_y".toList = ["fo1_x".toList, "fo1_y".toList] := by decide
  intro e he
  rw [hp] at he
  simp only [List.mem_cons, List.not_mem_nil, or_false] at he
  rcases he with rfl | rfl
  · exact ⟨"x".toList, by decide⟩
  · exact ⟨"y".toList, by decide⟩
example : parse "fm2_Q\nQ=\r=".toList = .ok [[65]] := by decide
example : ∃ toks, parse "fm2_QQ==,fo1_zz".toList = .ok toks := ⟨[[65]], by decide⟩
/-- the split, with a three-token list -/
example : splitByLocation (fun t => if t = [9] then none else some [t.length.toUInt8]) [1] [[5], [9], [6, 6], [7]]
    = ([[5], [7]], [[6, 6]]) := by decide
example : parsePermissionAndDischarge (fun _ => some [1]) "fm2_QQ==".toList [1] = .ok ([65], []) := by decide
example : parsePermissionAndDischarge (fun _ => some [1]) "fm2_QQ==".toList [2] = .error .noPermission := by decide
example : parsePermissionAndDischarge (fun _ => some [1]) "fm2_QQ==,fm2_QQ==".toList [1] = .error .multiplePermission := by
  decide
/-- hypothesis of `split_agrees_with_bundle` -/
example : ∃ toks, parse "FlyV1 fm2_QQ==,fm1a_Qg==".toList = .ok toks := ⟨[[65], [66]], by decide⟩

end Macaroon.Props.C19

#print axioms Macaroon.Props.C19.consts_match
#print axioms Macaroon.Props.C19.scheme_words_have_no_k_s
#print axioms Macaroon.Props.C19.b64_roundtrip
#print axioms Macaroon.Props.C19.b64_alphabet
#print axioms Macaroon.Props.C19.strip_decorated
#print axioms Macaroon.Props.C19.strip_idempotent
#print axioms Macaroon.Props.C19.strip_unfold
#print axioms Macaroon.Props.C19.scheme_needs_a_space
#print axioms Macaroon.Props.C19.parse_format
#print axioms Macaroon.Props.C19.parse_toAuthorizationHeader
#print axioms Macaroon.Props.C19.parse_decorated_toAuthorizationHeader
#print axioms Macaroon.Props.C19.parse_format_labels_oauth
#print axioms Macaroon.Props.C19.format_injective
#print axioms Macaroon.Props.C19.decorated_format_injective
#print axioms Macaroon.Props.C19.roundtrip_fails_without_hypotheses
#print axioms Macaroon.Props.C19.parse_error_class
#print axioms Macaroon.Props.C19.parts_def
#print axioms Macaroon.Props.C19.parse_rejects_no_separator
#print axioms Macaroon.Props.C19.parse_rejects_unknown_label
#print axioms Macaroon.Props.C19.parse_rejects_bad_base64
#print axioms Macaroon.Props.C19.parse_rejects_empty_payload
#print axioms Macaroon.Props.C19.parse_rejects_no_macaroon
#print axioms Macaroon.Props.C19.parse_rejects
#print axioms Macaroon.Props.C19.parse_accepts_only
#print axioms Macaroon.Props.C19.macaroonLabel_iff
#print axioms Macaroon.Props.C19.split_by_location
#print axioms Macaroon.Props.C19.permission_and_discharge_ok_iff
#print axioms Macaroon.Props.C19.permission_and_discharge_error_class
#print axioms Macaroon.Props.C19.flyio_permission_and_discharge
#print axioms Macaroon.Props.C19.parseToks_total_classification
#print axioms Macaroon.Props.C19.header_parseToks
#print axioms Macaroon.Props.C19.trim_spec
#print axioms Macaroon.Props.C19.tokeniser_agrees_with_parse
#print axioms Macaroon.Props.C19.tokeniser_more_lenient
#print axioms Macaroon.Props.C19.split_agrees_with_bundle
#print axioms Macaroon.Props.C19.bundle_token_class
