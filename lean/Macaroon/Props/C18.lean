/-
C18 — Discharge-side conditions hold the third party to the author's terms.

Property theorems only.  Model functions: `prohibits` on `.confineUser`, `.confineOrganization`,
`.confineGoogleHD`, `.confineGitHubOrg`, `.maxValidity` (= the `Prohibits` methods of `auth/caveats.go`
with the `*IDs` helpers of `auth/discharge_request.go`), `getMaxValidity` (= `auth.GetMaxValidity`);
tie: family `authcav`.

Lifetimes are stated in exact (unbounded) integers: `lifetimeNanos a d` is the true number of
nanoseconds from the request's `Now()` to its `Expiry`; `trueLimitNanos secs` is the true value of
`secs` seconds.  The model computes as the Go code does: `uint64 → int64` reinterpretation, a
multiplication by `10^9` that wraps in 64 bits, `Time.Sub` saturating at the `int64` bounds.
-/
import Macaroon.Lemmas.AuthCav

namespace Macaroon.Props.C18
open Macaroon Macaroon.Lemmas
variable {B : Type}

/-! ### identity conditions -/

theorem confineProhibits_iff (a : Access) (present ok : DischargeReq → Bool) :
    confineProhibits a present ok = [] ↔ ∃ d, a.discharge = some d ∧ present d = true ∧ ok d = true := by
  unfold confineProhibits
  cases a.discharge with
  | none => simp
  | some d => cases hp : present d <;> cases ho : ok d <;> simp [hp, ho]

/-- ConfineUser permits exactly a discharge request that presents at least one Fly.io identity and
whose presented Fly.io user ids include the required one -/
theorem confineUser_iff (id : UInt64) (a : Access) :
    prohibits (.confineUser id : Cav B) a = [] ↔
      ∃ d, a.discharge = some d ∧ d.flyio ≠ [] ∧ id ∈ d.flyioUserIDs := by
  unfold prohibits
  rw [confineProhibits_iff]
  simp

/-- ConfineOrganization: the required organization is in the union of the organization lists of all
presented Fly.io identities -/
theorem confineOrganization_iff (id : UInt64) (a : Access) :
    prohibits (.confineOrganization id : Cav B) a = [] ↔
      ∃ d, a.discharge = some d ∧ d.flyio ≠ [] ∧ id ∈ d.flyioOrgIDs := by
  unfold prohibits
  rw [confineProhibits_iff]
  simp

/-- ConfineGoogleHD: one of the presented Google identities has the required hosted domain -/
theorem confineGoogleHD_iff (hd : Bytes) (a : Access) :
    prohibits (.confineGoogleHD hd : Cav B) a = [] ↔
      ∃ d, a.discharge = some d ∧ d.google ≠ [] ∧ hd ∈ d.google := by
  unfold prohibits
  rw [confineProhibits_iff]
  simp

/-- ConfineGitHubOrg: the required organization is in the union of the organization lists of all
presented GitHub identities -/
theorem confineGitHubOrg_iff (id : UInt64) (a : Access) :
    prohibits (.confineGitHubOrg id : Cav B) a = [] ↔
      ∃ d, a.discharge = some d ∧ d.github ≠ [] ∧ id ∈ d.gitHubOrgIDs := by
  unfold prohibits
  rw [confineProhibits_iff]
  simp

/-- what "the presented ids include the required one" means, identity by identity: SOME presented
identity (not just the first) carries it -/
theorem presented_ids (d : DischargeReq) (id : UInt64) :
    (id ∈ d.flyioUserIDs ↔ ∃ ident ∈ d.flyio, ident.1 = id) ∧
    (id ∈ d.flyioOrgIDs ↔ ∃ ident ∈ d.flyio, id ∈ ident.2) ∧
    (id ∈ d.gitHubOrgIDs ↔ ∃ orgs ∈ d.github, id ∈ orgs) := by
  refine ⟨?_, ?_, ?_⟩
  · simp [DischargeReq.flyioUserIDs]
  · simp [DischargeReq.flyioOrgIDs]
  · simp [DischargeReq.gitHubOrgIDs]

/-- the same four conditions with the membership spelled out per identity (implies the `≠ []`) -/
theorem confine_iff_identity (a : Access) :
    (∀ id, prohibits (.confineUser id : Cav B) a = [] ↔
        ∃ d, a.discharge = some d ∧ ∃ ident ∈ d.flyio, ident.1 = id) ∧
    (∀ id, prohibits (.confineOrganization id : Cav B) a = [] ↔
        ∃ d, a.discharge = some d ∧ ∃ ident ∈ d.flyio, id ∈ ident.2) ∧
    (∀ hd, prohibits (.confineGoogleHD hd : Cav B) a = [] ↔
        ∃ d, a.discharge = some d ∧ hd ∈ d.google) ∧
    (∀ id, prohibits (.confineGitHubOrg id : Cav B) a = [] ↔
        ∃ d, a.discharge = some d ∧ ∃ orgs ∈ d.github, id ∈ orgs) := by
  refine ⟨fun id => ?_, fun id => ?_, fun hd => ?_, fun id => ?_⟩
  · rw [confineUser_iff]
    constructor
    · rintro ⟨d, hd, _, hm⟩; exact ⟨d, hd, ((presented_ids d id).1).mp hm⟩
    · rintro ⟨d, hd, ident, hm, he⟩
      exact ⟨d, hd, List.ne_nil_of_mem hm, ((presented_ids d id).1).mpr ⟨ident, hm, he⟩⟩
  · rw [confineOrganization_iff]
    constructor
    · rintro ⟨d, hd, _, hm⟩; exact ⟨d, hd, ((presented_ids d id).2.1).mp hm⟩
    · rintro ⟨d, hd, ident, hm, he⟩
      exact ⟨d, hd, List.ne_nil_of_mem hm, ((presented_ids d id).2.1).mpr ⟨ident, hm, he⟩⟩
  · rw [confineGoogleHD_iff]
    constructor
    · rintro ⟨d, hd', _, hm⟩; exact ⟨d, hd', hm⟩
    · rintro ⟨d, hd', hm⟩; exact ⟨d, hd', List.ne_nil_of_mem hm, hm⟩
  · rw [confineGitHubOrg_iff]
    constructor
    · rintro ⟨d, hd, _, hm⟩; exact ⟨d, hd, ((presented_ids d id).2.2).mp hm⟩
    · rintro ⟨d, hd, orgs, hm, he⟩
      exact ⟨d, hd, List.ne_nil_of_mem hm, ((presented_ids d id).2.2).mpr ⟨orgs, hm, he⟩⟩

/-- with no identity of the required provider the condition denies (whatever the other providers
present), with the caveat itself as the error -/
theorem no_identity_denies (a : Access) (d : DischargeReq) (hd : a.discharge = some d) :
    (d.flyio = [] → ∀ id, prohibits (.confineUser id : Cav B) a = [.confine]) ∧
    (d.flyio = [] → ∀ id, prohibits (.confineOrganization id : Cav B) a = [.confine]) ∧
    (d.google = [] → ∀ h, prohibits (.confineGoogleHD h : Cav B) a = [.confine]) ∧
    (d.github = [] → ∀ id, prohibits (.confineGitHubOrg id : Cav B) a = [.confine]) := by
  refine ⟨?_, ?_, ?_, ?_⟩ <;> intro he x <;> unfold prohibits confineProhibits <;> simp [hd, he]

/-- any other kind of request (not a discharge request) is refused with `ErrInvalidAccess`,
by each of the five conditions -/
theorem other_request_denied (a : Access) (h : a.discharge = none) :
    (∀ id, prohibits (.confineUser id : Cav B) a = [.invalidAccess]) ∧
    (∀ id, prohibits (.confineOrganization id : Cav B) a = [.invalidAccess]) ∧
    (∀ hd, prohibits (.confineGoogleHD hd : Cav B) a = [.invalidAccess]) ∧
    (∀ id, prohibits (.confineGitHubOrg id : Cav B) a = [.invalidAccess]) ∧
    (∀ secs, prohibits (.maxValidity secs : Cav B) a = [.invalidAccess]) := by
  refine ⟨?_, ?_, ?_, ?_, ?_⟩ <;> intro x <;> unfold prohibits <;> simp [confineProhibits, h]

/-- the three possible outcomes of an identity condition -/
theorem confine_outcomes (a : Access) (present ok : DischargeReq → Bool) :
    confineProhibits a present ok = [] ∨ confineProhibits a present ok = [.confine] ∨
      confineProhibits a present ok = [.invalidAccess] := by
  unfold confineProhibits
  cases a.discharge with
  | none => simp
  | some d => cases hp : present d <;> cases ho : ok d <;> simp [hp, ho]

/-! ### maximum discharge lifetime -/

/-- the true lifetime requested: nanoseconds from `Now()` to `Expiry`, in unbounded integers -/
def lifetimeNanos (a : Access) (d : DischargeReq) : Int :=
  (d.expirySec - a.nowSec) * 1000000000 + ((d.expiryNsec : Int) - (a.nowNsec : Int))

/-- the true value of a limit of `secs` seconds, in nanoseconds, in unbounded integers -/
def trueLimitNanos (secs : UInt64) : Int := (secs.toNat : Int) * 1000000000

/-- for EVERY limit and every request: MaxValidity permits exactly when the exact lifetime is within
the wrapped duration Go computes for the limit.  The saturation of `Time.Sub` never changes the
answer: a wrapped duration is a multiple of `2^9`, hence `< 2^63 - 1`, so a difference saturated
upward exceeds it just as the exact one does, and one saturated downward is `≤` it just as the exact one is -/
theorem maxValidity_iff_wrapped (secs : UInt64) (a : Access) :
    prohibits (.maxValidity secs : Cav B) a = [] ↔
      ∃ d, a.discharge = some d ∧ lifetimeNanos a d ≤ GoTime.durationOfSecs secs := by
  unfold prohibits
  cases hd : a.discharge with
  | none => simp
  | some d =>
    have key := sub_le_iff d.expirySec d.expiryNsec a.nowSec a.nowNsec (GoTime.durationOfSecs secs)
      (durationOfSecs_ge_min secs) (durationOfSecs_lt_max secs)
    simp only [exactNanos] at key
    simp only [Option.some.injEq, exists_eq_left', lifetimeNanos, ← key]
    by_cases h : GoTime.sub d.expirySec d.expiryNsec a.nowSec a.nowNsec > GoTime.durationOfSecs secs
    · simp only [h, ↓reduceIte, List.cons_ne_self, false_iff]; omega
    · simp only [h, ↓reduceIte, true_iff]; omega

/-- a permitted lifetime never exceeds the true limit, for every limit — including those too large
to represent as a duration (whose wrapped value may deny more) — and every expiry, in exact integers -/
theorem maxValidity_sound (secs : UInt64) (a : Access) (d : DischargeReq)
    (hd : a.discharge = some d) (h : prohibits (.maxValidity secs : Cav B) a = []) :
    (d.expirySec - a.nowSec) * 1000000000 + ((d.expiryNsec : Int) - (a.nowNsec : Int))
      ≤ (secs.toNat : Int) * 1000000000 := by
  obtain ⟨d', hd', hle⟩ := (maxValidity_iff_wrapped secs a).mp h
  rw [hd] at hd'
  cases hd'
  have := durationOfSecs_le_true secs
  unfold lifetimeNanos at hle
  omega

/-- for a limit whose true duration is representable (`secs · 10^9 < 2^63`, i.e. `secs ≤ 9223372036`)
the condition is exact, for EVERY expiry and request time (lifetimes beyond the `int64` range in
either direction included: no side condition on the lifetime is needed) -/
theorem maxValidity_exact (secs : UInt64) (a : Access) (hs : secs.toNat * 1000000000 < 2 ^ 63) :
    prohibits (.maxValidity secs : Cav B) a = [] ↔
      ∃ d, a.discharge = some d ∧ lifetimeNanos a d ≤ trueLimitNanos secs := by
  rw [maxValidity_iff_wrapped, (durationOfSecs_eq_true_iff secs).mpr hs]
  rfl

/-- the same under the hypothesis in the form "below `2^63 / 10^9` seconds" -/
theorem maxValidity_exact' (secs : UInt64) (a : Access) (hs : secs.toNat < 2 ^ 63 / 10 ^ 9) :
    prohibits (.maxValidity secs : Cav B) a = [] ↔
      ∃ d, a.discharge = some d ∧ lifetimeNanos a d ≤ trueLimitNanos secs :=
  maxValidity_exact secs a (by omega)

/-- the representable limits are exactly those whose wrapped duration is the true one; for all
others the wrapped duration is strictly smaller ("may deny more") -/
theorem wrapped_limit (secs : UInt64) :
    GoTime.durationOfSecs secs ≤ trueLimitNanos secs ∧
    (GoTime.durationOfSecs secs = trueLimitNanos secs ↔ secs.toNat * 1000000000 < 2 ^ 63) ∧
    GoTime.durationOfSecs secs % 512 = 0 ∧ GoTime.durationOfSecs secs ≠ GoTime.maxDuration :=
  ⟨durationOfSecs_le_true secs, durationOfSecs_eq_true_iff secs, durationOfSecs_mod512 secs,
    durationOfSecs_ne_max secs⟩

/-! ### GetMaxValidity -/

/-- `s` is the value of a MaxValidity caveat of the set, at any nesting depth -/
def HasLimit (cs : List (Cav B)) (s : UInt64) : Prop := NestedIn (Cav.maxValidity s) cs

/-- nesting, spelled out: a limit of the set is a member or a limit of the contents of a wrapper
that is a member -/
theorem hasLimit_iff (cs : List (Cav B)) (s : UInt64) :
    HasLimit cs s ↔ Cav.maxValidity s ∈ cs ∨ ∃ n ifs e, Cav.ifPresent n ifs e ∈ cs ∧ HasLimit ifs.toList s := by
  constructor
  · intro h
    cases h with
    | here h => exact Or.inl h
    | inside h hn => exact Or.inr ⟨_, _, _, h, hn⟩
  · rintro (h | ⟨n, ifs, e, h, hn⟩)
    · exact .here h
    · exact .inside h hn

/-- `GetCaveats[*MaxValidity]` finds every limit, however nested, and nothing else -/
theorem getCaveats_maxValidity (cs : List (Cav B)) (c : Cav B) :
    c ∈ getCaveats Cav.isMaxValidity cs ↔ ∃ s, c = Cav.maxValidity s ∧ HasLimit cs s := by
  rw [authcav_mem_getCaveats]
  constructor
  · rintro ⟨hp, hn⟩
    cases c <;> simp [Cav.isMaxValidity] at hp
    exact ⟨_, rfl, hn⟩
  · rintro ⟨s, rfl, hn⟩
    exact ⟨rfl, hn⟩

/-- The reported maximum lifetime `m` and flag `present`:
1. `m` is the minimum of `maxDuration` and the wrapped durations of all limits, nested ones included
   (a lower bound of them and one of them);
2. `m` is `≤` the true value of every limit;
3. when no limit overflows, `m` is the true minimum of the limits (or `maxDuration` if there is none);
4. `present` is true iff some limit exists. -/
theorem getMaxValidity_min (cs : List (Cav B)) :
    let m := (getMaxValidity cs).1
    let present := (getMaxValidity cs).2
    (m ≤ GoTime.maxDuration ∧ (∀ s, HasLimit cs s → m ≤ GoTime.durationOfSecs s) ∧
      (m = GoTime.maxDuration ∨ ∃ s, HasLimit cs s ∧ m = GoTime.durationOfSecs s)) ∧
    (∀ s, HasLimit cs s → m ≤ trueLimitNanos s) ∧
    ((∀ s, HasLimit cs s → s.toNat * 1000000000 < 2 ^ 63) →
      ((¬ ∃ s, HasLimit cs s) ∧ m = GoTime.maxDuration) ∨
      (∃ s, HasLimit cs s ∧ m = trueLimitNanos s ∧ ∀ s', HasLimit cs s' → trueLimitNanos s ≤ trueLimitNanos s')) ∧
    (present = true ↔ ∃ s, HasLimit cs s) := by
  intro m present
  obtain ⟨g1, g2, g3⟩ := minFold_spec (maxValidityDurations cs) GoTime.maxDuration
  have hm : m = minFold (maxValidityDurations cs) GoTime.maxDuration := rfl
  rw [← hm] at g1 g2 g3
  have lower : ∀ s, HasLimit cs s → m ≤ GoTime.durationOfSecs s := fun s hs =>
    g2 _ ((authcav_mem_maxValidityDurations cs _).mpr ⟨s, hs, rfl⟩)
  have attained : m = GoTime.maxDuration ∨ ∃ s, HasLimit cs s ∧ m = GoTime.durationOfSecs s := by
    rcases g3 with g3 | g3
    · exact Or.inl g3
    · exact Or.inr ((authcav_mem_maxValidityDurations cs _).mp g3)
  have flag : present = true ↔ ∃ s, HasLimit cs s := by
    have hp : present = (m != GoTime.maxDuration) := rfl
    rw [hp]
    constructor
    · intro hne
      rcases attained with h | h
      · simp [h] at hne
      · obtain ⟨s, hs, _⟩ := h; exact ⟨s, hs⟩
    · rintro ⟨s, hs⟩
      have h1 := lower s hs
      have h2 := durationOfSecs_lt_max s
      simp only [bne_iff_ne, ne_eq]
      omega
  refine ⟨⟨g1, lower, attained⟩, ?_, ?_, flag⟩
  · intro s hs
    have h1 := lower s hs
    have h2 := durationOfSecs_le_true s
    unfold trueLimitNanos
    omega
  · intro hno
    rcases attained with h | ⟨s, hs, hms⟩
    · by_cases hex : ∃ s, HasLimit cs s
      · obtain ⟨s, hs⟩ := hex
        have h1 := lower s hs
        have h2 := durationOfSecs_lt_max s
        omega
      · exact Or.inl ⟨hex, h⟩
    · right
      have e : ∀ s', HasLimit cs s' → GoTime.durationOfSecs s' = trueLimitNanos s' := fun s' hs' =>
        (durationOfSecs_eq_true_iff s').mpr (hno s' hs')
      refine ⟨s, hs, by rw [hms, e s hs], ?_⟩
      intro s' hs'
      have h1 := lower s' hs'
      rw [← e s hs, ← e s' hs', ← hms]
      exact h1

/-- **the reported maximum is the limit the set enforces**: a discharge request passes every
MaxValidity caveat of the set (nested ones included) exactly when the set has no such caveat or the
exact lifetime requested is within the duration `GetMaxValidity` reports — so a third party that
clamps the discharge lifetime to the reported value satisfies every limit, and nothing smaller is
needed -/
theorem maxValidity_set_iff (cs : List (Cav B)) (a : Access) (d : DischargeReq) (hd : a.discharge = some d) :
    (∀ s, HasLimit cs s → prohibits (.maxValidity s : Cav B) a = []) ↔
      ((getMaxValidity cs).2 = false ∨ lifetimeNanos a d ≤ (getMaxValidity cs).1) := by
  obtain ⟨⟨_, lower, attained⟩, _, _, flag⟩ := getMaxValidity_min cs
  have one : ∀ s, prohibits (.maxValidity s : Cav B) a = [] ↔ lifetimeNanos a d ≤ GoTime.durationOfSecs s := by
    intro s
    rw [maxValidity_iff_wrapped]
    constructor
    · rintro ⟨d', hd', hle⟩; rw [hd] at hd'; cases hd'; exact hle
    · intro hle; exact ⟨d, hd, hle⟩
  constructor
  · intro hall
    cases hp : (getMaxValidity cs).2 with
    | false => exact Or.inl rfl
    | true =>
      right
      obtain ⟨s0, hs0⟩ := flag.mp hp
      rcases attained with hm | ⟨s, hs, hms⟩
      · have h1 := lower s0 hs0
        have h2 := durationOfSecs_lt_max s0
        omega
      · rw [hms]; exact (one s).mp (hall s hs)
  · rintro (hp | hle) s hs
    · have := flag.mpr ⟨s, hs⟩
      rw [hp] at this; cases this
    · have := lower s hs
      exact (one s).mpr (by omega)

/-- the reported value depends only on WHICH limits occur (at any depth), not on where or in which
order: two sets with the same limits report the same -/
theorem getMaxValidity_same_limits (cs cs' : List (Cav B))
    (h : ∀ s, HasLimit cs s ↔ HasLimit cs' s) : getMaxValidity cs = getMaxValidity cs' := by
  have e : (getMaxValidity cs).1 = (getMaxValidity cs').1 := by
    rw [getMaxValidity_fst, getMaxValidity_fst]
    obtain ⟨g1, g2, g3⟩ := minFold_spec (maxValidityDurations cs') GoTime.maxDuration
    apply minFold_unique _ _ _ g1
    · intro d hd
      obtain ⟨s, hs, rfl⟩ := (authcav_mem_maxValidityDurations cs _).mp hd
      exact g2 _ ((authcav_mem_maxValidityDurations cs' _).mpr ⟨s, (h s).mp hs, rfl⟩)
    · rcases g3 with g3 | g3
      · exact Or.inl g3
      · obtain ⟨s, hs, he⟩ := (authcav_mem_maxValidityDurations cs' _).mp g3
        exact Or.inr ((authcav_mem_maxValidityDurations cs _).mpr ⟨s, (h s).mpr hs, he⟩)
  have e2 : (getMaxValidity cs).2 = (getMaxValidity cs').2 := by
    rw [getMaxValidity_snd, getMaxValidity_snd, e]
  exact Prod.ext e e2

/-- in particular the order of the caveats does not matter -/
theorem getMaxValidity_order_independent (cs cs' : List (Cav B)) (hp : cs.Perm cs') :
    getMaxValidity cs = getMaxValidity cs' :=
  getMaxValidity_same_limits cs cs' fun _ => ⟨fun h => NestedIn.perm hp h, fun h => NestedIn.perm hp.symm h⟩

/-! ### non-vacuity / sanity -/

/-- a discharge request presenting two Fly.io identities, one Google and one GitHub identity,
expiring one hour after `now = 1700000000.5 s` -/
def sampleReq : DischargeReq :=
  { flyio := [(7, [100]), (8, [200, 300])], google := [[102, 108, 121]], github := [[55, 66]],
    expirySec := 1700003600, expiryNsec := 500000000 }
def sampleAccess : Access := { Access.bare 1700000000 500000000 with discharge := some sampleReq }

-- the SECOND identity satisfies the condition; an absent id does not
example : prohibits (.confineUser 8 : Cav Unit) sampleAccess = [] := by decide
example : prohibits (.confineUser 9 : Cav Unit) sampleAccess = [.confine] := by decide
example : prohibits (.confineOrganization 300 : Cav Unit) sampleAccess = [] := by decide
example : prohibits (.confineGoogleHD [102, 108, 121] : Cav Unit) sampleAccess = [] := by decide
example : prohibits (.confineGitHubOrg 66 : Cav Unit) sampleAccess = [] := by decide
example : ∃ d, sampleAccess.discharge = some d ∧ d.flyio ≠ [] ∧ (8 : UInt64) ∈ d.flyioUserIDs :=
  ⟨sampleReq, rfl, by decide, by decide⟩
-- hypotheses of `no_identity_denies` / `other_request_denied`
example : ({ sampleAccess with discharge := some { sampleReq with github := [] } }).discharge
    = some { sampleReq with github := [] } ∧ ({ sampleReq with github := [] } : DischargeReq).github = [] := ⟨rfl, rfl⟩
example : (Access.bare 0 0).discharge = none := rfl

-- `maxValidity_sound` / `maxValidity_exact`: a one-hour lifetime under a one-hour limit is permitted,
-- one nanosecond more is not
example : prohibits (.maxValidity 3600 : Cav Unit) sampleAccess = [] :=
  (maxValidity_exact 3600 sampleAccess (by decide)).mpr ⟨sampleReq, rfl, by decide⟩
example : prohibits (.maxValidity 3600 : Cav Unit)
    { sampleAccess with discharge := some { sampleReq with expiryNsec := 500000001 } } ≠ [] := by
  rw [Ne, maxValidity_exact 3600 _ (by decide)]
  rintro ⟨d, hd, hle⟩
  cases hd
  revert hle
  decide
example : (3600 : UInt64).toNat * 1000000000 < 2 ^ 63 := by decide
example : (9223372036 : UInt64).toNat * 1000000000 < 2 ^ 63 ∧ ¬ (9223372037 : UInt64).toNat * 1000000000 < 2 ^ 63 := by decide
-- "may deny more": a limit of 2^63 seconds wraps to a zero duration
example : GoTime.durationOfSecs 9223372036854775808 = 0 := by decide
example : GoTime.durationOfSecs 9223372037 = -9223372036709551616 := by decide

-- `getMaxValidity_min`: nested limits count; hypotheses of clause 3 and of order independence
def sampleSet : List (Cav Unit) :=
  [.maxValidity 7200, .ifPresent false (.cons (.ifPresent false (.cons (.maxValidity 60) .nil) 0) (.cons (.maxValidity 3600) .nil)) 1,
   .isUser 1]
example : getMaxValidity sampleSet = (60000000000, true) := by decide
example : getMaxValidity ([.isUser 1] : List (Cav Unit)) = (GoTime.maxDuration, false) := by decide
example : HasLimit sampleSet 60 :=
  .inside (n := false) (e := 1) (List.mem_cons_of_mem _ List.mem_cons_self)
    (.inside (n := false) (e := 0) List.mem_cons_self (.here List.mem_cons_self))
example : ∀ s, HasLimit ([.maxValidity 5] : List (Cav Unit)) s → s.toNat * 1000000000 < 2 ^ 63 := by
  intro s h
  rcases (hasLimit_iff _ _).mp h with h | ⟨n, ifs, e, h, _⟩
  · simp at h; subst h; decide
  · simp at h
example : ([.maxValidity 5, .isUser 1] : List (Cav Unit)).Perm [.isUser 1, .maxValidity 5] :=
  List.Perm.swap _ _ _

-- `maxValidity_set_iff`: the one-hour request passes all three (nested) limits of a set whose reported
-- maximum is 2 h ... and fails against `sampleSet`, whose reported maximum is 60 s
example : (∀ s, HasLimit ([.maxValidity 7200, .ifPresent false (.cons (.maxValidity 3600) .nil) 0] : List (Cav Unit)) s →
    prohibits (.maxValidity s : Cav Unit) sampleAccess = []) :=
  (maxValidity_set_iff _ sampleAccess sampleReq rfl).mpr (Or.inr (by decide))
example : ¬ (∀ s, HasLimit sampleSet s → prohibits (.maxValidity s : Cav Unit) sampleAccess = []) := by
  rw [maxValidity_set_iff sampleSet sampleAccess sampleReq rfl]
  decide

end Macaroon.Props.C18

#print axioms Macaroon.Props.C18.confineProhibits_iff
#print axioms Macaroon.Props.C18.confineUser_iff
#print axioms Macaroon.Props.C18.confineOrganization_iff
#print axioms Macaroon.Props.C18.confineGoogleHD_iff
#print axioms Macaroon.Props.C18.confineGitHubOrg_iff
#print axioms Macaroon.Props.C18.presented_ids
#print axioms Macaroon.Props.C18.confine_iff_identity
#print axioms Macaroon.Props.C18.no_identity_denies
#print axioms Macaroon.Props.C18.other_request_denied
#print axioms Macaroon.Props.C18.confine_outcomes
#print axioms Macaroon.Props.C18.maxValidity_iff_wrapped
#print axioms Macaroon.Props.C18.maxValidity_sound
#print axioms Macaroon.Props.C18.maxValidity_exact
#print axioms Macaroon.Props.C18.maxValidity_exact'
#print axioms Macaroon.Props.C18.wrapped_limit
#print axioms Macaroon.Props.C18.hasLimit_iff
#print axioms Macaroon.Props.C18.getCaveats_maxValidity
#print axioms Macaroon.Props.C18.getMaxValidity_min
#print axioms Macaroon.Props.C18.getMaxValidity_same_limits
#print axioms Macaroon.Props.C18.getMaxValidity_order_independent
#print axioms Macaroon.Props.C18.maxValidity_set_iff
