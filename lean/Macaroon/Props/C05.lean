/-
C05 — legitimately produced tokens always verify and yield their caveats.

Generic theorems (every `Crypto B`; [lawful] = for every `LawfulCrypto B`) about the token logic of
Token/Macaroon.lean: `mint`, `add`, `encodeState`, `bindTo`, `newCaveat3P`, `dischargeTicket`,
`verify`, `verifyFlat`.  Proofs are in Lemmas/Legit.lean.  The wire half of the property (what a
holder decodes from bytes is what the previous holder encoded; the verifier re-encodes what the
signer encoded) is C11 (`decode_encode_mac`, `decode_encode_cavs`, `reencode_fixed_point`,
`reencode_stable`); here a hop is the identity on the token state, and `Encode`/`String`/`Clone`
are the state change `encodeState`.  That a hop IS the identity on a legitimate token of the
byte-level model, and `legit_verifies` through `Verify` on bytes, are `wire_hop`, `legit_hop`,
`legit_attenuate_from_bytes`, `legit_verifies_bytes` of Props/Concrete.lean.
Non-vacuity: examples over the symbolic instance `B = Term`, checked by the kernel.
Tie: family `legit`.
-/
import Macaroon.Lemmas.Legit
import Macaroon.Lemmas.AddSucceeds
import Macaroon.Crypto.Symbolic

namespace Macaroon.Props.C05
open Macaroon Macaroon.Crypto Macaroon.Lemmas
variable {B : Type} [Crypto B]

/-! ### minting, both nonce formats -/

/-- [lawful] a freshly minted token is accepted under the minting key, whatever discharges come along -/
theorem mint_verifies [LawfulCrypto B] (k kid : B) (loc : Bytes) (rnd : B) (dms : List (Mac B))
    (tr : Bytes → List B) : verify k (mint k kid loc rnd false) dms tr = .ok [] :=
  mintV_verifies k kid loc rnd 1 dms tr

/-- [lawful] `old_and_new_nonce_format`: the same for a token whose nonce has the old two-field
format (`version = 0`) or any other version tag: `verify` reads the version only through the MAC
of the nonce.  `Legit` and everything below is stated for every version. -/
theorem old_and_new_nonce_format [LawfulCrypto B] (k kid : B) (loc : Bytes) (rnd : B) (ver : Nat)
    (dms : List (Mac B)) (tr : Bytes → List B) :
    Legit k (mintV k kid loc rnd ver false) ∧ verify k (mintV k kid loc rnd ver false) dms tr = .ok [] ∧
    mintV k kid loc rnd 1 false = mint k kid loc rnd false :=
  ⟨.minted kid loc rnd ver, mintV_verifies k kid loc rnd ver dms tr, rfl⟩

/-! ### the invariant of legitimate histories -/

/-- [lawful] `legit_chain`: after minting, any number of successful `Add` calls (ordinary caveats of
any kind and field values, fresh third-party caveats) and encode steps, in any interleaving: the
token is a non-proof, its tail is the MAC chain from `sign(k, nonce)` over all its caveats, and every
caveat passes the per-caveat test of `verify` as soon as a candidate discharge is present — each is
ordinary, or a third-party caveat whose VerifierKey opens under the tail BEFORE it (to the discharge
key it was made with: `legit_secrets`) -/
theorem legit_chain [LawfulCrypto B] (k : B) (m : Mac B) (h : Legit k m) :
    m.nonce.proof = false ∧ m.newProof = false ∧
    chain (macNonce k m.nonce) m.cavs = some m.tail ∧
    walkOK false (fun _ => some []) [] (macNonce k m.nonce) m.cavs = true ∧
    (∀ (l : B → Option (List (Mac B))) (pids : List B),
      (∀ p ∈ secrets k m, (l p.1).isSome = true) → walkOK false l pids (macNonce k m.nonce) m.cavs = true) := by
  have inv := legit_inv k m h
  exact ⟨inv.notProof, inv.notNew, inv.tail, inv.steps, fun l pids hl => walkOK_of_legit l pids _ _ inv.steps hl⟩

/-- [lawful] the (ticket, discharge key) pairs `verify` will recover from a legitimate token are
exactly those of the third-party caveats added (after de-duplication), in order of addition: the
VerifierKey is sealed under the tail before the caveat and opened under the same tail -/
theorem legit_secrets [LawfulCrypto B] (k : B) (m : Mac B) (items : List (AddItem B)) (hL : Legit k m)
    (hit : ∀ it ∈ items, LegitItem it) (hok : (add m items).2 = none) :
    secrets k (add m items).1 = secrets k m ++ newSecrets (dedup m.cavs items []) :=
  secrets_add k m items hL hit hok

/-! ### discharges -/

/-- more offered binding ids never hurt a discharge (the binding tests are existential) -/
theorem verifyFlat_mono_ids (key : B) (d : Mac B) (ids ids' : List B) (ta : Bool) (cs : List (Cav B))
    (hv : verifyFlat key d ids ta = .ok cs) (hsub : ∀ i ∈ ids, i ∈ ids') :
    verifyFlat key d ids' ta = .ok cs :=
  Lemmas.verifyFlat_mono_ids key d ids ids' ta cs hv hsub

/-- [lawful] what the third party issues for the ticket of a caveat made by `NewCaveat3P` is a
legitimate discharge rooted at that caveat's discharge key, and it learns the caveats to check —
for a third-party key that is an AEAD key, an AEAD nonce and a ticket body within the codec's domain
(`okKey`, `okNonce`, `okTicketBody`: `True` symbolically; concretely see Props/Concrete.lean) -/
theorem discharge_from_ticket_is_legit [LawfulCrypto B] (ka : B) (loc : Bytes) (cs : List (Cav B))
    (rn tn vn rnd : B) (p : Bool) (tails : List B)
    (hka : LawfulCrypto.okKey ka) (htn : LawfulCrypto.okNonce tn) (hb : LawfulCrypto.okTicketBody rn cs) :
    ∃ ticket d, newCaveat3P ka loc cs rn tn vn = .new3p loc ticket rn vn ∧
      dischargeTicket ka loc ticket rnd p = .ok (cs, d) ∧ LegitDis rn ticket tails d := by
  refine ⟨sealTicket ka tn rn cs, mint rn (sealTicket ka tn rn cs) loc rnd p, rfl, ?_, .minted loc rnd 1 p⟩
  unfold dischargeTicket
  rw [LawfulCrypto.openTicket_sealTicket ka tn rn cs hka htn hb]

/-- [lawful] `legit_discharge_verifies`: a discharge minted under the discharge key `rn` with the
ticket as key-id (proof or non-proof, either nonce format), then extended by any `Add` calls —
first-party caveats of any kind, attestations if it is a proof, `Bind` to any token whose tail is
in `tails` — with encode steps anywhere, once finalised, verifies under `rn` whenever the digest of
every tail in `tails` is offered, and yields its kept caveats in order -/
theorem legit_discharge_verifies [LawfulCrypto B] (rn ticket : B) (tails ids : List B) (d : Mac B) (ta : Bool)
    (h : LegitDis rn ticket tails d) (hfin : (d.nonce.proof && d.newProof) = false)
    (hids : ∀ t ∈ tails, digest t ∈ ids) :
    verifyFlat rn d ids ta = .ok (d.cavs.filter (kept ta)) ∧ d.nonce.kid = ticket :=
  Lemmas.legit_discharge_verifies rn ticket tails ids d ta h hfin hids

/-- `Bind` is such a step when the parent is the presented token or an ancestor of it -/
theorem bind_is_legit (rn ticket : B) (tails : List B) (d parent : Mac B) (h : LegitDis rn ticket tails d)
    (hp : parent.tail ∈ tails) (hok : (bindTo d parent).2 = none) : LegitDis rn ticket tails (bindTo d parent).1 :=
  LegitDis.bound d parent h hp hok

/-- the tail of a token is among the tails of every token attenuated from it (so a discharge bound
to an ancestor is a `LegitDis … (tailsOf k m')` for the descendant `m'`) -/
theorem ancestor_tails [LawfulCrypto B] (k : B) (m m' : Mac B) (hL : Legit k m) (h : Attenuated m m') :
    m.tail ∈ tailsOf k m' ∧ ∀ t ∈ tailsOf k m, t ∈ tailsOf k m' := by
  have inv := legit_inv k m hL
  obtain ⟨hn, _, ys, hc, _⟩ := attenuated_shape m m' h
  have hsub := tailsOf_extension k m m' ys hn hc inv.tail
  refine ⟨hsub _ ?_, hsub⟩
  unfold tailsOf
  cases hcs : m.cavs with
  | nil =>
    have := inv.tail; rw [hcs] at this
    simp only [chain, Option.some.injEq] at this
    simp [this]
  | cons c cs =>
    have := inv.tail; rw [hcs] at this
    exact List.mem_cons_of_mem _ (last_mem _ c cs _ this)
where
  last_mem : ∀ (t : B) (c : Cav B) (cs : List (Cav B)) (r : B), chain t (c :: cs) = some r →
      r ∈ tailsAfter t (c :: cs)
    | t, c, [], r, h => by
      simp only [chain] at h
      cases hm : macCav t c with
      | none => simp [hm] at h
      | some t' => simp [hm] at h; simp [tailsAfter, hm, h]
    | t, c, c' :: cs, r, h => by
      simp only [chain] at h
      cases hm : macCav t c with
      | none => simp [hm] at h
      | some t' =>
        simp only [hm, Option.bind_some] at h
        have := last_mem t' c' cs r h
        simp only [tailsAfter, hm]
        exact List.mem_cons_of_mem _ this

/-! ### the main theorem -/

/-- [lawful] `legit_verifies`: a legitimate token, presented with — for each of its third-party
caveats in caveat order — one legitimate, finalised discharge for that caveat's ticket and discharge
key (the only presented token with that key-id; bound to the token itself or to ancestors, or not at
all; proof or non-proof; `b` = whether the trust loop trusts it), is accepted under the minting
key, and verification yields the token's first-party caveats in caveat order followed by the kept
caveats of each discharge in caveat order (attestations of a discharge only when it is trusted). -/
theorem legit_verifies [LawfulCrypto B] (k : B) (m : Mac B) (hL : Legit k m) (dms : List (Mac B))
    (tr : Bytes → List B) (dbs : List (Mac B × Bool))
    (h : Aligned (GoodDischarge k m dms tr) (secrets k m) dbs) :
    verify k m dms tr = .ok (m.cavs.filter (kept true) ++ (dbs.map contrib).flatten) :=
  legit_verifies_exact k m hL dms tr dbs h

/-- [lawful] the same when several candidates carry a ticket: the first accepted one (presentation
order) contributes — failing or foreign candidates in front do not matter -/
theorem legit_verifies_first_accepted [LawfulCrypto B] (k : B) (m : Mac B) (hL : Legit k m) (dms : List (Mac B))
    (tr : Bytes → List B) (rs : List (List (Cav B)))
    (h : Aligned (fun p r => ∃ ds, byTicket dms p.1 = some ds ∧
          firstDischarge (offered k m) true tr p.2 ds = some r) (secrets k m) rs) :
    verify k m dms tr = .ok (m.cavs.filter (kept true) ++ rs.flatten) :=
  legit_verifies_core k m hL dms tr rs h

/-- [lawful] acceptance alone -/
theorem legit_accepted [LawfulCrypto B] (k : B) (m : Mac B) (hL : Legit k m) (dms : List (Mac B))
    (tr : Bytes → List B) (dbs : List (Mac B × Bool))
    (h : Aligned (GoodDischarge k m dms tr) (secrets k m) dbs) : ∃ cs, verify k m dms tr = .ok cs :=
  ⟨_, legit_verifies k m hL dms tr dbs h⟩

/-- [lawful] a legitimate token without third-party caveats is accepted with any discharges
presented alongside and yields exactly its caveats, in order -/
theorem legit_firstParty_verifies [LawfulCrypto B] (k : B) (m : Mac B) (hL : Legit k m) (dms : List (Mac B))
    (tr : Bytes → List B) (h3 : secrets k m = []) : verify k m dms tr = .ok (m.cavs.filter (kept true)) := by
  have := legit_verifies k m hL dms tr [] (by rw [h3]; exact .nil)
  simpa using this

/-- the trust loop does not refuse: no trusted key for the discharge's location … -/
theorem untrusted_not_refused (kid vk : B) : trustOf ([] : List B) kid vk = some false := rfl

/-- [lawful] … or the third party's own key first in the list: it opens the ticket to the discharge key -/
theorem trusted_not_refused [LawfulCrypto B] (ka : B) (rest : List B) (tn rn : B) (cs : List (Cav B))
    (hka : LawfulCrypto.okKey ka) (htn : LawfulCrypto.okNonce tn) (hb : LawfulCrypto.okTicketBody rn cs) :
    trustOf (ka :: rest) (sealTicket ka tn rn cs) rn = some true :=
  trustOf_sealed_head ka rest tn rn cs hka htn hb

/-! ### order of the first-party caveats -/

/-- each successful `Add` contributes to the verification result its ordinary arguments, in
argument order, minus those whose encoding is already in the token or earlier in the arguments -/
theorem firstParty_order_add [LawfulCrypto B] (m : Mac B) (items : List (AddItem B))
    (hit : ∀ it ∈ items, LegitItem it) (hok : (add m items).2 = none) :
    (add m items).1.cavs.filter (kept true) =
      m.cavs.filter (kept true) ++ (dedup m.cavs items []).filterMap AddItem.plain? :=
  legit_add_firstParty m items hit hok

/-- [lawful] `firstParty_order`: a token built by adding ordinary caveats only (any number of `Add`
calls; `added` = all arguments in order) verifies and yields the added caveats in the order of
addition with duplicates (equal encodings) collapsed onto the first occurrence -/
theorem firstParty_order [LawfulCrypto B] (k : B) (m : Mac B) (added : List (Cav B)) (h : PlainHist k m added)
    (dms : List (Mac B)) (tr : Bytes → List B) :
    m.cavs = collapse [] added ∧ verify k m dms tr = .ok (collapse [] added) := by
  obtain ⟨hc, hord⟩ := plainHist_cavs k m added h
  refine ⟨hc, ?_⟩
  have hL := plainHist_legit k m added h
  have inv := legit_inv k m hL
  have h3 : secrets k m = [] := by
    unfold secrets
    have : ∀ (t : B) (cs : List (Cav B)), (∀ c ∈ cs, ordinary c = true) → tpKeys t cs = [] := by
      intro t cs
      induction cs generalizing t with
      | nil => intro _; rfl
      | cons c cs ih =>
        intro hall
        have h1 := (tpFields?_none_iff c).mpr ((ordinary_iff c).mp (hall c (by simp))).1
        simp only [tpKeys, tpKeysStep, h1, List.nil_append]
        cases macCav t c with
        | none => rfl
        | some t' => exact ih t' (fun x hx => hall x (List.mem_cons_of_mem _ hx))
    exact this _ _ hord
  rw [legit_firstParty_verifies k m hL dms tr h3, filter_kept_ordinary _ _ hord, hc]

/-- `collapse` over several `Add` calls is `collapse` over the concatenated arguments -/
theorem collapse_calls (acc xs ys : List (Cav B)) : collapse (collapse acc xs) ys = collapse acc (xs ++ ys) :=
  (collapse_append acc xs ys).symm

/-! ### `Add` succeeds: the success hypotheses of `Legit` are dischargeable from the arguments -/

/-- [lawful] `add_succeeds`: `Add` returns nil when the token is not a finalised proof, every caveat of
the token and of the arguments can be encoded, no plain argument is an attestation (unless the token
is a proof) or wraps one, and the new third-party arguments name pairwise different locations none of
which the token already has a third-party caveat for.  (`TpEncodable`: a third-party caveat can
always be encoded — true of both instances, `tpEncodable_term` here, `tpEncodable_bytes` in
Props/Concrete.lean.) -/
theorem add_succeeds [LawfulCrypto B] (htp : TpEncodable B) (m : Mac B) (items : List (AddItem B))
    (hf : (m.nonce.proof && !m.newProof) = false) (he : allEncodable m items = true)
    (hp : ∀ c, AddItem.plain c ∈ items → (c.isAttestation && !m.nonce.proof) = false ∧ c.wrapsAttestation = false)
    (hnd : (newLocs items).Nodup) (hfr : ∀ l ∈ newLocs items, l ∉ locs3P m.cavs) :
    (add m items).2 = none :=
  Lemmas.add_succeeds htp m items hf he hp hnd hfr

/-- [lawful] on a legitimate token the call succeeds and the result is legitimate, from conditions on
the arguments alone -/
theorem legit_add_succeeds [LawfulCrypto B] (htp : TpEncodable B) (k : B) (m : Mac B) (hL : Legit k m)
    (items : List (AddItem B)) (hit : ∀ it ∈ items, LegitItem it)
    (henc : ∀ c, AddItem.plain c ∈ items → ∀ t : B, (macCav t c).isSome = true)
    (hnd : (newLocs items).Nodup) (hfr : ∀ l ∈ newLocs items, l ∉ locs3P m.cavs) :
    (add m items).2 = none ∧ Legit k (add m items).1 :=
  Lemmas.legit_add_succeeds htp k m hL items hit henc hnd hfr

/-- [lawful] `legit_add_then_verifies`: "any field values ⇒ `Add` succeeds ⇒ verifies".  A holder of a
legitimate token adds ordinary caveats of any kinds and values that can be encoded and fresh
third-party caveats for new, pairwise different locations: the call succeeds, and the resulting
token, presented with one good discharge per third-party caveat, is accepted and yields its
first-party caveats followed by the discharges' kept caveats — `legit_verifies` with no success
hypothesis left. -/
theorem legit_add_then_verifies [LawfulCrypto B] (htp : TpEncodable B) (k : B) (m : Mac B) (hL : Legit k m)
    (items : List (AddItem B)) (hit : ∀ it ∈ items, LegitItem it)
    (henc : ∀ c, AddItem.plain c ∈ items → ∀ t : B, (macCav t c).isSome = true)
    (hnd : (newLocs items).Nodup) (hfr : ∀ l ∈ newLocs items, l ∉ locs3P m.cavs)
    (dms : List (Mac B)) (tr : Bytes → List B) (dbs : List (Mac B × Bool))
    (h : Aligned (GoodDischarge k (add m items).1 dms tr) (secrets k (add m items).1) dbs) :
    (add m items).2 = none ∧
    verify k (add m items).1 dms tr =
      .ok ((add m items).1.cavs.filter (kept true) ++ (dbs.map contrib).flatten) := by
  obtain ⟨hok, hL'⟩ := Lemmas.legit_add_succeeds htp k m hL items hit henc hnd hfr
  exact ⟨hok, legit_verifies k _ hL' dms tr dbs h⟩

/-- [lawful] `firstParty_history_verifies`: a whole mint-side history given by its DATA alone — the nonce
format and the argument lists of any number of `Add` calls, ordinary caveats of any registered kinds
and field values that can be encoded: every call succeeds, and the token verifies under the minting
key, with any discharges alongside, yielding the added caveats in the order of addition with equal
encodings collapsed onto the first occurrence -/
theorem firstParty_history_verifies [LawfulCrypto B] (htp : TpEncodable B) (k kid : B) (loc : Bytes) (rnd : B)
    (ver : Nat) (calls : List (List (Cav B)))
    (hall : ∀ cs ∈ calls, ∀ c ∈ cs, ordinary c = true ∧ ∀ t : B, (macCav t c).isSome = true)
    (dms : List (Mac B)) (tr : Bytes → List B) :
    Legit k (addAll (mintV k kid loc rnd ver false) calls) ∧
    (addAll (mintV k kid loc rnd ver false) calls).cavs = collapse [] calls.flatten ∧
    verify k (addAll (mintV k kid loc rnd ver false) calls) dms tr = .ok (collapse [] calls.flatten) := by
  have h := plainHist_addAll htp k calls _ [] (.minted kid loc rnd ver) hall
  rw [List.nil_append] at h
  have := firstParty_order k _ _ h dms tr
  exact ⟨plainHist_legit k _ _ h, this.1, this.2⟩

/-- [lawful] `history_verifies`: a whole mint-side history WITH third-party caveats, given by its data alone —
nonce format and the argument lists of any number of `Add` calls: ordinary caveats of any kinds and
values that can be encoded (holding no third-party caveat inside a wrapper), fresh third-party
caveats for pairwise different locations.  Every call succeeds, the token is legitimate, and
presented with one good discharge per third-party caveat it is accepted and yields its first-party
caveats followed by the discharges' kept caveats.  No success hypothesis anywhere. -/
theorem history_verifies [LawfulCrypto B] (htp : TpEncodable B) (k kid : B) (loc : Bytes) (rnd : B) (ver : Nat)
    (calls : List (List (AddItem B)))
    (hit : ∀ its ∈ calls, ∀ it ∈ its, LegitItem it ∧ noInner3P it)
    (henc : ∀ its ∈ calls, ∀ c, AddItem.plain c ∈ its → ∀ t : B, (macCav t c).isSome = true)
    (hnd : (newLocs calls.flatten).Nodup)
    (dms : List (Mac B)) (tr : Bytes → List B) (dbs : List (Mac B × Bool))
    (h : Aligned (GoodDischarge k (addCalls (mintV k kid loc rnd ver false) calls) dms tr)
      (secrets k (addCalls (mintV k kid loc rnd ver false) calls)) dbs) :
    Legit k (addCalls (mintV k kid loc rnd ver false) calls) ∧
    verify k (addCalls (mintV k kid loc rnd ver false) calls) dms tr =
      .ok ((addCalls (mintV k kid loc rnd ver false) calls).cavs.filter (kept true) ++ (dbs.map contrib).flatten) := by
  have hL := legit_addCalls htp k calls (mintV k kid loc rnd ver false) (.minted kid loc rnd ver) hit henc
    (by simpa [mintV, locs3P, getCaveats] using hnd)
  exact ⟨hL, legit_verifies k _ hL dms tr dbs h⟩

/-! ### non-vacuity (symbolic instance) -/

section examples
open Symbolic Symbolic.Term

/-- issuer key `atom 0`; third party key `atom 5`; discharge key `atom 11` -/
def m0 : Mac Term := mint (atom 0) (lit [1]) [] (atom 1) false
def m0old : Mac Term := mintV (atom 0) (lit [1]) [] (atom 1) 0 false
def item3p : AddItem Term := newCaveat3P (atom 5) [9] [.isUser 3] (atom 11) (atom 12) (atom 13)
def ticket : Term := sealTicket (atom 5) (atom 12) (atom 11) [.isUser 3]
/-- two holders: the first adds a caveat and the third-party caveat, the second a duplicate and a new one -/
def m1 : Mac Term := (add m0 [.plain (.isUser 7), item3p]).1
def m2 : Mac Term := (add (encodeState m1) [.plain (.isUser 7), .plain (.action 1)]).1
/-- the third party's discharge (a proof) with an attestation and a confinement, bound by the holder to `m1` -/
def d0 : Mac Term := mint (atom 11) ticket [9] (atom 14) true
def d1 : Mac Term := (add d0 [.plain (.flyioUserID 5), .plain (.confineUser 5)]).1
def d2 : Mac Term := encodeState (bindTo d1 m1).1

theorem m1_legit : Legit (atom 0) m1 :=
  .added m0 _ (.minted _ _ _ 1) (by
    intro it hit
    simp only [List.mem_cons, List.not_mem_nil, or_false] at hit
    rcases hit with rfl | rfl
    · exact .plain _ rfl
    · exact .new3p _ _ _ _ trivial) rfl

theorem m2_legit : Legit (atom 0) m2 :=
  .added _ _ (.encoded _ m1_legit) (by
    intro it hit
    simp only [List.mem_cons, List.not_mem_nil, or_false] at hit
    rcases hit with rfl | rfl
    · exact .plain _ rfl
    · exact .plain _ rfl) rfl

example : secrets (atom 0) m2 = [(ticket, atom 11)] := by rfl
example : m2.cavs.filter (kept true) = [.isUser 7, .action 1] := by rfl

theorem d2_legit : LegitDis (atom 11) ticket (tailsOf (atom 0) m2) d2 := by
  refine .encoded _ (LegitDis.bound d1 m1 (.added d0 _ (.minted [9] (atom 14) 1 true) ?_ rfl) (by decide) rfl)
  intro it hit
  simp only [List.mem_cons, List.not_mem_nil, or_false] at hit
  rcases hit with rfl | rfl
  · exact ⟨_, rfl, rfl, rfl, fun _ => rfl, fun id h => by simp [bindId?] at h⟩
  · exact ⟨_, rfl, rfl, rfl, fun h => by simp [Cav.isAttestation] at h, fun id h => by simp [bindId?] at h⟩

def trusted5 : Bytes → List Term := fun _ => [atom 5]

theorem m2_good : Aligned (GoodDischarge (atom 0) m2 [d2] trusted5) (secrets (atom 0) m2) [(d2, true)] :=
  .cons ⟨by rfl, d2_legit, by rfl, by rfl⟩ .nil

-- `legit_verifies` applies; the result it predicts is the one the model computes
example : verify (atom 0) m2 [d2] trusted5 = .ok [.isUser 7, .action 1, .flyioUserID 5, .confineUser 5] :=
  legit_verifies (atom 0) m2 m2_legit [d2] trusted5 [(d2, true)] m2_good
example : verify (atom 0) m2 [d2] trusted5 = .ok [.isUser 7, .action 1, .flyioUserID 5, .confineUser 5] := by rfl
-- untrusted third party: the attestation is not returned
example : verify (atom 0) m2 [d2] (fun _ => []) = .ok [.isUser 7, .action 1, .confineUser 5] :=
  legit_verifies (atom 0) m2 m2_legit [d2] (fun _ => []) [(d2, false)] (.cons ⟨by rfl, d2_legit, by rfl, by rfl⟩ .nil)
example := legit_accepted (atom 0) m2 m2_legit [d2] trusted5 [(d2, true)] m2_good
example := legit_verifies_first_accepted (atom 0) m2 m2_legit [d0, d2] trusted5 [[.flyioUserID 5, .confineUser 5]]
  (.cons ⟨[d0, d2], by rfl, by rfl⟩ .nil)
-- `legit_chain`, `legit_secrets`
example := legit_chain (atom 0) m2 m2_legit
example : secrets (atom 0) m1 = secrets (atom 0) m0 ++ newSecrets (dedup m0.cavs [.plain (.isUser 7), item3p] []) :=
  legit_secrets (atom 0) m0 _ (.minted _ _ _ 1) (by
    intro it hit
    simp only [List.mem_cons, List.not_mem_nil, or_false] at hit
    rcases hit with rfl | rfl
    · exact .plain _ rfl
    · exact .new3p _ _ _ _ trivial) rfl
-- discharges: the third party's answer to the ticket; verification of the bound discharge
example : dischargeTicket (atom 5) [9] ticket (atom 14) true = .ok ([.isUser 3], d0) := by rfl
example := discharge_from_ticket_is_legit (atom 5) [9] [.isUser 3] (atom 11) (atom 12) (atom 13) (atom 14) true
  (tailsOf (atom 0) m2) trivial trivial trivial
example : verifyFlat (atom 11) d2 (offered (atom 0) m2) true = .ok [.flyioUserID 5, .confineUser 5] ∧ d2.nonce.kid = ticket :=
  legit_discharge_verifies (atom 11) ticket (tailsOf (atom 0) m2) (offered (atom 0) m2) d2 true d2_legit (by rfl)
    (fun t ht => List.mem_map.mpr ⟨t, ht, rfl⟩)
example := bind_is_legit (atom 11) ticket (tailsOf (atom 0) m2) d1 m1
  (.added d0 _ (.minted [9] (atom 14) 1 true) (by
    intro it hit
    simp only [List.mem_cons, List.not_mem_nil, or_false] at hit
    rcases hit with rfl | rfl
    · exact ⟨_, rfl, rfl, rfl, fun _ => rfl, fun id h => by simp [bindId?] at h⟩
    · exact ⟨_, rfl, rfl, rfl, fun h => by simp [Cav.isAttestation] at h, fun id h => by simp [bindId?] at h⟩) rfl)
  (by decide) rfl
example := ancestor_tails (atom 0) m1 m2 m1_legit (.step _ _ .refl (by rfl))
example := verifyFlat_mono_ids (atom 11) d2 (offered (atom 0) m1) (offered (atom 0) m2) true _ (by rfl) (by decide)
-- a non-proof discharge built directly under the discharge key, not bound
example : verify (atom 0) m2 [mint (atom 11) ticket [9] (atom 15) false] trusted5 = .ok [.isUser 7, .action 1] :=
  legit_verifies (atom 0) m2 m2_legit _ trusted5 [(mint (atom 11) ticket [9] (atom 15) false, true)]
    (.cons ⟨by rfl, .minted [9] (atom 15) 1 false, by rfl, by rfl⟩ .nil)
-- both nonce formats
example : verify (atom 0) m0 [] (fun _ => []) = .ok [] := mint_verifies _ _ _ _ _ _
example : verify (atom 0) m0old [] (fun _ => []) = .ok [] := (old_and_new_nonce_format (atom 0) (lit [1]) [] (atom 1) 0 [] _).2.1
example : verify (atom 0) (add m0old [.plain (.isUser 7)]).1 [] (fun _ => []) = .ok [.isUser 7] :=
  legit_firstParty_verifies (atom 0) _ (.added m0old _ (.minted _ _ _ 0) (by
    intro it hit; simp only [List.mem_singleton] at hit; subst hit; exact .plain _ rfl) rfl) [] _ (by rfl)
-- order of addition, duplicates collapsed
example : verify (atom 0) m2 [d2] trusted5 = .ok (m2.cavs.filter (kept true) ++ [.flyioUserID 5, .confineUser 5]) := by rfl
example := firstParty_order_add (encodeState m1) [.plain (.isUser 7), .plain (.action 1)] (by
    intro it hit
    simp only [List.mem_cons, List.not_mem_nil, or_false] at hit
    rcases hit with rfl | rfl
    · exact .plain _ rfl
    · exact .plain _ rfl) rfl
def mp : Mac Term := (add (add m0 ([.isUser 7, .action 1].map .plain)).1 ([.action 1, .isUser 8, .isUser 7].map .plain)).1
theorem mp_hist : PlainHist (atom 0) mp ([] ++ [.isUser 7, .action 1] ++ [.action 1, .isUser 8, .isUser 7]) :=
  .added _ _ _ (.added _ _ _ (.minted _ _ _ 1) (by decide) rfl) (by decide) rfl
example : mp.cavs = [.isUser 7, .action 1, .isUser 8] ∧
    verify (atom 0) mp [] (fun _ => []) = .ok [.isUser 7, .action 1, .isUser 8] :=
  firstParty_order (atom 0) mp _ mp_hist [] _
example := trusted_not_refused (atom 5) [] (atom 12) (atom 11) [Cav.isUser 3] trivial trivial trivial

/-- in the symbolic instance the trust loop never refuses a discharge for an honestly sealed
ticket, whatever keys are trusted for its location: the hypothesis `trustOf … = some b` of
`GoodDischarge` is always met there (other keys cannot open the ticket at all) -/
theorem sym_trust_never_refuses (keys : List Term) (ka tn rn : Term) (cs : List (Cav Term)) :
    ∃ b, trustOf keys (sealTicket ka tn rn cs) rn = some b := by
  induction keys with
  | nil => exact ⟨false, rfl⟩
  | cons k' rest ih =>
    by_cases h : ka = k'
    · subst h
      exact ⟨true, trusted_not_refused ka rest tn rn cs trivial trivial trivial⟩
    · obtain ⟨b, hb⟩ := ih
      refine ⟨b, ?_⟩
      simp only [trustOf, Crypto.openTicket, Crypto.sealTicket, openTicketT, h, ↓reduceIte]
      exact hb
example := sym_trust_never_refuses [atom 7, atom 5] (atom 5) (atom 12) (atom 11) [.isUser 3]

/-- the symbolic instance can encode every third-party caveat (every caveat, in fact) -/
theorem tpEncodable_term : TpEncodable Term := fun _ _ _ _ => rfl

-- `add_succeeds`, `legit_add_succeeds`, `legit_add_then_verifies`: the second holder's call of the running example
example : (add (encodeState m1) [.plain (.isUser 7), .plain (.action 1)]).2 = none :=
  add_succeeds tpEncodable_term _ _ (by rfl) (by rfl) (by
    intro c hc
    simp only [List.mem_cons, List.not_mem_nil, or_false, AddItem.plain.injEq] at hc
    rcases hc with rfl | rfl <;> exact ⟨rfl, rfl⟩) (by decide) (by intro l hl; cases hl)
example := legit_add_succeeds tpEncodable_term (atom 0) m0 (.minted _ _ _ 1) [.plain (.isUser 7), item3p]
  (by
    intro it hit
    simp only [List.mem_cons, List.not_mem_nil, or_false] at hit
    rcases hit with rfl | rfl
    · exact .plain _ rfl
    · exact .new3p _ _ _ _ trivial)
  (fun _ _ _ => rfl) (by decide) (by intro l hl; simp [m0, mint, locs3P, getCaveats])
example := legit_add_then_verifies tpEncodable_term (atom 0) (encodeState m1) (.encoded _ m1_legit)
  [.plain (.isUser 7), .plain (.action 1)]
  (by
    intro it hit
    simp only [List.mem_cons, List.not_mem_nil, or_false] at hit
    rcases hit with rfl | rfl
    · exact .plain _ rfl
    · exact .plain _ rfl)
  (fun _ _ _ => rfl) (by decide) (by intro l hl; cases hl) [d2] trusted5 [(d2, true)] m2_good
-- a whole first-party history from its data
example : verify (atom 0) (addAll (mintV (atom 0) (lit [1]) [] (atom 1) 1 false)
      [[.isUser 7, .action 1], [.action 1, .isUser 8, .isUser 7]]) [] (fun _ => []) =
    .ok [.isUser 7, .action 1, .isUser 8] :=
  (firstParty_history_verifies tpEncodable_term (atom 0) (lit [1]) [] (atom 1) 1
    [[.isUser 7, .action 1], [.action 1, .isUser 8, .isUser 7]]
    (by intro cs hcs c hc; exact ⟨by revert c; revert cs; decide, fun _ => rfl⟩) [] (fun _ => [])).2.2

-- a whole history with a third-party caveat from its data: the running example `m2`
example : addCalls (mintV (atom 0) (lit [1]) [] (atom 1) 1 false)
    [[.plain (.isUser 7), item3p], [.plain (.isUser 7), .plain (.action 1)]] = m2 := by rfl
example := history_verifies tpEncodable_term (atom 0) (lit [1]) [] (atom 1) 1
  [[.plain (.isUser 7), item3p], [.plain (.isUser 7), .plain (.action 1)]]
  (by
    intro its hits it hit
    simp only [List.mem_cons, List.not_mem_nil, or_false] at hits
    rcases hits with rfl | rfl <;> simp only [List.mem_cons, List.not_mem_nil, or_false] at hit <;>
      rcases hit with rfl | rfl
    · exact ⟨.plain _ rfl, rfl⟩
    · exact ⟨.new3p _ _ _ _ trivial, trivial⟩
    · exact ⟨.plain _ rfl, rfl⟩
    · exact ⟨.plain _ rfl, rfl⟩)
  (fun _ _ _ _ _ => rfl) (by decide) [d2] trusted5 [(d2, true)] m2_good

end examples

end Macaroon.Props.C05

#print axioms Macaroon.Props.C05.mint_verifies
#print axioms Macaroon.Props.C05.old_and_new_nonce_format
#print axioms Macaroon.Props.C05.legit_chain
#print axioms Macaroon.Props.C05.legit_secrets
#print axioms Macaroon.Props.C05.verifyFlat_mono_ids
#print axioms Macaroon.Props.C05.discharge_from_ticket_is_legit
#print axioms Macaroon.Props.C05.legit_discharge_verifies
#print axioms Macaroon.Props.C05.bind_is_legit
#print axioms Macaroon.Props.C05.ancestor_tails
#print axioms Macaroon.Props.C05.legit_verifies
#print axioms Macaroon.Props.C05.legit_verifies_first_accepted
#print axioms Macaroon.Props.C05.legit_accepted
#print axioms Macaroon.Props.C05.legit_firstParty_verifies
#print axioms Macaroon.Props.C05.untrusted_not_refused
#print axioms Macaroon.Props.C05.trusted_not_refused
#print axioms Macaroon.Props.C05.firstParty_order_add
#print axioms Macaroon.Props.C05.firstParty_order
#print axioms Macaroon.Props.C05.collapse_calls
#print axioms Macaroon.Props.C05.add_succeeds
#print axioms Macaroon.Props.C05.legit_add_succeeds
#print axioms Macaroon.Props.C05.legit_add_then_verifies
#print axioms Macaroon.Props.C05.firstParty_history_verifies
#print axioms Macaroon.Props.C05.history_verifies
#print axioms Macaroon.Props.C05.tpEncodable_term
#print axioms Macaroon.Props.C05.m1_legit
#print axioms Macaroon.Props.C05.m2_legit
#print axioms Macaroon.Props.C05.d2_legit
#print axioms Macaroon.Props.C05.m2_good
#print axioms Macaroon.Props.C05.mp_hist
#print axioms Macaroon.Props.C05.sym_trust_never_refuses
