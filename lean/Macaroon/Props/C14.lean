/-
C14 — the verification cache is transparent.

Theorems about `Macaroon/Bundle/Cache.lean`.  The positive theorems are about the value-level system
`Cache.Sys` (= the semantics `.copy`: the cache stores a copy of the verified caveats and hands out a
fresh result around the requesting bundle's own token; histories over any number of bundles,
eviction of any entry at any time, `now` given per step, any `ttl`) with the key order `.byKid`: the
candidate discharges are sorted STABLY by their key-id (the ticket they answer) before the key is
built and before they are handed to the underlying verifier.

Hypothesis on the underlying verifier (`PerKidFun μ V`): its answer depends only on the permission
token's text and, for each ticket, the ORDERED list of the texts of the candidates carrying it — on
tokens whose macaroon is what their text decodes to under `μ`.  It is DISCHARGED for the key
resolver (`resolver_satisfies_hypothesis`, any `μ`): `verify` looks candidates up by ticket, tries
them in the order presented (the first acceptable one wins) and never mixes tickets.
The invariant behind the theorems is that every token's macaroon is what its text decodes to
(`Synced macOf`): true of parsed tokens by construction, and of the tokens `Attenuate` / `Discharge`
put into a bundle because the model defines these operations exactly where the printed text reads
back as the stored token (`Bundle.readsBack`; `minted_tokens_are_synced`).  In Go the two cannot
differ (a resource set is a map; the encoder sorts); a model value can be non-canonical (an unsorted
resource-set list), and then the operation fails closed — `unsorted_resource_set_does_not_read_back`
is the witness why this is needed.  The guard is exactly well-formedness (`Props/C13.lean:
readsBack_iff_wellformed`), well-formedness is an invariant of every history (`wf_along_histories`),
and on well-formed tokens with well-formed arguments the guard never fires
(`guard_never_the_reason`).  The headline theorems therefore carry NO hypothesis about
minting; the generic form `cache_transparent_from` (any decoder `μ`) keeps `MintSynced μ`, which
`minted_tokens_are_synced` discharges for `μ = macOf`.

Negative witnesses of the two defects found and repaired:
* `f7_sharing_not_transparent` — the cache handed out the stored `*VerifiedMacaroon` itself (`.share`);
* `text_sorted_key_not_transparent` — the candidates were sorted by TEXT (`.byText`), which reorders
  two candidates for one ticket in front of a verifier for which their order matters.

Object level: `hrun_copy_refines` proves that the object-level model with the copying cache
(`Cache.HSys`, `.copy`: Go's pointers — `*UnverifiedMacaroon`s, the `Caveats` cells of the
`*VerifiedMacaroon` wrappers, the cache's entries) has exactly the traces of `Cache.Sys`, for every
history from every parsed initial state; the heap invariant behind it is `Lemmas.Refine.SOK`.  So the
theorems above are theorems about the object-level model too (`cache_transparent_on_objects`).

Tie: family `cache` (every history is run through `bundle.NewVerificationCache` and directly; the
driver runs the object-level model and, for `.copy`, also `Cache.Sys`, reporting any difference; the
`(const transparent)` lines are the implementation's own cached-against-direct verdict).
-/
import Macaroon.Lemmas.Bundle
import Macaroon.Lemmas.Refine
import Macaroon.Lemmas.ReadsBack

namespace Macaroon.Props.C14
open Macaroon Macaroon.Bundle Macaroon.Bundle.Cache Macaroon.Lemmas.BundleL

/-- **cache_transparent.**  For every history over any number of bundles — `verify bᵢ` (through the
cache or directly), `validate`, `attenuate`, `discharge`, `filter`, `header`, `tick`, eviction of
any entry — at arbitrary times, every `ttl`, and every underlying verifier whose answer depends on
the candidates only through, per ticket, their ordered texts: replacing the cached verifier by the
direct one changes nothing.  The trace compared holds, for every step, what the operation returned
(accepted / failed and the verified caveats, the validate result, the printed header, the error
flag) and the complete state of EVERY bundle afterwards. -/
theorem cache_transparent (P : Params) (hO : P.order = .byKid) (hV : PerKidFun macOf P.V)
    (pl : Bytes) (hdrs : List Str) (hist : List (Int × Op)) :
    run P hist (init pl hdrs) = run P (hist.map fun x => (x.1, x.2.direct)) (init pl hdrs) :=
  run_transparent P hO hV mintSynced_macOf hist _ _ rfl (inv_init P.V pl hdrs)

/-- for the key resolver the hypothesis on the verifier is discharged as well: NO hypothesis is left -/
theorem cache_transparent_key_resolver (R : Bundle.Resolver) (ttl : Int) (sc : Bundle.DischargeScope)
    (pl : Bytes) (hdrs : List Str) (hist : List (Int × Op)) :
    run { V := R.oracle, ttl := ttl, scope := sc } hist (init pl hdrs)
      = run { V := R.oracle, ttl := ttl, scope := sc } (hist.map fun x => (x.1, x.2.direct)) (init pl hdrs) :=
  run_transparent _ rfl (resolver_perKidFun R macOf) mintSynced_macOf hist _ _ rfl (inv_init _ pl hdrs)

/-- the same from any state that satisfies the invariant (token text without commas and decoding to
the token's macaroon, every stored entry equal to the verifier's answer on its key), with the direct
run starting from ANY store, for any decoder `μ` -/
theorem cache_transparent_from {μ : Str → Option M} (P : Params) (hO : P.order = .byKid) (hV : PerKidFun μ P.V)
    (hm : MintSynced μ) (hist : List (Int × Op)) (s s' : Sys) (hb : s.bundles = s'.bundles) (hinv : Inv μ P.V s) :
    run P hist s = run P (hist.map fun x => (x.1, x.2.direct)) s' :=
  run_transparent P hO hV hm hist s s' hb hinv

/-- the invariant behind it is kept by every step: every live entry equals the direct verifier's
answer on every query that maps to its key -/
theorem invariant_step {μ : Str → Option M} (P : Params) (hO : P.order = .byKid) (hV : PerKidFun μ P.V) (hm : MintSynced μ)
    (now : Int) (s : Sys) (hinv : Inv μ P.V s) (op : Op) : Inv μ P.V (step P now s op).1 :=
  (step_cached_vs_direct P hO hV hm now s hinv op).2.2

/-- one cached verification returns what the direct one returns -/
theorem verify_cached_is_direct {μ : Str → Option M} (V : Bundle.Oracle) (hV : PerKidFun μ V) (c : Store) (hc : Sound μ V c)
    (now ttl : Int) (b : Bundle) (hb : Clean b) (sb : SyncedB μ b) : (verifyCached .byKid V c now ttl b).1 = b.verifyBy V :=
  verifyCached_fst V hV c hc now ttl b hb sb

/-- **the key resolver satisfies the hypothesis**, for every decoder `μ`: its answer depends on the
candidates only through, for each ticket, the ordered texts of the candidates carrying it -/
theorem resolver_satisfies_hypothesis (R : Bundle.Resolver) (μ : Str → Option M) : PerKidFun μ R.oracle :=
  resolver_perKidFun R μ

/-- **the stable sort by key-id keeps, for every ticket, the candidates in the order presented**,
and is a permutation -/
theorem stable_sort_keeps_candidate_order (k : Bytes) (l : List Tok) :
    forKid k (sortToks .byKid l) = forKid k l ∧ (sortToks .byKid l).Perm l :=
  ⟨sortToks_forKid k l, sortToks_perm _ l⟩

/-- so handing the sorted candidates to the verifier changes nothing -/
theorem sorting_is_invisible {μ : Str → Option M} (V : Bundle.Oracle) (hV : PerKidFun μ V) (p : Tok) (ds : List Tok)
    (hp : Synced μ p) (hd : ∀ d ∈ ds, Synced μ d) : V p (sortToks .byKid ds) = V p ds :=
  sorted_same V hV p ds hp hd

/-- **key_injective.**  Token text cannot contain the separator (text of a parsed token is a part
between commas; text of a minted token is a label, `_`, base64 — `Base64.encode_alphabet`), and over
comma-free text equal keys mean: the same permission text, the same sequence of sorted candidate
texts, hence (text determines the key-id) for every ticket the same ordered candidate texts -/
theorem key_injective {μ : Str → Option M} (p p' : Tok) (ds ds' : List Tok) (hp : NoComma p.str) (hp' : NoComma p'.str)
    (hd : ∀ d ∈ ds, NoComma d.str) (hd' : ∀ d ∈ ds', NoComma d.str)
    (sd : ∀ d ∈ ds, Synced μ d) (sd' : ∀ d ∈ ds', Synced μ d) (h : keyOf .byKid p ds = keyOf .byKid p' ds') :
    p.str = p'.str ∧ (sortToks .byKid ds).map Tok.str = (sortToks .byKid ds').map Tok.str ∧
    ∀ k, (forKid k ds).map Tok.str = (forKid k ds').map Tok.str := by
  obtain ⟨e1, e2⟩ := Lemmas.BundleL.key_injective .byKid p p' ds ds' hp hp' hd hd' h
  exact ⟨e1, e2, perKid_of_sorted ds ds' sd sd' e2⟩

/-- **same_nonce_variants_have_distinct_keys.**  Two permission tokens with different text never share
a key, whatever candidates they are presented with and however much else they have in common — a
token, its attenuated variants and a copy with a corrupted tail all carry the same nonce, but each
has its own text, hence its own cache entries: a result stored for one (`failures_not_cached`: under
the key of the very query that was accepted) is never handed out for another -/
theorem same_nonce_variants_have_distinct_keys (ko : KeyOrder) (p p' : Tok) (ds ds' : List Tok)
    (hp : NoComma p.str) (hp' : NoComma p'.str) (hd : ∀ d ∈ ds, NoComma d.str) (hd' : ∀ d ∈ ds', NoComma d.str)
    (hne : p.str ≠ p'.str) : keyOf ko p ds ≠ keyOf ko p' ds' :=
  fun h => hne (Lemmas.BundleL.key_injective ko p p' ds ds' hp hp' hd hd' h).1

/-- token text never contains the separator: parsed tokens, minted tokens -/
theorem token_text_has_no_separator :
    (∀ hdr, ∀ t ∈ parseToks hdr, NoComma t.str) ∧ (∀ bytes, NoComma (macString bytes)) :=
  ⟨parseToks_clean, macString_clean⟩

/-- token text determines the macaroon (hence the key-id): by construction for parsed tokens; for a
minted token the text decodes to the printed bytes, so what is left is the codec round trip -/
theorem token_text_determines_macaroon :
    (∀ hdr, ∀ t ∈ parseToks hdr, Synced macOf t) ∧ (∀ bytes, macOf (macString bytes) = Concrete.decode bytes) ∧
    (∀ {μ : Str → Option M} {t : Tok}, Synced μ t → kidOf t = kidOfText μ t.str) :=
  ⟨parseToks_synced, macOf_macString, fun h => kidOf_synced h⟩

/-- **minted tokens are synced**: whatever `Attenuate` and `Discharge` put into a bundle has, as its
macaroon, what its text decodes to — the model defines them exactly where the printed text reads back
as the stored token -/
theorem minted_tokens_are_synced : MintSynced macOf := mintSynced_macOf

/-- what "defined" means for an attenuation: the text is the printed encoding of `Add`'s result on the
clone, and decoding that encoding gives back the macaroon that is stored -/
theorem attenuation_reads_back (items : List (AddItem Bytes)) (m : M) (s' : Str) (m' : M) (added : CS)
    (h : Bundle.attMac items m = some (s', m', added)) :
    ∃ bytes, s' = macString bytes ∧ Concrete.decode bytes = some m' ∧ macOf s' = some m' := by
  obtain ⟨_, bytes, _, _, _, rfl, _, hdec⟩ := attMac_spec items m s' m' added h
  exact ⟨bytes, rfl, hdec, by rw [macOf_macString]; exact hdec⟩

/-- **why the guard (or a well-formedness hypothesis) is needed.**  A token holding the resource set
`[("b",1),("a",1)]` and one holding `[("a",1),("b",1)]` print the same text (the encoder sorts); the
text reads back as the sorted one; the two are different values.  An attenuation that stored the
caller's unsorted list next to that text would break "the macaroon is what the text decodes to" for
EVERY decoder — no `μ` is synced with both — and with it the value-level transparency statement (the
cached and the direct run could hold different representations of one caveat set).  `readsBack`
rejects exactly the unsorted one. -/
theorem unsorted_items_break_value_transparency :
    (Concrete.encode unsortedTok).2 = (Concrete.encode sortedTok).2 ∧
    (Concrete.encode unsortedTok).2.bind Concrete.decode = some sortedTok ∧
    unsortedTok ≠ sortedTok ∧
    (∀ bytes, (Concrete.encode unsortedTok).2 = some bytes → readsBack bytes unsortedTok = false ∧ readsBack bytes sortedTok = true) ∧
    (∀ (μ : Str → Option M) (s : Str), ¬ (Synced μ (.unverified s unsortedTok) ∧ Synced μ (.unverified s sortedTok))) :=
  unsorted_resource_set_does_not_read_back

open Macaroon.Lemmas.ReadsBack in
/-- **wf_along_histories.**  `WFS s`: every macaroon token of every bundle of the system is well formed
(`wfMac`, decidable).  It holds of the parsed initial state if the parsed tokens are well formed (all
are, except the two kinds of `Props/C13.lean: parsed_token_cases`, on which `Attenuate` fails before the
guard), and EVERY step of a history keeps it, whatever its arguments and whether it succeeds. -/
theorem wf_along_histories (P : Params) :
    (∀ pl hdrs, (∀ hdr ∈ hdrs, ∀ t ∈ parseToks hdr, ∀ m, t.mac? = some m → wfMac m = true) → WFS (init pl hdrs)) ∧
    (∀ now s op, WFS s → WFS (step P now s op).1) :=
  ⟨fun pl hdrs h => wf_init pl hdrs h, fun now s op h => wf_step P now s op h⟩

open Macaroon.Lemmas.ReadsBack in
/-- **guard_never_the_reason.**  In a well-formed system an `attenuate` step with well-formed arguments
returns no error whenever `Add` succeeds within the size limits on every permission token of the
bundle, and a `discharge` step returns no error whenever every ticket in scope opens, the callback
answers with well-formed caveats and `Add` succeeds within the size limits: the `readsBack` guard of
the model is never what makes an operation fail. -/
theorem guard_never_the_reason (P : Params) (now : Int) (s : Sys) (hs : WFS s) (i : Nat) :
    (∀ items, (∀ it ∈ items, itemOk it = true) →
      (∀ t ∈ (s.get i).ts, isPermAt (s.get i).permLoc t = true → ∀ m, t.mac? = some m → AttOk items m) →
      (step P now s (.attenuate i items)).2 = .flag false) ∧
    (∀ loc ka cb rnds,
      (∀ tr ∈ Bundle.withRnd (Bundle.ticketsInScope P.scope (s.get i).permLoc (s.get i).ts loc) rnds, DisOk loc ka cb tr.1 tr.2) →
      (step P now s (.discharge i loc ka cb rnds)).2 = .flag false) := by
  constructor
  · intro items hi h
    have := Lemmas.ReadsBack.attenuate_defined_of_wellformed (s.get i) items hi
      (fun t ht hp m hm => ⟨wfs_get hs i t ht m hm, h t ht hp m hm⟩)
    show Out.flag ((s.get i).attenuate items).2 = .flag false
    rw [this]
  · intro loc ka cb rnds h
    have := Lemmas.ReadsBack.discharge_defined_of_wellformed P.scope (s.get i) loc ka cb rnds h
    show Out.flag (Bundle.dischargeWith P.scope (s.get i) loc ka cb rnds).2 = .flag false
    rw [this]

/-- **hit_conditions.**  A cached acceptance is used only if an entry with exactly that key is
present and `now < expiry`; and (key injectivity) only for the identical permission text presented
with, for every ticket, the identical ordered candidate texts as the query that stored it -/
theorem hit_conditions {μ : Str → Option M} (c : Store) (now : Int) (p : Tok) (ds : List Tok) (cs : CS)
    (h : c.hit now (keyOf .byKid p ds) = some cs) :
    ∃ e ∈ c, e.key = keyOf .byKid p ds ∧ e.cs = cs ∧ now < e.expiry ∧
      ∀ p₀ ds₀, e.key = keyOf .byKid p₀ ds₀ → NoComma p.str → NoComma p₀.str → (∀ d ∈ ds, NoComma d.str) →
        (∀ d ∈ ds₀, NoComma d.str) → (∀ d ∈ ds, Synced μ d) → (∀ d ∈ ds₀, Synced μ d) →
        p.str = p₀.str ∧ ∀ k, (forKid k ds).map Tok.str = (forKid k ds₀).map Tok.str := by
  obtain ⟨e, he, hk, hcs, hexp⟩ := hit_some h
  refine ⟨e, he, hk, hcs, hexp, ?_⟩
  intro p₀ ds₀ hk0 hp hp0 hd hd0 sd sd0
  obtain ⟨e1, _, e3⟩ := key_injective (μ := μ) p p₀ ds ds₀ hp hp0 hd hd0 sd sd0 (hk.symm.trans hk0)
  exact ⟨e1, e3⟩

/-- an expired entry is never used -/
theorem expired_entry_not_used (c : Store) (now : Int) (k : Str) (h : ∀ e ∈ c, e.key = k → e.expiry ≤ now) :
    c.hit now k = none := by
  cases hh : c.hit now k with
  | none => rfl
  | some cs =>
    obtain ⟨e, he, hk, _, hexp⟩ := hit_some hh
    exact absurd hexp (Int.not_lt.mpr (h e he hk))

/-- **hit_does_not_extend_life.**  "Reused only until it expires", at full strength:
(1) a cached verification leaves every entry it HITS exactly as it is — only queries that miss store
anything — so a hit never renews an expiry;
(2) after any history from the empty store every entry was stored at one of the history's instants
`t` (by `failures_not_cached`: after a miss accepted by the verifier) and expires at `t + ttl`;
(3) hence whenever an entry is used at `now`, some step at an instant `t` with `now < t + ttl` stored
it: an entry stored at `t₀` is never used at any `now ≥ t₀ + ttl`, whatever hits happened in between,
unless it was stored again after a miss. -/
theorem hit_does_not_extend_life (P : Params) (pl : Bytes) (hdrs : List Str) (hist : List (Int × Op)) :
    (∀ (c : Store) (now : Int) (b : Bundle) (k : Str) (cs : CS), c.hit now k = some cs →
      (verifyCached P.order P.V c now P.ttl b).2.get k = c.get k) ∧
    (∀ e ∈ (runSys P hist (init pl hdrs)).store, ∃ t op, (t, op) ∈ hist ∧ e.expiry = t + P.ttl) ∧
    (∀ now k cs, (runSys P hist (init pl hdrs)).store.hit now k = some cs →
      ∃ t op, (t, op) ∈ hist ∧ now < t + P.ttl) := by
  have h2 : ∀ e ∈ (runSys P hist (init pl hdrs)).store, ∃ t op, (t, op) ∈ hist ∧ e.expiry = t + P.ttl := by
    intro e he
    rcases store_run P hist _ e he with h | h
    · cases h
    · exact h
  refine ⟨fun c now b k cs h => hit_leaves_entry P.order P.V c now P.ttl b k cs h, h2, ?_⟩
  intro now k cs hh
  obtain ⟨e, he, _, _, hexp⟩ := hit_some hh
  obtain ⟨t, op, hm, ht⟩ := h2 e he
  exact ⟨t, op, hm, ht ▸ hexp⟩

/-- **failures_not_cached.**  Whatever a verification adds to the store is an acceptance by the
underlying verifier of a query of this very call, stored under that query's key, expiring `ttl`
later; a rejection stores nothing -/
theorem failures_not_cached (ko : KeyOrder) (V : Bundle.Oracle) (c : Store) (now ttl : Int) (b : Bundle) (e : Entry)
    (h : e ∈ newEntries ko V c now ttl (queries b)) :
    ∃ q ∈ queries b, V q.1 (sortToks ko q.2) = some e.cs ∧ e.key = keyOf ko q.1 q.2 ∧ e.expiry = now + ttl := by
  obtain ⟨q, hq, _, hv, hk, hexp⟩ := mem_newEntries h
  exact ⟨q, hq, hv, hk, hexp⟩

/-- failures never turn into acceptances: a token the cached verification marks verified is one the
underlying verifier accepts, with the same caveats -/
theorem cached_acceptance_is_real {μ : Str → Option M} (V : Bundle.Oracle) (hV : PerKidFun μ V) (c : Store) (hc : Sound μ V c)
    (now ttl : Int) (b : Bundle) (hb : Clean b) (sb : SyncedB μ b) (hinv : VerifiedArePerm b) (cs : CS)
    (h : cs ∈ (verifyCached .byKid V c now ttl b).1.verifiedSets) :
    ∃ t ∈ b.ts, isPermAt b.permLoc t = true ∧ V t (dischargesOf b.permLoc b.ts t) = some cs := by
  rw [verifyCached_fst V hV c hc now ttl b hb sb] at h
  exact (verifiedSets_verifyBy b V hinv cs).mp h

/-- **bundles_isolated.**  What one bundle does afterwards (verifying, attenuating, discharging,
filtering) never changes any other bundle: after a step that names bundle `i` (or none) every
bundle `j ≠ i` is exactly what it was -/
theorem bundles_isolated (P : Params) (now : Int) (s : Sys) (op : Op) (j : Nat) (h : opTarget op ≠ some j) :
    (step P now s op).1.get j = s.get j :=
  step_isolated P now s op j h

/-- **F7, negative witness** (the code as found).  Two bundles parsed separately from the same header
(one permission token without third-party caveats) are verified through one cache, then the FIRST is
attenuated: the header the SECOND prints has changed.  Holds for every such token the verifier
accepts, every attenuation that succeeds and changes the token's text, every `ttl > 1`; with the
repaired semantics the same history prints the untouched token. -/
theorem f7_sharing_not_transparent (P : Params) (pl : Bytes) (s : Str) (m : M) (cs : CS) (items : List (AddItem Bytes))
    (s' : Str) (m' : M) (added : CS)
    (hloc : m.loc = pl) (hnt : ticketsOf m = []) (hV : P.V (.unverified s m) [] = some cs)
    (hatt : Bundle.attMac items m = some (s', m', added)) (hne : s' ≠ s) (httl : 1 < P.ttl) :
    hrun .share P (f7History items) (f7Init pl s m)
      ≠ hrun .share P ((f7History items).map fun x => (x.1, x.2.direct)) (f7Init pl s m) ∧
    ((hrun .share P (f7History items) (f7Init pl s m)).map (·.1)).getLast?
      = some (.text (headerOf [.verified s' m' (cs ++ added)])) ∧
    ((hrun .copy P (f7History items) (f7Init pl s m)).map (·.1)).getLast?
      = some (.text (headerOf [.verified s m cs])) :=
  ⟨Lemmas.BundleL.f7_sharing_not_transparent P pl s m cs items s' m' added hloc hnt hV hatt hne httl,
   f7_share P pl s m cs items s' m' added hloc hnt hV hatt httl,
   f7_copy P pl s m cs items s' m' added hloc hnt hV hatt httl⟩

/-! ### the object level refines the value level -/

/-- **hrun_copy_refines.**  For every history, parameters and list of headers: the object-level model
(a heap of `*UnverifiedMacaroon`s and `Caveats` cells, bundles as slices of pointers, cache entries
pointing to cells) with the repaired, copying cache produces exactly the trace of the value-level
system — the same output of every step and the same state of EVERY bundle after every step. -/
theorem hrun_copy_refines (P : Params) (hist : List (Int × Op)) (pl : Bytes) (hdrs : List Str) :
    hrun .copy P hist (hinit pl hdrs) = run P hist (init pl hdrs) :=
  Lemmas.Refine.hrun_copy_refines P hist pl hdrs

/-- the heap invariant behind it (`SOK`: every bundle owns its objects — all references point into
the heap, no object is referenced from two slots; no two bundles share an object; the `Caveats` cell
of a cache entry is referenced by no bundle): it holds of every parsed initial state, every step keeps
it, and under it one object-level step IS one value-level step on the denoted system `abs s`
(the bundles' views, the store with the contents of the cells).  The invariant is what makes the
`memo` of `tokens.Verify` (results keyed by pointer) irrelevant: no pointer occurs twice. -/
theorem hstep_refines (P : Params) (pl : Bytes) (hdrs : List Str) :
    Lemmas.Refine.SOK (hinit pl hdrs) ∧ Lemmas.Refine.abs (hinit pl hdrs) = init pl hdrs ∧
    ∀ (now : Int) (s : HSys) (op : Op), Lemmas.Refine.SOK s →
      Lemmas.Refine.abs (hstep .copy P now s op).1 = (step P now (Lemmas.Refine.abs s) op).1 ∧
      (hstep .copy P now s op).2 = (step P now (Lemmas.Refine.abs s) op).2 ∧
      Lemmas.Refine.SOK (hstep .copy P now s op).1 :=
  ⟨Lemmas.Refine.hinit_sok pl hdrs, Lemmas.Refine.hinit_abs pl hdrs, fun now s op ok => Lemmas.Refine.hstep_refines P now s op ok⟩

/-- from ANY object-level state that satisfies the invariant (not only a parsed one) -/
theorem hrun_refines_from (P : Params) (hist : List (Int × Op)) (s : HSys) (ok : Lemmas.Refine.SOK s) :
    hrun .copy P hist s = run P hist (Lemmas.Refine.abs s) :=
  Lemmas.Refine.hrun_refines P hist s ok

/-- **cache_transparent on objects**: the headline theorem, stated about the object-level model -/
theorem cache_transparent_on_objects (P : Params) (hO : P.order = .byKid) (hV : PerKidFun macOf P.V)
    (pl : Bytes) (hdrs : List Str) (hist : List (Int × Op)) :
    hrun .copy P hist (hinit pl hdrs) = hrun .copy P (hist.map fun x => (x.1, x.2.direct)) (hinit pl hdrs) := by
  rw [hrun_copy_refines, hrun_copy_refines]
  exact cache_transparent P hO hV pl hdrs hist

/-- **bundles_isolated on objects.**  In an object-level state that satisfies the invariant, a step
that names bundle `i` (or none) leaves every bundle `j ≠ i` denoting exactly the tokens it denoted:
neither its slice nor any object it points to is written. -/
theorem bundles_isolated_on_objects (P : Params) (now : Int) (s : HSys) (op : Op) (j : Nat) (ok : Lemmas.Refine.SOK s)
    (h : opTarget op ≠ some j) :
    ((hstep .copy P now s op).1.get j).view (hstep .copy P now s op).1.heap = (s.get j).view s.heap :=
  Lemmas.Refine.hstep_isolated P now s op j ok h

/-- **F7 at object level: sharing is NOT a refinement.**  The witness state satisfies the invariant (two
bundles parsed separately share nothing); with the cache as found (`.share`) the object-level run is
not the value-level run of the denoted system, with the copying cache it is. -/
theorem f7_share_not_refinement (P : Params) (pl : Bytes) (s : Str) (m : M) (cs : CS) (items : List (AddItem Bytes))
    (s' : Str) (m' : M) (added : CS)
    (hloc : m.loc = pl) (hnt : ticketsOf m = []) (hV : P.V (.unverified s m) [] = some cs)
    (hatt : Bundle.attMac items m = some (s', m', added)) (hne : s' ≠ s) (httl : 1 < P.ttl) :
    Lemmas.Refine.SOK (f7Init pl s m) ∧
    hrun .share P (f7History items) (f7Init pl s m) ≠ run P (f7History items) (Lemmas.Refine.abs (f7Init pl s m)) ∧
    hrun .copy P (f7History items) (f7Init pl s m) = run P (f7History items) (Lemmas.Refine.abs (f7Init pl s m)) :=
  Lemmas.Refine.f7_share_not_refinement P pl s m cs items s' m' added hloc hnt hV hatt hne httl

/-- the initial state of the witness is what parsing one header twice gives -/
theorem f7_initial_state (pl : Bytes) (h : Str) (s : Str) (m : M) (hp : parseToks h = [.unverified s m]) (hloc : m.loc = pl) :
    hinit pl [h, h] = f7Init pl s m :=
  f7Init_is_parsed pl h s m hp hloc

/-- **The text-sorted key, negative witness** (the code as found).  With the candidates sorted by
text even a cold cache changes the answer: the inner verifier is handed `[d₂, d₁]` although the bundle
presents `[d₁, d₂]`; whenever the verifier tells these apart — two acceptable discharges for one
ticket imposing different caveats: the first one wins — cached and direct verification differ.  With
the stable sort by key-id two candidates for one ticket stay in the order presented. -/
theorem text_sorted_key_not_transparent (V : Bundle.Oracle) (now : Int) (p d₁ d₂ : Tok)
    (hlt : strLt d₂.str d₁.str = true) (hV : V p [d₂, d₁] ≠ V p [d₁, d₂]) :
    cachedOracle .byText V [] now p [d₁, d₂] ≠ V p [d₁, d₂] ∧
    (kidOf d₁ = kidOf d₂ → cachedOracle .byKid V [] now p [d₁, d₂] = V p [d₁, d₂]) := by
  refine ⟨Lemmas.BundleL.text_sorted_key_not_transparent V now p d₁ d₂ hlt hV, ?_⟩
  intro hk
  simp only [cachedOracle, Store.hit, Store.get, List.find?_nil, kid_sorted_keeps_candidates d₁ d₂ hk]

/-! ### non-vacuity -/

/-- a verifier that depends on the permission text only -/
def toyV : Bundle.Oracle := fun p _ => if p.str.head? = some 'f' then some [] else none

example (μ : Str → Option M) : PerKidFun μ toyV := by
  intro p p' ds ds' _ _ _ _ h _
  simp [toyV, h]

/-- the verifier hypothesis holds for every key resolver -/
example (R : Bundle.Resolver) : PerKidFun macOf R.oracle := resolver_perKidFun R macOf

/-- every hypothesis of the generic theorem is met for the real decoder … -/
example (R : Bundle.Resolver) : PerKidFun macOf R.oracle ∧ MintSynced macOf ∧ (∀ pl hdrs, Inv macOf R.oracle (init pl hdrs)) :=
  ⟨resolver_perKidFun R macOf, mintSynced_macOf, fun pl hdrs => inv_init _ pl hdrs⟩

/-- … and the headline theorem applies as it stands to a concrete history over two bundles (any two
headers, any key resolver): a cached verification of each (the second one a hit when the headers
agree), an attenuation with a resource-set caveat, a discharge with a callback that adds a caveat, a
re-verification after the entry expired, evictions and header reads in between -/
def sampleHistory : List (Int × Op) :=
  [(0, .verify 0 .cached), (1, .verify 1 .cached), (2, .validate 1 []),
   (3, .attenuate 0 [.plain (.volumes [([97], 1), ([98], 1)]), .plain (.action 1)]),
   (4, .header 0), (5, .discharge 1 [66] [1, 2, 3] (fun _ => some [.plain (.action 1)]) [[7]]),
   (6, .evict ['k']), (20, .verify 0 .cached), (21, .verify 1 .direct), (22, .filter 1 .isVerified), (23, .header 1)]

example (R : Bundle.Resolver) (pl : Bytes) (h₁ h₂ : Str) :
    run { V := R.oracle, ttl := 10 } sampleHistory (init pl [h₁, h₂])
      = run { V := R.oracle, ttl := 10 } (sampleHistory.map fun x => (x.1, x.2.direct)) (init pl [h₁, h₂]) :=
  cache_transparent_key_resolver R 10 .thatLocation pl [h₁, h₂] sampleHistory

/-- the invariant holds initially, for any headers -/
example (V : Bundle.Oracle) (pl : Bytes) (hdrs : List Str) : Inv macOf V (init pl hdrs) := inv_init V pl hdrs

/-- an order-sensitive verifier (accepts iff the FIRST candidate's text is `b`) and two candidates
`b`, `a` (no key-id: both answer the same "ticket"): sorted by text the cache asks about `[a, b]` -/
def firstIsB : Bundle.Oracle := fun _ ds => if (ds.head?.map Tok.str) = some ['b'] then some [] else none

example : cachedOracle .byText firstIsB [] 0 (.nonMac ['p']) [.nonMac ['b'], .nonMac ['a']]
    ≠ firstIsB (.nonMac ['p']) [.nonMac ['b'], .nonMac ['a']] :=
  (text_sorted_key_not_transparent firstIsB 0 (.nonMac ['p']) (.nonMac ['b']) (.nonMac ['a']) (by decide)
    (by simp [firstIsB, Tok.str])).1

example : cachedOracle .byKid firstIsB [] 0 (.nonMac ['p']) [.nonMac ['b'], .nonMac ['a']]
    = firstIsB (.nonMac ['p']) [.nonMac ['b'], .nonMac ['a']] :=
  (text_sorted_key_not_transparent firstIsB 0 (.nonMac ['p']) (.nonMac ['b']) (.nonMac ['a']) (by decide)
    (by simp [firstIsB, Tok.str])).2 rfl

/-- an entry that is present and alive is hit -/
example : (Store.hit [⟨['k'], [], 10⟩] 5 ['k']).isSome = true := by decide
/-- … and not once it has expired (`now < expiry` is strict) -/
example : (Store.hit [⟨['k'], [], 10⟩] 10 ['k']).isSome = false := by decide

/-- the key of the model on small tokens: candidates (here without key-id, so in the order
presented), permission token last -/
example : keyOf .byKid (.nonMac ['p']) [.nonMac ['b'], .nonMac ['a']] = ['b', ',', 'a', ',', 'p'] := by decide
/-- the old key sorted them by text -/
example : keyOf .byText (.nonMac ['p']) [.nonMac ['b'], .nonMac ['a']] = ['a', ',', 'b', ',', 'p'] := by decide

/-- without the comma-free hypothesis the key is NOT injective -/
example : keyOf .byKid (.nonMac ['p']) [.nonMac ['a', ',', 'b']] = keyOf .byKid (.nonMac ['p']) [.nonMac ['a'], .nonMac ['b']] := by
  decide

end Macaroon.Props.C14

#print axioms Macaroon.Props.C14.cache_transparent
#print axioms Macaroon.Props.C14.cache_transparent_key_resolver
#print axioms Macaroon.Props.C14.cache_transparent_from
#print axioms Macaroon.Props.C14.invariant_step
#print axioms Macaroon.Props.C14.verify_cached_is_direct
#print axioms Macaroon.Props.C14.resolver_satisfies_hypothesis
#print axioms Macaroon.Props.C14.stable_sort_keeps_candidate_order
#print axioms Macaroon.Props.C14.sorting_is_invisible
#print axioms Macaroon.Props.C14.key_injective
#print axioms Macaroon.Props.C14.same_nonce_variants_have_distinct_keys
#print axioms Macaroon.Props.C14.token_text_has_no_separator
#print axioms Macaroon.Props.C14.token_text_determines_macaroon
#print axioms Macaroon.Props.C14.minted_tokens_are_synced
#print axioms Macaroon.Props.C14.attenuation_reads_back
#print axioms Macaroon.Props.C14.unsorted_items_break_value_transparency
#print axioms Macaroon.Props.C14.wf_along_histories
#print axioms Macaroon.Props.C14.guard_never_the_reason
#print axioms Macaroon.Props.C14.hit_conditions
#print axioms Macaroon.Props.C14.expired_entry_not_used
#print axioms Macaroon.Props.C14.hit_does_not_extend_life
#print axioms Macaroon.Props.C14.failures_not_cached
#print axioms Macaroon.Props.C14.cached_acceptance_is_real
#print axioms Macaroon.Props.C14.bundles_isolated
#print axioms Macaroon.Props.C14.f7_sharing_not_transparent
#print axioms Macaroon.Props.C14.f7_initial_state
#print axioms Macaroon.Props.C14.hrun_copy_refines
#print axioms Macaroon.Props.C14.hstep_refines
#print axioms Macaroon.Props.C14.hrun_refines_from
#print axioms Macaroon.Props.C14.cache_transparent_on_objects
#print axioms Macaroon.Props.C14.bundles_isolated_on_objects
#print axioms Macaroon.Props.C14.f7_share_not_refinement
#print axioms Macaroon.Props.C14.text_sorted_key_not_transparent
