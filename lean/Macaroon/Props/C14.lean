/-
C14 — the verification cache is transparent.

Theorems about `Macaroon/Bundle/Cache.lean`.  The positive theorems are about the value-level system
`Cache.Sys` (= the repaired semantics `.copy`: the cache stores a copy of the verified caveats and
hands out a fresh result around the requesting bundle's own token; histories over any number of
bundles, eviction of any entry at any time, `now` given per step, any `ttl`).  The code as found
(`.share`: the cache hands out the stored `*VerifiedMacaroon` itself, `Attenuate` writes through it)
is kept as the negative witness `f7_sharing_not_transparent` on the object-level system `Cache.HSys`.

Hypothesis on the underlying verifier (`StrFun`): its answer is a function of the permission token's
text and the MULTISET of the candidate discharges' texts.  This is what the cache key can see; the
key resolver satisfies it unless the header holds two DIFFERENT acceptable discharges for one ticket
(then the first in the order presented wins, and the cache — which sorts the candidates in place
before handing them on — may pick the other one: reported as a finding; `Cache.sortToks` models it).

Tie: family `cache` (every history is run through `bundle.NewVerificationCache` and directly; the
driver runs the object-level model with the requested semantics and, for `.copy`, also `Cache.Sys`,
reporting any difference).
-/
import Macaroon.Lemmas.Bundle

namespace Macaroon.Props.C14
open Macaroon Macaroon.Bundle Macaroon.Bundle.Cache Macaroon.Lemmas.BundleL

/-- **cache_transparent.**  For every history over any number of bundles — `verify bᵢ` (through the
cache or directly), `validate`, `attenuate`, `discharge`, `filter`, `header`, `tick`, eviction of
any entry — at arbitrary times, every `ttl`, and every underlying verifier that is a function of
(permission token text, discharge text multiset): replacing the cached verifier by the direct one
changes nothing.  The trace compared holds, for every step, what the operation returned (accepted /
failed and the verified caveats, the validate result, the printed header, the error flag) and the
complete state of EVERY bundle afterwards. -/
theorem cache_transparent (P : Params) (hV : StrFun P.V) (pl : Bytes) (hdrs : List Str) (hist : List (Int × Op)) :
    run P hist (init pl hdrs) = run P (hist.map fun x => (x.1, x.2.direct)) (init pl hdrs) :=
  run_transparent P hV hist _ _ rfl (inv_init P.V pl hdrs)

/-- the same from any state that satisfies the invariant (token text without commas, every stored
entry equal to the verifier's answer on its key), and with the direct run starting from ANY store -/
theorem cache_transparent_from (P : Params) (hV : StrFun P.V) (hist : List (Int × Op)) (s s' : Sys)
    (hb : s.bundles = s'.bundles) (hinv : Inv P.V s) :
    run P hist s = run P (hist.map fun x => (x.1, x.2.direct)) s' :=
  run_transparent P hV hist s s' hb hinv

/-- the invariant behind it is kept by every step: every live entry equals the direct verifier's
answer on every query that maps to its key -/
theorem invariant_step (P : Params) (hV : StrFun P.V) (now : Int) (s : Sys) (hinv : Inv P.V s) (op : Op) :
    Inv P.V (step P now s op).1 :=
  (step_cached_vs_direct P hV now s hinv op).2.2

/-- one cached verification returns what the direct one returns -/
theorem verify_cached_is_direct (V : Bundle.Oracle) (hV : StrFun V) (c : Store) (hc : Sound V c) (now ttl : Int)
    (b : Bundle) (hb : Clean b) : (verifyCached V c now ttl b).1 = b.verifyBy V :=
  verifyCached_fst V hV c hc now ttl b hb

/-- **key_injective.**  Token text cannot contain the separator (text of a parsed token is a part
between commas; text of a minted token is a label, `_`, base64 — `Base64.encode_alphabet`), and over
comma-free strings the key determines the permission string and the multiset of discharge strings -/
theorem key_injective (p p' : Str) (ds ds' : List Str) (hp : NoComma p) (hp' : NoComma p')
    (hd : ∀ d ∈ ds, NoComma d) (hd' : ∀ d ∈ ds', NoComma d) (h : key p ds = key p' ds') :
    p = p' ∧ ds.Perm ds' :=
  Lemmas.BundleL.key_injective p p' ds ds' hp hp' hd hd' h

/-- token text never contains the separator: parsed tokens, minted tokens, and every bundle of a history -/
theorem token_text_has_no_separator :
    (∀ hdr, ∀ t ∈ parseToks hdr, NoComma t.str) ∧ (∀ bytes, NoComma (macString bytes)) ∧
    (∀ (P : Params), StrFun P.V → ∀ now s op, Inv P.V s → AllClean (step P now s op).1) :=
  ⟨parseToks_clean, macString_clean, fun P hV now s op h => (step_cached_vs_direct P hV now s h op).2.2.1⟩

/-- **hit_conditions.**  A cached acceptance is used only if an entry with exactly that key is
present and `now < expiry`; and (key injectivity) only for the identical permission string presented
with the identical multiset of candidate discharge strings as the query that stored it -/
theorem hit_conditions (c : Store) (now : Int) (p : Tok) (ds : List Tok) (cs : CS) (h : c.hit now (keyOf p ds) = some cs) :
    ∃ e ∈ c, e.key = keyOf p ds ∧ e.cs = cs ∧ now < e.expiry ∧
      ∀ p₀ ds₀, e.key = keyOf p₀ ds₀ → NoComma p.str → NoComma p₀.str → (∀ d ∈ ds, NoComma d.str) →
        (∀ d ∈ ds₀, NoComma d.str) → p.str = p₀.str ∧ (ds.map Tok.str).Perm (ds₀.map Tok.str) := by
  obtain ⟨e, he, hk, hcs, hexp⟩ := hit_some h
  refine ⟨e, he, hk, hcs, hexp, ?_⟩
  intro p₀ ds₀ hk0 hp hp0 hd hd0
  exact Lemmas.BundleL.key_injective p.str p₀.str _ _ hp hp0
    (fun s hs => by obtain ⟨d, hd', rfl⟩ := List.mem_map.mp hs; exact hd d hd')
    (fun s hs => by obtain ⟨d, hd', rfl⟩ := List.mem_map.mp hs; exact hd0 d hd')
    (hk.symm.trans hk0)

/-- an expired entry is never used -/
theorem expired_entry_not_used (c : Store) (now : Int) (k : Str) (h : ∀ e ∈ c, e.key = k → e.expiry ≤ now) :
    c.hit now k = none := by
  cases hh : c.hit now k with
  | none => rfl
  | some cs =>
    obtain ⟨e, he, hk, _, hexp⟩ := hit_some hh
    exact absurd hexp (Int.not_lt.mpr (h e he hk))

/-- **failures_not_cached.**  Whatever a verification adds to the store is an acceptance by the
underlying verifier of a query of this very call, stored under that query's key, expiring `ttl`
later; a rejection stores nothing -/
theorem failures_not_cached (V : Bundle.Oracle) (c : Store) (now ttl : Int) (b : Bundle) (e : Entry)
    (h : e ∈ newEntries V c now ttl (queries b)) :
    ∃ q ∈ queries b, V q.1 (sortToks q.2) = some e.cs ∧ e.key = keyOf q.1 q.2 ∧ e.expiry = now + ttl := by
  obtain ⟨q, hq, _, hv, hk, hexp⟩ := mem_newEntries h
  exact ⟨q, hq, hv, hk, hexp⟩

/-- failures never turn into acceptances: a token the cached verification marks verified is one the
underlying verifier accepts, with the same caveats -/
theorem cached_acceptance_is_real (V : Bundle.Oracle) (hV : StrFun V) (c : Store) (hc : Sound V c) (now ttl : Int)
    (b : Bundle) (hb : Clean b) (hinv : VerifiedArePerm b) (cs : CS)
    (h : cs ∈ (verifyCached V c now ttl b).1.verifiedSets) :
    ∃ t ∈ b.ts, isPermAt b.permLoc t = true ∧ V t (dischargesOf b.permLoc b.ts t) = some cs := by
  rw [verifyCached_fst V hV c hc now ttl b hb] at h
  exact (verifiedSets_verifyBy b V hinv cs).mp h

/-- **bundles_isolated.**  What one bundle does afterwards (verifying, attenuating, discharging,
filtering) never changes any other bundle: after a step that names bundle `i` (or none) every
bundle `j ≠ i` is exactly what it was -/
theorem bundles_isolated (P : Params) (now : Int) (s : Sys) (op : Op) (j : Nat) (h : opTarget op ≠ some j) :
    (step P now s op).1.get j = s.get j :=
  step_isolated P now s op j h

/-- **F7, negative witness** (the code as found).  Two bundles parsed separately from the same header
(one permission token without third-party caveats) are verified through one cache, then the FIRST is
attenuated: the header the SECOND prints has changed.  Holds for every such token the verifier
accepts, every attenuation that succeeds and changes the token's text, every `ttl > 1`; with the
repaired semantics the same history prints the untouched token. -/
theorem f7_sharing_not_transparent (P : Params) (pl : Bytes) (s : Str) (m : M) (cs : CS) (items : List (AddItem Bytes))
    (s' : Str) (m' : M) (added : CS)
    (hloc : m.loc = pl) (hnt : ticketsOf m = []) (hV : P.V (.unverified s m) [] = some cs)
    (hatt : Bundle.attMac items m = some (s', m', added)) (hne : s' ≠ s) (httl : 1 < P.ttl) :
    hrun .share P (f7History items) (f7Init pl s m)
      ≠ hrun .share P ((f7History items).map fun x => (x.1, x.2.direct)) (f7Init pl s m) ∧
    ((hrun .share P (f7History items) (f7Init pl s m)).map (·.1)).getLast?
      = some (.text (headerOf [.verified s' m' (cs ++ added)])) ∧
    ((hrun .copy P (f7History items) (f7Init pl s m)).map (·.1)).getLast?
      = some (.text (headerOf [.verified s m cs])) :=
  ⟨Lemmas.BundleL.f7_sharing_not_transparent P pl s m cs items s' m' added hloc hnt hV hatt hne httl,
   f7_share P pl s m cs items s' m' added hloc hnt hV hatt httl,
   f7_copy P pl s m cs items s' m' added hloc hnt hV hatt httl⟩

/-- the initial state of the witness is what parsing one header twice gives -/
theorem f7_initial_state (pl : Bytes) (h : Str) (s : Str) (m : M) (hp : parseToks h = [.unverified s m]) (hloc : m.loc = pl) :
    hinit pl [h, h] = f7Init pl s m :=
  f7Init_is_parsed pl h s m hp hloc

/-! ### non-vacuity -/

/-- a verifier that is a function of the texts: accept exactly the permission tokens whose text
starts with `f`, returning no caveats -/
def toyV : Bundle.Oracle := fun p _ => if p.str.head? = some 'f' then some [] else none

example : StrFun toyV := by
  intro p p' ds ds' h _
  simp [toyV, h]

/-- the invariant holds initially, for any headers -/
example (V : Bundle.Oracle) (pl : Bytes) (hdrs : List Str) : Inv V (init pl hdrs) := inv_init V pl hdrs

/-- an entry that is present and alive is hit -/
example : (Store.hit [⟨['k'], [], 10⟩] 5 ['k']).isSome = true := by decide
/-- … and not once it has expired (`now < expiry` is strict) -/
example : (Store.hit [⟨['k'], [], 10⟩] 10 ['k']).isSome = false := by decide

/-- the key of the model on small strings: discharges sorted, permission token last -/
example : key ['p'] [['b'], ['a']] = ['a', ',', 'b', ',', 'p'] := by decide

/-- without the comma-free hypothesis the key is NOT injective -/
example : key ['p'] [['a', ',', 'b']] = key ['p'] [['a'], ['b']] := by decide

end Macaroon.Props.C14

#print axioms Macaroon.Props.C14.cache_transparent
#print axioms Macaroon.Props.C14.cache_transparent_from
#print axioms Macaroon.Props.C14.invariant_step
#print axioms Macaroon.Props.C14.verify_cached_is_direct
#print axioms Macaroon.Props.C14.key_injective
#print axioms Macaroon.Props.C14.token_text_has_no_separator
#print axioms Macaroon.Props.C14.hit_conditions
#print axioms Macaroon.Props.C14.expired_entry_not_used
#print axioms Macaroon.Props.C14.failures_not_cached
#print axioms Macaroon.Props.C14.cached_acceptance_is_real
#print axioms Macaroon.Props.C14.bundles_isolated
#print axioms Macaroon.Props.C14.f7_sharing_not_transparent
#print axioms Macaroon.Props.C14.f7_initial_state
