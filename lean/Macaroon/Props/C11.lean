/-
C11 — Wire encoding is canonical, stable, and what is signed is what is cleared (MessagePack half).

Property theorems only.  Model: `Caveat/Codec.lean` — the canonical encoders `encCav`, `encCavSet`,
`encNonce`, `encMac`, `encTicket` (= the Go encoder configured in `macaroon.go: encode`,
`CaveatSet.EncodeMsgpack`, `ResourceSet.EncodeMsgpack`) and the lenient decoders `decodeCavs`,
`decodeMac`, `decodeTicket` (= what `msgpack.Unmarshal` of vmihailenco/msgpack v5.3.5 accepts for
these Go types), over the byte-level model `Wire/Msgpack.lean`; tie: family `wire`.

* "deterministic, independent of map insertion and iteration order": `encode_order_independent*`
* "decoding then re-encoding reproduces the same bytes": `decode_encode*`, `encode_injective`
* "whatever byte string is accepted, the caveats are those whose canonical encoding the signature
  covers": `signed_is_cleared_bytes` (= `verify_tail` of the token layer + `reencode_fixed_point_mac`)
* "caveats of unknown type pass through byte-for-byte": `unregistered_passthrough`, `unknown_type_is_kept`

`fuel` is the nesting budget of the model's decoders (the Go code has none, see C12); every
statement holds for every budget that admits the value at all.  The JSON half is elsewhere.
-/
import Macaroon.Lemmas.Codec
import Macaroon.Lemmas.CodecVerify
import Macaroon.Lemmas.ConcreteCrypto

namespace Macaroon.Props.C11
open Macaroon Macaroon.Msgpack Macaroon.Codec Macaroon.Dec Macaroon.Lemmas

/-! ### encoding is independent of the order in which a resource set was filled -/

/-- A `ResourceSet[string]` built by any sequence of Go map assignments `m[k] = v` (last write wins)
has a normal form that depends only on the final map: two sequences that leave the same last value
under every key give the same normal form — whatever their length, order and overwritten entries. -/
theorem encode_order_independent (es₁ es₂ : List (Bytes × Action))
    (h : ∀ k, lastVal k es₁ = lastVal k es₂) : ofEntriesStr es₁ = ofEntriesStr es₂ :=
  ofEntriesStr_ext es₁ es₂ h

/-- the same for `ResourceSet[uint64]` (`flyio.Apps`) -/
theorem encode_order_independent_u64 (es₁ es₂ : List (UInt64 × Action))
    (h : ∀ k, lastVal k es₁ = lastVal k es₂) : ofEntriesU64 es₁ = ofEntriesU64 es₂ :=
  ofEntriesU64_ext es₁ es₂ h

/-- in particular: any two insertion (or iteration) orders of the same entries -/
theorem encode_order_independent_perm :
    (∀ es₁ es₂ : List (Bytes × Action), NodupKeys es₁ → es₁.Perm es₂ →
      ofEntriesStr es₁ = ofEntriesStr es₂) ∧
    (∀ es₁ es₂ : List (UInt64 × Action), NodupKeys es₁ → es₁.Perm es₂ →
      ofEntriesU64 es₁ = ofEntriesU64 es₂) :=
  ⟨ofEntriesStr_perm, ofEntriesU64_perm⟩

/-- the normal form IS the final map: looking a key up in it returns the last value assigned, its
keys are strictly increasing in the encoder's order, and normalising again changes nothing -/
theorem normal_form_is_the_map (es : List (Bytes × Action)) :
    (∀ k, (ofEntriesStr es).lookup k = lastVal k es) ∧ Sorted Bytes.lt (ofEntriesStr es) ∧
      ofEntriesStr (ofEntriesStr es) = ofEntriesStr es :=
  ⟨ofEntriesStr_lookup es, ofEntriesStr_sorted es, ofEntriesStr_idem es⟩

theorem normal_form_is_the_map_u64 (es : List (UInt64 × Action)) :
    (∀ k, (ofEntriesU64 es).lookup k = lastVal k es) ∧
      Sorted (fun a b => decide (a < b)) (ofEntriesU64 es) ∧
      ofEntriesU64 (ofEntriesU64 es) = ofEntriesU64 es :=
  ⟨ofEntriesU64_lookup es, ofEntriesU64_sorted es, ofEntriesU64_idem es⟩

/-- hence the encoded bytes (what is MACed) of every resource-set caveat are the same for any two
assignment sequences with the same final map -/
theorem encode_order_independent_bytes (es₁ es₂ : List (Bytes × Action))
    (h : ∀ k, lastVal k es₁ = lastVal k es₂) :
    encCav (.volumes es₁) = encCav (.volumes es₂) ∧
    encCav (.featureSet es₁) = encCav (.featureSet es₂) ∧
    encCav (.machines es₁) = encCav (.machines es₂) ∧
    encCav (.machineFeatureSet es₁) = encCav (.machineFeatureSet es₂) ∧
    encCav (.clusters es₁) = encCav (.clusters es₂) ∧
    encCav (.appFeatureSet es₁) = encCav (.appFeatureSet es₂) ∧
    encCav (.storageObjects es₁) = encCav (.storageObjects es₂) := by
  have e : strSetV es₁ = strSetV es₂ := by
    unfold strSetV; rw [ofEntriesStr_ext es₁ es₂ h]
  simp only [encCav, encBody, Cav.typ, e, and_self]

theorem encode_order_independent_bytes_u64 (es₁ es₂ : List (UInt64 × Action))
    (h : ∀ k, lastVal k es₁ = lastVal k es₂) : encCav (.apps es₁) = encCav (.apps es₂) := by
  have e : u64SetV es₁ = u64SetV es₂ := by
    unfold u64SetV; rw [ofEntriesU64_ext es₁ es₂ h]
  simp only [encCav, encBody, Cav.typ, e]

/-- `Bytes.lt` (Go's string `<`), the order the encoder sorts keys by, is a strict total order -/
theorem key_order_strict_total :
    (∀ a, Bytes.lt a a = false) ∧
    (∀ a b c, Bytes.lt a b = true → Bytes.lt b c = true → Bytes.lt a c = true) ∧
    (∀ a b, Bytes.lt a b = false → Bytes.lt b a = false → a = b) :=
  ⟨Bytes.lt_irrefl, Bytes.lt_trans, Bytes.lt_tri⟩

/-! ### decode after encode -/

/-- Decoding the encoding of a well-formed caveat set (every member `WFCav`, pair count within the
32-bit array header) returns the set; trailing bytes are ignored, as `msgpack.Unmarshal` does.
`encDepth cs` is the nesting depth of the encoding. -/
theorem decode_encode_cavs (cs : List (Cav Bytes)) (fuel : Nat) (rest : Bytes) (h : WFCavs cs)
    (hd : encDepth cs ≤ fuel) : decodeCavs fuel (encCavSet cs ++ rest) = some cs :=
  Macaroon.decode_encode_cavs cs fuel rest h hd

/-- per kind: the body tree of a well-formed caveat, decoded under the caveat's type number, is the caveat -/
theorem decode_encode_cav (c : Cav Bytes) (fuel : Nat) (h : WFCav c = true) (hd : cavDepth c ≤ fuel) :
    encBody c = enc (bodyV c) ∧ cavOfV fuel c.typ.toNat (bodyV c) = Except.ok c :=
  ⟨encBody_eq c h, cavOfV_bodyV c fuel h hd⟩

/-- tokens -/
theorem decode_encode_mac (m : WireMac) (fuel : Nat) (rest : Bytes) (h : WFMac m)
    (hd : 1 + max 1 (encDepth m.cavs) ≤ fuel) : decodeMac fuel (encMac m ++ rest) = some m :=
  Macaroon.decode_encode_mac m fuel rest h hd

/-- third-party tickets -/
theorem decode_encode_ticket (dk : Bytes) (cs : List (Cav Bytes)) (fuel : Nat) (rest : Bytes)
    (hk : dk.length < 2 ^ 32) (h : WFCavs cs) (hd : 1 + encDepth cs ≤ fuel) :
    decodeTicket fuel (encTicket dk cs ++ rest) = some (dk, cs) :=
  Macaroon.decode_encode_ticket dk cs fuel rest hk h hd

/-- the encoders are injective on well-formed values: a MAC over the encoding determines the
caveat (set, nonce) -/
theorem encode_injective :
    (∀ c₁ c₂ : Cav Bytes, WFCav c₁ = true → WFCav c₂ = true → encCav c₁ = encCav c₂ → c₁ = c₂) ∧
    (∀ cs₁ cs₂ : List (Cav Bytes), WFCavs cs₁ → WFCavs cs₂ → encCavSet cs₁ = encCavSet cs₂ → cs₁ = cs₂) ∧
    (∀ n₁ n₂ : Nonce, WFNonce n₁ = true → WFNonce n₂ = true → encNonce n₁ = encNonce n₂ → n₁ = n₂) :=
  ⟨encCav_injective, encCavSet_injective, encNonce_injective⟩

/-! ### re-encoding any accepted byte string reaches a fixed point in one hop -/

/-- For EVERY byte string `bs` the decoder accepts (non-canonical integer widths, signed for
unsigned, str for bin, nil for zero values, map-encoded structs with unknown keys, unsorted and
duplicate map keys, trailing bytes): if the decoded set can be encoded at all (`encodable`: no
unregistered caveat that lost its body) then it is well formed, and its canonical encoding decodes
to the very same set.  The canonical form may nest up to two levels deeper than `bs` (a struct
written as `nil` becomes an array holding a map), hence the budget `fuel + 2`. -/
theorem reencode_fixed_point (fuel : Nat) (bs : Bytes) (cs : List (Cav Bytes))
    (h : decodeCavs fuel bs = some cs) (henc : ∀ c ∈ cs, encodable c = true) :
    (∀ c ∈ cs, WFCav c = true) ∧
      ∀ fuel' rest, fuel + 2 ≤ fuel' → decodeCavs fuel' (encCavSet cs ++ rest) = some cs := by
  obtain ⟨hw, _, hr⟩ := reencode fuel bs cs h henc
  exact ⟨hw.1, hr⟩

/-- one hop canonicalises, further hops are the identity on the bytes: holder and verifier MAC the
same bytes -/
theorem reencode_stable (fuel : Nat) (bs : Bytes) (cs cs' : List (Cav Bytes))
    (h : decodeCavs fuel bs = some cs) (henc : ∀ c ∈ cs, encodable c = true)
    (fuel' : Nat) (hf : fuel + 2 ≤ fuel') (h' : decodeCavs fuel' (encCavSet cs) = some cs') :
    cs' = cs ∧ encCavSet cs' = encCavSet cs := by
  have := (reencode_fixed_point fuel bs cs h henc).2 fuel' [] hf
  rw [List.append_nil, h'] at this
  cases this
  exact ⟨rfl, rfl⟩

/-- the same for whole tokens: nonce, location, caveats and tail of every accepted token are within
the encoder's domain, and the canonical re-encoding decodes to the same token -/
theorem reencode_fixed_point_mac (fuel : Nat) (bs : Bytes) (m : WireMac)
    (h : decodeMac fuel bs = some m) (henc : ∀ c ∈ m.cavs, encodable c = true) :
    WFMac m ∧ ∀ fuel' rest, fuel + 2 ≤ fuel' → decodeMac fuel' (encMac m ++ rest) = some m :=
  reencode_mac fuel bs m h henc

/-- and for third-party tickets -/
theorem reencode_fixed_point_ticket (fuel : Nat) (bs dk : Bytes) (cs : List (Cav Bytes))
    (h : decodeTicket fuel bs = some (dk, cs)) (henc : ∀ c ∈ cs, encodable c = true) :
    dk.length < 2 ^ 32 ∧ WFCavs cs ∧
      ∀ fuel' rest, fuel + 2 ≤ fuel' → decodeTicket fuel' (encTicket dk cs ++ rest) = some (dk, cs) :=
  reencode_ticket fuel bs dk cs h henc

/-! ### the byte string standing on its own: `DecodeCaveats` also accepts an outermost `nil` -/

/-- everything `decodeCavs` accepts, `DecodeCaveats` on the bare byte string accepts with the same result -/
theorem decodeCavsTopLevel_of_decodeCavs (fuel : Nat) (bs : Bytes) (cs : List (Cav Bytes))
    (h : decodeCavs fuel bs = some cs) : decodeCavsTopLevel fuel bs = some cs := by
  unfold decodeCavsTopLevel
  split
  · next r hd =>
    unfold decodeCavs at h
    rw [hd] at h
    simp [Dec.cavsOfV, Dec.fail, Except.toOption] at h
  · exact h

/-- and the only byte strings it accepts beyond those begin with a wire `nil`, read as the empty set -/
theorem decodeCavsTopLevel_cases (fuel : Nat) (bs : Bytes) (cs : List (Cav Bytes))
    (h : decodeCavsTopLevel fuel bs = some cs) :
    decodeCavs fuel bs = some cs ∨ (cs = [] ∧ ∃ rest, dec fuel bs = some (.nil, rest)) := by
  unfold decodeCavsTopLevel at h
  split at h
  · next r hd =>
    right
    exact ⟨by cases h; rfl, r, hd⟩
  · exact Or.inl h

/-- `reencode_fixed_point` for `DecodeCaveats` as a caller sees it (outermost `nil` included): whatever
byte string is accepted, the decoded set is well formed and its canonical encoding — what gets MACed —
decodes to the very same set -/
theorem reencode_fixed_point_top (fuel : Nat) (bs : Bytes) (cs : List (Cav Bytes))
    (h : decodeCavsTopLevel fuel bs = some cs) (henc : ∀ c ∈ cs, encodable c = true) :
    (∀ c ∈ cs, WFCav c = true) ∧
      ∀ fuel' rest, fuel + 2 ≤ fuel' → decodeCavsTopLevel fuel' (encCavSet cs ++ rest) = some cs := by
  rcases decodeCavsTopLevel_cases fuel bs cs h with h' | ⟨rfl, _⟩
  · obtain ⟨hw, hr⟩ := reencode_fixed_point fuel bs cs h' henc
    exact ⟨hw, fun fuel' rest hf => decodeCavsTopLevel_of_decodeCavs _ _ _ (hr fuel' rest hf)⟩
  · refine ⟨by simp, fun fuel' rest hf => ?_⟩
    apply decodeCavsTopLevel_of_decodeCavs
    exact decode_encode_cavs [] fuel' rest ⟨by simp, by decide⟩ (by
      have : encDepth [] = 1 := by decide
      omega)

/-- the outermost `nil` is the empty set, and the empty set is written as the empty array -/
theorem top_level_nil_is_empty_set (fuel : Nat) (rest : Bytes) (hf : 0 < fuel) :
    decodeCavsTopLevel fuel (0xc0 :: rest) = some [] ∧ decodeCavs fuel (0xc0 :: rest) = none ∧
      encCavSet [] = [0x90] := by
  obtain ⟨n, rfl⟩ : ∃ n, fuel = n + 1 := ⟨fuel - 1, by omega⟩
  refine ⟨?_, ?_, by decide⟩
  · simp [decodeCavsTopLevel, dec]
  · simp [decodeCavs, dec, Dec.cavsOfV, Dec.fail, Except.toOption]

/-! ### unknown caveat types pass through byte for byte -/

/-- For a type number that is not registered and a body `v` (any well-formed, non-nil value the
untyped decoder accepts): decoding the pair yields `unregistered typ raw` with `raw` EXACTLY the
bytes of the body as they stood on the wire (`enc v`, which by `Msgpack.enc_dec` is the consumed
input, whatever its widths), and encoding writes the compact type number followed by `raw`
verbatim — the body is never re-encoded. -/
theorem unregistered_passthrough (typ : UInt64) (v : V) (fuel : Nat)
    (ht : registered typ.toNat = false) (hw : WF v = true) (hn : v ≠ .nil) (hg : genericOk v = true) :
    cavOfV fuel typ.toNat v = Except.ok (.unregistered typ (enc v)) ∧
    WFCav (.unregistered typ (enc v)) = true ∧
    encBody (.unregistered typ (enc v)) = enc v ∧
    encCav (.unregistered typ (enc v)) = 0x92 :: (enc (V.ofUint typ.toNat) ++ enc v) := by
  refine ⟨?_, ?_, encBody_unregistered _ _, encCav_unregistered _ _⟩
  · have := cavOfV_unregistered fuel typ.toNat v ht hn hg
    rwa [u64_ofNat_toNat] at this
  · exact (wfCav_unregistered_iff typ (enc v)).mpr ⟨ht, v, rfl, hw, hn, hg⟩

/-- the whole round trip at the byte level: type number, then the body bytes, in; the same bytes out -/
theorem unregistered_passthrough_bytes (typ : UInt64) (v : V) (fuel : Nat) (rest : Bytes)
    (ht : registered typ.toNat = false) (hw : WF v = true) (hn : v ≠ .nil) (hg : genericOk v = true)
    (hd : depth v < fuel) :
    decodeCavs fuel (0x92 :: (enc (V.ofUint typ.toNat) ++ enc v) ++ rest)
      = some [.unregistered typ (enc v)] ∧
    encCavSet [.unregistered typ (enc v)] = 0x92 :: (enc (V.ofUint typ.toNat) ++ enc v) := by
  rw [← encCav_unregistered, ← encCav_eq_set]
  exact ⟨decodeCavs_unregistered typ v fuel rest ht hw hn hg hd, rfl⟩

/-- at any position of a set and for any accepted spelling `tv` of the type number -/
theorem unregistered_passthrough_in_set (fuel t : Nat) (tv v : V) (rest : List V)
    (htv : asUint 64 (some tv) = Except.ok t) (ht : registered t = false)
    (hn : v ≠ .nil) (hg : genericOk v = true) :
    cavPairs fuel (tv :: v :: rest) =
      (cavPairs fuel rest >>= fun cs => pure (.unregistered (UInt64.ofNat t) (enc v) :: cs)) :=
  cavPairs_unregistered fuel t tv v rest htv ht hn hg

/-- no caveat is ever dropped, invented or retyped: the array header of an accepted byte string
declared exactly two elements — type and body — per returned caveat, of whatever type; the elements
pair up as (type number, body) (`wirePairs`: the type read as a `uint64` from any integer encoding),
and position by position (`AllKept`) the returned caveat has the type number of its pair: under a
registered number the caveat of that kind, under any other number `unregistered typ raw` with that
number and the body bytes — the one exception being a `nil` body under an unregistered number, for
which the library zeroes the whole value (`unregistered 0 []`: not encodable, clears nothing) -/
theorem unknown_type_is_kept (fuel : Nat) (bs : Bytes) (cs : List (Cav Bytes))
    (h : decodeCavs fuel bs = some cs) :
    ∃ f xs rest ps, dec fuel bs = some (.arr f xs, rest) ∧ xs.length = 2 * cs.length ∧
      bs = encLen 0x90 0xdc 0xdc 0xdd f (2 * cs.length) ++ encL xs ++ rest ∧
      wirePairs xs.toList = some ps ∧ AllKept cs ps := by
  obtain ⟨f, xs, rest, hd, hl, hb⟩ := decodeCavs_header fuel bs cs h
  obtain ⟨f', xs', rest', ps, hd', hp, hk⟩ := decodeCavs_types fuel bs cs h
  rw [hd] at hd'
  cases hd'
  exact ⟨f, xs, rest, ps, hd, hl, hb, hp, hk⟩

/-- what `AllKept` says at one position -/
theorem type_number_at (cs : List (Cav Bytes)) (ps : List (Nat × V)) (h : AllKept cs ps) (i : Nat) (c : Cav Bytes)
    (hc : cs[i]? = some c) :
    cs.length = ps.length ∧ ∃ t b, ps[i]? = some (t, b) ∧
      ((registered t = true ∧ c.typ = UInt64.ofNat t) ∨
       (registered t = false ∧ b ≠ .nil ∧ c = .unregistered (UInt64.ofNat t) (enc b)) ∨
       (registered t = false ∧ b = .nil ∧ c = .unregistered 0 [])) := by
  obtain ⟨p, hp, hk⟩ := h.get i c hc
  exact ⟨h.length_eq, p.1, p.2, hp, hk⟩

/-! ### what is signed is what is cleared -/

/-- For ANY byte string `bs` that `Decode` accepts (canonical or not) and that `Verify` accepts under
`k` with any discharges:
1. every caveat of the decoded token is well formed, and the tail the verifier recomputed — and found
   equal to the presented one — is the HMAC chain (`macChain`) over the CANONICAL encodings `encCav c`
   of exactly the decoded caveats, in order (finalised for a proof);
2. the caveats handed to clearing are those decoded caveats (third-party and binding caveats are
   checked, not returned), followed by caveats of presented discharges that decode;
3. the canonical re-encoding of the token decodes to the very same token (nesting budget `+2`, see
   `reencode_fixed_point`): a holder who re-encodes MACs the same bytes as the verifier did. -/
theorem signed_is_cleared_bytes (k bs : Bytes) (ds : List Bytes) (tr : Bytes → List Bytes) (m : Mac Bytes)
    (cs : List (Cav Bytes)) (hd : Concrete.decode bs = some m) (hv : Concrete.verifyBytes k m ds tr = .ok cs) :
    ((∀ c ∈ m.cavs, WFCav c = true) ∧
      finIf m.nonce.proof (macChain (Concrete.hmac k (encNonce (Concrete.toNonce m.nonce))) m.cavs) = m.tail) ∧
    (∃ dcs, cs = m.cavs.filter (kept true) ++ dcs ∧
      ∀ c ∈ dcs, ∃ d ∈ ds.filterMap Concrete.decode, c ∈ d.cavs) ∧
    (WFMac (Concrete.toWire m) ∧ ∀ fuel' rest, defaultFuel + 2 ≤ fuel' →
      decodeMac fuel' (encMac (Concrete.toWire m) ++ rest) = some (Concrete.toWire m)) :=
  Lemmas.signed_is_cleared_bytes k bs ds tr m cs hd hv

/-- `macChain`, spelled out -/
theorem macChain_def (t : Bytes) (cs : List (Cav Bytes)) :
    macChain t [] = t ∧ ∀ c, macChain t (c :: cs) = macChain (Concrete.hmac t (encCav c)) cs :=
  ⟨by simp only [macChain, List.foldl_nil], fun _ => by simp only [macChain, List.foldl_cons]⟩

/-! ### non-vacuity / sanity -/

/-- a nested set: a resource set, a wrapper holding a `uint64` resource set, a nil-`Ifs` wrapper and
an unregistered caveat (type 99, body `{"a": 1}`), commands, a big integer, negative times -/
def sampleSet : List (Cav Bytes) :=
  [.volumes [([0x61], 3), ([0x62], 2)],
   .ifPresent false (.cons (.apps [(1, 1), (7, 31)]) (.cons (.ifPresent true .nil 0)
     (.cons (.unregistered 99 [0x81, 0xa1, 0x61, 0x01]) .nil))) 1,
   .commands (some [{ args := some [[0x78]], exact := true }]),
   .googleUserID 300, .validityWindow (-5) 10]

example : WFCavs sampleSet := ⟨by decide, by decide⟩
example : encDepth sampleSet = 5 := by decide
example : ∀ c ∈ sampleSet, encodable c = true := by decide
example : decodeCavs 5 (encCavSet sampleSet ++ [0xc1]) = some sampleSet :=
  decode_encode_cavs sampleSet 5 [0xc1] ⟨by decide, by decide⟩ (by decide)
/-- WF is needed: an unsorted resource set is re-sorted by the encoder, so it does not come back -/
example : WFCav (.volumes [([0x62], 2), ([0x61], 3)]) = false ∧
    encCav (.volumes [([0x62], 2), ([0x61], 3)]) = encCav (.volumes [([0x61], 3), ([0x62], 2)]) := by
  decide

/-- a token and a nonce within the encoder's domain -/
def sampleMac : WireMac :=
  { nonce := { kid := [1, 2], rnd := [3], version := 1, proof := true }, loc := [0x6c], cavs := sampleSet,
    tail := [9, 9] }
example : WFMac sampleMac := ⟨by decide, by decide, ⟨by decide, by decide⟩, by decide⟩
example : decodeMac 6 (encMac sampleMac) = some sampleMac := by
  have := decode_encode_mac sampleMac 6 [] ⟨by decide, by decide, ⟨by decide, by decide⟩, by decide⟩ (by decide)
  rwa [List.append_nil] at this
example : WFNonce { kid := [], rnd := [], version := 0, proof := false } = true := by decide
/-- version 0 cannot carry the proof flag: such a nonce is outside the domain -/
example : WFNonce { kid := [], rnd := [], version := 0, proof := true } = false := by decide

/-- hypotheses of `encode_order_independent`: `m["b"]=1; m["a"]=3; m["b"]=2` and `m["a"]=3; m["b"]=2` -/
example : ∀ k, lastVal k [(([0x62] : Bytes), (1 : Action)), ([0x61], 3), ([0x62], 2)]
    = lastVal k [([0x61], 3), ([0x62], 2)] := by
  intro k
  simp only [lastVal]
  cases h1 : ([0x61] : Bytes) == k <;> cases h2 : ([0x62] : Bytes) == k <;> simp
example : ofEntriesStr [([0x62], 1), ([0x61], 3), ([0x62], 2)] = [([0x61], 3), ([0x62], 2)] := by decide
example : NodupKeys [(([0x62] : Bytes), (2 : Action)), ([0x61], 3)] ∧
    [(([0x62] : Bytes), (2 : Action)), ([0x61], 3)].Perm [([0x61], 3), ([0x62], 2)] :=
  ⟨by simp [NodupKeys], List.Perm.swap _ _ _⟩

/-- a non-canonical accepted byte string: type number 2 as uint8, the resource set with unsorted and
duplicate keys (one of them a bin), a uint16 and an int8 for the masks, followed by a trailing byte:
`[cc 02, [{"b": 1, "a": cd 0003, bin"b": d0 02}]] ff` -/
def nonCanonical : Bytes :=
  [0x92, 0xcc, 0x02, 0x91, 0x83, 0xa1, 0x62, 0x01, 0xa1, 0x61, 0xcd, 0x00, 0x03, 0xc4, 0x01, 0x62,
   0xd0, 0x02, 0xff]

private def ncTree : V :=
  .arr .fix (.cons (.int .u8 2) (.cons (.arr .fix (.cons (.map .fix
    (.cons (.str .fix [0x62]) (.cons (.int .posFix 1) (.cons (.str .fix [0x61]) (.cons (.int .u16 3)
      (.cons (.bin .l8 [0x62]) (.cons (.int .i8 2) .nil))))))) .nil)) .nil))

private theorem asUint_int (bits : Nat) (f : IntFmt) (v : Int) :
    asUint bits (some (.int f v)) = Except.ok ((v % ((2 ^ 64 : Nat) : Int)).toNat % 2 ^ bits) := rfl

theorem nonCanonical_decodes :
    decodeCavs 3 nonCanonical = some [.volumes [([0x61], 3), ([0x62], 2)]] := by
  have he : nonCanonical = enc ncTree ++ [0xff] := by decide
  unfold decodeCavs
  rw [he, dec_enc ncTree 3 _ (by decide) (by decide)]
  simp only [ncTree, cavsOfV, VL.toList, cavPairs, asUint_int, pure_eq, bind_ok]
  have : ((2 : Int) % ((2 ^ 64 : Nat) : Int)).toNat % 2 ^ 64 = 2 := by decide
  rw [this, cavOfV]
  rfl

/-- … it is not the canonical encoding, and its re-encoding is a fixed point -/
example : encCavSet [.volumes [([0x61], 3), ([0x62], 2)]]
    = [0x92, 0x02, 0x91, 0x82, 0xa1, 0x61, 0x03, 0xa1, 0x62, 0x02] := by decide
example : decodeCavs 5 (encCavSet [.volumes [([0x61], 3), ([0x62], 2)]])
    = some [.volumes [([0x61], 3), ([0x62], 2)]] := by
  have := (reencode_fixed_point 3 nonCanonical _ nonCanonical_decodes (by decide)).2 5 [] (by decide)
  rwa [List.append_nil] at this

/-- why `fuel + 2`: `[2, nil]` nests one level and decodes to an empty `Volumes`, whose canonical
encoding `[2, [{}]]` nests three levels -/
theorem nil_body_decodes : decodeCavs 1 [0x92, 0x02, 0xc0] = some [.volumes []] := by
  have he : ([0x92, 0x02, 0xc0] : Bytes)
      = enc (.arr .fix (.cons (.int .posFix 2) (.cons .nil .nil))) ++ [] := by decide
  unfold decodeCavs
  rw [he, dec_enc _ 1 _ (by decide) (by decide)]
  simp only [cavsOfV, VL.toList, cavPairs, asUint_int, pure_eq, bind_ok]
  have : ((2 : Int) % ((2 ^ 64 : Nat) : Int)).toNat % 2 ^ 64 = 2 := by decide
  rw [this, cavOfV]
  rfl
example : encCavSet [.volumes []] = [0x92, 0x02, 0x91, 0x80] ∧ encDepth [.volumes []] = 3 := by decide
example : dec 2 (encCavSet [.volumes []]) = none := by decide

/-- hypotheses of `unregistered_passthrough`: type 99 with body `{"a": 1}` -/
example : registered (99 : UInt64).toNat = false ∧
    WF (V.ofMap [(V.ofStr [0x61], V.ofUint 1)]) = true ∧
    genericOk (V.ofMap [(V.ofStr [0x61], V.ofUint 1)]) = true ∧
    enc (V.ofMap [(V.ofStr [0x61], V.ofUint 1)]) = [0x81, 0xa1, 0x61, 0x01] := by decide
example : V.ofMap [(V.ofStr [0x61], V.ofUint 1)] ≠ .nil := by simp [V.ofMap]
/-- an unregistered caveat whose body was lost (nil on the wire) is the one value `encodable` excludes -/
example : encodable (.unregistered 0 [] : Cav Bytes) = false ∧ WFCav (.unregistered 0 []) = false := by decide


/-- hypotheses of `signed_is_cleared_bytes`: a freshly minted token, encoded, decodes and verifies
under its key (any key) -/
example (k : Bytes) (tr : Bytes → List Bytes) :
    Concrete.decode (encMac (Concrete.toWire (mint k [1] [0x6c] [3] false))) = some (mint k [1] [0x6c] [3] false) ∧
    Concrete.verifyBytes k (mint k [1] [0x6c] [3] false) [] tr = .ok [] := by
  constructor
  · have hw : WFMac (Concrete.toWire (mint k [1] [0x6c] [3] false)) := by
      refine ⟨?_, ?_, ⟨?_, ?_⟩, ?_⟩
      · simp only [mint, Concrete.toWire, Concrete.toNonce]; decide
      · simp only [mint, Concrete.toWire]; decide
      · simp [mint, Concrete.toWire]
      · simp only [mint, Concrete.toWire]; decide
      · simp only [mint, Concrete.toWire]
        rw [ConcreteCrypto.macNonce_length]; decide
    have := Macaroon.decode_encode_mac (Concrete.toWire (mint k [1] [0x6c] [3] false)) defaultFuel [] hw
      (by simp only [mint, Concrete.toWire]; decide)
    rw [List.append_nil] at this
    simp only [Concrete.decode, this, Option.map_some]
    rfl
  · simp [Concrete.verifyBytes, verify, verifyWith, mint, walk, dischargeAll, Crypto.ctEq]

/-- hypothesis of `unknown_type_is_kept` / `type_number_at`: `[99, {"a": 1}]` -/
example : decodeCavs 3 ([0x92, 0x63, 0x81, 0xa1, 0x61, 0x01] ++ []) = some [.unregistered 99 [0x81, 0xa1, 0x61, 0x01]] :=
  (unregistered_passthrough_bytes 99 (V.ofMap [(V.ofStr [0x61], V.ofUint 1)]) 3 [] (by decide) (by decide)
    (by simp [V.ofMap]) (by decide) (by decide)).1
/-- the exception: the zeroed value a `nil` body under an unregistered number decodes to cannot be encoded -/
example : encodable (.unregistered 0 [] : Cav Bytes) = false := by decide

end Macaroon.Props.C11

#print axioms Macaroon.Props.C11.encode_order_independent
#print axioms Macaroon.Props.C11.encode_order_independent_u64
#print axioms Macaroon.Props.C11.encode_order_independent_perm
#print axioms Macaroon.Props.C11.normal_form_is_the_map
#print axioms Macaroon.Props.C11.normal_form_is_the_map_u64
#print axioms Macaroon.Props.C11.encode_order_independent_bytes
#print axioms Macaroon.Props.C11.encode_order_independent_bytes_u64
#print axioms Macaroon.Props.C11.key_order_strict_total
#print axioms Macaroon.Props.C11.decode_encode_cavs
#print axioms Macaroon.Props.C11.decode_encode_cav
#print axioms Macaroon.Props.C11.decode_encode_mac
#print axioms Macaroon.Props.C11.decode_encode_ticket
#print axioms Macaroon.Props.C11.encode_injective
#print axioms Macaroon.Props.C11.reencode_fixed_point
#print axioms Macaroon.Props.C11.reencode_stable
#print axioms Macaroon.Props.C11.decodeCavsTopLevel_of_decodeCavs
#print axioms Macaroon.Props.C11.decodeCavsTopLevel_cases
#print axioms Macaroon.Props.C11.reencode_fixed_point_top
#print axioms Macaroon.Props.C11.top_level_nil_is_empty_set
#print axioms Macaroon.Props.C11.reencode_fixed_point_mac
#print axioms Macaroon.Props.C11.reencode_fixed_point_ticket
#print axioms Macaroon.Props.C11.unregistered_passthrough
#print axioms Macaroon.Props.C11.unregistered_passthrough_bytes
#print axioms Macaroon.Props.C11.unregistered_passthrough_in_set
#print axioms Macaroon.Props.C11.unknown_type_is_kept
#print axioms Macaroon.Props.C11.nonCanonical_decodes
#print axioms Macaroon.Props.C11.nil_body_decodes
#print axioms Macaroon.Props.C11.type_number_at
#print axioms Macaroon.Props.C11.signed_is_cleared_bytes
#print axioms Macaroon.Props.C11.macChain_def
