/-
C16 — the discharge service releases a discharge only after approval, once.

Model: `Macaroon/TP/Server.lean` (handler-level `step`/`exec`, store-operation level
`micro`/`Sys.step`/`Sys.run`); vocabulary and invariants: `Macaroon/Lemmas/TPServer.lean`.
Histories and traces are newest first; `exec as = (store, history)` after the action list `as`
from the empty store, `Sys.run sched = (system, trace)` after the schedule `sched`.

Statement form: every theorem quantifies over an arbitrary history `as` (any number of flows,
any secrets presented, any evictions) or schedule `sched` (any number of handlers, any
interleaving of their store operations) and speaks about the next action / about any returned
handler.  Since every prefix of a history is a history, this covers every position of every run.

Vocabulary (all defined in Lemmas/TPServer.lean):
  `sealer tid`, `opens v t` several services may share one store; the ticket atom `tid` is sealed under the
                           key of service `sealer tid`; `opens v t` = `DischargeTicket` with service `v`'s key
  `Issued h tid ps us`     an `init` at service `sealer tid` on ticket `good tid` (so it opened)
                           answered 201 with the fresh secrets `ps` (poll) and `us` (user)
  `lastDecision ps us h`   the latest successful Discharge*/Abort* on that flow, through either secret
  `Collected h ps`         some poll with `ps` handed out the stored answer
  `Evicted h k`            the LRU dropped key `k`
  `a.key?`, `a.notFoundOut` the key an action presents; the not-found answer of its handler
                           (404 `not found` for HTTP handlers, an error for Discharge*/Abort*)
  `InsertedT`, `lastDecisionT`, `DischargeJust`: the same notions over store-operation traces.

Trusted / idealised here (besides the shared base):
* BLAKE2b hashing of secrets is injective and the one-letter prefixes keep the user and poll
  namespaces apart (a store key is the pair ⟨role, secret⟩);
* the 16-byte random secrets are fresh and unguessable (drawn from a counter; a secret that was
  never issued is simply some other natural);
* `DischargeTicket` and the cryptography of discharges are abstracted to "the key opens the
  ticket or not" and "(ticket, caveats)" — that a discharge so built satisfies exactly the caveat
  whose ticket it carries is C04/C05; `Macaroon.Add`'s de-duplication of caveats is modelled;
* the LRU's own locking and each record's RWMutex: every store operation is atomic, except that
  `DeleteByPollSecret` is split into its lookup and its removals; eviction is arbitrary;
* services are named by naturals and ticket atoms are partitioned by the service whose key seals
  them (`sealer id = id % 2`: services 0 and 1; any other service opens nothing);
* the application calls exactly one responder per init request; which caveat lists
  `Macaroon.Add` refuses is abstracted to a predicate on caveat ids (`refuses`: id 0 is refused).
The correspondence (family `tp`) ties `step`, `micro` and the schedule semantics to the real
`tp.TP` + `tp.MemoryStore` behind a wrapping `tp.Store`.
-/
import Macaroon.Lemmas.TPServer
import Macaroon.Lemmas.TPDischarge
import Macaroon.Lemmas.TPPoll

namespace Macaroon.Props.C16
open Macaroon.TP

/-- inside this file `Action` is the service's action type (the token layer, imported for
`discharge_refines`, has a bit mask of the same name in the enclosing namespace) -/
abbrev Action := TP.Action

/-! ### handler-level histories -/

/-- A discharge leaves a service only (a) as the immediate answer of an `init` at the service whose
key opens the ticket, for that very ticket with the caveats the application passed, or (b) from a
poll AT THAT SERVICE with the poll secret of a flow that an `init` on that ticket started, when the
latest SUCCESSFUL decision on that very flow (`lastDecision` counts only calls that returned no
error) was an approval with exactly these caveats.  In both cases the caveat list is one
`Macaroon.Add` accepts as a whole (`refuses cs = false`): a discharge never carries a part of what
the application passed. -/
theorem discharge_only_after_approval (as : List Action) (a : Action) (d : Discharge)
    (hd : (step (exec as).1 a).2.discharge? = some d) :
    (∃ cs, a = .init (sealer d.ticket) (.good d.ticket) (.immediate cs) ∧ refuses cs = false ∧
      d = mkDischarge d.ticket cs) ∨
    (∃ ps us cs, a = .poll (sealer d.ticket) ps ∧ Issued (exec as).2 d.ticket ps us ∧
      lastDecision ps us (exec as).2 = some (.approve cs) ∧ refuses cs = false ∧
      d = mkDischarge d.ticket cs) :=
  (exec_inv as).discharge_justified (exec_dec_ok as) hd

/-- "Only for a ticket the service could open": whatever request hands out a discharge was
addressed to the service whose key opens the discharge's ticket. -/
theorem discharge_only_from_opening_service (as : List Action) (a : Action) (d : Discharge)
    (hd : (step (exec as).1 a).2.discharge? = some d) : a.svc? = some (sealer d.ticket) := by
  rcases discharge_only_after_approval as a d hd with ⟨cs, rfl, _⟩ | ⟨ps, us, cs, rfl, _⟩ <;> rfl

/-- In ANY store state: a poll at a service whose key does not open the flow's stored ticket answers
500 — whether the flow is pending or decided — and changes nothing (the flow stays for its own
service's client to collect). -/
theorem foreign_poll_changes_nothing (st : Store) (v s : Nat) (sd : Data)
    (hg : st.get (pollKey s) = some sd) (ho : opens v sd.ticket = none) :
    step st (.poll v s) = (st, .http 500 .internal false) :=
  step_foreign_poll hg ho

/-- … the same for the user page (the application is not invoked) and for `Discharge*` -/
theorem foreign_user_visit_changes_nothing (st : Store) (v s : Nat) (sd : Data)
    (hg : st.get (userKey s) = some sd) (ho : opens v sd.ticket = none) :
    step st (.userVisit v s) = (st, .http 500 .internal false) :=
  step_foreign_userVisit hg ho

theorem foreign_approval_changes_nothing (st : Store) (v : Nat) (r : Role) (s : Nat) (sd : Data) (cs : List Nat)
    (hg : st.get ⟨r, s⟩ = some sd) (ho : opens v sd.ticket = none) :
    step st (.decide v r s (.approve cs)) = (st, .api false) :=
  step_foreign_approval cs hg ho

/-- … and, on reachable states: a live flow (issued, poll key not evicted, not collected) polled at
any service other than the one that opened its ticket answers 500 and stays, decided or not. -/
theorem foreign_poll_on_issued_flow (as : List Action) (tid ps us v : Nat)
    (hi : Issued (exec as).2 tid ps us) (hne : ¬ Evicted (exec as).2 (pollKey ps))
    (hnc : ¬ Collected (exec as).2 ps) (hv : sealer tid ≠ v) :
    step (exec as).1 (.poll v ps) = ((exec as).1, .http 500 .internal false) := by
  obtain ⟨a, r, _, _, hg, ht, _⟩ := (exec_inv as).poll_live hi hne hnc
  exact step_foreign_poll hg (by rw [ht]; exact opens_none_of_ne hv)

/-- An approval whose caveat list `Macaroon.Add` refuses (id 0 in the list: an attestation inside a
wrapper caveat, a second third-party caveat for one location, an unencodable caveat) returns an
error and changes nothing — in ANY store state, at any service, through either secret: the flow
stays undecided or keeps its earlier decision. -/
theorem refused_approval_changes_nothing (st : Store) (v : Nat) (r : Role) (s : Nat) (cs : List Nat)
    (h : refuses cs = true) : step st (.decide v r s (.approve cs)) = (st, .api false) :=
  step_refused_approval st v r s h

/-- … and the immediate mode with such a list answers 500 without a discharge, nothing stored -/
theorem refused_immediate_no_discharge (st : Store) (tid : Nat) (cs : List Nat) (h : refuses cs = true) :
    step st (.init (sealer tid) (.good tid) (.immediate cs)) = (st, .http 500 .internal true) :=
  step_refused_immediate st tid h

/-- every decision call that returned no error in a history was an abort or an approval whose
caveats `Add` accepts -/
theorem recorded_approvals_are_accepted (as : List Action) (v : Nat) (r : Role) (s : Nat) (cs : List Nat)
    (h : (Action.decide v r s (.approve cs), Out.api true) ∈ (exec as).2) : refuses cs = false := by
  simpa [Decision.ok] using exec_dec_ok as v r s _ h

/-- what "the latest decision was `d`" means, spelled out: some earlier event is a successful
decision `d` on the flow and no event after it is a successful decision on the flow -/
theorem lastDecision_eq_some_iff (ps us : Nat) (h : Hist) (d : Decision) :
    lastDecision ps us h = some d ↔
      ∃ post e pre, h = post ++ e :: pre ∧ decisionOf ps us e = some d ∧ ∀ x ∈ post, decisionOf ps us x = none := by
  induction h with
  | nil => simp [lastDecision]
  | cons x h ih =>
    cases hx : decisionOf ps us x with
    | some d' =>
      simp only [lastDecision, hx]
      constructor
      · intro hd; cases hd; exact ⟨[], x, h, rfl, hx, by simp⟩
      · rintro ⟨post, e, pre, he, hde, hpost⟩
        cases post with
        | nil => simp at he; rw [← he.1, hx] at hde; exact hde
        | cons y post =>
          simp at he
          have := hpost y (by simp)
          rw [← he.1, hx] at this; cases this
    | none =>
      simp only [lastDecision, hx]
      rw [ih]
      constructor
      · rintro ⟨post, e, pre, he, hde, hpost⟩
        refine ⟨x :: post, e, pre, by simp [he], hde, ?_⟩
        intro y hy
        rcases List.mem_cons.1 hy with rfl | hy
        · exact hx
        · exact hpost y hy
      · rintro ⟨post, e, pre, he, hde, hpost⟩
        cases post with
        | nil => simp at he; rw [← he.1, hx] at hde; cases hde
        | cons y post =>
          simp at he
          exact ⟨post, e, pre, he.2, hde, fun z hz => hpost z (by simp [hz])⟩

/-- Before any decision on the flow (and unless the LRU dropped the poll key) a poll at the flow's
own service answers 202 "not ready", runs no application code, and the store is unchanged. -/
theorem not_ready_before_decision (as : List Action) (tid ps us : Nat)
    (hi : Issued (exec as).2 tid ps us) (hne : ¬ Evicted (exec as).2 (pollKey ps))
    (hnd : lastDecision ps us (exec as).2 = none) :
    step (exec as).1 (.poll (sealer tid) ps) = ((exec as).1, .http 202 .notReady false) :=
  (exec_inv as).not_ready hi hne hnd

/-- After an abort (the latest decision on the flow) the first poll at the flow's own service
delivers the application's error message — provided the answer was not collected before and the
poll key not evicted. -/
theorem abort_delivers_error (as : List Action) (tid ps us msg : Nat)
    (hi : Issued (exec as).2 tid ps us) (hne : ¬ Evicted (exec as).2 (pollKey ps))
    (hnc : ¬ Collected (exec as).2 ps) (hd : lastDecision ps us (exec as).2 = some (.abort msg)) :
    (step (exec as).1 (.poll (sealer tid) ps)).2 = .http 200 (.error msg) false := by
  obtain ⟨rsp, h1, h2⟩ := (exec_inv as).poll_delivers hi hne hnc hd
  simp [respOf] at h1; subst h1; exact h2

/-- … and after an approval it delivers the discharge for the flow's own ticket with exactly the
approved caveats. -/
theorem approve_delivers_discharge (as : List Action) (tid ps us : Nat) (cs : List Nat)
    (hi : Issued (exec as).2 tid ps us) (hne : ¬ Evicted (exec as).2 (pollKey ps))
    (hnc : ¬ Collected (exec as).2 ps) (hd : lastDecision ps us (exec as).2 = some (.approve cs)) :
    (step (exec as).1 (.poll (sealer tid) ps)).2 = .http 200 (.discharge (mkDischarge tid cs)) false := by
  obtain ⟨rsp, h1, h2⟩ := (exec_inv as).poll_delivers hi hne hnc hd
  simp [respOf] at h1; subst h1; exact h2

/-- Once a poll has delivered (discharge or error), every later poll, user visit, approval or abort
— at any service — that presents the flow's poll secret or user secret gets the not-found answer,
and nothing changes. -/
theorem gone_after_collection (as : List Action) (tid ps us : Nat) (a : Action) (k : Key)
    (hi : Issued (exec as).2 tid ps us) (hc : Collected (exec as).2 ps)
    (hk : a.key? = some k) (hkk : k = pollKey ps ∨ k = userKey us) :
    step (exec as).1 a = ((exec as).1, a.notFoundOut) :=
  (exec_inv as).gone_not_found hi hc hk hkk

/-- A secret that no `init` ever handed out for the endpoint it is presented to gets the
not-found answer, and nothing changes. -/
theorem unknown_secret_not_found (as : List Action) (a : Action) (k : Key)
    (hk : a.key? = some k) (hn : ¬ IssuedKey (exec as).2 k) :
    step (exec as).1 a = ((exec as).1, a.notFoundOut) :=
  (exec_inv as).unknown hk hn

/-- … in particular a flow's user secret presented as a poll secret and its poll secret presented
as a user secret. -/
theorem cross_used_secret_not_found (as : List Action) (tid ps us : Nat) (a : Action) (k : Key)
    (hi : Issued (exec as).2 tid ps us) (hk : a.key? = some k) (hkk : k = pollKey us ∨ k = userKey ps) :
    step (exec as).1 a = ((exec as).1, a.notFoundOut) := by
  have hc := (exec_inv as).cross hi
  refine (exec_inv as).unknown hk ?_
  rcases hkk with rfl | rfl
  · exact hc.1
  · exact hc.2

/-- the not-found answer: no application handler ran, no discharge -/
theorem not_found_is_silent (a : Action) :
    a.notFoundOut.appInvoked = false ∧ a.notFoundOut.discharge? = none ∧
    (a.notFoundOut = .http 404 .notFound false ∨ a.notFoundOut = .api false) := by
  cases a <;> simp [Action.notFoundOut, outNotFound, Out.appInvoked, Out.discharge?]

/-- A ticket the addressed service's key does not open (garbage, tampered, or sealed for another
service): 500 before the application runs, nothing stored (in any store state, whatever the
application would have done). -/
theorem bad_ticket_short_circuits (st : Store) (v : Nat) (t : Ticket) (m : Mode) (ho : opens v t = none) :
    step st (.init v t m) = (st, .http 500 .internal false) :=
  step_foreign_init st m ho

/-! ### the discharge, at the level of the token logic (C04/C05) -/

section refines
open Macaroon Macaroon.Lemmas Macaroon.Crypto
variable {B : Type} [Crypto B] [LawfulCrypto B]

/-- "The discharge satisfies exactly the caveat whose ticket started the flow and carries the caveats
the application chose."  `serviceDischarge ka loc ticket rnd cavs` is what `respondDischarge` /
`dischargePoller` compute (`DischargeTicket` with the service's key, `Add(cavs...)`, `String()`); the
state machine above abstracts it to `mkDischarge tid ids`.  Whenever it yields a discharge `d` (for
caveats that are neither third-party nor binding caveats nor wrapped attestations): the ticket opened
under the service's key to a discharge key `rn`; `d`'s key-id IS the ticket — so by C04
(`candidates_carry_the_ticket`) it is a candidate for the third-party caveats carrying that ticket and
for no other —; it is a proof located at the service; its caveats are exactly the application's, in
order, later duplicates (equal encodings) dropped; and it verifies under `rn`, the key the caveat's
VerifierKey unseals to, yielding exactly those caveats (C05 `legit_discharge_verifies`).  Holds for
every lawful instance: the symbolic one and the byte-level one. -/
theorem discharge_refines (ka : B) (loc : Bytes) (ticket rnd : B) (cavs : List (Cav B)) (d : Mac B) (ids : List B)
    (hc : ∀ c ∈ cavs, c.is3P = false ∧ c.isBind = false ∧ c.wrapsAttestation = false)
    (h : serviceDischarge ka loc ticket rnd cavs = some d) :
    ∃ rn tcs, openTicket ka ticket = .ok rn tcs ∧ d.nonce.kid = ticket ∧ d.loc = loc ∧ d.nonce.proof = true ∧
      d.cavs = (Macaroon.dedup [] (cavs.map AddItem.plain) []).map AddItem.asCav ∧
      verifyFlat rn d ids true = .ok d.cavs :=
  Lemmas.discharge_refines ka loc ticket rnd cavs d ids hc h

/-- a ticket the service's key does not open yields no discharge (the `bad` tickets of the model) -/
theorem unopened_ticket_no_discharge (ka : B) (loc : Bytes) (ticket rnd : B) (cavs : List (Cav B))
    (h : ∀ rn tcs, openTicket ka ticket ≠ .ok rn tcs) : serviceDischarge ka loc ticket rnd cavs = none :=
  serviceDischarge_none_of_unopened ka loc ticket rnd cavs h

/-- the caveat list of the model's discharge IS the caveat list of the real one: under any naming `ι`
of caveats by ids that identifies exactly the caveats with equal encodings, the discharge built from
`ids.map ι` carries `(mkDischarge tid ids).caveats.map ι` -/
theorem discharge_refines_model (ι : Nat → Cav B) (hι : ∀ a b, sameEnc (ι a) (ι b) = (a == b))
    (ka : B) (loc : Bytes) (ticket rnd : B) (tid : Nat) (cs : List Nat) (d : Mac B)
    (hc : ∀ c ∈ cs.map ι, c.is3P = false ∧ c.isBind = false ∧ c.wrapsAttestation = false)
    (h : serviceDischarge ka loc ticket rnd (cs.map ι) = some d) :
    d.cavs = (mkDischarge tid cs).caveats.map ι ∧ d.nonce.kid = ticket := by
  obtain ⟨rn, tcs, _, hk, _, _, hcavs, _⟩ := Lemmas.discharge_refines ka loc ticket rnd (cs.map ι) d [] hc h
  exact ⟨by rw [hcavs, tp_dedup_abstracts ι hι cs]; rfl, hk⟩

/-- non-vacuity: for a ticket sealed under the service's key (an AEAD key, an AEAD nonce, a body
within the codec's domain) the service does build a discharge, here without extra caveats -/
example (ka tn rn rnd : B) (loc : Bytes) (tcs : List (Cav B)) (hk : LawfulCrypto.okKey ka) (hn : LawfulCrypto.okNonce tn)
    (hb : LawfulCrypto.okTicketBody rn tcs) :
    serviceDischarge ka loc (sealTicket ka tn rn tcs) rnd [] =
      some (encodeState (mint rn (sealTicket ka tn rn tcs) loc rnd true)) := by
  simp [serviceDischarge, dischargeTicket, LawfulCrypto.openTicket_sealTicket ka tn rn tcs hk hn hb, add, mint,
    allEncodable, Macaroon.dedup, addLoop]

end refines

/-! ### every interleaving of store operations -/

/-- Whatever the schedule: a handler that returned a discharge `d` is an `init` at the service that
opens ticket `d.ticket`, answering immediately with these caveats, or a poll AT THAT SERVICE whose
`Get` happened when — in the trace `pre` up to that `Get` — the flow had been inserted by an `init`
on ticket `d.ticket` and the last successful `Update` on the flow was an approval with exactly
these caveats. -/
theorem il_discharge_only_after_approval (sched : List Sched) (i : Nat) (a : Action) (o : Out) (d : Discharge)
    (hret : Ev.returned i a o ∈ (Sys.run sched).2) (hd : o.discharge? = some d) :
    (∃ cs, a = .init (sealer d.ticket) (.good d.ticket) (.immediate cs) ∧ refuses cs = false ∧
      d = mkDischarge d.ticket cs) ∨
    (∃ ps us cs pre data, a = .poll (sealer d.ticket) ps ∧
      (Ev.op i a (.got (pollKey ps) (some data)) :: pre) <:+ (Sys.run sched).2 ∧
      InsertedT pre d.ticket ps us ∧ lastDecisionT ps us pre = some (.approve cs) ∧ refuses cs = false ∧
      d = mkDischarge d.ticket cs) :=
  ((run_inv sched).t.rets i a o hret).1 d hd

/-- … so, whatever the schedule, a discharge is only ever returned by a handler of the service
whose key opens its ticket -/
theorem il_discharge_only_from_opening_service (sched : List Sched) (i : Nat) (a : Action) (o : Out)
    (d : Discharge) (hret : Ev.returned i a o ∈ (Sys.run sched).2) (hd : o.discharge? = some d) :
    a.svc? = some (sealer d.ticket) := by
  rcases il_discharge_only_after_approval sched i a o d hret hd with
    ⟨cs, rfl, _⟩ | ⟨ps, us, cs, pre, data, rfl, _⟩ <;> rfl

/-- In any store state the poll handler of a service that cannot open the stored ticket returns 500
right after its `Get`: it performs no other store operation, so under every interleaving it
changes nothing. -/
theorem il_foreign_poll_changes_nothing (st : Store) (v s : Nat) (sd : Data)
    (hg : st.get (pollKey s) = some sd) (ho : opens v sd.ticket = none) :
    micro st (.poll v s) .start = (st, .done (.http 500 .internal false), [.got (pollKey s) (some sd)]) :=
  micro_foreign_poll hg ho

/-- Whatever the schedule: a `Discharge*` call whose caveat list `Add` refuses returns an error,
never performs a successful `Update` (so it changes no record), and such a list is never the
latest decision of any flow at any time. -/
theorem il_refused_approval_changes_nothing (sched : List Sched) (v : Nat) (r : Role) (s : Nat) (cs : List Nat)
    (h : refuses cs = true) :
    (∀ i o, Ev.returned i (.decide v r s (.approve cs)) o ∈ (Sys.run sched).2 → o = .api false) ∧
    (∀ i k nd, Ev.op i (.decide v r s (.approve cs)) (.updated k nd true) ∉ (Sys.run sched).2) ∧
    (∀ ps us, lastDecisionT ps us (Sys.run sched).2 ≠ some (.approve cs)) := by
  have inv := run_inv sched
  refine ⟨fun i o hret => (inv.t.rets _ _ _ hret).2.2.2 v r s cs rfl h, ?_, ?_⟩
  · intro i k nd hm
    have := inv.s.upd_ok _ _ _ _ _ _ _ hm
    simp [Decision.ok, h] at this
  · intro ps us hl
    obtain ⟨i, v', r', s', k, nd, hm⟩ := lastDecisionT_mem hl
    have := inv.s.upd_ok _ _ _ _ _ _ _ hm
    simp [Decision.ok, h] at this

/-- Whatever the schedule: a handler presented with a key that no `Insert` ever filed returns the
not-found answer. -/
theorem il_unknown_secret_not_found (sched : List Sched) (i : Nat) (a : Action) (o : Out) (k : Key)
    (hret : Ev.returned i a o ∈ (Sys.run sched).2) (hk : a.key? = some k)
    (hn : ¬ InsertedKey (Sys.run sched).2 k) : o = a.notFoundOut := by
  rcases ((run_inv sched).t.rets i a o hret).2.1 k hk with h | h
  · exact h
  · exact absurd h hn

/-- … cross-used secrets are such keys -/
theorem il_cross_used_not_inserted (sched : List Sched) (tid ps us : Nat)
    (hi : InsertedT (Sys.run sched).2 tid ps us) :
    ¬ InsertedKey (Sys.run sched).2 (pollKey us) ∧ ¬ InsertedKey (Sys.run sched).2 (userKey ps) := by
  have inv := (run_inv sched).s
  obtain ⟨a, _, rfl, rfl⟩ := inv.issued _ _ _ hi
  constructor
  · rintro ⟨t, ps', us', hi', hk⟩
    obtain ⟨b, _, rfl, rfl⟩ := inv.issued _ _ _ hi'
    simp at hk; omega
  · rintro ⟨t, ps', us', hi', hk⟩
    obtain ⟨b, _, rfl, rfl⟩ := inv.issued _ _ _ hi'
    simp at hk; omega

/-- Happens-before form of "gone after collection", for every schedule `s0 ++ s1`: once a
delivering poll has RETURNED (during `s0`), every handler — of any service — that STARTS later (its
index is at least the number of handlers spawned during `s0`) and presents the flow's poll or user
secret returns the not-found answer. -/
theorem il_gone_after_collection_hb (s0 s1 : List Sched) (i v ps us tid : Nat) (o : Out)
    (hret : Ev.returned i (.poll v ps) o ∈ (Sys.run s0).2) (hdel : o.delivers = true)
    (hins : InsertedT (Sys.run s0).2 tid ps us)
    (j : Nat) (a : Action) (o' : Out) (hj : (Sys.run s0).1.threads.length ≤ j)
    (hret' : Ev.returned j a o' ∈ (Sys.run (s0 ++ s1)).2)
    (k : Key) (hk : a.key? = some k) (hkk : k = pollKey ps ∨ k = userKey us) : o' = a.notFoundOut := by
  have : Sys.run (s0 ++ s1) = s1.foldl Sys.step (Sys.run s0) := by simp [Sys.run, List.foldl_append]
  rw [this] at hret'
  exact gone_hb s0 s1 hret hdel hins hj hret' hk hkk

/-- Whatever the schedule: EVERY answer of a poll handler is justified by what its own `Get` returned
(`PollAns`): the key was not there → 404 "not found"; the stored ticket does not open under the
addressed service's key → 500; a record without a response → 202 "not ready"; a record with a stored
response `r` → exactly `r` (or 500 when the delete that precedes delivery finds the key gone).  So,
under every interleaving, "not ready" is only ever answered for a flow that was undecided when the
handler looked, an abort's error / an approval's discharge is only delivered from a record that held
it, and nothing else can be answered.  (`il_discharge_only_after_approval` adds what a stored
discharge implies about the trace before that `Get`.) -/
theorem il_poll_answer_justified (sched : List Sched) (i v s : Nat) (o : Out)
    (hret : Ev.returned i (.poll v s) o ∈ (Sys.run sched).2) :
    ∃ res, Ev.op i (.poll v s) (.got (pollKey s) res) ∈ (Sys.run sched).2 ∧ PollAns v res o :=
  (pinv_run sched).ret i v s o hret

/-- **Every poll answer, linked to the trace before its `Get`** — under every schedule.  A returned
poll handler performed its `Get` when the trace was `pre`, and
* either the key was not there: it answers 404, and if an `init` had inserted that poll secret before,
  then — before the `Get` — the LRU dropped the key or a delivering poll removed the flow;
* or it found the record of a flow `a` (`ps = 2a+1`, user secret `2a`: the only user secret ever
  inserted with `ps`) that an `init` on ticket `tid` inserted, and its answer is determined by the
  service addressed and the LAST successful decision on that flow in `pre` (`AnswerFor`): another
  service → 500; the ticket's own service: no decision yet → 202 "not ready"; an approval → that
  discharge (or 500 if the delete before delivery finds the key gone: dropped, or taken by a racing
  poll); an abort → that error (or 500 likewise). -/
theorem il_poll_answer_linked (sched : List Sched) (i v ps : Nat) (o : Out)
    (hret : Ev.returned i (.poll v ps) o ∈ (Sys.run sched).2) :
    ∃ res pre, (Ev.op i (.poll v ps) (.got (pollKey ps) res) :: pre) <:+ (Sys.run sched).2 ∧
      ((res = none ∧ o = .http 404 .notFound false ∧
          ∀ a tid us, ps = 2 * a + 1 → InsertedT pre tid ps us →
            Ev.evicted (pollKey ps) ∈ pre ∨ ∃ j act, Ev.op j act (.removed a) ∈ pre) ∨
       (∃ sd a tid, res = some sd ∧ ps = 2 * a + 1 ∧ sd.ticket = .good tid ∧ InsertedT pre tid ps (2 * a) ∧
          (∀ t u, InsertedT pre t ps u → u = 2 * a) ∧ AnswerFor v tid (lastDecisionT ps (2 * a) pre) o)) :=
  poll_answer_cases sched i v ps o hret

/-- **The positive clauses under every interleaving.**  For a completed poll whose `Get` happened at
`pre`: if some `init` had inserted its poll secret by then and, by then, the key was neither dropped
by the LRU nor the flow removed by a delivering poll ("before collection"), then the handler found
the flow's record — inserted on some ticket `tid`, user secret `us` — and, AT THE TICKET'S OWN
SERVICE: before any decision it answers 202 "not ready"; after an approval with `cs` (the last
successful decision) it delivers the discharge for that ticket with exactly `cs`; after an abort it
delivers that error — or, in the last two cases, 500 when the delete that precedes delivery finds the
key gone (a racing poll collected first, or the LRU dropped it in between). -/
theorem il_live_flow_answered (sched : List Sched) (i v ps : Nat) (o : Out)
    (hret : Ev.returned i (.poll v ps) o ∈ (Sys.run sched).2) :
    ∃ res pre, (Ev.op i (.poll v ps) (.got (pollKey ps) res) :: pre) <:+ (Sys.run sched).2 ∧
      ((∃ t u, InsertedT pre t ps u) → Ev.evicted (pollKey ps) ∉ pre →
        (∀ j act a, ps = 2 * a + 1 → Ev.op j act (.removed a) ∉ pre) →
        ∃ tid us, InsertedT pre tid ps us ∧ (v = sealer tid →
          (lastDecisionT ps us pre = none → o = .http 202 .notReady false) ∧
          (∀ cs, lastDecisionT ps us pre = some (.approve cs) →
            o = .http 200 (.discharge (mkDischarge tid cs)) false ∨ o = .http 500 .internal false) ∧
          (∀ msg, lastDecisionT ps us pre = some (.abort msg) →
            o = .http 200 (.error msg) false ∨ o = .http 500 .internal false))) := by
  obtain ⟨res, pre, hs, hc⟩ := poll_answer_cases sched i v ps o hret
  refine ⟨res, pre, hs, ?_⟩
  rintro ⟨t, u, hins⟩ hne hnr
  rcases hc with ⟨_, _, hgone⟩ | ⟨sd, a, tid, _, hps, _, hi, _, hans⟩
  · exfalso
    obtain ⟨a, hps, _⟩ : ∃ a, ps = 2 * a + 1 ∧ True := by
      obtain ⟨a', _, h1, _⟩ := ((hinv_run sched).f.s.issued t ps u (by
        obtain ⟨j, m, hm⟩ := hins
        exact ⟨j, m, (List.suffix_cons _ _ |>.trans hs).subset hm⟩))
      exact ⟨a', h1, trivial⟩
    rcases hgone a t u hps hins with h | ⟨j, act, h⟩
    · exact hne h
    · exact hnr j act a hps h
  · refine ⟨tid, 2 * a, hi, ?_⟩
    intro hv
    rcases hans with ⟨hne', _⟩ | ⟨_, hm⟩
    · exact absurd hv hne'
    · refine ⟨fun hd => by simpa [hd] using hm, fun cs hd => by simpa [hd] using hm, fun msg hd => by simpa [hd] using hm⟩

/-- `PollAns`, spelled out -/
theorem pollAns_iff (v : Nat) (res : Option Data) (o : Out) :
    PollAns v res o ↔
      (res = none ∧ o = .http 404 .notFound false) ∨
      (∃ sd, res = some sd ∧ opens v sd.ticket = none ∧ o = .http 500 .internal false) ∨
      (∃ sd tid, res = some sd ∧ opens v sd.ticket = some tid ∧ sd.resp = none ∧ o = .http 202 .notReady false) ∨
      (∃ sd tid r, res = some sd ∧ opens v sd.ticket = some tid ∧ sd.resp = some r ∧
        (o = .http r.status r.body false ∨ o = .http 500 .internal false)) := by
  unfold PollAns
  cases res with
  | none => simp [outNotFound]
  | some sd =>
    cases ho : opens v sd.ticket with
    | none => simp [outInternal, ho]
    | some tid =>
      cases hr : sd.resp with
      | none => simp [outNotReady, ho, hr]
      | some r => simp [deliver, outInternal, ho, hr]

/-- The two semantics agree on sequential schedules: running every handler to completion before
the next is spawned yields the handler-level store and, per handler, the handler-level answer. -/
theorem sequential_schedule_refines (as : List Action) :
    (Sys.run (seqSched 0 as)).1 = { store := (exec as).1, threads := seqThreads Store.empty as } :=
  seq_refines as

/-- Observation, not part of the property (it speaks about polls AFTER collection): two polls
racing on one secret can both be answered, because `DeleteByPollSecret` is get-then-remove.
The witness schedule: both `Get`, both pass the lookup of `Delete`, both remove, both deliver. -/
theorem racing_polls_both_answered :
    (Sys.run racingPolls).1.threads.map (·.pc) =
      [.done (.http 201 (.pollUrl 1 0) true), .done (.api true),
       .done (.http 200 (.discharge ⟨7, [3]⟩) false), .done (.http 200 (.discharge ⟨7, [3]⟩) false)] := by
  decide

/-! ### non-vacuity: the hypotheses are satisfiable and the conclusions are not trivial
(ticket 7 is sealed for service 1, ticket 6 for service 0) -/

/-- a history on which (b) of `discharge_only_after_approval` fires -/
example : (step (exec [.init 1 (.good 7) .poll, .approvePoll 1 1 [3, 3, 4]]).1 (.poll 1 1)).2.discharge? =
    some ⟨7, [3, 4]⟩ := by decide

/-- two services over one store: service 0 cannot start, approve or collect service 1's flow —
pending or decided, it answers 500 and the flow stays — but its `Abort*` (which never opens the
ticket) is recorded; service 1's client collects once; afterwards both answer not found -/
example : outputs [.init 0 (.good 7) .poll, .init 1 (.good 7) .poll, .poll 0 1, .approvePoll 0 1 [3],
    .approvePoll 1 1 [3], .poll 0 1, .userVisit 0 0, .poll 1 1, .poll 0 1, .poll 1 1] =
    [.http 500 .internal false, .http 201 (.pollUrl 1 0) true, .http 500 .internal false, .api false,
     .api true, .http 500 .internal false, .http 500 .internal false,
     .http 200 (.discharge ⟨7, [3]⟩) false, .http 404 .notFound false, .http 404 .notFound false] := by decide

example : outputs [.init 1 (.good 7) .poll, .abortPoll 0 1 4, .poll 0 1, .poll 1 1] =
    [.http 201 (.pollUrl 1 0) true, .api true, .http 500 .internal false, .http 200 (.error 4) false] := by decide

/-- a refused caveat (id 0) anywhere in the list: the approval errs, the poll still answers not ready,
an earlier approval stays in force, the immediate mode answers 500 -/
example : outputs [.init 1 (.good 7) .poll, .approvePoll 1 1 [3, 0, 4], .poll 1 1, .approveUser 1 0 [5],
    .approvePoll 1 1 [0], .poll 1 1, .init 1 (.good 7) (.immediate [4, 0])] =
    [.http 201 (.pollUrl 1 0) true, .api false, .http 202 .notReady false, .api true,
     .api false, .http 200 (.discharge ⟨7, [5]⟩) false, .http 500 .internal true] := by decide

/-- … and one on which a later abort overrides the approval: no discharge -/
example : (step (exec [.init 1 (.good 7) .poll, .approvePoll 1 1 [3], .abortUser 1 0 5]).1 (.poll 1 1)).2 =
    .http 200 (.error 5) false := by decide

/-- the hypotheses of `not_ready_before_decision` hold on a one-flow history -/
example : step (exec [.init 1 (.good 7) .userInteractive]).1 (.poll 1 1) =
    ((exec [.init 1 (.good 7) .userInteractive]).1, .http 202 .notReady false) :=
  not_ready_before_decision _ 7 1 0 ⟨_, List.mem_cons_self, .userInteractive, _, rfl, .inr rfl⟩
    (by rintro ⟨o, ho⟩; simp [exec, stepH, step, opens, sealer, initGood] at ho) (by decide)

example : Collected (exec [.init 1 (.good 7) .poll, .abortPoll 1 1 2, .poll 1 1]).2 1 :=
  ⟨1, .http 200 (.error 2) false, by decide, rfl⟩

/-- after collection: the second poll, the user page and a late approval all answer not found -/
example : (outputs [.init 1 (.good 7) .poll, .abortPoll 1 1 2, .poll 1 1, .poll 1 1, .userVisit 1 0,
    .approveUser 1 0 []]).drop 3 =
    [.http 404 .notFound false, .http 404 .notFound false, .api false] := by decide

/-- a schedule on which the poll case of `il_discharge_only_after_approval` fires -/
example : Ev.returned 2 (.poll 1 1) (.http 200 (.discharge ⟨7, [3]⟩) false) ∈
    (Sys.run [.spawn (.init 1 (.good 7) .poll), .step 0, .spawn (.approvePoll 1 1 [3]), .step 1, .step 1,
      .spawn (.poll 1 1), .step 2, .step 2, .step 2]).2 := by decide

/-- … a handler started after that poll returned finds nothing (`il_gone_after_collection_hb`),
and so does a guessed secret (`il_unknown_secret_not_found`) -/
example : Ev.returned 3 (.userVisit 0 0) (.http 404 .notFound false) ∈
    (Sys.run [.spawn (.init 1 (.good 7) .poll), .step 0, .spawn (.approvePoll 1 1 [3]), .step 1, .step 1,
      .spawn (.poll 1 1), .step 2, .step 2, .step 2, .spawn (.userVisit 0 0), .step 3]).2 := by decide

example : Ev.returned 0 (.poll 0 9) (.http 404 .notFound false) ∈ (Sys.run [.spawn (.poll 0 9), .step 0]).2 := by
  decide

/-- hypothesis of `il_poll_answer_justified`: the delivering poll of the schedule above, and a poll
that races ahead of the approval and is told "not ready" -/
example : ∃ res, Ev.op 2 (.poll 1 1) (.got (pollKey 1) res) ∈
    (Sys.run [.spawn (.init 1 (.good 7) .poll), .step 0, .spawn (.approvePoll 1 1 [3]), .step 1, .step 1,
      .spawn (.poll 1 1), .step 2, .step 2, .step 2]).2 ∧ PollAns 1 res (.http 200 (.discharge ⟨7, [3]⟩) false) :=
  il_poll_answer_justified _ 2 1 1 _ (by decide)
example : Ev.returned 2 (.poll 1 1) (.http 202 .notReady false) ∈
    (Sys.run [.spawn (.init 1 (.good 7) .poll), .step 0, .spawn (.approvePoll 1 1 [3]), .step 1,
      .spawn (.poll 1 1), .step 2, .step 1]).2 := by decide

/-- hypotheses of `il_live_flow_answered` on the "not ready" schedule above: the flow was inserted and
is neither evicted nor removed when the racing poll looks -/
example : ∃ res pre, (Ev.op 2 (.poll 1 1) (.got (pollKey 1) res) :: pre) <:+
    (Sys.run [.spawn (.init 1 (.good 7) .poll), .step 0, .spawn (.approvePoll 1 1 [3]), .step 1,
      .spawn (.poll 1 1), .step 2, .step 1]).2 ∧ PollAns 1 res (.http 202 .notReady false) :=
  by
    obtain ⟨res, pre, h1, h2, _⟩ := poll_answer_linked
      [.spawn (.init 1 (.good 7) .poll), .step 0, .spawn (.approvePoll 1 1 [3]), .step 1,
        .spawn (.poll 1 1), .step 2, .step 1] 2 1 1 (.http 202 .notReady false) (by decide)
    exact ⟨res, pre, h1, h2⟩

end Macaroon.Props.C16

#print axioms Macaroon.Props.C16.discharge_only_after_approval
#print axioms Macaroon.Props.C16.discharge_only_from_opening_service
#print axioms Macaroon.Props.C16.foreign_poll_changes_nothing
#print axioms Macaroon.Props.C16.foreign_user_visit_changes_nothing
#print axioms Macaroon.Props.C16.foreign_approval_changes_nothing
#print axioms Macaroon.Props.C16.foreign_poll_on_issued_flow
#print axioms Macaroon.Props.C16.refused_approval_changes_nothing
#print axioms Macaroon.Props.C16.refused_immediate_no_discharge
#print axioms Macaroon.Props.C16.recorded_approvals_are_accepted
#print axioms Macaroon.Props.C16.lastDecision_eq_some_iff
#print axioms Macaroon.Props.C16.not_ready_before_decision
#print axioms Macaroon.Props.C16.abort_delivers_error
#print axioms Macaroon.Props.C16.approve_delivers_discharge
#print axioms Macaroon.Props.C16.gone_after_collection
#print axioms Macaroon.Props.C16.unknown_secret_not_found
#print axioms Macaroon.Props.C16.cross_used_secret_not_found
#print axioms Macaroon.Props.C16.not_found_is_silent
#print axioms Macaroon.Props.C16.bad_ticket_short_circuits
#print axioms Macaroon.Props.C16.il_discharge_only_after_approval
#print axioms Macaroon.Props.C16.il_discharge_only_from_opening_service
#print axioms Macaroon.Props.C16.il_foreign_poll_changes_nothing
#print axioms Macaroon.Props.C16.il_refused_approval_changes_nothing
#print axioms Macaroon.Props.C16.il_unknown_secret_not_found
#print axioms Macaroon.Props.C16.il_cross_used_not_inserted
#print axioms Macaroon.Props.C16.il_gone_after_collection_hb
#print axioms Macaroon.Props.C16.sequential_schedule_refines
#print axioms Macaroon.Props.C16.racing_polls_both_answered
#print axioms Macaroon.Props.C16.discharge_refines
#print axioms Macaroon.Props.C16.unopened_ticket_no_discharge
#print axioms Macaroon.Props.C16.discharge_refines_model
#print axioms Macaroon.Props.C16.il_poll_answer_justified
#print axioms Macaroon.Props.C16.pollAns_iff
#print axioms Macaroon.Props.C16.il_poll_answer_linked
#print axioms Macaroon.Props.C16.il_live_flow_answered
